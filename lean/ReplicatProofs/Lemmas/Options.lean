import ReplicatModel.Options
/-!
Helper lemmas for C19 (`Properties/C19.lean`): facts about the generated table (by `decide`), evaluation of the
pipeline's building blocks on "simple" inputs (at most one way of setting the option per source).
-/
namespace Replicat.Options
open Replicat.Gen

variable {V : Type}

/-! ## the generated tables -/

/-- the order of the calls in `main()` is the one the closed forms below were computed for -/
theorem steps_eq : optSteps = [.initialParse, .readConfig, .applyKnown, .applyEnv, .repoOverride, .loadBackend,
    .backendApplyKnown, .backendApplyEnv, .defaultsCfg, .defaultsBackend, .makeMainParser, .secondParse, .handler] := by
  decide

/-- every sub-command is built from the three parent parsers and receives `set_defaults(**defaults)` -/
theorem cmds_ok : ∀ cmd ∈ optCommands, cmd.setDefaults = true ∧ cmd.parents = true ∧ cmd.parentGroupsKept = true := by
  decide

/-- type functions whose result is never a `str` (tuple, Path, int, bytes, bool) -/
def nonStrTy : OptTy → Bool
  | .parseRepository | .path | .naturalNumberCfg | .readBytesCfg | .strEncode | .checkBoolean
  | .convertLogLevel | .environb => true
  | _ => false

/-- what the proofs need to know about a row that is not backend-specific -/
def wfMain (row : OptRow) : Bool :=
  (row.scope == 0 || row.scope == 1 || row.scope == 3) &&
  row.builtinKind != 2 &&
  row.file.all (fun f => f.kind != .other && nonStrTy f.ty) &&
  (match row.env with
    | some (_, ty) => nonStrTy ty
    | none => true) &&
  (row.inCfg || (row.file.isEmpty && row.env.isNone)) &&
  (row.scope != 3 || !row.inCfg) &&
  (!row.early || (row.scope == 0 && row.inCfg))

theorem rows_wfMain : ∀ row ∈ optRows, row.scope ≠ 2 → wfMain row = true := by decide

/-- backend-specific rows: one flag, one environment variable, one file key, all through `guess_type` -/
def wfBackend (row : OptRow) : Bool :=
  row.inCfg && !row.early &&
  (match row.cli with
    | [v] => v.kind == .typed && v.ty == .guessType
    | _ => false) &&
  (match row.env with
    | some (_, ty) => ty == .guessType
    | none => false) &&
  (match row.file with
    | [f] => f.kind == .plain && f.ty == .guessType
    | _ => false)

theorem rows_wfBackend : ∀ row ∈ optRows, row.scope = 2 → wfBackend row = true := by decide

/-! ## closed forms of the pipeline, per kind of option (the steps are unfolded in the extracted order) -/

/-- second parse: occurrence, else the (possibly converted) default -/
def finish (sem : Sem V) (row : OptRow) (inp : Inputs V) (d : V) (atLoad : V) : Except Err (Obs V) :=
  match parseCli sem row inp.cli [] none with
  | .error e => .error e
  | .ok (some v) => .ok { final := v, atLoad := atLoad }
  | .ok none => match defaultValue sem row d with
    | .error e => .error e
    | .ok v => .ok { final := v, atLoad := atLoad }

theorem pipeline_cmd (sem : Sem V) (cmd : OptCommand) (row : OptRow) (inp : Inputs V)
    (hc : cmd.setDefaults = true) (hp : cmd.parents = true) (hs : row.scope = 3) (hcfg : row.inCfg = false)
    (he : row.early = false) :
    pipeline sem cmd row inp = finish sem row inp inp.builtin inp.builtin := by
  unfold pipeline finish
  rw [steps_eq]
  simp [run, step, init, hc, hp, isBackend, hs, hcfg, he]
  cases hA : parseCli sem row inp.cli [] none with
  | error e => simp
  | ok o =>
    cases o with
    | some v => simp
    | none =>
      simp
      cases hD : defaultValue sem row inp.builtin <;> simp

/-- the config value of a main option: file, then environment -/
def cfgMain (sem : Sem V) (row : OptRow) (inp : Inputs V) : Except Err V :=
  if fileMutexViolated row (overlay inp.dflt inp.prof) then .error .invalidConfig
  else match applyFileVars sem row.file (overlay inp.dflt inp.prof) 0 inp.builtin with
    | .error e => .error e
    | .ok c => applyEnvVar sem row inp.env c

theorem pipeline_common (sem : Sem V) (cmd : OptCommand) (row : OptRow) (inp : Inputs V)
    (hc : cmd.setDefaults = true) (hp : cmd.parents = true) (hs : row.scope = 1)
    (he : row.early = false) :
    pipeline sem cmd row inp =
      match cfgMain sem row inp with
      | .error e => .error e
      | .ok c => finish sem row inp (if row.inCfg then c else inp.builtin) c := by
  unfold pipeline finish cfgMain
  rw [steps_eq]
  simp [run, step, init, hc, hp, isBackend, hs, he]
  cases hM : fileMutexViolated row (overlay inp.dflt inp.prof) <;> simp
  cases hF : applyFileVars sem row.file (overlay inp.dflt inp.prof) 0 inp.builtin with
  | error e => simp
  | ok c =>
    simp
    cases hE : applyEnvVar sem row inp.env c with
    | error e => simp
    | ok c2 =>
      simp
      cases hcfg : row.inCfg <;> simp <;>
      (cases hA : parseCli sem row inp.cli [] none with
      | error e => simp
      | ok o =>
        cases o with
        | some v => simp
        | none =>
          simp
          first
          | (cases hD : defaultValue sem row inp.builtin <;> simp)
          | (cases hD : defaultValue sem row c2 <;> simp))

theorem pipeline_initial (sem : Sem V) (cmd : OptCommand) (row : OptRow) (inp : Inputs V)
    (hc : cmd.setDefaults = true) (hp : cmd.parents = true) (hs : row.scope = 0) :
    pipeline sem cmd row inp =
      match parseCli sem row inp.cli [] none with
      | .error e => .error e
      | .ok first =>
        match cfgMain sem row inp with
        | .error e => .error e
        | .ok c =>
          finish sem row inp (if row.inCfg then (if row.early then first.getD c else c) else inp.builtin)
            (if row.early then first.getD c else c) := by
  unfold pipeline finish cfgMain
  rw [steps_eq]
  simp [run, step, init, hc, hp, isBackend, hs]
  cases hA : parseCli sem row inp.cli [] none with
  | error e => simp
  | ok first =>
    simp
    cases hM : fileMutexViolated row (overlay inp.dflt inp.prof) <;> simp
    cases hF : applyFileVars sem row.file (overlay inp.dflt inp.prof) 0 inp.builtin with
    | error e => simp
    | ok c =>
      simp
      cases hE : applyEnvVar sem row inp.env c with
      | error e => simp
      | ok c2 =>
        simp
        cases he : row.early <;> cases hcfg : row.inCfg <;> cases first <;> simp <;>
        first
        | (cases hD : defaultValue sem row inp.builtin <;> simp)
        | (cases hD : defaultValue sem row c2 <;> simp)
        | skip

theorem pipeline_backend (sem : Sem V) (cmd : OptCommand) (row : OptRow) (inp : Inputs V)
    (hc : cmd.setDefaults = true) (hp : cmd.parents = true) (hs : row.scope = 2) (he : row.early = false) :
    pipeline sem cmd row inp =
      match applyFileVars sem row.file (overlay inp.dflt inp.prof) 0 inp.builtin with
      | .error e => .error e
      | .ok c => match applyEnvVar sem row inp.env c with
        | .error e => .error e
        | .ok c2 => finish sem row inp c2 inp.builtin := by
  unfold pipeline finish
  rw [steps_eq]
  simp [run, step, init, hc, hp, isBackend, hs, he]
  cases hF : applyFileVars sem row.file (overlay inp.dflt inp.prof) 0 inp.builtin with
  | error e => simp
  | ok c =>
    simp
    cases hE : applyEnvVar sem row inp.env c with
    | error e => simp
    | ok c2 =>
      simp
      cases hA : parseCli sem row inp.cli [] none with
      | error e => simp
      | ok o =>
        cases o with
        | some v => simp
        | none =>
          simp
          cases hD : defaultValue sem row c2 <;> simp

end Replicat.Options
