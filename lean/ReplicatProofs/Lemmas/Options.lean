import ReplicatModel.Options
/-!
Helper lemmas for C19 (`Properties/C19.lean`): facts about the generated table (by `decide`), evaluation of the
pipeline's building blocks on "simple" inputs (at most one way of setting the option per source).
-/
namespace Replicat.Options
open Replicat.Gen

variable {V : Type}

/-! ## the generated tables -/

/-- the order of the calls in `main()` is the one the closed forms below were computed for -/
theorem steps_eq : optSteps = [.initialParse, .readConfig, .applyKnown, .applyEnv, .repoOverride, .loadBackend,
    .backendApplyKnown, .backendApplyEnv, .defaultsCfg, .defaultsBackend, .makeMainParser, .secondParse, .handler] := by
  decide

/-- every sub-command is built from the three parent parsers and receives `set_defaults(**defaults)` -/
theorem cmds_ok : ∀ cmd ∈ optCommands, cmd.setDefaults = true ∧ cmd.parents = true ∧ cmd.parentGroupsKept = true := by
  decide

/-- the extractor recognised the shape of `Config.apply_known`, the plug-in ran, the sub-command is mandatory -/
theorem extraction_ok : optApplyKnownRecognised = true ∧ optionsSectionOk = true ∧ optSubcommandRequired = true := by
  decide

/-- type functions whose result is never a `str` (tuple, Path, int, bytes, bool) -/
def nonStrTy : OptTy → Bool
  | .parseRepository | .path | .naturalNumberCfg | .readBytesCfg | .strEncode | .checkBoolean
  | .convertLogLevel | .environb => true
  | _ => false

/-- what the proofs need to know about a row that is not backend-specific -/
def wfMain (row : OptRow) : Bool :=
  (row.scope == 0 || row.scope == 1 || row.scope == 3) &&
  row.builtinKind != 2 &&
  row.file.all (fun f => f.kind != .other && nonStrTy f.ty) &&
  (match row.env with
    | some (_, ty) => nonStrTy ty
    | none => true) &&
  (row.inCfg || (row.file.isEmpty && row.env.isNone)) &&
  (row.scope != 3 || !row.inCfg) &&
  (!row.early || (row.scope == 0 && row.inCfg))

theorem rows_wfMain : ∀ row ∈ optRows, row.scope ≠ 2 → wfMain row = true := by decide

/-- backend-specific rows: one flag, one environment variable, one file key, all through `guess_type` -/
def wfBackend (row : OptRow) : Bool :=
  row.inCfg && !row.early &&
  (match row.cli with
    | [v] => v.kind == .typed && v.ty == .guessType
    | _ => false) &&
  (match row.env with
    | some (_, ty) => ty == .guessType
    | none => false) &&
  (match row.file with
    | [f] => f.kind == .plain && f.ty == .guessType
    | _ => false)

theorem rows_wfBackend : ∀ row ∈ optRows, row.scope = 2 → wfBackend row = true := by decide

/-! ## closed forms of the pipeline, per kind of option (the steps are unfolded in the extracted order) -/

/-- second parse: occurrence, else the (possibly converted) default -/
def finish (sem : Sem V) (row : OptRow) (inp : Inputs V) (d : V) (atLoad : V) : Except Err (Obs V) :=
  match parseCli sem row inp.cli [] none with
  | .error e => .error e
  | .ok (some v) => .ok { final := v, atLoad := atLoad }
  | .ok none => match defaultValue sem row d with
    | .error e => .error e
    | .ok v => .ok { final := v, atLoad := atLoad }

theorem pipeline_cmd (sem : Sem V) (cmd : OptCommand) (row : OptRow) (inp : Inputs V)
    (hc : cmd.setDefaults = true) (hp : cmd.parents = true) (hs : row.scope = 3) (hcfg : row.inCfg = false)
    (he : row.early = false) :
    pipeline sem cmd row inp = finish sem row inp inp.builtin inp.builtin := by
  unfold pipeline finish
  rw [steps_eq]
  simp [run, step, init, hc, hp, isBackend, hs, hcfg, he]
  cases hA : parseCli sem row inp.cli [] none with
  | error e => simp
  | ok o =>
    cases o with
    | some v => simp
    | none =>
      simp
      cases hD : defaultValue sem row inp.builtin <;> simp

/-- the config value of a main option: file, then environment -/
def cfgMain (sem : Sem V) (row : OptRow) (inp : Inputs V) : Except Err V :=
  if fileMutexViolated row (overlay inp.dflt inp.prof) then .error .invalidConfig
  else match applyFileVars sem row.file (overlay inp.dflt inp.prof) 0 inp.builtin with
    | .error e => .error e
    | .ok c => applyEnvVar sem row inp.env c

theorem pipeline_common (sem : Sem V) (cmd : OptCommand) (row : OptRow) (inp : Inputs V)
    (hc : cmd.setDefaults = true) (hp : cmd.parents = true) (hs : row.scope = 1)
    (he : row.early = false) :
    pipeline sem cmd row inp =
      match cfgMain sem row inp with
      | .error e => .error e
      | .ok c => finish sem row inp (if row.inCfg then c else inp.builtin) c := by
  unfold pipeline finish cfgMain
  rw [steps_eq]
  simp [run, step, init, hc, hp, isBackend, hs, he]
  cases hM : fileMutexViolated row (overlay inp.dflt inp.prof) <;> simp
  cases hF : applyFileVars sem row.file (overlay inp.dflt inp.prof) 0 inp.builtin with
  | error e => simp
  | ok c =>
    simp
    cases hE : applyEnvVar sem row inp.env c with
    | error e => simp
    | ok c2 =>
      simp
      cases hcfg : row.inCfg <;> simp <;>
      (cases hA : parseCli sem row inp.cli [] none with
      | error e => simp
      | ok o =>
        cases o with
        | some v => simp
        | none =>
          simp
          first
          | (cases hD : defaultValue sem row inp.builtin <;> simp)
          | (cases hD : defaultValue sem row c2 <;> simp))

theorem pipeline_initial (sem : Sem V) (cmd : OptCommand) (row : OptRow) (inp : Inputs V)
    (hc : cmd.setDefaults = true) (hp : cmd.parents = true) (hs : row.scope = 0) :
    pipeline sem cmd row inp =
      match parseCli sem row inp.cli [] none with
      | .error e => .error e
      | .ok first =>
        match cfgMain sem row inp with
        | .error e => .error e
        | .ok c =>
          finish sem row inp (if row.inCfg then (if row.early then first.getD c else c) else inp.builtin)
            (if row.early then first.getD c else c) := by
  unfold pipeline finish cfgMain
  rw [steps_eq]
  simp [run, step, init, hc, hp, isBackend, hs]
  cases hA : parseCli sem row inp.cli [] none with
  | error e => simp
  | ok first =>
    simp
    cases hM : fileMutexViolated row (overlay inp.dflt inp.prof) <;> simp
    cases hF : applyFileVars sem row.file (overlay inp.dflt inp.prof) 0 inp.builtin with
    | error e => simp
    | ok c =>
      simp
      cases hE : applyEnvVar sem row inp.env c with
      | error e => simp
      | ok c2 =>
        simp
        cases he : row.early <;> cases hcfg : row.inCfg <;> cases first <;> simp <;>
        first
        | (cases hD : defaultValue sem row inp.builtin <;> simp)
        | (cases hD : defaultValue sem row c2 <;> simp)
        | skip

theorem pipeline_backend (sem : Sem V) (cmd : OptCommand) (row : OptRow) (inp : Inputs V)
    (hc : cmd.setDefaults = true) (hp : cmd.parents = true) (hs : row.scope = 2) (he : row.early = false) :
    pipeline sem cmd row inp =
      match applyFileVars sem row.file (overlay inp.dflt inp.prof) 0 inp.builtin with
      | .error e => .error e
      | .ok c => match applyEnvVar sem row inp.env c with
        | .error e => .error e
        | .ok c2 => finish sem row inp c2 inp.builtin := by
  unfold pipeline finish
  rw [steps_eq]
  simp [run, step, init, hc, hp, isBackend, hs, he]
  cases hF : applyFileVars sem row.file (overlay inp.dflt inp.prof) 0 inp.builtin with
  | error e => simp
  | ok c =>
    simp
    cases hE : applyEnvVar sem row inp.env c with
    | error e => simp
    | ok c2 =>
      simp
      cases hA : parseCli sem row inp.cli [] none with
      | error e => simp
      | ok o =>
        cases o with
        | some v => simp
        | none =>
          simp
          cases hD : defaultValue sem row c2 <;> simp

/-! ## the merged file mapping -/

theorem lookup_append (a b : List (Nat × V)) (i : Nat) :
    lookup (a ++ b) i = (lookup a i).or (lookup b i) := by
  induction a with
  | nil => simp [lookup]
  | cons kv rest ih =>
    obtain ⟨k, v⟩ := kv
    simp only [List.cons_append, lookup]
    split <;> simp [ih]

theorem lookup_filter (p : List (Nat × V)) (d : List (Nat × V)) (i : Nat) :
    lookup (d.filter (fun kv => (lookup p kv.1).isNone)) i = if (lookup p i).isNone then lookup d i else none := by
  induction d with
  | nil => simp [lookup]
  | cons kv rest ih =>
    obtain ⟨k, v⟩ := kv
    simp only [List.filter_cons]
    by_cases hk : (k == i) = true
    · have : k = i := by simpa using hk
      subst this
      cases hp : (lookup p k).isNone <;> simp [lookup, hp, ih]
    · cases hp : (lookup p k).isNone <;> simp [lookup, hk, ih]

/-- `read_config`: a key of the profile hides the same key of the default section -/
theorem lookup_overlay (d p : List (Nat × V)) (i : Nat) :
    lookup (overlay d p) i = (lookup p i).or (lookup d i) := by
  unfold overlay
  rw [lookup_append, lookup_filter]
  cases lookup p i <;> simp

theorem lookup_toList (o : Option (Nat × V)) (i : Nat) :
    lookup o.toList i = match o with
      | some (k, v) => if k == i then some v else none
      | none => none := by
  cases o with
  | none => simp [lookup]
  | some kv => obtain ⟨k, v⟩ := kv; simp [lookup]

theorem presentKeys_length (vars : List OptFileVar) (merged : List (Nat × V)) (i : Nat) :
    (presentKeys vars merged i).length ≤ vars.length := by
  induction vars generalizing i with
  | nil => simp [presentKeys]
  | cons fv rest ih =>
    simp only [presentKeys]
    split
    · simp; exact ih (i + 1)
    · have := ih (i + 1); simp; omega

theorem fileMutex_false_of_short (row : OptRow) (merged : List (Nat × V)) (h : row.file.length ≤ 1) :
    fileMutexViolated row merged = false := by
  unfold fileMutexViolated
  rw [List.any_eq_false]
  intro g _
  have h1 := presentKeys_length row.file merged 0
  have h2 := List.length_filter_le (fun k => decide (k ∈ g)) (presentKeys row.file merged 0)
  simp
  omega

/-! ## the file stage when the merged mapping holds at most one key of the option -/

/-- what `apply_known` does with one key that is present -/
def varStep (sem : Sem V) (fv : OptFileVar) (raw cfg : V) : Except Err V :=
  match fv.kind with
  | .plain =>
    match sem.co fv.ty raw with
    | none => .error .configValue
    | some x => .ok x
  | .nullIfTrue =>
    match sem.co fv.ty raw with
    | none => .error .configValue
    | some b => .ok (if sem.truthy b then sem.noneV else cfg)
  | .other => .error .model

theorem applyFileVars_none (sem : Sem V) (vars : List OptFileVar) (merged : List (Nat × V)) (base : Nat) (cfg : V)
    (h : ∀ i, base ≤ i → lookup merged i = none) : applyFileVars sem vars merged base cfg = .ok cfg := by
  induction vars generalizing base with
  | nil => simp [applyFileVars]
  | cons fv rest ih =>
    simp only [applyFileVars, h base (Nat.le_refl _)]
    exact ih (base + 1) (fun i hi => h i (by omega))

theorem presentKeys_none (vars : List OptFileVar) (merged : List (Nat × V)) (base : Nat)
    (h : ∀ i, base ≤ i → lookup merged i = none) : presentKeys vars merged base = [] := by
  induction vars generalizing base with
  | nil => simp [presentKeys]
  | cons fv rest ih =>
    simp only [presentKeys, h base (Nat.le_refl _)]
    simpa using ih (base + 1) (fun i hi => h i (by omega))

/-- a merged mapping that contains exactly one key of this option -/
def OnlyKey (merged : List (Nat × V)) (k : Nat) (r : V) : Prop :=
  ∀ i, lookup merged i = if k == i then some r else none

theorem applyFileVars_single (sem : Sem V) (vars : List OptFileVar) (merged : List (Nat × V)) (k : Nat) (r : V)
    (h : OnlyKey merged k r) (base : Nat) (cfg : V) (hb : base ≤ k) :
    applyFileVars sem vars merged base cfg =
      match vars[k - base]? with
      | none => .ok cfg
      | some fv => varStep sem fv r cfg := by
  induction vars generalizing base with
  | nil => simp [applyFileVars]
  | cons fv rest ih =>
    by_cases hk : base = k
    · subst hk
      have hl : lookup merged base = some r := by simpa using h base
      have hrest : ∀ c, applyFileVars sem rest merged (base + 1) c = .ok c := fun c =>
        applyFileVars_none sem rest merged (base + 1) c (fun i hi => by
          have := h i
          have hne : (base == i) = false := by simp; omega
          simpa [hne] using this)
      simp only [applyFileVars, hl, Nat.sub_self, List.getElem?_cons_zero, varStep]
      cases fv.kind <;> simp
      · cases sem.co fv.ty r <;> simp [hrest]
      · cases sem.co fv.ty r <;> simp [hrest]
    · have hl : lookup merged base = none := by
        have := h base
        have hne : (k == base) = false := by simp; omega
        simpa [hne] using this
      have hlt : base + 1 ≤ k := by omega
      have : k - base = (k - (base + 1)) + 1 := by omega
      simp only [applyFileVars, hl, this, List.getElem?_cons_succ]
      exact ih (base + 1) hlt

theorem presentKeys_single (vars : List OptFileVar) (merged : List (Nat × V)) (k : Nat) (r : V)
    (h : OnlyKey merged k r) (base : Nat) : (presentKeys vars merged base).length ≤ 1 := by
  induction vars generalizing base with
  | nil => simp [presentKeys]
  | cons fv rest ih =>
    simp only [presentKeys]
    by_cases hk : k = base
    · subst hk
      have hrest : presentKeys rest merged (k + 1) = [] :=
        presentKeys_none rest merged (k + 1) (fun i hi => by
          have := h i
          have hne : (k == i) = false := by simp; omega
          simpa [hne] using this)
      split <;> simp [hrest]
    · have hl : lookup merged base = none := by
        have := h base
        have hne : (k == base) = false := by simp; omega
        simpa [hne] using this
      simp [hl]
      exact ih (base + 1)


/-! ## hypotheses of the precedence theorems -/

/-- assumptions on the leaf functions (validated by the harness on every generated raw value) -/
structure SemOK (sem : Sem V) : Prop where
  nonStr : ∀ ty v w, nonStrTy ty = true → sem.co ty v = some w → sem.isStr w = false
  noneNotStr : sem.isStr sem.noneV = false

/-- profile and default section name the option by the same key (when both set it) -/
def sameKey (s : Simple V) : Bool :=
  match s.prof, s.dflt with
  | some (i, _), some (j, _) => i == j
  | _, _ => true

/-- a `no-cache`-like key, where present, is true -/
def flagOk (sem : Sem V) (row : OptRow) (kv : Option (Nat × V)) : Bool :=
  match kv with
  | none => true
  | some (i, raw) =>
    match row.file[i]? with
    | some fv => fv.kind != .nullIfTrue || (match sem.co fv.ty raw with
        | some b => sem.truthy b
        | none => false)
    | none => true

def flagsTruthy (sem : Sem V) (row : OptRow) (s : Simple V) : Bool := flagOk sem row s.prof && flagOk sem row s.dflt

theorem fileMutex_false_of_present_short (row : OptRow) (merged : List (Nat × V))
    (h : (presentKeys row.file merged 0).length ≤ 1) : fileMutexViolated row merged = false := by
  unfold fileMutexViolated
  rw [List.any_eq_false]
  intro g _
  have h2 := List.length_filter_le (fun k => decide (k ∈ g)) (presentKeys row.file merged 0)
  simp
  omega



theorem merged_simple_some (s : Simple V) (hsame : sameKey s = true) (k : Nat) (r : V)
    (hw : s.prof.or s.dflt = some (k, r)) : OnlyKey (overlay s.toInputs.dflt s.toInputs.prof) k r := by
  intro i
  obtain ⟨c, e, p, d, b⟩ := s
  simp only [Simple.toInputs, lookup_overlay, lookup_toList]
  rcases p with _ | ⟨pi, pr⟩ <;> rcases d with _ | ⟨di, dr⟩ <;> simp at hw
  · obtain ⟨rfl, rfl⟩ := hw; simp
  · obtain ⟨rfl, rfl⟩ := hw; simp
  · obtain ⟨rfl, rfl⟩ := hw
    have : pi = di := by simpa [sameKey] using hsame
    subst this
    by_cases hki : pi = i <;> simp [hki]

theorem merged_simple_none (s : Simple V) (hw : s.prof.or s.dflt = none) (i : Nat) :
    lookup (overlay s.toInputs.dflt s.toInputs.prof) i = none := by
  obtain ⟨c, e, p, d, b⟩ := s
  rcases p with _ | ⟨pi, pr⟩ <;> rcases d with _ | ⟨di, dr⟩ <;> simp at hw
  simp [Simple.toInputs, lookup_overlay, lookup]

/-- a typed (non-string) TOML value is supplied only for options that are not backend-specific (excludes D14) -/
def rawStrOk (sem : Sem V) (row : OptRow) (kv : Option (Nat × V)) : Bool :=
  match kv with
  | none => true
  | some (_, r) => !isBackend row || sem.isStr r

def fileRawsStr (sem : Sem V) (row : OptRow) (s : Simple V) : Bool := rawStrOk sem row s.prof && rawStrOk sem row s.dflt

theorem fileRawsStr_of_nonBackend (sem : Sem V) (row : OptRow) (s : Simple V) (hnb : isBackend row = false) :
    fileRawsStr sem row s = true := by
  unfold fileRawsStr rawStrOk
  cases s.prof <;> cases s.dflt <;> simp [hnb]

/-- a typed (non-string) TOML value of a backend-specific option, where one is supplied, is left unchanged by the
validator.  FALSE of today's `guess_type`, which raises on a non-string (D14); true once it returns non-strings as
they are.  `fileRawsStr` (no typed value supplied) is the special case that holds today. -/
def TypedValuesKept (sem : Sem V) (row : OptRow) (s : Simple V) : Prop :=
  ∀ k r, (s.prof = some (k, r) ∨ s.dflt = some (k, r)) → (isBackend row && !sem.isStr r) = true →
    ∀ fv, row.file[k]? = some fv → sem.co fv.ty r = some r

theorem typedValuesKept_of_str (sem : Sem V) (row : OptRow) (s : Simple V) (h : fileRawsStr sem row s = true) :
    TypedValuesKept sem row s := by
  intro k r hsrc hb
  simp only [fileRawsStr, rawStrOk, Bool.and_eq_true] at h
  rcases hsrc with hs | hs
  · have := h.1
    simp only [hs] at this
    cases hb1 : isBackend row <;> cases hb2 : sem.isStr r <;> simp [hb1, hb2] at this hb
  · have := h.2
    simp only [hs] at this
    cases hb1 : isBackend row <;> cases hb2 : sem.isStr r <;> simp [hb1, hb2] at this hb

theorem fileValue_eq_varStep (sem : Sem V) (row : OptRow) (k : Nat) (r : V) (fv : OptFileVar) (lower : Except Err V) (cfg : V)
    (hnb : (isBackend row && !sem.isStr r) = true → sem.co fv.ty r = some r) (hfv : row.file[k]? = some fv)
    (htr : flagOk sem row (some (k, r)) = true) :
    fileValue sem row (k, r) lower = varStep sem fv r cfg := by
  simp only [fileValue, hfv, varStep]
  cases hkind : fv.kind
  · cases hb : (isBackend row && !sem.isStr r)
    · cases hco : sem.co fv.ty r <;> simp [orErr]
    · simp [hnb hb]
  · simp [flagOk, hfv, hkind] at htr
    cases hco : sem.co fv.ty r <;> simp [hco] at htr ⊢
    simp [htr]
  · simp

/-- the file stage on simple inputs: no exclusivity error, and the value is the one the specification names -/
theorem file_stage (sem : Sem V) (row : OptRow) (s : Simple V) (hstr : TypedValuesKept sem row s)
    (hp : fileOk sem row s.prof = true) (hd : fileOk sem row s.dflt = true)
    (hsame : sameKey s = true) (htr : flagsTruthy sem row s = true) :
    fileMutexViolated row (overlay s.toInputs.dflt s.toInputs.prof) = false ∧
    applyFileVars sem row.file (overlay s.toInputs.dflt s.toInputs.prof) 0 s.builtin = specBelowEnv sem row s := by
  cases hw : s.prof.or s.dflt with
  | none =>
    have hn := merged_simple_none s hw
    have hpn : s.prof = none := by cases hp' : s.prof <;> simp [hp'] at hw ⊢
    have hdn : s.dflt = none := by cases hd' : s.dflt <;> simp [hpn, hd'] at hw ⊢
    refine ⟨fileMutex_false_of_present_short row _ (by rw [presentKeys_none _ _ 0 (fun i _ => hn i)]; simp), ?_⟩
    rw [applyFileVars_none sem _ _ 0 _ (fun i _ => hn i)]
    simp [specBelowEnv, specBelowProfile, hpn, hdn]
  | some kr =>
    obtain ⟨k, r⟩ := kr
    have ho := merged_simple_some s hsame k r hw
    refine ⟨fileMutex_false_of_present_short row _ (presentKeys_single _ _ k r ho 0), ?_⟩
    rw [applyFileVars_single sem _ _ k r ho 0 _ (Nat.zero_le _)]
    simp only [flagsTruthy, Bool.and_eq_true] at htr
    cases hprof : s.prof with
    | some kv =>
      have : kv = (k, r) := by simpa [hprof] using hw
      subst this
      simp only [hprof, fileOk] at hp
      cases hfv : row.file[k]? with
      | none => simp [hfv] at hp
      | some fv =>
        simp only [specBelowEnv, hprof]
        have hnb : (isBackend row && !sem.isStr r) = true → sem.co fv.ty r = some r :=
          fun hb => hstr k r (Or.inl hprof) hb fv hfv
        rw [fileValue_eq_varStep sem row k r fv _ s.builtin hnb hfv (by simpa [hprof] using htr.1)]
    | none =>
      have hdf : s.dflt = some (k, r) := by simpa [hprof] using hw
      simp only [hdf, fileOk] at hd
      cases hfv : row.file[k]? with
      | none => simp [hfv] at hd
      | some fv =>
        simp only [specBelowEnv, hprof, specBelowProfile, hdf]
        have hnb : (isBackend row && !sem.isStr r) = true → sem.co fv.ty r = some r :=
          fun hb => hstr k r (Or.inr hdf) hb fv hfv
        rw [fileValue_eq_varStep sem row k r fv _ s.builtin hnb hfv (by simpa [hdf] using htr.2)]


theorem parseCli_one (sem : Sem V) (row : OptRow) (i : Nat) (raw : V) (acc : Option V) :
    parseCli sem row [(i, raw)] [] acc =
      match row.cli[i]? with
      | none => .error .model
      | some v => match cliValue sem v raw with
        | .error e => .error e
        | .ok x => .ok (some x) := by
  cases h : row.cli[i]? with
  | none => simp [parseCli, h]
  | some v =>
    cases h2 : cliValue sem v raw <;> simp [parseCli, h, h2]

/-- under `valid` the file part of the specification is a value -/
theorem specBelowEnv_ok (sem : Sem V) (row : OptRow) (s : Simple V)
    (hp : fileOk sem row s.prof = true) (hd : fileOk sem row s.dflt = true)
    (htr : flagsTruthy sem row s = true) : ∃ c, specBelowEnv sem row s = .ok c := by
  have key : ∀ (kv : Nat × V) (lower : Except Err V), fileOk sem row (some kv) = true →
      flagOk sem row (some kv) = true → ∃ c, fileValue sem row kv lower = .ok c := by
    intro kv lower h1 h2
    obtain ⟨k, r⟩ := kv
    simp only [fileOk] at h1
    cases hfv : row.file[k]? with
    | none => simp [hfv] at h1
    | some fv =>
      simp only [hfv, Bool.and_eq_true, bne_iff_ne, ne_eq] at h1
      obtain ⟨x, hx⟩ := Option.isSome_iff_exists.mp h1.2
      simp only [fileValue, hfv]
      cases hkind : fv.kind
      · cases (isBackend row && !sem.isStr r) <;> simp [hx, orErr]
      · simp [flagOk, hfv, hkind, hx] at h2
        simp [hx, h2]
      · exact absurd hkind h1.1
  simp only [flagsTruthy, Bool.and_eq_true] at htr
  unfold specBelowEnv specBelowProfile
  cases hprof : s.prof with
  | some kv => exact key kv _ (by simpa [hprof] using hp) (by simpa [hprof] using htr.1)
  | none =>
    cases hdf : s.dflt with
    | some kv => exact key kv _ (by simpa [hdf] using hd) (by simpa [hdf] using htr.2)
    | none => exact ⟨_, rfl⟩

/-- `apply_known` + `apply_env` of a main option = the specification below the command line -/
theorem cfgMain_eq (sem : Sem V) (row : OptRow) (s : Simple V) (hnb : isBackend row = false)
    (hp : fileOk sem row s.prof = true) (hd : fileOk sem row s.dflt = true)
    (hsame : sameKey s = true) (htr : flagsTruthy sem row s = true) :
    cfgMain sem row s.toInputs = specBelowCli sem row s := by
  obtain ⟨h1, h2⟩ := file_stage sem row s (typedValuesKept_of_str sem row s (fileRawsStr_of_nonBackend sem row s hnb)) hp hd hsame htr
  obtain ⟨c, hc⟩ := specBelowEnv_ok sem row s hp hd htr
  unfold cfgMain specBelowCli
  have hb : s.toInputs.builtin = s.builtin := rfl
  have he : s.toInputs.env = s.env := rfl
  rw [h1, hb, h2, hc, he]
  simp only [applyEnvVar]
  cases row.env with
  | none => simp
  | some nt => cases s.env <;> simp


/-- the config value of a main option is never a `str` -/
theorem specBelowCli_nonStr (sem : Sem V) (hsem : SemOK sem) (row : OptRow) (s : Simple V) (hnb : isBackend row = false)
    (hfile : row.file.all (fun f => f.kind != .other && nonStrTy f.ty) = true)
    (henv : (match row.env with | some (_, ty) => nonStrTy ty | none => true) = true)
    (hb : sem.isStr s.builtin = false) (c : V) (hc : specBelowCli sem row s = .ok c) : sem.isStr c = false := by
  have key : ∀ (kv : Nat × V) (lower : Except Err V), (∀ x, lower = .ok x → sem.isStr x = false) →
      ∀ x, fileValue sem row kv lower = .ok x → sem.isStr x = false := by
    intro kv lower hl x hx
    obtain ⟨k, r⟩ := kv
    simp only [fileValue] at hx
    cases hfv : row.file[k]? with
    | none => simp [hfv] at hx
    | some fv =>
      have hmem : fv ∈ row.file := List.mem_of_getElem? hfv
      have hty : nonStrTy fv.ty = true := by
        have := List.all_eq_true.mp hfile fv hmem
        simp at this
        exact this.2
      simp only [hfv, hnb] at hx
      cases hkind : fv.kind <;> simp only [hkind] at hx
      · cases hco : sem.co fv.ty r <;> simp [hco, orErr] at hx
        subst hx
        exact hsem.nonStr _ _ _ hty hco
      · cases hco : sem.co fv.ty r <;> simp [hco] at hx
        split at hx
        · simp at hx; subst hx; exact hsem.noneNotStr
        · exact hl x hx
      · simp at hx
  have hprofile : ∀ x, specBelowProfile sem row s = .ok x → sem.isStr x = false := by
    intro x hx
    unfold specBelowProfile at hx
    cases hdf : s.dflt with
    | none => simp [hdf] at hx; subst hx; exact hb
    | some kv =>
      simp only [hdf] at hx
      exact key kv _ (by intro y hy; simp at hy; subst hy; exact hb) x hx
  have hbelow : ∀ x, specBelowEnv sem row s = .ok x → sem.isStr x = false := by
    intro x hx
    unfold specBelowEnv at hx
    cases hpr : s.prof with
    | none => simp only [hpr] at hx; exact hprofile x hx
    | some kv => simp only [hpr] at hx; exact key kv _ hprofile x hx
  unfold specBelowCli at hc
  cases hre : row.env with
  | none => simp only [hre] at hc; exact hbelow c hc
  | some nt =>
    obtain ⟨n, ty⟩ := nt
    cases hse : s.env with
    | none => simp only [hre, hse] at hc; exact hbelow c hc
    | some raw =>
      simp only [hre, hse] at hc
      cases hco : sem.co ty raw <;> simp [hco, orErr] at hc
      subst hc
      simp only [hre] at henv
      exact hsem.nonStr _ _ _ henv hco


theorem defaultValue_nonStr (sem : Sem V) (row : OptRow) (d : V) (h : sem.isStr d = false) :
    defaultValue sem row d = .ok d := by simp [defaultValue, h]

/-- options that are not config fields have no file / environment source: the specification below the command line
is the built-in default -/
theorem specBelowCli_notCfg (sem : Sem V) (row : OptRow) (s : Simple V)
    (hf : row.file.isEmpty = true) (he : row.env.isNone = true)
    (hp : fileOk sem row s.prof = true) (hd : fileOk sem row s.dflt = true) :
    specBelowCli sem row s = .ok s.builtin := by
  have hfile : row.file = [] := by simpa using hf
  have hpn : s.prof = none := by
    cases h : s.prof with
    | none => rfl
    | some kv => simp [fileOk, h, hfile] at hp
  have hdn : s.dflt = none := by
    cases h : s.dflt with
    | none => rfl
    | some kv => simp [fileOk, h, hfile] at hd
  have hen : row.env = none := by simpa using he
  simp [specBelowCli, specBelowEnv, specBelowProfile, hpn, hdn, hen]

theorem finish_none (sem : Sem V) (row : OptRow) (s : Simple V) (d a : V) (hd : sem.isStr d = false)
    (hc : s.cli = none) : finish sem row s.toInputs d a = .ok { final := d, atLoad := a } := by
  simp [finish, Simple.toInputs, hc, defaultValue_nonStr sem row d hd, parseCli]

theorem finish_some (sem : Sem V) (row : OptRow) (s : Simple V) (d a : V) (i : Nat) (raw : V)
    (hc : s.cli = some (i, raw)) :
    finish sem row s.toInputs d a =
      match row.cli[i]? with
      | none => .error .model
      | some v => match cliValue sem v raw with
        | .error e => .error e
        | .ok x => .ok { final := x, atLoad := a } := by
  unfold finish
  simp only [Simple.toInputs, hc, Option.toList_some, parseCli_one]
  cases row.cli[i]? with
  | none => simp
  | some v => cases h : cliValue sem v raw <;> simp [h]

/-- **precedence for every option that is not backend-specific** (and, second component, the value of the config
field when the backend is selected) -/
theorem precedence_main (sem : Sem V) (hsem : SemOK sem) (cmd : OptCommand)
    (hc : cmd.setDefaults = true) (hp : cmd.parents = true) (row : OptRow) (hwf : wfMain row = true)
    (s : Simple V) (hb : sem.isStr s.builtin = false) (hv : valid sem row s = true)
    (hsame : sameKey s = true) (htr : flagsTruthy sem row s = true) :
    pipelineFinal sem cmd row s.toInputs = spec sem row s ∧
    (row.early = true → pipelineAtLoad sem cmd row s.toInputs = spec sem row s) := by
  simp only [wfMain, Bool.and_eq_true, Bool.or_eq_true, beq_iff_eq, bne_iff_ne, ne_eq, Bool.not_eq_true'] at hwf
  obtain ⟨⟨⟨⟨⟨⟨hscope, hbk⟩, hfile⟩, henv⟩, hcfg⟩, hs3⟩, hearly⟩ := hwf
  simp only [valid, Bool.and_eq_true] at hv
  obtain ⟨⟨⟨hvc, hve⟩, hvp⟩, hvd⟩ := hv
  have hnb : isBackend row = false := by
    simp only [isBackend, beq_eq_false_iff_ne, ne_eq]
    rcases hscope with (h | h) | h <;> omega
  have hcm := cfgMain_eq sem row s hnb hvp hvd hsame htr
  obtain ⟨c0, hc0⟩ := specBelowEnv_ok sem row s hvp hvd htr
  -- the value below the command line
  have hbelow : ∃ c, specBelowCli sem row s = .ok c := by
    unfold specBelowCli
    cases hre : row.env with
    | none => exact ⟨c0, by simpa using hc0⟩
    | some nt =>
      obtain ⟨n, ty⟩ := nt
      cases hse : s.env with
      | none => exact ⟨c0, by simpa using hc0⟩
      | some raw =>
        simp only [envOk, hre, hse] at hve
        obtain ⟨x, hx⟩ := Option.isSome_iff_exists.mp hve
        exact ⟨x, by simp [hx, orErr]⟩
  obtain ⟨c, hcv⟩ := hbelow
  have hns : sem.isStr c = false :=
    specBelowCli_nonStr sem hsem row s hnb (by
      rw [List.all_eq_true] at hfile ⊢
      intro f hf
      have := hfile f hf
      simpa using this) henv hb c hcv
  have hbi : s.toInputs.builtin = s.builtin := rfl
  -- the default handed to the second parse is `c` in every case
  have hdflt : (if row.inCfg then c else s.builtin) = c := by
    cases hic : row.inCfg with
    | true => simp
    | false =>
      simp only [hic] at hcfg
      have hcfg' : row.file.isEmpty = true ∧ row.env.isNone = true := by
        rcases hcfg with h | h
        · exact absurd h (by simp)
        · exact h
      have := specBelowCli_notCfg sem row s hcfg'.1 hcfg'.2 hvp hvd
      rw [hcv] at this
      simp at this
      simp [this]
  -- whatever the scope, with `c` as the default of the second parse
  have hfin : ∀ a, pipeline sem cmd row s.toInputs = finish sem row s.toInputs c a →
      pipelineFinal sem cmd row s.toInputs = spec sem row s := by
    intro a hpl
    unfold pipelineFinal spec
    rw [hpl]
    cases hcl : s.cli with
    | none => simp [finish_none sem row s c a hns hcl, hcv]
    | some ir =>
      obtain ⟨i, raw⟩ := ir
      rw [finish_some sem row s c a i raw hcl]
      cases hv' : row.cli[i]? with
      | none => simp [hv']
      | some v => cases h : cliValue sem v raw <;> simp [hv', h]
  rcases hscope with (h0 | h1) | h3
  · -- initial parser
    have hpl := pipeline_initial sem cmd row s.toInputs hc hp h0
    rw [hcm, hcv] at hpl
    simp only [hbi] at hpl
    cases hcl : s.cli with
    | none =>
      have hfirst : parseCli sem row s.toInputs.cli [] none = .ok none := by
        simp [Simple.toInputs, hcl, parseCli]
      rw [hfirst] at hpl
      simp only [Option.getD_none, ite_self, hdflt] at hpl
      refine ⟨hfin c hpl, fun _ => ?_⟩
      unfold pipelineAtLoad spec
      rw [hpl, finish_none sem row s c c hns hcl]
      simp [hcl, hcv]
    | some ir =>
      obtain ⟨i, raw⟩ := ir
      have hcli : s.toInputs.cli = [(i, raw)] := by simp [Simple.toInputs, hcl]
      rw [hcli, parseCli_one sem row i raw none] at hpl
      unfold pipelineFinal pipelineAtLoad spec
      rw [hpl]
      simp only [hcl]
      cases hv' : row.cli[i]? with
      | none => simp
      | some v =>
        cases hx : cliValue sem v raw with
        | error e => simp [hx]
        | ok x =>
          simp only [finish_some sem row s _ _ i raw hcl, hv', hx]
          constructor
          · trivial
          · intro he
            simp [he]
  · have he : row.early = false := by
      rcases hearly with h | h
      · exact h
      · omega
    have hpl := pipeline_common sem cmd row s.toInputs hc hp h1 he
    rw [hcm, hcv] at hpl
    simp only [hbi, hdflt] at hpl
    exact ⟨hfin c hpl, by simp [he]⟩
  · have he : row.early = false := by
      rcases hearly with h | h
      · exact h
      · omega
    have hic : row.inCfg = false := by
      rcases hs3 with h | h
      · exact absurd h3 h
      · exact h
    have hpl := pipeline_cmd sem cmd row s.toInputs hc hp h3 hic he
    simp only [hbi] at hpl
    simp only [hic] at hdflt
    have hdflt' : s.builtin = c := by simpa using hdflt
    rw [hdflt'] at hpl
    exact ⟨hfin c hpl, by simp [he]⟩


/-- **precedence for backend-specific options**, under the two hypotheses that D14 / D15 force -/
theorem precedence_backend (sem : Sem V) (cmd : OptCommand)
    (hc : cmd.setDefaults = true) (hp : cmd.parents = true) (row : OptRow) (hs : row.scope = 2)
    (hwf : wfBackend row = true) (s : Simple V) (hv : valid sem row s = true)
    (hstr : TypedValuesKept sem row s)
    (hidem : s.cli = none → ∀ c, specBelowCli sem row s = .ok c → sem.isStr c = true → sem.co .guessType c = some c) :
    pipelineFinal sem cmd row s.toInputs = spec sem row s := by
  simp only [wfBackend, Bool.and_eq_true, Bool.not_eq_true'] at hwf
  obtain ⟨⟨⟨⟨hcfg, hearly⟩, hcli⟩, henv⟩, hfile⟩ := hwf
  simp only [valid, Bool.and_eq_true] at hv
  obtain ⟨⟨⟨hvc, hve⟩, hvp⟩, hvd⟩ := hv
  -- shape of the row
  obtain ⟨v, hv1, hvk, hvt⟩ : ∃ v, row.cli = [v] ∧ v.kind = .typed ∧ v.ty = .guessType := by
    match hrc : row.cli with
    | [v] => simp [hrc] at hcli; exact ⟨v, rfl, hcli.1, hcli.2⟩
    | [] => simp [hrc] at hcli
    | _ :: _ :: _ => simp [hrc] at hcli
  obtain ⟨f, hf1, hfk, hft⟩ : ∃ f, row.file = [f] ∧ f.kind = .plain ∧ f.ty = .guessType := by
    match hrf : row.file with
    | [f] => simp [hrf] at hfile; exact ⟨f, rfl, hfile.1, hfile.2⟩
    | [] => simp [hrf] at hfile
    | _ :: _ :: _ => simp [hrf] at hfile
  -- both sections can only use key 0
  have idx : ∀ kv : Option (Nat × V), fileOk sem row kv = true → ∀ k r, kv = some (k, r) → k = 0 := by
    intro kv h k r hk
    subst hk
    simp only [fileOk, hf1] at h
    rcases k with _ | k
    · rfl
    · simp at h
  have hsame : sameKey s = true := by
    unfold sameKey
    cases hpr : s.prof with
    | none => simp
    | some kv =>
      cases hdf : s.dflt with
      | none => simp
      | some kv' =>
        obtain ⟨k, r⟩ := kv
        obtain ⟨k', r'⟩ := kv'
        have h1 := idx s.prof hvp k r hpr
        have h2 := idx s.dflt hvd k' r' hdf
        simp [h1, h2]
  have htr : flagsTruthy sem row s = true := by
    have : ∀ kv : Option (Nat × V), flagOk sem row kv = true := by
      intro kv
      unfold flagOk
      cases kv with
      | none => rfl
      | some kr =>
        obtain ⟨k, r⟩ := kr
        simp only [hf1]
        rcases k with _ | k <;> simp [hfk]
    simp [flagsTruthy, this]
  obtain ⟨h1, h2⟩ := file_stage sem row s hstr hvp hvd hsame htr
  obtain ⟨c0, hc0⟩ := specBelowEnv_ok sem row s hvp hvd htr
  have hpl := pipeline_backend sem cmd row s.toInputs hc hp hs hearly
  have hbi : s.toInputs.builtin = s.builtin := rfl
  have hei : s.toInputs.env = s.env := rfl
  rw [hbi, h2, hc0] at hpl
  simp only [hei] at hpl
  -- environment stage
  obtain ⟨c2, hc2, hspec2⟩ : ∃ c2, applyEnvVar sem row s.env c0 = .ok c2 ∧ specBelowCli sem row s = .ok c2 := by
    unfold applyEnvVar specBelowCli
    cases hre : row.env with
    | none => simp [hre] at henv
    | some nt =>
      obtain ⟨n, ty⟩ := nt
      cases hse : s.env with
      | none => exact ⟨c0, by simp, by simpa using hc0⟩
      | some raw =>
        simp only [envOk, hre, hse] at hve
        obtain ⟨x, hx⟩ := Option.isSome_iff_exists.mp hve
        exact ⟨x, by simp [hx, orErr], by simp [hx, orErr]⟩
  rw [hc2] at hpl
  simp only at hpl
  unfold pipelineFinal spec
  rw [hpl]
  cases hcl : s.cli with
  | none =>
    have hdv : defaultValue sem row c2 = .ok c2 := by
      unfold defaultValue
      cases hst : sem.isStr c2 with
      | false => simp
      | true =>
        have := hidem hcl c2 hspec2 hst
        simp [hv1, firstTy, hvk, hvt, this, orErr]
    simp [finish, Simple.toInputs, hcl, parseCli, hdv, hspec2]
  | some ir =>
    obtain ⟨i, raw⟩ := ir
    rw [finish_some sem row s c2 _ i raw hcl]
    cases hv' : row.cli[i]? with
    | none => simp [hv']
    | some v' => cases h : cliValue sem v' raw <;> simp [hv', h]


/-! ## rejection -/

theorem run_error_of_step (sem : Sem V) (cmd : OptCommand) (row : OptRow) (inp : Inputs V) (s0 : OptStep)
    (herr : ∀ st, ∃ e, step sem cmd row inp s0 st = .error e) (steps : List OptStep) (hmem : s0 ∈ steps) (st : St V) :
    ∃ e, run sem cmd row inp steps st = .error e := by
  induction steps generalizing st with
  | nil => simp at hmem
  | cons s rest ih =>
    simp only [run]
    cases hs : step sem cmd row inp s st with
    | error e => exact ⟨e, rfl⟩
    | ok st' =>
      rcases List.mem_cons.mp hmem with h | h
      · subst h
        obtain ⟨e, he⟩ := herr st
        rw [he] at hs
        cases hs
      · exact ih h st'

theorem pipeline_error_of_step (sem : Sem V) (cmd : OptCommand) (row : OptRow) (inp : Inputs V) (s0 : OptStep)
    (herr : ∀ st, ∃ e, step sem cmd row inp s0 st = .error e) (hmem : s0 ∈ optSteps) :
    ∃ e, pipeline sem cmd row inp = .error e := by
  obtain ⟨e, he⟩ := run_error_of_step sem cmd row inp s0 herr optSteps hmem (init inp)
  exact ⟨e, by simp [pipeline, he]⟩

theorem secondParse_mem : OptStep.secondParse ∈ optSteps := by decide

/-- every two different flags of one option belong to one mutual-exclusion group -/
theorem same_dest_flags_conflict : ∀ row ∈ optRows, ∀ a ∈ row.cli, ∀ b ∈ row.cli, a.flag ≠ b.flag → conflicts a b = true := by
  decide

/-- a command line with two different flags of one option never reaches the handler -/
theorem two_flags_rejected (sem : Sem V) (cmd : OptCommand) (row : OptRow) (inp : Inputs V) (i j : Nat) (a b : OptCliVar)
    (ra rb : V) (ha : row.cli[i]? = some a) (hb : row.cli[j]? = some b) (hconf : conflicts b a = true)
    (hcli : inp.cli = [(i, ra), (j, rb)]) : ∃ e, pipeline sem cmd row inp = .error e := by
  apply pipeline_error_of_step sem cmd row inp .secondParse _ secondParse_mem
  intro st
  have hparse : ∃ e, parseCli sem row inp.cli [] none = .error e := by
    rw [hcli]
    simp only [parseCli, ha, List.any_nil]
    cases hx : cliValue sem a ra with
    | error e => exact ⟨e, by simp⟩
    | ok x => exact ⟨.argparse, by simp [hb, hconf]⟩
  obtain ⟨e, he⟩ := hparse
  exact ⟨e, by simp [step, he]⟩


def allPlain (row : OptRow) : Bool := row.file.all (fun f => f.kind == .plain)

/-- the (at most two) file keys of the option are named together in a `_check_mutually_exclusive` call -/
def fileKeysCovered (row : OptRow) : Bool :=
  match row.file with
  | [] => true
  | [_] => true
  | [a, b] => optFileMutex.any (fun g => g.contains a.key && g.contains b.key)
  | _ => false

theorem rows_file_mutex : ∀ row ∈ optRows, (row.scope == 0 || row.scope == 1) = true → allPlain row = true →
    fileKeysCovered row = true := by decide

theorem presentKeys_two (a b : OptFileVar) (merged : List (Nat × V)) :
    presentKeys [a, b] merged 0 =
      (if (lookup merged 0).isSome then [a.key] else []) ++ (if (lookup merged 1).isSome then [b.key] else []) := by
  simp only [presentKeys]
  cases (lookup merged 0).isSome <;> cases (lookup merged 1).isSome <;> simp

theorem fileMutex_of_two (row : OptRow) (merged : List (Nat × V)) (hcov : fileKeysCovered row = true)
    (i j : Nat) (hij : i ≠ j) (hi : i < row.file.length) (hj : j < row.file.length)
    (hli : (lookup merged i).isSome = true) (hlj : (lookup merged j).isSome = true) :
    fileMutexViolated row merged = true := by
  unfold fileKeysCovered at hcov
  match hf : row.file with
  | [] => simp [hf] at hi
  | [_] => simp [hf] at hi hj; omega
  | [a, b] =>
    simp only [hf] at hcov hi hj
    have hcases : (i = 0 ∧ j = 1) ∨ (i = 1 ∧ j = 0) := by
      simp only [List.length_cons, List.length_nil] at hi hj
      omega
    have h0 : (lookup merged 0).isSome = true := by
      rcases hcases with ⟨rfl, rfl⟩ | ⟨rfl, rfl⟩
      · exact hli
      · exact hlj
    have h1 : (lookup merged 1).isSome = true := by
      rcases hcases with ⟨rfl, rfl⟩ | ⟨rfl, rfl⟩
      · exact hlj
      · exact hli
    unfold fileMutexViolated
    rw [hf, presentKeys_two, h0, h1]
    rw [List.any_eq_true] at hcov ⊢
    obtain ⟨g, hg, hgc⟩ := hcov
    refine ⟨g, hg, ?_⟩
    simp only [Bool.and_eq_true, List.contains_iff_mem] at hgc
    simp [List.filter, hgc.1, hgc.2]
  | _ :: _ :: _ :: _ => simp [hf] at hcov

/-- two different keys of one option in the merged file mapping: the run ends with an error -/
theorem two_keys_rejected (sem : Sem V) (cmd : OptCommand) (hc : cmd.setDefaults = true) (hp : cmd.parents = true)
    (row : OptRow) (hwf : wfMain row = true) (hs : (row.scope == 0 || row.scope == 1) = true)
    (hcov : fileKeysCovered row = true) (inp : Inputs V)
    (i j : Nat) (hij : i ≠ j) (hi : i < row.file.length) (hj : j < row.file.length)
    (hli : (lookup (overlay inp.dflt inp.prof) i).isSome = true) (hlj : (lookup (overlay inp.dflt inp.prof) j).isSome = true) :
    ∃ e, pipeline sem cmd row inp = .error e := by
  have hm := fileMutex_of_two row (overlay inp.dflt inp.prof) hcov i j hij hi hj hli hlj
  have hcm : cfgMain sem row inp = .error .invalidConfig := by simp [cfgMain, hm]
  simp only [wfMain, Bool.and_eq_true, Bool.or_eq_true, beq_iff_eq, bne_iff_ne, ne_eq, Bool.not_eq_true'] at hwf
  obtain ⟨_, hearly⟩ := hwf
  simp only [Bool.or_eq_true, beq_iff_eq] at hs
  rcases hs with h0 | h1
  · rw [pipeline_initial sem cmd row inp hc hp h0, hcm]
    cases parseCli sem row inp.cli [] none with
    | error e => exact ⟨e, rfl⟩
    | ok f => exact ⟨.invalidConfig, rfl⟩
  · have he : row.early = false := by
      rcases hearly with h | h
      · exact h
      · omega
    rw [pipeline_common sem cmd row inp hc hp h1 he, hcm]
    exact ⟨.invalidConfig, rfl⟩


theorem rows_short_plain : ∀ row ∈ optRows, row.scope ≠ 2 → row.file.length ≤ 1 → allPlain row = true := by decide

theorem sameKey_of_short (sem : Sem V) (row : OptRow) (s : Simple V) (hlen : row.file.length ≤ 1)
    (hp : fileOk sem row s.prof = true) (hd : fileOk sem row s.dflt = true) : sameKey s = true := by
  have idx : ∀ kv : Option (Nat × V), fileOk sem row kv = true → ∀ k r, kv = some (k, r) → k = 0 := by
    intro kv h k r hk
    subst hk
    simp only [fileOk] at h
    cases hfv : row.file[k]? with
    | none => simp [hfv] at h
    | some fv =>
      have := (List.getElem?_eq_some_iff.mp hfv).1
      omega
  unfold sameKey
  cases hpr : s.prof with
  | none => simp
  | some kv =>
    cases hdf : s.dflt with
    | none => simp
    | some kv' =>
      obtain ⟨k, r⟩ := kv
      obtain ⟨k', r'⟩ := kv'
      simp [idx s.prof hp k r hpr, idx s.dflt hd k' r' hdf]

theorem flagsTruthy_of_allPlain (sem : Sem V) (row : OptRow) (s : Simple V) (h : allPlain row = true) :
    flagsTruthy sem row s = true := by
  have : ∀ kv : Option (Nat × V), flagOk sem row kv = true := by
    intro kv
    unfold flagOk
    cases kv with
    | none => rfl
    | some kr =>
      obtain ⟨k, r⟩ := kr
      cases hfv : row.file[k]? with
      | none => simp [hfv]
      | some fv =>
        have hmem : fv ∈ row.file := List.mem_of_getElem? hfv
        have := List.all_eq_true.mp h fv hmem
        simp at this
        simp [hfv, this]
  simp [flagsTruthy, this]


theorem applyFileVars_error (sem : Sem V) (vars : List OptFileVar) (merged : List (Nat × V)) (k : Nat) (r : V)
    (hl : lookup merged k = some r) (base : Nat) (hb : base ≤ k) (fv : OptFileVar) (hfv : vars[k - base]? = some fv)
    (hco : sem.co fv.ty r = none) (cfg : V) : ∃ e, applyFileVars sem vars merged base cfg = .error e := by
  induction vars generalizing base cfg with
  | nil => simp at hfv
  | cons f rest ih =>
    by_cases hk : base = k
    · subst hk
      simp only [Nat.sub_self, List.getElem?_cons_zero, Option.some.injEq] at hfv
      subst hfv
      simp only [applyFileVars, hl]
      cases f.kind <;> simp [hco]
    · have hlt : base + 1 ≤ k := by omega
      have hidx : k - base = (k - (base + 1)) + 1 := by omega
      rw [hidx, List.getElem?_cons_succ] at hfv
      simp only [applyFileVars]
      cases hlb : lookup merged base with
      | none => simpa using ih (base + 1) hlt hfv cfg
      | some raw =>
        cases hkind : f.kind with
        | plain =>
          cases hc' : sem.co f.ty raw with
          | none => exact ⟨.configValue, by simp [hc']⟩
          | some x => simpa [hc'] using ih (base + 1) hlt hfv x
        | nullIfTrue =>
          cases hc' : sem.co f.ty raw with
          | none => exact ⟨.configValue, by simp [hc']⟩
          | some x => simpa [hc'] using ih (base + 1) hlt hfv _
        | other => exact ⟨.model, by simp⟩

theorem applyEnv_mem : OptStep.applyEnv ∈ optSteps := by decide
theorem backendApplyEnv_mem : OptStep.backendApplyEnv ∈ optSteps := by decide

/-- the file stage fails when some key of the merged mapping is not accepted by its validator -/
theorem pipeline_error_of_bad_key (sem : Sem V) (cmd : OptCommand) (hc : cmd.setDefaults = true) (hp : cmd.parents = true)
    (row : OptRow) (hscope : row.scope = 0 ∨ row.scope = 1 ∨ row.scope = 2) (hearly : row.scope ≠ 0 → row.early = false)
    (inp : Inputs V) (k : Nat) (r : V) (hl : lookup (overlay inp.dflt inp.prof) k = some r)
    (fv : OptFileVar) (hfv : row.file[k]? = some fv) (hco : sem.co fv.ty r = none) :
    ∃ e, pipeline sem cmd row inp = .error e := by
  obtain ⟨e, he⟩ := applyFileVars_error sem row.file _ k r hl 0 (Nat.zero_le _) fv (by simpa using hfv) hco inp.builtin
  have hcm : ∃ e, cfgMain sem row inp = .error e := by
    unfold cfgMain
    cases fileMutexViolated row (overlay inp.dflt inp.prof) with
    | true => exact ⟨_, rfl⟩
    | false => exact ⟨e, by simp [he]⟩
  obtain ⟨e', he'⟩ := hcm
  rcases hscope with h | h | h
  · rw [pipeline_initial sem cmd row inp hc hp h, he']
    cases parseCli sem row inp.cli [] none with
    | error e => exact ⟨e, rfl⟩
    | ok f => exact ⟨e', rfl⟩
  · rw [pipeline_common sem cmd row inp hc hp h (hearly (by omega)), he']
    exact ⟨e', rfl⟩
  · rw [pipeline_backend sem cmd row inp hc hp h (hearly (by omega)), he]
    exact ⟨e, rfl⟩


theorem pipelineFinal_error (sem : Sem V) (cmd : OptCommand) (row : OptRow) (inp : Inputs V)
    (h : ∃ e, pipeline sem cmd row inp = .error e) : ∃ e, pipelineFinal sem cmd row inp = .error e := by
  obtain ⟨e, he⟩ := h
  exact ⟨e, by simp [pipelineFinal, he]⟩

/-- what the rejection lemma needs to know about a row -/
def wfReject (row : OptRow) : Bool :=
  (row.scope == 0 || row.scope == 1 || row.scope == 2 || row.scope == 3) &&
  (row.scope != 3 || (row.file.isEmpty && row.env.isNone)) &&
  (row.scope == 0 || !row.early)

theorem rows_wfReject : ∀ row ∈ optRows, wfReject row = true := by decide

theorem invalid_winner_rejected_aux (sem : Sem V) (cmd : OptCommand) (hc : cmd.setDefaults = true) (hp : cmd.parents = true)
    (row : OptRow) (hwf : wfReject row = true) (hplain : allPlain row = true)
    (s : Simple V) (e : Err) (hspec : spec sem row s = .error e) (hne : e ≠ .model) :
    ∃ e', pipelineFinal sem cmd row s.toInputs = .error e' := by
  apply pipelineFinal_error
  simp only [wfReject, Bool.and_eq_true, Bool.or_eq_true, beq_iff_eq, bne_iff_ne, ne_eq, Bool.not_eq_true'] at hwf
  obtain ⟨⟨hscope, hs3⟩, hearly⟩ := hwf
  have hearly' : row.scope ≠ 0 → row.early = false := by
    intro h; rcases hearly with h' | h'
    · exact absurd h' h
    · exact h'
  -- a bad key in the merged mapping
  have badkey : ∀ k r, lookup (overlay s.toInputs.dflt s.toInputs.prof) k = some r → ∀ lower e, fileValue sem row (k, r) lower = .error e →
      e ≠ .model → ∃ e, pipeline sem cmd row s.toInputs = .error e := by
    intro k r hl lower e hfv hne'
    simp only [fileValue] at hfv
    cases hf : row.file[k]? with
    | none => simp [hf] at hfv; exact absurd hfv.symm hne'
    | some fv =>
      have hmem : fv ∈ row.file := List.mem_of_getElem? hf
      have hk : fv.kind = .plain := by
        have := List.all_eq_true.mp hplain fv hmem
        simpa using this
      simp only [hf, hk] at hfv
      split at hfv
      · simp at hfv
      · cases hco : sem.co fv.ty r with
        | some x => simp [hco, orErr] at hfv
        | none =>
          have hsc : row.scope = 0 ∨ row.scope = 1 ∨ row.scope = 2 := by
            rcases hscope with ((h | h) | h) | h
            · exact Or.inl h
            · exact Or.inr (Or.inl h)
            · exact Or.inr (Or.inr h)
            · rcases hs3 with h' | h'
              · exact absurd h h'
              · have : row.file = [] := by simpa using h'.1
                simp [this] at hf
          exact pipeline_error_of_bad_key sem cmd hc hp row hsc hearly' s.toInputs k r hl fv hf hco
  unfold spec at hspec
  cases hcl : s.cli with
  | some ir =>
    obtain ⟨i, raw⟩ := ir
    simp only [hcl] at hspec
    cases hv : row.cli[i]? with
    | none => simp [hv] at hspec; exact absurd hspec.symm hne
    | some v =>
      simp only [hv] at hspec
      apply pipeline_error_of_step sem cmd row s.toInputs .secondParse _ secondParse_mem
      intro st
      have : parseCli sem row s.toInputs.cli [] none = .error e := by
        simp [Simple.toInputs, hcl, parseCli_one, hv, hspec]
      exact ⟨e, by simp [step, this]⟩
  | none =>
    simp only [hcl] at hspec
    unfold specBelowCli at hspec
    have hbelow : ∀ e, specBelowEnv sem row s = .error e → e ≠ .model → ∃ e, pipeline sem cmd row s.toInputs = .error e := by
      intro e hb hne'
      unfold specBelowEnv at hb
      cases hpr : s.prof with
      | some kv =>
        obtain ⟨k, r⟩ := kv
        simp only [hpr] at hb
        exact badkey k r (by simp [Simple.toInputs, hpr, lookup_overlay, lookup]) _ e hb hne'
      | none =>
        simp only [hpr] at hb
        unfold specBelowProfile at hb
        cases hdf : s.dflt with
        | some kv =>
          obtain ⟨k, r⟩ := kv
          simp only [hdf] at hb
          exact badkey k r (by simp [Simple.toInputs, hpr, hdf, lookup_overlay, lookup]) _ e hb hne'
        | none => simp [hdf] at hb
    cases hre : row.env with
    | none => simp only [hre] at hspec; exact hbelow e hspec hne
    | some nt =>
      obtain ⟨n, ty⟩ := nt
      cases hse : s.env with
      | none => simp only [hre, hse] at hspec; exact hbelow e hspec hne
      | some raw =>
        simp only [hre, hse] at hspec
        cases hco : sem.co ty raw with
        | some x => simp [hco, orErr] at hspec
        | none =>
          have henv : ∀ cfg, applyEnvVar sem row s.toInputs.env cfg = .error .configValue := by
            intro cfg; simp [applyEnvVar, hre, Simple.toInputs, hse, hco, orErr]
          rcases hscope with ((h | h) | h) | h
          · apply pipeline_error_of_step sem cmd row s.toInputs .applyEnv _ applyEnv_mem
            intro st; exact ⟨.configValue, by simp [step, h, henv]⟩
          · apply pipeline_error_of_step sem cmd row s.toInputs .applyEnv _ applyEnv_mem
            intro st; exact ⟨.configValue, by simp [step, h, henv]⟩
          · apply pipeline_error_of_step sem cmd row s.toInputs .backendApplyEnv _ backendApplyEnv_mem
            intro st; exact ⟨.configValue, by simp [step, isBackend, h, henv]⟩
          · rcases hs3 with h' | h'
            · exact absurd h h'
            · simp [hre] at h'

/-! ## a small concrete semantics for the negation witnesses -/

deriving instance DecidableEq for Except

/-- a small universe of Python values -/
inductive TV
  | none | tru | fls | missing
  | str (s : String) | int (n : Nat) | path (s : String) | bytes (s : String)
  deriving DecidableEq, Repr

/-- leaf functions of the witnesses: they behave like the real ones on the handful of values used there
(`guess_type` = `ast.literal_eval` with fallback to the string itself; it raises on a non-string; `Path`,
`str.encode`, reading a file) -/
def toySem : Sem TV where
  co ty v :=
    match ty, v with
    | .guessType, .str s =>
      if s == "'1'" then some (.str "1")
      else if s == "1" then some (.int 1)
      else if s == "7" then some (.int 7)
      else if s == "9877" then some (.int 9877)
      else some (.str s)
    | .guessType, _ => Option.none
    | .path, .str s => some (.path s)
    | .checkBoolean, .tru => some .tru
    | .checkBoolean, .fls => some .fls
    | .strEncode, .str s => some (.bytes s)
    | .readBytesCfg, .str s => some (.bytes ("contents of " ++ s))
    | .readBytesCli, .str s => some (.bytes ("contents of " ++ s))
    | _, _ => Option.none
  isStr v := match v with
    | .str _ => true
    | _ => false
  truthy v := v == .tru
  noneV := .none
  trueV := .tru

/-- the row of the generated table for an option (`owner` = backend module / sub-command / "") -/
def rowOf (owner dest : String) : Option OptRow := optRows.find? (fun r => r.owner == owner && r.dest == dest)

theorem rowOf_mem {owner dest : String} {row : OptRow} (h : rowOf owner dest = some row) : row ∈ optRows :=
  List.mem_of_find?_eq_some h


/-! rows used by the witnesses -/
/-- the first sub-command of the table (the witnesses do not depend on the sub-command) -/
def cmd0 : OptCommand := optCommands.head!

def vfyPort : OptRow := (rowOf "vfy" "port").get (by decide)
def s3cKeyId : OptRow := (rowOf "s3c" "key_id").get (by decide)
def vfyNumericLabel : OptRow := (rowOf "vfy" "numeric_label").get (by decide)
def cacheDirectory : OptRow := (rowOf "" "cache_directory").get (by decide)
def keyRow : OptRow := (rowOf "" "key").get (by decide)

end Replicat.Options
