import ReplicatModel.SymSession
import ReplicatProofs.Lemmas.SymBasic
/-! Helper lemmas about sessions of one long-lived client object (`ReplicatModel/SymSession.lean`): when the digest comparison
dominates the write, the object's state is never consulted, so a session is the list of its commands run by fresh clients. -/
namespace Replicat.Sym

theorem verifyChunkC_dom (cl : Client) (p : Props) (d obj : Term) : verifyChunkC true cl p d obj = verifyChunk p d obj := by
  simp [verifyChunkC]

theorem verifyChunkC_unknown (dom : Bool) (cl : Client) (p : Props) (d obj : Term) (h : cl.verified.contains d = false) :
    verifyChunkC dom cl p d obj = verifyChunk p d obj := by
  unfold verifyChunkC
  rw [h]
  simp

theorem fetchChunkC_dom (cl : Client) (p : Props) (s : Store) : fetchChunkC true cl p s = fetchChunk p s := by
  funext d
  unfold fetchChunkC fetchChunk
  cases lookup s (chunkLoc p d) with
  | none => rfl
  | some obj => simp [verifyChunkC_dom]

theorem fetchChunkC_fresh (dom : Bool) (p : Props) (s : Store) : fetchChunkC dom Client.fresh p s = fetchChunk p s := by
  funext d
  unfold fetchChunkC fetchChunk
  cases lookup s (chunkLoc p d) with
  | none => rfl
  | some obj => simp [verifyChunkC_unknown, Client.fresh]

theorem restoreC_dom (cl : Client) (p : Props) (s : Store) (t : Term) : restoreC true cl p s t = restore p s t := by
  unfold restoreC restore
  rw [fetchChunkC_dom]
  cases loadAll p t (snapEntries s) <;> rfl

theorem restoreC_fresh (dom : Bool) (p : Props) (s : Store) (t : Term) : restoreC dom Client.fresh p s t = restore p s t := by
  unfold restoreC restore
  rw [fetchChunkC_fresh]
  cases loadAll p t (snapEntries s) <;> rfl

theorem runSession_dom (p : Props) (cmds : List Cmd) : ∀ cl, runSession true p cl cmds = runFresh p cmds := by
  induction cmds with
  | nil => intro cl; rfl
  | cons c rest ih =>
    intro cl
    cases c with
    | restore s t => simp [runSession, runFresh, restoreC_dom, ih]
    | list s t => simp [runSession, runFresh, ih]

end Replicat.Sym
