import ReplicatProofs.Lemmas.SymRunStep
/-! What the readers return on a store that satisfies the history invariant: the owner of a present snapshot restores what was
recorded, a shared key of the family sees the chunk table only, a key of another family sees nothing. -/
namespace Replicat.Sym
open Term (pub sec nonce key nil pair mac kdf enc)

theorem dataOk_spec {n : Nat} {d : Data} (h : dataOk n d = true) :
    nodupB (d.files.map (·.path)) = true ∧ ∀ f ∈ d.files, ∀ r ∈ f.refs, r.index < n := by
  unfold dataOk at h
  simp only [Bool.and_eq_true, List.all_eq_true, decide_eq_true_eq] at h
  exact h

/-! ## reading an honestly written snapshot object -/
theorem loadSnapshot_own (p : Props) (n1 n2 : Term) (table : List Term) (data : Data) :
    loadSnapshot p (snapshotTag p (snapshotName (snapshotStored p n1 n2 (encTable table) (encData data))))
        (snapshotName (snapshotStored p n1 n2 (encTable table) (encData data)))
        (snapshotStored p n1 n2 (encTable table) (encData data)) = .ok (some (table, some data)) := by
  simp [loadSnapshot, snapshotName, decryptBody_stored]

theorem loadSnapshot_shared (p q : Props) (hp : p.encrypted = true) (hq : q.encrypted = true) (hsh : q.sh = p.sh)
    (hk : q.userKey ≠ p.userKey) (n1 n2 : Term) (table : List Term) (data : Data) :
    loadSnapshot q (snapshotTag p (snapshotName (snapshotStored p n1 n2 (encTable table) (encData data))))
        (snapshotName (snapshotStored p n1 n2 (encTable table) (encData data)))
        (snapshotStored p n1 n2 (encTable table) (encData data)) = .ok (some (table, none)) := by
  have ht : snapshotTag q = snapshotTag p := by funext x; simp [snapshotTag, hp, hq, hsh]
  simp [loadSnapshot, snapshotName, decryptBody_foreign p q hp hq hsh hk, ht]

theorem loadSnapshot_other_family (p q : Props) (hp : p.encrypted = true) (hq : q.encrypted = true)
    (hk : q.sh.macKey ≠ p.sh.macKey) (name obj : Term) :
    loadSnapshot q (snapshotTag p name) name obj = .ok none := by
  have h1 : Gen.snapTagChecked = true := rfl
  have h2 : Gen.snapTagMacDepth = 0 + 1 := rfl
  have : snapshotTag q name ≠ snapshotTag p name := by
    simp only [snapshotTag, hp, hq, if_true, h2, macN]
    intro h
    injection h with h _
    exact hk h
  simp [loadSnapshot, hq, h1, this]

/-! ## the object found under a present snapshot's location is the object that was written -/
theorem taken_entry {cfg : Term} {s : St} (h : HInv cfg s) (t : Taken) (hp : lookup s.store t.loc ≠ none) :
    (pair prefixSnap (pair (snapshotTag t.p t.name) t.name), t.stored) ∈ s.store := by
  cases hl : lookup s.store t.loc with
  | none => exact absurd hl hp
  | some obj =>
    have hm : (t.loc, obj) ∈ s.store := lookup_some_mem hl
    have hf := h.hl.forms _ (h.hs.sub _ hm)
    obtain ⟨_, _, _, hname, _⟩ := form_snapLoc (t := snapshotTag t.p t.name) (n := t.name) hf rfl
    have : obj = t.stored := (Term.hash.inj hname).symm
    rw [this] at hm
    exact hm

/-- exactly one object of the store carries a present snapshot's name -/
theorem snapEntries_split {cfg : Term} {s : St} (h : HInv cfg s) (tag name obj : Term)
    (hm : (pair prefixSnap (pair tag name), obj) ∈ s.store) :
    ∃ l r, snapEntries s.store = l ++ (tag, name, obj) :: r ∧ (∀ e ∈ l, e.2.1 ≠ name) ∧ (∀ e ∈ r, e.2.1 ≠ name) := by
  obtain ⟨s1, s2, hs⟩ := List.append_of_mem hm
  have hnd := h.hs.nodup
  rw [hs, List.map_append, List.map_cons, List.nodup_append] at hnd
  obtain ⟨_, hnd2, hdisj⟩ := hnd
  rw [List.nodup_cons] at hnd2
  have hsub : ∀ e ∈ s.store, e ∈ s.log := h.hs.sub
  -- any other entry with this name would sit at the same location
  have hsame : ∀ x : Term × Term × Term, (pair prefixSnap (pair x.1 x.2.1), x.2.2) ∈ s.store → x.2.1 = name →
      pair prefixSnap (pair x.1 x.2.1) = pair prefixSnap (pair tag name) := by
    intro x hx hn
    have := h.hl.snapTag _ (hsub _ hx) _ (hsub _ hm) x.1 tag name (by rw [hn]) rfl
    rw [this, hn]
  refine ⟨snapEntries s1, snapEntries s2, ?_, ?_, ?_⟩
  · rw [hs, snapEntries_append, snapEntries_snap]
  · intro x hx hn
    have hx1 := (mem_snapEntries s1 x).mp hx
    have hloc := hsame x (by rw [hs]; exact List.mem_append_left _ hx1) hn
    have hk : pair prefixSnap (pair x.1 x.2.1) ∈ s1.map (·.1) := List.mem_map.mpr ⟨_, hx1, rfl⟩
    exact hdisj _ hk _ (List.mem_cons_self) hloc
  · intro x hx hn
    have hx2 := (mem_snapEntries s2 x).mp hx
    have hloc := hsame x (by rw [hs]; exact List.mem_append_right _ (List.mem_cons_of_mem _ hx2)) hn
    have hk : pair prefixSnap (pair x.1 x.2.1) ∈ s2.map (·.1) := List.mem_map.mpr ⟨_, hx2, rfl⟩
    rw [hloc] at hk
    exact hnd2.1 hk

/-- what ANY reader `q` loads under the name of a present snapshot is decided by the one object that was written -/
theorem loadBodies_taken {cfg : Term} {s : St} (h : HInv cfg s) (t : Taken) (hp : lookup s.store t.loc ≠ none) (q : Props) :
    loadBodies q t.name (snapEntries s.store) =
      (match loadSnapshot q (snapshotTag t.p t.name) t.name t.stored with
       | .error e => .error e
       | .ok (some b) => .ok [b]
       | .ok none => .ok []) := by
  obtain ⟨l, r, hs, hl, hr⟩ := snapEntries_split h _ _ _ (taken_entry h t hp)
  rw [hs]
  exact loadBodies_single q _ t.name _ l r hl hr

/-! ## chunks -/
theorem fetch_present {cfg : Term} {s : St} (h : HInv cfg s) (u : User) (hu : u ∈ s.users) (c : Term)
    (hp : lookup s.store (chunkLoc (u.props s.encrypted) (digest c)) ≠ none) :
    fetchChunk (u.props s.encrypted) s.store (digest c) = .ok c := by
  unfold fetchChunk
  cases hl : lookup s.store (chunkLoc (u.props s.encrypted) (digest c)) with
  | none => exact absurd hl hp
  | some obj =>
    simp only
    have hm := lookup_some_mem hl
    have hf := h.hl.forms _ (h.hs.sub _ hm)
    obtain ⟨u', hu', nn, c', he⟩ := form_chunkLoc (t := chunkTag (u.props s.encrypted) (digest c))
      (n := chunkName (u.props s.encrypted) (digest c)) hf rfl
    injection he with he1 he2
    obtain ⟨hd, hmac⟩ := chunkLoc_inj (p := u.props s.encrypted) (q := u'.props s.encrypted) rfl he1
    have hc : c = c' := digest_inj hd
    subst hc
    rw [he2]
    refine verifyChunk_family (p := u.props s.encrypted) (q := u'.props s.encrypted) rfl ?_ nn c
    intro he
    exact h.hu.fam u hu u' hu' (hmac he)

/-! ## the three readers -/
theorem restoreMd_taken {cfg : Term} {s : St} {ts : List Taken} (h : HInv cfg s) (hti : TI s ts) (t : Taken) (ht : t ∈ ts)
    (hp : lookup s.store t.loc ≠ none) :
    ∃ out, recordedFiles t.contents t.data.files = some out ∧ restoreMd t.p s.store t.name = .ok out := by
  obtain ⟨⟨u, hu, hpu⟩, hdok⟩ := hti.ok t ht
  have hum : u ∈ s.users := List.mem_of_getElem? hu
  obtain ⟨hnd, hrefs⟩ := dataOk_spec hdok
  have htab := table_eq_contents t
  -- every captured chunk fetches to itself
  have hf : ∀ c ∈ t.contents, fetchChunk t.p s.store (digest c) = .ok c := by
    intro c hc
    rw [hpu]
    apply fetch_present h u hum c
    rw [← hpu]
    apply hti.pres t ht hp
    rw [htab]
    exact List.mem_map.mpr ⟨c, hc, rfl⟩
  have hlen : t.table.length = t.contents.length := by rw [htab, List.length_map]
  obtain ⟨out, ho1, ho2⟩ := restoreFilesMd_complete (fetchChunk t.p s.store) t.contents hf t.data.files
    (fun f hf' r hr => by have := hrefs f hf' r hr; omega)
  refine ⟨out, ho1, ?_⟩
  have hb := loadBodies_taken h t hp t.p
  have hown : loadSnapshot t.p (snapshotTag t.p t.name) t.name t.stored = .ok (some (t.table, some t.data)) :=
    loadSnapshot_own t.p t.n1 t.n2 t.table t.data
  rw [hown] at hb
  unfold restoreMd
  rw [loadAll_eq_loadBodies, hb]
  simp only [Except.map, List.filterMap_cons, keepData, List.filterMap_nil]
  rw [selectFiles_single t.table t.data hnd, htab]
  exact ho2

theorem restoreMd_no_body (q : Props) (store : Store) (name : Term) (bodies : List (List Term × Option Data))
    (hb : loadBodies q name (snapEntries store) = .ok bodies) (hnone : ∀ b ∈ bodies, b.2 = none) :
    restoreMd q store name = .ok [] := by
  unfold restoreMd
  rw [loadAll_eq_loadBodies, hb]
  have : bodies.filterMap keepData = [] := by
    rw [List.filterMap_eq_nil_iff]
    intro b hbm
    obtain ⟨tb, d⟩ := b
    have := hnone _ hbm
    simp only at this
    subst this
    rfl
  simp [Except.map, this, isort, selectFiles, restoreFilesMd]

theorem shared_taken {cfg : Term} {s : St} (h : HInv cfg s) (t : Taken) (hp : lookup s.store t.loc ≠ none) (q : Props)
    (he : t.p.encrypted = true) (hq : q.encrypted = true) (hsh : q.sh = t.p.sh) (hk : q.userKey ≠ t.p.userKey) :
    loadBodies q t.name (snapEntries s.store) = .ok [(t.table, none)] ∧ restoreMd q s.store t.name = .ok [] := by
  have hb := loadBodies_taken h t hp q
  have hsn : loadSnapshot q (snapshotTag t.p t.name) t.name t.stored = .ok (some (t.table, none)) :=
    loadSnapshot_shared t.p q he hq hsh hk t.n1 t.n2 t.table t.data
  rw [hsn] at hb
  refine ⟨hb, restoreMd_no_body q _ _ _ hb ?_⟩
  intro b hbm
  simp only [List.mem_singleton] at hbm
  subst hbm
  rfl

theorem independent_taken {cfg : Term} {s : St} (h : HInv cfg s) (t : Taken) (hp : lookup s.store t.loc ≠ none) (q : Props)
    (he : t.p.encrypted = true) (hq : q.encrypted = true) (hk : q.sh.macKey ≠ t.p.sh.macKey) :
    loadBodies q t.name (snapEntries s.store) = .ok [] ∧ restoreMd q s.store t.name = .ok [] := by
  have hb := loadBodies_taken h t hp q
  rw [loadSnapshot_other_family t.p q he hq hk] at hb
  exact ⟨hb, restoreMd_no_body q _ _ _ hb (fun b hbm => by cases hbm)⟩

/-! ## names -/
theorem sameUpToNonce_refl (x : Term) : sameUpToNonce x x = true := by simp [sameUpToNonce]

/-- two emitted entries under one name have the same content up to the AEAD nonce -/
theorem log_names_unique {cfg : Term} {s : St} (h : HInv cfg s) (e1 e2 : Term × Term) (h1 : e1 ∈ s.log) (h2 : e2 ∈ s.log)
    (hn : e1.1 = e2.1) : sameUpToNonce e1.2 e2.2 = true := by
  have f1 := h.hl.forms e1 h1
  have f2 := h.hl.forms e2 h2
  cases f1 with
  | config =>
    cases f2 with
    | config => exact sameUpToNonce_refl _
    | key i t hi => simp [configLoc, keyLoc] at hn
    | chunk u hu n c => simp [configLoc, chunkLoc] at hn
    | snap u hu st hk => simp [configLoc, snapLoc] at hn
  | key i t hi =>
    have := h.hl.keyUniq _ h1 _ h2 i rfl hn.symm
    simp only at this
    rw [this]
    exact sameUpToNonce_refl _
  | chunk u hu n c =>
    obtain ⟨u', hu', n', c', he⟩ := form_chunkLoc (t := chunkTag (u.props s.encrypted) (digest c))
      (n := chunkName (u.props s.encrypted) (digest c)) (h.hl.forms e2 h2) hn.symm
    subst he
    obtain ⟨hd, hmac⟩ := chunkLoc_inj (p := u.props s.encrypted) (q := u'.props s.encrypted) rfl hn
    have hc : c = c' := digest_inj hd
    subst hc
    cases hen : s.encrypted with
    | false => simp [chunkObject, sameUpToNonce]
    | true =>
      have hsh := h.hu.fam u hu u' hu' (hmac hen)
      simp [chunkObject, sameUpToNonce, subKey, hsh]
  | snap u hu st hk =>
    obtain ⟨_, _, _, hname, _⟩ := form_snapLoc (t := snapshotTag (u.props s.encrypted) (snapshotName st))
      (n := snapshotName st) (h.hl.forms e2 h2) hn.symm
    have : st = e2.2 := Term.hash.inj hname
    simp only
    rw [this]
    exact sameUpToNonce_refl _

end Replicat.Sym
