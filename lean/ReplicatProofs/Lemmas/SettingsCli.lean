import ReplicatModel.SettingsCli
/-! helper lemmas for the command-line part of `Properties/C17.lean` (`ReplicatModel/SettingsCli.lean`) -/
namespace Replicat.SettingsCli
open Replicat.Gen

/-! ## the loop of `parse_cli_settings` against its adjacency specification -/

theorem parseLoop_none {β : Type} (g : Str → β) (args : List Str) :
    ∀ (m : List (Str × β)) (u : List Str),
      parseLoop g args none m u =
        ((cliPairs args).foldl (fun m p => dictSet m (normKey p.1) (g p.2)) m, u ++ cliLeftover args) := by
  induction args using cliPairs.induct with
  | case1 => intro m u; simp [parseLoop, cliPairs, cliLeftover, pushPending]
  | case2 a =>
    intro m u
    by_cases h : isFlag a = true <;> simp [parseLoop, cliPairs, cliLeftover, pushPending, h]
  | case3 a b rest h ih =>
    intro m u
    simp only [Bool.and_eq_true, Bool.not_eq_true'] at h
    simp [parseLoop, cliPairs, cliLeftover, pushPending, h.1, h.2, ih]
  | case4 a b rest h ih =>
    intro m u
    by_cases ha : isFlag a = true
    · have hb : isFlag b = true := by
        cases hb : isFlag b with
        | true => rfl
        | false => exact absurd (by simp [ha, hb]) h
      simpa [parseLoop, cliPairs, cliLeftover, pushPending, ha, hb] using ih m (u ++ [a])
    · have ha' : isFlag a = false := by simpa using ha
      simpa [parseLoop, cliPairs, cliLeftover, pushPending, ha'] using ih m (u ++ [a])

/-- the mapping is the dict of the adjacent flag/value pairs, the unknown list is everything else, in order -/
theorem parseWith_spec {β : Type} (g : Str → β) (args : List Str) :
    parseWith g args = (toDict ((cliPairs args).map (fun p => (normKey p.1, g p.2))), cliLeftover args) := by
  simp [parseWith, parseLoop_none, toDict, List.foldl_map]

theorem cli_perm (args : List Str) :
    args.Perm ((cliPairs args).flatMap (fun p => [p.1, p.2]) ++ cliLeftover args) := by
  induction args using cliPairs.induct with
  | case1 => simp [cliPairs, cliLeftover]
  | case2 a => simp [cliPairs, cliLeftover]
  | case3 a b rest h ih =>
    simp only [cliPairs, cliLeftover, h, if_true, List.flatMap_cons, List.cons_append, List.nil_append]
    exact (ih.cons b).cons a
  | case4 a b rest h ih =>
    have h' : (isFlag a && !isFlag b) = false := by simpa using h
    simp only [cliPairs, cliLeftover, h', Bool.false_eq_true, if_false]
    exact (ih.cons a).trans List.perm_middle.symm

/-! ## dicts as association lists -/

theorem dictGet_dictSet {γ : Type} (m : List (Str × γ)) (k k' : Str) (v : γ) :
    dictGet (dictSet m k v) k' = if k = k' then some v else dictGet m k' := by
  induction m with
  | nil => simp [dictSet, dictGet]
  | cons x xs ih =>
    obtain ⟨kx, vx⟩ := x
    by_cases h : kx = k
    · subst h
      by_cases h3 : kx = k' <;> simp [dictSet, dictGet, h3]
    · by_cases h2 : kx = k'
      · subst h2
        have : ¬ k = kx := fun e => h e.symm
        simp [dictSet, dictGet, h, this]
      · simp [dictSet, dictGet, h, h2, ih]

theorem dictSet_keys {γ : Type} (m : List (Str × γ)) (k : Str) (v : γ) :
    (dictSet m k v).map (·.1) = if k ∈ m.map (·.1) then m.map (·.1) else m.map (·.1) ++ [k] := by
  induction m with
  | nil => simp [dictSet]
  | cons x xs ih =>
    obtain ⟨kx, vx⟩ := x
    by_cases h : kx = k
    · subst h; simp [dictSet]
    · have h' : ¬ k = kx := fun e => h e.symm
      by_cases hm : k ∈ xs.map (·.1)
      · simp only [dictSet, h, if_false, List.map_cons, ih, hm, if_true, List.mem_cons, or_true]
      · simp only [dictSet, h, if_false, List.map_cons, ih, hm, List.mem_cons, h', or_self, List.cons_append]

theorem dictSet_fresh {γ : Type} (m : List (Str × γ)) (k : Str) (v : γ) (h : k ∉ m.map (·.1)) :
    dictSet m k v = m ++ [(k, v)] := by
  induction m with
  | nil => simp [dictSet]
  | cons x xs ih =>
    obtain ⟨kx, vx⟩ := x
    simp only [List.map_cons, List.mem_cons, not_or] at h
    have : ¬ kx = k := fun e => h.1 e.symm
    simp [dictSet, this, ih h.2]

theorem dictSet_nodup {γ : Type} (m : List (Str × γ)) (k : Str) (v : γ) (h : (m.map (·.1)).Nodup) :
    ((dictSet m k v).map (·.1)).Nodup := by
  rw [dictSet_keys]
  split
  · exact h
  · rename_i hk
    rw [List.nodup_append]
    refine ⟨h, by simp, ?_⟩
    intro a ha b hb
    simp only [List.mem_singleton] at hb
    subst hb
    intro e; subst e; exact hk ha

theorem foldl_dictSet_nodup {γ : Type} (l : List (Str × γ)) :
    ∀ m : List (Str × γ), (m.map (·.1)).Nodup → ((l.foldl (fun m kv => dictSet m kv.1 kv.2) m).map (·.1)).Nodup := by
  induction l with
  | nil => intro m h; exact h
  | cons x xs ih => intro m h; exact ih _ (dictSet_nodup m x.1 x.2 h)

theorem toDict_nodup {γ : Type} (l : List (Str × γ)) : ((toDict l).map (·.1)).Nodup :=
  foldl_dictSet_nodup l [] (by simp)

theorem dictGet_foldl {γ : Type} (l : List (Str × γ)) (k : Str) :
    ∀ m : List (Str × γ), dictGet (l.foldl (fun m kv => dictSet m kv.1 kv.2) m) k =
      match lastFor k l with
      | some w => some w
      | none => dictGet m k := by
  induction l with
  | nil => intro m; simp [lastFor]
  | cons x xs ih =>
    intro m
    obtain ⟨kx, vx⟩ := x
    simp only [List.foldl_cons, ih, lastFor]
    cases hl : lastFor k xs with
    | some w => rfl
    | none =>
      simp only [dictGet_dictSet]
      by_cases h : kx = k <;> simp [h]

theorem dictGet_toDict {γ : Type} (l : List (Str × γ)) (k : Str) : dictGet (toDict l) k = lastFor k l := by
  unfold toDict
  rw [dictGet_foldl]
  cases lastFor k l <;> simp [dictGet]

theorem dictGet_of_mem {γ : Type} (m : List (Str × γ)) (h : (m.map (·.1)).Nodup) (k : Str) (v : γ) :
    (k, v) ∈ m ↔ dictGet m k = some v := by
  induction m with
  | nil => simp [dictGet]
  | cons x xs ih =>
    obtain ⟨kx, vx⟩ := x
    simp only [List.map_cons, List.nodup_cons] at h
    by_cases hk : kx = k
    · subst hk
      simp only [dictGet, if_true, Option.some.injEq, List.mem_cons, Prod.mk.injEq, true_and]
      constructor
      · rintro (e | hm)
        · exact e.symm
        · exact absurd (List.mem_map_of_mem (f := (·.1)) hm) h.1
      · intro e; exact Or.inl e.symm
    · have hk' : ¬ k = kx := fun e => hk e.symm
      simp [dictGet, hk, hk', ih h.2]

theorem dictGet_isSome_iff {γ : Type} (m : List (Str × γ)) (k : Str) :
    (dictGet m k).isSome = true ↔ k ∈ m.map (·.1) := by
  induction m with
  | nil => simp [dictGet]
  | cons x xs ih =>
    obtain ⟨kx, vx⟩ := x
    by_cases hk : kx = k
    · subst hk; simp [dictGet]
    · have hk' : ¬ k = kx := fun e => hk e.symm
      simp [dictGet, hk, hk', ih]

theorem lastFor_isSome_iff {γ : Type} (l : List (Str × γ)) (k : Str) :
    (lastFor k l).isSome = true ↔ k ∈ l.map (·.1) := by
  induction l with
  | nil => simp [lastFor]
  | cons x xs ih =>
    obtain ⟨kx, vx⟩ := x
    simp only [lastFor, List.map_cons, List.mem_cons]
    cases hl : lastFor k xs with
    | some w =>
      have : k ∈ xs.map (·.1) := ih.mp (by simp [hl])
      simp [this]
    | none =>
      have : ¬ k ∈ xs.map (·.1) := fun hm => by have := ih.mpr hm; simp [hl] at this
      by_cases hk : kx = k
      · subst hk; simp
      · have hk' : ¬ k = kx := fun e => hk e.symm
        simp [hk, hk', this]

theorem toDict_keys_mem {γ : Type} (l : List (Str × γ)) (k : Str) : k ∈ (toDict l).map (·.1) ↔ k ∈ l.map (·.1) := by
  rw [← dictGet_isSome_iff, dictGet_toDict, lastFor_isSome_iff]

theorem foldl_dictSet_fresh {γ : Type} (l : List (Str × γ)) :
    ∀ m : List (Str × γ), ((m ++ l).map (·.1)).Nodup → l.foldl (fun m kv => dictSet m kv.1 kv.2) m = m ++ l := by
  induction l with
  | nil => intro m _; simp
  | cons x xs ih =>
    intro m h
    have hx : x.1 ∉ m.map (·.1) := by
      simp only [List.map_append, List.map_cons, List.nodup_append, List.mem_cons] at h
      intro hm
      exact h.2.2 _ hm _ (Or.inl rfl) rfl
    simp only [List.foldl_cons, dictSet_fresh m x.1 x.2 hx]
    rw [ih (m ++ [(x.1, x.2)]) (by simpa using h)]
    simp

/-- a list of assignments with distinct keys IS the dict it denotes -/
theorem toDict_of_nodup {γ : Type} (l : List (Str × γ)) (h : (l.map (·.1)).Nodup) : toDict l = l := by
  unfold toDict
  rw [foldl_dictSet_fresh l [] (by simpa using h)]
  simp

/-! ## Python's order on `str`, and `sorted` -/

theorem strLt_irrefl (a : Str) : strLt a a = false := by
  induction a with
  | nil => rfl
  | cons x xs ih => simp [strLt, ih]

theorem strLt_trans : ∀ (a b c : Str), strLt a b = true → strLt b c = true → strLt a c = true
  | [], [], _, h, _ => by simp [strLt] at h
  | [], _ :: _, [], _, h => by simp [strLt] at h
  | [], _ :: _, _ :: _, _, _ => by simp [strLt]
  | _ :: _, [], _, h, _ => by simp [strLt] at h
  | _ :: _, _ :: _, [], _, h => by simp [strLt] at h
  | x :: xs, y :: ys, z :: zs, h1, h2 => by
    simp only [strLt] at h1 h2 ⊢
    by_cases hxy : x = y
    · subst hxy
      simp only [if_true] at h1
      by_cases hxz : x = z
      · subst hxz
        simp only [if_true] at h2 ⊢
        exact strLt_trans xs ys zs h1 h2
      · simpa [hxz] using h2
    · simp only [hxy, if_false, decide_eq_true_eq] at h1
      by_cases hyz : y = z
      · subst hyz
        simp [hxy, h1]
      · simp only [hyz, if_false, decide_eq_true_eq] at h2
        have hxz : ¬ x = z := by
          intro e; subst e; omega
        simp only [hxz, if_false, decide_eq_true_eq]
        omega

theorem strLt_total : ∀ (a b : Str), a ≠ b → strLt a b = true ∨ strLt b a = true
  | [], [], h => absurd rfl h
  | [], _ :: _, _ => Or.inl (by simp [strLt])
  | _ :: _, [], _ => Or.inr (by simp [strLt])
  | x :: xs, y :: ys, h => by
    simp only [strLt]
    by_cases hxy : x = y
    · subst hxy
      have : xs ≠ ys := fun e => h (by rw [e])
      simpa using strLt_total xs ys this
    · have hyx : ¬ y = x := fun e => hxy e.symm
      have hne : x.toNat ≠ y.toNat := fun e => hxy (Char.toNat_inj.mp e)
      simp only [hxy, hyx, if_false, decide_eq_true_eq]
      omega

theorem strLt_asymm (a b : Str) (h : strLt a b = true) : strLt b a = false := by
  cases h2 : strLt b a with
  | false => rfl
  | true => have := strLt_trans a b a h h2; rw [strLt_irrefl] at this; cases this

/-- a proper prefix sorts before its extensions — in particular a key before every key it is a dotted prefix of -/
theorem strLt_append (q : Str) (c : Char) (r : Str) : strLt q (q ++ c :: r) = true := by
  induction q with
  | nil => simp [strLt]
  | cons x xs ih => simp [strLt, ih]

def KeyLt {β : Type} (a b : Str × β) : Prop := strLt a.1 b.1 = true

theorem insertSorted_perm {β : Type} (kv : Str × β) (l : List (Str × β)) : (insertSorted kv l).Perm (kv :: l) := by
  induction l with
  | nil => simp [insertSorted]
  | cons x xs ih =>
    simp only [insertSorted]
    split
    · exact List.Perm.refl _
    · exact (ih.cons x).trans (List.Perm.swap kv x xs)

theorem sortKeys_perm {β : Type} (l : List (Str × β)) : (sortKeys l).Perm l := by
  induction l with
  | nil => simp [sortKeys]
  | cons x xs ih =>
    simp only [sortKeys, List.foldr_cons] at ih ⊢
    exact (insertSorted_perm x _).trans (ih.cons x)

theorem insertSorted_sorted {β : Type} (kv : Str × β) (l : List (Str × β)) (hs : l.Pairwise KeyLt)
    (hk : kv.1 ∉ l.map (·.1)) : (insertSorted kv l).Pairwise KeyLt := by
  induction l with
  | nil => simp [insertSorted]
  | cons x xs ih =>
    simp only [insertSorted]
    rw [List.pairwise_cons] at hs
    simp only [List.map_cons, List.mem_cons, not_or] at hk
    split
    · rename_i hlt
      rw [List.pairwise_cons]
      refine ⟨?_, List.pairwise_cons.mpr hs⟩
      intro b hb
      rcases List.mem_cons.mp hb with rfl | hb
      · exact hlt
      · exact strLt_trans _ _ _ hlt (hs.1 b hb)
    · rename_i hnlt
      rw [List.pairwise_cons]
      refine ⟨?_, ih hs.2 hk.2⟩
      intro b hb
      rcases List.mem_cons.mp ((insertSorted_perm kv xs).subset hb) with rfl | hb
      · rcases strLt_total x.1 b.1 (fun e => hk.1 e.symm) with h | h
        · exact h
        · exact absurd h hnlt
      · exact hs.1 b hb

theorem sortKeys_sorted {β : Type} (l : List (Str × β)) (h : (l.map (·.1)).Nodup) : (sortKeys l).Pairwise KeyLt := by
  induction l with
  | nil => simp [sortKeys]
  | cons x xs ih =>
    simp only [List.map_cons, List.nodup_cons] at h
    simp only [sortKeys, List.foldr_cons] at ih ⊢
    refine insertSorted_sorted x _ (ih h.2) ?_
    intro hm
    have : x.1 ∈ xs.map (·.1) := by
      obtain ⟨y, hy, e⟩ := List.mem_map.mp hm
      exact List.mem_map.mpr ⟨y, (sortKeys_perm xs).subset hy, e⟩
    exact h.1 this

/-- the sorted arrangement of a dict's items does not depend on the order in which the items were inserted -/
theorem sortKeys_eq_of_perm {β : Type} (l₁ l₂ : List (Str × β)) (hp : l₁.Perm l₂) (hn : (l₁.map (·.1)).Nodup) :
    sortKeys l₁ = sortKeys l₂ := by
  have hn2 : (l₂.map (·.1)).Nodup := (hp.map _).nodup hn
  refine List.Perm.eq_of_pairwise (le := KeyLt) ?_ (sortKeys_sorted l₁ hn) (sortKeys_sorted l₂ hn2)
    ((sortKeys_perm l₁).trans (hp.trans (sortKeys_perm l₂).symm))
  intro a b _ _ hab hba
  have := strLt_asymm _ _ hab
  unfold KeyLt at hba
  rw [this] at hba
  cases hba

/-! ## `str.split` / `str.join` -/

theorem splitOn_ne_nil (sep : Char) (k : Str) : splitOn sep k ≠ [] := by
  induction k with
  | nil => simp [splitOn]
  | cons c cs ih =>
    simp only [splitOn]
    split
    · simp
    · split <;> simp

theorem joinOn_cons_cons (sep : Char) (w : Str) (ws : List Str) (h : ws ≠ []) :
    joinOn sep (w :: ws) = w ++ sep :: joinOn sep ws := by
  cases ws with
  | nil => exact absurd rfl h
  | cons w' ws' => rfl

theorem joinOn_splitOn (sep : Char) (k : Str) : joinOn sep (splitOn sep k) = k := by
  induction k with
  | nil => simp [splitOn, joinOn]
  | cons c cs ih =>
    simp only [splitOn]
    split
    · rename_i h
      rw [joinOn_cons_cons sep [] _ (splitOn_ne_nil sep cs), ih, h]
      simp
    · cases hs : splitOn sep cs with
      | nil => exact absurd hs (splitOn_ne_nil sep cs)
      | cons w ws =>
        simp only
        rw [hs] at ih
        cases ws with
        | nil => simp only [joinOn] at ih ⊢; rw [ih]
        | cons w' ws' =>
          simp only [joinOn] at ih ⊢
          rw [← ih]; simp

theorem splitOn_injective (sep : Char) (a b : Str) (h : splitOn sep a = splitOn sep b) : a = b := by
  rw [← joinOn_splitOn sep a, ← joinOn_splitOn sep b, h]

theorem splitOn_append_sep (sep : Char) (q r : Str) : splitOn sep (q ++ sep :: r) = splitOn sep q ++ splitOn sep r := by
  induction q with
  | nil => simp [splitOn]
  | cons c cs ih =>
    simp only [List.cons_append, splitOn]
    split
    · rw [ih]; simp
    · rw [ih]
      cases hs : splitOn sep cs with
      | nil => exact absurd hs (splitOn_ne_nil sep cs)
      | cons w ws => simp

theorem joinOn_append (sep : Char) (a b : List Str) (ha : a ≠ []) (hb : b ≠ []) :
    joinOn sep (a ++ b) = joinOn sep a ++ sep :: joinOn sep b := by
  induction a with
  | nil => exact absurd rfl ha
  | cons w ws ih =>
    cases ws with
    | nil =>
      simp only [List.cons_append, List.nil_append]
      rw [joinOn_cons_cons sep w b hb]
      simp [joinOn]
    | cons w' ws' =>
      have := ih (by simp)
      simp only [List.cons_append] at this ⊢
      rw [joinOn_cons_cons sep w (w' :: (ws' ++ b)) (by simp), this, joinOn_cons_cons sep w (w' :: ws') (by simp)]
      simp

/-- one key is a proper DOTTED prefix of another exactly when its path is a proper prefix of the other's path -/
theorem dotted_prefix_iff (sep : Char) (q p : Str) :
    (∃ r, p = q ++ sep :: r) ↔ ∃ w ws, splitOn sep p = splitOn sep q ++ w :: ws := by
  constructor
  · rintro ⟨r, rfl⟩
    rw [splitOn_append_sep]
    cases hs : splitOn sep r with
    | nil => exact absurd hs (splitOn_ne_nil sep r)
    | cons w ws => exact ⟨w, ws, rfl⟩
  · rintro ⟨w, ws, h⟩
    refine ⟨joinOn sep (w :: ws), ?_⟩
    have := joinOn_splitOn sep p
    rw [h, joinOn_append sep _ _ (splitOn_ne_nil sep q) (by simp), joinOn_splitOn] at this
    exact this.symm

/-! ## the nested dict: what one item does to the scalars of the tree -/

theorem isProperPrefix_iff (q p : List Str) : isProperPrefix q p = true ↔ ∃ w ws, p = q ++ w :: ws := by
  simp only [isProperPrefix, Bool.and_eq_true, decide_eq_true_eq, List.isPrefixOf_iff_prefix]
  constructor
  · rintro ⟨⟨t, rfl⟩, hl⟩
    cases t with
    | nil => simp at hl
    | cons w ws => exact ⟨w, ws, rfl⟩
  · rintro ⟨w, ws, rfl⟩
    exact ⟨⟨w :: ws, rfl⟩, by simp⟩

theorem isProperPrefix_nil_right (q : List Str) : isProperPrefix q [] = false := by
  cases q <;> simp [isProperPrefix]

theorem isProperPrefix_cons_cons (x z : Str) (p q : List Str) :
    isProperPrefix (x :: p) (z :: q) = (decide (x = z) && isProperPrefix p q) := by
  simp only [isProperPrefix, List.isPrefixOf_cons_cons, List.length_cons, Nat.add_lt_add_iff_right, Bool.and_assoc]
  by_cases h : x = z <;> simp [h]

theorem isProperPrefix_nil_cons (z : Str) (q : List Str) : isProperPrefix [] (z :: q) = true := by
  simp [isProperPrefix]

theorem isProperPrefix_irrefl (p : List Str) : isProperPrefix p p = false := by
  simp [isProperPrefix]

theorem leafAt_nil_node {β : Type} (kids : List (Str × Tree β)) : Tree.leafAt [] (.node kids) = none := rfl
theorem leafAt_nil_leaf {β : Type} (v : β) : Tree.leafAt [] (.leaf v) = some v := rfl
theorem leafAt_cons_leaf {β : Type} (x : Str) (r : List Str) (v : β) : Tree.leafAt (x :: r) (.leaf v) = none := rfl

theorem leafAt_cons_node {β : Type} (x : Str) (r : List Str) (kids : List (Str × Tree β)) :
    Tree.leafAt (x :: r) (.node kids) = match dictGet kids x with | some c => Tree.leafAt r c | none => none := by
  simp only [Tree.leafAt, Tree.get]
  cases dictGet kids x <;> rfl

theorem leafAt_leaf {β : Type} (q : List Str) (v : β) : Tree.leafAt q (.leaf v) = if q = [] then some v else none := by
  cases q <;> simp [leafAt_nil_leaf, leafAt_cons_leaf]

/-- `current.setdefault(x, {})` and the existing child carry the same scalars below `x` -/
theorem leafAt_child {β : Type} (kids : List (Str × Tree β)) (x : Str) (q : List Str) :
    Tree.leafAt q ((dictGet kids x).getD (.node [])) = Tree.leafAt (x :: q) (.node kids) := by
  rw [leafAt_cons_node]
  cases h : dictGet kids x with
  | some c => rfl
  | none =>
    cases q with
    | nil => rfl
    | cons a r => simp [leafAt_cons_node, dictGet]

theorem insertPath_cons_leaf {β : Type} (x : Str) (r : List Str) (v w : β) : insertPath (x :: r) v (.leaf w) = none := by
  cases r <;> rfl

/-- the item fails (AttributeError / TypeError → `Conflicting options`) exactly when a scalar sits at a proper prefix of its path -/
theorem insertPath_none_iff {β : Type} (v : β) (p : List Str) :
    ∀ t : Tree β, insertPath p v t = none ↔ ∃ q w, isProperPrefix q p = true ∧ Tree.leafAt q t = some w := by
  induction p with
  | nil =>
    intro t
    simp [insertPath, isProperPrefix_nil_right]
  | cons x p' ih =>
    intro t
    cases t with
    | leaf w0 =>
      rw [insertPath_cons_leaf]
      simp only [true_iff]
      exact ⟨[], w0, isProperPrefix_nil_cons _ _, rfl⟩
    | node kids =>
      cases p' with
      | nil =>
        simp only [insertPath, reduceCtorEq, false_iff, not_exists, not_and]
        intro q w hq
        cases q with
        | nil => simp [leafAt_nil_node]
        | cons z q' =>
          rw [isProperPrefix_cons_cons, isProperPrefix_nil_right] at hq
          simp at hq
      | cons y rest =>
        have ih' := ih ((dictGet kids x).getD (.node []))
        simp only [insertPath]
        constructor
        · intro h
          have hn : insertPath (y :: rest) v ((dictGet kids x).getD (.node [])) = none := by
            cases hc : insertPath (y :: rest) v ((dictGet kids x).getD (.node [])) with
            | none => rfl
            | some c => rw [hc] at h; cases h
          obtain ⟨q, w, hq, hl⟩ := ih'.mp hn
          refine ⟨x :: q, w, ?_, ?_⟩
          · rw [isProperPrefix_cons_cons]; simp [hq]
          · rw [← leafAt_child]; exact hl
        · rintro ⟨q, w, hq, hl⟩
          cases q with
          | nil => simp [leafAt_nil_node] at hl
          | cons z q' =>
            rw [isProperPrefix_cons_cons] at hq
            simp only [Bool.and_eq_true, decide_eq_true_eq] at hq
            obtain ⟨rfl, hq⟩ := hq
            rw [← leafAt_child] at hl
            rw [ih'.mpr ⟨q', w, hq, hl⟩]

/-- after a successful item: its own path holds the value, everything below that path is gone, every other scalar stays -/
theorem leafAt_insertPath {β : Type} (v : β) (p : List Str) :
    ∀ (t t' : Tree β), p ≠ [] → insertPath p v t = some t' →
      ∀ q, Tree.leafAt q t' = if q = p then some v else if isProperPrefix p q = true then none else Tree.leafAt q t := by
  induction p with
  | nil => intro t t' h; exact absurd rfl h
  | cons x p' ih =>
    intro t t' _ hins q
    cases t with
    | leaf w0 => rw [insertPath_cons_leaf] at hins; cases hins
    | node kids =>
      cases p' with
      | nil =>
        simp only [insertPath, Option.some.injEq] at hins
        subst hins
        cases q with
        | nil => simp [leafAt_nil_node]
        | cons z q' =>
          rw [leafAt_cons_node, dictGet_dictSet, isProperPrefix_cons_cons]
          by_cases hxz : x = z
          · subst hxz
            simp only [if_true, leafAt_leaf, decide_true, Bool.true_and, List.cons.injEq, true_and]
            cases q' with
            | nil => simp
            | cons a r => simp [isProperPrefix_nil_cons]
          · have hzx : ¬ z = x := fun e => hxz e.symm
            simp [hxz, hzx, leafAt_cons_node]
      | cons y rest =>
        simp only [insertPath] at hins
        cases hc : insertPath (y :: rest) v ((dictGet kids x).getD (.node [])) with
        | none => rw [hc] at hins; cases hins
        | some c =>
          rw [hc] at hins
          simp only [Option.some.injEq] at hins
          subst hins
          have ih' := ih _ c (by simp) hc
          cases q with
          | nil => simp [leafAt_nil_node, isProperPrefix_nil_right]
          | cons z q' =>
            rw [leafAt_cons_node, dictGet_dictSet, isProperPrefix_cons_cons]
            by_cases hxz : x = z
            · subst hxz
              simp only [if_true, ih' q', leafAt_child, decide_true, Bool.true_and, List.cons.injEq, true_and]
            · have hzx : ¬ z = x := fun e => hxz e.symm
              simp [hxz, hzx, leafAt_cons_node]

/-! ## all items: the invariant of the loop of `flat_to_nested` -/

/-- the scalars of the tree are exactly the items processed so far -/
def TreeHolds {β : Type} (t : Tree β) (done : List (List Str × β)) : Prop :=
  ∀ q w, Tree.leafAt q t = some w ↔ (q, w) ∈ done

/-- no item is a proper prefix of an EARLIER one (what sorting buys) -/
def PrefixFirst {β : Type} (items : List (List Str × β)) : Prop :=
  items.Pairwise (fun a b => isProperPrefix b.1 a.1 = false)

theorem insertAll_spec {β : Type} (items : List (List Str × β)) :
    ∀ (t : Tree β) (done : List (List Str × β)),
      TreeHolds t done →
      (∀ a ∈ done, ∀ b ∈ items, a.1 ≠ b.1 ∧ isProperPrefix b.1 a.1 = false) →
      PrefixFirst items → (items.map (·.1)).Nodup → (∀ b ∈ items, b.1 ≠ []) →
      (insertAll items t = none ↔ ∃ a ∈ done ++ items, ∃ b ∈ items, isProperPrefix a.1 b.1 = true) ∧
      (∀ t', insertAll items t = some t' → TreeHolds t' (done ++ items)) := by
  induction items with
  | nil =>
    intro t done hinv _ _ _ _
    simp only [insertAll, reduceCtorEq, List.append_nil, List.not_mem_nil, false_and, exists_false, and_false,
      iff_self, Option.some.injEq, true_and]
    intro t' e; subst e; exact hinv
  | cons it rest ih =>
    intro t done hinv hsep hpf hnd hne
    obtain ⟨p, v⟩ := it
    simp only [insertAll]
    have hp : p ≠ [] := hne (p, v) (by simp)
    rw [PrefixFirst, List.pairwise_cons] at hpf
    simp only [List.map_cons, List.nodup_cons] at hnd
    cases hins : insertPath p v t with
    | none =>
      simp only [true_iff, reduceCtorEq, false_imp_iff, implies_true, and_true]
      obtain ⟨q, w, hq, hl⟩ := (insertPath_none_iff v p t).mp hins
      exact ⟨(q, w), List.mem_append_left _ ((hinv q w).mp hl), (p, v), by simp, hq⟩
    | some t1 =>
      simp only
      have hleaf := leafAt_insertPath v p t t1 hp hins
      have hinv1 : TreeHolds t1 (done ++ [(p, v)]) := by
        intro q w
        rw [hleaf q]
        by_cases hqp : q = p
        · subst hqp
          simp only [if_true, Option.some.injEq, List.mem_append, List.mem_singleton, Prod.mk.injEq, true_and]
          constructor
          · intro e; exact Or.inr e.symm
          · rintro (hm | e)
            · exact absurd rfl (hsep (q, w) hm (q, v) (by simp)).1
            · exact e.symm
        · simp only [hqp, if_false, List.mem_append, List.mem_singleton, Prod.mk.injEq, false_and, or_false]
          by_cases hpp : isProperPrefix p q = true
          · simp only [hpp, if_true, reduceCtorEq, false_iff]
            intro hm
            have := (hsep (q, w) hm (p, v) (by simp)).2
            simp only at this
            rw [this] at hpp; cases hpp
          · simp only [hpp, Bool.false_eq_true, if_false]
            exact hinv q w
      have hsep1 : ∀ a ∈ done ++ [(p, v)], ∀ b ∈ rest, a.1 ≠ b.1 ∧ isProperPrefix b.1 a.1 = false := by
        intro a ha b hb
        rcases List.mem_append.mp ha with ha | ha
        · exact hsep a ha b (List.mem_cons_of_mem _ hb)
        · simp only [List.mem_singleton] at ha
          subst ha
          refine ⟨?_, hpf.1 b hb⟩
          intro e
          exact hnd.1 (List.mem_map.mpr ⟨b, hb, e.symm⟩)
      obtain ⟨ih1, ih2⟩ := ih t1 (done ++ [(p, v)]) hinv1 hsep1 hpf.2 hnd.2 (fun b hb => hne b (List.mem_cons_of_mem _ hb))
      constructor
      · rw [ih1]
        constructor
        · rintro ⟨a, ha, b, hb, hab⟩
          exact ⟨a, by simpa [List.append_assoc] using ha, b, List.mem_cons_of_mem _ hb, hab⟩
        · rintro ⟨a, ha, b, hb, hab⟩
          rcases List.mem_cons.mp hb with rfl | hb
          · exfalso
            simp only at hab
            rcases List.mem_append.mp ha with ha | ha
            · have : insertPath p v t = none :=
                (insertPath_none_iff v p t).mpr ⟨a.1, a.2, hab, (hinv a.1 a.2).mpr ha⟩
              rw [hins] at this; cases this
            · rcases List.mem_cons.mp ha with rfl | ha
              · simp [isProperPrefix_irrefl] at hab
              · have := hpf.1 a ha
                simp only at this
                rw [this] at hab; cases hab
          · exact ⟨a, by simpa [List.append_assoc] using ha, b, hb, hab⟩
      · intro t' ht'
        have := ih2 t' ht'
        simpa [List.append_assoc] using this

/-! ## `flat_to_nested` as a whole -/

/-- the source iterates `sorted(flat.items())` (regenerated; dropping `sorted` breaks this and everything below) -/
theorem flatSorted_true : flatSorted = true := by decide

theorem sortKeys_mem {β : Type} (l : List (Str × β)) (kv : Str × β) : kv ∈ sortKeys l ↔ kv ∈ l :=
  (sortKeys_perm l).mem_iff

theorem flatToNested_spec {β : Type} (flat : List (Str × β)) :
    (flatToNested flat = .error .conflictingOptions ↔
      ∃ q ∈ flat.map (·.1), ∃ p ∈ flat.map (·.1), ∃ r, p = q ++ flatSep :: r) ∧
    (∀ t, flatToNested flat = .ok t →
      ∀ path v, Tree.leafAt path t = some v ↔ ∃ k, path = splitDots k ∧ lastFor k flat = some v) := by
  have hD := toDict_nodup flat
  have hSperm := sortKeys_perm (toDict flat)
  have hSnd : ((sortKeys (toDict flat)).map (·.1)).Nodup := (hSperm.map _).symm.nodup hD
  have hSsorted := sortKeys_sorted (toDict flat) hD
  have hitems : (flatItems flat).map (fun kv => (splitDots kv.1, kv.2)) =
      (sortKeys (toDict flat)).map (fun kv => (splitOn flatSep kv.1, kv.2)) := by
    simp [flatItems, flatSorted_true, splitDots]
  have hpf : PrefixFirst ((sortKeys (toDict flat)).map (fun kv => (splitOn flatSep kv.1, kv.2))) := by
    unfold PrefixFirst
    rw [List.pairwise_map]
    refine hSsorted.imp ?_
    intro a b hab
    cases hpp : isProperPrefix (splitOn flatSep b.1) (splitOn flatSep a.1) with
    | false => rfl
    | true =>
      obtain ⟨w, ws, h⟩ := (isProperPrefix_iff _ _).mp hpp
      obtain ⟨r, hr⟩ := (dotted_prefix_iff flatSep b.1 a.1).mpr ⟨w, ws, h⟩
      have := strLt_append b.1 flatSep r
      rw [← hr] at this
      have h2 := strLt_asymm _ _ hab
      rw [this] at h2; cases h2
  have hnd : (((sortKeys (toDict flat)).map (fun kv => (splitOn flatSep kv.1, kv.2))).map (·.1)).Nodup := by
    rw [List.map_map]
    have : ((fun x : List Str × β => x.1) ∘ fun kv : Str × β => (splitOn flatSep kv.1, kv.2)) = (fun kv => splitOn flatSep kv.1) := rfl
    rw [this]
    have h1 : (sortKeys (toDict flat)).Pairwise (fun a b => a.1 ≠ b.1) := by
      have := hSnd
      rw [List.Nodup, List.pairwise_map] at this
      exact this
    rw [List.Nodup, List.pairwise_map]
    exact h1.imp (fun hab e => hab (splitOn_injective flatSep _ _ e))
  have hne : ∀ b ∈ (sortKeys (toDict flat)).map (fun kv => (splitOn flatSep kv.1, kv.2)), b.1 ≠ [] := by
    intro b hb
    obtain ⟨kv, _, rfl⟩ := List.mem_map.mp hb
    exact splitOn_ne_nil _ _
  have hinv0 : TreeHolds (Tree.node ([] : List (Str × Tree β))) [] := by
    intro q w
    cases q with
    | nil => simp [leafAt_nil_node]
    | cons x r => simp [leafAt_cons_node, dictGet]
  obtain ⟨h1, h2⟩ := insertAll_spec _ (Tree.node []) [] hinv0 (by simp) hpf hnd hne
  have hkeys : ∀ k, k ∈ (sortKeys (toDict flat)).map (·.1) ↔ k ∈ flat.map (·.1) := by
    intro k
    rw [← toDict_keys_mem flat k]
    exact (hSperm.map _).mem_iff
  unfold flatToNested
  rw [hitems]
  constructor
  · cases hins : insertAll ((sortKeys (toDict flat)).map (fun kv => (splitOn flatSep kv.1, kv.2))) (Tree.node []) with
    | some t =>
      simp only [reduceCtorEq, false_iff]
      rintro ⟨q, hq, p, hp, r, hr⟩
      have hn : insertAll ((sortKeys (toDict flat)).map (fun kv => (splitOn flatSep kv.1, kv.2))) (Tree.node []) = none := by
        rw [h1]
        obtain ⟨kq, hkq, rfl⟩ := List.mem_map.mp ((hkeys q).mpr hq)
        obtain ⟨kp, hkp, rfl⟩ := List.mem_map.mp ((hkeys p).mpr hp)
        obtain ⟨w, ws, hw⟩ := (dotted_prefix_iff flatSep kq.1 kp.1).mp ⟨r, hr⟩
        refine ⟨(splitOn flatSep kq.1, kq.2), ?_, (splitOn flatSep kp.1, kp.2), List.mem_map.mpr ⟨kp, hkp, rfl⟩, ?_⟩
        · simp only [List.nil_append]; exact List.mem_map.mpr ⟨kq, hkq, rfl⟩
        · exact (isProperPrefix_iff _ _).mpr ⟨w, ws, hw⟩
      rw [hins] at hn; cases hn
    | none =>
      simp only [true_iff]
      obtain ⟨a, ha, b, hb, hab⟩ := h1.mp hins
      simp only [List.nil_append] at ha
      obtain ⟨ka, hka, rfl⟩ := List.mem_map.mp ha
      obtain ⟨kb, hkb, rfl⟩ := List.mem_map.mp hb
      obtain ⟨w, ws, hw⟩ := (isProperPrefix_iff _ _).mp hab
      obtain ⟨r, hr⟩ := (dotted_prefix_iff flatSep ka.1 kb.1).mpr ⟨w, ws, hw⟩
      exact ⟨ka.1, (hkeys _).mp (List.mem_map_of_mem hka), kb.1, (hkeys _).mp (List.mem_map_of_mem hkb), r, hr⟩
  · intro t ht path v
    cases hins : insertAll ((sortKeys (toDict flat)).map (fun kv => (splitOn flatSep kv.1, kv.2))) (Tree.node []) with
    | none => rw [hins] at ht; cases ht
    | some t' =>
      rw [hins] at ht
      simp only [Except.ok.injEq] at ht
      subst ht
      have := h2 t' hins path v
      simp only [List.nil_append] at this
      rw [this]
      constructor
      · intro hm
        obtain ⟨kv, hkv, e⟩ := List.mem_map.mp hm
        simp only [Prod.mk.injEq] at e
        refine ⟨kv.1, e.1.symm, ?_⟩
        rw [← dictGet_toDict, ← dictGet_of_mem _ hD, ← e.2]
        exact (sortKeys_mem _ _).mp hkv
      · rintro ⟨k, rfl, hk⟩
        rw [← dictGet_toDict, ← dictGet_of_mem _ hD] at hk
        exact List.mem_map.mpr ⟨(k, v), (sortKeys_mem _ _).mpr hk, rfl⟩

/-! ## from the arguments to the tree -/

theorem lastFor_of_nodup {γ : Type} (m : List (Str × γ)) (h : (m.map (·.1)).Nodup) (k : Str) : lastFor k m = dictGet m k := by
  induction m with
  | nil => rfl
  | cons x xs ih =>
    obtain ⟨kx, vx⟩ := x
    simp only [List.map_cons, List.nodup_cons] at h
    simp only [lastFor, dictGet, ih h.2]
    by_cases hk : kx = k
    · subst hk
      have : dictGet xs kx = none := by
        cases hd : dictGet xs kx with
        | none => rfl
        | some w => exact absurd ((dictGet_isSome_iff xs kx).mp (by simp [hd])) h.1
      simp [this]
    · simp only [hk, if_false]
      cases dictGet xs k <;> rfl

theorem lastFor_toDict {γ : Type} (l : List (Str × γ)) (k : Str) : lastFor k (toDict l) = lastFor k l := by
  rw [lastFor_of_nodup _ (toDict_nodup l), dictGet_toDict]

theorem lastFor_map {γ δ : Type} (f : γ → δ) (l : List (Str × γ)) (k : Str) :
    lastFor k (l.map (fun kv => (kv.1, f kv.2))) = (lastFor k l).map f := by
  induction l with
  | nil => rfl
  | cons x xs ih =>
    obtain ⟨kx, vx⟩ := x
    simp only [List.map_cons, lastFor, ih]
    cases lastFor k xs with
    | some w => rfl
    | none => by_cases hk : kx = k <;> simp [hk]

theorem cliPairs_flags (args : List Str) : ∀ p ∈ cliPairs args, isFlag p.1 = true ∧ isFlag p.2 = false := by
  induction args using cliPairs.induct with
  | case1 => simp [cliPairs]
  | case2 a => simp [cliPairs]
  | case3 a b rest h ih =>
    simp only [cliPairs, h, if_true, List.mem_cons]
    rintro p (rfl | hp)
    · simpa using h
    · exact ih p hp
  | case4 a b rest h ih =>
    have h' : (isFlag a && !isFlag b) = false := by simpa using h
    simp only [cliPairs, h', Bool.false_eq_true, if_false]
    exact ih

theorem cliPairs_argsOfPairs (ps : List (Str × Str)) (h : ∀ p ∈ ps, isFlag p.1 = true ∧ isFlag p.2 = false) :
    cliPairs (argsOfPairs ps) = ps ∧ cliLeftover (argsOfPairs ps) = [] := by
  induction ps with
  | nil => simp [argsOfPairs, cliPairs, cliLeftover]
  | cons p ps ih =>
    have hp := h p (by simp)
    have ih' := ih (fun q hq => h q (List.mem_cons_of_mem _ hq))
    simp only [argsOfPairs, List.flatMap_cons, List.cons_append, List.nil_append] at ih' ⊢
    simp [cliPairs, cliLeftover, hp.1, hp.2, ih'.1, ih'.2]

theorem splitOn_joinOn (sep : Char) (p : List Str) (hne : p ≠ []) (hc : ∀ w ∈ p, sep ∉ w) :
    splitOn sep (joinOn sep p) = p := by
  have hword : ∀ w : Str, sep ∉ w → splitOn sep w = [w] := by
    intro w hw
    induction w with
    | nil => rfl
    | cons c cs ih =>
      simp only [List.mem_cons, not_or] at hw
      have : ¬ c = sep := fun e => hw.1 e.symm
      simp [splitOn, this, ih hw.2]
  induction p with
  | nil => exact absurd rfl hne
  | cons w ws ih =>
    cases ws with
    | nil => simpa [joinOn] using hword w (hc w (by simp))
    | cons w' ws' =>
      rw [joinOn_cons_cons sep w _ (by simp), splitOn_append_sep, hword w (hc w (by simp)),
        ih (by simp) (fun x hx => hc x (List.mem_cons_of_mem _ hx))]
      simp

theorem allPairs_iff {α : Type} (r : α → α → Bool) (l : List α) : allPairs r l = true ↔ l.Pairwise (fun a b => r a b = true) := by
  induction l with
  | nil => simp [allPairs]
  | cons a rest ih => simp [allPairs, List.pairwise_cons, ih, List.all_eq_true]

theorem guessedAll_vals (l : List (Str × Val)) : guessedAll (l.map (fun kv => (kv.1, Guess.val kv.2))) = some l := by
  induction l with
  | nil => rfl
  | cons x xs ih => obtain ⟨k, v⟩ := x; simp [guessedAll, ih]

theorem guessedAll_some (flat : List (Str × Guess)) (flatV : List (Str × Val)) (h : guessedAll flat = some flatV) :
    flat = flatV.map (fun kv => (kv.1, Guess.val kv.2)) := by
  induction flat generalizing flatV with
  | nil => simp [guessedAll] at h; subst h; rfl
  | cons x xs ih =>
    obtain ⟨k, g⟩ := x
    cases g with
    | unmodelled => simp [guessedAll] at h
    | val v =>
      simp only [guessedAll, Option.map_eq_some_iff] at h
      obtain ⟨l, hl, rfl⟩ := h
      simp [ih l hl]

/-! ### the extracted key normalisation on a canonical flag -/

theorem cliKeyOps_eq : cliKeyOps = [.lstrip ['-'], .replace '-' '_'] := by decide
theorem cliFlagPrefix_eq : cliFlagPrefix = ['-', '-'] := by decide

theorem replaceChar_id (a b : Char) (k : Str) (h : a ∉ k) : replaceChar a b k = k := by
  unfold replaceChar
  induction k with
  | nil => rfl
  | cons c cs ih =>
    simp only [List.mem_cons, not_or] at h
    have : ¬ c = a := fun e => h.1 e.symm
    simp [this, ih h.2]

theorem normKey_canonical (k : Str) (h : '-' ∉ k) : normKey (cliFlagPrefix ++ k) = k := by
  have hl : lstripChars ['-'] k = k := by
    cases k with
    | nil => rfl
    | cons c cs =>
      simp only [List.mem_cons, not_or] at h
      have : ¬ c = '-' := fun e => h.1 e.symm
      simp [lstripChars, this]
  have hr : replaceChar '-' '_' k = k := replaceChar_id '-' '_' k h
  simp [normKey, cliKeyOps_eq, cliFlagPrefix_eq, applyKeyOp, lstripChars, hl, hr]

theorem isFlag_canonical (k : Str) : isFlag (cliFlagPrefix ++ k) = true := by
  simp [isFlag, List.isPrefixOf_iff_prefix]

theorem joinOn_no_char (sep c : Char) (hsc : c ≠ sep) (p : List Str) (h : ∀ w ∈ p, c ∉ w) : c ∉ joinOn sep p := by
  induction p with
  | nil => simp [joinOn]
  | cons w ws ih =>
    cases ws with
    | nil => simpa [joinOn] using h w (by simp)
    | cons w' ws' =>
      rw [joinOn_cons_cons sep w _ (by simp)]
      simp only [List.mem_append, List.mem_cons, not_or]
      exact ⟨h w (by simp), hsc, ih (fun x hx => h x (List.mem_cons_of_mem _ hx))⟩

/-! ## the canonical command line of a list of leaves, read back -/

/-- what `leavesExpressible` says about one leaf -/
structure LeafOk (l : List Str × Val) : Prop where
  ne : l.1 ≠ []
  noSep : ∀ w ∈ l.1, flatSep ∉ w
  noDash : ∀ w ∈ l.1, '-' ∉ w
  text : ∃ t, textOf l.2 = some t ∧ isFlag t = false ∧ guessType t = .val l.2

theorem leavesExpressible_iff (ls : List (List Str × Val)) (h : leavesExpressible ls = true) :
    (∀ l ∈ ls, LeafOk l) ∧
    ls.Pairwise (fun a b => a.1 ≠ b.1 ∧ isProperPrefix a.1 b.1 = false ∧ isProperPrefix b.1 a.1 = false) := by
  simp only [leavesExpressible, leafWritable, Bool.and_eq_true, List.all_eq_true, allPairs_iff] at h
  obtain ⟨h1, h2⟩ := h
  constructor
  · intro l hl
    obtain ⟨⟨hne, hcomp⟩, htxt⟩ := h1 l hl
    have hc : ∀ w ∈ l.1, ∀ c ∈ w, c ≠ flatSep ∧ c ≠ '-' := by
      intro w hw c hcw
      have := hcomp w hw
      simp only [componentOk, List.all_eq_true, Bool.and_eq_true, bne_iff_ne, ne_eq] at this
      exact this c hcw
    refine ⟨?_, fun w hw hm => (hc w hw _ hm).1 rfl, fun w hw hm => (hc w hw _ hm).2 rfl, ?_⟩
    · intro e; rw [e] at hne; simp at hne
    · cases ht : textOf l.2 with
      | none => rw [ht] at htxt; cases htxt
      | some t =>
        rw [ht] at htxt
        simp only [Bool.and_eq_true, Bool.not_eq_true', beq_iff_eq] at htxt
        exact ⟨t, rfl, htxt.1, htxt.2⟩
  · refine h2.imp ?_
    intro a b hab
    simp only [Bool.not_eq_true', beq_eq_false_iff_ne, ne_eq] at hab
    exact ⟨hab.1.1, hab.1.2, hab.2⟩

theorem pairwise_sym_forall {α : Type} {R : α → α → Prop} (l : List α) (h : l.Pairwise (fun a b => R a b ∧ R b a)) :
    ∀ a ∈ l, ∀ b ∈ l, a ≠ b → R a b := by
  induction l with
  | nil => simp
  | cons x xs ih =>
    rw [List.pairwise_cons] at h
    intro a ha b hb hab
    rcases List.mem_cons.mp ha with rfl | ha' <;> rcases List.mem_cons.mp hb with rfl | hb'
    · exact absurd rfl hab
    · exact (h.1 b hb').1
    · exact (h.1 a ha').2
    · exact ih h.2 a ha' b hb' hab

theorem renderLeaves_eq (ls : List (List Str × Val)) (h : ∀ l ∈ ls, ∃ t, textOf l.2 = some t) :
    renderLeaves ls = argsOfPairs (ls.map (fun l => (cliFlagPrefix ++ joinOn flatSep l.1, (textOf l.2).getD []))) := by
  induction ls with
  | nil => rfl
  | cons l ls ih =>
    obtain ⟨t, ht⟩ := h l (by simp)
    have := ih (fun x hx => h x (List.mem_cons_of_mem _ hx))
    simp only [renderLeaves, argsOfPairs, List.flatMap_cons, List.map_cons] at this ⊢
    rw [this]
    simp [renderLeaf, ht]

theorem cliMain_renderLeaves (action : String) (hact : mainSettingsActions.contains action = true)
    (ls : List (List Str × Val)) (hne : ls ≠ []) (hexp : leavesExpressible ls = true) :
    ∃ t, cliMain action (renderLeaves ls) = .settings t ∧ ∀ p v, Tree.leafAt p t = some v ↔ (p, v) ∈ ls := by
  obtain ⟨hok, hpw⟩ := leavesExpressible_iff ls hexp
  have hsepdash : ('-' : Char) ≠ flatSep := by decide
  -- the pairs written on the command line
  have hrender := renderLeaves_eq ls (fun l hl => let ⟨t, ht, _⟩ := (hok l hl).text; ⟨t, ht⟩)
  have hps : ∀ p ∈ ls.map (fun l => (cliFlagPrefix ++ joinOn flatSep l.1, (textOf l.2).getD [])),
      isFlag p.1 = true ∧ isFlag p.2 = false := by
    intro p hp
    obtain ⟨l, hl, rfl⟩ := List.mem_map.mp hp
    obtain ⟨t, ht, hnf, _⟩ := (hok l hl).text
    exact ⟨isFlag_canonical _, by simp [ht, hnf]⟩
  obtain ⟨hpairs, hleft⟩ := cliPairs_argsOfPairs _ hps
  -- what the loop makes of them
  have hmapped : (ls.map (fun l => (cliFlagPrefix ++ joinOn flatSep l.1, (textOf l.2).getD []))).map
        (fun p => (normKey p.1, guessType p.2)) =
      (ls.map (fun l => (joinOn flatSep l.1, l.2))).map (fun kv => (kv.1, Guess.val kv.2)) := by
    rw [List.map_map, List.map_map]
    apply List.map_congr_left
    intro l hl
    obtain ⟨t, ht, _, hg⟩ := (hok l hl).text
    have hk := normKey_canonical (joinOn flatSep l.1) (joinOn_no_char flatSep '-' hsepdash l.1 (hok l hl).noDash)
    simp [hk, ht, hg]
  have hsplit : ∀ l ∈ ls, splitOn flatSep (joinOn flatSep l.1) = l.1 :=
    fun l hl => splitOn_joinOn flatSep l.1 (hok l hl).ne (hok l hl).noSep
  have hkeysnd : ((ls.map (fun l => (joinOn flatSep l.1, l.2))).map (·.1)).Nodup := by
    rw [List.map_map, List.Nodup, List.pairwise_map]
    have hpw' : ls.Pairwise (fun a b => a ∈ ls ∧ b ∈ ls ∧ a.1 ≠ b.1) := by
      have := List.Pairwise.and_mem.mp hpw
      exact this.imp (fun h => ⟨h.1, h.2.1, h.2.2.1⟩)
    refine hpw'.imp ?_
    intro a b ⟨ha, hb, hab⟩ e
    apply hab
    simp only [Function.comp] at e
    rw [← hsplit a ha, ← hsplit b hb, e]
  have hkeysnd' : (((ls.map (fun l => (joinOn flatSep l.1, l.2))).map (fun kv => (kv.1, Guess.val kv.2))).map (·.1)).Nodup := by
    rw [List.map_map]
    exact hkeysnd
  have hparse : parseCliSettings (renderLeaves ls) =
      ((ls.map (fun l => (joinOn flatSep l.1, l.2))).map (fun kv => (kv.1, Guess.val kv.2)), []) := by
    unfold parseCliSettings
    rw [parseWith_spec, hrender, hpairs, hleft, hmapped, toDict_of_nodup _ hkeysnd']
  have hnonempty : (renderLeaves ls).isEmpty = false := by
    cases ls with
    | nil => exact absurd rfl hne
    | cons l rest =>
      rw [hrender]
      simp [argsOfPairs]
  obtain ⟨hconf, hleaves⟩ := flatToNested_spec (ls.map (fun l => (joinOn flatSep l.1, l.2)))
  cases hft : flatToNested (ls.map (fun l => (joinOn flatSep l.1, l.2))) with
  | error e =>
    exfalso
    cases e
    obtain ⟨q, hq, p, hp, r, hr⟩ := hconf.mp hft
    simp only [List.map_map, List.mem_map, Function.comp] at hq hp
    obtain ⟨a, ha, rfl⟩ := hq
    obtain ⟨b, hb, rfl⟩ := hp
    obtain ⟨w, ws, hw⟩ := (dotted_prefix_iff flatSep _ _).mp ⟨r, hr⟩
    rw [hsplit a ha, hsplit b hb] at hw
    have hpp : isProperPrefix a.1 b.1 = true := (isProperPrefix_iff _ _).mpr ⟨w, ws, hw⟩
    have hab : a ≠ b := by
      intro e; subst e; rw [isProperPrefix_irrefl] at hpp; cases hpp
    have h := pairwise_sym_forall ls (hpw.imp (fun h => (⟨h.2.1, h.2.2⟩ : isProperPrefix _ _ = false ∧ isProperPrefix _ _ = false)))
    have := h a ha b hb hab
    rw [this] at hpp; cases hpp
  | ok t =>
    refine ⟨t, ?_, ?_⟩
    · unfold cliMain
      simp only [hnonempty, hact, hparse, Bool.false_eq_true, if_false, Bool.not_true, List.isEmpty_nil,
        guessedAll_vals, hft]
    · intro p v
      rw [hleaves t hft p v]
      constructor
      · rintro ⟨k, rfl, hk⟩
        rw [lastFor_of_nodup _ hkeysnd, ← dictGet_of_mem _ hkeysnd] at hk
        obtain ⟨l, hl, e⟩ := List.mem_map.mp hk
        simp only [Prod.mk.injEq] at e
        obtain ⟨rfl, rfl⟩ := e
        rw [splitDots, hsplit l hl]
        exact hl
      · intro hm
        refine ⟨joinOn flatSep p, ?_, ?_⟩
        · rw [splitDots, hsplit (p, v) hm]
        · rw [lastFor_of_nodup _ hkeysnd, ← dictGet_of_mem _ hkeysnd]
          exact List.mem_map.mpr ⟨(p, v), hm, rfl⟩

/-! ## `main()` -/

theorem cliMainWith_eq {β : Type} (g : Str → β) (action : String) (args : List Str) :
    cliMainWith g action args =
      if args.isEmpty then .noSettings
      else if !(mainSettingsActions.contains action) then .unrecognised args
      else if !(cliLeftover args).isEmpty then .unrecognised (cliLeftover args)
      else match flatToNested (toDict ((cliPairs args).map (fun p => (normKey p.1, g p.2)))) with
        | .ok t => .settings t
        | .error _ => .conflict := by
  unfold cliMainWith
  rw [parseWith_spec]
  rfl

theorem cliMain_eq (action : String) (args : List Str) :
    cliMain action args =
      if args.isEmpty then .noSettings
      else if !(mainSettingsActions.contains action) then .unrecognised args
      else if !(cliLeftover args).isEmpty then .unrecognised (cliLeftover args)
      else match guessedAll (toDict ((cliPairs args).map (fun p => (normKey p.1, guessType p.2)))) with
        | none => .unmodelled
        | some flatV =>
          match flatToNested flatV with
          | .ok t => .settings t
          | .error _ => .conflict := by
  unfold cliMain parseCliSettings
  rw [parseWith_spec]
  rfl

theorem flatToNested_perm {β : Type} (flat₁ flat₂ : List (Str × β)) (hp : flat₁.Perm flat₂)
    (hn : (flat₁.map (·.1)).Nodup) : flatToNested flat₁ = flatToNested flat₂ := by
  have hn2 : (flat₂.map (·.1)).Nodup := (hp.map _).nodup hn
  unfold flatToNested flatItems
  rw [flatSorted_true, toDict_of_nodup _ hn, toDict_of_nodup _ hn2, sortKeys_eq_of_perm _ _ hp hn]
  simp

theorem argsOfPairs_isEmpty (ps : List (Str × Str)) : (argsOfPairs ps).isEmpty = ps.isEmpty := by
  cases ps <;> simp [argsOfPairs]

/-! ## the canonical texts of values are read back by the modelled `guess_type` -/

def digitChar (k : Nat) : Char := Char.ofNat (48 + k)

theorem digitChar_facts : ∀ k, k < 10 →
    isDigit (digitChar k) = true ∧ isPrintable (digitChar k) = true ∧ digitChar k ≠ '_' ∧ digitChar k ≠ '-' ∧ digitChar k ≠ '+' ∧
    hexDigitVal (digitChar k) = k ∧ (digitChar k = '0' → k = 0) ∧ lowerChar (digitChar k) = digitChar k ∧
    digitChar k ≠ 'N' ∧ digitChar k ≠ 'T' ∧ digitChar k ≠ 'F' ∧ digitChar k ≠ 'n' ∧ digitChar k ≠ 't' ∧ digitChar k ≠ 'f' := by
  decide

theorem digitChar_not_letter : ∀ k, k < 10 → isLetter (digitChar k) = false := by decide

def IsDigitChar (c : Char) : Prop := ∃ k, k < 10 ∧ c = digitChar k

theorem decDigitsAux_acc : ∀ (fuel n : Nat) (acc : Str), decDigitsAux fuel n acc = decDigitsAux fuel n [] ++ acc := by
  intro fuel
  induction fuel with
  | zero => intro n acc; simp [decDigitsAux]
  | succ f ih =>
    intro n acc
    simp only [decDigitsAux]
    split
    · simp
    · rw [ih (n / 10) (_ :: acc), ih (n / 10) [_]]
      simp

theorem digitsVal_snoc (t : Str) (d : Char) (hd : d ≠ '_') : digitsVal 10 (t ++ [d]) = digitsVal 10 t * 10 + hexDigitVal d := by
  simp [digitsVal, List.foldl_append, hd]

theorem decDigitsAux_spec : ∀ (fuel n : Nat), n < 10 ^ (fuel + 1) →
    ∃ c rest, decDigitsAux (fuel + 1) n [] = c :: rest ∧ (∀ x ∈ c :: rest, IsDigitChar x) ∧
      digitsVal 10 (c :: rest) = n ∧ (c = '0' → n = 0) := by
  intro fuel
  induction fuel with
  | zero =>
    intro n hn
    have hn' : n < 10 := by simpa using hn
    obtain ⟨_, _, hu, _, _, hv, hz, _⟩ := digitChar_facts n hn'
    refine ⟨digitChar n, [], by simp [decDigitsAux, hn', digitChar], ?_, ?_, hz⟩
    · intro x hx; simp only [List.mem_singleton] at hx; exact ⟨n, hn', hx⟩
    · simp [digitsVal, hu, hv]
  | succ f ih =>
    intro n hn
    by_cases hlt : n < 10
    · obtain ⟨_, _, hu, _, _, hv, hz, _⟩ := digitChar_facts n hlt
      refine ⟨digitChar n, [], by simp [decDigitsAux, hlt, digitChar], ?_, ?_, hz⟩
      · intro x hx; simp only [List.mem_singleton] at hx; exact ⟨n, hlt, hx⟩
      · simp [digitsVal, hu, hv]
    · have hdiv : n / 10 < 10 ^ (f + 1) := by
        rw [Nat.div_lt_iff_lt_mul (by decide)]
        calc n < 10 ^ (f + 1 + 1) := hn
          _ = 10 ^ (f + 1) * 10 := by rw [Nat.pow_succ]
      obtain ⟨c, rest, ht, hall, hval, hz⟩ := ih (n / 10) hdiv
      have hmod : n % 10 < 10 := Nat.mod_lt _ (by decide)
      obtain ⟨_, _, hu, _, _, hv, _, _⟩ := digitChar_facts (n % 10) hmod
      refine ⟨c, rest ++ [digitChar (n % 10)], ?_, ?_, ?_, ?_⟩
      · have : decDigitsAux (f + 1 + 1) n [] = decDigitsAux (f + 1) (n / 10) [digitChar (n % 10)] := by
          simp [decDigitsAux, hlt, digitChar]
        rw [this, decDigitsAux_acc, ht]
        simp
      · intro x hx
        rw [← List.cons_append, List.mem_append] at hx
        rcases hx with hx | hx
        · exact hall x hx
        · simp only [List.mem_singleton] at hx; exact ⟨n % 10, hmod, hx⟩
      · rw [← List.cons_append, digitsVal_snoc _ _ hu, hval, hv]
        omega
      · intro hc
        have := hz hc
        omega

theorem lt_ten_pow_succ (n : Nat) : n < 10 ^ (n + 1) := by
  calc n < 10 ^ n := Nat.lt_pow_self (by decide)
    _ ≤ 10 ^ (n + 1) := Nat.pow_le_pow_right (by decide) (Nat.le_succ n)

theorem decDigits_spec (n : Nat) :
    ∃ c rest, decDigits n = c :: rest ∧ (∀ x ∈ c :: rest, IsDigitChar x) ∧ digitsVal 10 (c :: rest) = n ∧ (c = '0' → n = 0) :=
  decDigitsAux_spec n n (lt_ten_pow_succ n)

theorem groupsOk_digits (l : Str) (h : ∀ x ∈ l, isDigit x = true) : groupsOk isDigit l = true := by
  induction l with
  | nil => rfl
  | cons c l' ih =>
    cases l' with
    | nil => simpa [groupsOk] using h c (by simp)
    | cons d rest =>
      have hc := h c (by simp)
      simp only [groupsOk, hc, if_true]
      exact ih (fun x hx => h x (List.mem_cons_of_mem _ hx))

theorem guessTitleWords_eq : guessTitleWords = ["false".toList, "none".toList, "true".toList] := by decide

/-- a decimal numeral is read back as its number -/
theorem decLiteral_decDigits (n : Nat) : decLiteral (decDigits n) = some n := by
  obtain ⟨c, rest, ht, hall, hval, hz⟩ := decDigits_spec n
  have hdig : ∀ x ∈ c :: rest, isDigit x = true := by
    intro x hx
    obtain ⟨k, hk, rfl⟩ := hall x hx
    exact (digitChar_facts k hk).1
  rw [ht]
  simp only [decLiteral, hdig c (by simp), groupsOk_digits rest (fun x hx => hdig x (List.mem_cons_of_mem _ hx)), Bool.true_and, hval]
  by_cases hc : c = '0'
  · have hn := hz hc
    subst hn
    have h0 : decDigits 0 = ['0'] := by decide
    rw [h0] at ht
    simp only [List.cons.injEq] at ht
    obtain ⟨rfl, rfl⟩ := ht
    simp
  · simp [hc]

theorem natLiteral_decDigits (n : Nat) : natLiteral (decDigits n) = some n := by
  simp [natLiteral, decLiteral_decDigits]

theorem not_letter_ne (c : Char) (h : isLetter c = false) :
    c ≠ 'N' ∧ c ≠ 'T' ∧ c ≠ 'F' ∧ c ≠ 'n' ∧ c ≠ 't' ∧ c ≠ 'f' ∧ lowerChar c = c := by
  refine ⟨?_, ?_, ?_, ?_, ?_, ?_, ?_⟩
  · rintro rfl; exact absurd h (by decide)
  · rintro rfl; exact absurd h (by decide)
  · rintro rfl; exact absurd h (by decide)
  · rintro rfl; exact absurd h (by decide)
  · rintro rfl; exact absurd h (by decide)
  · rintro rfl; exact absurd h (by decide)
  · simp only [isLetter, Bool.or_eq_false_iff] at h
    simp [lowerChar, h.2]

theorem lit_None : "None".toList = ['N', 'o', 'n', 'e'] := by decide
theorem lit_True : "True".toList = ['T', 'r', 'u', 'e'] := by decide
theorem lit_False : "False".toList = ['F', 'a', 'l', 's', 'e'] := by decide
theorem lit_none : "none".toList = ['n', 'o', 'n', 'e'] := by decide
theorem lit_true : "true".toList = ['t', 'r', 'u', 'e'] := by decide
theorem lit_false : "false".toList = ['f', 'a', 'l', 's', 'e'] := by decide

/-- a printable text of admissible length that does not start with a letter and is an integer literal is read as that integer -/
theorem guessType_of_intLiteral (c : Char) (rest : Str) (i : Int) (hp : (c :: rest).all isPrintable = true)
    (hlen : (c :: rest).length ≤ guessMaxLen) (hc : isLetter c = false) (hint : intLiteral (c :: rest) = some i) :
    guessType (c :: rest) = .val (.int i) := by
  obtain ⟨hN, hT, hF, hn, ht, hf, hl⟩ := not_letter_ne c hc
  have hlen' : ¬ guessMaxLen < (c :: rest).length := by omega
  have hnt : guessTitleWords.contains (lowerAscii (c :: rest)) = false := by
    have : lowerAscii (c :: rest) = c :: lowerAscii rest := by simp [lowerAscii, hl]
    rw [this, guessTitleWords_eq, lit_none, lit_true, lit_false]
    simp [hn, ht, hf]
  simp only [guessType, hp, hlen', hnt, Bool.not_true, Bool.false_or, decide_false, Bool.false_eq_true, if_false]
  simp only [literalEval, reduceCtorEq, if_false, lit_None, lit_True, lit_False, List.cons.injEq, hN, hT, hF, false_and, hint]

/-- the canonical text of an integer of at most 255 digits is read back as that integer, and is not a flag -/
theorem guessType_int (i : Int) (hlen : (decDigits i.natAbs).length < guessMaxLen) :
    ∃ t, textOf (.int i) = some t ∧ guessType t = .val (.int i) ∧ isFlag t = false := by
  obtain ⟨c, rest, ht, hall, _, _⟩ := decDigits_spec i.natAbs
  have hprint : (c :: rest).all isPrintable = true := by
    rw [List.all_eq_true]
    intro x hx
    obtain ⟨k, hk, rfl⟩ := hall x hx
    exact (digitChar_facts k hk).2.1
  obtain ⟨kc, hkc, hceq⟩ := hall c (by simp)
  have hc := digitChar_facts kc hkc
  rw [← hceq] at hc
  have hcl : isLetter c = false := by
    rw [hceq]; exact digitChar_not_letter kc hkc
  have hdash : ('-' == c) = false := by
    rw [beq_eq_false_iff_ne]; exact fun e => hc.2.2.2.1 e.symm
  have hnat := natLiteral_decDigits i.natAbs
  rw [ht] at hnat hlen
  have hmax : guessMaxLen = 256 := rfl
  by_cases hneg : i < 0
  · refine ⟨'-' :: c :: rest, by simp [textOf, hneg, ht], ?_, ?_⟩
    · have hi : -((i.natAbs : Int)) = i := by omega
      apply guessType_of_intLiteral
      · rw [List.all_cons, hprint]; decide
      · simp only [List.length_cons] at hlen ⊢; omega
      · decide
      · simp [intLiteral, hnat, hi]
    · simp [isFlag, cliFlagPrefix_eq, List.isPrefixOf, hdash]
  · refine ⟨c :: rest, by simp [textOf, hneg, ht], ?_, ?_⟩
    · have hi : ((i.natAbs : Int)) = i := by omega
      apply guessType_of_intLiteral _ _ _ hprint (by omega) hcl
      unfold intLiteral
      split
      · rename_i r heq; simp only [List.cons.injEq] at heq; exact absurd heq.1 hc.2.2.2.1
      · rename_i r heq; simp only [List.cons.injEq] at heq; exact absurd heq.1 hc.2.2.2.2.1
      · simp [hnat, hi]
    · simp [isFlag, cliFlagPrefix_eq, List.isPrefixOf, hdash]

theorem wordStart_facts (c : Char) (h : isWordStart c = true) :
    c ≠ '-' ∧ c ≠ '+' ∧ c ≠ '0' ∧ c ≠ '\'' ∧ c ≠ '"' ∧ isDigit c = false ∧ isPrintable c = true := by
  refine ⟨?_, ?_, ?_, ?_, ?_, ?_, ?_⟩
  · rintro rfl; exact absurd h (by decide)
  · rintro rfl; exact absurd h (by decide)
  · rintro rfl; exact absurd h (by decide)
  · rintro rfl; exact absurd h (by decide)
  · rintro rfl; exact absurd h (by decide)
  · simp only [isWordStart, isLetter, isLower, isUpper, Bool.or_eq_true, Bool.and_eq_true, decide_eq_true_eq] at h
    rcases h with (h | h) | h
    · simp only [isDigit, Bool.and_eq_false_iff, decide_eq_false_iff_not]; omega
    · simp only [isDigit, Bool.and_eq_false_iff, decide_eq_false_iff_not]; omega
    · subst h; decide
  · simp only [isWordStart, isLetter, isLower, isUpper, Bool.or_eq_true, Bool.and_eq_true, decide_eq_true_eq] at h
    rcases h with (h | h) | h
    · simp only [isPrintable, Bool.and_eq_true, decide_eq_true_eq]; omega
    · simp only [isPrintable, Bool.and_eq_true, decide_eq_true_eq]; omega
    · subst h; decide

theorem wordChar_printable (c : Char) (h : isWordChar c = true) : isPrintable c = true := by
  simp only [isWordChar, isLetter, isLower, isUpper, isDigit, Bool.or_eq_true, Bool.and_eq_true, decide_eq_true_eq] at h
  rcases h with ((((h | h) | h) | h) | h) | h
  · simp only [isPrintable, Bool.and_eq_true, decide_eq_true_eq]; omega
  · simp only [isPrintable, Bool.and_eq_true, decide_eq_true_eq]; omega
  · simp only [isPrintable, Bool.and_eq_true, decide_eq_true_eq]; omega
  · subst h; decide
  · subst h; decide
  · subst h; decide

/-- a plain word that is not `none` / `true` / `false` is its own text, and is read back as itself -/
theorem guessType_plainWord (s : String) (hw : plainWord s.toList = true)
    (hnt : guessTitleWords.contains (lowerAscii s.toList) = false) (hlen : s.toList.length ≤ guessMaxLen) :
    textOf (.str s) = some s.toList ∧ guessType s.toList = .val (.str s) ∧ isFlag s.toList = false := by
  have hs : String.ofList s.toList = s := String.ofList_toList
  generalize ht : s.toList = t at *
  cases t with
  | nil => simp [plainWord] at hw
  | cons c rest =>
    simp only [plainWord, Bool.and_eq_true, List.all_eq_true] at hw
    obtain ⟨hc, hrest⟩ := hw
    obtain ⟨hdash, hplus, hzero, hq, hdq, hnd, hpc⟩ := wordStart_facts c hc
    have hp : (c :: rest).all isPrintable = true := by
      rw [List.all_cons, hpc, Bool.true_and, List.all_eq_true]
      exact fun x hx => wordChar_printable x (hrest x hx)
    have hlen' : ¬ guessMaxLen < (c :: rest).length := by omega
    have hpw : plainWord (c :: rest) = true := by
      simp only [plainWord, hc, Bool.true_and, List.all_eq_true]; exact hrest
    have hdashb : ('-' == c) = false := by rw [beq_eq_false_iff_ne]; exact fun e => hdash e.symm
    refine ⟨by simp only [textOf, ht, hpw, hnt, Bool.not_false, Bool.and_self, if_true], ?_, by simp [isFlag, cliFlagPrefix_eq, List.isPrefixOf, hdashb]⟩
    have hnone : ∀ w : Str, guessTitleWords.contains (lowerAscii w) = true → c :: rest ≠ w := by
      intro w hwt e; rw [← e, hnt] at hwt; cases hwt
    have h1 := hnone "None".toList (by decide)
    have h2 := hnone "True".toList (by decide)
    have h3 := hnone "False".toList (by decide)
    have hint : intLiteral (c :: rest) = none := by
      have hdec : decLiteral (c :: rest) = none := by simp [decLiteral, hnd]
      have hhex : hexLiteral (c :: rest) = none := by
        unfold hexLiteral
        split
        · rename_i heq; simp only [List.cons.injEq] at heq; exact absurd heq.1 hzero
        · rfl
      unfold intLiteral
      split
      · rename_i r heq; simp only [List.cons.injEq] at heq; exact absurd heq.1 hdash
      · rename_i r heq; simp only [List.cons.injEq] at heq; exact absurd heq.1 hplus
      · simp [natLiteral, hdec, hhex]
    have hquo : quotedLiteral (c :: rest) = none := by
      simp [quotedLiteral, hq, hdq]
    simp only [guessType, hp, hlen', hnt, Bool.not_true, Bool.false_or, decide_false, Bool.false_eq_true, if_false]
    simp only [literalEval, reduceCtorEq, if_false, h1, h2, h3, hint, hquo, hpw, if_true, hs]

/-! ## the leaves of a dict are never prefixes of one another -/

/-- what `leavesExpressible` asks of two leaves -/
def Apart (a b : List Str × Val) : Prop :=
  a.1 ≠ b.1 ∧ isProperPrefix a.1 b.1 = false ∧ isProperPrefix b.1 a.1 = false

theorem apart_of_diverge (pre : List Str) (k k' : Str) (s s' : List Str) (v v' : Val) (h : k ≠ k') :
    Apart (pre ++ k :: s, v) (pre ++ k' :: s', v') := by
  have key : ∀ (k k' : Str) (s s' : List Str), k ≠ k' → isProperPrefix (pre ++ k :: s) (pre ++ k' :: s') = false := by
    intro k k' s s' h
    cases hp : isProperPrefix (pre ++ k :: s) (pre ++ k' :: s') with
    | false => rfl
    | true =>
      obtain ⟨w, ws, e⟩ := (isProperPrefix_iff _ _).mp hp
      rw [List.append_assoc] at e
      have := List.append_cancel_left e
      simp only [List.cons_append, List.cons.injEq] at this
      exact absurd this.1.symm h
  refine ⟨?_, key k k' s s' h, key k' k s' s (fun e => h e.symm)⟩
  intro e
  simp only at e
  have := List.append_cancel_left e
  simp only [List.cons.injEq] at this
  exact h this.1

theorem keysDistinct_iff {γ : Type} (l : List (String × γ)) :
    keysDistinct l = true ↔ l.Pairwise (fun a b => a.1.toList ≠ b.1.toList) := by
  unfold keysDistinct
  rw [allPairs_iff]
  constructor <;> intro h <;> refine h.imp ?_
  · intro a b hab e
    simp only [Bool.not_eq_true', beq_eq_false_iff_ne, ne_eq] at hab
    exact hab (String.toList_injective e)
  · intro a b hab
    simp only [Bool.not_eq_true', beq_eq_false_iff_ne, ne_eq]
    intro e; exact hab (by rw [e])

open Replicat.Settings in
theorem mem_leavesOfArgs (k1 k2 : Str) (l : Args) (a : List Str × Val) (h : a ∈ leavesOfArgs k1 k2 l) :
    ∃ z ∈ l, ∃ v, z.2 = .val v ∧ a = ([k1, k2, z.1.toList], v) := by
  simp only [leavesOfArgs, List.mem_filterMap] at h
  obtain ⟨z, hz, hz2⟩ := h
  cases hv : z.2 with
  | mapping => rw [hv] at hz2; cases hz2
  | val v => rw [hv] at hz2; simp only [Option.some.injEq] at hz2; exact ⟨z, hz, v, hv, hz2.symm⟩

open Replicat.Settings in
theorem mem_leavesOfSub (k1 : Str) (kv2 : String × V2) (a : List Str × Val) (h : a ∈ leavesOfSub k1 kv2) :
    ∃ sa va, a = ([k1] ++ kv2.1.toList :: sa, va) := by
  unfold leavesOfSub at h
  cases hv : kv2.2 with
  | val v => rw [hv] at h; simp only [List.mem_singleton] at h; exact ⟨[], v, h⟩
  | args l =>
    rw [hv] at h
    obtain ⟨z, _, v, _, e⟩ := mem_leavesOfArgs _ _ _ _ h
    exact ⟨[z.1.toList], v, e⟩

open Replicat.Settings in
theorem mem_leavesOfEntry (kv : String × V1) (a : List Str × Val) (h : a ∈ leavesOfEntry kv) :
    ∃ sa va, a = ([] ++ kv.1.toList :: sa, va) := by
  unfold leavesOfEntry at h
  cases hv : kv.2 with
  | val v => rw [hv] at h; simp only [List.mem_singleton] at h; exact ⟨[], v, h⟩
  | m kvs =>
    rw [hv] at h
    simp only [List.mem_flatMap] at h
    obtain ⟨kv2, _, h⟩ := h
    obtain ⟨sa, va, e⟩ := mem_leavesOfSub _ _ _ h
    exact ⟨kv2.1.toList :: sa, va, e⟩

open Replicat.Settings in
theorem leavesOf_apart (s : Settings) (h : dictLike s = true) : (leavesOf s).Pairwise Apart := by
  simp only [dictLike, Bool.and_eq_true, List.all_eq_true] at h
  obtain ⟨htop, hin⟩ := h
  rw [keysDistinct_iff] at htop
  unfold leavesOf
  rw [List.pairwise_flatMap]
  constructor
  · -- inside one top-level entry
    intro kv hkv
    have hkv' := hin kv hkv
    unfold leavesOfEntry
    cases hv : kv.2 with
    | val v => simp
    | m kvs =>
      rw [hv] at hkv'
      simp only [Bool.and_eq_true, List.all_eq_true] at hkv'
      obtain ⟨hmid, hin2⟩ := hkv'
      rw [keysDistinct_iff] at hmid
      simp only
      rw [List.pairwise_flatMap]
      constructor
      · intro kv2 hkv2
        have hkv2' := hin2 kv2 hkv2
        unfold leavesOfSub
        cases hv2 : kv2.2 with
        | val v => simp
        | args a =>
          rw [hv2] at hkv2'
          rw [keysDistinct_iff] at hkv2'
          simp only [leavesOfArgs]
          rw [List.pairwise_filterMap]
          refine hkv2'.imp ?_
          intro x y hxy b hb b' hb'
          cases hx : x.2 with
          | mapping => rw [hx] at hb; cases hb
          | val vx =>
            cases hy : y.2 with
            | mapping => rw [hy] at hb'; cases hb'
            | val vy =>
              rw [hx] at hb; rw [hy] at hb'
              simp only [Option.some.injEq] at hb hb'
              subst hb; subst hb'
              exact apart_of_diverge [kv.1.toList, kv2.1.toList] _ _ [] [] _ _ hxy
      · refine hmid.imp ?_
        intro x y hxy a ha b hb
        obtain ⟨sa, va, rfl⟩ := mem_leavesOfSub _ _ _ ha
        obtain ⟨sb, vb, rfl⟩ := mem_leavesOfSub _ _ _ hb
        exact apart_of_diverge [kv.1.toList] _ _ sa sb va vb hxy
  · -- two different top-level entries
    refine htop.imp ?_
    intro x y hxy a ha b hb
    obtain ⟨sa, va, rfl⟩ := mem_leavesOfEntry _ _ ha
    obtain ⟨sb, vb, rfl⟩ := mem_leavesOfEntry _ _ hb
    exact apart_of_diverge [] _ _ sa sb va vb hxy

open Replicat.Settings in
/-- a dict whose leaves can each be written is expressible -/
theorem cliExpressible_of_dictLike (s : Settings) (hd : dictLike s = true) (hno : noOpaque s = true)
    (hne : (leavesOf s).isEmpty = false) (hw : (leavesOf s).all leafWritable = true) : cliExpressible s = true := by
  have hap := leavesOf_apart s hd
  simp only [cliExpressible, leavesExpressible, hne, hno, hw, Bool.not_false, Bool.true_and, allPairs_iff]
  refine hap.imp ?_
  intro a b ⟨h1, h2, h3⟩
  simp [h1, h2, h3]

end Replicat.SettingsCli
