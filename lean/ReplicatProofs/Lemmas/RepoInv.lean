import ReplicatProofs.Lemmas.RepoBasic
/-! Invariants of the repository state machine (`Consistent`, `Exact`), the upload loop of `snapshot`, the decision parts of
`delete_snapshots` / `clean` under well-formedness.  Shared by C02, C07, C08. -/
namespace Replicat.Repo
open List

/-! ## the upload loop of `snapshot` -/

theorem uploadChunk_get_some (u : User) (acc : Store × List Name) (c : Content) {n : Name} {o : Obj}
    (h : get acc.1 n = some o) : get (uploadChunk u acc c).1 n = some o := by
  unfold uploadChunk
  split
  · exact h
  · rename_i hc
    by_cases hn : n = .chunk u.fam c
    · subst hn; simp [h] at hc
    · simp only; rw [get_put_other _ _ _ _ hn]; exact h

theorem uploadChunk_get_other (u : User) (acc : Store × List Name) (c : Content) {n : Name}
    (hn : n ≠ .chunk u.fam c) : get (uploadChunk u acc c).1 n = get acc.1 n := by
  unfold uploadChunk
  split
  · rfl
  · simp only; rw [get_put_other _ _ _ _ hn]

theorem uploadChunk_get_self (u : User) (acc : Store × List Name) (c : Content) :
    get (uploadChunk u acc c).1 (.chunk u.fam c) = some ((get acc.1 (.chunk u.fam c)).getD (.chunk u.fam c)) := by
  unfold uploadChunk
  split
  · rename_i hc
    cases h : get acc.1 (.chunk u.fam c) with
    | none => simp [h] at hc
    | some o => simp
  · rename_i hc
    have : get acc.1 (.chunk u.fam c) = none := by simpa using hc
    simp only [get_put_same, this, Option.getD_none]

theorem uploadChunk_wf (u : User) (acc : Store × List Name) (c : Content) (h : WF acc.1) : WF (uploadChunk u acc c).1 := by
  unfold uploadChunk
  split
  · exact h
  · exact h.put _ _ ⟨rfl, rfl⟩

theorem uploadChunk_names (u : User) (acc : Store × List Name) (c : Content) (n : Name) :
    n ∈ (uploadChunk u acc c).2 ↔ n ∈ acc.2 ∨ (n = .chunk u.fam c ∧ get acc.1 n = none) := by
  unfold uploadChunk
  split
  · rename_i hc
    constructor
    · exact Or.inl
    · rintro (h | ⟨rfl, h⟩)
      · exact h
      · simp [h] at hc
  · rename_i hc
    have : get acc.1 (.chunk u.fam c) = none := by simpa using hc
    simp only [mem_append, mem_singleton]
    constructor
    · rintro (h | rfl)
      · exact Or.inl h
      · exact Or.inr ⟨rfl, this⟩
    · rintro (h | ⟨rfl, _⟩)
      · exact Or.inl h
      · exact Or.inr rfl

/-- objects present before the loop are never replaced (no chunk is overwritten) -/
theorem fold_get_some (u : User) (stream : List Content) (acc : Store × List Name) {n : Name} {o : Obj}
    (h : get acc.1 n = some o) : get (stream.foldl (uploadChunk u) acc).1 n = some o := by
  induction stream generalizing acc with
  | nil => exact h
  | cons c cs ih => exact ih _ (uploadChunk_get_some u acc c h)

/-- names that are not a chunk of the stream under the user's family are not touched -/
theorem fold_get_other (u : User) (stream : List Content) (acc : Store × List Name) {n : Name}
    (hn : ∀ c ∈ stream, n ≠ .chunk u.fam c) : get (stream.foldl (uploadChunk u) acc).1 n = get acc.1 n := by
  induction stream generalizing acc with
  | nil => rfl
  | cons c cs ih =>
    simp only [foldl_cons]
    rw [ih _ (fun c' hc' => hn c' (mem_cons_of_mem _ hc'))]
    exact uploadChunk_get_other u acc c (hn c (by simp))

/-- every chunk of the stream is present afterwards, with the old payload if there was one, else with its own content -/
theorem fold_get_stream (u : User) (stream : List Content) (acc : Store × List Name) {c : Content} (hc : c ∈ stream) :
    get (stream.foldl (uploadChunk u) acc).1 (.chunk u.fam c) = some ((get acc.1 (.chunk u.fam c)).getD (.chunk u.fam c)) := by
  induction stream generalizing acc with
  | nil => simp at hc
  | cons d ds ih =>
    simp only [foldl_cons]
    by_cases hd : c ∈ ds
    · rw [ih _ hd]
      by_cases hcd : c = d
      · subst hcd
        rw [uploadChunk_get_self]
        cases get acc.1 (.chunk u.fam c) <;> simp
      · rw [uploadChunk_get_other u acc d (by simp [hcd])]
    · have hcd : c = d := by
        rcases mem_cons.mp hc with h | h
        · exact h
        · exact absurd h hd
      subst hcd
      rw [fold_get_other u ds _ (by intro c' hc' h; cases h; exact hd hc'), uploadChunk_get_self]

theorem fold_wf (u : User) (stream : List Content) (acc : Store × List Name) (h : WF acc.1) :
    WF (stream.foldl (uploadChunk u) acc).1 := by
  induction stream generalizing acc with
  | nil => exact h
  | cons c cs ih => exact ih _ (uploadChunk_wf u acc c h)

/-- the uploaded names: exactly the stream's chunks (under the user's family) that were absent -/
theorem fold_names (u : User) (stream : List Content) (acc : Store × List Name) (n : Name) :
    n ∈ (stream.foldl (uploadChunk u) acc).2 ↔ n ∈ acc.2 ∨ (∃ c ∈ stream, n = .chunk u.fam c) ∧ get acc.1 n = none := by
  induction stream generalizing acc with
  | nil => simp
  | cons d ds ih =>
    simp only [foldl_cons]
    rw [ih, uploadChunk_names]
    constructor
    · rintro ((h | ⟨rfl, h⟩) | ⟨⟨c, hc, rfl⟩, h⟩)
      · exact Or.inl h
      · exact Or.inr ⟨⟨d, by simp, rfl⟩, h⟩
      · by_cases hcd : c = d
        · subst hcd
          rw [uploadChunk_get_self] at h; cases h
        · rw [uploadChunk_get_other u acc d (by simp [hcd])] at h
          exact Or.inr ⟨⟨c, mem_cons_of_mem _ hc, rfl⟩, h⟩
    · rintro (h | ⟨⟨c, hc, rfl⟩, h⟩)
      · exact Or.inl (Or.inl h)
      · by_cases hcd : c = d
        · subst hcd; exact Or.inl (Or.inr ⟨rfl, h⟩)
        · rcases mem_cons.mp hc with h' | h'
          · exact absurd h' hcd
          · refine Or.inr ⟨⟨c, h', rfl⟩, ?_⟩
            rw [uploadChunk_get_other u acc d (by simp [hcd])]; exact h

/-- nothing is uploaded twice by one (sequential) snapshot -/
theorem fold_names_nodup (u : User) (stream : List Content) (acc : Store × List Name)
    (hnd : acc.2.Nodup) (hpres : ∀ n ∈ acc.2, (get acc.1 n).isSome) :
    (stream.foldl (uploadChunk u) acc).2.Nodup := by
  induction stream generalizing acc with
  | nil => exact hnd
  | cons d ds ih =>
    simp only [foldl_cons]
    apply ih
    · unfold uploadChunk
      split
      · exact hnd
      · rename_i hc
        simp only
        rw [nodup_append]
        refine ⟨hnd, by simp, ?_⟩
        intro a ha b hb
        simp only [mem_singleton] at hb
        subst hb
        intro hab; subst hab
        exact hc (hpres _ ha)
    · intro n hn
      rcases (uploadChunk_names u acc d n).mp hn with h | ⟨rfl, _⟩
      · obtain ⟨o, ho⟩ := Option.isSome_iff_exists.mp (hpres n h)
        rw [uploadChunk_get_some u acc d ho]; rfl
      · rw [uploadChunk_get_self]; rfl

/-! ## `dedupKeepFirstC` -/
theorem mem_dedupKeepFirstC (l : List Content) (c : Content) : c ∈ dedupKeepFirstC l ↔ c ∈ l := by
  unfold dedupKeepFirstC
  have key : ∀ (l acc : List Content),
      c ∈ l.foldl (fun acc a => if acc.contains a then acc else acc ++ [a]) acc ↔ c ∈ acc ∨ c ∈ l := by
    intro l
    induction l with
    | nil => intro acc; simp
    | cons a l ih =>
      intro acc
      simp only [foldl_cons]
      rw [ih]
      by_cases ha : acc.contains a = true
      · have : a ∈ acc := by simpa using ha
        simp only [ha, if_true, mem_cons]
        constructor
        · rintro (h | h)
          · exact Or.inl h
          · exact Or.inr (Or.inr h)
        · rintro (h | rfl | h)
          · exact Or.inl h
          · exact Or.inl this
          · exact Or.inr h
      · simp only [ha, if_false, Bool.false_eq_true, mem_append, mem_cons, not_mem_nil, or_false]
        constructor
        · rintro ((h | h) | h)
          · exact Or.inl h
          · exact Or.inr (Or.inl h)
          · exact Or.inr (Or.inr h)
        · rintro (h | h | h)
          · exact Or.inl (Or.inl h)
          · exact Or.inl (Or.inr h)
          · exact Or.inr h
  rw [key]; simp

/-! ## invariants -/

/-- a snapshot body as `snapshot` writes it: every file only needs chunks of the table, each path once -/
def BodyOk (b : Body) : Prop := (∀ fr ∈ b.files, ∀ c ∈ fr.needs, c ∈ b.chunks) ∧ (b.files.map (·.path)).Nodup

/-- modelling convention for an unencrypted repository: one family (number 0) — there are no keys, names are plain digests -/
def UserOk (enc : Bool) (u : User) : Prop := enc = false → u.fam = 0

def FamOk (enc : Bool) (s : Store) : Prop := enc = false → ∀ f sid o, get s (.snap f sid) = some o → f = 0

/-- **the safety invariant**: well-formed, and every snapshot object's chunk table entries exist as valid chunk objects of
its own family -/
def Consistent (enc : Bool) (s : Store) : Prop :=
  WF s ∧ FamOk enc s ∧
    ∀ f sid b, get s (.snap f sid) = some (.snap f sid b) →
      (∀ c ∈ b.chunks, get s (.chunk f c) = some (.chunk f c)) ∧ BodyOk b

/-- the chunk objects of family `f` are exactly the chunks referenced by the family's snapshots -/
def Exact (f : Fam) (s : Store) : Prop :=
  ∀ c, (get s (.chunk f c)).isSome ↔ ∃ sid b, get s (.snap f sid) = some (.snap f sid b) ∧ c ∈ b.chunks

def opUser : Op → User
  | .snapshot u .. => u
  | .delete u _ => u
  | .clean u => u

/-- admissible commands: the user respects the unencrypted-repository convention; the files of a snapshot reference chunks
of its own stream (C01) and each path occurs once (C01 `flatten_nodup`) -/
def OpOk (enc : Bool) : Op → Prop
  | .snapshot u stream files _ _ => UserOk enc u ∧ (∀ fr ∈ files, ∀ c ∈ fr.needs, c ∈ stream) ∧ (files.map (·.path)).Nodup
  | .delete u _ => UserOk enc u
  | .clean u => UserOk enc u

/-- a snapshot's id is the digest of its stored bytes: a new snapshot never reuses the name of a present one -/
def FreshOp (s : Store) : Op → Prop
  | .snapshot u _ _ _ sid => get s (.snap u.fam sid) = none
  | _ => True

def initStore : Store := [(.config, .config)]

theorem visible_fam {enc : Bool} {u : User} {f : Fam} {s : Store} {sid : Nat} {o : Obj} (hu : UserOk enc u) (hf : FamOk enc s)
    (hg : get s (.snap f sid) = some o) (hv : visible enc u f = true) : f = u.fam := by
  cases enc with
  | true => simpa [visible] using hv
  | false => rw [hf rfl f sid o hg, hu rfl]

theorem visible_own (enc : Bool) (u : User) : visible enc u u.fam = true := by simp [visible]

/-! ## snapshot -/
theorem snapshot_get_snapname (u : User) (stream : List Content) (files : List FileRec) (ts sid : Nat) (s : Store) :
    get (snapshot u stream files ts sid s).1 (.snap u.fam sid) = some (.snap u.fam sid ⟨u.key, ts, dedupKeepFirstC stream, files⟩) := by
  unfold snapshot; simp only [get_put_same]

theorem snapshot_get_other (u : User) (stream : List Content) (files : List FileRec) (ts sid : Nat) (s : Store) {n : Name}
    (hn : n ≠ .snap u.fam sid) : get (snapshot u stream files ts sid s).1 n = get (stream.foldl (uploadChunk u) (s, [])).1 n := by
  unfold snapshot; simp only [get_put_other _ _ _ _ hn]

theorem snapshot_get_snap_other (u : User) (stream : List Content) (files : List FileRec) (ts sid : Nat) (s : Store) {f : Fam} {sid' : Nat}
    (hn : Name.snap f sid' ≠ .snap u.fam sid) : get (snapshot u stream files ts sid s).1 (.snap f sid') = get s (.snap f sid') := by
  rw [snapshot_get_other u stream files ts sid s hn, fold_get_other]
  intro c _ h; cases h

theorem snapshot_get_chunk (u : User) (stream : List Content) (files : List FileRec) (ts sid : Nat) (s : Store) (f : Fam) (c : Content) :
    get (snapshot u stream files ts sid s).1 (.chunk f c) = get (stream.foldl (uploadChunk u) (s, [])).1 (.chunk f c) :=
  snapshot_get_other u stream files ts sid s (by intro h; cases h)

theorem snapshot_wf (u : User) (stream : List Content) (files : List FileRec) (ts sid : Nat) (s : Store) (h : WF s) :
    WF (snapshot u stream files ts sid s).1 := by
  unfold snapshot
  exact (fold_wf u stream (s, []) h).put _ _ ⟨rfl, rfl⟩

theorem snapshot_consistent (enc : Bool) (u : User) (stream : List Content) (files : List FileRec) (ts sid : Nat) (s : Store)
    (h : Consistent enc s) (hop : OpOk enc (.snapshot u stream files ts sid)) :
    Consistent enc (snapshot u stream files ts sid s).1 := by
  obtain ⟨hwf, hfam, href⟩ := h
  obtain ⟨hu, hneeds, hpaths⟩ := hop
  refine ⟨snapshot_wf u stream files ts sid s hwf, ?_, ?_⟩
  · intro he f sid' o hg
    by_cases hn : Name.snap f sid' = .snap u.fam sid
    · cases hn; exact hu he
    · rw [snapshot_get_snap_other u stream files ts sid s hn] at hg
      exact hfam he f sid' o hg
  · intro f sid' b hg
    by_cases hn : Name.snap f sid' = .snap u.fam sid
    · cases hn
      rw [snapshot_get_snapname] at hg
      cases hg
      refine ⟨?_, ?_, hpaths⟩
      · intro c hc
        have hc' : c ∈ stream := (mem_dedupKeepFirstC stream c).mp hc
        rw [snapshot_get_chunk, fold_get_stream u stream (s, []) hc']
        cases hg' : get s (.chunk u.fam c) with
        | none => simp [hg']
        | some o => simp [hg', hwf.get_chunk hg']
      · intro fr hfr c hc
        exact (mem_dedupKeepFirstC stream c).mpr (hneeds fr hfr c hc)
    · rw [snapshot_get_snap_other u stream files ts sid s hn] at hg
      obtain ⟨h1, h2⟩ := href f sid' b hg
      refine ⟨?_, h2⟩
      intro c hc
      rw [snapshot_get_chunk]
      exact fold_get_some u stream (s, []) (h1 c hc)

end Replicat.Repo
