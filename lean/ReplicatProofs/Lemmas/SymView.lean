import ReplicatProofs.Lemmas.SymHistory
/-! Client views (C05): no command changes the repository's own `encrypted` flag, and a command issued under the faithful view
is the command of `step`. -/
namespace Replicat.Sym
open Term (pub sec nonce key nil pair mac kdf enc)

theorem putChunk_encrypted (p : Props) (s : St) (c : Term) : (putChunk p s c).encrypted = s.encrypted := by
  unfold putChunk
  simp only
  split <;> split <;> rfl

theorem putChunks_encrypted (p : Props) (cs : List Term) (s : St) : (cs.foldl (putChunk p) s).encrypted = s.encrypted := by
  induction cs generalizing s with
  | nil => rfl
  | cons c cs ih => rw [List.foldl_cons, ih, putChunk_encrypted]

theorem step_encrypted (s : St) (op : Op) : (step s op).encrypted = s.encrypted := by
  cases op with
  | addKey base shared kdfcfg shcfg pw =>
    simp only [step]
    split
    · rfl
    · split
      · rfl
      · split <;> rfl
  | snapshot user chunks data =>
    simp only [step]
    split
    · rfl
    · split
      · simp only [putChunks_encrypted]
      · simp only [putChunks_encrypted]
  | remove locs => rfl

/-- under the faithful view a client command is the command -/
theorem stepView_faithful (s : St) (op : Op) : stepView s s.encrypted op = step s op := by
  have h := step_encrypted s op
  unfold stepView
  have hs : ({ s with encrypted := s.encrypted } : St) = s := rfl
  rw [hs]
  cases hst : step s op
  rw [hst] at h
  simp only at h
  simp [h]

theorem stepView_encrypted (s : St) (v : Bool) (op : Op) : (stepView s v op).encrypted = s.encrypted := rfl

theorem initSt_encrypted (a : InitArgs) : (initSt a).encrypted = a.encrypted := by
  unfold initSt
  split <;> simp_all

theorem foldl_view_faithful (ops : List (Bool × Op)) (s : St) (h : ∀ vo ∈ ops, vo.1 = s.encrypted) :
    ops.foldl (fun s vo => stepView s vo.1 vo.2) s = (ops.map (·.2)).foldl step s := by
  induction ops generalizing s with
  | nil => rfl
  | cons vo ops ih =>
    have h0 : vo.1 = s.encrypted := h vo (by simp)
    simp only [List.foldl_cons, List.map_cons]
    rw [h0, stepView_faithful]
    apply ih
    intro vo' hvo'
    rw [step_encrypted]
    exact h vo' (List.mem_cons_of_mem _ hvo')

end Replicat.Sym
