import ReplicatProofs.Lemmas.LocalUpload
/-! Lemmas for two concurrent uploads of one object (`LocalUpload.lean`, section "duel"; C03). -/
namespace Replicat.LocalUpload
open List

/-- what every observer may see: the old map, or the old map with ONE of the payloads `ds` put atomically under `name` -/
def Vis (fs0 : FS) (name : Path) (ds : List Bytes) (fs : FS) : Prop :=
  (∀ n, vget fs n = vget fs0 n) ∨ ∃ d, d ∈ ds ∧ ∀ n, vget fs n = vget (putObj fs0 name d) n

/-- the worker's own temporary holds exactly what the worker has written so far (nobody else touched it) -/
def Own (c : UpCfg) (s : UpSt) (fs : FS) : Prop :=
  match s with
  | .opened w todo => lookup fs.files c.tmp = some w ∧ w ++ todo.flatten = c.pieces.flatten
  | _ => True

theorem vis_congr (fs0 fs fs' : FS) (name : Path) (ds : List Bytes) (h : ∀ n, vget fs' n = vget fs n) (hv : Vis fs0 name ds fs) :
    Vis fs0 name ds fs' := by
  rcases hv with hv | ⟨d, hd, hv⟩
  · exact Or.inl (fun n => (h n).trans (hv n))
  · exact Or.inr ⟨d, hd, fun n => (h n).trans (hv n)⟩

theorem own_congr (c : UpCfg) (s : UpSt) (fs fs' : FS) (h : lookup fs'.files c.tmp = lookup fs.files c.tmp) (ho : Own c s fs) :
    Own c s fs' := by
  cases s with
  | opened w todo => exact ⟨h.trans ho.1, ho.2⟩
  | init => trivial
  | made => trivial
  | done => trivial

theorem vget_putObj_other (fs : FS) (name n : Path) (d : Bytes) (h : n ≠ name) : vget (putObj fs name d) n = vget fs n := by
  unfold vget putObj
  by_cases hn : isTmp n = true
  · simp [hn]
  · simp only [hn]
    rw [lookup_set_other _ _ _ _ h]

theorem vis_off_name (fs0 fs : FS) (name : Path) (ds : List Bytes) (hv : Vis fs0 name ds fs) (n : Path) (h : n ≠ name) :
    vget fs n = vget fs0 n := by
  rcases hv with hv | ⟨d, _, hv⟩
  · exact hv n
  · rw [hv n, vget_putObj_other _ _ _ _ h]

theorem vget_putObj_agree (fs fs0 : FS) (name : Path) (d : Bytes) (h : ∀ n, n ≠ name → vget fs n = vget fs0 n) (n : Path) :
    vget (putObj fs name d) n = vget (putObj fs0 name d) n := by
  by_cases hn : n = name
  · subst hn
    unfold vget putObj
    by_cases ht : isTmp n = true
    · simp [ht]
    · simp only [ht]
      rw [lookup_set_same, lookup_set_same]
  · rw [vget_putObj_other _ _ _ _ hn, vget_putObj_other _ _ _ _ hn]
    exact h n hn

theorem lookup_apply_tmpOnly_other (fs : FS) (tmp t : Path) (st : Step) (h : TmpOnly tmp st) (hne : t ≠ tmp) :
    lookup (apply fs st).files t = lookup fs.files t := by
  cases st with
  | mkdirP d => rfl
  | createTemp x => cases h; simp only [apply]; rw [lookup_set_other _ _ _ _ hne]
  | write x p => cases h; simp only [apply]; rw [lookup_set_other _ _ _ _ hne]
  | unlink x => cases h; simp only [apply]; rw [lookup_remove_other _ _ _ hne]
  | rename a b => cases h

/-- ONE step of the worker that moves keeps: the visible map in `Vis`, its own temporary as it left it, the other worker's
temporary untouched — provided the two temporaries differ. -/
theorem mover_step (fs0 fs : FS) (name : Path) (ds : List Bytes) (c c' : UpCfg) (s s' : UpSt)
    (hname : c.name = name) (hnt : isTmp name = false) (ht : isTmp c.tmp = true) (ht' : isTmp c'.tmp = true)
    (hne : c'.tmp ≠ c.tmp) (hd : c.pieces.flatten ∈ ds)
    (hv : Vis fs0 name ds fs) (ho : Own c s fs) (ho' : Own c' s' fs) (st : Step) (sn : UpSt) (h : s.next c = some (st, sn)) :
    Vis fs0 name ds (apply fs st) ∧ Own c sn (apply fs st) ∧ Own c' s' (apply fs st) := by
  have hne' : c'.tmp ≠ name := by
    intro h'
    rw [h'] at ht'
    rw [hnt] at ht'
    cases ht'
  cases s with
  | init =>
    simp only [UpSt.next, Option.some.injEq, Prod.mk.injEq] at h
    obtain ⟨rfl, rfl⟩ := h
    exact ⟨vis_congr _ _ _ _ _ (fun _ => rfl) hv, trivial, own_congr _ _ _ _ rfl ho'⟩
  | made =>
    simp only [UpSt.next, Option.some.injEq, Prod.mk.injEq] at h
    obtain ⟨rfl, rfl⟩ := h
    refine ⟨vis_congr _ _ _ _ _ (vget_apply_tmpOnly fs c.tmp ht _ rfl) hv, ⟨?_, ?_⟩, ?_⟩
    · simp only [apply]; exact lookup_set_same _ _ _
    · simp
    · exact own_congr _ _ _ _ (lookup_apply_tmpOnly_other fs c.tmp c'.tmp _ rfl hne) ho'
  | opened w todo =>
    cases todo with
    | cons p ps =>
      simp only [UpSt.next, Option.some.injEq, Prod.mk.injEq] at h
      obtain ⟨rfl, rfl⟩ := h
      refine ⟨vis_congr _ _ _ _ _ (vget_apply_tmpOnly fs c.tmp ht _ rfl) hv, ⟨?_, ?_⟩, ?_⟩
      · simp only [apply, ho.1, Option.getD_some]; exact lookup_set_same _ _ _
      · rw [← ho.2]; simp [append_assoc]
      · exact own_congr _ _ _ _ (lookup_apply_tmpOnly_other fs c.tmp c'.tmp _ rfl hne) ho'
    | nil =>
      simp only [UpSt.next, Option.some.injEq, Prod.mk.injEq] at h
      obtain ⟨rfl, rfl⟩ := h
      have hw : w = c.pieces.flatten := by have := ho.2; simpa using this
      refine ⟨Or.inr ⟨c.pieces.flatten, hd, fun n => ?_⟩, trivial, ?_⟩
      · rw [hname, vget_rename fs c.tmp name w ht hnt ho.1 n, hw]
        exact vget_putObj_agree fs fs0 name _ (vis_off_name fs0 fs name ds hv) n
      · apply own_congr _ _ _ _ _ ho'
        simp only [apply, ho.1, hname]
        rw [lookup_set_other _ _ _ _ hne', lookup_remove_other _ _ _ hne]
  | done =>
    simp only [UpSt.next] at h
    cases h

/-- the invariant of the two-worker machine -/
def DuelInv (fs0 : FS) (name : Path) (c0 c1 : UpCfg) (d : Duel) : Prop :=
  Vis fs0 name [c0.pieces.flatten, c1.pieces.flatten] d.fs ∧ Own c0 d.s0 d.fs ∧ Own c1 d.s1 d.fs

theorem duelStep_inv (fs0 : FS) (name : Path) (c0 c1 : UpCfg) (h0 : c0.name = name) (h1 : c1.name = name)
    (hnt : isTmp name = false) (ht0 : isTmp c0.tmp = true) (ht1 : isTmp c1.tmp = true) (hne : c0.tmp ≠ c1.tmp)
    (d : Duel) (w : Bool) (hi : DuelInv fs0 name c0 c1 d) : DuelInv fs0 name c0 c1 (duelStep c0 c1 d w) := by
  obtain ⟨hv, ho0, ho1⟩ := hi
  unfold duelStep
  cases w with
  | true =>
    simp only [if_true]
    cases hn : d.s1.next c1 with
    | none => exact ⟨hv, ho0, ho1⟩
    | some r =>
      obtain ⟨st, sn⟩ := r
      obtain ⟨a, b, c⟩ := mover_step fs0 d.fs name _ c1 c0 d.s1 d.s0 h1 hnt ht1 ht0 hne (by simp) hv ho1 ho0 st sn hn
      exact ⟨a, c, b⟩
  | false =>
    simp only [Bool.false_eq_true, if_false]
    cases hn : d.s0.next c0 with
    | none => exact ⟨hv, ho0, ho1⟩
    | some r =>
      obtain ⟨st, sn⟩ := r
      obtain ⟨a, b, c⟩ := mover_step fs0 d.fs name _ c0 c1 d.s0 d.s1 h0 hnt ht0 ht1 (Ne.symm hne) (by simp) hv ho0 ho1 st sn hn
      exact ⟨a, b, c⟩

theorem duelRun_inv (fs0 : FS) (name : Path) (c0 c1 : UpCfg) (h0 : c0.name = name) (h1 : c1.name = name)
    (hnt : isTmp name = false) (ht0 : isTmp c0.tmp = true) (ht1 : isTmp c1.tmp = true) (hne : c0.tmp ≠ c1.tmp)
    (sched : List Bool) : DuelInv fs0 name c0 c1 (duelRun c0 c1 fs0 sched) := by
  unfold duelRun
  have gen : ∀ (sched : List Bool) (d : Duel), DuelInv fs0 name c0 c1 d → DuelInv fs0 name c0 c1 (sched.foldl (duelStep c0 c1) d) := by
    intro sched
    induction sched with
    | nil => intro d hd; exact hd
    | cons w ws ih =>
      intro d hd
      simp only [foldl_cons]
      exact ih _ (duelStep_inv fs0 name c0 c1 h0 h1 hnt ht0 ht1 hne d w hd)
  exact gen sched _ ⟨Or.inl (fun _ => rfl), trivial, trivial⟩

/-! ## the machine of one worker IS `uploadSteps` -/
theorem rest_init (c : UpCfg) : UpSt.rest c .init = uploadSteps c.dir c.name c.tmp c.pieces := by
  simp [UpSt.rest, uploadSteps, prepSteps]

theorem solo_done (c0 c1 : UpCfg) (fs : FS) (s1 : UpSt) (k : Nat) :
    ((replicate k false).foldl (duelStep c0 c1) ⟨fs, .done, s1⟩) = ⟨fs, .done, s1⟩ := by
  induction k with
  | zero => rfl
  | succ k ih =>
    simp only [replicate_succ, foldl_cons]
    have : duelStep c0 c1 ⟨fs, .done, s1⟩ false = ⟨fs, .done, s1⟩ := by simp [duelStep, UpSt.next]
    rw [this, ih]

theorem solo_rest (c0 c1 : UpCfg) (s1 : UpSt) (k : Nat) : ∀ (s : UpSt) (fs : FS),
    ((replicate k false).foldl (duelStep c0 c1) ⟨fs, s, s1⟩).fs = run fs ((s.rest c0).take k) := by
  induction k with
  | zero => intro s fs; simp [run]
  | succ k ih =>
    intro s fs
    simp only [replicate_succ, foldl_cons]
    cases s with
    | init =>
      have : duelStep c0 c1 ⟨fs, .init, s1⟩ false = ⟨apply fs (.mkdirP c0.dir), .made, s1⟩ := by simp [duelStep, UpSt.next]
      rw [this, ih]
      simp [UpSt.rest, run]
    | made =>
      have : duelStep c0 c1 ⟨fs, .made, s1⟩ false = ⟨apply fs (.createTemp c0.tmp), .opened [] c0.pieces, s1⟩ := by simp [duelStep, UpSt.next]
      rw [this, ih]
      simp [UpSt.rest, run]
    | opened w todo =>
      cases todo with
      | cons p ps =>
        have : duelStep c0 c1 ⟨fs, .opened w (p :: ps), s1⟩ false = ⟨apply fs (.write c0.tmp p), .opened (w ++ p) ps, s1⟩ := by
          simp [duelStep, UpSt.next]
        rw [this, ih]
        simp [UpSt.rest, run]
      | nil =>
        have : duelStep c0 c1 ⟨fs, .opened w [], s1⟩ false = ⟨apply fs (.rename c0.tmp c0.name), .done, s1⟩ := by simp [duelStep, UpSt.next]
        rw [this, solo_done]
        simp [UpSt.rest, run]
    | done =>
      have : duelStep c0 c1 ⟨fs, .done, s1⟩ false = ⟨fs, .done, s1⟩ := by simp [duelStep, UpSt.next]
      rw [this, solo_done]
      simp [UpSt.rest, run]

end Replicat.LocalUpload
