import ReplicatModel.SigV4
/-! C16: payload lemmas (the body iterator delivers exactly the bytes from the current position to EOF). -/
namespace Replicat.SigV4

theorem chunksFrom_flatten (chunk : Nat) (hc : 0 < chunk) : ∀ (fuel : Nat) (rest : Bytes), rest.length < fuel →
    (chunksFrom chunk fuel rest).flatten = rest
  | 0, _, h => absurd h (Nat.not_lt_zero _)
  | fuel + 1, rest, h => by
    unfold chunksFrom
    cases rest with
    | nil => simp
    | cons b t =>
      have hne : (chunk == 0) = false := by simp; omega
      simp only [List.isEmpty_cons, hne, Bool.or_self, Bool.false_eq_true, ↓reduceIte, List.flatten_cons]
      rw [chunksFrom_flatten chunk hc fuel _ (by simp [List.length_drop] at h ⊢; omega)]
      exact List.take_append_drop chunk (b :: t)

theorem streamBody_eq (chunk : Nat) (hc : 0 < chunk) (s : Stream) : streamBody chunk s = s.data.drop s.pos := by
  unfold streamBody
  exact chunksFrom_flatten chunk hc _ _ (by simp [List.length_drop]; omega)

/-! retried streamed uploads -/

theorem take_flatten_prefix (k : Nat) (l : List Bytes) : (l.take k).flatten <+: l.flatten := by
  refine ⟨(l.drop k).flatten, ?_⟩
  rw [← List.flatten_append, List.take_append_drop]

theorem streamParts_flatten (chunk : Nat) (hc : 0 < chunk) (s : Stream) : (streamParts chunk s).flatten = s.data.drop s.pos :=
  streamBody_eq chunk hc s

/-- under a policy that rewinds to 0 after EVERY class of failure, every attempt offers the whole content and what the
service received of an attempt is a prefix of it — whatever the faults were and however many parts each had pulled -/
theorem attemptsWith_rewinding (rew : FaultClass → Bool) (hrew : ∀ k, rew k = true) (d data : Bytes) (length chunk : Nat)
    (hc : 0 < chunk) : ∀ (faults : List Fault) (s : Stream), s.data = data → s.pos = 0 →
      ∀ a ∈ attemptsWith rew 0 d length chunk faults s, a.put = ⟨d, length, data⟩ ∧ a.sent <+: data
  | [], s, hd, hp, a, ha => by
    have hb : streamBody chunk s = data := by rw [streamBody_eq chunk hc, hp, hd]; rfl
    simp only [attemptsWith, List.mem_singleton] at ha
    subst ha
    simp [hb]
  | f :: fs, s, hd, hp, a, ha => by
    have hb : streamBody chunk s = data := by rw [streamBody_eq chunk hc, hp, hd]; rfl
    simp only [attemptsWith, List.mem_cons] at ha
    rcases ha with ha | ha
    · subst ha
      refine ⟨by simp [hb], ?_⟩
      have := take_flatten_prefix f.pulled (streamParts chunk s)
      rw [streamParts_flatten chunk hc, hp, hd] at this
      exact this
    · refine attemptsWith_rewinding rew hrew d data length chunk hc fs _ ?_ ?_ a ha
      · simp [afterFaultWith, hrew, hd]
      · simp [afterFaultWith, hrew]

theorem attemptsWith_length (rew : FaultClass → Bool) (to : Nat) (d : Bytes) (length chunk : Nat) :
    ∀ (faults : List Fault) (s : Stream), (attemptsWith rew to d length chunk faults s).length = faults.length + 1
  | [], _ => rfl
  | f :: fs, s => by simp [attemptsWith, attemptsWith_length rew to d length chunk fs]

end Replicat.SigV4
