import ReplicatModel.SigV4
/-! C16: payload lemmas (the body iterator delivers exactly the bytes from the current position to EOF). -/
namespace Replicat.SigV4

theorem chunksFrom_flatten (chunk : Nat) (hc : 0 < chunk) : ∀ (fuel : Nat) (rest : Bytes), rest.length < fuel →
    (chunksFrom chunk fuel rest).flatten = rest
  | 0, _, h => absurd h (Nat.not_lt_zero _)
  | fuel + 1, rest, h => by
    unfold chunksFrom
    cases rest with
    | nil => simp
    | cons b t =>
      have hne : (chunk == 0) = false := by simp; omega
      simp only [List.isEmpty_cons, hne, Bool.or_self, Bool.false_eq_true, ↓reduceIte, List.flatten_cons]
      rw [chunksFrom_flatten chunk hc fuel _ (by simp [List.length_drop] at h ⊢; omega)]
      exact List.take_append_drop chunk (b :: t)

theorem streamBody_eq (chunk : Nat) (hc : 0 < chunk) (s : Stream) : streamBody chunk s = s.data.drop s.pos := by
  unfold streamBody
  exact chunksFrom_flatten chunk hc _ _ (by simp [List.length_drop]; omega)

end Replicat.SigV4
