import ReplicatProofs.Lemmas.CrashConsistent
/-! Lemmas for C03, part 2: every accepted (crash-)prefix of the mutation plan of snapshot / delete / clean keeps the repository
consistent; what clean computes; usability of consistent states. -/
namespace Replicat.Crash
open Replicat.Repo Replicat.P18 List

theorem mem_dedupKeepFirstC_of_mem {l : List Content} {c : Content} (h : c ∈ l) : c ∈ dedupKeepFirstC l := by
  unfold dedupKeepFirstC
  suffices H : ∀ (l acc : List Content), (c ∈ acc ∨ c ∈ l) → c ∈ l.foldl (fun acc a => if acc.contains a then acc else acc ++ [a]) acc from
    H l [] (Or.inr h)
  intro l
  induction l with
  | nil => intro acc h; rcases h with h | h; exact h; cases h
  | cons a l ih =>
    intro acc h
    simp only [foldl_cons]
    apply ih
    rcases h with h | h
    · left; split
      · exact h
      · exact mem_append_left _ h
    · rcases mem_cons.mp h with rfl | h'
      · left
        by_cases hc : acc.contains c = true
        · simp only [hc, if_true]; simpa using hc
        · have hna : c ∉ acc := by simpa using hc
          simp [hna]
      · exact Or.inr h'

/-- traces accepted by a single remaining stage stay inside it -/
theorem accepts_last_stage (stage : List Mut) (tr : List Mut) (h : acceptsPrefix [stage] tr = true) : ∀ m ∈ tr, m ∈ stage := by
  rcases acceptsPrefix_cases stage [] tr h with h1 | ⟨t1, t2, rfl, hp, hacc⟩
  · exact h1
  · have := acceptsPrefix_nil_plan t2 hacc
    subst this
    intro m hm
    rw [append_nil] at hm
    exact hp.mem_iff.mp hm

/-- every mutation of an accepted trace belongs to a stage of the plan -/
theorem accepts_mem (p : Plan) (tr : List Mut) (h : acceptsPrefix p tr = true) : ∀ m ∈ tr, ∃ st ∈ p, m ∈ st := by
  induction p generalizing tr with
  | nil => rw [acceptsPrefix_nil_plan tr h]; intro m hm; cases hm
  | cons stage rest ih =>
    rcases acceptsPrefix_cases stage rest tr h with h1 | ⟨t1, t2, rfl, hp, hacc⟩
    · exact fun m hm => ⟨stage, by simp, h1 m hm⟩
    · intro m hm
      rcases mem_append.mp hm with h' | h'
      · exact ⟨stage, by simp, hp.mem_iff.mp h'⟩
      · obtain ⟨st, hst, hm'⟩ := ih t2 hacc m h'
        exact ⟨st, by simp [hst], hm'⟩

/-! ## snapshot -/
def snapPutOf (u : User) (stream : List Content) (files : List FileRec) (ts sid : Nat) : Mut :=
  Mut.put (.snap u.fam sid) (.snap u.fam sid ⟨u.key, ts, dedupKeepFirstC stream, files⟩)

def chunkStage (u : User) (stream : List Content) (s : Store) : List Mut :=
  (stream.foldl (uploadChunk u) (s, [])).2.map (fun n => match n with | .chunk f c => Mut.put n (.chunk f c) | _ => Mut.del n)

theorem snapshotPlan_eq (u : User) (stream : List Content) (files : List FileRec) (ts sid : Nat) (s : Store) :
    snapshotPlan u stream files ts sid s = [chunkStage u stream s, [snapPutOf u stream files ts sid]] := rfl

theorem chunkStage_isChunkPut (u : User) (stream : List Content) (s : Store) : ∀ m ∈ chunkStage u stream s, IsChunkPut m := by
  intro m hm
  unfold chunkStage at hm
  obtain ⟨n, hn, rfl⟩ := mem_map.mp hm
  rcases (uploadChunk_names u stream (s, [])).1 n hn with h | ⟨c, _, rfl⟩
  · cases h
  · exact ⟨u.fam, c, rfl⟩

theorem snapPut_not_chunkStage (u : User) (stream : List Content) (files : List FileRec) (ts sid : Nat) (s : Store) :
    snapPutOf u stream files ts sid ∉ chunkStage u stream s := by
  intro h
  obtain ⟨f, c, hm⟩ := chunkStage_isChunkPut u stream s _ h
  unfold snapPutOf at hm
  cases hm

theorem snapshot_crash (u : User) (stream : List Content) (files : List FileRec) (ts sid : Nat) (s : Store) (tr : List Mut)
    (hs : Consistent s) (hcl : ∀ fr ∈ files, ∀ c ∈ fr.needs, c ∈ stream)
    (h : acceptsPrefix (snapshotPlan u stream files ts sid s) tr = true) : Consistent (applyMuts s tr) := by
  rw [snapshotPlan_eq] at h
  have hput := chunkStage_isChunkPut u stream s
  rcases acceptsPrefix_cases _ _ tr h with h1 | ⟨t1, t2, rfl, hp, hacc⟩
  · exact consistent_chunkPuts s tr hs (fun m hm => hput m (h1 m hm))
  · have ht1 : ∀ m ∈ t1, IsChunkPut m := fun m hm => hput m (hp.mem_iff.mp hm)
    have ht2 := accepts_last_stage _ t2 hacc
    rw [applyMuts_append]
    have hs1 := consistent_chunkPuts s t1 hs ht1
    have hpres : ∀ c ∈ stream, get (applyMuts s t1) (.chunk u.fam c) = some (.chunk u.fam c) := by
      intro c hc
      rcases (uploadChunk_names u stream (s, [])).2.2 c hc with hsome | hmem
      · obtain ⟨o, ho⟩ := Option.isSome_iff_exists.mp hsome
        have := hs.1.get_chunk ho
        subst this
        exact chunk_stays s t1 ht1 u.fam c ho
      · apply chunk_put_present s t1 ht1 u.fam c
        apply hp.mem_iff.mpr
        unfold chunkStage
        exact mem_map.mpr ⟨_, hmem, rfl⟩
    have key := applyMuts_induct
      (P := fun s' => Consistent s' ∧ ∀ c ∈ stream, get s' (.chunk u.fam c) = some (.chunk u.fam c))
      (Q := fun m => m = snapPutOf u stream files ts sid)
      (fun s' m hP hm => by
        subst hm
        refine ⟨consistent_put_snap hP.1 u.fam sid _ (fun c hc => hP.2 c (mem_dedupKeepFirstC hc))
          (fun fr hfr c hc => mem_dedupKeepFirstC_of_mem (hcl fr hfr c hc)), ?_⟩
        intro c hc
        simp only [applyMut, snapPutOf]
        rw [get_put_other _ _ _ _ (by intro hh; cases hh)]
        exact hP.2 c hc)
      (applyMuts s t1) t2 ⟨hs1, hpres⟩ (fun m hm => by simpa using ht2 m hm)
    exact key.1

/-! ## delete -/
theorem deletePlan_spec {enc : Bool} {u : User} {sids : List Nat} {s : Store} {p : DeletePlan} (hwf : WF s)
    (hp : deletePlan enc u sids s = .ok p) :
    (∀ n ∈ p.snaps, ∃ f sid, n = Name.snap f sid) ∧
    (∀ n ∈ p.chunks, ∃ c, n = Name.chunk u.fam c ∧
      ∀ sid b, get s (.snap u.fam sid) = some (.snap u.fam sid b) → Name.snap u.fam sid ∉ p.snaps → c ∉ b.chunks) := by
  unfold deletePlan at hp
  rw [loadSnapshots_wf enc u _ s hwf] at hp
  simp only at hp
  split at hp
  · cases hp
  · split at hp
    · cases hp
    · cases hp
      refine ⟨?_, ?_⟩
      · intro n hn
        obtain ⟨l, _, rfl⟩ := mem_map.mp hn
        exact ⟨_, _, rfl⟩
      · intro n hn
        obtain ⟨c, hc, rfl⟩ := mem_map.mp hn
        refine ⟨c, rfl, ?_⟩
        intro sid b hg hnot hcb
        have hcf := (mem_filter.mp hc).2
        have hl : toLoaded enc u u.fam sid b ∈ loadedPure enc u (fun _ => true) s :=
          (mem_loadedPure hwf).mpr ⟨b, hg, rfl, by simp [visible, toLoaded], rfl⟩
        by_cases hin : sids.contains sid = true
        · apply hnot
          apply mem_map.mpr
          exact ⟨toLoaded enc u u.fam sid b, mem_filter.mpr ⟨hl, by simpa [toLoaded] using hin⟩, rfl⟩
        · have hk : c ∈ ((loadedPure enc u (fun _ => true) s).filter (fun l => !sids.contains l.sid)).flatMap (·.chunks) := by
            apply mem_flatMap.mpr
            exact ⟨toLoaded enc u u.fam sid b, mem_filter.mpr ⟨hl, by simpa [toLoaded] using hin⟩, hcb⟩
          simp only [Bool.not_eq_true', ← Bool.not_eq_true] at hcf
          apply hcf
          simpa using hk

theorem delete_crash (enc : Bool) (u : User) (sids : List Nat) (s : Store) (tr : List Mut) (hs : Consistent s)
    (h : acceptsPrefix (deleteMutPlan enc u sids s) tr = true) : Consistent (applyMuts s tr) := by
  unfold deleteMutPlan at h
  cases hp : deletePlan enc u sids s with
  | error e =>
    rw [hp] at h
    rw [acceptsPrefix_nil_plan tr h]; exact hs
  | ok p =>
    rw [hp] at h
    simp only at h
    obtain ⟨hsn, hch⟩ := deletePlan_spec hs.1 hp
    have hdel1 : ∀ m ∈ p.snaps.map Mut.del, IsSnapDel m := by
      intro m hm
      obtain ⟨n, hn, rfl⟩ := mem_map.mp hm
      obtain ⟨f, sid, rfl⟩ := hsn n hn
      exact ⟨f, sid, rfl⟩
    rcases acceptsPrefix_cases _ _ tr h with h1 | ⟨t1, t2, rfl, hperm, hacc⟩
    · exact consistent_snapDels s tr hs (fun m hm => hdel1 m (h1 m hm))
    · have ht1 : ∀ m ∈ t1, IsSnapDel m := fun m hm => hdel1 m (hperm.mem_iff.mp hm)
      have ht2 := accepts_last_stage _ t2 hacc
      rw [applyMuts_append]
      apply consistent_unrefDels _ t2 (consistent_snapDels s t1 hs ht1)
      intro m hm
      obtain ⟨n, hn, rfl⟩ := mem_map.mp (ht2 m hm)
      obtain ⟨c, rfl, hun⟩ := hch n hn
      refine ⟨u.fam, c, rfl, ?_⟩
      intro sid b hg
      rw [get_applyMuts_dels s t1 (fun m hm => by obtain ⟨f, sd, rfl⟩ := ht1 m hm; exact ⟨_, rfl⟩)] at hg
      split at hg
      · cases hg
      · rename_i hnot
        apply hun sid b hg
        intro hin
        exact hnot (hperm.mem_iff.mpr (mem_map.mpr ⟨_, hin, rfl⟩))

/-! ## clean -/
def referencedBy (enc : Bool) (u : User) (s : Store) : List Content :=
  (loadedPure enc u (fun _ => true) s).flatMap (·.chunks)

theorem cleanPlan_spec {enc : Bool} {u : User} {s : Store} (hwf : WF s) :
    ∃ ns, cleanPlan enc u s = .ok ns ∧ ∀ n, n ∈ ns ↔
      ∃ f c o, n = Name.chunk f c ∧ (Name.chunk f c, o) ∈ s ∧ ¬(f = u.fam ∧ c ∈ referencedBy enc u s) ∧ ¬(enc = true ∧ f ≠ u.fam) := by
  unfold cleanPlan
  rw [loadSnapshots_wf enc u _ s hwf]
  refine ⟨_, rfl, ?_⟩
  intro n
  simp only [mem_filterMap]
  constructor
  · rintro ⟨⟨n', o⟩, he, hn⟩
    cases n' with
    | chunk f c =>
      simp only at hn
      split at hn
      · cases hn
      · rename_i h1
        split at hn
        · cases hn
        · rename_i h2
          cases hn
          refine ⟨f, c, o, rfl, he, ?_, ?_⟩
          · rintro ⟨rfl, hc⟩
            apply h1
            simp only [Bool.and_eq_true, beq_self_eq_true, true_and]
            simpa [referencedBy] using hc
          · rintro ⟨rfl, hne⟩
            apply h2
            simp [hne]
    | _ => simp at hn
  · rintro ⟨f, c, o, rfl, he, h1, h2⟩
    refine ⟨(.chunk f c, o), he, ?_⟩
    simp only
    have c1 : ¬((f == u.fam && ((loadedPure enc u (fun _ => true) s).flatMap (·.chunks)).contains c) = true) := by
      intro hh
      simp only [Bool.and_eq_true, beq_iff_eq] at hh
      exact h1 ⟨hh.1, by simpa [referencedBy] using hh.2⟩
    have c2 : ¬((enc && !(f == u.fam)) = true) := by
      intro hh
      simp only [Bool.and_eq_true, Bool.not_eq_true', beq_eq_false_iff_ne] at hh
      exact h2 ⟨hh.1, hh.2⟩
    rw [if_neg c1, if_neg c2]

/-- a snapshot of the caller's own family that is listed is loaded, so its chunks are referenced -/
theorem referenced_of_snap {enc : Bool} {u : User} {s : Store} (hwf : WF s) {sid : Nat} {b : Body}
    (hg : get s (.snap u.fam sid) = some (.snap u.fam sid b)) {c : Content} (hc : c ∈ b.chunks) : c ∈ referencedBy enc u s := by
  unfold referencedBy
  apply mem_flatMap.mpr
  exact ⟨toLoaded enc u u.fam sid b, (mem_loadedPure hwf).mpr ⟨b, hg, rfl, by simp [visible, toLoaded], rfl⟩, hc⟩

theorem famOK_snap {enc : Bool} {fam : Fam} {s : Store} (hf : FamOK enc fam s) (he : enc = false) {f : Fam} {sid : Nat} {o : Obj}
    (hg : get s (.snap f sid) = some o) : f = fam := by
  have := hf he _ (mem_of_get hg)
  simpa using this

theorem clean_unref {enc : Bool} {u : User} {s : Store} (hs : Consistent s) (hf : FamOK enc u.fam s) {f : Fam} {c : Content}
    (h1 : ¬(f = u.fam ∧ c ∈ referencedBy enc u s)) (h2 : ¬(enc = true ∧ f ≠ u.fam)) : Unref s f c := by
  intro sid b hg hc
  by_cases hfu : f = u.fam
  · subst hfu
    exact h1 ⟨rfl, referenced_of_snap hs.1 hg hc⟩
  · have he : enc = false := by
      cases enc with
      | false => rfl
      | true => exact absurd ⟨rfl, hfu⟩ h2
    exact hfu (famOK_snap hf he hg)

theorem clean_crash (enc : Bool) (u : User) (s : Store) (tr : List Mut) (hs : Consistent s) (hf : FamOK enc u.fam s)
    (h : acceptsPrefix (cleanMutPlan enc u s) tr = true) : Consistent (applyMuts s tr) := by
  obtain ⟨ns, hp, hspec⟩ := cleanPlan_spec (enc := enc) (u := u) hs.1
  unfold cleanMutPlan at h
  rw [hp] at h
  simp only at h
  have ht := accepts_last_stage _ tr h
  apply consistent_unrefDels s tr hs
  intro m hm
  obtain ⟨n, hn, rfl⟩ := mem_map.mp (ht m hm)
  obtain ⟨f, c, o, rfl, _, h1, h2⟩ := (hspec n).mp hn
  exact ⟨f, c, rfl, clean_unref hs hf h1 h2⟩

/-- complete `clean` from a consistent state: succeeds, reaches `Exact` for the caller's family, stays consistent -/
theorem clean_exact (enc : Bool) (u : User) (s : Store) (hs : Consistent s) (hf : FamOK enc u.fam s) :
    ∃ s', clean enc u s = .ok s' ∧ Exact u.fam s' ∧ Consistent s' := by
  obtain ⟨ns, hp, hspec⟩ := cleanPlan_spec (enc := enc) (u := u) hs.1
  refine ⟨delAll s ns, by unfold clean; rw [hp], ?_, ?_⟩
  · have hsnap : ∀ sid, get (delAll s ns) (.snap u.fam sid) = get s (.snap u.fam sid) := by
      intro sid
      rw [get_delAll]
      have : Name.snap u.fam sid ∉ ns := by
        intro hin
        obtain ⟨f, c, o, hh, _⟩ := (hspec _).mp hin
        cases hh
      simp [this]
    intro c
    constructor
    · intro hpres
      rw [get_delAll] at hpres
      split at hpres
      · cases hpres
      · rename_i hnot
        obtain ⟨o, ho⟩ := Option.isSome_iff_exists.mp hpres
        have hmem := mem_of_get ho
        -- not deleted although present: it is referenced
        have href : c ∈ referencedBy enc u s := by
          by_cases hr : c ∈ referencedBy enc u s
          · exact hr
          · exfalso
            apply hnot
            exact (hspec _).mpr ⟨u.fam, c, o, rfl, hmem, fun h => hr h.2, fun h => h.2 rfl⟩
        unfold referencedBy at href
        obtain ⟨l, hl, hcl⟩ := mem_flatMap.mp href
        obtain ⟨b, hg, _, hvis, hlb⟩ := (mem_loadedPure hs.1).mp hl
        have hfam : l.fam = u.fam := by
          cases enc with
          | true => simpa [visible] using hvis
          | false => exact famOK_snap hf rfl hg
        rw [hfam] at hg
        refine ⟨l.sid, b, by rw [hsnap]; exact hg, ?_⟩
        rw [hlb] at hcl
        simpa [toLoaded] using hcl
    · rintro ⟨sid, b, hg, hc⟩
      rw [hsnap] at hg
      rw [get_delAll]
      have hnot : Name.chunk u.fam c ∉ ns := by
        intro hin
        obtain ⟨f, c', o, hh, _, h1, _⟩ := (hspec _).mp hin
        cases hh
        exact h1 ⟨rfl, referenced_of_snap hs.1 hg hc⟩
      simp only [hnot, if_false]
      rw [hs.2.1 u.fam sid b hg c hc]
      rfl
  · have hacc : ∀ m ∈ ns.map Mut.del, ∃ f c, m = Mut.del (.chunk f c) ∧ Unref s f c := by
      intro m hm
      obtain ⟨n, hn, rfl⟩ := mem_map.mp hm
      obtain ⟨f, c, o, rfl, _, h1, h2⟩ := (hspec n).mp hn
      exact ⟨f, c, rfl, clean_unref hs hf h1 h2⟩
    have := consistent_unrefDels s (ns.map Mut.del) hs hacc
    rwa [applyMuts_dels] at this

/-! ## usability -/
theorem mem_selectFiles {fre : Nat → Bool} {bodies : List Body} {f : FileRec} (h : f ∈ selectFiles fre bodies) :
    ∃ b ∈ bodies, f ∈ b.files := by
  unfold selectFiles at h
  suffices H : ∀ (l acc : List FileRec), f ∈ l.foldl
      (fun acc f => if acc.any (fun g => g.path == f.path) then acc else if fre f.path then acc ++ [f] else acc) acc → f ∈ acc ∨ f ∈ l by
    rcases H _ [] h with h' | h'
    · cases h'
    · obtain ⟨b, hb, hf⟩ := mem_flatMap.mp h'
      exact ⟨b, hb, hf⟩
  intro l
  induction l with
  | nil => intro acc h; exact Or.inl h
  | cons a l ih =>
    intro acc h
    simp only [foldl_cons] at h
    rcases ih _ h with h' | h'
    · split at h'
      · exact Or.inl h'
      · split at h'
        · rcases mem_append.mp h' with h'' | h''
          · exact Or.inl h''
          · simp only [mem_singleton] at h''; subst h''; exact Or.inr (by simp)
        · exact Or.inl h'
    · exact Or.inr (by simp [h'])

theorem restore_ok (enc : Bool) (u : User) (sre fre : Nat → Bool) (s : Store) (hs : Consistent s) (hf : FamOK enc u.fam s) :
    restore enc u sre fre s = .ok (selectFiles fre (readableNewestFirst (loadedPure enc u sre s))) := by
  unfold restore
  rw [loadSnapshots_wf enc u sre s hs.1]
  simp only
  have hall : (selectFiles fre (readableNewestFirst (loadedPure enc u sre s))).all (fun f => f.needs.all (chunkOk u s)) = true := by
    rw [all_eq_true]
    intro f hfm
    rw [all_eq_true]
    intro c hc
    obtain ⟨b, hb, hfb⟩ := mem_selectFiles hfm
    unfold readableNewestFirst at hb
    rw [mem_mergeSort] at hb
    obtain ⟨l, hl, hld⟩ := mem_filterMap.mp hb
    obtain ⟨b', hg, _, hvis, hlb⟩ := (mem_loadedPure hs.1).mp hl
    have hbb : b ∈ (toLoaded enc u l.fam l.sid b').data := by rw [← hlb]; exact hld
    have hbeq : b = b' := by
      unfold toLoaded at hbb
      simp only at hbb
      split at hbb
      · simpa using hbb.symm
      · cases hbb
    subst hbeq
    have hfam : l.fam = u.fam := by
      cases enc with
      | true => simpa [visible] using hvis
      | false => exact famOK_snap hf rfl hg
    rw [hfam] at hg
    have hcb := hs.2.2 u.fam l.sid b hg f hfb c hc
    have := hs.2.1 u.fam l.sid b hg c hcb
    unfold chunkOk
    rw [this]
    simp
  rw [hall]
  rfl

end Replicat.Crash
