import ReplicatProofs.Lemmas.Options
/-!
Helper lemmas for C19 about the SCHEMA of backend-specific options (`Options.customBackendRow`): what
`cli.parser_for_backend` / `config.config_for_backend` build for ANY backend class — in particular for a custom backend
found through the `replicat.backends` namespace package, whose constructor signature (annotations, defaults) is not one
of the built-in ones.
-/
namespace Replicat.Options
open Replicat.Gen

variable {V : Type}

/-- the three ways a backend-specific option is read all use the same function (`guess_type`): the validators of
`BaseBackendConfig.apply_known` / `apply_env` (AST) and the `type=` of every flag that `parser_for_backend` created for the
probed backends — the annotated probe included.  Fails to compile when the flag's type depends on the parameter
(annotation, default, name, …) or differs from the validators. -/
theorem backend_schema_uniform :
    optBackendCliTy = .guessType ∧ optBackendEnvTy = .guessType ∧ optBackendFileTy = .guessType := by
  decide

/-- every instance of the schema is a well-formed backend row -/
theorem wfBackend_custom (owner dest flag envVar key : String) (bk : Nat) :
    wfBackend (customBackendRow owner dest flag envVar key bk) = true := by
  obtain ⟨h1, h2, h3⟩ := backend_schema_uniform
  simp [wfBackend, customBackendRow, h1, h2, h3]

/-- uniform coercion for any well-formed backend row (the proof of `C19.coercion_uniform_backend_partial`, with the
well-formedness as a hypothesis instead of membership in the generated table) -/
theorem coercion_uniform_wfBackend (sem : Sem V) (cmd : OptCommand) (hc : cmd.setDefaults = true) (hp : cmd.parents = true)
    (row : OptRow) (hscope : row.scope = 2) (hwf : wfBackend row = true)
    (r x b : V) (hr : sem.isStr r = true) (hx : sem.co .guessType r = some x)
    (hidem : sem.isStr x = true → sem.co .guessType x = some x) :
    pipelineFinal sem cmd row (Simple.toInputs { cli := some (0, r), env := none, prof := none, dflt := none, builtin := b }) = .ok x ∧
    pipelineFinal sem cmd row (Simple.toInputs { cli := none, env := some r, prof := none, dflt := none, builtin := b }) = .ok x ∧
    pipelineFinal sem cmd row (Simple.toInputs { cli := none, env := none, prof := some (0, r), dflt := none, builtin := b }) = .ok x ∧
    pipelineFinal sem cmd row (Simple.toInputs { cli := none, env := none, prof := none, dflt := some (0, r), builtin := b }) = .ok x := by
  have hwf' := hwf
  simp only [wfBackend, Bool.and_eq_true, Bool.not_eq_true'] at hwf'
  obtain ⟨⟨⟨⟨_, _⟩, hcli⟩, henv⟩, hfile⟩ := hwf'
  obtain ⟨v, hv1, hvk, hvt⟩ : ∃ v, row.cli = [v] ∧ v.kind = .typed ∧ v.ty = .guessType := by
    match hrc : row.cli with
    | [v] => simp [hrc] at hcli; exact ⟨v, rfl, hcli.1, hcli.2⟩
    | [] => simp [hrc] at hcli
    | _ :: _ :: _ => simp [hrc] at hcli
  obtain ⟨f, hf1, hfk, hft⟩ : ∃ f, row.file = [f] ∧ f.kind = .plain ∧ f.ty = .guessType := by
    match hrf : row.file with
    | [f] => simp [hrf] at hfile; exact ⟨f, rfl, hfile.1, hfile.2⟩
    | [] => simp [hrf] at hfile
    | _ :: _ :: _ => simp [hrf] at hfile
  obtain ⟨n, hre⟩ : ∃ n, row.env = some (n, .guessType) := by
    cases hre : row.env with
    | none => simp [hre] at henv
    | some nt => obtain ⟨n, ty⟩ := nt; simp [hre] at henv; exact ⟨n, by rw [henv]⟩
  have hbk : isBackend row = true := by simp [isBackend, hscope]
  refine ⟨?_, ?_, ?_, ?_⟩
  · rw [precedence_backend sem cmd hc hp row hscope hwf _
      (by simp [valid, cliOk, envOk, fileOk, hv1, cliValue, hvk, hvt, hx, orErr, hre])
      (typedValuesKept_of_str sem row _ (by simp [fileRawsStr, rawStrOk])) (by intro h; simp at h)]
    simp [spec, hv1, cliValue, hvk, hvt, hx, orErr]
  · rw [precedence_backend sem cmd hc hp row hscope hwf _
      (by simp [valid, cliOk, envOk, fileOk, hre, hx])
      (typedValuesKept_of_str sem row _ (by simp [fileRawsStr, rawStrOk]))
      (by intro _ c hc'; simp [specBelowCli, hre, hx, orErr] at hc'; subst hc'; exact hidem)]
    simp [spec, specBelowCli, hre, hx, orErr]
  · rw [precedence_backend sem cmd hc hp row hscope hwf _
      (by simp [valid, cliOk, envOk, fileOk, hre, hf1, hfk, hft, hx])
      (typedValuesKept_of_str sem row _ (by simp [fileRawsStr, rawStrOk, hr]))
      (by intro _ c hc'; simp [specBelowCli, specBelowEnv, fileValue, hre, hf1, hfk, hft, hbk, hr, hx, orErr] at hc'; subst hc'; exact hidem)]
    simp [spec, specBelowCli, specBelowEnv, fileValue, hre, hf1, hfk, hft, hbk, hr, hx, orErr]
  · rw [precedence_backend sem cmd hc hp row hscope hwf _
      (by simp [valid, cliOk, envOk, fileOk, hre, hf1, hfk, hft, hx])
      (typedValuesKept_of_str sem row _ (by simp [fileRawsStr, rawStrOk, hr]))
      (by intro _ c hc'; simp [specBelowCli, specBelowEnv, specBelowProfile, fileValue, hre, hf1, hfk, hft, hbk, hr, hx, orErr] at hc'; subst hc'; exact hidem)]
    simp [spec, specBelowCli, specBelowEnv, specBelowProfile, fileValue, hre, hf1, hfk, hft, hbk, hr, hx, orErr]

/-- the documented example of a custom backend (README "Custom backends"): `ProudCloud` in the module `pc`, option
`account_id`, declared `account_id: str` or not — the schema does not depend on it -/
def pcAccountId : OptRow := customBackendRow "pc" "account_id" "--account-id" "PROUDCLOUD_ACCOUNT_ID" "account-id" 4

end Replicat.Options
