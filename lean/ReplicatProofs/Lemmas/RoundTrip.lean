import ReplicatProofs.Lemmas.Restore
/-! Helper lemmas connecting references to bytes (C01 / C14). -/
namespace Replicat
open List

/-- the chunks of a stream cut at the given lengths -/
def chunksOf (s : Bytes) (lens : List Nat) : List Bytes := (spansFrom 0 lens).map (fun c => slice s c.1 c.2)

def overlaps (f c : Span) : Prop := f.1 < c.2 + 1 ∧ c.1 ≤ f.2
instance (f c : Span) : Decidable (overlaps f c) := by unfold overlaps; infer_instance

/-- the parts of `[f.1, f.2)` that fall into each overlapping chunk span, as bytes of the stream -/
def fileParts (s : Bytes) (f : Span) (cs : List Span) : List Bytes :=
  cs.filterMap (fun c => if overlaps f c then some (slice s (max f.1 c.1) (min f.2 c.2)) else none)

theorem plan_parts (s : Bytes) (f : Span) (hf : f.1 ≤ f.2) (pre cs : List Span) (pos : Nat)
    (hwf : ∀ c ∈ cs, c.1 ≤ c.2 ∧ c.2 ≤ s.length) :
    (planFrom pos (fileRefs f pre.length cs)).map (partData ((pre ++ cs).map (fun c => slice s c.1 c.2))) = fileParts s f cs
    ∧ ∀ e ∈ planFrom pos (fileRefs f pre.length cs),
        (partData ((pre ++ cs).map (fun c => slice s c.1 c.2)) e).length = e.2.2.1 := by
  induction cs generalizing pre pos with
  | nil => simp [fileRefs, planFrom, fileParts]
  | cons c cs ih =>
    have hc := hwf c (by simp)
    have ih' := fun pos => ih (pre ++ [c]) pos (fun c' hc' => hwf c' (by simp [hc']))
    simp only [length_append, length_cons, length_nil, append_assoc, cons_append, nil_append] at ih'
    unfold fileRefs fileParts
    simp only [Gen.bisectKey_eq, Gen.stopScan_eq, Bool.not_eq_true', decide_eq_false_iff_not, Nat.not_lt, filterMap_cons]
    by_cases hov : f.1 < c.2 + 1 ∧ c.1 ≤ f.2
    · have hov' : overlaps f c := hov
      simp only [hov, hov', and_self, if_true, planFrom, map_cons, mem_cons]
      have hdata : partData (map (fun c => slice s c.1 c.2) (pre ++ c :: cs))
            ((refOf f pre.length c).counter, (refOf f pre.length c).lo, (refOf f pre.length c).hi - (refOf f pre.length c).lo, pos)
          = slice s (max f.1 c.1) (min f.2 c.2) := by
        unfold partData refOf
        simp only [Gen.partStart_eq, Gen.partEnd_eq, Nat.add_sub_cancel]
        rw [getElem?_map, getElem?_append_right (Nat.le_refl _)]
        simp only [Nat.sub_self, getElem?_cons_zero, Option.map_some]
        rw [slice_slice s (by omega)]
        congr 1 <;> omega
      obtain ⟨h1, h2⟩ := ih' (pos + ((refOf f pre.length c).hi - (refOf f pre.length c).lo))
      refine ⟨?_, ?_⟩
      · rw [hdata]
        congr 1
      · intro e he
        rcases he with rfl | he
        · rw [hdata, length_slice s (by omega)]
          simp only [refOf, Gen.partStart_eq, Gen.partEnd_eq]
          omega
        · exact h2 e he
    · have hov' : ¬ overlaps f c := hov
      simp only [hov, hov', if_false]
      exact ih' pos

theorem fileParts_flatten (s : Bytes) (f : Span) (hf : f.1 ≤ f.2) (lens : List Nat) (c0 : Nat) (hfe : f.2 ≤ c0 + lens.sum) :
    (fileParts s f (spansFrom c0 lens)).flatten = slice s (max f.1 c0) f.2 := by
  rw [← tile_concat s f.1 f.2 lens c0 hfe]
  unfold fileParts
  generalize hsp : spansFrom c0 lens = sp
  have hwf : ∀ c ∈ sp, c.1 ≤ c.2 := by
    intro c hc; rw [← hsp] at hc; exact (spansFrom_mem_bounds hc).2.1
  clear hsp
  induction sp with
  | nil => rfl
  | cons c sp ih =>
    have hc := hwf c (by simp)
    simp only [filterMap_cons, map_cons, flatten_cons]
    by_cases hov : overlaps f c
    · simp only [hov, if_true, flatten_cons]
      rw [ih (fun c' hc' => hwf c' (by simp [hc']))]
    · simp only [hov, if_false]
      rw [ih (fun c' hc' => hwf c' (by simp [hc']))]
      have : slice s (max f.1 c.1) (min f.2 c.2) = [] := by
        apply slice_empty_of_le
        unfold overlaps at hov
        omega
      rw [this, nil_append]

/-- references recorded for one file are strictly increasing in the chunk counter -/
theorem fileRefs_counters (f : Span) (j0 : Nat) (cs : List Span) :
    (fileRefs f j0 cs).Pairwise (fun a b => a.counter < b.counter) ∧ ∀ r ∈ fileRefs f j0 cs, j0 < r.counter := by
  induction cs generalizing j0 with
  | nil => simp [fileRefs]
  | cons c cs ih =>
    obtain ⟨h1, h2⟩ := ih (j0 + 1)
    unfold fileRefs
    split
    · refine ⟨?_, ?_⟩
      · rw [pairwise_cons]
        refine ⟨fun b hb => ?_, h1⟩
        have := h2 b hb
        simp only [refOf]; omega
      · intro r hr
        rcases mem_cons.mp hr with rfl | hr
        · simp [refOf]
        · have := h2 r hr; omega
    · exact ⟨h1, fun r hr => by have := h2 r hr; omega⟩

/-- `sorted(file_data['chunks'], key=counter)` recovers the sequential order whatever order the workers finished in -/
theorem sort_perm_fileRefs (f : Span) (j0 : Nat) (cs : List Span) (refs : List Ref) (hp : refs ~ fileRefs f j0 cs) :
    refs.mergeSort refLE = fileRefs f j0 cs := by
  have hsorted : (fileRefs f j0 cs).Pairwise (fun a b => refLE a b = true) :=
    (fileRefs_counters f j0 cs).1.imp (fun {a b} h => by simp [refLE]; omega)
  have hms : (refs.mergeSort refLE).Pairwise (fun a b => refLE a b = true) :=
    pairwise_mergeSort (le := refLE) (fun a b c => by simp [refLE]; omega) (fun a b => by simp [refLE]; omega) refs
  apply Perm.eq_of_pairwise (le := fun a b => refLE a b = true) _ hms hsorted ((mergeSort_perm refs refLE).trans hp)
  intro a b ha hb hab hba
  have ha' : a ∈ fileRefs f j0 cs := ((mergeSort_perm refs refLE).trans hp).subset ha
  rcases pairwise_mem_cases (fileRefs_counters f j0 cs).1 ha' hb with h | h | h
  · exact h
  · simp [refLE] at hab hba; omega
  · simp [refLE] at hab hba; omega

theorem find_map_nil (l : List Nat) (i : Nat) (h : i ∈ l) :
    ((l.map (fun k => (k, ([] : List Ref)))).find? (fun e => e.1 == i)).map (·.2) = some [] := by
  induction l with
  | nil => simp at h
  | cons a l ih =>
    simp only [map_cons, find?_cons]
    by_cases ha : a = i
    · simp [ha]
    · have : (a == i) = false := by simp [ha]
      simp only [this]
      exact ih (by simpa [Ne.symm ha] using h)

theorem lookup_finalRecords (hflag : Gen.recordsChunklessFiles = true) (n : Nat) (recs : Records) (i : Nat) (hi : i < n) :
    lookupRec (finalRecords n recs) i = some (refsOfIn recs i) := by
  unfold finalRecords lookupRec refsOfIn lookupRec
  simp only [hflag, if_true]
  rw [find?_append]
  cases h : recs.find? (fun e => e.1 == i) with
  | some e => simp
  | none =>
    simp only [Option.none_or, Option.map_none, Option.getD_none]
    apply find_map_nil
    rw [mem_filter]
    refine ⟨mem_range.mpr hi, ?_⟩
    rw [find?_eq_none] at h
    simp only [Bool.not_eq_true', any_eq_false]
    intro x hx
    exact h x hx

end Replicat
