import ReplicatModel.SigV4
/-! C16: who puts requests on the wire — lemmas about `sendWith` / `callWith` (replies that could make the HTTP client emit
requests by itself).  `Safe follow hook`: redirects are not followed, or the response hook raises before httpx looks at the
`Location` header.  Each of the two alone suffices; both must be given up for the library to emit a request of its own. -/
namespace Replicat.SigV4

def Safe (follow hookRaises : Bool) : Prop := follow = false ∨ hookRaises = true

/-- under `Safe`, `send` puts exactly the request it was given on the wire, whatever the script of replies says -/
theorem sendWith_single (follow hook : Bool) (h : Safe follow hook) (b : Nat) (w : Wire) (rs : List Reply) :
    (sendWith follow hook b w rs).1 = [w] := by
  unfold sendWith
  cases rs with
  | nil => simp [sendAux]
  | cons r rs =>
    cases r with
    | answer => simp [sendAux]
    | fail k => simp [sendAux]
    | odd => simp [sendAux]
    | redirect st l =>
      cases b with
      | zero => simp [sendAux]
      | succ b =>
        rcases h with h | h
        · subst h
          cases hook <;> simp [sendAux]
        · subst h
          simp [sendAux]

/-- under `Safe`, one reply is consumed per `send` -/
theorem sendWith_rest (follow hook : Bool) (h : Safe follow hook) (b : Nat) (w : Wire) (rs : List Reply) :
    (sendWith follow hook b w rs).2.2 = rs.tail := by
  unfold sendWith
  cases rs with
  | nil => simp [sendAux]
  | cons r rs =>
    cases r with
    | answer => simp [sendAux]
    | fail k => simp [sendAux]
    | odd => simp [sendAux]
    | redirect st l =>
      cases b with
      | zero => simp [sendAux]
      | succ b =>
        rcases h with h | h
        · subst h
          cases hook <;> simp [sendAux]
        · subst h
          simp [sendAux]

/-- under `Safe`, every request of a retried call is the output of the signing it is numbered with -/
theorem callWith_signed (follow hook : Bool) (h : Safe follow hook) (mr : Nat) (sign : Nat → Wire) :
    ∀ (tries j : Nat) (rs : List Reply), ∀ p ∈ (callWith follow hook mr sign tries j rs).1, p.2 = sign p.1
  | 0, _, _ => by intro p hp; simp [callWith] at hp
  | t + 1, j, rs => by
    intro p hp
    unfold callWith at hp
    have h1 := sendWith_single follow hook h mr (sign j) rs
    cases hr : (sendWith follow hook mr (sign j) rs).2.1 with
    | returned p3 =>
      simp only [hr, h1] at hp
      simp at hp
      subst hp
      rfl
    | raised k =>
      simp only [hr, h1] at hp
      simp at hp
      rcases hp with hp | hp
      · subst hp; rfl
      · exact callWith_signed follow hook h mr sign t (j + 1) _ p hp

/-- under `Safe`, a retried call puts at most `tries` requests on the wire -/
theorem callWith_length (follow hook : Bool) (h : Safe follow hook) (mr : Nat) (sign : Nat → Wire) :
    ∀ (tries j : Nat) (rs : List Reply), (callWith follow hook mr sign tries j rs).1.length ≤ tries
  | 0, _, _ => by simp [callWith]
  | t + 1, j, rs => by
    unfold callWith
    have h1 := sendWith_single follow hook h mr (sign j) rs
    cases hr : (sendWith follow hook mr (sign j) rs).2.1 with
    | returned p3 => simp [h1, hr]
    | raised k =>
      have := callWith_length follow hook h mr sign t (j + 1) (sendWith follow hook mr (sign j) rs).2.2
      simp [h1, hr]
      omega

/-- under `Safe`, the signings are numbered consecutively from `j`: request number `n` of the call belongs to signing `j + n` -/
theorem callWith_numbering (follow hook : Bool) (h : Safe follow hook) (mr : Nat) (sign : Nat → Wire) :
    ∀ (tries j : Nat) (rs : List Reply),
      (callWith follow hook mr sign tries j rs).1.map (·.1) = (List.range (callWith follow hook mr sign tries j rs).1.length).map (j + ·)
  | 0, _, _ => by simp [callWith]
  | t + 1, j, rs => by
    unfold callWith
    have h1 := sendWith_single follow hook h mr (sign j) rs
    cases hr : (sendWith follow hook mr (sign j) rs).2.1 with
    | returned p3 => simp [h1, hr]
    | raised k =>
      have ih := callWith_numbering follow hook h mr sign t (j + 1) (sendWith follow hook mr (sign j) rs).2.2
      simp only [h1, hr, List.map_cons, List.map_nil, List.singleton_append, List.length_cons]
      rw [ih, List.range_succ_eq_map]
      simp [Nat.add_assoc, Nat.add_comm 1]

end Replicat.SigV4
