import ReplicatModel.LocalFS
import ReplicatProofs.Lemmas.Store
import Mathlib.Data.List.Nodup
/-! Helper lemmas for C13: strings (split / join / pathlib / os.path), the flat file-system model, the local listing. -/
namespace Replicat.LocalFS
open Replicat Replicat.Store

/-! ## split and join at '/' -/
theorem splitSlash_ne_nil (s : List Char) : splitSlash s ≠ [] := by
  induction s with
  | nil => simp [splitSlash]
  | cons c cs ih =>
    unfold splitSlash
    split
    · simp
    · split <;> simp

theorem splitSlash_cons_ne (c : Char) (hc : c ≠ '/') (cs : List Char) :
    splitSlash (c :: cs) = (c :: (splitSlash cs).headD []) :: (splitSlash cs).tail := by
  conv => lhs; unfold splitSlash
  simp only [hc, if_false]
  cases splitSlash cs <;> rfl

theorem splitSlash_eq_head_tail (cs : List Char) :
    splitSlash cs = (splitSlash cs).headD [] :: (splitSlash cs).tail := by
  have h := splitSlash_ne_nil cs
  cases hs : splitSlash cs with
  | nil => exact absurd hs h
  | cons s ss => rfl

theorem splitSlash_no_slash (s : List Char) (h : '/' ∉ s) : splitSlash s = [s] := by
  induction s with
  | nil => rfl
  | cons c cs ih =>
    have hc : c ≠ '/' := fun e => h (by simp [e])
    have hcs : '/' ∉ cs := fun e => h (List.mem_cons_of_mem _ e)
    rw [splitSlash_cons_ne c hc, ]
    simp [ih hcs]

theorem splitSlash_append_slash (a b : List Char) (ha : '/' ∉ a) :
    splitSlash (a ++ '/' :: b) = a :: splitSlash b := by
  induction a with
  | nil => simp [splitSlash]
  | cons c cs ih =>
    have hc : c ≠ '/' := fun e => ha (by simp [e])
    have hcs : '/' ∉ cs := fun e => ha (List.mem_cons_of_mem _ e)
    rw [List.cons_append, splitSlash_cons_ne c hc]
    simp [ih hcs]

theorem joinSlash_cons_cons (s t : List Char) (ss : List (List Char)) :
    joinSlash (s :: t :: ss) = s ++ '/' :: joinSlash (t :: ss) := rfl

theorem joinSlash_cons_of_ne_nil (s : List Char) (ss : List (List Char)) (h : ss ≠ []) :
    joinSlash (s :: ss) = s ++ '/' :: joinSlash ss := by
  cases ss with
  | nil => exact absurd rfl h
  | cons t ts => rfl

/-- split ∘ join = id on non-empty lists of slash-free segments -/
theorem splitSlash_joinSlash (p : List (List Char)) (hne : p ≠ []) (h : ∀ s ∈ p, '/' ∉ s) :
    splitSlash (joinSlash p) = p := by
  induction p with
  | nil => exact absurd rfl hne
  | cons s ss ih =>
    cases ss with
    | nil => exact splitSlash_no_slash s (h s (by simp))
    | cons t ts =>
      rw [joinSlash_cons_cons, splitSlash_append_slash _ _ (h s (by simp)), ih (by simp) (fun x hx => h x (List.mem_cons_of_mem _ hx))]

/-- join ∘ split = id -/
theorem joinSlash_splitSlash (s : List Char) : joinSlash (splitSlash s) = s := by
  induction s with
  | nil => rfl
  | cons c cs ih =>
    by_cases hc : c = '/'
    · subst hc
      have : splitSlash ('/' :: cs) = [] :: splitSlash cs := by simp [splitSlash]
      rw [this, joinSlash_cons_of_ne_nil _ _ (splitSlash_ne_nil cs), ih]; rfl
    · rw [splitSlash_cons_ne c hc]
      rw [splitSlash_eq_head_tail cs] at ih
      cases ht : (splitSlash cs).tail with
      | nil =>
        rw [ht] at ih
        show c :: (splitSlash cs).headD [] = c :: cs
        rw [show (splitSlash cs).headD [] = cs from ih]
      | cons t ts =>
        rw [ht, joinSlash_cons_cons] at ih
        rw [joinSlash_cons_cons]
        exact congrArg (List.cons c) ih

theorem splitSlash_inj {a b : List Char} (h : splitSlash a = splitSlash b) : a = b := by
  rw [← joinSlash_splitSlash a, ← joinSlash_splitSlash b, h]

theorem splitSlash_seg_no_slash (s : List Char) : ∀ x ∈ splitSlash s, '/' ∉ x := by
  induction s with
  | nil => simp [splitSlash]
  | cons c cs ih =>
    by_cases hc : c = '/'
    · subst hc
      have : splitSlash ('/' :: cs) = [] :: splitSlash cs := by simp [splitSlash]
      rw [this]
      intro x hx
      rcases List.mem_cons.mp hx with rfl | hx
      · simp
      · exact ih x hx
    · rw [splitSlash_cons_ne c hc]
      have hht := splitSlash_eq_head_tail cs
      intro x hx
      rcases List.mem_cons.mp hx with rfl | hx
      · intro hm
        rcases List.mem_cons.mp hm with e | hm
        · exact hc e.symm
        · exact ih _ (by rw [hht]; simp) hm
      · exact ih x (List.mem_of_mem_tail hx)

theorem joinSlash_append (p q : List (List Char)) (hp : p ≠ []) (hq : q ≠ []) :
    joinSlash (p ++ q) = joinSlash p ++ '/' :: joinSlash q := by
  induction p with
  | nil => exact absurd rfl hp
  | cons s ss ih =>
    cases ss with
    | nil =>
      rw [List.singleton_append, joinSlash_cons_of_ne_nil _ _ hq]; rfl
    | cons t ts =>
      rw [List.cons_append, joinSlash_cons_of_ne_nil _ _ (by simp), ih (by simp), joinSlash_cons_cons]
      simp

theorem splitSlash_append_slash' (a b : List Char) :
    splitSlash (a ++ '/' :: b) = splitSlash a ++ splitSlash b := by
  induction a with
  | nil => simp [splitSlash]
  | cons c cs ih =>
    by_cases hc : c = '/'
    · subst hc
      have h1 : ∀ x, splitSlash ('/' :: x) = [] :: splitSlash x := fun x => by simp [splitSlash]
      rw [List.cons_append, h1, h1, ih]; rfl
    · rw [List.cons_append, splitSlash_cons_ne c hc, splitSlash_cons_ne c hc, ih]
      rw [splitSlash_eq_head_tail cs]
      simp

theorem takeWhile_all {p : Char → Bool} (l : List Char) (h : ∀ a ∈ l, p a = true) : l.takeWhile p = l := by
  induction l with
  | nil => rfl
  | cons x xs ih => rw [List.takeWhile_cons, h x (by simp), if_pos rfl, ih (fun a ha => h a (List.mem_cons_of_mem _ ha))]

theorem dropWhile_all {p : Char → Bool} (l : List Char) (h : ∀ a ∈ l, p a = true) : l.dropWhile p = [] := by
  induction l with
  | nil => rfl
  | cons x xs ih => rw [List.dropWhile_cons, h x (by simp), if_pos rfl, ih (fun a ha => h a (List.mem_cons_of_mem _ ha))]

/-! ## URL normalisation leaves dot-free names alone -/
theorem normalize_fold (acc xs : List (List Char)) (h : ∀ x ∈ xs, x ≠ dot ∧ x ≠ dotdot) :
    xs.foldl (fun out c =>
      if c = dot then out
      else if c = dotdot then (if out ≠ [] ∧ out ≠ [[]] then out.dropLast else out)
      else out ++ [c]) acc = acc ++ xs := by
  induction xs generalizing acc with
  | nil => simp
  | cons x xs ih =>
    obtain ⟨h1, h2⟩ := h x (by simp)
    rw [List.foldl_cons, if_neg h1, if_neg h2, ih _ (fun y hy => h y (List.mem_cons_of_mem _ hy))]
    simp

/-- names without dot segments and without `? # % +` reach the B2 download URL unchanged -/
theorem b2Addr_safe (n : Name) (hdot : hasDotSegment n = false)
    (hchars : ∀ c ∈ n, c ≠ '?' ∧ c ≠ '#' ∧ c ≠ '%' ∧ c ≠ '+') : b2Addr n = some n := by
  have hcut : n.takeWhile (fun c => decide (c ≠ '?' ∧ c ≠ '#')) = n := by
    apply takeWhile_all
    intro c hc
    have := hchars c hc
    simp [this.1, this.2.1]
  have hany : n.any (fun c => decide (c = '%' ∨ c = '+')) = false := by
    simp only [List.any_eq_false, decide_eq_true_eq, not_or]
    intro c hc
    exact ⟨(hchars c hc).2.2.1, (hchars c hc).2.2.2⟩
  have hsegs : ∀ x ∈ [[], "file".toList, "bucket".toList] ++ splitSlash n, x ≠ dot ∧ x ≠ dotdot := by
    intro x hx
    rcases List.mem_append.mp hx with hx | hx
    · simp only [List.mem_cons, List.not_mem_nil, or_false] at hx
      rcases hx with rfl | rfl | rfl <;> decide
    · unfold hasDotSegment at hdot
      simp only [List.any_eq_false, decide_eq_true_eq, not_or] at hdot
      exact hdot x hx
  unfold b2Addr
  simp only [hcut, hany, Bool.false_eq_true, if_false]
  unfold normalizeComponents
  rw [normalize_fold [] _ hsegs]
  simp only [List.nil_append, List.cons_append]
  simp [splitSlash_ne_nil, joinSlash_splitSlash]

/-! ## valid segments, paths, names -/
theorem validSeg_iff (s : Seg) : validSeg s = true ↔ s ≠ [] ∧ '/' ∉ s ∧ s ≠ dot ∧ s ≠ dotdot := by
  simp [validSeg]

theorem validPath_iff (p : Path) : validPath p = true ↔ p ≠ [] ∧ ∀ s ∈ p, validSeg s = true := by
  simp [validPath]

theorem validPath_no_slash {p : Path} (h : validPath p = true) : ∀ s ∈ p, '/' ∉ s :=
  fun s hs => ((validSeg_iff s).mp (((validPath_iff p).mp h).2 s hs)).2.1

theorem split_join_valid {p : Path} (h : validPath p = true) : splitSlash (joinSlash p) = p :=
  splitSlash_joinSlash p ((validPath_iff p).mp h).1 (validPath_no_slash h)

theorem validName_joinSlash {p : Path} (h : validPath p = true) : validName (joinSlash p) = true := by
  unfold validName; rw [split_join_valid h]; exact h

theorem joinSlash_inj_valid {p q : Path} (hp : validPath p = true) (hq : validPath q = true)
    (h : joinSlash p = joinSlash q) : p = q := by
  rw [← split_join_valid hp, ← split_join_valid hq, h]

theorem filter_parts_valid (p : Path) (h : ∀ s ∈ p, validSeg s = true) :
    p.filter (fun x => decide (x ≠ [] ∧ x ≠ dot)) = p := by
  apply List.filter_eq_self.mpr
  intro s hs
  have := (validSeg_iff s).mp (h s hs)
  simp [this.1, this.2.2.1]

/-- a joined list of valid segments is empty or starts with a character other than '/' -/
theorem joinSlash_head_not_slash (p : Path) (h : ∀ s ∈ p, validSeg s = true) : (joinSlash p).head? ≠ some '/' := by
  cases p with
  | nil => simp [joinSlash]
  | cons s ss =>
    have hs := (validSeg_iff s).mp (h s (by simp))
    cases s with
    | nil => exact absurd rfl hs.1
    | cons c cs =>
      have hc : c ≠ '/' := fun e => hs.2.1 (by simp [e])
      cases ss with
      | nil => simpa [joinSlash] using hc
      | cons t ts => simpa [joinSlash] using hc

theorem takeWhile_of_head (l : List Char) (h : l.head? ≠ some '/') :
    l.takeWhile (· = '/') = [] ∧ l.dropWhile (· = '/') = l := by
  cases l with
  | nil => simp
  | cons c cs =>
    have hc : c ≠ '/' := by simpa using h
    simp [hc]

/-- `Path(s)` for a relative string made of valid segments (possibly none) -/
theorem pparse_joinSlash (p : Path) (h : ∀ s ∈ p, validSeg s = true) : pparse (joinSlash p) = ⟨[], p⟩ := by
  obtain ⟨h1, h2⟩ := takeWhile_of_head _ (joinSlash_head_not_slash p h)
  unfold pparse
  simp only [h1, h2, List.length_nil, if_true]
  congr 1
  by_cases hp : p = []
  · subst hp; simp [joinSlash, splitSlash, dot]
  · rw [splitSlash_joinSlash p hp (fun s hs => ((validSeg_iff s).mp (h s hs)).2.1)]
    exact filter_parts_valid p h

theorem relPath_joinSlash (p : Path) (h : ∀ s ∈ p, validSeg s = true) : relPath (joinSlash p) = some p := by
  unfold relPath
  rw [pparse_joinSlash p h]
  have : p.any (fun x => decide (x = dotdot)) = false := by
    simp only [List.any_eq_false, decide_eq_true_eq]
    intro s hs; exact ((validSeg_iff s).mp (h s hs)).2.2.2
  simp [this]

theorem relPath_valid {n : Name} (h : validName n = true) : relPath n = some (splitSlash n) := by
  have := relPath_joinSlash (splitSlash n) ((validPath_iff _).mp h).2
  rwa [joinSlash_splitSlash] at this

/-! ## ancestors -/
theorem mem_ancestors (a p : Path) : a ∈ ancestors p ↔ a ≠ [] ∧ a <+: p ∧ a ≠ p := by
  induction p generalizing a with
  | nil =>
    simp only [ancestors, List.not_mem_nil, List.prefix_nil, false_iff]
    rintro ⟨h1, h2, _⟩; exact h1 h2
  | cons s rest ih =>
    simp only [ancestors, List.mem_append, List.mem_map]
    constructor
    · rintro (⟨b, hb, rfl⟩ | h)
      · obtain ⟨h1, h2, h3⟩ := (ih b).mp hb
        exact ⟨by simp, (List.cons_prefix_cons).mpr ⟨rfl, h2⟩, by simpa using h3⟩
      · by_cases hr : rest = []
        · simp [hr] at h
        · simp only [hr, if_false, List.mem_singleton] at h
          subst h
          refine ⟨by simp, ?_, by simpa using hr⟩
          exact (List.cons_prefix_cons).mpr ⟨rfl, List.nil_prefix⟩
    · rintro ⟨h1, h2, h3⟩
      cases a with
      | nil => exact absurd rfl h1
      | cons x b =>
        obtain ⟨rfl, hb⟩ := (List.cons_prefix_cons).mp h2
        have hbr : b ≠ rest := fun e => h3 (by rw [e])
        by_cases hbn : b = []
        · subst hbn
          right
          have hr : rest ≠ [] := fun e => hbr e.symm
          simp [hr]
        · left
          exact ⟨b, (ih b).mpr ⟨hbn, hb, hbr⟩, rfl⟩

theorem ancestors_trans {a b c : Path} (h1 : a ∈ ancestors b) (h2 : b ∈ ancestors c) : a ∈ ancestors c := by
  obtain ⟨ha, hab, hne⟩ := (mem_ancestors a b).mp h1
  obtain ⟨_, hbc, hne'⟩ := (mem_ancestors b c).mp h2
  refine (mem_ancestors a c).mpr ⟨ha, hab.trans hbc, ?_⟩
  intro e
  subst e
  exact hne (List.IsPrefix.eq_of_length_le hab (hbc.length_le))

/-! ## the name universe and the file-system invariant -/

/-- the name universe of the property, as a set of paths: canonical names, none a directory prefix of another -/
structure Universe (U : Path → Prop) : Prop where
  valid : ∀ p, U p → validPath p = true
  prefixFree : ∀ p q, U p → U q → p ∉ ancestors q

/-- what every history over the universe maintains -/
structure Inv (U : Path → Prop) (fs : FS) : Prop where
  nodup : (fs.files.map (·.1)).Nodup
  filesU : ∀ p ∈ fs.files.map (·.1), U p
  dirsOfFiles : ∀ p ∈ fs.files.map (·.1), ∀ a ∈ ancestors p, a ∈ fs.dirs
  dirsU : ∀ d ∈ fs.dirs, ∃ u, U u ∧ d ∈ ancestors u

theorem Inv.empty (U : Path → Prop) : Inv U FS.empty :=
  ⟨by simp [FS.empty], by simp [FS.empty], by simp [FS.empty], by simp [FS.empty]⟩

theorem isFile_iff (fs : FS) (p : Path) : fs.isFile p = true ↔ p ∈ fs.files.map (·.1) := by
  unfold FS.isFile FS.get
  exact (mem_keys_iff_alookup fs.files p).symm

theorem mem_mkdirs (fs : FS) (ds : List Path) (d : Path) : d ∈ (fs.mkdirs ds).dirs ↔ d ∈ fs.dirs ∨ d ∈ ds := by
  unfold FS.mkdirs
  simp only [List.mem_append, List.mem_filter, decide_eq_true_eq]
  constructor
  · rintro (h | ⟨h, _⟩)
    · exact Or.inl h
    · exact Or.inr h
  · rintro (h | h)
    · exact Or.inl h
    · by_cases hd : d ∈ fs.dirs
      · exact Or.inl hd
      · exact Or.inr ⟨h, hd⟩

section inv
variable {U : Path → Prop} (hU : Universe U) {fs : FS} (hinv : Inv U fs)
include hU hinv

theorem not_blocked {p : Path} (hp : U p) : fs.blocked p = false := by
  unfold FS.blocked
  simp only [List.any_eq_false]
  intro a ha hf
  exact hU.prefixFree a p (hinv.filesU a ((isFile_iff fs a).mp hf)) hp ha

theorem not_isDir {p : Path} (hp : U p) : fs.isDir p = false := by
  unfold FS.isDir
  have hne : p ≠ [] := ((validPath_iff p).mp (hU.valid p hp)).1
  simp only [decide_eq_false_iff_not, not_or]
  refine ⟨hne, ?_⟩
  intro hd
  obtain ⟨u, hu, ha⟩ := hinv.dirsU p hd
  exact hU.prefixFree p u hp hu ha

theorem kind_of_U {p : Path} (hp : U p) : fs.kind p = if fs.isFile p then .file else .none := by
  unfold FS.kind
  simp [not_blocked hU hinv hp, not_isDir hU hinv hp]

omit hU in
theorem inv_erase (p : Path) : Inv U (fs.erase p) := by
  refine ⟨nodup_keys_aerase _ _ hinv.nodup, ?_, ?_, hinv.dirsU⟩
  · intro q hq; exact hinv.filesU q ((keys_aerase_sublist fs.files p).subset hq)
  · intro q hq; exact hinv.dirsOfFiles q ((keys_aerase_sublist fs.files p).subset hq)

omit hU in
theorem inv_upload {p : Path} (hp : U p) (d : Bytes) : Inv U (fs.upload p d) := by
  unfold FS.upload FS.write
  refine ⟨nodup_keys_ainsert _ _ _ hinv.nodup, ?_, ?_, ?_⟩
  · intro q hq
    simp only [ainsert, List.map_cons, List.mem_cons] at hq
    rcases hq with rfl | hq
    · exact hp
    · exact hinv.filesU q ((keys_aerase_sublist _ p).subset hq)
  · intro q hq a ha
    simp only [ainsert, List.map_cons, List.mem_cons] at hq
    apply (mem_mkdirs fs (ancestors p) a).mpr
    rcases hq with rfl | hq
    · exact Or.inr ha
    · exact Or.inl (hinv.dirsOfFiles q ((keys_aerase_sublist _ p).subset hq) a ha)
  · intro d' hd'
    rcases (mem_mkdirs fs (ancestors p) d').mp hd' with h | h
    · exact hinv.dirsU d' h
    · exact ⟨p, hp, h⟩

theorem step_download (root : List Char) {n : Name} (hv : validName n = true) (hu : U (splitSlash n)) :
    LocalFS.step root fs (.download n) =
      (fs, match fs.abs n with | some d => .bytes d | none => .error .notFound) := by
  simp only [LocalFS.step, relPath_valid hv, kind_of_U hU hinv hu, FS.abs, hv, if_true]
  by_cases hf : fs.isFile (splitSlash n) = true
  · obtain ⟨d, hd⟩ := Option.isSome_iff_exists.mp hf
    simp only [hf, if_true, hd]
  · have hd : fs.get (splitSlash n) = none := by simpa [FS.isFile] using hf
    simp only [hf, Bool.false_eq_true, if_false, hd, not_blocked hU hinv hu]

theorem step_downloadStream (root : List Char) {n : Name} (hv : validName n = true) (hu : U (splitSlash n))
    (c : Nat) (sink : Bytes) :
    LocalFS.step root fs (.downloadStream n c sink) =
      (fs, match fs.abs n with | some d => .bytes (sinkAfter sink c d) | none => .error .notFound) := by
  simp only [LocalFS.step, relPath_valid hv, kind_of_U hU hinv hu, FS.abs, hv, if_true]
  by_cases hf : fs.isFile (splitSlash n) = true
  · obtain ⟨d, hd⟩ := Option.isSome_iff_exists.mp hf
    simp only [hf, if_true, hd]
  · have hd : fs.get (splitSlash n) = none := by simpa [FS.isFile] using hf
    simp only [hf, Bool.false_eq_true, if_false, hd, not_blocked hU hinv hu]

end inv

/-! ## abstraction -/
theorem abs_upload (fs : FS) {n : Name} (hn : validName n = true) (d : Bytes) :
    (fs.upload (splitSlash n) d).abs = fs.abs.put n d := by
  funext k
  unfold FS.abs Spec.put FS.upload FS.write FS.mkdirs FS.get
  simp only
  by_cases hk : k = n
  · subst hk; simp [hn, alookup_ainsert]
  · have : splitSlash k ≠ splitSlash n := fun e => hk (splitSlash_inj e)
    simp [hk, alookup_ainsert, this]

theorem abs_erase (fs : FS) {n : Name} (hn : validName n = true) :
    (fs.erase (splitSlash n)).abs = fs.abs.del n := by
  funext k
  unfold FS.abs Spec.del FS.erase FS.get
  simp only
  by_cases hk : k = n
  · subst hk; simp [alookup_aerase_self]
  · have : splitSlash k ≠ splitSlash n := fun e => hk (splitSlash_inj e)
    simp [hk, alookup_aerase_ne _ _ _ this]

theorem abs_del_of_none (fs : FS) (n : Name) (h : fs.abs n = none) : fs.abs.del n = fs.abs := by
  funext k
  unfold Spec.del
  by_cases hk : k = n
  · simp [hk, h]
  · simp [hk]

end Replicat.LocalFS
