import ReplicatProofs.Lemmas.CacheCmd
/-! Lemmas for C18, cache DIRECTORY part: a statically safe plan of `_store_cached` cannot fail — from any state of the directory
(whatever an earlier, killed run left) and with other clients acting on the same names between its operations; what a kill can
leave; what a completed run leaves. -/
namespace Replicat.CacheCmd
open Replicat.Repo List

/-- what OTHER clients sharing the directory may do to the names of one entry between two operations of this run: anything to
the entry (create, replace, evict) and to a temporary with a deterministic name; they never remove directories and never touch a
temporary whose name is unique to this run. -/
def EnvOk (tu : Bool) (f : Loc → Loc) : Prop :=
  ∀ l, (l.parent = true → (f l).parent = true) ∧ (tu = true → (f l).temp = l.temp)

theorem envOk_id (tu : Bool) : EnvOk tu id := fun _ => ⟨fun h => h, fun _ => rfl⟩

/-- the invariant behind `safeStep` -/
def SafeInv (tu : Bool) (st : Bool × Bool) (l : Loc) : Prop :=
  (st.1 = true → l.parent = true) ∧ (tu = true → l.temp.isSome = st.2)

theorem safeInv_env {tu : Bool} {st : Bool × Bool} {l : Loc} {f : Loc → Loc} (hf : EnvOk tu f) (h : SafeInv tu st l) :
    SafeInv tu st (f l) := by
  obtain ⟨h1, h2⟩ := h
  obtain ⟨e1, e2⟩ := hf l
  exact ⟨fun hp => e1 (h1 hp), fun ht => by rw [e2 ht]; exact h2 ht⟩

theorem safeStep_ok {tu : Bool} {st st' : Bool × Bool} {op : FsOp} (o : Obj) {l : Loc}
    (hs : safeStep tu st op = some st') (h : SafeInv tu st l) :
    ∃ l', stepFs o l op = .ok l' ∧ SafeInv tu st' l' := by
  obtain ⟨par, tmp⟩ := st
  obtain ⟨h1, h2⟩ := h
  simp only at h1 h2
  cases op with
  | mkdirParents ok =>
    simp only [safeStep] at hs
    split at hs
    · rename_i hok
      cases hs
      refine ⟨{ l with parent := true }, ?_, fun _ => rfl, h2⟩
      simp [stepFs, hok]
    · cases hs
  | create t excl =>
    cases t with
    | entry =>
      simp only [safeStep] at hs
      split at hs
      · rename_i hc
        cases hs
        simp only [Bool.and_eq_true, Bool.not_eq_true'] at hc
        obtain ⟨hp, hx⟩ := hc
        have hpar := h1 hp
        refine ⟨setSlot l .entry (some (.blob 0)), ?_, fun _ => hpar, h2⟩
        simp only [stepFs, hpar, hx, getSlot]
        cases l.entry <;> simp
      · cases hs
    | temp =>
      simp only [safeStep] at hs
      split at hs
      · rename_i hc
        cases hs
        simp only [Bool.and_eq_true, Bool.or_eq_true, Bool.not_eq_true'] at hc
        obtain ⟨hp, hx⟩ := hc
        have hpar := h1 hp
        refine ⟨setSlot l .temp (some (.blob 0)), ?_, fun _ => hpar, fun ht => by simp [setSlot, ht]⟩
        simp only [stepFs, hpar, getSlot]
        cases hx with
        | inl hx => subst hx; cases l.temp <;> simp
        | inr hx =>
          obtain ⟨ht, hn⟩ := hx
          have := h2 ht
          rw [hn] at this
          cases hlt : l.temp with
          | none => simp
          | some x => rw [hlt] at this; simp at this
      · cases hs
  | write t =>
    simp only [safeStep] at hs
    cases hs
    cases t with
    | entry =>
      cases he : l.entry with
      | none => exact ⟨l, by simp [stepFs, getSlot, he], h1, h2⟩
      | some x => exact ⟨setSlot l .entry (some o), by simp [stepFs, getSlot, he], h1, h2⟩
    | temp =>
      cases he : l.temp with
      | none => exact ⟨l, by simp [stepFs, getSlot, he], h1, h2⟩
      | some x =>
        refine ⟨setSlot l .temp (some o), by simp [stepFs, getSlot, he], h1, fun ht => ?_⟩
        have := h2 ht
        rw [he] at this
        simpa [setSlot] using this
  | rename a b =>
    cases a with
    | entry => simp [safeStep] at hs
    | temp =>
      simp only [safeStep] at hs
      split at hs
      · rename_i hc
        cases hs
        simp only [Bool.and_eq_true] at hc
        obtain ⟨ht, hm⟩ := hc
        have := h2 ht
        rw [hm] at this
        cases hlt : l.temp with
        | none => rw [hlt] at this; simp at this
        | some x =>
          refine ⟨setSlot (setSlot l .temp none) b (some x), by simp [stepFs, getSlot, hlt], ?_, ?_⟩
          · intro hp; cases b <;> simpa [setSlot] using h1 hp
          · intro _; cases b <;> simp [setSlot]
      · cases hs
  | unlink t mo =>
    cases t with
    | entry =>
      simp only [safeStep] at hs
      split at hs
      · rename_i hm
        cases hs
        cases he : l.entry with
        | none => exact ⟨l, by simp [stepFs, getSlot, he, hm], h1, h2⟩
        | some x => exact ⟨setSlot l .entry none, by simp [stepFs, getSlot, he], h1, h2⟩
      · cases hs
    | temp =>
      simp only [safeStep] at hs
      split at hs
      · rename_i hc
        cases hs
        simp only [Bool.or_eq_true, Bool.and_eq_true] at hc
        cases hlt : l.temp with
        | none =>
          cases hc with
          | inl hm => exact ⟨l, by simp [stepFs, getSlot, hlt, hm], h1, fun _ => by simp [hlt]⟩
          | inr hx =>
            obtain ⟨ht, hm⟩ := hx
            have := h2 ht
            rw [hm, hlt] at this
            simp at this
        | some x => exact ⟨setSlot l .temp none, by simp [stepFs, getSlot, hlt], h1, fun _ => by simp [setSlot]⟩
      · cases hs

theorem planSafeFrom_total {tu : Bool} (o : Obj) :
    ∀ (ops : List FsOp) (st : Bool × Bool) (envs : List (Loc → Loc)) (l : Loc),
      planSafeFrom tu st ops = true → (∀ f ∈ envs, EnvOk tu f) → SafeInv tu st l → ∃ l', runOpsI o ops envs l = .ok l'
  | [], _, _, l, _, _, _ => ⟨l, rfl⟩
  | op :: rest, st, envs, l, hp, he, hi => by
    simp only [planSafeFrom] at hp
    cases hs : safeStep tu st op with
    | none => rw [hs] at hp; cases hp
    | some st' =>
      rw [hs] at hp
      have hf : EnvOk tu (envs.headD id) := by
        cases envs with
        | nil => exact envOk_id tu
        | cons f _ => exact he f (by simp)
      obtain ⟨l1, h1, hi1⟩ := safeStep_ok o hs (safeInv_env hf hi)
      obtain ⟨l', h'⟩ := planSafeFrom_total o rest st' envs.tail l1 hp
        (fun f hf' => he f (by cases envs with | nil => simp at hf' | cons _ _ => simp at hf'; simp [hf'])) hi1
      exact ⟨l', by simp only [runOpsI, h1, h']⟩

theorem runOpsI_nil (o : Obj) : ∀ (ops : List FsOp) (l : Loc), runOpsI o ops [] l = runOps o ops l
  | [], _ => rfl
  | op :: rest, l => by
    simp only [runOpsI, runOps, List.headD_nil, id_eq, List.tail_nil]
    cases stepFs o l op with
    | error e => rfl
    | ok l' => exact runOpsI_nil o rest l'

theorem safeInv_start (tu : Bool) (l : Loc) : SafeInv tu (false, false) (startLoc tu l) := by
  refine ⟨fun h => (by cases h), fun ht => ?_⟩
  simp [startLoc, ht]

/-- **a safe plan never fails**: from ANY state of the directory, with other clients acting in between -/
theorem planSafe_total {tu : Bool} {ops : List FsOp} (hp : planSafe tu ops = true) (o : Obj) (envs : List (Loc → Loc))
    (he : ∀ f ∈ envs, EnvOk tu f) (l : Loc) : ∃ l', runOpsI o ops envs (startLoc tu l) = .ok l' :=
  planSafeFrom_total o ops (false, false) envs _ hp he (safeInv_start tu l)

theorem planSafe_runStore {tu : Bool} {ops : List FsOp} (hp : planSafe tu ops = true) (o : Obj) (l : Loc) :
    ∃ l', runStore ops tu o l = .ok l' := by
  obtain ⟨l', h⟩ := planSafe_total hp o [] (fun _ h => by cases h) l
  exact ⟨l', by rw [runStore, ← runOpsI_nil]; exact h⟩

/-! ## what a kill can leave -/

/-- every payload in `l'` is the payload being stored, an empty / torn file, or was in `l` -/
def FromOld (o : Obj) (l l' : Loc) : Prop :=
  ∀ t x, getSlot l' t = some x → x = o ∨ (∃ j, x = .blob j) ∨ (∃ t', getSlot l t' = some x)

theorem fromOld_refl (o : Obj) (l : Loc) : FromOld o l l := fun t x h => Or.inr (Or.inr ⟨t, h⟩)

theorem fromOld_trans {o : Obj} {l l1 l2 : Loc} (h1 : FromOld o l l1) (h2 : FromOld o l1 l2) : FromOld o l l2 := by
  intro t x hx
  rcases h2 t x hx with h | h | ⟨t', h⟩
  · exact Or.inl h
  · exact Or.inr (Or.inl h)
  · exact h1 t' x h

theorem getSlot_setSlot (l : Loc) (t t' : Slot) (x : Option Obj) :
    getSlot (setSlot l t x) t' = if t' = t then x else getSlot l t' := by
  cases t <;> cases t' <;> simp [getSlot, setSlot]

theorem stepFs_fromOld {o : Obj} {l l' : Loc} {op : FsOp} (h : stepFs o l op = .ok l') : FromOld o l l' := by
  intro t x hx
  cases op with
  | mkdirParents ok =>
    simp only [stepFs] at h
    split at h
    · cases h
    · cases h
      exact Or.inr (Or.inr ⟨t, by cases t <;> simpa [getSlot] using hx⟩)
  | create s excl =>
    simp only [stepFs] at h
    split at h
    · cases h
    · have hl : l' = setSlot l s (some (.blob 0)) := by
        split at h
        · split at h
          · cases h
          · cases h; rfl
        · cases h; rfl
      subst hl
      rw [getSlot_setSlot] at hx
      split at hx
      · cases hx; exact Or.inr (Or.inl ⟨0, rfl⟩)
      · exact Or.inr (Or.inr ⟨t, hx⟩)
  | write s =>
    simp only [stepFs] at h
    split at h
    · cases h
      rw [getSlot_setSlot] at hx
      split at hx
      · cases hx; exact Or.inl rfl
      · exact Or.inr (Or.inr ⟨t, hx⟩)
    · cases h; exact Or.inr (Or.inr ⟨t, hx⟩)
  | rename a b =>
    simp only [stepFs] at h
    split at h
    · cases h
    · rename_i y hy
      cases h
      rw [getSlot_setSlot] at hx
      split at hx
      · cases hx; exact Or.inr (Or.inr ⟨a, hy⟩)
      · rw [getSlot_setSlot] at hx
        split at hx
        · cases hx
        · exact Or.inr (Or.inr ⟨t, hx⟩)
  | unlink s mo =>
    simp only [stepFs] at h
    split at h
    · split at h
      · cases h; exact Or.inr (Or.inr ⟨t, hx⟩)
      · cases h
    · cases h
      rw [getSlot_setSlot] at hx
      split at hx
      · cases hx
      · exact Or.inr (Or.inr ⟨t, hx⟩)

theorem runOps_fromOld {o : Obj} : ∀ (ops : List FsOp) {l l' : Loc}, runOps o ops l = .ok l' → FromOld o l l'
  | [], l, l', h => by cases h; exact fromOld_refl o l
  | op :: rest, l, l', h => by
    simp only [runOps] at h
    cases hs : stepFs o l op with
    | error e => rw [hs] at h; cases h
    | ok l1 =>
      rw [hs] at h
      exact fromOld_trans (stepFs_fromOld hs) (runOps_fromOld rest h)

theorem tearOp_fromOld (o : Obj) (j : Nat) (l : Loc) (op : Option FsOp) : FromOld o l (tearOp j l op) := by
  intro t x hx
  cases op with
  | none => exact Or.inr (Or.inr ⟨t, hx⟩)
  | some op =>
    cases op with
    | write s =>
      simp only [tearOp] at hx
      split at hx
      · rw [getSlot_setSlot] at hx
        split at hx
        · cases hx; exact Or.inr (Or.inl ⟨j + 1, rfl⟩)
        · exact Or.inr (Or.inr ⟨t, hx⟩)
      · exact Or.inr (Or.inr ⟨t, hx⟩)
    | _ => exact Or.inr (Or.inr ⟨t, hx⟩)

theorem startLoc_fromOld (o : Obj) (tu : Bool) (l : Loc) : FromOld o l (startLoc tu l) := by
  intro t x hx
  cases tu with
  | false => exact Or.inr (Or.inr ⟨t, hx⟩)
  | true =>
    cases t with
    | entry => exact Or.inr (Or.inr ⟨.entry, hx⟩)
    | temp => simp [startLoc, getSlot] at hx

/-- **what a hard kill leaves** under the names of one entry: the payload itself, an empty or torn file, or what was there -/
theorem killed_fromOld {ops : List FsOp} {tu : Bool} {k : Nat} {tear : Option Nat} {o : Obj} {l l' : Loc}
    (h : killed ops tu k tear o l = .ok l') : FromOld o l l' := by
  unfold killed at h
  cases hr : runOps o (ops.take k) (startLoc tu l) with
  | error e => rw [hr] at h; cases h
  | ok l1 =>
    rw [hr] at h
    cases h
    have h1 := fromOld_trans (startLoc_fromOld o tu l) (runOps_fromOld _ hr)
    cases tear with
    | none => exact h1
    | some j => exact fromOld_trans h1 (tearOp_fromOld o j l1 _)

/-! ## what a completed, undisturbed run leaves -/

def EffInv (o : Obj) (st : Option Bool × Option Bool) (l : Loc) : Prop :=
  (∀ b, st.1 = some b → ∃ x, l.entry = some x ∧ (b = true → x = o)) ∧
  (∀ b, st.2 = some b → ∃ x, l.temp = some x ∧ (b = true → x = o))

theorem effStep_ok {o : Obj} {st : Option Bool × Option Bool} {l l' : Loc} {op : FsOp}
    (h : stepFs o l op = .ok l') (hi : EffInv o st l) : EffInv o (effStep st op) l' := by
  obtain ⟨e, t⟩ := st
  obtain ⟨h1, h2⟩ := hi
  simp only at h1 h2
  cases op with
  | mkdirParents ok =>
    simp only [stepFs] at h
    split at h
    · cases h
    · cases h; exact ⟨h1, h2⟩
  | create s excl =>
    have hl : l' = setSlot l s (some (.blob 0)) := by
      simp only [stepFs] at h
      split at h
      · cases h
      · split at h
        · split at h
          · cases h
          · cases h; rfl
        · cases h; rfl
    subst hl
    cases s with
    | entry => exact ⟨fun b hb => (by cases hb; exact ⟨_, rfl, fun h => (by cases h)⟩), h2⟩
    | temp => exact ⟨h1, fun b hb => (by cases hb; exact ⟨_, rfl, fun h => (by cases h)⟩)⟩
  | write s =>
    cases s with
    | entry =>
      refine ⟨fun b hb => ?_, ?_⟩
      · cases e with
        | none => simp [effStep] at hb
        | some b0 =>
          obtain ⟨x, hx, _⟩ := h1 b0 rfl
          simp only [stepFs, getSlot, hx] at h
          cases h
          exact ⟨o, rfl, fun _ => rfl⟩
      · simp only [stepFs, getSlot] at h
        split at h <;> cases h <;> exact h2
    | temp =>
      refine ⟨?_, fun b hb => ?_⟩
      · simp only [stepFs, getSlot] at h
        split at h <;> cases h <;> exact h1
      · cases t with
        | none => simp [effStep] at hb
        | some b0 =>
          obtain ⟨x, hx, _⟩ := h2 b0 rfl
          simp only [stepFs, getSlot, hx] at h
          cases h
          exact ⟨o, rfl, fun _ => rfl⟩
  | rename a b =>
    simp only [stepFs] at h
    split at h
    · cases h
    · rename_i y hy
      cases h
      cases a <;> cases b
      · -- entry → entry
        simp only [getSlot] at hy
        exact ⟨fun b hb => (by obtain ⟨x, hx, hxo⟩ := h1 b hb; rw [hy] at hx; cases hx; exact ⟨_, rfl, hxo⟩), h2⟩
      · -- entry → temp
        simp only [getSlot] at hy
        refine ⟨fun b hb => (by cases hb), fun b hb => ?_⟩
        obtain ⟨x, hx, hxo⟩ := h1 b hb
        rw [hy] at hx; cases hx
        exact ⟨_, rfl, hxo⟩
      · -- temp → entry
        simp only [getSlot] at hy
        refine ⟨fun b hb => ?_, fun b hb => by cases hb⟩
        obtain ⟨x, hx, hxo⟩ := h2 b hb
        rw [hy] at hx; cases hx
        exact ⟨_, rfl, hxo⟩
      · -- temp → temp
        simp only [getSlot] at hy
        exact ⟨h1, fun b hb => by obtain ⟨x, hx, hxo⟩ := h2 b hb; rw [hy] at hx; cases hx; exact ⟨_, rfl, hxo⟩⟩
  | unlink s mo =>
    cases s with
    | entry =>
      refine ⟨fun b hb => (by cases hb), ?_⟩
      simp only [stepFs, getSlot] at h
      split at h
      · split at h
        · cases h; exact h2
        · cases h
      · cases h; exact h2
    | temp =>
      refine ⟨?_, fun b hb => by cases hb⟩
      simp only [stepFs, getSlot] at h
      split at h
      · split at h
        · cases h; exact h1
        · cases h
      · cases h; exact h1

theorem runOps_eff {o : Obj} : ∀ (ops : List FsOp) (st : Option Bool × Option Bool) {l l' : Loc},
    runOps o ops l = .ok l' → EffInv o st l → EffInv o (ops.foldl effStep st) l'
  | [], _, l, l', h, hi => by cases h; exact hi
  | op :: rest, st, l, l', h, hi => by
    simp only [runOps] at h
    cases hs : stepFs o l op with
    | error e => rw [hs] at h; cases h
    | ok l1 =>
      rw [hs] at h
      exact runOps_eff rest (effStep st op) h (effStep_ok hs hi)

/-- a plan that is `planEffective` leaves the payload under the entry name when it completes undisturbed -/
theorem planEffective_entry {ops : List FsOp} (he : planEffective ops = true) {tu : Bool} {o : Obj} {l l' : Loc}
    (h : runStore ops tu o l = .ok l') : l'.entry = some o := by
  have := runOps_eff ops (none, none) h ⟨fun b hb => (by cases hb), fun b hb => (by cases hb)⟩
  unfold planEffective at he
  have h1 : (ops.foldl effStep (none, none)).1 = some true := by simpa using he
  obtain ⟨x, hx, hxo⟩ := this.1 true h1
  rw [hx, hxo rfl]

end Replicat.CacheCmd
