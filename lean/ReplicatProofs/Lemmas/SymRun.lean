import ReplicatProofs.Lemmas.SymRestore
import ReplicatProofs.Lemmas.SymView
/-! The history invariant behind the C14 history-level theorems: every emitted entry has one of four shapes, key families are
told apart by their MAC key, the store is a map contained in the log, and a snapshot that is present has every chunk of its
table present. -/
namespace Replicat.Sym
open Term (pub sec nonce key nil pair mac kdf enc)

/-! ## shapes of emitted entries -/
inductive Form (en : Bool) (users : List User) (next : Nat) (cfg : Term) : Term × Term → Prop
  | config : Form en users next cfg (configLoc, cfg)
  | key (i : Nat) (t : Term) (hi : i < users.length) : Form en users next cfg (keyLoc i, t)
  | chunk (u : User) (hu : u ∈ users) (n c : Term) :
      Form en users next cfg (chunkLoc (u.props en) (digest c), chunkObject (u.props en) n c)
  | snap (u : User) (hu : u ∈ users) (st : Term)
      (hn : en = true → ∃ k n2 tb d, k < next ∧ st = snapshotStored (u.props en) (nonce k) n2 tb d) :
      Form en users next cfg (snapLoc (u.props en) (snapshotName st), st)

theorem Form.mono {en : Bool} {users users' : List User} {next next' : Nat} {cfg : Term} {e : Term × Term}
    (hu : ∀ u ∈ users, u ∈ users') (hl : users.length ≤ users'.length) (hn : next ≤ next')
    (h : Form en users next cfg e) : Form en users' next' cfg e := by
  cases h with
  | config => exact .config
  | key i t hi => exact .key i t (by omega)
  | chunk u hm n c => exact .chunk u (hu u hm) n c
  | snap u hm st hk =>
    refine .snap u (hu u hm) st ?_
    intro he
    obtain ⟨k, n2, tb, d, hlt, hst⟩ := hk he
    exact ⟨k, n2, tb, d, by omega, hst⟩

/-- `(props of u).x` -/
@[simp] theorem props_encrypted (en : Bool) (u : User) : (u.props en).encrypted = en := rfl
@[simp] theorem props_sh (en : Bool) (u : User) : (u.props en).sh = u.sh := rfl

theorem form_keyLoc {en users next cfg} {e : Term × Term} {i : Nat} (h : Form en users next cfg e) (hk : e.1 = keyLoc i) :
    i < users.length := by
  cases h with
  | config => simp [configLoc, keyLoc] at hk
  | key j t hj =>
    simp only [keyLoc] at hk
    injection hk with _ hk
    injection hk with hk
    omega
  | chunk u hm n c => simp [chunkLoc, keyLoc, prefixChunk, prefixKey] at hk
  | snap u hm st hn => simp [snapLoc, keyLoc, prefixSnap, prefixKey] at hk

/-- an entry filed in the snapshot area is a snapshot object written by a key of the history under the digest of its content -/
theorem form_snapLoc {en users next cfg} {e : Term × Term} {t n : Term} (h : Form en users next cfg e)
    (hk : e.1 = pair prefixSnap (pair t n)) :
    ∃ u ∈ users, t = snapshotTag (u.props en) n ∧ n = snapshotName e.2 ∧
      (en = true → ∃ k n2 tb d, k < next ∧ e.2 = snapshotStored (u.props en) (nonce k) n2 tb d) := by
  cases h with
  | config => simp [configLoc] at hk
  | key j t hj => simp [keyLoc, prefixSnap, prefixKey] at hk
  | chunk u hm n c => simp [chunkLoc, prefixChunk, prefixSnap] at hk
  | snap u hm st hn =>
    simp only [snapLoc] at hk
    injection hk with _ hk
    injection hk with h1 h2
    exact ⟨u, hm, by rw [← h1, h2], h2.symm, hn⟩

/-- an entry filed in the chunk area is a chunk object written by a key of the history -/
theorem form_chunkLoc {en users next cfg} {e : Term × Term} {t n : Term} (h : Form en users next cfg e)
    (hk : e.1 = pair prefixChunk (pair t n)) :
    ∃ u ∈ users, ∃ nn c, e = (chunkLoc (u.props en) (digest c), chunkObject (u.props en) nn c) := by
  cases h with
  | config => simp [configLoc] at hk
  | key j t hj => simp [keyLoc, prefixChunk, prefixKey] at hk
  | chunk u hm nn c => exact ⟨u, hm, nn, c, rfl⟩
  | snap u hm st hn => simp [snapLoc, prefixChunk, prefixSnap] at hk

/-! ## the four groups of the invariant -/
structure UInv (en : Bool) (users : List User) (next : Nat) : Prop where
  fam : ∀ u ∈ users, ∀ v ∈ users, u.sh.macKey = v.sh.macKey → u.sh = v.sh
  fresh : en = true → ∀ u ∈ users, ∃ m, m < next ∧ u.sh.macKey = key m
  saltFresh : en = true → ∀ u ∈ users, ∃ m, m < next ∧ u.salt = nonce m
  saltInj : ∀ (i j : Nat) (u v : User), users[i]? = some u → users[j]? = some v → u.salt = v.salt → i = j

structure LInv (en : Bool) (users : List User) (next : Nat) (cfg : Term) (log : Store) : Prop where
  forms : ∀ e ∈ log, Form en users next cfg e
  keyUniq : ∀ e1 ∈ log, ∀ e2 ∈ log, ∀ i, e1.1 = keyLoc i → e2.1 = keyLoc i → e1.2 = e2.2
  snapTag : ∀ e1 ∈ log, ∀ e2 ∈ log, ∀ t1 t2 n,
    e1.1 = pair prefixSnap (pair t1 n) → e2.1 = pair prefixSnap (pair t2 n) → t1 = t2

structure SInv (store log : Store) : Prop where
  sub : ∀ e ∈ store, e ∈ log
  nodup : (store.map (·.1)).Nodup

def TakenOk (en : Bool) (users : List User) (t : Taken) : Prop :=
  (∃ u, users[t.user]? = some u ∧ t.p = u.props en) ∧ dataOk t.table.length t.data = true

structure TInv (en : Bool) (users : List User) (store : Store) (ts : List Taken) : Prop where
  ok : ∀ t ∈ ts, TakenOk en users t
  pres : ∀ t ∈ ts, lookup store t.loc ≠ none → ∀ d ∈ t.table, lookup store (chunkLoc t.p d) ≠ none

/-- holds after EVERY history -/
structure HInv (cfg : Term) (s : St) : Prop where
  hu : UInv s.encrypted s.users s.next
  hl : LInv s.encrypted s.users s.next cfg s.log
  hs : SInv s.store s.log

/-- holds after every WELL-FORMED history (`wfHist`) -/
abbrev TI (s : St) (ts : List Taken) : Prop := TInv s.encrypted s.users s.store ts

/-! ## monotonicity in the fresh-value supply -/
theorem UInv.mono {en users next next'} (h : UInv en users next) (hn : next ≤ next') : UInv en users next' :=
  ⟨h.fam, fun he u hu => by obtain ⟨m, hm, hk⟩ := h.fresh he u hu; exact ⟨m, by omega, hk⟩,
   fun he u hu => by obtain ⟨m, hm, hk⟩ := h.saltFresh he u hu; exact ⟨m, by omega, hk⟩, h.saltInj⟩

theorem LInv.mono {en users next next' cfg log} (h : LInv en users next cfg log) (hn : next ≤ next') :
    LInv en users next' cfg log :=
  ⟨fun e he => (h.forms e he).mono (fun _ hu => hu) (Nat.le_refl _) hn, h.keyUniq, h.snapTag⟩

/-- appending an entry to a list keeps a symmetric pairwise property when the new entry is compatible with every old one -/
theorem pairwise_append {α : Type} (R : α → α → Prop) (l : List α) (x : α) (hl : ∀ a ∈ l, ∀ b ∈ l, R a b)
    (hx1 : ∀ a ∈ l, R a x) (hx2 : ∀ a ∈ l, R x a) (hxx : R x x) : ∀ a ∈ l ++ [x], ∀ b ∈ l ++ [x], R a b := by
  intro a ha b hb
  simp only [List.mem_append, List.mem_singleton] at ha hb
  rcases ha with ha | ha <;> rcases hb with hb | hb
  · exact hl a ha b hb
  · subst hb; exact hx1 a ha
  · subst ha; exact hx2 b hb
  · subst ha; subst hb; exact hxx

/-! ## add-key -/
theorem getElem?_append_single {α : Type} (l : List α) (x y : α) (i : Nat) (h : (l ++ [x])[i]? = some y) :
    (i < l.length ∧ l[i]? = some y) ∨ (i = l.length ∧ y = x) := by
  rcases Nat.lt_trichotomy i l.length with hlt | heq | hgt
  · rw [List.getElem?_append_left hlt] at h
    exact Or.inl ⟨hlt, h⟩
  · subst heq
    simp at h
    exact Or.inr ⟨rfl, h.symm⟩
  · rw [List.getElem?_eq_none (by simp; omega)] at h
    cases h

theorem uinv_addUser {en : Bool} (he : en = true) {users : List User} {next next' : Nat} (h : UInv en users next) (v : User)
    (_hn : next ≤ next') (hv : (∃ b ∈ users, v.sh = b.sh) ∨ (∃ m, next ≤ m ∧ m < next' ∧ v.sh.macKey = key m))
    (hsalt : ∃ m, next ≤ m ∧ m < next' ∧ v.salt = nonce m) :
    UInv en (users ++ [v]) next' := by
  subst he
  have hold : ∀ u ∈ users, u.sh.macKey = v.sh.macKey → u.sh = v.sh := by
    intro u hu hk
    rcases hv with ⟨b, hb, hvb⟩ | ⟨m, hm1, _, hvm⟩
    · rw [hvb] at hk ⊢
      exact h.fam u hu b hb hk
    · obtain ⟨m', hm', hum⟩ := h.fresh rfl u hu
      rw [hum, hvm] at hk
      injection hk with hk
      omega
  obtain ⟨ms, hms1, hms2, hvs⟩ := hsalt
  have hsaltOld : ∀ (i : Nat) (u : User), users[i]? = some u → u.salt ≠ v.salt := by
    intro i u hu hs
    obtain ⟨m', hm', hum⟩ := h.saltFresh rfl u (List.mem_of_getElem? hu)
    rw [hum, hvs] at hs
    injection hs with hs
    omega
  refine ⟨?_, ?_, ?_, ?_⟩
  · apply pairwise_append (fun (u v : User) => u.sh.macKey = v.sh.macKey → u.sh = v.sh)
    · exact h.fam
    · exact hold
    · intro u hu hk
      exact (hold u hu hk.symm).symm
    · intro _; rfl
  · intro _ u hu
    simp only [List.mem_append, List.mem_singleton] at hu
    rcases hu with hu | hu
    · obtain ⟨m, hm, hk⟩ := h.fresh rfl u hu
      exact ⟨m, by omega, hk⟩
    · subst hu
      rcases hv with ⟨b, hb, hvb⟩ | ⟨m, _, hm2, hvm⟩
      · obtain ⟨m, hm, hk⟩ := h.fresh rfl b hb
        exact ⟨m, by omega, by rw [hvb]; exact hk⟩
      · exact ⟨m, hm2, hvm⟩
  · intro _ u hu
    simp only [List.mem_append, List.mem_singleton] at hu
    rcases hu with hu | hu
    · obtain ⟨m, hm, hk⟩ := h.saltFresh rfl u hu
      exact ⟨m, by omega, hk⟩
    · subst hu
      exact ⟨ms, hms2, hvs⟩
  · intro i j u w hi hj hs
    rcases getElem?_append_single users v u i hi with ⟨_, hi'⟩ | ⟨hi', hu⟩ <;>
      rcases getElem?_append_single users v w j hj with ⟨_, hj'⟩ | ⟨hj', hw⟩
    · exact h.saltInj i j u w hi' hj' hs
    · subst hw
      exact absurd hs (hsaltOld i u hi')
    · subst hu
      exact absurd hs.symm (hsaltOld j w hj')
    · omega

theorem linv_addKey {en users next next' cfg log} (h : LInv en users next cfg log) (v : User) (kf : Term) (hn : next ≤ next') :
    LInv en (users ++ [v]) next' cfg (log ++ [(keyLoc users.length, kf)]) := by
  have hmono : ∀ e ∈ log, Form en (users ++ [v]) next' cfg e := fun e he =>
    (h.forms e he).mono (fun u hu => List.mem_append_left _ hu) (by simp) hn
  refine ⟨?_, ?_, ?_⟩
  · intro e he
    simp only [List.mem_append, List.mem_singleton] at he
    rcases he with he | he
    · exact hmono e he
    · subst he
      exact .key _ _ (by simp)
  · apply pairwise_append (fun (e1 e2 : Term × Term) => ∀ i, e1.1 = keyLoc i → e2.1 = keyLoc i → e1.2 = e2.2)
    · exact h.keyUniq
    · intro e he i h1 h2
      have := form_keyLoc (h.forms e he) h1
      simp only [keyLoc] at h2
      injection h2 with _ h2
      injection h2 with h2
      omega
    · intro e he i h1 h2
      have := form_keyLoc (h.forms e he) h2
      simp only [keyLoc] at h1
      injection h1 with _ h1
      injection h1 with h1
      omega
    · intro _ _ _; rfl
  · apply pairwise_append (fun (e1 e2 : Term × Term) => ∀ t1 t2 n,
      e1.1 = pair prefixSnap (pair t1 n) → e2.1 = pair prefixSnap (pair t2 n) → t1 = t2)
    · exact h.snapTag
    · intro e _ t1 t2 n _ h2
      simp [keyLoc, prefixKey, prefixSnap] at h2
    · intro e _ t1 t2 n h1 _
      simp [keyLoc, prefixKey, prefixSnap] at h1
    · intro t1 t2 n h1 _
      simp [keyLoc, prefixKey, prefixSnap] at h1

theorem tinv_addUser {en users store ts} (h : TInv en users store ts) (v : User) : TInv en (users ++ [v]) store ts := by
  refine ⟨?_, h.pres⟩
  intro t ht
  obtain ⟨⟨u, hu, hp⟩, hd⟩ := h.ok t ht
  refine ⟨⟨u, ?_, hp⟩, hd⟩
  have hlt : t.user < users.length := by
    rcases Nat.lt_or_ge t.user users.length with h | h
    · exact h
    · rw [List.getElem?_eq_none h] at hu
      cases hu
  rw [List.getElem?_append_left hlt]
  exact hu

/-! ## one chunk upload -/
theorem putChunk_users (p : Props) (s : St) (c : Term) : (putChunk p s c).users = s.users := by
  unfold putChunk
  simp only
  split <;> split <;> rfl

theorem putChunk_next (p : Props) (s : St) (c : Term) : s.next ≤ (putChunk p s c).next := by
  unfold putChunk
  simp only
  split <;> split <;> simp

/-- the upload either finds an object at the location (nothing is written) or appends the new object to store and log -/
theorem putChunk_store (p : Props) (s : St) (c : Term) :
    ((putChunk p s c).store = s.store ∧ (putChunk p s c).log = s.log ∧ lookup s.store (chunkLoc p (digest c)) ≠ none) ∨
    (lookup s.store (chunkLoc p (digest c)) = none ∧
      (putChunk p s c).store = s.store ++ [(chunkLoc p (digest c), chunkObject p (nonce s.next) c)] ∧
      (putChunk p s c).log = s.log ++ [(chunkLoc p (digest c), chunkObject p (nonce s.next) c)]) := by
  unfold putChunk
  simp only
  cases hp : p.encrypted <;> simp only [Bool.false_eq_true, if_false, if_true] <;>
    cases hl : lookup s.store (chunkLoc p (digest c)) <;> simp

theorem linv_chunk {en users next next' cfg log} (h : LInv en users next cfg log) (hn : next ≤ next')
    (u : User) (hu : u ∈ users) (n c : Term) :
    LInv en users next' cfg (log ++ [(chunkLoc (u.props en) (digest c), chunkObject (u.props en) n c)]) := by
  have h' := h.mono hn
  refine ⟨?_, ?_, ?_⟩
  · intro e he
    simp only [List.mem_append, List.mem_singleton] at he
    rcases he with he | he
    · exact h'.forms e he
    · subst he
      exact .chunk u hu n c
  · apply pairwise_append (fun (e1 e2 : Term × Term) => ∀ i, e1.1 = keyLoc i → e2.1 = keyLoc i → e1.2 = e2.2)
    · exact h.keyUniq
    · intro e _ i _ h2
      simp [chunkLoc, keyLoc, prefixChunk, prefixKey] at h2
    · intro e _ i h1 _
      simp [chunkLoc, keyLoc, prefixChunk, prefixKey] at h1
    · intro _ _ _; rfl
  · apply pairwise_append (fun (e1 e2 : Term × Term) => ∀ t1 t2 n,
      e1.1 = pair prefixSnap (pair t1 n) → e2.1 = pair prefixSnap (pair t2 n) → t1 = t2)
    · exact h.snapTag
    · intro e _ t1 t2 n _ h2
      simp [chunkLoc, prefixChunk, prefixSnap] at h2
    · intro e _ t1 t2 n h1 _
      simp [chunkLoc, prefixChunk, prefixSnap] at h1
    · intro t1 t2 n h1 _
      simp [chunkLoc, prefixChunk, prefixSnap] at h1

theorem sinv_append {store log : Store} (h : SInv store log) (loc obj : Term) (hl : lookup store loc = none) :
    SInv (store ++ [(loc, obj)]) (log ++ [(loc, obj)]) := by
  refine ⟨?_, nodup_append_new store loc obj h.nodup hl⟩
  intro e he
  simp only [List.mem_append, List.mem_singleton] at he ⊢
  rcases he with he | he
  · exact Or.inl (h.sub e he)
  · exact Or.inr he

theorem chunkLoc_ne_snapLoc (q p : Props) (d n : Term) : chunkLoc q d ≠ snapLoc p n := by
  simp [chunkLoc, snapLoc, prefixChunk, prefixSnap]

theorem sinv_log_append {store log : Store} (h : SInv store log) (e : Term × Term) : SInv store (log ++ [e]) :=
  ⟨fun x hx => List.mem_append_left _ (h.sub x hx), h.nodup⟩

theorem tinv_append_chunk {en users store ts} (h : TInv en users store ts) (q : Props) (d0 obj : Term) :
    TInv en users (store ++ [(chunkLoc q d0, obj)]) ts := by
  refine ⟨h.ok, ?_⟩
  intro t ht hp d hd
  have hp' : lookup store t.loc ≠ none := by
    intro hl
    apply hp
    rw [lookup_append, hl]
    simp [lookup, Taken.loc, chunkLoc_ne_snapLoc]
  exact lookup_append_ne_none (h.pres t ht hp' d hd)

end Replicat.Sym
