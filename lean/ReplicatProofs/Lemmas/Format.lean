import ReplicatModel.Format
/-! Lemmas about Python's `posixpath.join`, `rpartition`, `rsplit` as modelled in `ReplicatModel/Format.lean`; the generic
round trip for a location with two or three tag components.  Used by C08 `location_roundtrip`. -/
namespace Replicat.Format
open List

theorem takeWhile_append_stop {α : Type} (p : α → Bool) (a : List α) (c : α) (r : List α)
    (ha : ∀ x ∈ a, p x = true) (hc : p c = false) : (a ++ c :: r).takeWhile p = a := by
  induction a with
  | nil => simp [takeWhile_cons, hc]
  | cons x xs ih =>
    simp only [cons_append, takeWhile_cons, ha x (by simp), if_true]
    rw [ih (fun y hy => ha y (mem_cons_of_mem _ hy))]

theorem dropWhile_append_stop {α : Type} (p : α → Bool) (a : List α) (c : α) (r : List α)
    (ha : ∀ x ∈ a, p x = true) (hc : p c = false) : (a ++ c :: r).dropWhile p = c :: r := by
  induction a with
  | nil => simp [dropWhile_cons, hc]
  | cons x xs ih =>
    simp only [cons_append, dropWhile_cons, ha x (by simp), if_true]
    exact ih (fun y hy => ha y (mem_cons_of_mem _ hy))

theorem dropWhile_all {α : Type} (p : α → Bool) (a : List α) (ha : ∀ x ∈ a, p x = true) : a.dropWhile p = [] := by
  induction a with
  | nil => rfl
  | cons x xs ih =>
    simp only [dropWhile_cons, ha x (by simp), if_true]
    exact ih (fun y hy => ha y (mem_cons_of_mem _ hy))

/-- `(x + sep + name).rpartition(sep)` when `name` has no `sep` -/
theorem rpartition_append (sep : Char) (x name : Str) (hn : ∀ ch ∈ name, ch ≠ sep) :
    rpartition sep (x ++ sep :: name) = (x, name) := by
  unfold rpartition
  have hrev : (x ++ sep :: name).reverse = name.reverse ++ sep :: x.reverse := by simp
  have hall : ∀ ch ∈ name.reverse, (ch != sep) = true := by
    intro ch hch
    simpa using hn ch (mem_reverse.mp hch)
  rw [hrev, dropWhile_append_stop _ _ _ _ hall (by simp), takeWhile_append_stop _ _ _ _ hall (by simp)]
  simp

theorem lsplit_step (sep : Char) (n : Nat) (a r : Str) (ha : ∀ ch ∈ a, ch ≠ sep) :
    lsplit sep (n + 1) (a ++ sep :: r) = a :: lsplit sep n r := by
  have hall : ∀ ch ∈ a, (ch != sep) = true := by
    intro ch hch; simpa using ha ch hch
  simp only [lsplit]
  rw [dropWhile_append_stop _ _ _ _ hall (by simp), takeWhile_append_stop _ _ _ _ hall (by simp)]

/-- three components without separator after an arbitrary rest: `rsplit(sep, 3)` -/
theorem rsplit3 (sep : Char) (p0 p1 p2 p3 : Str) (h1 : ∀ ch ∈ p1, ch ≠ sep) (h2 : ∀ ch ∈ p2, ch ≠ sep) (h3 : ∀ ch ∈ p3, ch ≠ sep) :
    rsplit sep 3 (p0 ++ sep :: (p1 ++ sep :: (p2 ++ sep :: p3))) = [p0, p1, p2, p3] := by
  unfold rsplit
  have hrev : (p0 ++ sep :: (p1 ++ sep :: (p2 ++ sep :: p3))).reverse
      = p3.reverse ++ sep :: (p2.reverse ++ sep :: (p1.reverse ++ sep :: p0.reverse)) := by simp
  rw [hrev, lsplit_step _ _ _ _ (fun ch hch => h3 ch (mem_reverse.mp hch)),
    lsplit_step _ _ _ _ (fun ch hch => h2 ch (mem_reverse.mp hch)),
    lsplit_step _ _ _ _ (fun ch hch => h1 ch (mem_reverse.mp hch))]
  simp [lsplit]

theorem rsplit2 (sep : Char) (p0 p1 p2 : Str) (h1 : ∀ ch ∈ p1, ch ≠ sep) (h2 : ∀ ch ∈ p2, ch ≠ sep) :
    rsplit sep 2 (p0 ++ sep :: (p1 ++ sep :: p2)) = [p0, p1, p2] := by
  unfold rsplit
  have hrev : (p0 ++ sep :: (p1 ++ sep :: p2)).reverse = p2.reverse ++ sep :: (p1.reverse ++ sep :: p0.reverse) := by simp
  rw [hrev, lsplit_step _ _ _ _ (fun ch hch => h2 ch (mem_reverse.mp hch)),
    lsplit_step _ _ _ _ (fun ch hch => h1 ch (mem_reverse.mp hch))]
  simp [lsplit]

/-! ## `posixpath.join` -/
theorem joinStep_after_slash (p0 b : Str) (hb : b.head? ≠ some '/') : joinStep (p0 ++ ['/']) b = p0 ++ '/' :: b := by
  unfold joinStep
  have : (b.head? == some '/') = false := by simpa using hb
  simp [this]

theorem joinStep_after_char (path b : Str) (hb : b.head? ≠ some '/') (hne : path ≠ []) (hl : path.getLast? ≠ some '/') :
    joinStep path b = path ++ '/' :: b := by
  unfold joinStep
  have h1 : (b.head? == some '/') = false := by simpa using hb
  have h2 : path.isEmpty = false := by simpa using hne
  have h3 : (path.getLast? == some '/') = false := by simpa using hl
  simp [h1, h2, h3]

theorem head?_ne_of_all (b : Str) (c : Char) (h : ∀ ch ∈ b, ch ≠ c) : b.head? ≠ some c := by
  cases b with
  | nil => simp
  | cons x xs => simpa using h x (by simp)

theorem getLast?_append_ne (a b : Str) (c : Char) (hb : b ≠ []) (h : ∀ ch ∈ b, ch ≠ c) : (a ++ b).getLast? ≠ some c := by
  rw [getLast?_append]
  cases hl : b.getLast? with
  | none => exact absurd (getLast?_eq_none_iff.mp hl) hb
  | some x =>
    intro heq
    simp at heq
    subst heq
    exact h x (mem_of_getLast? hl) rfl

theorem slice_parts (tag : Str) (k1 k2 : Nat) (h : k1 ≤ k2) : slice tag 0 k1 ++ (slice tag k1 k2 ++ tag.drop k2) = tag := by
  unfold slice
  simp only [drop_zero]
  have : take k1 tag = take k1 (take k2 tag) := by rw [take_take]; congr 1; omega
  rw [this, ← append_assoc, take_append_drop, take_append_drop]

theorem mem_slice {tag : Str} {i j : Nat} {ch : Char} (h : ch ∈ slice tag i j) : ch ∈ tag :=
  mem_of_mem_take (mem_of_mem_drop h)

theorem slice_ne_nil (tag : Str) (i j : Nat) (h1 : i < j) (h2 : i < tag.length) : slice tag i j ≠ [] := by
  unfold slice
  intro h
  have := congrArg List.length h
  simp at this
  omega

theorem pickParts_123 (p0 p1 p2 p3 : Str) : pickParts [p0, p1, p2, p3] [1, 2, 3] = some (p1 ++ (p2 ++ p3)) := by
  simp [pickParts]

theorem pickParts_12 (p0 p1 p2 : Str) : pickParts [p0, p1, p2] [1, 2] = some (p1 ++ p2) := by
  simp [pickParts]

/-- generic three-component round trip: prefix ending in '/', components cut at `0 < k1 < k2`, `k1 < |tag|` -/
theorem roundtrip3 (pre0 name tag : Str) (k1 k2 : Nat) (hk : 0 < k1 ∧ k1 < k2) (hlen : k1 < tag.length)
    (hname : ∀ ch ∈ name, ch ≠ '-') (htag : ∀ ch ∈ tag, ch ≠ '/') :
    parseLocation (pre0 ++ ['/']) '-' '/' 3 [1, 2, 3]
      (pjoin (pre0 ++ ['/']) [slice tag 0 k1, slice tag k1 k2, tag.drop k2 ++ '-' :: name]) = .ok (name, tag) := by
  have t1 : ∀ ch ∈ slice tag 0 k1, ch ≠ '/' := fun ch h => htag ch (mem_slice h)
  have t2 : ∀ ch ∈ slice tag k1 k2, ch ≠ '/' := fun ch h => htag ch (mem_slice h)
  have t3 : ∀ ch ∈ tag.drop k2, ch ≠ '/' := fun ch h => htag ch (mem_of_mem_drop h)
  have n1 : slice tag 0 k1 ≠ [] := slice_ne_nil tag 0 k1 hk.1 (by omega)
  have n2 : slice tag k1 k2 ≠ [] := slice_ne_nil tag k1 k2 hk.2 hlen
  have hb3 : (tag.drop k2 ++ '-' :: name).head? ≠ some '/' := by
    cases hd : tag.drop k2 with
    | nil => simp
    | cons x xs =>
      have := t3 x (by rw [hd]; simp)
      simpa using this
  have hjoin : pjoin (pre0 ++ ['/']) [slice tag 0 k1, slice tag k1 k2, tag.drop k2 ++ '-' :: name]
      = (pre0 ++ '/' :: (slice tag 0 k1 ++ '/' :: (slice tag k1 k2 ++ '/' :: tag.drop k2))) ++ '-' :: name := by
    unfold pjoin
    simp only [foldl_cons, foldl_nil]
    rw [joinStep_after_slash _ _ (head?_ne_of_all _ _ t1)]
    rw [joinStep_after_char _ _ (head?_ne_of_all _ _ t2) (by simp)
      (by
        have := getLast?_append_ne (pre0 ++ ['/']) (slice tag 0 k1) '/' n1 t1
        simpa using this)]
    rw [joinStep_after_char _ _ hb3 (by simp)
      (by
        have := getLast?_append_ne (pre0 ++ '/' :: slice tag 0 k1 ++ ['/']) (slice tag k1 k2) '/' n2 t2
        simpa using this)]
    simp
  rw [hjoin]
  unfold parseLocation
  have hpre : (pre0 ++ ['/']).isPrefixOf ((pre0 ++ '/' :: (slice tag 0 k1 ++ '/' :: (slice tag k1 k2 ++ '/' :: tag.drop k2))) ++ '-' :: name) = true := by
    rw [isPrefixOf_iff_prefix]
    exact ⟨slice tag 0 k1 ++ '/' :: (slice tag k1 k2 ++ '/' :: tag.drop k2) ++ '-' :: name, by simp⟩
  simp only [hpre, Bool.not_true, Bool.false_eq_true, if_false]
  rw [rpartition_append '-' _ name hname]
  simp only
  rw [rsplit3 '/' pre0 _ _ _ t1 t2 t3, pickParts_123, slice_parts tag k1 k2 (by omega)]

/-- generic two-component round trip -/
theorem roundtrip2 (pre0 name tag : Str) (k : Nat) (hk : 0 < k) (hlen : 0 < tag.length)
    (hname : ∀ ch ∈ name, ch ≠ '-') (htag : ∀ ch ∈ tag, ch ≠ '/') :
    parseLocation (pre0 ++ ['/']) '-' '/' 2 [1, 2]
      (pjoin (pre0 ++ ['/']) [slice tag 0 k, tag.drop k ++ '-' :: name]) = .ok (name, tag) := by
  have t1 : ∀ ch ∈ slice tag 0 k, ch ≠ '/' := fun ch h => htag ch (mem_slice h)
  have t3 : ∀ ch ∈ tag.drop k, ch ≠ '/' := fun ch h => htag ch (mem_of_mem_drop h)
  have n1 : slice tag 0 k ≠ [] := slice_ne_nil tag 0 k hk hlen
  have hb3 : (tag.drop k ++ '-' :: name).head? ≠ some '/' := by
    cases hd : tag.drop k with
    | nil => simp
    | cons x xs =>
      have := t3 x (by rw [hd]; simp)
      simpa using this
  have hjoin : pjoin (pre0 ++ ['/']) [slice tag 0 k, tag.drop k ++ '-' :: name]
      = (pre0 ++ '/' :: (slice tag 0 k ++ '/' :: tag.drop k)) ++ '-' :: name := by
    unfold pjoin
    simp only [foldl_cons, foldl_nil]
    rw [joinStep_after_slash _ _ (head?_ne_of_all _ _ t1)]
    rw [joinStep_after_char _ _ hb3 (by simp)
      (by
        have := getLast?_append_ne (pre0 ++ ['/']) (slice tag 0 k) '/' n1 t1
        simpa using this)]
    simp
  rw [hjoin]
  unfold parseLocation
  have hpre : (pre0 ++ ['/']).isPrefixOf ((pre0 ++ '/' :: (slice tag 0 k ++ '/' :: tag.drop k)) ++ '-' :: name) = true := by
    rw [isPrefixOf_iff_prefix]
    exact ⟨slice tag 0 k ++ '/' :: tag.drop k ++ '-' :: name, by simp⟩
  simp only [hpre, Bool.not_true, Bool.false_eq_true, if_false]
  rw [rpartition_append '-' _ name hname]
  simp only
  rw [rsplit2 '/' pre0 _ _ t1 t3, pickParts_12]
  have := slice_parts tag 0 k (by omega)
  have h0 : slice tag 0 0 = [] := by simp [slice]
  rw [h0, nil_append] at this
  rw [this]

theorem isHex_ne (ch : Char) (h : isHex ch = true) : ch ≠ '-' ∧ ch ≠ '/' := by
  constructor <;> (intro heq; subst heq; revert h; decide)

end Replicat.Format
