import ReplicatProofs.Lemmas.Retry
/-!
Helper lemmas for C12: the back-off loop with re-authentication (`loop`), stated for an arbitrary attempt function and policy.

`Inv` is what every failed attempt must restore (stream rewound, nothing half-written visible), `Good` what a successful attempt
establishes, `ErrOk` the exceptions the attempts can raise for the faults of the plan, `Allowed` the faults of the plan, `Hard`
faults that certainly make an attempt fail.
-/
namespace Replicat.Retry

section
variable {σ : Type} (att : Option Fault → σ → Att σ) (pol : Err → Nat → Nat → Decision) (vis : σ → Option Bytes)
variable (Inv Good : σ → Prop) (ErrOk : Err → Prop) (Allowed Hard : Fault → Prop)

/-- an attempt either succeeds and establishes `Good`, or fails with an expected exception and restores `Inv` -/
def AttSpec : Prop :=
  ∀ (f : Option Fault) (st : σ), Inv st → (∀ x, f = some x → Allowed x) →
    ((att f st).err = none ∧ Good (att f st).st) ∨ (∃ e, (att f st).err = some e ∧ ErrOk e ∧ Inv (att f st).st)

theorem bump_outcome (r : Res σ) (a b c : Nat) (v : Option Bytes) : (r.bump a b c v).outcome = r.outcome := rfl
theorem bump_final (r : Res σ) (a b c : Nat) (v : Option Bytes) : (r.bump a b c v).final = r.final := rfl
theorem bump_attempts (r : Res σ) (a b c : Nat) (v : Option Bytes) : (r.bump a b c v).attempts = r.attempts + 1 := rfl
theorem bump_history (r : Res σ) (a b c : Nat) (v : Option Bytes) : (r.bump a b c v).history = v :: r.history := rfl
theorem bump_sleeps (r : Res σ) (a b c : Nat) (v : Option Bytes) : (r.bump a b c v).sleeps = r.sleeps + a := rfl
theorem bump_reauths (r : Res σ) (a b c : Nat) (v : Option Bytes) : (r.bump a b c v).reauths = r.reauths + b := rfl

/-- one step of the loop, by cases -/
theorem loop_succ (fuel tries rounds : Nat) (plan : List Fault) (st : σ) :
    loop att pol vis (fuel + 1) tries rounds plan st =
      match (att plan.head? st).err with
      | none => ⟨.ok, 1, 0, 0, [(att plan.head? st).recv], [vis (att plan.head? st).st], (att plan.head? st).st⟩
      | some e =>
        match pol e tries rounds with
        | .raise e' slept => ⟨.error e', 1, slept.toNat, 0, [(att plan.head? st).recv], [vis (att plan.head? st).st], (att plan.head? st).st⟩
        | .retry extra => (loop att pol vis fuel (tries + 1) rounds plan.tail (att plan.head? st).st).bump (1 + extra.toNat) 0
            (att plan.head? st).recv (vis (att plan.head? st).st)
        | .reauth slept => (loop att pol vis fuel 1 (rounds + 1) plan.tail (att plan.head? st).st).bump slept.toNat 1
            (att plan.head? st).recv (vis (att plan.head? st).st) := rfl

/-- **masked**: fewer faults than tries left ⇒ the call succeeds, in at most one attempt per fault plus one (exactly that many
if every fault of the plan is `Hard`).  `A` says in which re-authentication rounds a re-authentication is still allowed. -/
theorem loop_masked (m : Nat) (A : Nat → Prop)
    (hatt : AttSpec att Inv Good ErrOk Allowed)
    (hnone : ∀ st, Inv st → (att none st).err = none)
    (hhard : ∀ x st, Inv st → Hard x → (att (some x) st).err ≠ none)
    (hpol : ∀ e tries rounds, ErrOk e → tries < m → A rounds →
      (∃ x, pol e tries rounds = .retry x) ∨ (∃ x, pol e tries rounds = .reauth x)) :
    ∀ (plan : List Fault) (fuel tries rounds : Nat) (st : σ), Inv st → (∀ x ∈ plan, Allowed x) → 1 ≤ tries →
      tries + plan.length ≤ m → plan.length < fuel → (∀ r, r < rounds + plan.length → A r) →
      (loop att pol vis fuel tries rounds plan st).outcome = .ok ∧ Good (loop att pol vis fuel tries rounds plan st).final ∧
      (loop att pol vis fuel tries rounds plan st).attempts ≤ plan.length + 1 ∧
      ((∀ x ∈ plan, Hard x) → (loop att pol vis fuel tries rounds plan st).attempts = plan.length + 1) := by
  intro plan
  induction plan with
  | nil =>
    intro fuel tries rounds st hinv _ _ _ hfuel _
    obtain ⟨fuel, rfl⟩ : ∃ k, fuel = k + 1 := ⟨fuel - 1, by simp at hfuel; omega⟩
    rw [loop_succ]
    have h0 := hnone st hinv
    rcases hatt none st hinv (by intro x h; cases h) with ⟨h1, h2⟩ | ⟨e, h1, _, _⟩
    · simp only [List.head?_nil, h1]
      exact ⟨trivial, h2, by simp, fun _ => by simp⟩
    · rw [h0] at h1; cases h1
  | cons x rest ih =>
    intro fuel tries rounds st hinv hall ht hm hfuel hA
    obtain ⟨fuel, rfl⟩ : ∃ k, fuel = k + 1 := ⟨fuel - 1, by simp at hfuel; omega⟩
    rw [loop_succ]
    simp only [List.head?_cons, List.tail_cons, List.length_cons] at *
    rcases hatt (some x) st hinv (by intro y h; cases h; exact hall x (by simp)) with ⟨h1, h2⟩ | ⟨e, h1, he, hinv'⟩
    · simp only [h1]
      refine ⟨trivial, h2, by omega, fun hh => ?_⟩
      exact absurd h1 (hhard x st hinv (hh x (by simp)))
    · simp only [h1]
      have hrest : ∀ y ∈ rest, Allowed y := fun y hy => hall y (by simp [hy])
      rcases hpol e tries rounds he (by omega) (hA rounds (by omega)) with ⟨b, hp⟩ | ⟨b, hp⟩
      · simp only [hp, bump_outcome, bump_final, bump_attempts]
        obtain ⟨r1, r2, r3, r4⟩ := ih fuel (tries + 1) rounds _ hinv' hrest (by omega) (by omega) (by omega)
          (fun r hr => hA r (by omega))
        exact ⟨r1, r2, by omega, fun hh => by rw [r4 (fun y hy => hh y (by simp [hy]))]⟩
      · simp only [hp, bump_outcome, bump_final, bump_attempts]
        obtain ⟨r1, r2, r3, r4⟩ := ih fuel 1 (rounds + 1) _ hinv' hrest (by omega) (by omega) (by omega)
          (fun r hr => hA r (by omega))
        exact ⟨r1, r2, by omega, fun hh => by rw [r4 (fun y hy => hh y (by simp [hy]))]⟩

/-- the fuel is never the reason for stopping when it exceeds the length of the plan -/
theorem loop_fuel_enough
    (hatt : AttSpec att Inv Good ErrOk Allowed)
    (hnone : ∀ st, Inv st → (att none st).err = none) :
    ∀ (plan : List Fault) (fuel tries rounds : Nat) (st : σ), Inv st → (∀ x ∈ plan, Allowed x) → plan.length < fuel →
      (loop att pol vis fuel tries rounds plan st).outcome ≠ .fuel := by
  intro plan
  induction plan with
  | nil =>
    intro fuel tries rounds st hinv _ hfuel
    obtain ⟨fuel, rfl⟩ : ∃ k, fuel = k + 1 := ⟨fuel - 1, by simp at hfuel; omega⟩
    rw [loop_succ]
    simp only [List.head?_nil, hnone st hinv]
    intro h; cases h
  | cons x rest ih =>
    intro fuel tries rounds st hinv hall hfuel
    obtain ⟨fuel, rfl⟩ : ∃ k, fuel = k + 1 := ⟨fuel - 1, by simp at hfuel; omega⟩
    rw [loop_succ]
    simp only [List.head?_cons, List.tail_cons, List.length_cons] at *
    have hrest : ∀ y ∈ rest, Allowed y := fun y hy => hall y (by simp [hy])
    rcases hatt (some x) st hinv (by intro y h; cases h; exact hall x (by simp)) with ⟨h1, _⟩ | ⟨e, h1, _, hinv'⟩
    · simp only [h1]; intro h; cases h
    · simp only [h1]
      cases hp : pol e tries rounds with
      | raise e' s => simp only; intro h; cases h
      | retry b => simp only [bump_outcome]; exact ih fuel _ _ _ hinv' hrest (by omega)
      | reauth b => simp only [bump_outcome]; exact ih fuel _ _ _ hinv' hrest (by omega)

/-- once the plan is exhausted the next attempt succeeds: never more attempts than faults plus one -/
theorem loop_attempts_le
    (hatt : AttSpec att Inv Good ErrOk Allowed)
    (hnone : ∀ st, Inv st → (att none st).err = none) :
    ∀ (plan : List Fault) (fuel tries rounds : Nat) (st : σ), Inv st → (∀ x ∈ plan, Allowed x) →
      (loop att pol vis fuel tries rounds plan st).attempts ≤ plan.length + 1 := by
  intro plan
  induction plan with
  | nil =>
    intro fuel tries rounds st hinv _
    cases fuel with
    | zero => simp [loop]
    | succ fuel =>
      rw [loop_succ]
      simp only [List.head?_nil, hnone st hinv]
      simp
  | cons x rest ih =>
    intro fuel tries rounds st hinv hall
    cases fuel with
    | zero => simp [loop]
    | succ fuel =>
      rw [loop_succ]
      simp only [List.head?_cons, List.tail_cons, List.length_cons]
      have hrest : ∀ y ∈ rest, Allowed y := fun y hy => hall y (by simp [hy])
      rcases hatt (some x) st hinv (by intro y h; cases h; exact hall x (by simp)) with ⟨h1, _⟩ | ⟨e, h1, _, hinv'⟩
      · simp only [h1]; omega
      · simp only [h1]
        cases hp : pol e tries rounds with
        | raise e' s => simp only; omega
        | retry b => simp only [bump_attempts]; have := ih fuel (tries + 1) rounds _ hinv' hrest; omega
        | reauth b => simp only [bump_attempts]; have := ih fuel 1 (rounds + 1) _ hinv' hrest; omega

/-- the final state is the one a failed attempt restores or the one a successful attempt establishes -/
theorem loop_final
    (hatt : AttSpec att Inv Good ErrOk Allowed) :
    ∀ (fuel : Nat) (plan : List Fault) (tries rounds : Nat) (st : σ), Inv st → (∀ x ∈ plan, Allowed x) →
      Inv (loop att pol vis fuel tries rounds plan st).final ∨ Good (loop att pol vis fuel tries rounds plan st).final := by
  intro fuel
  induction fuel with
  | zero => intro plan tries rounds st hinv _; exact Or.inl hinv
  | succ fuel ih =>
    intro plan tries rounds st hinv hall
    rw [loop_succ]
    have hhead : ∀ x, plan.head? = some x → Allowed x := by
      intro x hx
      cases plan with
      | nil => cases hx
      | cons y rest => simp at hx; subst hx; exact hall y (by simp)
    have htail : ∀ y ∈ plan.tail, Allowed y := by
      intro y hy
      cases plan with
      | nil => cases hy
      | cons z rest => exact hall y (by simp at hy; simp [hy])
    rcases hatt plan.head? st hinv hhead with ⟨h1, h2⟩ | ⟨e, h1, _, hinv'⟩
    · simp only [h1]; exact Or.inr h2
    · simp only [h1]
      cases hp : pol e tries rounds with
      | raise e' s => exact Or.inl hinv'
      | retry b => simp only [bump_final]; exact ih _ _ _ _ hinv' htail
      | reauth b => simp only [bump_final]; exact ih _ _ _ _ hinv' htail

/-- every intermediate and the final visible state satisfies `P` -/
theorem loop_history (P : Option Bytes → Prop)
    (hatt : AttSpec att Inv Good ErrOk Allowed)
    (hvis : ∀ f st, Inv st → (∀ x, f = some x → Allowed x) → P (vis (att f st).st)) :
    ∀ (fuel : Nat) (plan : List Fault) (tries rounds : Nat) (st : σ), Inv st → (∀ x ∈ plan, Allowed x) →
      ∀ v ∈ (loop att pol vis fuel tries rounds plan st).history, P v := by
  intro fuel
  induction fuel with
  | zero => intro plan tries rounds st _ _ v hv; simp [loop] at hv
  | succ fuel ih =>
    intro plan tries rounds st hinv hall v hv
    rw [loop_succ] at hv
    have hhead : ∀ x, plan.head? = some x → Allowed x := by
      intro x hx
      cases plan with
      | nil => cases hx
      | cons y rest => simp at hx; subst hx; exact hall y (by simp)
    have htail : ∀ y ∈ plan.tail, Allowed y := by
      intro y hy
      cases plan with
      | nil => cases hy
      | cons z rest => exact hall y (by simp at hy; simp [hy])
    have hP := hvis plan.head? st hinv hhead
    rcases hatt plan.head? st hinv hhead with ⟨h1, _⟩ | ⟨e, h1, _, hinv'⟩
    · simp only [h1, List.mem_singleton] at hv
      subst hv; exact hP
    · simp only [h1] at hv
      cases hp : pol e tries rounds with
      | raise e' s =>
        simp only [hp, List.mem_singleton] at hv
        subst hv; exact hP
      | retry b =>
        simp only [hp, bump_history, List.mem_cons] at hv
        rcases hv with rfl | hv
        · exact hP
        · exact ih _ _ _ _ hinv' htail v hv
      | reauth b =>
        simp only [hp, bump_history, List.mem_cons] at hv
        rcases hv with rfl | hv
        · exact hP
        · exact ih _ _ _ _ hinv' htail v hv

/-- **bounded**: a policy that raises at try `m` and never re-authenticates makes at most `m − tries + 1` attempts -/
theorem loop_bounded (m : Nat)
    (hatt : AttSpec att Inv Good ErrOk Allowed)
    (hlim : ∀ e rounds, ErrOk e → ∃ e' s, pol e m rounds = .raise e' s)
    (hnore : ∀ e tries rounds x, ErrOk e → pol e tries rounds ≠ .reauth x) :
    ∀ (fuel : Nat) (plan : List Fault) (tries rounds : Nat) (st : σ), Inv st → (∀ x ∈ plan, Allowed x) → tries ≤ m →
      (loop att pol vis fuel tries rounds plan st).attempts + tries ≤ m + 1 := by
  intro fuel
  induction fuel with
  | zero => intro plan tries rounds st _ _ h; simp [loop]; omega
  | succ fuel ih =>
    intro plan tries rounds st hinv hall ht
    rw [loop_succ]
    have hhead : ∀ x, plan.head? = some x → Allowed x := by
      intro x hx
      cases plan with
      | nil => cases hx
      | cons y rest => simp at hx; subst hx; exact hall y (by simp)
    have htail : ∀ y ∈ plan.tail, Allowed y := by
      intro y hy
      cases plan with
      | nil => cases hy
      | cons z rest => exact hall y (by simp at hy; simp [hy])
    rcases hatt plan.head? st hinv hhead with ⟨h1, _⟩ | ⟨e, h1, he, hinv'⟩
    · simp only [h1]; omega
    · simp only [h1]
      cases hp : pol e tries rounds with
      | raise e' s => simp only; omega
      | retry b =>
        simp only [bump_attempts]
        have hlt : tries < m := by
          rcases Nat.lt_or_ge tries m with h | h
          · exact h
          · have : tries = m := by omega
            subst this
            obtain ⟨e', s, hr⟩ := hlim e rounds he
            rw [hr] at hp; cases hp
        have := ih plan.tail (tries + 1) rounds _ hinv' htail (by omega)
        omega
      | reauth b => exact absurd hp (hnore e tries rounds b he)

/-- **persistent faults end in an error**: more hard faults than tries left ⇒ the outcome is an exception -/
theorem loop_persistent (m : Nat)
    (hatt : AttSpec att Inv Good ErrOk Allowed)
    (hhard : ∀ x st, Inv st → Hard x → (att (some x) st).err ≠ none)
    (hlim : ∀ e rounds, ErrOk e → ∃ e' s, pol e m rounds = .raise e' s)
    (hnore : ∀ e tries rounds x, ErrOk e → pol e tries rounds ≠ .reauth x) :
    ∀ (plan : List Fault) (fuel tries rounds : Nat) (st : σ), Inv st → (∀ x ∈ plan, Allowed x ∧ Hard x) → tries ≤ m →
      m < tries + plan.length → m - tries < fuel →
      ∃ e, (loop att pol vis fuel tries rounds plan st).outcome = .error e := by
  intro plan
  induction plan with
  | nil => intro fuel tries rounds st _ _ h1 h2 _; simp at h2; omega
  | cons x rest ih =>
    intro fuel tries rounds st hinv hall ht hm hfuel
    obtain ⟨fuel, rfl⟩ : ∃ k, fuel = k + 1 := ⟨fuel - 1, by omega⟩
    rw [loop_succ]
    simp only [List.head?_cons, List.tail_cons, List.length_cons] at *
    have hx := hall x (by simp)
    rcases hatt (some x) st hinv (by intro y h; cases h; exact hx.1) with ⟨h1, _⟩ | ⟨e, h1, he, hinv'⟩
    · exact absurd h1 (hhard x st hinv hx.2)
    · simp only [h1]
      cases hp : pol e tries rounds with
      | raise e' s => exact ⟨e', rfl⟩
      | retry b =>
        simp only [bump_outcome]
        have hlt : tries < m := by
          rcases Nat.lt_or_ge tries m with h | h
          · exact h
          · have : tries = m := by omega
            subst this
            obtain ⟨e', s, hr⟩ := hlim e rounds he
            rw [hr] at hp; cases hp
        exact ih fuel (tries + 1) rounds _ hinv' (fun y hy => hall y (by simp [hy])) (by omega) (by omega) (by omega)
      | reauth b => exact absurd hp (hnore e tries rounds b he)

end

end Replicat.Retry
