import ReplicatModel.Layout
/-! Generic lemmas about `slice` and consecutive spans (used by C01 / C14 / C15). -/
namespace Replicat
variable {α : Type}

theorem slice_empty_of_le (s : List α) {a b : Nat} (h : b ≤ a) : slice s a b = [] := by
  unfold slice; simp [Nat.sub_eq_zero_of_le h]

theorem slice_append_slice (s : List α) {a b c : Nat} (hab : a ≤ b) (hbc : b ≤ c) :
    slice s a b ++ slice s b c = slice s a c := by
  unfold slice
  have e1 : c - a = (b - a) + (c - b) := by omega
  have e2 : List.drop b s = List.drop (b - a) (List.drop a s) := by
    rw [List.drop_drop]; congr 1; omega
  rw [e1, e2, List.take_add]

theorem slice_zero_length (s : List α) : slice s 0 s.length = s := by
  unfold slice; simp

theorem slice_slice (s : List α) {a b lo hi : Nat} (h : a + hi ≤ b) :
    slice (slice s a b) lo hi = slice s (a + lo) (a + hi) := by
  unfold slice
  rw [List.drop_take, List.drop_drop, List.take_take]
  have : min (hi - lo) (b - a - lo) = a + hi - (a + lo) := by omega
  rw [this]

theorem length_slice (s : List α) {a b : Nat} (h : b ≤ s.length) : (slice s a b).length = b - a := by
  unfold slice; simp; omega

/-- consecutive spans starting at `c0` with the given lengths tile `[c0, c0 + Σ)`:
the pieces of `[fs, fe)` falling into each span concatenate to the part of `[fs, fe)` from `c0` on. -/
theorem tile_concat (s : List α) (fs fe : Nat) (lens : List Nat) (c0 : Nat) (hfe : fe ≤ c0 + lens.sum) :
    ((spansFrom c0 lens).map (fun c => slice s (max fs c.1) (min fe c.2))).flatten = slice s (max fs c0) fe := by
  induction lens generalizing c0 with
  | nil =>
    simp [spansFrom] at *
    rw [slice_empty_of_le]; omega
  | cons n rest ih =>
    simp only [spansFrom, List.map_cons, List.flatten_cons, List.sum_cons] at *
    rw [ih (c0 + n) (by omega)]
    by_cases h1 : fe ≤ c0 + n
    · rw [slice_empty_of_le s (a := max fs (c0 + n)) (b := fe) (by omega), List.append_nil]
      congr 1; omega
    · by_cases h2 : c0 + n ≤ fs
      · rw [slice_empty_of_le s (a := max fs c0) (b := min fe (c0 + n)) (by omega), List.nil_append]
        congr 1; omega
      · have e1 : min fe (c0 + n) = c0 + n := by omega
        have e2 : max fs (c0 + n) = c0 + n := by omega
        rw [e1, e2]
        exact slice_append_slice s (by omega) (by omega)

theorem spansFrom_length (c0 : Nat) (lens : List Nat) : (spansFrom c0 lens).length = lens.length := by
  induction lens generalizing c0 with
  | nil => rfl
  | cons n rest ih => simp [spansFrom, ih]

theorem spansFrom_mem_bounds {c0 : Nat} {lens : List Nat} {c : Span} (h : c ∈ spansFrom c0 lens) :
    c0 ≤ c.1 ∧ c.1 ≤ c.2 ∧ c.2 ≤ c0 + lens.sum := by
  induction lens generalizing c0 with
  | nil => simp [spansFrom] at h
  | cons n rest ih =>
    simp only [spansFrom, List.mem_cons, List.sum_cons] at *
    rcases h with rfl | h
    · simp
    · have := ih h; omega

end Replicat
