import ReplicatProofs.Lemmas.LocalFS
/-! Helper lemmas for C13: `os.path.split`, `os.path.join`, `Path(root) / dirname` and the normal form of the local listing. -/
namespace Replicat.LocalFS
open Replicat Replicat.Store

/-- a segment as `os.scandir` reports it: non-empty, no '/' -/
def plainSeg (s : Seg) : Prop := s ≠ [] ∧ '/' ∉ s

theorem plainSeg_of_valid {s : Seg} (h : validSeg s = true) : plainSeg s :=
  ⟨((validSeg_iff s).mp h).1, ((validSeg_iff s).mp h).2.1⟩

/-- `/s₁/s₂/…` -/
def slashed (q : Path) : List Char := q.flatMap (fun s => '/' :: s)

theorem slashed_cons (s : Seg) (q : Path) : slashed (s :: q) = '/' :: s ++ slashed q := rfl
theorem slashed_append (p q : Path) : slashed (p ++ q) = slashed p ++ slashed q := by simp [slashed]

theorem joinSlash_cons_slashed (s : Seg) (q : Path) : joinSlash (s :: q) = s ++ slashed q := by
  induction q generalizing s with
  | nil => simp [joinSlash, slashed]
  | cons t ts ih => rw [joinSlash_cons_cons, ih, slashed_cons]; simp

theorem slashed_eq (q : Path) (h : q ≠ []) : slashed q = '/' :: joinSlash q := by
  cases q with
  | nil => exact absurd rfl h
  | cons s ss => rw [slashed_cons, joinSlash_cons_slashed]; rfl

/-- non-empty and the last character is not '/' -/
def EndsOk (b : List Char) : Prop := ∃ c, b.getLast? = some c ∧ c ≠ '/'

theorem EndsOk.ne_nil {b : List Char} (h : EndsOk b) : b ≠ [] := by
  obtain ⟨c, hc, _⟩ := h
  intro e; simp [e] at hc

theorem endsOk_append_seg (b : List Char) {s : Seg} (hs : plainSeg s) : EndsOk (b ++ '/' :: s) := by
  obtain ⟨ys, c, rfl⟩ : ∃ ys c, s = ys ++ [c] := by
    rcases List.eq_nil_or_concat s with h | ⟨l, x, h⟩
    · exact absurd h hs.1
    · exact ⟨l, x, by simpa using h⟩
  refine ⟨c, ?_, ?_⟩
  · rw [show b ++ '/' :: (ys ++ [c]) = (b ++ '/' :: ys) ++ [c] by simp, List.getLast?_concat]
  · intro e; exact hs.2 (by simp [e])

theorem endsOk_seg_append (a : List Char) {s : Seg} (hs : plainSeg s) : EndsOk (a ++ s) := by
  obtain ⟨ys, c, rfl⟩ : ∃ ys c, s = ys ++ [c] := by
    rcases List.eq_nil_or_concat s with h | ⟨l, x, h⟩
    · exact absurd h hs.1
    · exact ⟨l, x, by simpa using h⟩
  refine ⟨c, ?_, ?_⟩
  · rw [← List.append_assoc, List.getLast?_concat]
  · intro e; exact hs.2 (by simp [e])

theorem endsOk_append_slashed {b : List Char} (hb : EndsOk b) (q : Path) (hq : ∀ s ∈ q, plainSeg s) :
    EndsOk (b ++ slashed q) := by
  induction q generalizing b with
  | nil => simpa [slashed] using hb
  | cons s ss ih =>
    rw [slashed_cons, ← List.append_assoc]
    exact ih (endsOk_append_seg b (hq s (by simp))) (fun x hx => hq x (List.mem_cons_of_mem _ hx))

theorem head_not_slash_of_plain {s : Seg} (hs : plainSeg s) : s.head? ≠ some '/' := by
  cases s with
  | nil => exact absurd rfl hs.1
  | cons c cs =>
    intro h
    have : c = '/' := by simpa using h
    exact hs.2 (by simp [this])

/-- `os.path.join(b, s)` for a base that does not end in '/' and a plain segment -/
theorem osJoin_seg {b : List Char} (hb : EndsOk b) {s : Seg} (hs : plainSeg s) : osJoin b s = b ++ '/' :: s := by
  obtain ⟨c, hc, hne⟩ := hb
  unfold osJoin
  rw [if_neg (head_not_slash_of_plain hs)]
  have h1 : ¬ (b = [] ∨ b.getLast? = some '/') := by
    rintro (h | h)
    · simp [h] at hc
    · rw [hc] at h; exact hne (by simpa using h)
  rw [if_neg h1]

theorem joinAll_slashed {b : List Char} (hb : EndsOk b) (q : Path) (hq : ∀ s ∈ q, plainSeg s) :
    joinAll b q = b ++ slashed q := by
  induction q generalizing b with
  | nil => simp [joinAll, slashed]
  | cons s ss ih =>
    have hs := hq s (by simp)
    unfold joinAll
    rw [List.foldl_cons, osJoin_seg hb hs]
    have := ih (endsOk_append_seg b hs) (fun x hx => hq x (List.mem_cons_of_mem _ hx))
    unfold joinAll at this
    rw [this, slashed_cons]; simp

/-! ## os.path.split of a normal prefix -/
theorem takeWhile_stop {p : Char → Bool} (a : List Char) (x : Char) (b : List Char) (h : ∀ y ∈ a, p y = true) (hx : p x = false) :
    (a ++ x :: b).takeWhile p = a ∧ (a ++ x :: b).dropWhile p = x :: b := by
  induction a with
  | nil => simp [hx]
  | cons y ys ih =>
    obtain ⟨h1, h2⟩ := ih (fun z hz => h z (List.mem_cons_of_mem _ hz))
    simp only [List.cons_append, List.takeWhile_cons, List.dropWhile_cons, h y (by simp), if_true, h1, h2, and_self]

theorem osSplit_eq (p : List Char) : osSplit p =
    (if ((p.reverse.dropWhile (fun c => decide (c ≠ '/'))).reverse.reverse.dropWhile (fun c => decide (c = '/'))).reverse = []
      then (p.reverse.dropWhile (fun c => decide (c ≠ '/'))).reverse
      else ((p.reverse.dropWhile (fun c => decide (c ≠ '/'))).reverse.reverse.dropWhile (fun c => decide (c = '/'))).reverse,
     (p.reverse.takeWhile (fun c => decide (c ≠ '/'))).reverse) := rfl

theorem osSplit_normal (ds : Path) (hds : ∀ s ∈ ds, plainSeg s) (bn : List Char) (hbn : '/' ∉ bn) :
    osSplit (joinSlash (ds ++ [bn])) = (joinSlash ds, bn) := by
  have hbnr : ∀ a ∈ bn.reverse, (fun c => decide (c ≠ '/')) a = true := by
    intro a ha; simp only [decide_eq_true_eq]; intro e; exact hbn (by simpa [e] using ha)
  by_cases hd : ds = []
  · subst hd
    rw [osSplit_eq]
    simp only [List.nil_append, joinSlash]
    rw [takeWhile_all _ hbnr, dropWhile_all _ hbnr]
    simp
  · have hjoin : joinSlash (ds ++ [bn]) = joinSlash ds ++ '/' :: bn := by
      rw [joinSlash_append ds [bn] hd (by simp)]; rfl
    obtain ⟨c, hc, hne⟩ : EndsOk (joinSlash ds) := by
      cases ds with
      | nil => exact absurd rfl hd
      | cons s ss =>
        rw [joinSlash_cons_slashed]
        exact endsOk_append_slashed (by simpa using endsOk_seg_append [] (hds s (by simp))) ss
          (fun x hx => hds x (List.mem_cons_of_mem _ hx))
    obtain ⟨ys, hys⟩ := List.getLast?_eq_some_iff.mp hc
    have hrev : (joinSlash ds ++ '/' :: bn).reverse = bn.reverse ++ '/' :: (joinSlash ds).reverse := by simp
    obtain ⟨h1, h2⟩ := takeWhile_stop (p := fun c => decide (c ≠ '/')) bn.reverse '/' (joinSlash ds).reverse hbnr (by simp)
    have h4 : ('/' :: (joinSlash ds).reverse).dropWhile (fun c => decide (c = '/')) = (joinSlash ds).reverse := by
      rw [List.dropWhile_cons, if_pos (by simp), hys]
      simp [hne]
    have hne' : joinSlash ds ≠ [] := by rw [hys]; simp
    rw [osSplit_eq, hjoin, hrev, h1, h2, List.reverse_reverse, h4]
    simp [hne']

/-! ## pathlib: `Path(root) / dirname` -/
theorem while_neg {p : Char → Bool} (a t : List Char) (h : ∃ y ∈ a, p y = false) :
    (a ++ t).takeWhile p = a.takeWhile p ∧ (a ++ t).dropWhile p = a.dropWhile p ++ t := by
  induction a with
  | nil => obtain ⟨y, hy, _⟩ := h; simp at hy
  | cons x xs ih =>
    by_cases hx : p x = true
    · have : ∃ y ∈ xs, p y = false := by
        obtain ⟨y, hy, hpy⟩ := h
        rcases List.mem_cons.mp hy with rfl | hy
        · rw [hx] at hpy; cases hpy
        · exact ⟨y, hy, hpy⟩
      obtain ⟨h1, h2⟩ := ih this
      simp only [List.cons_append, List.takeWhile_cons, List.dropWhile_cons, hx, if_true, h1, h2, and_self]
    · have hx' : p x = false := by simpa using hx
      simp [hx']

def partsFilter (l : List (List Char)) : List Seg := l.filter (fun x => decide (x ≠ [] ∧ x ≠ dot))

theorem pparse_eq (s : List Char) :
    pparse s = ⟨(if (s.takeWhile (fun c => decide (c = '/'))).length = 0 then []
                else if (s.takeWhile (fun c => decide (c = '/'))).length = 2 then ['/', '/'] else ['/']),
               partsFilter (splitSlash (s.dropWhile (fun c => decide (c = '/'))))⟩ := rfl

/-- appending `/b` to a string that has a character other than '/' -/
theorem pparse_append_slash (a b : List Char) (h : ∃ y ∈ a, y ≠ '/') :
    pparse (a ++ '/' :: b) = ⟨(pparse a).anchor, (pparse a).parts ++ partsFilter (splitSlash b)⟩ := by
  have h' : ∃ y ∈ a, (fun c => decide (c = '/')) y = false := by
    obtain ⟨y, hy, hne⟩ := h; exact ⟨y, hy, by simpa using hne⟩
  obtain ⟨h1, h2⟩ := while_neg (p := fun c => decide (c = '/')) a ('/' :: b) h'
  rw [pparse_eq, pparse_eq, h1, h2, splitSlash_append_slash']
  simp [partsFilter]

theorem partsFilter_joinSlash (ds : Path) (hds : ∀ s ∈ ds, validSeg s = true) : partsFilter (splitSlash (joinSlash ds)) = ds := by
  have h := pparse_joinSlash ds hds
  obtain ⟨_, h2⟩ := takeWhile_of_head _ (joinSlash_head_not_slash ds hds)
  rw [pparse_eq, h2] at h
  exact congrArg PPath.parts h

theorem parts_ne_nil_has_char (r : List Char) (h : (pparse r).parts ≠ []) : ∃ y ∈ r, y ≠ '/' := by
  apply Classical.byContradiction
  intro hn
  have hall : ∀ y ∈ r, (fun c => decide (c = '/')) y = true := by
    intro y hy
    have : ¬ y ≠ '/' := fun hne => hn ⟨y, hy, hne⟩
    simpa using this
  apply h
  rw [pparse_eq, dropWhile_all r hall]
  simp [partsFilter, splitSlash]

/-- the scanned directory as `os.scandir` sees it: `str(Path(root) / dirname)` is `str(Path(root))` followed by the
directory segments — provided `Path(root)` has at least one part (this is what fails for '.', '' — D6) -/
theorem pjoin_str (root : List Char) (hroot : (pparse root).parts ≠ []) (ds : Path) (hds : ∀ s ∈ ds, validSeg s = true) :
    (pjoin root (joinSlash ds)).str = (pparse root).str ++ slashed ds ∧ EndsOk (pparse root).str := by
  have hchar := parts_ne_nil_has_char root hroot
  have hrne : root ≠ [] := by obtain ⟨y, hy, _⟩ := hchar; intro e; simp [e] at hy
  -- the joined path has the same anchor and the parts of root followed by ds
  have hparse : pparse (osJoin root (joinSlash ds)) = ⟨(pparse root).anchor, (pparse root).parts ++ ds⟩ := by
    unfold osJoin
    rw [if_neg (joinSlash_head_not_slash ds hds)]
    by_cases hl : root.getLast? = some '/'
    · rw [if_pos (Or.inr hl)]
      obtain ⟨r', hr'⟩ := List.getLast?_eq_some_iff.mp hl
      have hchar' : ∃ y ∈ r', y ≠ '/' := by
        obtain ⟨y, hy, hne⟩ := hchar
        rw [hr'] at hy
        rcases List.mem_append.mp hy with hy | hy
        · exact ⟨y, hy, hne⟩
        · simp at hy; exact absurd hy hne
      have e1 : root ++ joinSlash ds = r' ++ '/' :: joinSlash ds := by rw [hr']; simp
      have e2 : root = r' ++ '/' :: [] := by rw [hr']
      rw [e1, pparse_append_slash r' _ hchar', partsFilter_joinSlash ds hds]
      conv => rhs; rw [e2, pparse_append_slash r' [] hchar']
      simp [partsFilter, splitSlash]
    · have : ¬ (root = [] ∨ root.getLast? = some '/') := by rintro (h | h); exact hrne h; exact hl h
      rw [if_neg this, pparse_append_slash root _ hchar, partsFilter_joinSlash ds hds]
  -- shape of the parts of root
  obtain ⟨p0, ps, hps⟩ : ∃ p0 ps, (pparse root).parts = p0 :: ps := by
    cases hp : (pparse root).parts with
    | nil => exact absurd hp hroot
    | cons a l => exact ⟨a, l, rfl⟩
  have hplain : ∀ s ∈ (pparse root).parts, plainSeg s := by
    intro s hs
    rw [pparse_eq] at hs
    simp only [partsFilter, List.mem_filter, decide_eq_true_eq] at hs
    exact ⟨hs.2.1, splitSlash_seg_no_slash _ s hs.1⟩
  have hends : EndsOk ((pparse root).anchor ++ joinSlash (pparse root).parts) := by
    rw [hps, joinSlash_cons_slashed, ← List.append_assoc]
    rw [hps] at hplain
    exact endsOk_append_slashed (endsOk_seg_append _ (hplain p0 (by simp))) ps (fun x hx => hplain x (List.mem_cons_of_mem _ hx))
  have hstr : (pparse root).str = (pparse root).anchor ++ joinSlash (pparse root).parts := by
    unfold PPath.str
    simp only [hends.ne_nil, if_false]
  refine ⟨?_, hstr ▸ hends⟩
  unfold pjoin
  rw [hparse, hstr]
  have hj : joinSlash ((pparse root).parts ++ ds) = joinSlash (pparse root).parts ++ slashed ds := by
    rw [hps, List.cons_append, joinSlash_cons_slashed, joinSlash_cons_slashed, slashed_append]; simp
  unfold PPath.str
  simp only [hj]
  have hne : (pparse root).anchor ++ (joinSlash (pparse root).parts ++ slashed ds) ≠ [] := by
    intro e
    have := hends.ne_nil
    simp only [List.append_eq_nil_iff] at e
    exact this (by simp [e.1, e.2.1])
  simp only [hne, if_false, List.append_assoc]

/-! ## the listing in normal form -/
theorem mem_dedup {α : Type} [DecidableEq α] (l : List α) (a : α) : a ∈ dedup l ↔ a ∈ l := by
  induction l with
  | nil => simp [dedup]
  | cons x xs ih =>
    unfold dedup
    by_cases h : x ∈ xs
    · simp only [h, if_true, ih, List.mem_cons]
      constructor
      · exact Or.inr
      · rintro (rfl | h') <;> assumption
    · simp only [h, if_false, List.mem_cons, ih]

theorem nodup_dedup {α : Type} [DecidableEq α] (l : List α) : (dedup l).Nodup := by
  induction l with
  | nil => simp [dedup]
  | cons x xs ih =>
    unfold dedup
    by_cases h : x ∈ xs
    · simp only [h, if_true]; exact ih
    · simp only [h, if_false, List.nodup_cons]; exact ⟨fun hm => h ((mem_dedup xs x).mp hm), ih⟩

theorem flatMap_congr' {α β : Type} (l : List α) (f g : α → List β) (h : ∀ a ∈ l, f a = g a) : l.flatMap f = l.flatMap g := by
  induction l with
  | nil => rfl
  | cons x xs ih =>
    rw [List.flatMap_cons, List.flatMap_cons, h x (by simp), ih (fun a ha => h a (List.mem_cons_of_mem _ ha))]

theorem mem_entries (fs : FS) (d : Path) (e : Seg) :
    e ∈ fs.entries d ↔ ∃ p, (p ∈ fs.files.map (·.1) ∨ p ∈ fs.dirs) ∧ p = d ++ [e] := by
  unfold FS.entries
  rw [mem_dedup]
  simp only [List.mem_filterMap, List.mem_append]
  constructor
  · rintro ⟨p, hp, he⟩
    by_cases hc : p ≠ [] ∧ p.dropLast = d
    · rw [if_pos hc] at he
      refine ⟨p, hp, ?_⟩
      obtain ⟨ys, hys⟩ := List.getLast?_eq_some_iff.mp he
      rw [← hc.2, hys]; simp
    · rw [if_neg hc] at he; cases he
  · rintro ⟨p, hp, rfl⟩
    exact ⟨d ++ [e], hp, by simp⟩

theorem mem_filesUnder (fs : FS) (d sub : Path) :
    sub ∈ fs.filesUnder d ↔ sub ≠ [] ∧ d ++ sub ∈ fs.files.map (·.1) := by
  unfold FS.filesUnder
  simp only [List.mem_filterMap]
  constructor
  · rintro ⟨p, hp, he⟩
    by_cases hc : d.isPrefixOf p = true ∧ p ≠ d
    · rw [if_pos hc] at he
      obtain ⟨t, rfl⟩ := List.isPrefixOf_iff_prefix.mp hc.1
      have : sub = t := by simpa using he.symm
      subst this
      exact ⟨fun e => hc.2 (by simp [e]), hp⟩
    · rw [if_neg hc] at he; cases he
  · rintro ⟨hne, hp⟩
    refine ⟨d ++ sub, hp, ?_⟩
    have hc : d.isPrefixOf (d ++ sub) = true ∧ d ++ sub ≠ d := ⟨by simp, by simpa using hne⟩
    rw [if_pos hc]; simp

section nf
variable {U : Path → Prop} (hU : Universe U) {fs : FS} (hinv : Inv U fs)
include hU hinv

/-- every segment of a file path or directory is a valid segment -/
theorem seg_valid_of_file {p : Path} (hp : p ∈ fs.files.map (·.1)) : ∀ s ∈ p, validSeg s = true :=
  ((validPath_iff p).mp (hU.valid p (hinv.filesU p hp))).2

theorem seg_valid_of_dir {d : Path} (hd : d ∈ fs.dirs) : ∀ s ∈ d, validSeg s = true := by
  obtain ⟨u, hu, ha⟩ := hinv.dirsU d hd
  obtain ⟨_, hpre, _⟩ := (mem_ancestors d u).mp ha
  intro s hs
  exact ((validPath_iff u).mp (hU.valid u hu)).2 s (hpre.subset hs)

theorem entry_valid {d : Path} {e : Seg} (he : e ∈ fs.entries d) : validSeg e = true := by
  obtain ⟨p, hp, rfl⟩ := (mem_entries fs d e).mp he
  rcases hp with hp | hp
  · exact seg_valid_of_file hU hinv hp e (by simp)
  · exact seg_valid_of_dir hU hinv hp e (by simp)

theorem sub_valid {d sub : Path} (hs : sub ∈ fs.filesUnder d) : ∀ s ∈ sub, validSeg s = true := by
  obtain ⟨_, hp⟩ := (mem_filesUnder fs d sub).mp hs
  intro s hs'
  exact seg_valid_of_file hU hinv hp s (List.mem_append_right _ hs')

end nf

/-- what one directory entry contributes, as object names -/
def innerNF (fs : FS) (ds : Path) (e : Seg) : List Name :=
  if fs.isDir (ds ++ [e]) then (fs.filesUnder (ds ++ [e])).map (fun sub => joinSlash (ds ++ e :: sub))
  else if fs.isFile (ds ++ [e]) then [joinSlash (ds ++ [e])] else []

/-- the listing without any reference to the spelling of the repository location and before the `.tmp` filter -/
def listNF (fs : FS) (ds : Path) (bn : List Char) : List Name :=
  if fs.kind ds ≠ .dir then [] else ((fs.entries ds).filter (fun e => bn.isPrefixOf e)).flatMap (innerNF fs ds)

theorem tmp_suffix_join (R s : List Char) :
    (".tmp".toList).isSuffixOf (R ++ '/' :: s) = (".tmp".toList).isSuffixOf s := by
  have key : ".tmp".toList <:+ (R ++ '/' :: s) ↔ ".tmp".toList <:+ s := by
    constructor
    · intro h
      induction R with
      | nil =>
        rcases List.suffix_cons_iff.mp h with h | h
        · have : '/' ∈ ".tmp".toList := by rw [h]; simp
          exact absurd this (by decide)
        · exact h
      | cons x xs ih =>
        rcases List.suffix_cons_iff.mp h with h | h
        · have : '/' ∈ ".tmp".toList := by rw [h]; simp
          exact absurd this (by decide)
        · exact ih h
    · intro h
      exact List.suffix_append_of_suffix (List.IsSuffix.trans h (List.suffix_cons _ _))
  by_cases h : ".tmp".toList <:+ s
  · rw [List.isSuffixOf_iff_suffix.mpr h, List.isSuffixOf_iff_suffix.mpr (key.mpr h)]
  · have h' : ¬ ".tmp".toList <:+ (R ++ '/' :: s) := fun e => h (key.mp e)
    have e1 : (".tmp".toList).isSuffixOf s = false := by
      cases hb : (".tmp".toList).isSuffixOf s with
      | false => rfl
      | true => exact absurd (List.isSuffixOf_iff_suffix.mp hb) h
    have e2 : (".tmp".toList).isSuffixOf (R ++ '/' :: s) = false := by
      cases hb : (".tmp".toList).isSuffixOf (R ++ '/' :: s) with
      | false => rfl
      | true => exact absurd (List.isSuffixOf_iff_suffix.mp hb) h'
    rw [e1, e2]

theorem gen_exclude_suffix : Gen.localListExcludeSuffix.toList = ".tmp".toList := by decide
theorem gen_slice (n : Nat) : Gen.localSliceFrom n = n + 1 := rfl

/-- **Normal form of the local listing.**  For a repository location whose pathlib form has at least one part and a prefix
whose directory part consists of valid segments, the listing is `listNF` filtered by the `.tmp` test — an expression in which
the spelling of the location does not occur. -/
theorem list_normal_form {U : Path → Prop} (hU : Universe U) {fs : FS} (hinv : Inv U fs)
    (root : List Char) (hroot : (pparse root).parts ≠ [])
    (ds : Path) (hds : ∀ s ∈ ds, validSeg s = true) (bn : List Char) (hbn : '/' ∉ bn) :
    list root fs (joinSlash (ds ++ [bn])) =
      .names ((listNF fs ds bn).filter (fun s => !(".tmp".toList).isSuffixOf s)) := by
  obtain ⟨hbase, hR⟩ := pjoin_str root hroot ds hds
  have hdsp : ∀ s ∈ ds, plainSeg s := fun s hs => plainSeg_of_valid (hds s hs)
  unfold list listNF
  rw [osSplit_normal ds hdsp bn hbn]
  simp only [relPath_joinSlash ds hds, hbase]
  by_cases hk : fs.kind ds ≠ .dir
  · simp [hk]
  · rw [if_neg hk, if_neg hk]
    have hbaseOk : EndsOk ((pparse root).str ++ slashed ds) := endsOk_append_slashed hR ds hdsp
    -- per entry
    have hentry : ∀ e ∈ (fs.entries ds).filter (fun e => bn.isPrefixOf e),
        (if fs.isDir (ds ++ [e]) then (fs.filesUnder (ds ++ [e])).map (fun sub => joinAll (osJoin ((pparse root).str ++ slashed ds) e) sub)
         else if fs.isFile (ds ++ [e]) then [osJoin ((pparse root).str ++ slashed ds) e] else [])
        = (innerNF fs ds e).map (fun s => (pparse root).str ++ '/' :: s) := by
      intro e he
      have hev : plainSeg e := plainSeg_of_valid (entry_valid hU hinv (List.mem_filter.mp he).1)
      have hj : osJoin ((pparse root).str ++ slashed ds) e = (pparse root).str ++ '/' :: joinSlash (ds ++ [e]) := by
        rw [osJoin_seg hbaseOk hev, List.append_assoc, ← slashed_eq (ds ++ [e]) (by simp), slashed_append]
        simp [slashed]
      unfold innerNF
      by_cases hd : fs.isDir (ds ++ [e]) = true
      · rw [if_pos hd, if_pos hd, List.map_map]
        apply List.map_congr_left
        intro sub hsub
        have hsv : ∀ s ∈ sub, plainSeg s := fun s hs => plainSeg_of_valid (sub_valid hU hinv hsub s hs)
        have hok : EndsOk (osJoin ((pparse root).str ++ slashed ds) e) := by
          rw [osJoin_seg hbaseOk hev]; exact endsOk_append_seg _ hev
        rw [joinAll_slashed hok sub hsv, osJoin_seg hbaseOk hev]
        simp only [Function.comp]
        rw [← slashed_eq (ds ++ e :: sub) (by simp), slashed_append, slashed_cons]
        simp
      · rw [if_neg hd, if_neg hd]
        by_cases hf : fs.isFile (ds ++ [e]) = true
        · rw [if_pos hf, if_pos hf, hj]; rfl
        · rw [if_neg hf, if_neg hf]; rfl
    rw [flatMap_congr' _ _ _ hentry, ← List.map_flatMap, List.filter_map, List.map_map]
    congr 1
    have hf : ((fun s => !(Gen.localListExcludeSuffix.toList).isSuffixOf s) ∘ fun s => (pparse root).str ++ '/' :: s)
        = fun s => !(".tmp".toList).isSuffixOf s := by
      funext s
      simp only [Function.comp, gen_exclude_suffix, tmp_suffix_join]
    rw [hf]
    have hg : ((fun s : List Char => s.drop (Gen.localSliceFrom (pparse root).str.length)) ∘ fun s => (pparse root).str ++ '/' :: s) = id := by
      funext s
      simp only [Function.comp, gen_slice, id]
      rw [show (pparse root).str ++ '/' :: s = ((pparse root).str ++ ['/']) ++ s by simp]
      exact List.drop_left' (by simp)
    rw [hg, List.map_id]

end Replicat.LocalFS
