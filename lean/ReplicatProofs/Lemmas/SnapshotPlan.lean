import ReplicatProofs.Lemmas.RepoBasic
/-! The mutation plan of `snapshot` is the command: running the chunk stage and then the snapshot stage of `snapshotPlan`
in order yields exactly the store `snapshot` returns (C03). -/
namespace Replicat.Repo
open List

def putOfName : Name → Mut
  | .chunk f c => Mut.put (.chunk f c) (.chunk f c)
  | n => Mut.del n

theorem applyMuts_append' (s : Store) (a b : List Mut) : applyMuts s (a ++ b) = applyMuts (applyMuts s a) b := by
  unfold applyMuts; rw [foldl_append]

/-- the worker loop over the stream = applying, in order, the puts of exactly the names it reports as uploaded -/
theorem foldl_uploadChunk (u : User) (stream : List Content) (st : Store) (acc : List Name) :
    ∃ new : List Name,
      (stream.foldl (uploadChunk u) (st, acc)).2 = acc ++ new ∧
      (stream.foldl (uploadChunk u) (st, acc)).1 = applyMuts st (new.map putOfName) := by
  induction stream generalizing st acc with
  | nil => exact ⟨[], by simp, by simp [applyMuts]⟩
  | cons c stream ih =>
    simp only [foldl_cons]
    by_cases h : (get st (.chunk u.fam c)).isSome = true
    · have : uploadChunk u (st, acc) c = (st, acc) := by simp [uploadChunk, h]
      rw [this]
      exact ih st acc
    · have : uploadChunk u (st, acc) c = (put st (.chunk u.fam c) (.chunk u.fam c), acc ++ [.chunk u.fam c]) := by
        simp [uploadChunk, h]
      rw [this]
      obtain ⟨new, h1, h2⟩ := ih (put st (.chunk u.fam c) (.chunk u.fam c)) (acc ++ [.chunk u.fam c])
      refine ⟨.chunk u.fam c :: new, by rw [h1]; simp, ?_⟩
      rw [h2]
      simp [applyMuts, applyMut, putOfName]

theorem snapshotPlan_eq_puts (u : User) (stream : List Content) (files : List FileRec) (ts sid : Nat) (s : Store) :
    snapshotPlan u stream files ts sid s =
      [(snapshot u stream files ts sid s).2.map putOfName,
       [Mut.put (.snap u.fam sid) (.snap u.fam sid ⟨u.key, ts, dedupKeepFirstC stream, files⟩)]] := by
  unfold snapshotPlan
  simp only
  congr 1
  apply map_congr_left
  intro n _
  cases n <;> rfl

/-- running the two stages of the snapshot plan in order is `snapshot` -/
theorem snapshotPlan_runs (u : User) (stream : List Content) (files : List FileRec) (ts sid : Nat) (s : Store) :
    applyMuts s (snapshotPlan u stream files ts sid s).flatten = (snapshot u stream files ts sid s).1 := by
  rw [snapshotPlan_eq_puts]
  simp only [flatten_cons, flatten_nil, append_nil]
  rw [applyMuts_append']
  obtain ⟨new, h1, h2⟩ := foldl_uploadChunk u stream s []
  simp only [nil_append] at h1
  unfold snapshot
  simp only
  rw [h1, ← h2]
  simp [applyMuts, applyMut]

end Replicat.Repo
