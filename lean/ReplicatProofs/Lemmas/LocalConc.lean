import ReplicatModel.LocalConc
import ReplicatProofs.Lemmas.LocalUpload
/-! Lemmas for overlapping uploads on one local backend object (C13, `LocalConc.lean`): the invariant every schedule keeps when the
temporaries of the calls are private. -/
namespace Replicat.LocalConc
open Replicat Replicat.LocalUpload

/-! ## the plan of a call, step by step -/
theorem plan_eq (c : Call) :
    c.plan = Step.mkdirP c.dir :: Step.createTemp c.tmp :: (c.pieces.map (Step.write c.tmp) ++ [Step.rename c.tmp c.dst]) := by
  simp [Call.plan, uploadSteps, prepSteps]

theorem plan_length (c : Call) : c.plan.length = c.pieces.length + 3 := by
  rw [plan_eq]; simp

theorem plan_zero (c : Call) : c.plan[0]? = some (.mkdirP c.dir) := by rw [plan_eq]; rfl
theorem plan_one (c : Call) : c.plan[1]? = some (.createTemp c.tmp) := by rw [plan_eq]; rfl

theorem plan_write (c : Call) (k : Nat) (h : k < c.pieces.length) : c.plan[k + 2]? = some (.write c.tmp c.pieces[k]) := by
  rw [plan_eq]
  simp only [List.getElem?_cons_succ]
  rw [List.getElem?_append_left (by simpa using h)]
  simp [h]

theorem plan_last (c : Call) : c.plan[c.pieces.length + 2]? = some (.rename c.tmp c.dst) := by
  rw [plan_eq]
  simp only [List.getElem?_cons_succ]
  rw [List.getElem?_append_right (by simp)]
  simp

theorem plan_none (c : Call) (k : Nat) (h : c.pieces.length + 3 ≤ k) : c.plan[k]? = none := by
  rw [List.getElem?_eq_none_iff, plan_length]; exact h

/-- every step of a call's plan: what it is -/
theorem plan_cases (c : Call) (p : Nat) (st : Step) (h : c.plan[p]? = some st) :
    (p = 0 ∧ st = .mkdirP c.dir) ∨ (p = 1 ∧ st = .createTemp c.tmp) ∨
    (∃ k, ∃ hk : k < c.pieces.length, p = k + 2 ∧ st = .write c.tmp c.pieces[k]) ∨
    (p = c.pieces.length + 2 ∧ st = .rename c.tmp c.dst) := by
  match p with
  | 0 => rw [plan_zero] at h; left; exact ⟨rfl, (Option.some.inj h).symm⟩
  | 1 => rw [plan_one] at h; right; left; exact ⟨rfl, (Option.some.inj h).symm⟩
  | k + 2 =>
    by_cases hk : k < c.pieces.length
    · rw [plan_write c k hk] at h
      right; right; left; exact ⟨k, hk, rfl, (Option.some.inj h).symm⟩
    · by_cases hk2 : k = c.pieces.length
      · subst hk2
        rw [plan_last] at h
        right; right; right; exact ⟨rfl, (Option.some.inj h).symm⟩
      · rw [plan_none c (k + 2) (by omega)] at h
        cases h

/-! ## what a step leaves alone -/
theorem lookup_apply_other (fs : FS) (tmp dst : Path) (st : Step) (t : Path) (ht : t ≠ tmp) (hd : t ≠ dst)
    (h : (∃ d, st = .mkdirP d) ∨ st = .createTemp tmp ∨ (∃ p, st = .write tmp p) ∨ st = .rename tmp dst) :
    lookup (apply fs st).files t = lookup fs.files t := by
  rcases h with ⟨d, rfl⟩ | rfl | ⟨p, rfl⟩ | rfl
  · rfl
  · simp only [apply]; exact lookup_set_other _ _ _ _ ht
  · simp only [apply]; exact lookup_set_other _ _ _ _ ht
  · simp only [apply]
    cases hl : lookup fs.files tmp with
    | none => rfl
    | some b =>
      simp only []
      rw [lookup_set_other _ _ _ _ hd, lookup_remove_other _ _ _ ht]

theorem vget_unlink_congr (fs fs' : FS) (k : Path) (h : ∀ n, vget fs n = vget fs' n) (n : Path) :
    vget (apply fs (.unlink k)) n = vget (mapApply fs' (.del k)) n := by
  have hn := h n
  unfold vget at *
  by_cases ht : isTmp n = true
  · simp [ht]
  · simp only [ht] at hn ⊢
    simp only [apply, mapApply]
    by_cases hk : n = k
    · subst hk; rw [lookup_remove_same, lookup_remove_same]
    · rw [lookup_remove_other _ _ _ hk, lookup_remove_other _ _ _ hk]; exact hn

theorem take_succ_flatten (l : List Bytes) (k : Nat) (hk : k < l.length) :
    (l.take (k + 1)).flatten = (l.take k).flatten ++ l[k] := by
  induction l generalizing k with
  | nil => simp at hk
  | cons x xs ih =>
    cases k with
    | zero => simp
    | succ k =>
      have hk' : k < xs.length := by simpa using hk
      simp only [List.take_succ_cons, List.flatten_cons, List.getElem_cons_succ]
      rw [ih k hk', List.append_assoc]

/-! ## the invariant -/
/-- (`tmp`) a call that has created its temporary and not yet renamed it finds there exactly the pieces it has written so far;
(`obs`) every name that is not a temporary reads as in the map the log denotes -/
structure Inv (calls : List Call) (fs0 : FS) (cf : Conf) : Prop where
  tmp : ∀ (i : Nat) (c : Call), calls[i]? = some c → 2 ≤ cf.pc i → cf.pc i < c.plan.length →
    lookup cf.fs.files c.tmp = some ((c.pieces.take (cf.pc i - 2)).flatten)
  obs : ∀ n, vget cf.fs n = vget (spec fs0 cf.log) n

theorem inv_init (calls : List Call) (fs0 : FS) : Inv calls fs0 (init fs0) :=
  ⟨fun _ _ _ h _ => by simp [init] at h, fun _ => rfl⟩

theorem inv_next (calls : List Call) (fs0 : FS)
    (htmp : ∀ (i : Nat) (c : Call), calls[i]? = some c → isTmp c.tmp = true) (hdst : ∀ (i : Nat) (c : Call), calls[i]? = some c → isTmp c.dst = false)
    (hpriv : privateTemps calls) (cf : Conf) (hinv : Inv calls fs0 cf) (e : Ev)
    (he : ∀ n, e = .delete n → isTmp n = false) : Inv calls fs0 (next calls cf e) := by
  cases e with
  | delete n =>
    have hn := he n rfl
    refine ⟨?_, ?_⟩
    · intro i c hc h2 hlt
      have hne : c.tmp ≠ n := by
        intro h'; rw [← h', htmp i c hc] at hn; cases hn
      simp only [next, apply]
      rw [lookup_remove_other _ _ _ hne]
      exact hinv.tmp i c hc h2 hlt
    · intro m
      simp only [next]
      exact vget_unlink_congr _ _ n hinv.obs m
  | step i =>
    simp only [next]
    cases hc : calls[i]? with
    | none => exact hinv
    | some c =>
      simp only []
      cases hst : c.plan[cf.pc i]? with
      | none => exact hinv
      | some st =>
        simp only []
        have hci := htmp i c hc
        have hdi := hdst i c hc
        have hlen := plan_length c
        -- other calls' temporaries are left alone by every step of call i
        have hother : ∀ j cj, calls[j]? = some cj → j ≠ i → lookup (apply cf.fs st).files cj.tmp = lookup cf.fs.files cj.tmp := by
          intro j cj hcj hji
          have h1 : cj.tmp ≠ c.tmp := hpriv j i cj c hcj hc hji
          have h2 : cj.tmp ≠ c.dst := by
            intro h'; have := htmp j cj hcj; rw [h', hdi] at this; cases this
          apply lookup_apply_other cf.fs c.tmp c.dst st cj.tmp h1 h2
          rcases plan_cases c _ st hst with ⟨_, rfl⟩ | ⟨_, rfl⟩ | ⟨k, hk, _, rfl⟩ | ⟨_, rfl⟩
          · exact Or.inl ⟨_, rfl⟩
          · exact Or.inr (Or.inl rfl)
          · exact Or.inr (Or.inr (Or.inl ⟨_, rfl⟩))
          · exact Or.inr (Or.inr (Or.inr rfl))
        have htmp_other : ∀ j cj, calls[j]? = some cj → j ≠ i → 2 ≤ cf.pc j → cf.pc j < cj.plan.length →
            lookup (apply cf.fs st).files cj.tmp = some ((cj.pieces.take (cf.pc j - 2)).flatten) := by
          intro j cj hcj hji h2 hlt
          rw [hother j cj hcj hji]; exact hinv.tmp j cj hcj h2 hlt
        rcases plan_cases c _ st hst with ⟨hp, rfl⟩ | ⟨hp, rfl⟩ | ⟨k, hk, hp, rfl⟩ | ⟨hp, rfl⟩
        · -- mkdir -p
          refine ⟨?_, ?_⟩
          · intro j cj hcj h2 hlt
            by_cases hji : j = i
            · subst hji; simp only [if_true, hp] at h2; omega
            · simp only [hji, if_false] at h2 hlt ⊢
              exact htmp_other j cj hcj hji h2 hlt
          · intro m
            have hne : ¬ (cf.pc i + 1 = c.plan.length) := by omega
            simp only [hne, if_false]
            rw [vget_apply_tmpOnly cf.fs c.tmp hci _ (by trivial) m]
            exact hinv.obs m
        · -- create the temporary
          refine ⟨?_, ?_⟩
          · intro j cj hcj h2 hlt
            by_cases hji : j = i
            · subst hji
              rw [hc] at hcj; cases hcj
              simp only [if_true, hp]
              simp only [apply]
              rw [lookup_set_same]; rfl
            · simp only [hji, if_false] at h2 hlt ⊢
              exact htmp_other j cj hcj hji h2 hlt
          · intro m
            have hne : ¬ (cf.pc i + 1 = c.plan.length) := by omega
            simp only [hne, if_false]
            rw [vget_apply_tmpOnly cf.fs c.tmp hci _ (by rfl) m]
            exact hinv.obs m
        · -- write one piece
          refine ⟨?_, ?_⟩
          · intro j cj hcj h2 hlt
            by_cases hji : j = i
            · subst hji
              rw [hc] at hcj; cases hcj
              simp only [if_true, hp]
              have hold := hinv.tmp j c hc (by omega) (by omega)
              rw [hp] at hold
              simp only [apply, hold, Option.getD_some]
              rw [lookup_set_same]
              have : k + 2 + 1 - 2 = k + 1 := by omega
              rw [this, take_succ_flatten _ _ hk]
              simp
            · simp only [hji, if_false] at h2 hlt ⊢
              exact htmp_other j cj hcj hji h2 hlt
          · intro m
            have hne : ¬ (cf.pc i + 1 = c.plan.length) := by omega
            simp only [hne, if_false]
            rw [vget_apply_tmpOnly cf.fs c.tmp hci _ (by rfl) m]
            exact hinv.obs m
        · -- rename over the destination: the linearisation point
          have hold := hinv.tmp i c hc (by omega) (by omega)
          rw [hp] at hold
          have hdata : (c.pieces.take (c.pieces.length + 2 - 2)).flatten = c.data := by
            have : c.pieces.length + 2 - 2 = c.pieces.length := by omega
            rw [this, List.take_length]; rfl
          rw [hdata] at hold
          refine ⟨?_, ?_⟩
          · intro j cj hcj h2 hlt
            by_cases hji : j = i
            · subst hji
              rw [hc] at hcj; cases hcj
              simp only [if_true] at hlt
              omega
            · simp only [hji, if_false] at h2 hlt ⊢
              exact htmp_other j cj hcj hji h2 hlt
          · intro m
            have heq : cf.pc i + 1 = c.plan.length := by omega
            simp only [heq, if_true]
            rw [vget_rename cf.fs c.tmp c.dst c.data hci hdi hold m]
            exact vget_putObj_congr _ _ _ _ hinv.obs m

theorem inv_run (calls : List Call) (fs0 : FS)
    (htmp : ∀ (i : Nat) (c : Call), calls[i]? = some c → isTmp c.tmp = true) (hdst : ∀ (i : Nat) (c : Call), calls[i]? = some c → isTmp c.dst = false)
    (hpriv : privateTemps calls) (evs : List Ev) (cf : Conf) (hinv : Inv calls fs0 cf) (hdel : deletesOk evs) :
    Inv calls fs0 (run calls cf evs) := by
  unfold run
  induction evs generalizing cf with
  | nil => exact hinv
  | cons e es ih =>
    simp only [List.foldl_cons]
    apply ih
    · exact inv_next calls fs0 htmp hdst hpriv cf hinv e (fun n hn => hdel n (by simp [hn]))
    · intro n hn; exact hdel n (by simp [hn])

/-! ## the log only holds complete payloads of the calls, and deletes -/
/-- every `put` of the log is the destination and the WHOLE payload of one of the calls -/
def LogFromCalls (calls : List Call) (log : List MapOp) : Prop :=
  ∀ n d, MapOp.put n d ∈ log → ∃ c ∈ calls, c.dst = n ∧ c.data = d

theorem log_next (calls : List Call) (cf : Conf) (h : LogFromCalls calls cf.log) (e : Ev) : LogFromCalls calls (next calls cf e).log := by
  cases e with
  | delete n =>
    intro m d hm
    simp only [next, List.mem_cons] at hm
    rcases hm with hm | hm
    · cases hm
    · exact h m d hm
  | step i =>
    simp only [next]
    cases hc : calls[i]? with
    | none => exact h
    | some c =>
      simp only []
      cases hst : c.plan[cf.pc i]? with
      | none => exact h
      | some st =>
        simp only []
        by_cases heq : cf.pc i + 1 = c.plan.length
        · simp only [heq, if_true]
          intro m d hm
          simp only [List.mem_cons] at hm
          rcases hm with hm | hm
          · cases hm
            exact ⟨c, List.mem_of_getElem? hc, rfl, rfl⟩
          · exact h m d hm
        · simp only [heq, if_false]; exact h

theorem log_run (calls : List Call) (evs : List Ev) (cf : Conf) (h : LogFromCalls calls cf.log) :
    LogFromCalls calls (run calls cf evs).log := by
  unfold run
  induction evs generalizing cf with
  | nil => exact h
  | cons e es ih => simp only [List.foldl_cons]; exact ih _ (log_next calls cf h e)

/-- what a name reads as in the map a log denotes: the initial value, nothing (deleted), or the payload of one of the log's puts to
that name -/
theorem spec_lookup (fs0 : FS) (log : List MapOp) (n : Path) :
    lookup (spec fs0 log).files n = lookup fs0.files n ∨ lookup (spec fs0 log).files n = none ∨
    ∃ d, MapOp.put n d ∈ log ∧ lookup (spec fs0 log).files n = some d := by
  induction log with
  | nil => left; rfl
  | cons op log ih =>
    cases op with
    | put k d =>
      by_cases hk : n = k
      · subst hk
        right; right
        refine ⟨d, by simp, ?_⟩
        simp only [spec, List.foldr_cons, mapApply, putObj]
        exact lookup_set_same _ _ _
      · have : lookup (spec fs0 (MapOp.put k d :: log)).files n = lookup (spec fs0 log).files n := by
          simp only [spec, List.foldr_cons, mapApply, putObj]
          exact lookup_set_other _ _ _ _ hk
        rw [this]
        rcases ih with h | h | ⟨d', hd', h⟩
        · exact Or.inl h
        · exact Or.inr (Or.inl h)
        · exact Or.inr (Or.inr ⟨d', by simp [hd'], h⟩)
    | del k =>
      by_cases hk : n = k
      · subst hk
        right; left
        simp only [spec, List.foldr_cons, mapApply]
        exact lookup_remove_same _ _
      · have : lookup (spec fs0 (MapOp.del k :: log)).files n = lookup (spec fs0 log).files n := by
          simp only [spec, List.foldr_cons, mapApply]
          exact lookup_remove_other _ _ _ hk
        rw [this]
        rcases ih with h | h | ⟨d', hd', h⟩
        · exact Or.inl h
        · exact Or.inr (Or.inl h)
        · exact Or.inr (Or.inr ⟨d', by simp [hd'], h⟩)

end Replicat.LocalConc
