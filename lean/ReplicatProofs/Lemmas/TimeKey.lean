import ReplicatModel.TimeKey
import ReplicatModel.Repo
/-!
Helper lemmas for the time-zone theorems of C15: zone-free keys order like the UTC value under every zone; the two
zone-dependent kinds do not (witnesses), although `localEpoch` does under every FIXED offset — which is why only zones with
daylight-saving transitions expose it.
-/
namespace Replicat.TimeKey
open Replicat Replicat.Repo

theorem sortKey_of_zoneFree {k : KeyKind} (h : k.zoneFree = true) (loc : Zone) (t : Int) : sortKey k loc t = t := by
  cases k <;> simp [KeyKind.zoneFree] at h <;> rfl

theorem sortKey_unrecognised (loc : Zone) (t : Int) : sortKey .unrecognised loc t = t := rfl

/-- zone-free keys are strictly increasing in the UTC value, whatever the zone -/
theorem sortKey_strictMono {k : KeyKind} (h : k.zoneFree = true) (loc : Zone) {t₁ t₂ : Int} (hlt : t₁ < t₂) :
    sortKey k loc t₁ < sortKey k loc t₂ := by
  rw [sortKey_of_zoneFree h, sortKey_of_zoneFree h]; exact hlt

/-- the comparison `restore` / `list_files` sort with, when the key has kind `k` and the process lives in zone `loc` -/
def bodyGE (k : KeyKind) (loc : Zone) (a b : Body) : Bool := decide (sortKey k loc b.ts ≤ sortKey k loc a.ts)

/-- the comparison `list_snapshots` sorts with (rows without details carry no timestamp and sort last) -/
def rowKeyGE (k : KeyKind) (loc : Zone) (a b : SnapRow) : Bool :=
  decide (sortKey k loc ((b.ts.getD 0 : Nat) : Int) ≤ sortKey k loc ((a.ts.getD 0 : Nat) : Int))

theorem bodyGE_eq_tsGE {k : KeyKind} (h : k.zoneFree = true) (loc : Zone) : bodyGE k loc = tsGE := by
  funext a b
  simp [bodyGE, tsGE, sortKey_of_zoneFree h]

theorem rowKeyGE_eq_rowGE {k : KeyKind} (h : k.zoneFree = true) (loc : Zone) : rowKeyGE k loc = rowGE := by
  funext a b
  simp [rowKeyGE, rowGE, sortKey_of_zoneFree h]

/-- under a FIXED offset the re-read-as-local key is the UTC value shifted by a constant: no misordering without DST -/
theorem pyMktime_fixed_offset (c t : Int) : pyMktime (fun u => u + c) t = t - c := by
  have h1 : t - (t + c - t) + c = t := by omega
  simp [pyMktime, h1]
  omega

/-- a zone that springs forward by one hour at epoch second 100000 (wall clock 100000 … 103599 does not exist) -/
def springZone : Zone := stepZone 100000 0 3600
/-- a zone that falls back by one hour at epoch second 100000 (wall clock 100000 … 103599 exists twice) -/
def fallZone : Zone := stepZone 100000 3600 0
/-- US Eastern around 2024-03-10 07:00:00Z (epoch 1710054000): UTC−5 before, UTC−4 after -/
def easternMarch2024 : Zone := stepZone 1710054000 (-18000) (-14400)

/-- `naive.timestamp()` as a key misorders: the older value lies in the skipped hour, the newer one less than an hour later -/
theorem localEpoch_misorders : (101800 : Int) < 104200 ∧ sortKey .localEpoch springZone 104200 < sortKey .localEpoch springZone 101800 := by
  decide

/-- the demonstration's numbers: 2024-03-10 02:45:00 and 03:10:00 (UTC values) under US Eastern are taken for 07:45Z and 07:10Z -/
theorem localEpoch_misorders_eastern :
    sortKey .localEpoch easternMarch2024 1710038700 = 1710056700 ∧ sortKey .localEpoch easternMarch2024 1710040200 = 1710054600 := by
  decide

/-- the local wall clock as a key (or as the recorded value) misorders across the fall-back instant -/
theorem localWall_misorders : (99000 : Int) < 100500 ∧ sortKey .localWall fallZone 100500 < sortKey .localWall fallZone 99000 := by
  decide

end Replicat.TimeKey
