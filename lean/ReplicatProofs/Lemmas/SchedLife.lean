import ReplicatProofs.Lemmas.Sched
/-!
Helper lemmas for C09, system S1′ (slot requests from threads vs. the life of the event loop).
-/
namespace Replicat.Sched

/-- slots are conserved; nothing is lost while the loop runs; the loop stops only after the operation returned -/
structure LifeInv (n : Nat) (σ : Life) : Prop where
  cons : σ.free + σ.held + σ.lost = n
  nolost : σ.closed = false → σ.lost = 0
  closed_ret : σ.closed = true → σ.returned = true

theorem life_init_inv (n jobs : Nat) : LifeInv n (Life.init n jobs) := by
  refine ⟨?_, ?_, ?_⟩ <;> simp [Life.init]

theorem life_step_inv (joins : Bool) (n : Nat) (σ : Life) (e : LifeEv) (σ' : Life)
    (h : LifeInv n σ) (hs : Life.step joins σ e = some σ') : LifeInv n σ' := by
  obtain ⟨hc, hl, hr⟩ := h
  cases e <;> simp only [Life.step] at hs
  · split at hs <;> cases hs; exact ⟨hc, hl, hr⟩
  · split at hs
    · rename_i hg
      cases hs
      exact ⟨by simp only; omega, hl, hr⟩
    · cases hs
  · split at hs
    · split at hs
      · rename_i hcl
        cases hs
        refine ⟨by simp only; omega, ?_, hr⟩
        intro h; simp only at h; rw [hcl] at h; cases h
      · rename_i hcl
        cases hs
        refine ⟨by simp only; omega, ?_, hr⟩
        intro _; exact hl (by simpa using hcl)
    · cases hs
  · split at hs <;> cases hs; exact ⟨hc, hl, hr⟩
  · split at hs
    · cases hs
    · split at hs
      · cases hs; exact ⟨hc, hl, fun _ => rfl⟩
      · split at hs
        · cases hs; exact ⟨hc, hl, fun _ => rfl⟩
        · cases hs
  · split at hs <;> cases hs; exact ⟨hc, hl, hr⟩
  · split at hs
    · rename_i hg
      cases hs
      refine ⟨hc, ?_, fun _ => hg.1⟩
      intro h; cases h
    · cases hs

/-- with `joins`, the operation has returned only if nothing is queued, waiting or held — and that stays so -/
def Settled (σ : Life) : Prop := σ.returned = true → σ.queued = 0 ∧ σ.waiting = 0 ∧ σ.held = 0

theorem life_step_settled (σ : Life) (e : LifeEv) (σ' : Life) (h : Settled σ) (hs : Life.step true σ e = some σ') : Settled σ' := by
  unfold Settled at *
  cases e <;> simp only [Life.step] at hs
  · split at hs
    · rename_i hq
      cases hs
      intro hr
      have := h hr
      omega
    · cases hs
  · split at hs
    · rename_i hg
      cases hs
      intro hr
      have := h hr
      omega
    · cases hs
  · split at hs
    · rename_i hh
      split at hs <;> cases hs <;> intro hr <;> have := h hr <;> omega
    · cases hs
  · split at hs
    · rename_i hg
      cases hs
      intro hr
      simp only at hr
      have := hg.2.2
      rw [hr] at this; cases this
    · cases hs
  · split at hs
    · cases hs
    · split at hs
      · rename_i hz
        cases hs
        intro _; exact hz
      · split at hs
        · rename_i hf
          simp at hf
        · cases hs
  · split at hs
    · rename_i hg
      cases hs
      intro hr
      have := h hg.1
      omega
    · cases hs
  · split at hs
    · cases hs; exact h
    · cases hs

/-- once the loop has stopped, a blocked thread stays blocked -/
theorem life_step_stuck (joins : Bool) (σ : Life) (e : LifeEv) (σ' : Life) (hc : σ.closed = true)
    (hs : Life.step joins σ e = some σ') : σ'.closed = true ∧ σ.waiting ≤ σ'.waiting := by
  cases e <;> simp only [Life.step] at hs
  · split at hs <;> cases hs; exact ⟨hc, by simp only; omega⟩
  · split at hs
    · rename_i hg; rw [hc] at hg; simp at hg
    · cases hs
  · split at hs
    · simp only [hc] at hs
      cases hs; exact ⟨rfl, Nat.le_refl _⟩
    · cases hs
  · split at hs <;> cases hs; exact ⟨hc, Nat.le_refl _⟩
  · split at hs
    · cases hs
    · split at hs
      · cases hs; exact ⟨hc, Nat.le_refl _⟩
      · split at hs
        · cases hs; exact ⟨hc, Nat.le_refl _⟩
        · cases hs
  · split at hs
    · rename_i hg; rw [hc] at hg; simp at hg
    · cases hs
  · split at hs
    · rename_i hg; rw [hc] at hg; simp at hg
    · cases hs

/-- without a failure the operation returns only when everything is done, whatever `joins` says -/
def SettledOk (σ : Life) : Prop := σ.returned = true → σ.failed = false → σ.queued = 0 ∧ σ.waiting = 0 ∧ σ.held = 0

theorem life_step_settledOk (joins : Bool) (σ : Life) (e : LifeEv) (σ' : Life) (h : SettledOk σ)
    (hs : Life.step joins σ e = some σ') : SettledOk σ' := by
  unfold SettledOk at *
  cases e <;> simp only [Life.step] at hs
  · split at hs
    · cases hs
      intro hr hf
      have := h hr hf
      omega
    · cases hs
  · split at hs
    · cases hs
      intro hr hf
      have := h hr hf
      omega
    · cases hs
  · split at hs
    · split at hs <;> cases hs <;> intro hr hf <;> simp only [Bool.or_eq_false_iff] at hf <;> have := h hr hf.1 <;> omega
    · cases hs
  · split at hs
    · rename_i hg
      cases hs
      intro hr
      simp only at hr
      have := hg.2.2
      rw [hr] at this; cases this
    · cases hs
  · split at hs
    · cases hs
    · split at hs
      · rename_i hz
        cases hs
        intro _ _; exact hz
      · split at hs
        · rename_i hf
          cases hs
          intro _ hf'
          simp only at hf'
          rw [hf'] at hf; simp at hf
        · cases hs
  · split at hs
    · cases hs
      intro _ hf; cases hf
    · cases hs
  · split at hs
    · cases hs; exact h
    · cases hs

end Replicat.Sched
