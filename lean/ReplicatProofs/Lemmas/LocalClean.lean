import ReplicatModel.LocalClean
import ReplicatProofs.Lemmas.LocalList
import ReplicatProofs.Lemmas.Store
/-! Helper lemmas for C08 on the local backend: the sweep of `Local.clean` as a sequence of `rmdir`s.

`runPlan_postorder`: ANY order of the file-less directories in which no directory precedes a directory below it (what the
recursive generator `_find_deletable` produces, whatever order `os.scandir` reports entries in) runs without `ENOTEMPTY` and
removes exactly those directories; `plan_postorder`: the model's own order is one of them. -/
namespace Replicat.LocalClean
open Replicat Replicat.Store Replicat.LocalFS

theorem below_length {d p : Path} (h : below d p = true) : d.length < p.length := by
  simp only [below, Bool.and_eq_true, decide_eq_true_eq] at h
  exact h.2

theorem below_ne {d p : Path} (h : below d p = true) : p ≠ d := by
  intro e
  have := below_length h
  rw [e] at this
  exact Nat.lt_irrefl _ this

theorem below_prefix {d p : Path} (h : below d p = true) : d <+: p := by
  simp only [below, Bool.and_eq_true, decide_eq_true_eq] at h
  exact List.isPrefixOf_iff_prefix.mp h.1

theorem below_trans {a b c : Path} (h1 : below a b = true) (h2 : below b c = true) : below a c = true := by
  simp only [below, Bool.and_eq_true, decide_eq_true_eq] at *
  exact ⟨List.isPrefixOf_iff_prefix.mpr ((List.isPrefixOf_iff_prefix.mp h1.1).trans (List.isPrefixOf_iff_prefix.mp h2.1)), by omega⟩

theorem hasFileBelow_trans {fs : FS} {a b : Path} (h1 : below a b = true) (h2 : hasFileBelow fs b = true) : hasFileBelow fs a = true := by
  simp only [hasFileBelow, List.any_eq_true] at *
  obtain ⟨e, he, hb⟩ := h2
  exact ⟨e, he, below_trans h1 hb⟩

/-- the order-independent description of what the walk yields with the flag set -/
structure PostOrder (fs : FS) (l : List Path) : Prop where
  nodup : l.Nodup
  isDir : ∀ d ∈ l, d ∈ fs.dirs
  fileless : ∀ d ∈ l, hasFileBelow fs d = false
  closed : ∀ d ∈ l, ∀ p ∈ fs.dirs, below d p = true → p ∈ l
  order : l.Pairwise (fun a b => below a b = false)

theorem runPlan_postorder (l : List Path) : ∀ (fs : FS), PostOrder fs l →
    runPlan fs l = .ok { fs with dirs := fs.dirs.filter (fun p => p ∉ l) } := by
  induction l with
  | nil =>
    intro fs _
    simp [runPlan]
  | cons d l ih =>
    intro fs h
    have hd : d ∈ fs.dirs := h.isDir d (List.mem_cons_self ..)
    have hf : hasFileBelow fs d = false := h.fileless d (List.mem_cons_self ..)
    have hnd : d ∉ l := (List.nodup_cons.mp h.nodup).1
    have hb : hasDirBelow fs d = false := by
      cases hq : hasDirBelow fs d with
      | false => rfl
      | true =>
        exfalso
        simp only [hasDirBelow, List.any_eq_true] at hq
        obtain ⟨p, hp, hbel⟩ := hq
        have hm := h.closed d (List.mem_cons_self ..) p hp hbel
        rcases List.mem_cons.mp hm with e | hm
        · exact below_ne hbel e
        · have := (List.pairwise_cons.mp h.order).1 p hm
          rw [hbel] at this
          exact Bool.noConfusion this
    have hr : rmdir fs d = .ok { fs with dirs := fs.dirs.filter (fun p => p ≠ d) } := by
      simp [rmdir, hd, hf, hb]
    have hpo : PostOrder { fs with dirs := fs.dirs.filter (fun p => p ≠ d) } l := by
      refine ⟨(List.nodup_cons.mp h.nodup).2, ?_, ?_, ?_, (List.pairwise_cons.mp h.order).2⟩
      · intro e he
        have h1 := h.isDir e (List.mem_cons_of_mem _ he)
        have h2 : e ≠ d := fun eq => hnd (eq ▸ he)
        simp [List.mem_filter, h1, h2]
      · intro e he
        exact h.fileless e (List.mem_cons_of_mem _ he)
      · intro e he p hp hbel
        simp only [List.mem_filter, decide_eq_true_eq] at hp
        rcases List.mem_cons.mp (h.closed e (List.mem_cons_of_mem _ he) p hp.1 hbel) with e1 | hm
        · exact absurd e1 hp.2
        · exact hm
    simp only [runPlan, hr]
    rw [ih _ hpo]
    simp only [List.filter_filter]
    congr 2
    apply List.filter_congr
    intro p _
    by_cases h1 : p = d <;> by_cases h2 : p ∈ l <;> simp [h1, h2, hnd]

theorem insertDeeper_perm (d : Path) (l : List Path) : (insertDeeper d l).Perm (d :: l) := by
  induction l with
  | nil => exact List.Perm.refl _
  | cons x xs ih =>
    unfold insertDeeper
    split
    · exact List.Perm.refl _
    · exact (List.Perm.cons x ih).trans (List.Perm.swap d x xs)

theorem sortDeeper_perm (l : List Path) : (sortDeeper l).Perm l := by
  induction l with
  | nil => exact List.Perm.refl _
  | cons a l ih =>
    show (insertDeeper a (sortDeeper l)).Perm (a :: l)
    exact (insertDeeper_perm a _).trans (List.Perm.cons a ih)

theorem insertDeeper_sorted (d : Path) (l : List Path) (h : l.Pairwise (fun a b => b.length ≤ a.length)) :
    (insertDeeper d l).Pairwise (fun a b => b.length ≤ a.length) := by
  induction l with
  | nil => simp [insertDeeper]
  | cons x xs ih =>
    have hx := List.pairwise_cons.mp h
    unfold insertDeeper
    split
    · rename_i hle
      refine List.pairwise_cons.mpr ⟨?_, h⟩
      intro b hb
      rcases List.mem_cons.mp hb with e | hb
      · subst e; exact hle
      · exact Nat.le_trans (hx.1 b hb) hle
    · rename_i hle
      refine List.pairwise_cons.mpr ⟨?_, ih hx.2⟩
      intro b hb
      rcases List.mem_cons.mp ((insertDeeper_perm d xs).mem_iff.mp hb) with e | hb
      · subst e; omega
      · exact hx.1 b hb

theorem sortDeeper_sorted (l : List Path) : (sortDeeper l).Pairwise (fun a b => b.length ≤ a.length) := by
  induction l with
  | nil => simp [sortDeeper]
  | cons a l ih => exact insertDeeper_sorted a _ ih

theorem mem_plan (fs : FS) (d : Path) : d ∈ plan fs ↔ d ∈ fs.dirs ∧ d ≠ [] ∧ hasFileBelow fs d = false := by
  unfold plan
  rw [(sortDeeper_perm _).mem_iff, mem_dedup, List.mem_filter]
  simp [flagged]

theorem plan_postorder (fs : FS) : PostOrder fs (plan fs) := by
  refine ⟨?_, ?_, ?_, ?_, ?_⟩
  · unfold plan
    exact (sortDeeper_perm _).nodup_iff.mpr (nodup_dedup _)
  · intro d hd; exact ((mem_plan fs d).mp hd).1
  · intro d hd; exact ((mem_plan fs d).mp hd).2.2
  · intro d hd p hp hbel
    have h := (mem_plan fs d).mp hd
    refine (mem_plan fs p).mpr ⟨hp, ?_, ?_⟩
    · intro e
      have := below_length hbel
      rw [e] at this
      exact Nat.not_lt_zero _ this
    · cases hq : hasFileBelow fs p with
      | false => rfl
      | true =>
        have := hasFileBelow_trans hbel hq
        rw [h.2.2] at this
        exact Bool.noConfusion this
  · unfold plan
    refine (sortDeeper_sorted _).imp ?_
    intro a b hab
    cases hq : below a b with
    | false => rfl
    | true =>
      have := below_length hq
      omega

/-- with the extracted shape of the code, `Local.clean()` succeeds and removes exactly the planned directories -/
theorem clean_eq (fs : FS) (hrec : recognised = true) :
    clean fs = .ok { fs with dirs := fs.dirs.filter (fun p => p ∉ plan fs) } := by
  unfold clean
  rw [if_pos hrec, runPlan_postorder _ _ (plan_postorder fs)]

/-- erasing files one after the other: a path that is not erased keeps its content -/
theorem get_foldl_erase (dels : List Path) : ∀ (fs : FS) (q : Path), q ∉ dels → (dels.foldl FS.erase fs).get q = fs.get q := by
  induction dels with
  | nil => intro fs q _; rfl
  | cons d l ih =>
    intro fs q hq
    simp only [List.mem_cons, not_or] at hq
    simp only [List.foldl_cons]
    rw [ih _ q hq.2]
    exact alookup_aerase_ne fs.files d q hq.1

theorem dirs_foldl_erase (dels : List Path) : ∀ (fs : FS), (dels.foldl FS.erase fs).dirs = fs.dirs := by
  induction dels with
  | nil => intro fs; rfl
  | cons d l ih => intro fs; simp only [List.foldl_cons]; rw [ih]; rfl

theorem alookup_mem {κ β : Type} [DecidableEq κ] (l : List (κ × β)) (k : κ) (v : β) (h : alookup l k = some v) : (k, v) ∈ l := by
  induction l with
  | nil => simp [alookup] at h
  | cons a l ih =>
    obtain ⟨k', v'⟩ := a
    by_cases e : k' = k
    · subst e
      simp [alookup] at h
      subst h
      exact List.mem_cons_self ..
    · simp [alookup, e] at h
      exact List.mem_cons_of_mem _ (ih h)

end Replicat.LocalClean
