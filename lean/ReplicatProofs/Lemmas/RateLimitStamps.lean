import ReplicatProofs.Lemmas.RateLimitMulti
/-!
Helper lemmas (core Lean only): relation between the two observation points of a call —
`tPre` (the bytes crossed the underlying stream) and `tRel` (the wrapper call returned).
At any instant every thread has at most one call between the two, so a window counted at `tPre`
carries at most `N · dmax` bytes more than the same window counted at `tRel`.
-/
namespace Replicat.RateLimit
open Replicat

/-- a thread's next call starts only after its previous call returned -/
theorem run_stream_order (L : Rat) (hL : 0 < L) (eps : Rat) (dmax : Nat) (evs : List Ev) (s : St)
    (hev : ∀ e ∈ evs, EvOk L eps dmax e) (hs : Inv eps s) :
    (∀ o ∈ (run L s evs).2, s.clk o.stream ≤ o.tPre) ∧
    List.Pairwise (fun o o' => o.stream = o'.stream → o.tRel ≤ o'.tPre) (run L s evs).2 := by
  induction evs generalizing s with
  | nil => simp [run]
  | cons e es ih =>
    have hes : ∀ e ∈ es, EvOk L eps dmax e := fun e he => hev e (by simp [he])
    rw [run_cons]
    cases e with
    | idle i dt =>
      have hdt : 0 ≤ dt := hev (.idle i dt) (by simp)
      have := ih ⟨s.debt, s.lockFree, upd s.clk i (s.clk i + dt)⟩ hes hs
      simp only [step, Option.toList_none, List.nil_append]
      refine ⟨fun o ho => ?_, this.2⟩
      have h1 := this.1 o ho
      simp only [upd] at h1
      split at h1
      · rename_i h; rw [h]; grind
      · exact h1
    | io i b lat ov =>
      obtain ⟨o, ho, hg, hd, hl, hst, _, hlat, hpre, hacq, hclk⟩ := step_io_good L hL eps dmax s i b lat ov (hev _ (by simp)) hs
      have hinv : Inv eps (step L s (.io i b lat ov)).1 := by
        unfold Inv; rw [hd]; exact ⟨hg.debt_lo, hg.debt_hi⟩
      have := ih _ hes hinv
      rw [hclk] at this
      have hlat0 : 0 ≤ lat := (hev (.io i b lat ov) (by simp)).2.2.1
      have hmono : s.clk i ≤ o.tRel := by
        have := hg.rel; have := hg.slept_nonneg; have := hg.pre
        rw [hpre] at *; grind
      rw [ho]
      simp only [Option.toList_some, List.cons_append, List.nil_append, List.mem_cons, forall_eq_or_imp, List.pairwise_cons]
      refine ⟨⟨by rw [hst, hpre]; grind, fun o' ho' => ?_⟩, fun o' ho' hs' => ?_, this.2⟩
      · have h1 := this.1 o' ho'
        simp only [upd] at h1
        split at h1
        · rename_i h; rw [h]; grind
        · exact h1
      · have h1 := this.1 o' ho'
        simp only [upd] at h1
        rw [hst] at hs'
        simp only [← hs', if_true] at h1
        exact h1

theorem run_obs_stream (L : Rat) (evs : List Ev) (s : St) :
    ∀ o ∈ (run L s evs).2, ∃ e ∈ evs, e.stream = o.stream := by
  induction evs generalizing s with
  | nil => simp [run]
  | cons e es ih =>
    rw [run_cons]
    intro o ho
    rcases List.mem_append.mp ho with h | h
    · cases e with
      | idle i dt => simp [step] at h
      | io i b lat ov =>
        simp only [step, Option.toList_some, List.mem_singleton] at h
        exact ⟨.io i b lat ov, by simp, by rw [h]; rfl⟩
    · obtain ⟨e', he', hs'⟩ := ih _ o h
      exact ⟨e', by simp [he'], hs'⟩

theorem sumBytes_le_length (l : List Obs) (dmax : Nat) (h : ∀ o ∈ l, o.bytes ≤ dmax) :
    sumBytes l ≤ (l.length : Rat) * dmax := by
  induction l with
  | nil => simp [sumBytes]
  | cons o r ih =>
    rw [sumBytes_cons]
    have h1 : (o.bytes : Rat) ≤ dmax := by exact_mod_cast h o (by simp)
    have h2 := ih (fun o ho => h o (by simp [ho]))
    have : ((o :: r).length : Rat) = (r.length : Rat) + 1 := by simp
    rw [this]; grind

/-- the calls "in flight" at time `b` (bytes moved, call not yet returned) carry at most `N · dmax` bytes -/
theorem inflight_le (l : List Obs) (N dmax : Nat) (b : Rat)
    (hp : List.Pairwise (fun o o' => o.stream = o'.stream → o.tRel ≤ o'.tPre) l)
    (hN : ∀ o ∈ l, o.stream < N) (hsm : ∀ o ∈ l, o.bytes ≤ dmax) :
    sumBytes (l.filter (fun o => decide (o.tPre ≤ b) && decide (b < o.tRel))) ≤ (N : Rat) * dmax := by
  let S := l.filter (fun o => decide (o.tPre ≤ b) && decide (b < o.tRel))
  have hnodup : (S.map (·.stream)).Nodup := by
    unfold List.Nodup
    rw [List.pairwise_map, List.pairwise_filter]
    refine hp.imp ?_
    intro o o' hr h1 h2 heq
    simp only [Bool.and_eq_true, decide_eq_true_eq] at h1 h2
    have := hr heq
    grind
  have hsub : S.map (·.stream) ⊆ List.range N := by
    intro x hx
    obtain ⟨o, ho, rfl⟩ := List.mem_map.mp hx
    exact List.mem_range.mpr (hN o (List.mem_filter.mp ho).1)
  have hlen : S.length ≤ N := by
    have := hnodup.length_le_of_subset hsub
    simpa using this
  have h1 := sumBytes_le_length S dmax (fun o ho => hsm o (List.mem_filter.mp ho).1)
  have h2 : (S.length : Rat) ≤ N := by exact_mod_cast hlen
  have h3 : (0 : Rat) ≤ dmax := by exact_mod_cast Nat.zero_le _
  have h4 := Rat.mul_le_mul_of_nonneg_right h2 h3
  show sumBytes S ≤ _
  grind

/-- a window counted at `tPre` versus the same window counted at `tRel` -/
theorem winBytes_pre_le (l : List Obs) (a b : Rat) (hle : ∀ o ∈ l, o.tPre ≤ o.tRel) :
    winBytes (·.tPre) a b l ≤ winBytes (·.tRel) a b l +
      sumBytes (l.filter (fun o => decide (o.tPre ≤ b) && decide (b < o.tRel))) := by
  induction l with
  | nil => simp [winBytes, sumBytes, Rat.add_zero]
  | cons o r ih =>
    have h := ih (fun o ho => hle o (by simp [ho]))
    have ho := hle o (by simp)
    have hb : (0 : Rat) ≤ o.bytes := by exact_mod_cast Nat.zero_le _
    have hf : sumBytes ((o :: r).filter (fun o => decide (o.tPre ≤ b) && decide (b < o.tRel))) =
        (if o.tPre ≤ b ∧ b < o.tRel then (o.bytes : Rat) else 0) +
          sumBytes (r.filter (fun o => decide (o.tPre ≤ b) && decide (b < o.tRel))) := by
      rw [List.filter_cons]
      by_cases hc : o.tPre ≤ b ∧ b < o.tRel
      · simp [hc, sumBytes_cons]
      · have : ¬ ((decide (o.tPre ≤ b) && decide (b < o.tRel)) = true) := by simpa using hc
        simp [this, hc, Rat.zero_add]
    rw [winBytes_cons, winBytes_cons, hf]
    generalize winBytes (fun x => x.tPre) a b r = W1 at h ⊢
    generalize winBytes (fun x => x.tRel) a b r = W2 at h ⊢
    generalize sumBytes (r.filter (fun o => decide (o.tPre ≤ b) && decide (b < o.tRel))) = W3 at h ⊢
    generalize (o.bytes : Rat) = ob at hb ⊢
    generalize o.tPre = tp at ho ⊢
    generalize o.tRel = tr at ho ⊢
    by_cases p1 : a ≤ tp ∧ tp ≤ b <;> by_cases p2 : a ≤ tr ∧ tr ≤ b <;> by_cases p3 : tp ≤ b ∧ b < tr <;>
      simp only [p1, p2, p3, if_false] <;> grind

end Replicat.RateLimit
