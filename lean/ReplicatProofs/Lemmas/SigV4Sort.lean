import ReplicatModel.SigV4
/-! Ordering / sorting lemmas for C16: `bytesLt` is a strict total order, `sortPairs` sorts and permutes. -/
namespace Replicat.SigV4

theorem bytesLt_irrefl (a : Bytes) : bytesLt a a = false := by
  induction a with
  | nil => rfl
  | cons x xs ih => simp [bytesLt, ih]

theorem bytesLt_trans : ∀ (a b c : Bytes), bytesLt a b = true → bytesLt b c = true → bytesLt a c = true
  | [], [], _, h, _ => by simp [bytesLt] at h
  | [], _ :: _, [], _, h => by simp [bytesLt] at h
  | [], _ :: _, _ :: _, _, _ => by simp [bytesLt]
  | _ :: _, [], _, h, _ => by simp [bytesLt] at h
  | _ :: _, _ :: _, [], _, h => by simp [bytesLt] at h
  | x :: xs, y :: ys, z :: zs, h1, h2 => by
    simp only [bytesLt, Bool.or_eq_true, decide_eq_true_eq, Bool.and_eq_true, beq_iff_eq] at h1 h2 ⊢
    rcases h1 with h1 | ⟨rfl, h1⟩
    · rcases h2 with h2 | ⟨rfl, _⟩
      · exact Or.inl (UInt8.lt_trans h1 h2)
      · exact Or.inl h1
    · rcases h2 with h2 | ⟨rfl, h2⟩
      · exact Or.inl h2
      · exact Or.inr ⟨rfl, bytesLt_trans xs ys zs h1 h2⟩

/-- trichotomy -/
theorem bytesLt_total : ∀ (a b : Bytes), bytesLt a b = false → bytesLt b a = false → a = b
  | [], [], _, _ => rfl
  | [], _ :: _, h, _ => by simp [bytesLt] at h
  | _ :: _, [], _, h => by simp [bytesLt] at h
  | x :: xs, y :: ys, h1, h2 => by
    simp only [bytesLt, Bool.or_eq_false_iff, decide_eq_false_iff_not, Bool.and_eq_false_iff, beq_eq_false_iff_ne, ne_eq] at h1 h2
    have hxy : x = y := by
      have a1 := h1.1; have a2 := h2.1
      exact UInt8.le_antisymm (UInt8.not_lt.mp a2) (UInt8.not_lt.mp a1)
    subst hxy
    have t1 : bytesLt xs ys = false := by rcases h1.2 with h | h; exact absurd rfl h; exact h
    have t2 : bytesLt ys xs = false := by rcases h2.2 with h | h; exact absurd rfl h; exact h
    rw [bytesLt_total xs ys t1 t2]

theorem bytesLt_asymm (a b : Bytes) (h : bytesLt a b = true) : bytesLt b a = false := by
  cases hb : bytesLt b a with
  | false => rfl
  | true =>
    have := bytesLt_trans a b a h hb
    rw [bytesLt_irrefl] at this; contradiction

theorem pairLe_total (x y : Bytes × Bytes) : pairLe x y = false → pairLe y x = true := by
  intro h
  simp only [pairLe, bytesLe, Bool.or_eq_false_iff, Bool.and_eq_false_iff, beq_eq_false_iff_ne, ne_eq, Bool.not_eq_false',
    Bool.or_eq_true, Bool.and_eq_true, beq_iff_eq, Bool.not_eq_true'] at h ⊢
  obtain ⟨h1, h2⟩ := h
  cases hyx : bytesLt y.1 x.1 with
  | true => exact Or.inl rfl
  | false =>
    have e : x.1 = y.1 := bytesLt_total _ _ h1 hyx
    refine Or.inr ⟨e.symm, ?_⟩
    rcases h2 with h2 | h2
    · exact absurd e h2
    · exact bytesLt_asymm _ _ h2

theorem pairLe_trans (x y z : Bytes × Bytes) : pairLe x y = true → pairLe y z = true → pairLe x z = true := by
  intro h1 h2
  simp only [pairLe, bytesLe, Bool.or_eq_true, Bool.and_eq_true, beq_iff_eq, Bool.not_eq_true'] at h1 h2 ⊢
  rcases h1 with h1 | ⟨e1, h1⟩
  · rcases h2 with h2 | ⟨e2, _⟩
    · exact Or.inl (bytesLt_trans _ _ _ h1 h2)
    · exact Or.inl (e2 ▸ h1)
  · rcases h2 with h2 | ⟨e2, h2⟩
    · exact Or.inl (e1 ▸ h2)
    · refine Or.inr ⟨e1.trans e2, ?_⟩
      -- ¬ z.2 < x.2 from ¬ y.2 < x.2 and ¬ z.2 < y.2
      cases hzx : bytesLt z.2 x.2 with
      | false => rfl
      | true =>
        cases hxy : bytesLt x.2 y.2 with
        | true => have := bytesLt_trans _ _ _ hzx hxy; rw [h2] at this; contradiction
        | false =>
          have e : x.2 = y.2 := bytesLt_total _ _ hxy h1
          rw [e] at hzx; rw [h2] at hzx; contradiction

theorem insertSorted_perm (x : Bytes × Bytes) (l : List (Bytes × Bytes)) : (insertSorted x l).Perm (x :: l) := by
  induction l with
  | nil => exact List.Perm.refl _
  | cons y ys ih =>
    simp only [insertSorted]
    split
    · exact List.Perm.refl _
    · exact (List.Perm.cons y ih).trans (List.Perm.swap x y ys)

theorem sortPairs_perm (l : List (Bytes × Bytes)) : (sortPairs l).Perm l := by
  induction l with
  | nil => exact List.Perm.refl _
  | cons x xs ih => exact (insertSorted_perm x _).trans (List.Perm.cons x ih)

abbrev Sorted (l : List (Bytes × Bytes)) : Prop := l.Pairwise (fun a b => pairLe a b = true)

theorem insertSorted_sorted (x : Bytes × Bytes) (l : List (Bytes × Bytes)) (h : Sorted l) : Sorted (insertSorted x l) := by
  induction l with
  | nil => simp [insertSorted, Sorted]
  | cons y ys ih =>
    simp only [insertSorted]
    have hy := List.pairwise_cons.mp h
    split
    · rename_i hxy
      refine List.pairwise_cons.mpr ⟨?_, h⟩
      intro z hz
      rcases List.mem_cons.mp hz with rfl | hz
      · exact hxy
      · exact pairLe_trans _ _ _ hxy (hy.1 z hz)
    · rename_i hxy
      have hyx : pairLe y x = true := pairLe_total x y (by simpa using hxy)
      refine List.pairwise_cons.mpr ⟨?_, ih hy.2⟩
      intro z hz
      have := (insertSorted_perm x ys).mem_iff.mp hz
      rcases List.mem_cons.mp this with rfl | hz
      · exact hyx
      · exact hy.1 z hz

theorem sortPairs_sorted (l : List (Bytes × Bytes)) : Sorted (sortPairs l) := by
  induction l with
  | nil => simp [sortPairs, Sorted]
  | cons x xs ih => exact insertSorted_sorted x _ ih

theorem insertSorted_of_le (x : Bytes × Bytes) (l : List (Bytes × Bytes)) (h : ∀ y ∈ l, pairLe x y = true) :
    insertSorted x l = x :: l := by
  cases l with
  | nil => rfl
  | cons y ys => simp [insertSorted, h y (List.mem_cons_self)]

theorem sortPairs_of_sorted (l : List (Bytes × Bytes)) (h : Sorted l) : sortPairs l = l := by
  induction l with
  | nil => rfl
  | cons x xs ih =>
    have hx := List.pairwise_cons.mp h
    rw [sortPairs, ih hx.2, insertSorted_of_le x xs hx.1]

/-- strictly ascending names -/
abbrev StrictByName (l : List (Bytes × Bytes)) : Prop := l.Pairwise (fun a b => bytesLt a.1 b.1 = true)

theorem sorted_of_strict (l : List (Bytes × Bytes)) (h : StrictByName l) : Sorted l :=
  h.imp (fun {a b} hab => by simp [pairLe, hab])

/-- names pairwise different (a Python dict) -/
abbrev DistinctNames (l : List (Bytes × Bytes)) : Prop := l.Pairwise (fun a b => a.1 ≠ b.1)

theorem strict_of_sorted_distinct (l : List (Bytes × Bytes)) (hs : Sorted l) (hd : DistinctNames l) : StrictByName l := by
  induction l with
  | nil => exact List.Pairwise.nil
  | cons x xs ih =>
    have h1 := List.pairwise_cons.mp hs
    have h2 := List.pairwise_cons.mp hd
    refine List.pairwise_cons.mpr ⟨?_, ih h1.2 h2.2⟩
    intro y hy
    have hle := h1.1 y hy
    have hne := h2.1 y hy
    simp only [pairLe, Bool.or_eq_true, Bool.and_eq_true, beq_iff_eq] at hle
    rcases hle with h | ⟨e, _⟩
    · exact h
    · exact absurd e hne

theorem sortPairs_strict (l : List (Bytes × Bytes)) (hd : DistinctNames l) : StrictByName (sortPairs l) := by
  apply strict_of_sorted_distinct _ (sortPairs_sorted l)
  exact ((sortPairs_perm l).pairwise_iff (fun {a b} (h : a.1 ≠ b.1) => (Ne.symm h : b.1 ≠ a.1))).mpr hd

end Replicat.SigV4
