import ReplicatProofs.Lemmas.RepoBasic
/-! Well-formedness is preserved by every command (small restatements used by C18 and C03; the full invariant theory of
complete commands is C02's).  Namespace `Replicat.P18` to stay clear of other lemma files. -/
namespace Replicat.P18
open Replicat.Repo List

instance exceptDecEq {ε α : Type} [DecidableEq ε] [DecidableEq α] : DecidableEq (Except ε α)
  | .ok a, .ok b => if h : a = b then isTrue (by rw [h]) else isFalse (by intro h'; cases h'; exact h rfl)
  | .error a, .error b => if h : a = b then isTrue (by rw [h]) else isFalse (by intro h'; cases h'; exact h rfl)
  | .ok _, .error _ => isFalse (by intro h; cases h)
  | .error _, .ok _ => isFalse (by intro h; cases h)

theorem filterMap_congr' {α β : Type} {f g : α → Option β} {l : List α} (h : ∀ x ∈ l, f x = g x) :
    l.filterMap f = l.filterMap g := by
  induction l with
  | nil => rfl
  | cons a l ih =>
    simp only [filterMap_cons, h a (by simp)]
    rw [ih (fun x hx => h x (by simp [hx]))]

theorem uploadChunk_wf (u : User) (acc : Store × List Name) (c : Content) (h : WF acc.1) : WF (uploadChunk u acc c).1 := by
  unfold uploadChunk
  split
  · exact h
  · exact h.put _ _ ⟨rfl, rfl⟩

theorem foldl_uploadChunk_wf (u : User) (stream : List Content) (acc : Store × List Name) (h : WF acc.1) :
    WF (stream.foldl (uploadChunk u) acc).1 := by
  induction stream generalizing acc with
  | nil => exact h
  | cons c cs ih => exact ih _ (uploadChunk_wf u acc c h)

theorem snapshot_wf (u : User) (stream : List Content) (files : List FileRec) (ts sid : Nat) (s : Store) (h : WF s) :
    WF (snapshot u stream files ts sid s).1 := by
  unfold snapshot
  exact (foldl_uploadChunk_wf u stream (s, []) h).put _ _ ⟨rfl, rfl⟩

theorem step_wf (enc : Bool) (s : Store) (op : Op) (h : WF s) : WF (step enc s op) := by
  cases op with
  | snapshot u stream files ts sid => exact snapshot_wf u stream files ts sid s h
  | delete u sids =>
    simp only [step]
    unfold deleteSnapshots
    cases deletePlan enc u sids s with
    | error e => exact h
    | ok p => exact (h.delAll _).delAll _
  | clean u =>
    simp only [step]
    unfold clean
    cases cleanPlan enc u s with
    | error e => exact h
    | ok ns => exact h.delAll _

/-- membership in a store after `put` -/
theorem mem_put {s : Store} {n : Name} {o : Obj} {e : Name × Obj} (he : e ∈ put s n o) : e = (n, o) ∨ e ∈ s := by
  unfold put at he
  rcases mem_cons.mp he with rfl | h
  · exact Or.inl rfl
  · exact Or.inr ((mem_del s n e).mp h).1

theorem mem_delAll {s : Store} {ns : List Name} {e : Name × Obj} (he : e ∈ delAll s ns) : e ∈ s := by
  unfold delAll at he
  induction ns generalizing s with
  | nil => exact he
  | cons n ns ih => exact ((mem_del s n e).mp (ih he)).1

/-- every entry of the store after a snapshot is an old entry, an uploaded chunk, or the new snapshot object -/
theorem mem_foldl_uploadChunk {u : User} {stream : List Content} {acc : Store × List Name} {e : Name × Obj}
    (he : e ∈ (stream.foldl (uploadChunk u) acc).1) : e ∈ acc.1 ∨ ∃ c, e = (.chunk u.fam c, .chunk u.fam c) := by
  induction stream generalizing acc with
  | nil => exact Or.inl he
  | cons c cs ih =>
    rcases ih he with h | h
    · unfold uploadChunk at h
      split at h
      · exact Or.inl h
      · rcases mem_put h with rfl | h'
        · exact Or.inr ⟨c, rfl⟩
        · exact Or.inl h'
    · exact Or.inr h

theorem mem_snapshot {u : User} {stream : List Content} {files : List FileRec} {ts sid : Nat} {s : Store} {e : Name × Obj}
    (he : e ∈ (snapshot u stream files ts sid s).1) :
    e ∈ s ∨ (∃ c, e = (.chunk u.fam c, .chunk u.fam c)) ∨
      e = (.snap u.fam sid, .snap u.fam sid ⟨u.key, ts, dedupKeepFirstC stream, files⟩) := by
  unfold snapshot at he
  rcases mem_put he with rfl | h
  · exact Or.inr (Or.inr rfl)
  · rcases mem_foldl_uploadChunk h with h' | h'
    · exact Or.inl h'
    · exact Or.inr (Or.inl h')

end Replicat.P18
