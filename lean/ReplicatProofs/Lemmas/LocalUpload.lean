import ReplicatModel.LocalUpload
/-! Lemmas for the local-backend upload model (C03). -/
namespace Replicat.LocalUpload
open List

theorem find?_congr'' {α : Type} {p q : α → Bool} (l : List α) (h : ∀ x ∈ l, p x = q x) : l.find? p = l.find? q := by
  induction l with
  | nil => rfl
  | cons a l ih =>
    simp only [find?_cons, h a (by simp)]
    rw [ih (fun x hx => h x (by simp [hx]))]

theorem lookup_remove_same (l : List (Path × Bytes)) (k : Path) : lookup (remove l k) k = none := by
  unfold lookup remove
  have : (l.filter (fun e => !(e.1 == k))).find? (fun e => e.1 == k) = none := by
    rw [find?_eq_none]
    intro x hx
    have := (mem_filter.mp hx).2
    simpa using this
  rw [this]; rfl

theorem lookup_remove_other (l : List (Path × Bytes)) (k m : Path) (h : m ≠ k) : lookup (remove l k) m = lookup l m := by
  unfold lookup remove
  rw [find?_filter]
  congr 1
  apply find?_congr''
  intro x _
  by_cases hx : x.1 = m
  · subst hx; simp [h]
  · simp [hx]

theorem lookup_set_same (l : List (Path × Bytes)) (k : Path) (v : Bytes) : lookup (setFile l k v) k = some v := by
  unfold lookup setFile; simp

theorem lookup_set_other (l : List (Path × Bytes)) (k m : Path) (v : Bytes) (h : m ≠ k) : lookup (setFile l k v) m = lookup l m := by
  unfold setFile
  have : lookup ((k, v) :: remove l k) m = lookup (remove l k) m := by
    unfold lookup
    have : ((k, v).1 == m) = false := by simp; exact fun h' => h h'.symm
    simp [find?_cons, this]
  rw [this, lookup_remove_other l k m h]

theorem lookup_isSome_iff (l : List (Path × Bytes)) (k : Path) : (lookup l k).isSome = true ↔ k ∈ l.map (·.1) := by
  unfold lookup
  rw [Option.isSome_map, find?_isSome]
  constructor
  · rintro ⟨x, hx, hk⟩
    exact mem_map.mpr ⟨x, hx, by simpa using hk⟩
  · intro h
    obtain ⟨x, hx, rfl⟩ := mem_map.mp h
    exact ⟨x, hx, by simp⟩

/-! ## steps that only touch the temporary are invisible -/
def TmpOnly (tmp : Path) : Step → Prop
  | .mkdirP _ => True
  | .createTemp t => t = tmp
  | .write t _ => t = tmp
  | .unlink t => t = tmp
  | .rename _ _ => False

theorem vget_apply_tmpOnly (fs : FS) (tmp : Path) (htmp : isTmp tmp = true) (st : Step) (h : TmpOnly tmp st) (n : Path) :
    vget (apply fs st) n = vget fs n := by
  unfold vget
  by_cases hn : isTmp n = true
  · simp [hn]
  · have hne : n ≠ tmp := by intro h'; subst h'; exact hn htmp
    simp only [hn]
    cases st with
    | mkdirP d => rfl
    | createTemp t => cases h; simp only [apply]; rw [lookup_set_other _ _ _ _ hne]
    | write t p => cases h; simp only [apply]; rw [lookup_set_other _ _ _ _ hne]
    | unlink t => cases h; simp only [apply]; rw [lookup_remove_other _ _ _ hne]
    | rename a b => cases h

theorem vget_run_tmpOnly (fs : FS) (tmp : Path) (htmp : isTmp tmp = true) (steps : List Step) (h : ∀ st ∈ steps, TmpOnly tmp st)
    (n : Path) : vget (run fs steps) n = vget fs n := by
  unfold run
  induction steps generalizing fs with
  | nil => rfl
  | cons st steps ih =>
    simp only [foldl_cons]
    rw [ih _ (fun x hx => h x (by simp [hx]))]
    exact vget_apply_tmpOnly fs tmp htmp st (h st (by simp)) n

theorem prepSteps_tmpOnly (dir tmp : Path) (pieces : List Bytes) : ∀ st ∈ prepSteps dir tmp pieces, TmpOnly tmp st := by
  intro st hst
  unfold prepSteps at hst
  simp only [cons_append, nil_append, mem_cons, mem_map] at hst
  rcases hst with rfl | rfl | ⟨p, _, rfl⟩
  · trivial
  · rfl
  · rfl

/-! ## the temporary holds the payload when the rename happens -/
theorem run_append (fs : FS) (a b : List Step) : run fs (a ++ b) = run (run fs a) b := by
  unfold run; rw [foldl_append]

theorem lookup_writes (fs : FS) (tmp : Path) (pieces : List Bytes) (b : Bytes) (h : lookup fs.files tmp = some b) :
    lookup (run fs (pieces.map (Step.write tmp))).files tmp = some (b ++ pieces.flatten) := by
  unfold run
  induction pieces generalizing fs b with
  | nil => simpa using h
  | cons p ps ih =>
    simp only [map_cons, foldl_cons, flatten_cons]
    rw [ih (apply fs (.write tmp p)) (b ++ p)]
    · rw [append_assoc]
    · simp only [apply, h, Option.getD_some]
      exact lookup_set_same _ _ _

theorem lookup_prep (fs : FS) (dir tmp : Path) (pieces : List Bytes) :
    lookup (run fs (prepSteps dir tmp pieces)).files tmp = some pieces.flatten := by
  unfold prepSteps
  rw [run_append]
  have h0 : lookup (run fs [Step.mkdirP dir, Step.createTemp tmp]).files tmp = some [] := by
    simp only [run, foldl_cons, foldl_nil, apply]
    exact lookup_set_same _ _ _
  have := lookup_writes _ tmp pieces [] h0
  simpa using this

theorem vget_rename (fs : FS) (tmp name : Path) (data : Bytes) (htmp : isTmp tmp = true) (hname : isTmp name = false)
    (h : lookup fs.files tmp = some data) (n : Path) :
    vget (apply fs (.rename tmp name)) n = vget (putObj fs name data) n := by
  unfold vget
  by_cases hn : isTmp n = true
  · simp [hn]
  · simp only [hn]
    simp only [apply, h, putObj]
    by_cases hnn : n = name
    · subst hnn; rw [lookup_set_same, lookup_set_same]
    · have hne : n ≠ tmp := by intro h'; subst h'; exact hn htmp
      rw [lookup_set_other _ _ _ _ hnn, lookup_set_other _ _ _ _ hnn, lookup_remove_other _ _ _ hne]

theorem vget_putObj_congr (fs fs' : FS) (name : Path) (data : Bytes) (h : ∀ n, vget fs' n = vget fs n) (n : Path) :
    vget (putObj fs' name data) n = vget (putObj fs name data) n := by
  have := h n
  unfold vget at *
  by_cases hn : isTmp n = true
  · simp [hn]
  · simp only [hn] at this ⊢
    simp only [putObj]
    by_cases hnn : n = name
    · subst hnn; rw [lookup_set_same, lookup_set_same]
    · rw [lookup_set_other _ _ _ _ hnn, lookup_set_other _ _ _ _ hnn]; exact this

end Replicat.LocalUpload
