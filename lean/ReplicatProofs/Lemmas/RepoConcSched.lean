import ReplicatProofs.Lemmas.RepoConc
/-! The sequential history of `Repo.lean` (`run`: one snapshot command after the other, its workers one after the other) IS one
of the executions of the concurrent semantics: the trace `seqTraceAll` is accepted, complete, and ends in literally the same
store.  So every theorem about all concurrent executions specialises to the sequential model, and complete executions exist for
every list of commands whose pools have at least one worker.  Used by C02. -/
namespace Replicat.Repo
open List

theorem cstep_complete {cmds : List SnapCmd} {st st' : CState} {e : Ev} (h : CStep cmds st e st') : cstep cmds st e = some st' := by
  cases h with
  | «exists» hc hp hw hr =>
    simp only [cstep, hc, hp]
    rw [if_pos]
    simp only [Bool.and_eq_true, beq_iff_eq, contains_iff_mem]
    exact ⟨hw, hr⟩
  | upload hc hp hm =>
    simp only [cstep, hc, hp]
    rw [if_pos]
    simp [hm]
  | commit hc hp ht hpe hd =>
    simp only [cstep, hc, hp]
    rw [if_pos]
    simp [ht, hpe, hd]
  | read => rfl

theorem crun_step {cmds : List SnapCmd} {st st1 st' : CState} {e : Ev} {es : List Ev} (h : CStep cmds st e st1)
    (h2 : crun cmds st1 es = some st') : crun cmds st (e :: es) = some st' := by
  simp only [crun, cstep_complete h]
  exact h2

theorem set_same {α : Type} {l : List α} {i : Nat} {a : α} (h : l[i]? = some a) : l.set i a = l := by
  induction l generalizing i with
  | nil => rfl
  | cons x xs ih =>
    cases i with
    | zero => simp at h; simp [h]
    | succ k => simp at h; simp [ih h]

/-- the store after the worker loop, as a function of the remaining chunks -/
theorem fold_fst_cons (u : User) (c : Content) (cs : List Content) (s : Store) (acc : List Name) :
    ((c :: cs).foldl (uploadChunk u) (s, acc)).1 =
      (cs.foldl (uploadChunk u) (if (get s (.chunk u.fam c)).isSome then s else put s (.chunk u.fam c) (.chunk u.fam c), acc)).1 := by
  have hind : ∀ (l : List Content) (a b : Store × List Name), a.1 = b.1 →
      (l.foldl (uploadChunk u) a).1 = (l.foldl (uploadChunk u) b).1 := by
    intro l
    induction l with
    | nil => intro a b h; exact h
    | cons x xs ih =>
      intro a b h
      simp only [foldl_cons]
      apply ih
      unfold uploadChunk
      rw [h]
      split <;> simp [h]
  simp only [foldl_cons]
  apply hind
  unfold uploadChunk
  split <;> rfl

/-- the chunk calls of one command, its workers one after the other -/
theorem seqEvents_run {cmds : List SnapCmd} {i : Nat} {cmd : SnapCmd} (hc : cmds[i]? = some cmd) (hw : 1 ≤ cmd.workers) (d : Bool) :
    ∀ (todo : List Content) (s : Store) (progs : List Prog), progs[i]? = some ⟨todo, [], d⟩ →
      crun cmds ⟨s, progs⟩ (seqEvents i cmd.u.fam s todo) = some ⟨(todo.foldl (uploadChunk cmd.u) (s, [])).1, progs.set i ⟨[], [], d⟩⟩ := by
  intro todo
  induction todo with
  | nil =>
    intro s progs hp
    simp only [seqEvents, crun, foldl_nil]
    rw [set_same hp]
  | cons c cs ih =>
    intro s progs hp
    have hwin : c ∈ window cmd ⟨c :: cs, [], d⟩ := by
      unfold window
      simp only [length_nil, Nat.sub_zero]
      obtain ⟨k, hk⟩ : ∃ k, cmd.workers = k + 1 := ⟨cmd.workers - 1, by omega⟩
      rw [hk]
      simp
    rw [fold_fst_cons]
    by_cases hpres : (get s (.chunk cmd.u.fam c)).isSome = true
    · simp only [seqEvents, hpres, if_true]
      have st1 := CStep.exists (st := ⟨s, progs⟩) (r := true) hc hp hwin hpres.symm
      simp only [erase_cons_head, if_true] at st1
      refine crun_step st1 ?_
      have := ih s (progs.set i ⟨cs, [], d⟩) (set_lookup_self hp)
      rw [this, set_set]
    · simp only [seqEvents, hpres, Bool.false_eq_true, if_false]
      have hfalse : (get s (.chunk cmd.u.fam c)).isSome = false := by simpa using hpres
      have st1 := CStep.exists (st := ⟨s, progs⟩) (r := false) hc hp hwin hfalse.symm
      simp only [erase_cons_head, Bool.false_eq_true, if_false, nil_append] at st1
      refine crun_step st1 ?_
      have st2 := CStep.upload (st := ⟨s, progs.set i ⟨cs, [c], d⟩⟩) (c := c) hc (set_lookup_self hp) (by simp)
      simp only [erase_cons_head, set_set] at st2
      refine crun_step st2 ?_
      have := ih (put s (.chunk cmd.u.fam c) (.chunk cmd.u.fam c)) (progs.set i ⟨cs, [], d⟩) (set_lookup_self hp)
      rw [this, set_set]

/-- one whole command: its chunk calls, then the snapshot object — ends in the store of the sequential `snapshot` -/
theorem seqTrace_run {cmds : List SnapCmd} {i : Nat} {cmd : SnapCmd} (hc : cmds[i]? = some cmd) (hw : 1 ≤ cmd.workers)
    (s : Store) (progs : List Prog) (hp : progs[i]? = some (Prog.init cmd)) :
    crun cmds ⟨s, progs⟩ (seqTrace i cmd s) =
      some ⟨(snapshot cmd.u cmd.stream cmd.files cmd.ts cmd.sid s).1, progs.set i ⟨[], [], true⟩⟩ := by
  unfold seqTrace
  apply crun_append_of (seqEvents_run hc hw false cmd.stream s progs hp)
  have st1 := CStep.commit (st := ⟨(cmd.stream.foldl (uploadChunk cmd.u) (s, [])).1, progs.set i ⟨[], [], false⟩⟩) hc
    (set_lookup_self hp) rfl rfl rfl
  simp only [set_set] at st1
  exact crun_step st1 rfl

theorem set_append_mid {α : Type} (a : List α) (x y : α) (b : List α) : (a ++ x :: b).set a.length y = a ++ y :: b := by
  induction a with
  | nil => rfl
  | cons h t ih => simp [ih]

/-- all commands, one after the other -/
theorem seqTraceAll_run (enc : Bool) (cmds : List SnapCmd) (hw : ∀ cmd ∈ cmds, 1 ≤ cmd.workers) :
    ∀ (rest pre : List SnapCmd) (s : Store), cmds = pre ++ rest →
      crun cmds ⟨s, pre.map (fun _ => (⟨[], [], true⟩ : Prog)) ++ rest.map Prog.init⟩ (seqTraceAll pre.length s rest) =
        some ⟨run enc s (rest.map SnapCmd.op), cmds.map (fun _ => (⟨[], [], true⟩ : Prog))⟩ := by
  intro rest
  induction rest with
  | nil =>
    intro pre s hcm
    simp only [seqTraceAll, crun, map_nil, append_nil, run, foldl_nil] at *
    rw [hcm]
  | cons cmd rest ih =>
    intro pre s hcm
    have hci : cmds[pre.length]? = some cmd := by
      rw [hcm]; simp
    have hpi : (pre.map (fun _ => (⟨[], [], true⟩ : Prog)) ++ (cmd :: rest).map Prog.init)[pre.length]? = some (Prog.init cmd) := by
      have : pre.length = (pre.map (fun _ => (⟨[], [], true⟩ : Prog))).length := by simp
      rw [this, getElem?_append_right (Nat.le_refl _)]
      simp
    have hmem : cmd ∈ cmds := by rw [hcm]; simp
    simp only [seqTraceAll]
    apply crun_append_of (seqTrace_run hci (hw cmd hmem) s _ hpi)
    have hset : (pre.map (fun _ => (⟨[], [], true⟩ : Prog)) ++ (cmd :: rest).map Prog.init).set pre.length ⟨[], [], true⟩
        = (pre ++ [cmd]).map (fun _ => (⟨[], [], true⟩ : Prog)) ++ rest.map Prog.init := by
      have : pre.length = (pre.map (fun _ => (⟨[], [], true⟩ : Prog))).length := by simp
      rw [map_cons, this, set_append_mid]
      simp
    rw [hset]
    have := ih (pre ++ [cmd]) (snapshot cmd.u cmd.stream cmd.files cmd.ts cmd.sid s).1 (by rw [hcm]; simp)
    simp only [length_append, length_singleton] at this
    rw [this]
    rfl

end Replicat.Repo
