import ReplicatProofs.Lemmas.SigV4
import ReplicatProofs.Lemmas.SigV4Sort
/-! C16: query canonicalisation, transport, assembly of the canonical request and of the signature. -/
namespace Replicat.SigV4

/-- a Python dict with names that need no encoding (true of every query replicat builds) -/
def KeysOk (q : List (Bytes × Bytes)) : Prop := DistinctNames q ∧ ∀ p ∈ q, allUnreserved p.1 = true

/-- every value is encoded with `quote` semantics (always after the D10 fix; today: values without a space) -/
def ValuesOk (q : List (Bytes × Bytes)) : Prop := ∀ p ∈ q, QueryValueOk p.2

theorem clientQueryPairs_eq (hs : Gen.s3QuerySortedB = true) (q : List (Bytes × Bytes)) :
    clientQueryPairs q = (sortPairs q).map (fun p => (queryQuote p.1, queryQuote p.2)) := by
  unfold clientQueryPairs; rw [hs]; simp

theorem clientQueryPairs_strict (hs : Gen.s3QuerySortedB = true) (q : List (Bytes × Bytes)) (hk : KeysOk q) :
    StrictByName (clientQueryPairs q) := by
  rw [clientQueryPairs_eq hs, StrictByName, List.pairwise_map]
  refine (sortPairs_strict q hk.1).imp_of_mem ?_
  intro a b ha hb hab
  have ha' := (sortPairs_perm q).mem_iff.mp ha
  have hb' := (sortPairs_perm q).mem_iff.mp hb
  show bytesLt (queryQuote a.1) (queryQuote b.1) = true
  rw [queryQuote_of_unreserved _ (hk.2 a ha'), queryQuote_of_unreserved _ (hk.2 b hb')]
  exact hab

theorem ref_query_agrees (plus : Bool) (hs : Gen.s3QuerySortedB = true) (q : List (Bytes × Bytes)) (hk : KeysOk q) (hv : ValuesOk q) :
    refQueryPairs plus (clientQueryPairs q) = clientQueryPairs q := by
  unfold refQueryPairs
  have hmap : (clientQueryPairs q).map (fun p => (awsUriEncode true (pctDecode plus p.1), awsUriEncode true (pctDecode plus p.2)))
      = clientQueryPairs q := by
    rw [clientQueryPairs_eq hs, List.map_map]
    apply List.map_congr_left
    intro p hp
    have hp' := (sortPairs_perm q).mem_iff.mp hp
    simp only [Function.comp]
    rw [ref_roundtrip_query plus p.1 (Or.inr (no_space_of_unreserved _ (hk.2 p hp'))), ref_roundtrip_query plus p.2 (hv p hp')]
  rw [hmap]
  exact sortPairs_of_sorted _ (sorted_of_strict _ (clientQueryPairs_strict hs q hk))

/-! ## transport -/
theorem clientPath_ne_nil (p : Bytes) (h : p ≠ []) : clientPath p ≠ [] := by
  cases p with
  | nil => exact absurd rfl h
  | cons b t =>
    unfold clientPath pyQuote
    rw [List.flatMap_cons]
    intro hnil
    have := List.append_eq_nil_iff.mp hnil
    have hb := this.1
    unfold pyQuoteByte at hb
    split at hb <;> simp [pctEncode] at hb

theorem httpxPath_of_no_dot (p : Bytes) (h : hasDotSegment p = false) (hne : p ≠ []) : httpxPath p = p := by
  unfold httpxPath normalizePath
  rw [h]
  cases p with
  | nil => exact absurd rfl hne
  | cons b t => simp

theorem httpxHost_of_normal (scheme host : Bytes) (h : hostIsNormal scheme host = true) : httpxHost scheme host = host := by
  unfold hostIsNormal at h
  simpa using h

/-- the `Host` header on the wire is the configured host exactly when the client sets the header itself or httpx has nothing to
normalise — for every scheme and host string -/
theorem wireHost_eq_iff (explicit : Bool) (scheme host : Bytes) :
    wireHost explicit scheme host = host ↔ (explicit = true ∨ hostIsNormal scheme host = true) := by
  cases explicit with
  | true => simp [wireHost]
  | false => simp [wireHost, hostIsNormal]

/-- the configured hosts whose `Host` header reaches the wire as it was signed: every host once the adapter sets the header itself
(`hostHeaderExplicit`, generated); until then the spellings httpx leaves alone (D11) -/
def HostOk (i : Inputs) : Prop := hostHeaderExplicit = true ∨ hostIsNormal i.scheme i.host = true

instance (i : Inputs) : Decidable (HostOk i) := by unfold HostOk; infer_instance

theorem wireHost_of_ok (i : Inputs) (h : HostOk i) : wireHost hostHeaderExplicit i.scheme i.host = i.host :=
  (wireHost_eq_iff _ _ _).mpr h

/-! ## what is sent in the headers is what was signed -/
theorem sent_contentSha (c : Crypto) (i : Inputs) : sentHeaderValue c i hContentSha = i.payloadDigest := rfl
theorem sent_amzDate (c : Crypto) (i : Inputs) : sentHeaderValue c i hAmzDate = i.amzDate := rfl
theorem sent_authorization (c : Crypto) (i : Inputs) : sentHeaderValue c i hAuthorization = clientAuthorization c i := rfl

theorem signedHeaderList_eq (i : Inputs) :
    clientSignedHeaderList i = [(hHost, i.host), (hContentSha, i.payloadDigest), (hAmzDate, i.amzDate)] := rfl

theorem signedHeaders_eq : clientSignedHeaders = refSignedHeaders := by decide

/-! ## same structure: scope, string to sign, key chain -/
theorem scope_eq (date region : Bytes) : scopeOf date region = refScope date region := by
  simp [scopeOf, refScope, pick, Gen.s3ScopeOrder, Gen.s3Service, Gen.s3Terminator, intercalate, sS3, sAws4Request]

theorem stringToSign_eq (c : Crypto) (amz scope cr : Bytes) : stringToSignOf c amz scope cr = refStringToSign c amz scope cr := by
  simp [stringToSignOf, refStringToSign, pick, Gen.s3StringToSignOrder, Gen.s3Algorithm, intercalate, sAlgorithm, nl]

theorem signingKey_eq (c : Crypto) (secret date region : Bytes) : signingKeyOf c secret date region = refSigningKey c secret date region := by
  simp [signingKeyOf, refSigningKey, pick, Gen.s3KeyChain, Gen.s3Service, Gen.s3KeyTerminator, Gen.s3KeyPrefix, sS3, sAws4Request, sAws4]

theorem canonicalRequestOf_eq (m u q h s d : Bytes) :
    canonicalRequestOf m u q h s d = m ++ nl ++ u ++ nl ++ q ++ nl ++ h ++ nl ++ s ++ nl ++ d := by
  simp [canonicalRequestOf, pick, Gen.s3CanonicalRequestOrder, intercalate]

theorem canonicalHeaders_three (a b c : Bytes × Bytes) :
    canonicalHeaders [a, b, c] = a.1 ++ [0x3A] ++ a.2 ++ nl ++ b.1 ++ [0x3A] ++ b.2 ++ nl ++ c.1 ++ [0x3A] ++ c.2 ++ nl := by
  simp [canonicalHeaders, intercalate]

end Replicat.SigV4
