import ReplicatModel.RateLimit
/-!
Helper lemmas for the limiter model (core Lean only; linear rational arithmetic by `grind`).

Structure of the argument
* `pause_spec`      one pause call: with `debt ≤ threshold` and at most a quarter second owed the cap is not hit,
                    `debt' + slept = debt + owed`, `-ov ≤ debt' ≤ threshold`.
* `run_good`        every observation of a run is `Good` relative to the state before it (local facts).
* `run_tight_*`     if all latencies are zero, or all events belong to one thread, the wall time between two
                    lock releases covers latency + sleep of the call (`Tight`).
* `window_of_chain` a pure list fact: a potential chain `bytes ≤ L·(Ψ(o) − Ψ(previous))`, `Ψ = τ + δ`, `lo ≤ δ ≤ hi`,
                    `τ` sorted ⇒ bytes with `τ ∈ [a,b]` are at most `L·(b − a + hi − lo) + dmax`.
-/
namespace Replicat.RateLimit
open Replicat

/-! ### facts about the extracted constants (re-proved about whatever the source currently says) -/
theorem thr_nonneg : 0 ≤ Gen.pauseThreshold := by decide +kernel
theorem headroom : Gen.pauseThreshold + 1 / 4 ≤ Gen.pauseLimit := by decide +kernel
theorem divisor_ge_four : 4 ≤ Gen.rateDivisor := by decide

/-! ### the wrapper's arithmetic -/
theorem owed_nonneg (L : Rat) (b : Nat) (el : Rat) : 0 ≤ owed L b el := by unfold owed; grind
theorem owed_ge (L : Rat) (b : Nat) (el : Rat) : (b : Rat) / L - el ≤ owed L b el := by unfold owed; grind

theorem mul_div_cancel' (L : Rat) (hL : 0 < L) (x : Rat) : L * (x / L) = x := by
  rw [Rat.mul_comm]; exact Rat.div_mul_cancel (by grind)

theorem div_nonneg' {x L : Rat} (hx : 0 ≤ x) (hL : 0 < L) : 0 ≤ x / L := by
  rw [Rat.div_def]; exact Rat.mul_nonneg hx (Rat.le_of_lt (Rat.inv_pos.mpr hL))

theorem bytes_le (L : Rat) (hL : 0 < L) (b : Nat) (el : Rat) : (b : Rat) ≤ L * (el + owed L b el) := by
  have h := owed_ge L b el
  have h2 : (b : Rat) / L ≤ el + owed L b el := by grind
  have h3 := Rat.mul_le_mul_of_nonneg_left h2 (Rat.le_of_lt hL)
  have h4 := mul_div_cancel' L hL b
  grind

theorem div_le_quarter (L : Rat) (hL : 0 < L) (b : Nat) (hb : 4 * (b : Rat) ≤ L) : (b : Rat) / L ≤ 1 / 4 := by
  have : (b : Rat) / L * L = b := Rat.div_mul_cancel (by grind)
  by_cases h : (b : Rat) / L ≤ 1 / 4
  · exact h
  · exfalso
    have h' : 1 / 4 < (b : Rat) / L := by grind
    have := Rat.mul_lt_mul_of_pos_right h' hL
    grind

theorem owed_le_quarter (L : Rat) (hL : 0 < L) (b : Nat) (el : Rat) (hel : 0 ≤ el) (hb : 4 * (b : Rat) ≤ L) :
    owed L b el ≤ 1 / 4 := by
  have h1 := div_le_quarter L hL b hb
  unfold owed; grind

/-- `L · owed ≤ bytes` when the underlying call took no negative time -/
theorem mul_owed_le (L : Rat) (hL : 0 < L) (b : Nat) (el : Rat) (hel : 0 ≤ el) : L * owed L b el ≤ b := by
  have h4 := mul_div_cancel' L hL b
  have hb : (0 : Rat) ≤ b := by exact_mod_cast Nat.zero_le b
  unfold owed
  by_cases h : (b : Rat) / L - el ≤ 0
  · have : max ((b : Rat) / L - el) 0 = 0 := by grind
    rw [this]; grind
  · have : max ((b : Rat) / L - el) 0 = (b : Rat) / L - el := by grind
    rw [this]
    have h5 : L * ((b : Rat) / L - el) = b - L * el := by grind
    have h6 : 0 ≤ L * el := Rat.mul_nonneg (Rat.le_of_lt hL) hel
    grind

/-! ### one pause call -/
theorem pause_balance (debt sec ov : Rat) :
    (pause debt sec ov).debt + (pause debt sec ov).slept + (pause debt sec ov).forgiven = debt + sec ∧
    0 ≤ (pause debt sec ov).forgiven := by
  unfold pause; simp only; split <;> split <;> grind

theorem pause_spec (debt sec ov : Rat) (hd : debt ≤ Gen.pauseThreshold) (h0 : 0 ≤ sec) (hq : sec ≤ 1 / 4) (hov : 0 ≤ ov) :
    (pause debt sec ov).forgiven = 0 ∧
    (pause debt sec ov).debt + (pause debt sec ov).slept = debt + sec ∧
    0 ≤ (pause debt sec ov).slept ∧
    (pause debt sec ov).debt ≤ Gen.pauseThreshold ∧
    (debt ≤ (pause debt sec ov).debt ∨ (pause debt sec ov).debt = -ov) := by
  have h1 := thr_nonneg
  have h2 := headroom
  unfold pause; simp only; split <;> split <;> grind

/-! ### admissible histories, local facts of one observation -/
/-- what the property quantifies over: requests of at most a quarter of the limit, no negative durations,
`time.sleep` oversleeps by at most `eps` -/
def EvOk (L eps : Rat) (dmax : Nat) : Ev → Prop
  | .io _ b lat ov => 4 * (b : Rat) ≤ L ∧ b ≤ dmax ∧ 0 ≤ lat ∧ 0 ≤ ov ∧ ov ≤ eps
  | .idle _ dt => 0 ≤ dt

def Ev.stream : Ev → Nat
  | .io i _ _ _ => i
  | .idle i _ => i

def Ev.lat : Ev → Rat
  | .io _ _ lat _ => lat
  | .idle _ _ => 0

/-- the debt at rest stays in `[-eps, threshold]` -/
def Inv (eps : Rat) (s : St) : Prop := -eps ≤ s.debt ∧ s.debt ≤ Gen.pauseThreshold

/-- local facts of an observation; `d0`, `l0` = debt and last lock release before the call -/
structure Good (L eps : Rat) (dmax : Nat) (d0 l0 : Rat) (o : Obs) : Prop where
  pot : (o.bytes : Rat) ≤ L * (o.lat + o.slept + o.debt - d0)
  debt_lo : -eps ≤ o.debt
  debt_hi : o.debt ≤ Gen.pauseThreshold
  pre_hi : L * (o.debt + o.slept) ≤ L * Gen.pauseThreshold + dmax
  acq : l0 ≤ o.tAcq
  pre : o.tPre ≤ o.tAcq
  rel : o.tRel = o.tAcq + o.slept
  slept_nonneg : 0 ≤ o.slept
  forgiven : o.forgiven = 0
  small : o.bytes ≤ dmax
  lat_nonneg : 0 ≤ o.lat

def GoodTrace (L eps : Rat) (dmax : Nat) : Rat → Rat → List Obs → Prop
  | _, _, [] => True
  | d0, l0, o :: r => Good L eps dmax d0 l0 o ∧ GoodTrace L eps dmax o.debt o.tRel r

/-- the time between two lock releases covers the latency of the call -/
def Tight : Rat → List Obs → Prop
  | _, [] => True
  | l0, o :: r => l0 + o.lat ≤ o.tAcq ∧ Tight o.tRel r

theorem step_io_good (L : Rat) (hL : 0 < L) (eps : Rat) (dmax : Nat) (s : St) (i b : Nat) (lat ov : Rat)
    (he : EvOk L eps dmax (.io i b lat ov)) (hs : Inv eps s) :
    ∃ o, (step L s (.io i b lat ov)).2 = some o ∧ Good L eps dmax s.debt s.lockFree o ∧
      (step L s (.io i b lat ov)).1.debt = o.debt ∧ (step L s (.io i b lat ov)).1.lockFree = o.tRel ∧
      o.stream = i ∧ o.bytes = b ∧ o.lat = lat ∧ o.tPre = s.clk i + lat ∧ o.tAcq = max (s.clk i + lat) s.lockFree ∧
      (step L s (.io i b lat ov)).1.clk = upd s.clk i o.tRel := by
  obtain ⟨hb, hbd, hlat, hov, hove⟩ := he
  obtain ⟨hlo, hhi⟩ := hs
  have ho0 := owed_nonneg L b lat
  have hoq := owed_le_quarter L hL b lat hlat hb
  obtain ⟨p1, p2, p3, p4, p5⟩ := pause_spec s.debt (owed L b lat) ov hhi ho0 hoq hov
  have hbl := bytes_le L hL b lat
  have hmo := mul_owed_le L hL b lat hlat
  have hbd' : (b : Rat) ≤ (dmax : Rat) := by exact_mod_cast hbd
  refine ⟨_, rfl, ?_, rfl, rfl, rfl, rfl, rfl, rfl, rfl, rfl⟩
  refine ⟨?_, ?_, p4, ?_, ?_, ?_, rfl, p3, p1, hbd, hlat⟩
  · show (b : Rat) ≤ L * (lat + (pause s.debt (owed L b lat) ov).slept + (pause s.debt (owed L b lat) ov).debt - s.debt)
    have : lat + (pause s.debt (owed L b lat) ov).slept + (pause s.debt (owed L b lat) ov).debt - s.debt = lat + owed L b lat := by grind
    rw [this]; exact hbl
  · show -eps ≤ (pause s.debt (owed L b lat) ov).debt
    rcases p5 with h | h <;> grind
  · show L * ((pause s.debt (owed L b lat) ov).debt + (pause s.debt (owed L b lat) ov).slept) ≤ L * Gen.pauseThreshold + dmax
    rw [p2]
    have h1 : L * s.debt ≤ L * Gen.pauseThreshold := Rat.mul_le_mul_of_nonneg_left hhi (Rat.le_of_lt hL)
    grind
  · show s.lockFree ≤ max (s.clk i + lat) s.lockFree
    grind
  · show s.clk i + lat ≤ max (s.clk i + lat) s.lockFree
    grind

theorem run_cons (L : Rat) (s : St) (e : Ev) (es : List Ev) :
    run L s (e :: es) = ((run L (step L s e).1 es).1, (step L s e).2.toList ++ (run L (step L s e).1 es).2) := rfl

theorem run_append (L : Rat) (s : St) (e1 e2 : List Ev) :
    run L s (e1 ++ e2) = ((run L (run L s e1).1 e2).1, (run L s e1).2 ++ (run L (run L s e1).1 e2).2) := by
  induction e1 generalizing s with
  | nil => simp [run]
  | cons e es ih => simp only [List.cons_append, run_cons, ih, List.append_assoc]

theorem run_good (L : Rat) (hL : 0 < L) (eps : Rat) (dmax : Nat) (evs : List Ev) (s : St)
    (hev : ∀ e ∈ evs, EvOk L eps dmax e) (hs : Inv eps s) :
    GoodTrace L eps dmax s.debt s.lockFree (run L s evs).2 ∧ Inv eps (run L s evs).1 := by
  induction evs generalizing s with
  | nil => exact ⟨trivial, hs⟩
  | cons e es ih =>
    have hes : ∀ e ∈ es, EvOk L eps dmax e := fun e he => hev e (by simp [he])
    rw [run_cons]
    cases e with
    | idle i dt =>
      have := ih ⟨s.debt, s.lockFree, upd s.clk i (s.clk i + dt)⟩ hes hs
      simpa [step] using this
    | io i b lat ov =>
      obtain ⟨o, ho, hg, hd, hl, -⟩ := step_io_good L hL eps dmax s i b lat ov (hev _ (by simp)) hs
      have hinv : Inv eps (step L s (.io i b lat ov)).1 := by
        unfold Inv; rw [hd]; exact ⟨hg.debt_lo, hg.debt_hi⟩
      have := ih _ hes hinv
      rw [hd, hl] at this
      rw [ho]
      exact ⟨⟨hg, this.1⟩, this.2⟩

/-- all latencies zero ⇒ tight (any number of threads) -/
theorem run_tight_zero_lat (L : Rat) (evs : List Ev) (s : St) (h0 : ∀ e ∈ evs, e.lat = 0) :
    Tight s.lockFree (run L s evs).2 := by
  induction evs generalizing s with
  | nil => trivial
  | cons e es ih =>
    have hes : ∀ e ∈ es, e.lat = 0 := fun e he => h0 e (by simp [he])
    rw [run_cons]
    cases e with
    | idle i dt => simpa [step] using ih ⟨s.debt, s.lockFree, upd s.clk i (s.clk i + dt)⟩ hes
    | io i b lat ov =>
      have hl : lat = 0 := h0 (.io i b lat ov) (by simp)
      subst hl
      have := ih (step L s (.io i b 0 ov)).1 hes
      simp only [step, Option.toList_some, List.cons_append, List.nil_append, Tight] at this ⊢
      exact ⟨by grind, this⟩

/-- one thread ⇒ tight, and the pause section is entered the moment the underlying call returns -/
theorem run_tight_single (L eps : Rat) (dmax : Nat) (i : Nat) (evs : List Ev) (s : St) (h1 : ∀ e ∈ evs, e.stream = i)
    (hev : ∀ e ∈ evs, EvOk L eps dmax e) (hs : s.lockFree ≤ s.clk i) :
    Tight s.lockFree (run L s evs).2 ∧ ∀ o ∈ (run L s evs).2, o.tPre = o.tAcq := by
  induction evs generalizing s with
  | nil => exact ⟨trivial, by simp [run]⟩
  | cons e es ih =>
    have hes : ∀ e ∈ es, e.stream = i := fun e he => h1 e (by simp [he])
    have hevs : ∀ e ∈ es, EvOk L eps dmax e := fun e he => hev e (by simp [he])
    rw [run_cons]
    cases e with
    | idle j dt =>
      have hj : j = i := h1 (.idle j dt) (by simp)
      have hd : 0 ≤ dt := hev (.idle j dt) (by simp)
      subst hj
      have := ih ⟨s.debt, s.lockFree, upd s.clk j (s.clk j + dt)⟩ hes hevs (by simp [upd]; grind)
      simpa [step] using this
    | io j b lat ov =>
      have hj : j = i := h1 (.io j b lat ov) (by simp)
      have hl : 0 ≤ lat := (hev (.io j b lat ov) (by simp)).2.2.1
      subst hj
      have := ih (step L s (.io j b lat ov)).1 hes hevs (by simp [step, upd])
      simp only [step, Option.toList_some, List.cons_append, List.nil_append, Tight, List.mem_cons, forall_eq_or_imp] at this ⊢
      exact ⟨⟨by grind, this.1⟩, by grind, this.2⟩

/-! ### sums and windows -/
theorem sumBytes_cons (o : Obs) (l : List Obs) : sumBytes (o :: l) = o.bytes + sumBytes l := by simp [sumBytes]
theorem sumLat_cons (o : Obs) (l : List Obs) : sumLat (o :: l) = o.lat + sumLat l := by simp [sumLat]
theorem sumSlept_cons (o : Obs) (l : List Obs) : sumSlept (o :: l) = o.slept + sumSlept l := by simp [sumSlept]
theorem sumBytes_nil : sumBytes [] = 0 := by simp [sumBytes]
theorem sumBytes_append (a b : List Obs) : sumBytes (a ++ b) = sumBytes a + sumBytes b := by
  induction a with
  | nil => simp [sumBytes, Rat.zero_add]
  | cons o l ih => simp only [List.cons_append, sumBytes_cons, ih]; grind

theorem sumBytes_nonneg (l : List Obs) : 0 ≤ sumBytes l := by
  induction l with
  | nil => simp [sumBytes]
  | cons o l ih =>
    rw [sumBytes_cons]
    have : (0 : Rat) ≤ o.bytes := by exact_mod_cast Nat.zero_le _
    grind

theorem winBytes_nil (τ : Obs → Rat) (a b : Rat) : winBytes τ a b [] = 0 := by simp [winBytes, sumBytes]

theorem winBytes_cons (τ : Obs → Rat) (a b : Rat) (o : Obs) (l : List Obs) :
    winBytes τ a b (o :: l) = (if a ≤ τ o ∧ τ o ≤ b then (o.bytes : Rat) else 0) + winBytes τ a b l := by
  unfold winBytes
  by_cases h1 : a ≤ τ o <;> by_cases h2 : τ o ≤ b <;> simp [h1, h2, sumBytes_cons, Rat.zero_add]

/-- potential chain: every observation pays for its bytes with an increase of `Ψ` -/
def Chain (L : Rat) (Ψ : Obs → Rat) : Rat → List Obs → Prop
  | _, [] => True
  | p, o :: r => (o.bytes : Rat) ≤ L * (Ψ o - p) ∧ Chain L Ψ (Ψ o) r

/-- time stamps `τ` never decrease along the list, starting at `t` -/
def Mono (τ : Obs → Rat) : Rat → List Obs → Prop
  | _, [] => True
  | t, o :: r => t ≤ τ o ∧ Mono τ (τ o) r

theorem mono_weaken (τ : Obs → Rat) (t t' : Rat) (l : List Obs) (h : t' ≤ t) (hm : Mono τ t l) : Mono τ t' l := by
  cases l with
  | nil => trivial
  | cons o r => exact ⟨by have := hm.1; grind, hm.2⟩

theorem win_empty_of_late (τ : Obs → Rat) (a b t : Rat) (l : List Obs) (hm : Mono τ t l) (ht : b < t) :
    winBytes τ a b l = 0 := by
  induction l generalizing t with
  | nil => exact winBytes_nil τ a b
  | cons o r ih =>
    rw [winBytes_cons]
    have h1 := hm.1
    have := ih (τ o) hm.2 (by grind)
    have hno : ¬(a ≤ τ o ∧ τ o ≤ b) := by grind
    simp [hno, this, Rat.zero_add]

/-- bytes after `o` up to time `b`, when `τ o ≤ b` -/
theorem chain_prefix (L : Rat) (hL : 0 < L) (Ψ τ : Obs → Rat) (hi : Rat) (a b p t : Rat) (l : List Obs)
    (hc : Chain L Ψ p l) (hm : Mono τ t l) (hhi : ∀ o ∈ l, Ψ o ≤ τ o + hi) (hp : p ≤ b + hi) :
    winBytes τ a b l ≤ L * (b + hi - p) := by
  induction l generalizing p t with
  | nil =>
    rw [winBytes_nil]
    exact Rat.mul_nonneg (Rat.le_of_lt hL) (by grind)
  | cons o r ih =>
    rw [winBytes_cons]
    obtain ⟨hc1, hc2⟩ := hc
    obtain ⟨hm1, hm2⟩ := hm
    have hΨ := hhi o (by simp)
    have hr : ∀ o ∈ r, Ψ o ≤ τ o + hi := fun o ho => hhi o (by simp [ho])
    by_cases hb : τ o ≤ b
    · have := ih (Ψ o) (τ o) hc2 hm2 hr (by grind)
      have hle : (if a ≤ τ o ∧ τ o ≤ b then (o.bytes : Rat) else 0) ≤ o.bytes := by
        have : (0 : Rat) ≤ o.bytes := by exact_mod_cast Nat.zero_le _
        split <;> grind
      have e1 : L * (Ψ o - p) = L * Ψ o - L * p := by grind
      have e2 : L * (b + hi - Ψ o) = L * b + L * hi - L * Ψ o := by grind
      have e3 : L * (b + hi - p) = L * b + L * hi - L * p := by grind
      grind
    · have h0 := win_empty_of_late τ a b (τ o) r hm2 (by grind)
      have hno : ¬(a ≤ τ o ∧ τ o ≤ b) := by grind
      simp only [hno, if_false, h0]
      have : 0 ≤ L * (b + hi - p) := Rat.mul_nonneg (Rat.le_of_lt hL) (by grind)
      grind

/-- **window bound from a potential chain** -/
theorem window_of_chain (L : Rat) (hL : 0 < L) (Ψ τ : Obs → Rat) (lo hi : Rat) (dmax : Nat) (a b p t : Rat) (l : List Obs)
    (hab : a ≤ b) (hlohi : lo ≤ hi)
    (hc : Chain L Ψ p l) (hm : Mono τ t l) (hhi : ∀ o ∈ l, Ψ o ≤ τ o + hi) (hlo : ∀ o ∈ l, τ o + lo ≤ Ψ o)
    (hsm : ∀ o ∈ l, o.bytes ≤ dmax) :
    winBytes τ a b l ≤ L * (b - a + hi - lo) + dmax := by
  induction l generalizing p t with
  | nil =>
    rw [winBytes_nil]
    have : 0 ≤ L * (b - a + hi - lo) := Rat.mul_nonneg (Rat.le_of_lt hL) (by grind)
    have : (0 : Rat) ≤ dmax := by exact_mod_cast Nat.zero_le _
    grind
  | cons o r ih =>
    obtain ⟨hc1, hc2⟩ := hc
    obtain ⟨hm1, hm2⟩ := hm
    have hr1 : ∀ o ∈ r, Ψ o ≤ τ o + hi := fun o ho => hhi o (by simp [ho])
    have hr2 : ∀ o ∈ r, τ o + lo ≤ Ψ o := fun o ho => hlo o (by simp [ho])
    have hr3 : ∀ o ∈ r, o.bytes ≤ dmax := fun o ho => hsm o (by simp [ho])
    rw [winBytes_cons]
    by_cases hin : a ≤ τ o ∧ τ o ≤ b
    · simp only [hin, and_self, if_true]
      have h1 := hhi o (by simp)
      have h2 := hlo o (by simp)
      have h3 : (o.bytes : Rat) ≤ dmax := by exact_mod_cast hsm o (by simp)
      have h4 := chain_prefix L hL Ψ τ hi a b (Ψ o) (τ o) r hc2 hm2 hr1 (by grind)
      have h5 : L * (b + hi - Ψ o) ≤ L * (b - a + hi - lo) := Rat.mul_le_mul_of_nonneg_left (by grind) (Rat.le_of_lt hL)
      grind
    · simp only [hin, if_false]
      have := ih (Ψ o) (τ o) hc2 hm2 hr1 hr2 hr3
      grind

/-! ### from local facts to chains -/
def psi (o : Obs) : Rat := o.tRel + o.debt

theorem chain_of_good (L : Rat) (hL : 0 < L) (eps : Rat) (dmax : Nat) (d0 l0 : Rat) (l : List Obs)
    (hg : GoodTrace L eps dmax d0 l0 l) (ht : Tight l0 l) : Chain L psi (l0 + d0) l := by
  induction l generalizing d0 l0 with
  | nil => trivial
  | cons o r ih =>
    obtain ⟨g, gr⟩ := hg
    obtain ⟨t1, tr⟩ := ht
    refine ⟨?_, ih _ _ gr tr⟩
    have h1 := g.pot
    have h2 : o.lat + o.slept + o.debt - d0 ≤ psi o - (l0 + d0) := by
      unfold psi; rw [g.rel]; grind
    have := Rat.mul_le_mul_of_nonneg_left h2 (Rat.le_of_lt hL)
    grind

theorem mono_rel_of_good (L eps : Rat) (dmax : Nat) (d0 l0 : Rat) (l : List Obs)
    (hg : GoodTrace L eps dmax d0 l0 l) : Mono (·.tRel) l0 l := by
  induction l generalizing d0 l0 with
  | nil => trivial
  | cons o r ih =>
    obtain ⟨g, gr⟩ := hg
    exact ⟨by have := g.acq; have := g.rel; have := g.slept_nonneg; grind, ih _ _ gr⟩

theorem mono_acq_of_good (L eps : Rat) (dmax : Nat) (d0 l0 : Rat) (l : List Obs)
    (hg : GoodTrace L eps dmax d0 l0 l) : Mono (·.tAcq) l0 l := by
  induction l generalizing d0 l0 with
  | nil => trivial
  | cons o r ih =>
    obtain ⟨g, gr⟩ := hg
    refine ⟨g.acq, ?_⟩
    have := ih _ _ gr
    exact mono_weaken _ _ _ _ (by have := g.rel; have := g.slept_nonneg; grind) this

theorem good_forall (L eps : Rat) (dmax : Nat) (d0 l0 : Rat) (l : List Obs)
    (hg : GoodTrace L eps dmax d0 l0 l) : ∀ o ∈ l, ∃ d l', Good L eps dmax d l' o := by
  induction l generalizing d0 l0 with
  | nil => simp
  | cons o r ih =>
    obtain ⟨g, gr⟩ := hg
    intro o' ho'
    rcases List.mem_cons.mp ho' with h | h
    · subst h; exact ⟨_, _, g⟩
    · exact ih _ _ gr o' h

/-- debt after the last observation -/
def lastDebt : Rat → List Obs → Rat
  | d0, [] => d0
  | _, o :: r => lastDebt o.debt r

theorem lastDebt_le (L eps : Rat) (dmax : Nat) (d0 l0 : Rat) (l : List Obs)
    (hg : GoodTrace L eps dmax d0 l0 l) (hd0 : d0 ≤ Gen.pauseThreshold) : lastDebt d0 l ≤ Gen.pauseThreshold := by
  induction l generalizing d0 l0 with
  | nil => exact hd0
  | cons o r ih => exact ih _ _ hg.2 hg.1.debt_hi

theorem general_sum (L eps : Rat) (dmax : Nat) (d0 l0 : Rat) (l : List Obs)
    (hg : GoodTrace L eps dmax d0 l0 l) :
    sumBytes l ≤ L * (sumLat l + sumSlept l) + L * lastDebt d0 l - L * d0 := by
  induction l generalizing d0 l0 with
  | nil => simp [sumBytes, sumLat, sumSlept, lastDebt]; grind
  | cons o r ih =>
    obtain ⟨g, gr⟩ := hg
    have := ih _ _ gr
    rw [sumBytes_cons, sumLat_cons, sumSlept_cons]
    simp only [lastDebt]
    have h1 := g.pot
    have e1 : L * (o.lat + o.slept + o.debt - d0) = L * o.lat + L * o.slept + L * o.debt - L * d0 := by grind
    have e2 : L * (o.lat + sumLat r + (o.slept + sumSlept r)) = L * o.lat + L * o.slept + L * (sumLat r + sumSlept r) := by grind
    grind

/-- the general inequality: bytes of a stretch of calls ≤ `L · (latencies + sleeps) + L · (threshold + eps)` -/
theorem general_of_good (L : Rat) (hL : 0 < L) (eps : Rat) (dmax : Nat) (d0 l0 : Rat) (l : List Obs)
    (hg : GoodTrace L eps dmax d0 l0 l) (hlo : -eps ≤ d0) (hhi : d0 ≤ Gen.pauseThreshold) :
    sumBytes l ≤ L * (sumLat l + sumSlept l) + L * (Gen.pauseThreshold + eps) := by
  have h1 := general_sum L eps dmax d0 l0 l hg
  have h2 := lastDebt_le L eps dmax d0 l0 l hg hhi
  have h3 : L * lastDebt d0 l ≤ L * Gen.pauseThreshold := Rat.mul_le_mul_of_nonneg_left h2 (Rat.le_of_lt hL)
  have h4 : L * (-eps) ≤ L * d0 := Rat.mul_le_mul_of_nonneg_left hlo (Rat.le_of_lt hL)
  have e1 : L * (Gen.pauseThreshold + eps) = L * Gen.pauseThreshold - L * (-eps) := by grind
  grind

end Replicat.RateLimit
