import ReplicatProofs.Lemmas.RetryPolicy
/-!
Helper lemmas for C12: the whole call (`runUp`, `runDown`) for an arbitrary configuration that satisfies the soundness
conditions.  `Properties/C12.lean` instantiates them with the extracted configuration `cfgOf b`.
-/
set_option linter.unusedSimpArgs false
set_option linter.unusedVariables false
namespace Replicat.Retry

/-! ## classes of exceptions and the policy's answer to them -/

/-- the exceptions attempts raise: OSError for the local adapter, transport errors and statuses (through B2's hook) otherwise -/
def ErrClass (b : Backend) (cfg : Cfg) (S : Nat → Prop) (e : Err) : Prop :=
  (b = .local ∧ ∃ k, e = .os k) ∨ (b ≠ .local ∧ HttpErr cfg S e)

/-- how `requires_auth` and the response hook are set up: S3 / local have neither, B2 has both -/
def AuthSound (b : Backend) (cfg : Cfg) (ra : Bool) : Prop :=
  (b ≠ .b2 → cfg.hookAuthStatus = none ∧ ra = false) ∧ (b = .b2 → ra = true ∧ cfg.reauthOnAuthRequired = true)

def UpAuthSound (b : Backend) (cfg : Cfg) : Prop :=
  (b ≠ .b2 → cfg.hookAuthStatus = none) ∧ (b = .b2 → cfg.upRequiresAuth = true ∧ cfg.reauthOnAuthRequired = true)

def DownAuthSound (b : Backend) (cfg : Cfg) : Prop :=
  (b ≠ .b2 → cfg.hookAuthStatus = none) ∧ (b = .b2 → cfg.downRequiresAuth = true ∧ cfg.reauthOnAuthRequired = true)

instance (b : Backend) (cfg : Cfg) : Decidable (UpAuthSound b cfg) := by unfold UpAuthSound; infer_instance
instance (b : Backend) (cfg : Cfg) : Decidable (DownAuthSound b cfg) := by unfold DownAuthSound; infer_instance

theorem authSound_up (b : Backend) (cfg : Cfg) (h : UpAuthSound b cfg) : AuthSound b cfg (b == .b2 && cfg.upRequiresAuth) := by
  refine ⟨fun hb => ⟨h.1 hb, ?_⟩, fun hb => ⟨?_, (h.2 hb).2⟩⟩
  · cases b <;> simp at hb ⊢
  · subst hb; simp [(h.2 rfl).1]

theorem authSound_down (b : Backend) (cfg : Cfg) (h : DownAuthSound b cfg) : AuthSound b cfg (b == .b2 && cfg.downRequiresAuth) := by
  refine ⟨fun hb => ⟨h.1 hb, ?_⟩, fun hb => ⟨?_, (h.2 hb).2⟩⟩
  · cases b <;> simp at hb ⊢
  · subst hb; simp [(h.2 rfl).1]

/-- status codes that are not the give-up status -/
def NotGiveup (cfg : Cfg) (code : Nat) : Prop := cfg.giveupStatus ≠ some code

/-- below the limit every transient exception leads to another attempt (in place, or through `requires_auth`) -/
theorem policy_masked (b : Backend) (cfg : Cfg) (dec ra : Bool) (hs : PolSound cfg dec) (ha : AuthSound b cfg ra) (e : Err)
    (he : ErrClass b cfg (NotGiveup cfg) e) (tries rounds : Nat) (ht : tries < cfg.budget) (hA : reauthAllowed cfg rounds = true) :
    (∃ x, policy b cfg dec ra e tries rounds = .retry x) ∨ (∃ x, policy b cfg dec ra e tries rounds = .reauth x) := by
  have hne : tries ≠ cfg.budget := by omega
  rcases he with ⟨rfl, k, rfl⟩ | ⟨hb, he⟩
  · rw [policy_local_os cfg dec ra hs, if_neg hne]; exact Or.inl ⟨false, rfl⟩
  · rcases he with rfl | ⟨code, r, hS, rfl⟩
    · rw [policy_http_transport b hb cfg dec ra hs, if_neg hne]; exact Or.inl ⟨false, rfl⟩
    · cases b with
      | «local» => exact absurd rfl hb
      | s3 =>
        have hh := (ha.1 (by decide)).1
        have : hook cfg code r = .status code r := by simp [hook, hh]
        rw [this, policy_s3_status cfg dec ra hs, if_neg (by intro h; rcases h with h | h; exact hS h; exact hne h)]
        exact Or.inl ⟨false, rfl⟩
      | b2 =>
        obtain ⟨hra, hro⟩ := ha.2 rfl
        unfold hook
        by_cases hh : cfg.hookAuthStatus = some code
        · rw [if_pos hh, policy_auth]
          simp only [hra, hro, hA, Bool.and_self, if_true]
          exact Or.inr ⟨false, rfl⟩
        · rw [if_neg hh, policy_b2_status cfg dec ra hs code r tries rounds hS hne]
          by_cases hp : cfg.plainRetryStatus = some code
          · rw [if_pos hp]; exact Or.inl ⟨_, rfl⟩
          · rw [if_neg hp]
            by_cases hr : cfg.handlerRaisesAuth = true
            · rw [if_pos hr]
              simp only [hra, hro, hA, Bool.and_self, if_true]
              exact Or.inr ⟨_, rfl⟩
            · rw [if_neg hr]; exact Or.inl ⟨_, rfl⟩

/-- status codes that never reach `requires_auth`: everything for S3 / local; for B2 only the plain-retry status (429) and the
give-up status (403), as long as the hook does not turn them into AuthRequired -/
def NoReauthCode (b : Backend) (cfg : Cfg) (code : Nat) : Prop :=
  b = .b2 → cfg.hookAuthStatus ≠ some code ∧ (cfg.plainRetryStatus = some code ∨ cfg.giveupStatus = some code)

theorem policy_at_limit (b : Backend) (cfg : Cfg) (dec ra : Bool) (hs : PolSound cfg dec) (ha : AuthSound b cfg ra) (e : Err)
    (he : ErrClass b cfg (NoReauthCode b cfg) e) (rounds : Nat) :
    ∃ e' s, policy b cfg dec ra e cfg.budget rounds = .raise e' s := by
  rcases he with ⟨rfl, k, rfl⟩ | ⟨hb, he⟩
  · rw [policy_local_os cfg dec ra hs, if_pos rfl]; exact ⟨_, _, rfl⟩
  · rcases he with rfl | ⟨code, r, hS, rfl⟩
    · rw [policy_http_transport b hb cfg dec ra hs, if_pos rfl]; exact ⟨_, _, rfl⟩
    · cases b with
      | «local» => exact absurd rfl hb
      | s3 =>
        have hh := (ha.1 (by decide)).1
        have : hook cfg code r = .status code r := by simp [hook, hh]
        rw [this, policy_s3_status cfg dec ra hs, if_pos (Or.inr rfl)]
        exact ⟨_, _, rfl⟩
      | b2 =>
        have : hook cfg code r = .status code r := by simp [hook, (hS rfl).1]
        rw [this, policy_b2_status_raise cfg dec ra hs code r _ rounds (Or.inr rfl)]
        exact ⟨_, _, rfl⟩

theorem policy_class_no_reauth (b : Backend) (cfg : Cfg) (dec ra : Bool) (hs : PolSound cfg dec) (ha : AuthSound b cfg ra) (e : Err)
    (he : ErrClass b cfg (NoReauthCode b cfg) e) (tries rounds : Nat) (x : Bool) :
    policy b cfg dec ra e tries rounds ≠ .reauth x := by
  cases b with
  | «local» => rw [(ha.1 (by decide)).2]; exact policy_no_reauth _ _ _ _ _ _ _
  | s3 => rw [(ha.1 (by decide)).2]; exact policy_no_reauth _ _ _ _ _ _ _
  | b2 =>
    rcases he with ⟨hb, _⟩ | ⟨_, he⟩
    · cases hb
    · rcases he with rfl | ⟨code, r, hS, rfl⟩
      · rw [policy_http_transport .b2 (by decide) cfg dec ra hs]
        split <;> simp
      · have : hook cfg code r = .status code r := by simp [hook, (hS rfl).1]
        rw [this]
        by_cases hg : cfg.giveupStatus = some code ∨ tries = cfg.budget
        · rw [policy_b2_status_raise cfg dec ra hs code r tries rounds hg]; simp
        · have hg1 : cfg.giveupStatus ≠ some code := fun h => hg (Or.inl h)
          have hg2 : tries ≠ cfg.budget := fun h => hg (Or.inr h)
          have hp : cfg.plainRetryStatus = some code := by
            rcases (hS rfl).2 with h | h
            · exact h
            · exact absurd h hg1
          rw [policy_b2_status cfg dec ra hs code r tries rounds hg1 hg2, if_pos hp]; simp

/-! ## uploads -/

def UpHard (b : Backend) (x : Fault) : Prop :=
  match b with
  | .local => localUpHard x
  | _ => httpUpHard x

theorem upAttempt_spec (b : Backend) (cfg : Cfg) (hs : UpSound b cfg) (c : Nat) (hc : 0 < c) (data : Bytes) (old : Option Bytes)
    (digest : Option Bytes) (hdg : digest = none ∨ digest = some data) (S : Nat → Prop) :
    AttSpec (upAttempt b cfg c data.length digest) (UInv data old) (UGood data) (ErrClass b cfg S) (StatusIn S) := by
  intro f st hinv hall
  cases b with
  | «local» =>
    rcases localUp_spec cfg hs c hc data old f st hinv (fun _ _ => trivial) with h | ⟨e, h1, h2, h3⟩
    · exact Or.inl h
    · exact Or.inr ⟨e, h1, Or.inl ⟨rfl, h2⟩, h3⟩
  | s3 =>
    rcases httpUp_spec cfg .s3 hs c hc data old digest hdg S f st hinv hall with h | ⟨e, h1, h2, h3⟩
    · exact Or.inl h
    · exact Or.inr ⟨e, h1, Or.inr ⟨by decide, h2⟩, h3⟩
  | b2 =>
    rcases httpUp_spec cfg .b2 hs c hc data old digest hdg S f st hinv hall with h | ⟨e, h1, h2, h3⟩
    · exact Or.inl h
    · exact Or.inr ⟨e, h1, Or.inr ⟨by decide, h2⟩, h3⟩

theorem upAttempt_none (b : Backend) (cfg : Cfg) (hs : UpSound b cfg) (c : Nat) (hc : 0 < c) (data : Bytes) (old : Option Bytes)
    (digest : Option Bytes) (hdg : digest = none ∨ digest = some data) (st : UState) (hinv : UInv data old st) :
    (upAttempt b cfg c data.length digest none st).err = none := by
  cases b with
  | «local» => exact localUp_none cfg c hc data old st hinv
  | s3 =>
    rcases httpUp_spec cfg .s3 hs c hc data old digest hdg (fun _ => True) none st hinv (by intro x h; cases h) with h | ⟨e, h1, _, _⟩
    · exact h.1
    · exact absurd h1 (by
        obtain ⟨hsrc, _, _⟩ := hinv
        obtain ⟨src, visible, temps⟩ := st
        simp only at hsrc; subst hsrc
        have hdok : digestMatches digest data = true := by rcases hdg with h | h <;> simp [h, digestMatches]
        simp [upAttempt, httpUp, readChunks_full c hc data, hdok])
  | b2 =>
    rcases httpUp_spec cfg .b2 hs c hc data old digest hdg (fun _ => True) none st hinv (by intro x h; cases h) with h | ⟨e, h1, _, _⟩
    · exact h.1
    · exact absurd h1 (by
        obtain ⟨hsrc, _, _⟩ := hinv
        obtain ⟨src, visible, temps⟩ := st
        simp only at hsrc; subst hsrc
        have hdok : digestMatches digest data = true := by rcases hdg with h | h <;> simp [h, digestMatches]
        simp [upAttempt, httpUp, readChunks_full c hc data, hdok])

theorem upAttempt_hard (b : Backend) (cfg : Cfg) (c : Nat) (hc : 0 < c) (data : Bytes) (old : Option Bytes)
    (digest : Option Bytes) (hdg : digest = none ∨ digest = some data) (x : Fault) (st : UState) (hinv : UInv data old st)
    (hx : UpHard b x) : (upAttempt b cfg c data.length digest (some x) st).err ≠ none := by
  cases b with
  | «local» => exact localUp_hard cfg c hc data old x st hinv hx
  | s3 => exact httpUp_hard cfg c hc data old digest hdg x st hinv hx
  | b2 => exact httpUp_hard cfg c hc data old digest hdg x st hinv hx

/-- the digest the S3 upload signs -/
def upDigest (b : Backend) (data : Bytes) : Option Bytes := match b with | .s3 => some data | _ => none

theorem upDigest_ok (b : Backend) (data : Bytes) : upDigest b data = none ∨ upDigest b data = some data := by
  cases b <;> simp [upDigest]

/-- with the stream at 0 and the digest helper rewinding to 0 the call is the loop over the attempts, started in `UInv` -/
theorem runUp_eq (b : Backend) (cfg : Cfg) (hs : UpSound b cfg) (c fuel : Nat) (plan : List Fault) (data : Bytes) (old : Option Bytes) :
    runUp b cfg c fuel plan data 0 data.length old =
      loop (upAttempt b cfg c data.length (upDigest b data)) (upPolicy b cfg) (·.visible) fuel 1 0 plan ⟨⟨data, 0⟩, old, 0⟩ := by
  cases b with
  | «local» => rfl
  | b2 => rfl
  | s3 =>
    have hd := hs.2.2.2 rfl
    simp [runUp, s3Digest, hd, Src.rewind, upDigest]

theorem uinv_start (data : Bytes) (old : Option Bytes) : UInv data old ⟨⟨data, 0⟩, old, 0⟩ := ⟨rfl, rfl, Or.inl rfl⟩

/-- room for as many re-authentication rounds as the plan can trigger -/
def ReauthRoom (cfg : Cfg) (n : Nat) : Prop := ∀ l, cfg.reauthLimit = some l → n ≤ l

theorem reauthRoom_allowed (cfg : Cfg) (n : Nat) (h : ReauthRoom cfg n) (r : Nat) (hr : r < n) : reauthAllowed cfg r = true := by
  unfold reauthAllowed
  cases hl : cfg.reauthLimit with
  | none => rfl
  | some l => have := h l hl; simp; omega

theorem statusIn_mono (S T : Nat → Prop) (h : ∀ c, S c → T c) (x : Fault) (hx : StatusIn S x) : StatusIn T x :=
  fun code ra e => h code (hx code ra e)

theorem runUp_masked (b : Backend) (cfg : Cfg) (hs : UpSound b cfg) (hp : PolSound cfg cfg.upDecorated) (ha : UpAuthSound b cfg)
    (c : Nat) (hc : 0 < c) (data : Bytes) (old : Option Bytes) (plan : List Fault) (fuel : Nat)
    (htr : ∀ x ∈ plan, StatusIn (NotGiveup cfg) x) (hlen : plan.length < cfg.budget) (hfuel : plan.length < fuel)
    (hroom : ReauthRoom cfg plan.length) :
    (runUp b cfg c fuel plan data 0 data.length old).outcome = .ok ∧
    UGood data (runUp b cfg c fuel plan data 0 data.length old).final ∧
    (runUp b cfg c fuel plan data 0 data.length old).attempts ≤ plan.length + 1 ∧
    ((∀ x ∈ plan, UpHard b x) → (runUp b cfg c fuel plan data 0 data.length old).attempts = plan.length + 1) := by
  rw [runUp_eq b cfg hs]
  exact loop_masked _ _ _ (UInv data old) (UGood data) (ErrClass b cfg (NotGiveup cfg)) (StatusIn (NotGiveup cfg)) (UpHard b) cfg.budget
    (fun r => reauthAllowed cfg r = true)
    (upAttempt_spec b cfg hs c hc data old _ (upDigest_ok b data) _)
    (fun st h => upAttempt_none b cfg hs c hc data old _ (upDigest_ok b data) st h)
    (fun x st h hx => upAttempt_hard b cfg c hc data old _ (upDigest_ok b data) x st h hx)
    (fun e tries rounds he ht hA => policy_masked b cfg _ _ hp (authSound_up b cfg ha) e he tries rounds ht hA)
    plan fuel 1 0 _ (uinv_start data old) htr (by omega) (by omega) hfuel
    (fun r hr => reauthRoom_allowed cfg plan.length hroom r (by omega))

/-- whatever the plan: after every attempt the object is the previous one or the complete payload, and no temp file stays -/
theorem runUp_never_partial (b : Backend) (cfg : Cfg) (hs : UpSound b cfg) (c : Nat) (hc : 0 < c) (data : Bytes) (old : Option Bytes)
    (plan : List Fault) (fuel : Nat) :
    (∀ v ∈ (runUp b cfg c fuel plan data 0 data.length old).history, v = old ∨ v = some data) ∧
    (runUp b cfg c fuel plan data 0 data.length old).final.temps = 0 ∧
    ((runUp b cfg c fuel plan data 0 data.length old).final.visible = old ∨
      (runUp b cfg c fuel plan data 0 data.length old).final.visible = some data) := by
  rw [runUp_eq b cfg hs]
  have hatt := upAttempt_spec b cfg hs c hc data old _ (upDigest_ok b data) (fun _ => True)
  have hall : ∀ x ∈ plan, StatusIn (fun _ => True) x := fun _ _ _ _ _ => trivial
  refine ⟨?_, ?_⟩
  · refine loop_history _ _ _ (UInv data old) (UGood data) _ _ (fun v => v = old ∨ v = some data) hatt ?_ fuel plan 1 0 _ (uinv_start data old) hall
    intro f st hinv hf
    rcases hatt f st hinv hf with ⟨_, h⟩ | ⟨e, _, _, h⟩
    · exact Or.inr h.2.2
    · exact h.2.2
  · rcases loop_final _ (upPolicy b cfg) (·.visible) (UInv data old) (UGood data) _ _ hatt fuel plan 1 0 _ (uinv_start data old) hall with h | h
    · exact ⟨h.2.1, h.2.2⟩
    · exact ⟨h.2.1, Or.inr h.2.2⟩

theorem statusIn_noReauth_local (b : Backend) (hb : b ≠ .b2) (cfg : Cfg) (x : Fault) : StatusIn (NoReauthCode b cfg) x :=
  fun _ _ _ h => absurd h hb

theorem runUp_bounded (b : Backend) (cfg : Cfg) (hs : UpSound b cfg) (hp : PolSound cfg cfg.upDecorated) (ha : UpAuthSound b cfg)
    (c : Nat) (hc : 0 < c) (data : Bytes) (old : Option Bytes) (plan : List Fault) (fuel : Nat)
    (hcl : ∀ x ∈ plan, StatusIn (NoReauthCode b cfg) x) :
    (runUp b cfg c fuel plan data 0 data.length old).attempts ≤ cfg.budget := by
  rw [runUp_eq b cfg hs]
  have := loop_bounded _ (upPolicy b cfg) (·.visible) (UInv data old) (UGood data) (ErrClass b cfg (NoReauthCode b cfg)) (StatusIn (NoReauthCode b cfg)) cfg.budget
    (upAttempt_spec b cfg hs c hc data old _ (upDigest_ok b data) _)
    (fun e rounds he => policy_at_limit b cfg _ _ hp (authSound_up b cfg ha) e he rounds)
    (fun e tries rounds x he => policy_class_no_reauth b cfg _ _ hp (authSound_up b cfg ha) e he tries rounds x)
    fuel plan 1 0 _ (uinv_start data old) hcl hp.2.1
  omega

theorem runUp_persistent (b : Backend) (cfg : Cfg) (hs : UpSound b cfg) (hp : PolSound cfg cfg.upDecorated) (ha : UpAuthSound b cfg)
    (c : Nat) (hc : 0 < c) (data : Bytes) (old : Option Bytes) (plan : List Fault) (fuel : Nat)
    (hcl : ∀ x ∈ plan, StatusIn (NoReauthCode b cfg) x ∧ UpHard b x) (hlen : cfg.budget ≤ plan.length) (hfuel : cfg.budget ≤ fuel) :
    ∃ e, (runUp b cfg c fuel plan data 0 data.length old).outcome = .error e := by
  rw [runUp_eq b cfg hs]
  exact loop_persistent _ (upPolicy b cfg) (·.visible) (UInv data old) (UGood data) (ErrClass b cfg (NoReauthCode b cfg)) (StatusIn (NoReauthCode b cfg)) (UpHard b) cfg.budget
    (upAttempt_spec b cfg hs c hc data old _ (upDigest_ok b data) _)
    (fun x st h hx => upAttempt_hard b cfg c hc data old _ (upDigest_ok b data) x st h hx)
    (fun e rounds he => policy_at_limit b cfg _ _ hp (authSound_up b cfg ha) e he rounds)
    (fun e tries rounds x he => policy_class_no_reauth b cfg _ _ hp (authSound_up b cfg ha) e he tries rounds x)
    plan fuel 1 0 _ (uinv_start data old) hcl hp.2.1 (by omega) (by have := hp.2.1; omega)

theorem runUp_fuel_enough (b : Backend) (cfg : Cfg) (hs : UpSound b cfg) (c : Nat) (hc : 0 < c) (data : Bytes) (old : Option Bytes)
    (plan : List Fault) (fuel : Nat) (hfuel : plan.length < fuel) :
    (runUp b cfg c fuel plan data 0 data.length old).outcome ≠ .fuel := by
  rw [runUp_eq b cfg hs]
  exact loop_fuel_enough _ (upPolicy b cfg) (·.visible) (UInv data old) (UGood data) (ErrClass b cfg (fun _ => True)) (StatusIn (fun _ => True))
    (upAttempt_spec b cfg hs c hc data old _ (upDigest_ok b data) _)
    (fun st h => upAttempt_none b cfg hs c hc data old _ (upDigest_ok b data) st h)
    plan fuel 1 0 _ (uinv_start data old) (fun _ _ _ _ _ => trivial) hfuel

theorem runUp_attempts_le (b : Backend) (cfg : Cfg) (hs : UpSound b cfg) (c : Nat) (hc : 0 < c) (data : Bytes) (old : Option Bytes)
    (plan : List Fault) (fuel : Nat) :
    (runUp b cfg c fuel plan data 0 data.length old).attempts ≤ plan.length + 1 := by
  rw [runUp_eq b cfg hs]
  exact loop_attempts_le _ (upPolicy b cfg) (·.visible) (UInv data old) (UGood data) (ErrClass b cfg (fun _ => True)) (StatusIn (fun _ => True))
    (upAttempt_spec b cfg hs c hc data old _ (upDigest_ok b data) _)
    (fun st h => upAttempt_none b cfg hs c hc data old _ (upDigest_ok b data) st h)
    plan fuel 1 0 _ (uinv_start data old) (fun _ _ _ _ _ => trivial)

theorem runUp_bounded_reauth (b : Backend) (cfg : Cfg) (hm : cfg.maxTries = some cfg.budget) (hb : 1 ≤ cfg.budget) (l : Nat)
    (hl : cfg.reauthLimit = some l) (c fuel : Nat) (plan : List Fault) (data : Bytes) (pos0 declared : Nat) (old : Option Bytes) :
    (runUp b cfg c fuel plan data pos0 declared old).attempts ≤ (l + 1) * cfg.budget := by
  have key : ∀ (att : Option Fault → UState → Att UState) (st : UState),
      (loop att (upPolicy b cfg) (·.visible) fuel 1 0 plan st).attempts ≤ (l + 1) * cfg.budget := by
    intro att st
    have := loop_bounded_reauth att (upPolicy b cfg) (·.visible) cfg.budget l hb
      (fun e rounds x => policy_no_retry_at_limit b cfg _ _ hm e rounds x)
      (fun e tries rounds x h => by
        have := policy_reauth_allowed b cfg _ _ e tries rounds x h
        simp only [reauthAllowed, hl, decide_eq_true_eq] at this
        exact this)
      fuel plan 1 0 l st (by omega) hb
    omega
  cases b with
  | «local» => exact key _ _
  | s3 => exact key _ _
  | b2 => exact key _ _

/-! ## downloads -/

def DownHard (b : Backend) (x : Fault) : Prop :=
  match b with
  | .local => localDownHard x
  | _ => httpDownHard x

theorem downAttempt_spec (b : Backend) (cfg : Cfg) (hs : DownSound cfg) (c : Nat) (hc : 0 < c) (obj : Bytes) (S : Nat → Prop) :
    AttSpec (downAttempt b cfg c obj) DInv (DGood obj) (ErrClass b cfg S) (StatusIn S) := by
  intro f st hinv hall
  cases b with
  | «local» =>
    rcases localDown_spec cfg hs c hc obj f st hinv (fun _ _ => trivial) with h | ⟨e, h1, h2, h3⟩
    · exact Or.inl h
    · exact Or.inr ⟨e, h1, Or.inl ⟨rfl, h2⟩, h3⟩
  | s3 =>
    rcases httpDown_spec cfg hs c hc obj S f st hinv hall with h | ⟨e, h1, h2, h3⟩
    · exact Or.inl h
    · exact Or.inr ⟨e, h1, Or.inr ⟨by decide, h2⟩, h3⟩
  | b2 =>
    rcases httpDown_spec cfg hs c hc obj S f st hinv hall with h | ⟨e, h1, h2, h3⟩
    · exact Or.inl h
    · exact Or.inr ⟨e, h1, Or.inr ⟨by decide, h2⟩, h3⟩

theorem downAttempt_none (b : Backend) (cfg : Cfg) (hs : DownSound cfg) (c : Nat) (hc : 0 < c) (obj : Bytes) (st : Sink) (hinv : DInv st) :
    (downAttempt b cfg c obj none st).err = none := by
  cases b with
  | «local» => exact localDown_none cfg hs c hc obj st hinv
  | s3 => rfl
  | b2 => rfl

theorem downAttempt_hard (b : Backend) (cfg : Cfg) (hs : DownSound cfg) (c : Nat) (obj : Bytes) (x : Fault) (st : Sink)
    (hx : DownHard b x) : (downAttempt b cfg c obj (some x) st).err ≠ none := by
  cases b with
  | «local» => exact localDown_hard cfg hs c obj x st hx
  | s3 => exact httpDown_hard cfg c obj x st hx
  | b2 => exact httpDown_hard cfg c obj x st hx

theorem runDown_masked (b : Backend) (cfg : Cfg) (hs : DownSound cfg) (hp : PolSound cfg cfg.downDecorated) (ha : DownAuthSound b cfg)
    (c : Nat) (hc : 0 < c) (obj sink0 : Bytes) (file : Bool) (plan : List Fault) (fuel : Nat)
    (htr : ∀ x ∈ plan, StatusIn (NotGiveup cfg) x) (hlen : plan.length < cfg.budget) (hfuel : plan.length < fuel)
    (hroom : ReauthRoom cfg plan.length) :
    (runDown b cfg c fuel plan obj sink0 0 file).outcome = .ok ∧
    DGood obj (runDown b cfg c fuel plan obj sink0 0 file).final ∧
    (runDown b cfg c fuel plan obj sink0 0 file).attempts ≤ plan.length + 1 ∧
    ((∀ x ∈ plan, DownHard b x) → (runDown b cfg c fuel plan obj sink0 0 file).attempts = plan.length + 1) := by
  unfold runDown
  exact loop_masked _ _ _ DInv (DGood obj) (ErrClass b cfg (NotGiveup cfg)) (StatusIn (NotGiveup cfg)) (DownHard b) cfg.budget
    (fun r => reauthAllowed cfg r = true)
    (downAttempt_spec b cfg hs c hc obj _)
    (fun st h => downAttempt_none b cfg hs c hc obj st h)
    (fun x st _ hx => downAttempt_hard b cfg hs c obj x st hx)
    (fun e tries rounds he ht hA => policy_masked b cfg _ _ hp (authSound_down b cfg ha) e he tries rounds ht hA)
    plan fuel 1 0 _ rfl htr (by omega) (by omega) hfuel
    (fun r hr => reauthRoom_allowed cfg plan.length hroom r (by omega))

theorem runDown_bounded (b : Backend) (cfg : Cfg) (hs : DownSound cfg) (hp : PolSound cfg cfg.downDecorated) (ha : DownAuthSound b cfg)
    (c : Nat) (hc : 0 < c) (obj sink0 : Bytes) (file : Bool) (plan : List Fault) (fuel : Nat)
    (hcl : ∀ x ∈ plan, StatusIn (NoReauthCode b cfg) x) :
    (runDown b cfg c fuel plan obj sink0 0 file).attempts ≤ cfg.budget := by
  unfold runDown
  have := loop_bounded _ (downPolicy b cfg) (fun k => some k.buf) DInv (DGood obj) (ErrClass b cfg (NoReauthCode b cfg)) (StatusIn (NoReauthCode b cfg)) cfg.budget
    (downAttempt_spec b cfg hs c hc obj _)
    (fun e rounds he => policy_at_limit b cfg _ _ hp (authSound_down b cfg ha) e he rounds)
    (fun e tries rounds x he => policy_class_no_reauth b cfg _ _ hp (authSound_down b cfg ha) e he tries rounds x)
    fuel plan 1 0 ⟨sink0, 0, file⟩ rfl hcl hp.2.1
  omega

theorem runDown_persistent (b : Backend) (cfg : Cfg) (hs : DownSound cfg) (hp : PolSound cfg cfg.downDecorated) (ha : DownAuthSound b cfg)
    (c : Nat) (hc : 0 < c) (obj sink0 : Bytes) (file : Bool) (plan : List Fault) (fuel : Nat)
    (hcl : ∀ x ∈ plan, StatusIn (NoReauthCode b cfg) x ∧ DownHard b x) (hlen : cfg.budget ≤ plan.length) (hfuel : cfg.budget ≤ fuel) :
    ∃ e, (runDown b cfg c fuel plan obj sink0 0 file).outcome = .error e := by
  unfold runDown
  exact loop_persistent _ (downPolicy b cfg) (fun k => some k.buf) DInv (DGood obj) (ErrClass b cfg (NoReauthCode b cfg)) (StatusIn (NoReauthCode b cfg)) (DownHard b) cfg.budget
    (downAttempt_spec b cfg hs c hc obj _)
    (fun x st _ hx => downAttempt_hard b cfg hs c obj x st hx)
    (fun e rounds he => policy_at_limit b cfg _ _ hp (authSound_down b cfg ha) e he rounds)
    (fun e tries rounds x he => policy_class_no_reauth b cfg _ _ hp (authSound_down b cfg ha) e he tries rounds x)
    plan fuel 1 0 ⟨sink0, 0, file⟩ rfl hcl hp.2.1 (by omega) (by have := hp.2.1; omega)

theorem runDown_fuel_enough (b : Backend) (cfg : Cfg) (hs : DownSound cfg) (c : Nat) (hc : 0 < c) (obj sink0 : Bytes) (file : Bool)
    (plan : List Fault) (fuel : Nat) (hfuel : plan.length < fuel) :
    (runDown b cfg c fuel plan obj sink0 0 file).outcome ≠ .fuel := by
  unfold runDown
  exact loop_fuel_enough _ (downPolicy b cfg) (fun k => some k.buf) DInv (DGood obj) (ErrClass b cfg (fun _ => True)) (StatusIn (fun _ => True))
    (downAttempt_spec b cfg hs c hc obj _)
    (fun st h => downAttempt_none b cfg hs c hc obj st h)
    plan fuel 1 0 ⟨sink0, 0, file⟩ rfl (fun _ _ _ _ _ => trivial) hfuel

theorem runDown_attempts_le (b : Backend) (cfg : Cfg) (hs : DownSound cfg) (c : Nat) (hc : 0 < c) (obj sink0 : Bytes) (file : Bool)
    (plan : List Fault) (fuel : Nat) :
    (runDown b cfg c fuel plan obj sink0 0 file).attempts ≤ plan.length + 1 := by
  unfold runDown
  exact loop_attempts_le _ (downPolicy b cfg) (fun k => some k.buf) DInv (DGood obj) (ErrClass b cfg (fun _ => True)) (StatusIn (fun _ => True))
    (downAttempt_spec b cfg hs c hc obj _)
    (fun st h => downAttempt_none b cfg hs c hc obj st h)
    plan fuel 1 0 ⟨sink0, 0, file⟩ rfl (fun _ _ _ _ _ => trivial)

theorem runDown_bounded_reauth (b : Backend) (cfg : Cfg) (hm : cfg.maxTries = some cfg.budget) (hb : 1 ≤ cfg.budget) (l : Nat)
    (hl : cfg.reauthLimit = some l) (c fuel : Nat) (plan : List Fault) (obj sink0 : Bytes) (spos0 : Nat) (file : Bool) :
    (runDown b cfg c fuel plan obj sink0 spos0 file).attempts ≤ (l + 1) * cfg.budget := by
  unfold runDown
  have := loop_bounded_reauth (downAttempt b cfg c obj) (downPolicy b cfg) (fun k => some k.buf) cfg.budget l hb
    (fun e rounds x => policy_no_retry_at_limit b cfg _ _ hm e rounds x)
    (fun e tries rounds x h => by
      have := policy_reauth_allowed b cfg _ _ e tries rounds x h
      simp only [reauthAllowed, hl, decide_eq_true_eq] at this
      exact this)
    fuel plan 1 0 l ⟨sink0, spos0, file⟩ (by omega) hb
  omega

/-! ## B2: statuses that restart the try counter -/

/-- any number of consecutive answers with a status that is neither the give-up status nor the plain-retry status is "retried"
through `requires_auth`: one attempt and one re-authentication per answer, no back-off sleep, never an error -/
theorem b2_restart_run (cfg : Cfg) (hs : UpSound .b2 cfg) (hp : PolSound cfg cfg.upDecorated) (ha : UpAuthSound .b2 cfg)
    (h2 : 2 ≤ cfg.budget) (hnl : cfg.reauthLimit = none) (hra : cfg.handlerRaisesAuth = true)
    (code : Nat) (hg : cfg.giveupStatus ≠ some code) (hpl : cfg.plainRetryStatus ≠ some code)
    (c : Nat) (hc : 0 < c) (data : Bytes) (old : Option Bytes) :
    ∀ (n fuel rounds : Nat) (st : UState), UInv data old st →
      (loop (upAttempt .b2 cfg c data.length none) (upPolicy .b2 cfg) (·.visible) fuel 1 rounds (List.replicate n (.status code false)) st).outcome
          = (if n < fuel then .ok else .fuel) ∧
      (loop (upAttempt .b2 cfg c data.length none) (upPolicy .b2 cfg) (·.visible) fuel 1 rounds (List.replicate n (.status code false)) st).attempts
          = min (n + 1) fuel ∧
      (loop (upAttempt .b2 cfg c data.length none) (upPolicy .b2 cfg) (·.visible) fuel 1 rounds (List.replicate n (.status code false)) st).sleeps = 0 ∧
      (loop (upAttempt .b2 cfg c data.length none) (upPolicy .b2 cfg) (·.visible) fuel 1 rounds (List.replicate n (.status code false)) st).reauths
          = min n fuel := by
  have hatt := upAttempt_spec .b2 cfg hs c hc data old none (Or.inl rfl) (fun _ => True)
  have hnone := fun st h => upAttempt_none .b2 cfg hs c hc data old none (Or.inl rfl) st h
  obtain ⟨hrq, hro⟩ := ha.2 rfl
  have hpol : ∀ rounds, upPolicy .b2 cfg (hook cfg code false) 1 rounds = .reauth false := by
    intro rounds
    have hallowed : reauthAllowed cfg rounds = true := by simp [reauthAllowed, hnl]
    unfold upPolicy hook
    by_cases hh : cfg.hookAuthStatus = some code
    · rw [if_pos hh, policy_auth]; simp [hrq, hro, hallowed]
    · rw [if_neg hh, policy_b2_status cfg _ _ hp code false 1 rounds hg (by omega), if_neg hpl, if_pos hra]
      simp [hrq, hro, hallowed]
  intro n
  induction n with
  | zero =>
    intro fuel rounds st hinv
    cases fuel with
    | zero => simp [loop]
    | succ fuel =>
      rw [loop_succ]
      simp only [List.replicate_zero, List.head?_nil, hnone st hinv]
      simp
  | succ n ih =>
    intro fuel rounds st hinv
    cases fuel with
    | zero => simp [loop]
    | succ fuel =>
      rw [loop_succ]
      simp only [List.replicate_succ, List.head?_cons, List.tail_cons]
      have herr : (upAttempt .b2 cfg c data.length none (some (.status code false)) st).err = some (hook cfg code false) := by
        obtain ⟨hsrc, _, _⟩ := hinv
        obtain ⟨src, visible, temps⟩ := st
        simp only at hsrc; subst hsrc
        simp [upAttempt, httpUp]
      have hinv' : UInv data old (upAttempt .b2 cfg c data.length none (some (.status code false)) st).st := by
        rcases hatt (some (.status code false)) st hinv (fun _ _ _ _ _ => trivial) with ⟨h, _⟩ | ⟨_, _, _, h⟩
        · rw [herr] at h; cases h
        · exact h
      simp only [herr, hpol rounds, bump_outcome, bump_attempts, bump_sleeps, bump_reauths]
      obtain ⟨r1, r2, r3, r4⟩ := ih fuel (rounds + 1) _ hinv'
      rw [r1, r2, r3, r4]
      refine ⟨?_, ?_, by simp, ?_⟩
      · by_cases h : n < fuel <;> simp [h]
      · omega
      · omega

end Replicat.Retry
