import ReplicatProofs.Lemmas.Sched
/-!
Helper lemmas for C09, system S1″ (slot requests under transfer latency, virtual time).
-/
namespace Replicat.Sched

/-- slots and jobs are conserved, whatever the bound of the request and however much time passes -/
structure LatInv (n jobs : Nat) (σ : Lat) : Prop where
  slots : σ.free + σ.held = n
  jobs : σ.queued + σ.waiting.length + σ.held + σ.done + σ.timedOut = jobs

theorem lat_init_inv (n jobs : Nat) : LatInv n jobs (Lat.init n jobs) := by
  refine ⟨?_, ?_⟩ <;> simp [Lat.init, slotCount_eq]

theorem lat_step_inv (tmo : Option Nat) (n jobs : Nat) (σ : Lat) (e : LatEv) (σ' : Lat)
    (h : LatInv n jobs σ) (hs : Lat.step tmo σ e = some σ') : LatInv n jobs σ' := by
  obtain ⟨h1, h2⟩ := h
  cases e <;> simp only [Lat.step] at hs
  · split at hs
    · cases hs
      refine ⟨h1, ?_⟩
      simp only [List.length_append, List.length_cons, List.length_nil]
      omega
    · cases hs
  · split at hs
    · rename_i t rest hw
      split at hs
      · cases hs
        rw [hw] at h2
        simp only [List.length_cons] at h2
        exact ⟨by simp only; omega, by simp only; omega⟩
      · cases hs
    · cases hs
  · split at hs
    · cases hs
      exact ⟨by simp only; omega, by simp only; omega⟩
    · cases hs
  · cases hs
    exact ⟨h1, h2⟩
  · split at hs
    · rename_i T t rest _ hw
      split at hs
      · cases hs
        rw [hw] at h2
        simp only [List.length_cons] at h2
        exact ⟨h1, by simp only; omega⟩
      · cases hs
    · cases hs

/-- an unbounded request never gives up -/
theorem lat_step_no_timeout (σ : Lat) (e : LatEv) (σ' : Lat) (hs : Lat.step none σ e = some σ') : σ'.timedOut = σ.timedOut := by
  cases e <;> simp only [Lat.step] at hs
  · split at hs <;> cases hs; rfl
  · split at hs
    · split at hs <;> cases hs; rfl
    · cases hs
  · split at hs <;> cases hs; rfl
  · cases hs; rfl
  · cases hs

/-- unless everything is over, something other than the passage of time can happen (given at least one slot) -/
theorem lat_progress (tmo : Option Nat) (n jobs : Nat) (hn : 0 < n) (σ : Lat) (h : LatInv n jobs σ) (hq : σ.quiet = false) :
    ∃ e ∈ Lat.moves, (Lat.step tmo σ e).isSome = true := by
  obtain ⟨h1, _⟩ := h
  by_cases hqd : 0 < σ.queued
  · exact ⟨.request, by simp [Lat.moves], by simp [Lat.step, hqd]⟩
  · by_cases hh : 0 < σ.held
    · exact ⟨.finish, by simp [Lat.moves], by simp [Lat.step, hh]⟩
    · have hf : 0 < σ.free := by omega
      cases hw : σ.waiting with
      | nil =>
        exfalso
        have h0 : σ.queued = 0 := by omega
        have h3 : σ.held = 0 := by omega
        simp [Lat.quiet, hw, h0, h3] at hq
      | cons t rest =>
        exact ⟨.grant, by simp [Lat.moves], by simp [Lat.step, hw, hf]⟩

end Replicat.Sched
