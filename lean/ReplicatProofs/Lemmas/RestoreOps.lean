import ReplicatProofs.Lemmas.Restore
/-! Helper lemmas for `_write_file_part` seen as the operation list read from the source (`Gen.writePartOps`, `runW`). -/
namespace Replicat
open List

theorem setLength_of_ge (cur : Bytes) (n : Nat) (h : cur.length ≤ n) :
    setLength cur n = cur ++ List.replicate (n - cur.length) 0 := by
  unfold setLength
  apply take_of_length_le
  simp; omega

theorem writeAt_of_le (cur : Bytes) (pos : Nat) (data : Bytes) (h : pos ≤ cur.length) :
    writeAt cur pos data = cur.take pos ++ data ++ cur.drop (pos + data.length) := by
  unfold writeAt
  have : pos - cur.length = 0 := by omega
  simp [this]

/-- the straight line `seek(0, SEEK_END); truncate(max(file_end, offset+len)); seek(offset); write(data)` is `writePart` -/
theorem runW_straight (leave : Bytes → Bool) (old : Bytes) (off : Nat) (data : Bytes) (p0 e0 : Nat) :
    runW leave off data [.seekEnd, .truncate, .seekOffset, .writeData] ⟨old, p0, e0⟩ = writePart old off data := by
  simp only [runW, stepW]
  rw [setLength_of_ge old _ (by rw [Gen.writeTruncate_eq]; omega)]
  rw [writeAt_of_le _ _ _ (by simp [Gen.writeTruncate_eq]; omega)]
  rfl

/-- with a data-dependent exit between the truncate and the write the old bytes of the range survive whenever it is taken -/
theorem runW_leave_keeps_old (old : Bytes) (off : Nat) (data : Bytes) (h : off + data.length ≤ old.length) :
    runW (fun _ => true) off data [.seekEnd, .truncate, .branch, .seekOffset, .writeData] ⟨old, 0, 0⟩ = old := by
  simp only [runW, stepW, if_true]
  rw [setLength_of_ge old _ (by rw [Gen.writeTruncate_eq]; omega)]
  have : Gen.writeTruncate old.length off data.length - old.length = 0 := by rw [Gen.writeTruncate_eq]; omega
  simp [this]

end Replicat
