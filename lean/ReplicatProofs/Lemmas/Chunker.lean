import ReplicatModel.Chunker
/-! Helper lemmas for the chunker model (core Lean only). -/
namespace Replicat

/-! ### bridge lemmas: the generated (translated) guards have the shape the proofs rely on.
If an edit to src/adapters.cpp changes one of them, these stop compiling (a broken proof obligation). -/
theorem Gen.scanStart_eq : Gen.scanStart = 4 := rfl
theorem Gen.scanStride_eq : Gen.scanStride = 4 := rfl
theorem Gen.scanInit_eq : (Gen.scanInitIndex, Gen.scanInitValue) = (0, 0) := rfl
theorem Gen.windowBack_eq : Gen.windowBack = 4 := rfl
theorem Gen.windowLen_eq : Gen.windowLen = 8 := rfl
theorem Gen.scanContinue_iff (i mn mx : Nat) : Gen.scanContinue i mn mx = true ↔ i < mx := by
  simp [Gen.scanContinue]
theorem Gen.isTail_iff (f : Bool) (s mn mx : Nat) : Gen.isTail f s mn mx = true ↔ (f = true ∧ s < 2 * mx) := by
  simp [Gen.isTail]
theorem Gen.tailCut_eq (s mn mx : Nat) :
    Gen.tailCut s mn mx = if s ≤ mx then s else if s < mx + mn then s / 2 else mx := by
  simp [Gen.tailCut]
theorem Gen.waits_iff (f : Bool) (s mn mx : Nat) : Gen.waits f s mn mx = true ↔ (f = false ∧ s < ceil4 mx) := by
  simp [Gen.waits, ceil4]
theorem Gen.waitRet_eq (s mn mx : Nat) : Gen.waitRet s mn mx = 0 := rfl
theorem Gen.needForce_iff (mi mn mx : Nat) : Gen.needForce mi mn mx = true ↔ mi < mn := by
  simp [Gen.needForce]
theorem Gen.forced_eq (mn mx : Nat) : Gen.forced mn mx = ceil4 mn := rfl
theorem Gen.align_eq : Gen.align = 4 := rfl

/-! ### candidates -/
theorem takeWhile_eq_filter_of_pairwise (p : Nat → Bool) (l : List Nat)
    (hs : l.Pairwise (· < ·)) (hp : ∀ a b, a < b → p b = true → p a = true) :
    l.takeWhile p = l.filter p := by
  induction l with
  | nil => rfl
  | cons a l ih =>
    have hs' := (List.pairwise_cons.mp hs)
    by_cases ha : p a = true
    · simp [List.takeWhile, List.filter, ha, ih hs'.2]
    · have : l.filter p = [] := by
        rw [List.filter_eq_nil_iff]
        intro b hb hpb
        exact ha (hp a b (hs'.1 b hb) hpb)
      simp [List.takeWhile, List.filter, ha, this]

theorem mem_cands {p : CParams} {i : Nat} : i ∈ cands p ↔ 4 ≤ i ∧ i < p.max ∧ 4 ∣ i := by
  unfold cands
  rw [takeWhile_eq_filter_of_pairwise]
  · simp only [List.mem_filter, List.mem_map, List.mem_range, Gen.scanContinue_iff, Gen.scanStart_eq, Gen.scanStride_eq]
    constructor
    · rintro ⟨⟨j, _, rfl⟩, h⟩
      exact ⟨by omega, h, ⟨j + 1, by omega⟩⟩
    · rintro ⟨h4, hlt, ⟨k, rfl⟩⟩
      exact ⟨⟨k - 1, by omega, by omega⟩, hlt⟩
  · rw [List.pairwise_map]
    have := List.pairwise_lt_range (n := p.max + 1)
    refine this.imp ?_
    intro a b hab
    simp [Gen.scanStart_eq, Gen.scanStride_eq]; omega
  · intro a b hab hb
    rw [Gen.scanContinue_iff] at *
    omega

/-! ### window / scan -/
theorem window_eq_some {buf : Bytes} {i : Nat} (h : 4 ≤ i ∧ i + 4 ≤ buf.length) :
    window buf i = some ((buf.drop (i - 4)).take 8) := by
  unfold window
  have hc : Gen.windowBack ≤ i ∧ i - Gen.windowBack + Gen.windowLen ≤ buf.length := by
    show 4 ≤ i ∧ i - 4 + 8 ≤ buf.length
    omega
  rw [if_pos hc]; rfl

theorem window_eq_none {buf : Bytes} {i : Nat} (h : ¬ (4 ≤ i ∧ i + 4 ≤ buf.length)) :
    window buf i = none := by
  unfold window
  have hc : ¬ (Gen.windowBack ≤ i ∧ i - Gen.windowBack + Gen.windowLen ≤ buf.length) := by
    show ¬ (4 ≤ i ∧ i - 4 + 8 ≤ buf.length)
    omega
  rw [if_neg hc]

theorem window_isSome_iff (buf : Bytes) (i : Nat) : (window buf i).isSome ↔ 4 ≤ i ∧ i + 4 ≤ buf.length := by
  by_cases h : 4 ≤ i ∧ i + 4 ≤ buf.length
  · simp [window_eq_some h, h]
  · simp [window_eq_none h, h]

theorem scanFrom_mem (h : Hash) (buf : Bytes) (is : List Nat) (acc r : Nat × Nat)
    (hr : scanFrom h buf is acc = some r) : r.1 = acc.1 ∨ r.1 ∈ is := by
  induction is generalizing acc with
  | nil => simp [scanFrom] at hr; left; rw [hr]
  | cons i is ih =>
    simp only [scanFrom] at hr
    split at hr
    · contradiction
    · rename_i acc' hstep
      rcases ih acc' hr with h1 | h1
      · unfold scanStep at hstep
        split at hstep
        · contradiction
        · split at hstep <;> simp at hstep <;> subst hstep
          · right; simp [h1]
          · left; exact h1
      · right; simp [h1]

theorem scanFrom_isSome (h : Hash) (buf : Bytes) (is : List Nat) (acc : Nat × Nat)
    (hin : ∀ i ∈ is, 4 ≤ i ∧ i + 4 ≤ buf.length) : (scanFrom h buf is acc).isSome := by
  induction is generalizing acc with
  | nil => simp [scanFrom]
  | cons i is ih =>
    have hi := (window_isSome_iff buf i).mpr (hin i (by simp))
    have hin' : ∀ j ∈ is, 4 ≤ j ∧ j + 4 ≤ buf.length := fun j hj => hin j (by simp [hj])
    obtain ⟨w, hw⟩ := Option.isSome_iff_exists.mp hi
    simp only [scanFrom, scanStep, hw]
    by_cases hb : Gen.better (h w) acc.2 = true
    · rw [if_pos hb]; exact ih _ hin'
    · rw [if_neg hb]; exact ih _ hin'

/-- if the scan succeeds, every candidate window was inside the buffer -/
theorem scanFrom_some_inb (h : Hash) (buf : Bytes) (is : List Nat) (acc r : Nat × Nat)
    (hr : scanFrom h buf is acc = some r) : ∀ i ∈ is, 4 ≤ i ∧ i + 4 ≤ buf.length := by
  induction is generalizing acc with
  | nil => simp
  | cons i is ih =>
    simp only [scanFrom] at hr
    split at hr
    · contradiction
    · rename_i acc' hstep
      intro j hj
      rcases List.mem_cons.mp hj with rfl | hj
      · apply (window_isSome_iff buf j).mp
        unfold scanStep at hstep
        split at hstep
        · contradiction
        · rename_i w hw; simp [hw]
      · exact ih acc' hr j hj

/-- the scan only looks at the first `n` bytes if all windows fit in them -/
theorem window_take (buf : Bytes) (i n : Nat) (hi : i + 4 ≤ n) (hn : n ≤ buf.length) :
    window (buf.take n) i = window buf i := by
  by_cases h4 : 4 ≤ i
  · rw [window_eq_some (buf := buf) ⟨h4, by omega⟩,
        window_eq_some (buf := buf.take n) ⟨h4, by rw [List.length_take]; omega⟩]
    congr 1
    rw [List.drop_take, List.take_take]
    congr 1
    omega
  · rw [window_eq_none (buf := buf) (fun h => h4 h.1), window_eq_none (buf := buf.take n) (fun h => h4 h.1)]

theorem scanFrom_take (h : Hash) (buf : Bytes) (n : Nat) (is : List Nat) (acc : Nat × Nat)
    (hn : n ≤ buf.length) (hin : ∀ i ∈ is, i + 4 ≤ n) :
    scanFrom h (buf.take n) is acc = scanFrom h buf is acc := by
  induction is generalizing acc with
  | nil => rfl
  | cons i is ih =>
    have hw := window_take buf i n (hin i (by simp)) hn
    simp only [scanFrom, scanStep, hw]
    cases hwb : window buf i with
    | none => rfl
    | some w =>
      simp only
      by_cases hb : Gen.better (h w) acc.2 = true
      · rw [if_pos hb]; exact ih _ (fun j hj => hin j (by simp [hj]))
      · rw [if_neg hb]; exact ih _ (fun j hj => hin j (by simp [hj]))

/-! ### main cut -/
theorem mainCut_bounds (p : CParams) (hv : p.valid) (h : Hash) (buf : Bytes) (c : Nat)
    (hc : mainCut p h buf = some c) : p.min ≤ c ∧ c ≤ p.max ∧ 4 ∣ c := by
  unfold mainCut at hc
  simp only [Option.map_eq_some_iff] at hc
  obtain ⟨r, hr, rfl⟩ := hc
  obtain ⟨h1, h2, h3⟩ := hv
  have hm := scanFrom_mem h buf _ _ _ hr
  by_cases hf : Gen.needForce r.1 p.min p.max = true
  · rw [if_pos hf, Gen.forced_eq]
    exact ⟨by unfold ceil4; omega, h3, ⟨(p.min + 3) / 4, by unfold ceil4; omega⟩⟩
  · rw [if_neg hf]
    rw [Gen.needForce_iff] at hf
    rcases hm with hm | hm
    · simp [Gen.scanInitIndex] at hm; omega
    · obtain ⟨_, hlt, hd⟩ := mem_cands.mp hm
      exact ⟨by omega, by omega, hd⟩

theorem mainCut_isSome_of_len (p : CParams) (h : Hash) (buf : Bytes)
    (hlen : ceil4 p.max ≤ buf.length) : (mainCut p h buf).isSome := by
  unfold mainCut
  simp only [Option.isSome_map]
  apply scanFrom_isSome
  intro i hi
  obtain ⟨h4, hlt, ⟨k, rfl⟩⟩ := mem_cands.mp hi
  unfold ceil4 at hlen
  exact ⟨h4, by omega⟩

/-- locality: the main-rule decision only reads the first `ceil4 max` bytes -/
theorem mainCut_take (p : CParams) (h : Hash) (buf : Bytes) (n : Nat)
    (hn : n ≤ buf.length) (hlen : ceil4 p.max ≤ n) :
    mainCut p h (buf.take n) = mainCut p h buf := by
  unfold mainCut
  rw [scanFrom_take h buf n _ _ hn]
  intro i hi
  obtain ⟨h4, hlt, ⟨k, rfl⟩⟩ := mem_cands.mp hi
  unfold ceil4 at hlen
  omega

/-! ### drain -/
theorem drain_lossless (p : CParams) (h : Hash) (final : Bool) (fuel : Nat) (buf : Bytes)
    (cs : List Bytes) (rest : Bytes) (hd : drain p h final fuel buf = some (cs, rest)) :
    cs.flatten ++ rest = buf := by
  induction fuel generalizing buf cs rest with
  | zero => simp [drain] at hd; obtain ⟨rfl, rfl⟩ := hd; simp
  | succ n ih =>
    unfold drain at hd
    split at hd
    · contradiction
    · rename_i pos hpos
      split at hd
      · simp at hd; obtain ⟨rfl, rfl⟩ := hd; simp
      · split at hd
        · contradiction
        · rename_i cs' rest' hrec
          simp at hd
          obtain ⟨rfl, rfl⟩ := hd
          have := ih _ _ _ hrec
          simp only [List.flatten_cons, List.append_assoc, this, List.take_append_drop]

theorem drain_nonempty (p : CParams) (h : Hash) (final : Bool) (fuel : Nat) (buf : Bytes)
    (cs : List Bytes) (rest : Bytes) (hd : drain p h final fuel buf = some (cs, rest))
    (hcut : ∀ b c, nextCut p h b final = some c → c ≤ b.length) :
    ∀ c ∈ cs, c ≠ [] := by
  induction fuel generalizing buf cs rest with
  | zero => simp [drain] at hd; obtain ⟨rfl, rfl⟩ := hd; simp
  | succ n ih =>
    unfold drain at hd
    split at hd
    · contradiction
    · rename_i pos hpos
      split at hd
      · simp at hd; obtain ⟨rfl, rfl⟩ := hd; simp
      · rename_i hne
        split at hd
        · contradiction
        · rename_i cs' rest' hrec
          simp at hd
          obtain ⟨rfl, rfl⟩ := hd
          intro c hc
          rcases List.mem_cons.mp hc with rfl | hc
          · have hle := hcut _ _ hpos
            intro hnil
            have : (List.take pos buf).length = 0 := by rw [hnil]; rfl
            rw [List.length_take] at this
            omega
          · exact ih _ _ _ hrec c hc

end Replicat

namespace Replicat

/-! ### nextCut facts -/
theorem nextCut_nil (p : CParams) (hmm : p.min ≤ p.max) (h : Hash) (final : Bool) :
    nextCut p h [] final = some 0 := by
  unfold nextCut
  by_cases ht : Gen.isTail final ([] : Bytes).length p.min p.max = true
  · rw [if_pos ht, Gen.tailCut_eq]; simp
  · rw [if_neg ht]
    by_cases hw : Gen.waits final ([] : Bytes).length p.min p.max = true
    · rw [if_pos hw]; rfl
    · rw [if_neg hw]
      -- neither tail nor waiting with an empty buffer: max = 0
      have hmax : p.max = 0 := by
        cases final
        · rw [Gen.waits_iff] at hw; simp [ceil4] at hw; omega
        · simp [Gen.isTail] at ht; exact ht
      have hc : cands p = [] := by
        apply List.eq_nil_iff_forall_not_mem.mpr
        intro i hi
        have := mem_cands.mp hi
        omega
      unfold mainCut
      rw [hc]
      simp only [scanFrom, Option.map_some]
      have : ¬ (Gen.needForce Gen.scanInitIndex p.min p.max = true) := by
        rw [Gen.needForce_iff]; simp [Gen.scanInitIndex]; omega
      rw [if_neg this]; rfl

/-- with valid parameters a final, non-empty buffer always yields a positive cut -/
theorem nextCut_final_pos (p : CParams) (hv : p.valid) (h : Hash) (buf : Bytes) (c : Nat)
    (hne : buf ≠ []) (hc : nextCut p h buf true = some c) : 0 < c := by
  obtain ⟨h1, h2, h3⟩ := hv
  have hlen : 0 < buf.length := List.length_pos_iff.mpr hne
  unfold nextCut at hc
  by_cases ht : Gen.isTail true buf.length p.min p.max = true
  · rw [if_pos ht, Gen.tailCut_eq] at hc
    simp only [Option.some.injEq] at hc
    subst hc
    split
    · exact hlen
    · split <;> omega
  · rw [if_neg ht] at hc
    have hw : ¬ (Gen.waits true buf.length p.min p.max = true) := by rw [Gen.waits_iff]; simp
    rw [if_neg hw] at hc
    have := mainCut_bounds p ⟨h1, h2, h3⟩ h buf c hc
    omega

/-- classification of a successful cut -/
theorem nextCut_cases (p : CParams) (h : Hash) (buf : Bytes) (final : Bool) (c : Nat)
    (hc : nextCut p h buf final = some c) :
    (final = true ∧ buf.length < 2 * p.max ∧ c = Gen.tailCut buf.length p.min p.max) ∨
    (final = false ∧ buf.length < ceil4 p.max ∧ c = 0) ∨
    ((final = true → 2 * p.max ≤ buf.length) ∧ (final = false → ceil4 p.max ≤ buf.length) ∧ mainCut p h buf = some c) := by
  unfold nextCut at hc
  by_cases ht : Gen.isTail final buf.length p.min p.max = true
  · rw [if_pos ht] at hc
    rw [Gen.isTail_iff] at ht
    left; exact ⟨ht.1, ht.2, by simpa using hc.symm⟩
  · rw [if_neg ht] at hc
    by_cases hw : Gen.waits final buf.length p.min p.max = true
    · rw [if_pos hw] at hc
      right; left
      rw [Gen.waits_iff] at hw
      exact ⟨hw.1, hw.2, by simpa [Gen.waitRet_eq] using hc.symm⟩
    · rw [if_neg hw] at hc
      right; right
      rw [Gen.isTail_iff] at ht
      rw [Gen.waits_iff] at hw
      refine ⟨fun hf => ?_, fun hf => ?_, hc⟩
      · by_cases hh : buf.length < 2 * p.max
        · exact absurd ⟨hf, hh⟩ ht
        · omega
      · by_cases hh : buf.length < ceil4 p.max
        · exact absurd ⟨hf, hh⟩ hw
        · omega

/-! ### drain: termination is by cut = 0, never by fuel -/
theorem drain_stops (p : CParams) (hmm : p.min ≤ p.max) (h : Hash) (final : Bool) (fuel : Nat) (buf : Bytes)
    (cs : List Bytes) (rest : Bytes) (hf : buf.length < fuel)
    (hd : drain p h final fuel buf = some (cs, rest)) : nextCut p h rest final = some 0 := by
  induction fuel generalizing buf cs rest with
  | zero => omega
  | succ n ih =>
    unfold drain at hd
    split at hd
    · contradiction
    · rename_i pos hpos
      split at hd
      · rename_i h0
        simp at hd; obtain ⟨rfl, rfl⟩ := hd
        rw [hpos, h0]
      · rename_i hne
        split at hd
        · contradiction
        · rename_i cs' rest' hrec
          simp at hd
          obtain ⟨rfl, rfl⟩ := hd
          apply ih _ _ _ _ hrec
          -- buf is non-empty (else the cut would be 0), so dropping pos ≥ 1 bytes shrinks it
          have hb : buf ≠ [] := by
            intro hb; subst hb
            rw [nextCut_nil p hmm] at hpos
            simp at hpos; exact hne hpos.symm
          have : 0 < buf.length := List.length_pos_iff.mpr hb
          rw [List.length_drop]; omega

theorem drain_nonempty' (p : CParams) (hmm : p.min ≤ p.max) (h : Hash) (final : Bool) (fuel : Nat) (buf : Bytes)
    (cs : List Bytes) (rest : Bytes) (hd : drain p h final fuel buf = some (cs, rest)) :
    ∀ c ∈ cs, c ≠ [] := by
  induction fuel generalizing buf cs rest with
  | zero => simp [drain] at hd; obtain ⟨rfl, rfl⟩ := hd; simp
  | succ n ih =>
    unfold drain at hd
    split at hd
    · contradiction
    · rename_i pos hpos
      split at hd
      · simp at hd; obtain ⟨rfl, rfl⟩ := hd; simp
      · rename_i hne
        split at hd
        · contradiction
        · rename_i cs' rest' hrec
          simp at hd
          obtain ⟨rfl, rfl⟩ := hd
          intro c hc
          rcases List.mem_cons.mp hc with rfl | hc
          · have hb : buf ≠ [] := by
              intro hb; subst hb
              rw [nextCut_nil p hmm] at hpos
              simp at hpos; exact hne hpos.symm
            intro hnil
            rcases List.take_eq_nil_iff.mp hnil with h0 | h0
            · exact hne h0
            · exact hb h0
          · exact ih _ _ _ hrec c hc

/-- no out-of-bounds read: every main-rule invocation sees ≥ ceil4 max bytes
(non-final: the wait guard; final: 2·max ≥ ceil4 max as soon as max ≥ 2) -/
theorem nextCut_isSome (p : CParams) (h : Hash) (buf : Bytes) (final : Bool)
    (hsafe : ceil4 p.max ≤ 2 * p.max) : (nextCut p h buf final).isSome := by
  unfold nextCut
  by_cases ht : Gen.isTail final buf.length p.min p.max = true
  · rw [if_pos ht]; rfl
  · rw [if_neg ht]
    by_cases hw : Gen.waits final buf.length p.min p.max = true
    · rw [if_pos hw]; rfl
    · rw [if_neg hw]
      apply mainCut_isSome_of_len
      rw [Gen.isTail_iff] at ht
      rw [Gen.waits_iff] at hw
      cases final
      · by_cases hh : buf.length < ceil4 p.max
        · exact absurd ⟨rfl, hh⟩ hw
        · omega
      · have : ¬ buf.length < 2 * p.max := fun hh => ht ⟨rfl, hh⟩
        omega

theorem drain_isSome (p : CParams) (h : Hash) (final : Bool) (fuel : Nat) (buf : Bytes)
    (hsafe : ceil4 p.max ≤ 2 * p.max) : (drain p h final fuel buf).isSome := by
  induction fuel generalizing buf with
  | zero => simp [drain]
  | succ n ih =>
    unfold drain
    obtain ⟨c, hc⟩ := Option.isSome_iff_exists.mp (nextCut_isSome p h buf final hsafe)
    rw [hc]
    simp only
    split
    · rfl
    · obtain ⟨r, hr⟩ := Option.isSome_iff_exists.mp (ih (buf.drop c))
      rw [hr]; rfl

theorem feed_isSome (p : CParams) (h : Hash) (buf : Bytes) (ps : List Bytes)
    (hsafe : ceil4 p.max ≤ 2 * p.max) : (feed p h buf ps).isSome := by
  induction ps generalizing buf with
  | nil => simp [feed]
  | cons pc ps ih =>
    cases ps with
    | nil =>
      simp only [feed, Option.isSome_map]
      exact drain_isSome p h true _ _ hsafe
    | cons q qs =>
      obtain ⟨r, hr⟩ := Option.isSome_iff_exists.mp (drain_isSome p h false (drainFuel (buf ++ pc)) (buf ++ pc) hsafe)
      obtain ⟨cs, rest⟩ := r
      simp only [feed, hr]
      obtain ⟨r2, hr2⟩ := Option.isSome_iff_exists.mp (ih rest)
      rw [hr2]; rfl

end Replicat
