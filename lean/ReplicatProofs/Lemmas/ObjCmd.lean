import ReplicatModel.ObjCmd
import ReplicatProofs.Lemmas.LocalFS
/-! Helper lemmas for the object-level commands (`ObjCmd.lean`; theorems at the end of `Properties/C13.lean`). -/
namespace Replicat.ObjCmd
open Replicat Replicat.Store Replicat.Paging
open Replicat.LocalFS (Seg Path relPath validName validPath validSeg Universe ancestors)

/-! ## store models: anything that refines the specification step by step -/

/-- an adapter model together with its abstraction, invariant, region of operations and refinement proof -/
structure StoreModel (σ : Type) where
  step : σ → Op → σ × Ret
  abs : σ → Spec
  inv : σ → Prop
  ok : Op → Prop
  refines : ∀ s op, inv s → ok op → inv (step s op).1 ∧ SpecStep (abs s) op (abs (step s op).1) (step s op).2

/-- every operation the object commands can issue on object `n` lies in the region of the model -/
def StoreModel.OkName {σ : Type} (M : StoreModel σ) (n : Name) : Prop :=
  M.ok (.exists_ n) ∧ M.ok (.delete n) ∧ (∀ d c, 1 ≤ c → M.ok (.uploadStream n d c)) ∧
    (∀ c sink, 1 ≤ c → M.ok (.downloadStream n c sink))

section steps
variable {σ : Type} (M : StoreModel σ)

theorem StoreModel.exists_spec {s : σ} {n : Name} (hi : M.inv s) (ho : M.ok (.exists_ n)) :
    M.inv (M.step s (.exists_ n)).1 ∧ M.abs (M.step s (.exists_ n)).1 = M.abs s ∧
      (M.step s (.exists_ n)).2 = .bool (M.abs s n).isSome := by
  obtain ⟨h1, h2, h3⟩ := M.refines s _ hi ho
  exact ⟨h1, h2, h3⟩

theorem StoreModel.uploadStream_spec {s : σ} {n : Name} {d : Bytes} {c : Nat} (hi : M.inv s) (ho : M.ok (.uploadStream n d c)) :
    M.inv (M.step s (.uploadStream n d c)).1 ∧ M.abs (M.step s (.uploadStream n d c)).1 = (M.abs s).put n d ∧
      (M.step s (.uploadStream n d c)).2 = .unit := by
  obtain ⟨h1, h2, h3⟩ := M.refines s _ hi ho
  exact ⟨h1, h2, h3⟩

theorem StoreModel.downloadStream_spec {s : σ} {n : Name} {c : Nat} {k : Bytes} (hi : M.inv s) (ho : M.ok (.downloadStream n c k)) :
    M.inv (M.step s (.downloadStream n c k)).1 ∧ M.abs (M.step s (.downloadStream n c k)).1 = M.abs s ∧
      (M.step s (.downloadStream n c k)).2 = (match M.abs s n with | some d => .bytes d | none => .error .notFound) := by
  obtain ⟨h1, h2, h3⟩ := M.refines s _ hi ho
  exact ⟨h1, h2, h3⟩

theorem StoreModel.delete_spec {s : σ} {n : Name} (hi : M.inv s) (ho : M.ok (.delete n)) :
    M.inv (M.step s (.delete n)).1 ∧ M.abs (M.step s (.delete n)).1 = (M.abs s).del n ∧ (M.step s (.delete n)).2 = .unit := by
  obtain ⟨h1, h2, h3⟩ := M.refines s _ hi ho
  exact ⟨h1, h2, h3⟩

theorem StoreModel.list_spec {s : σ} {pfx : Name} (hi : M.inv s) (ho : M.ok (.list pfx)) :
    M.inv (M.step s (.list pfx)).1 ∧ M.abs (M.step s (.list pfx)).1 = M.abs s ∧
      ∃ l, (M.step s (.list pfx)).2 = .names l ∧ l.Nodup ∧ ∀ n, n ∈ l ↔ (M.abs s n).isSome = true ∧ pfx <+: n := by
  obtain ⟨h1, h2, h3⟩ := M.refines s _ hi ho
  exact ⟨h1, h2, h3⟩
end steps

/-! ## the recorded calls of a run are a history of the backend -/
section chain
variable {σ : Type}

/-- `tr` is what `step` does and returns, call after call, from `s` to `s'` -/
def Chain (step : σ → Op → σ × Ret) : σ → List (Op × Ret) → σ → Prop
  | s, [], s' => s' = s
  | s, (op, r) :: tr, s' => (step s op).2 = r ∧ Chain step (step s op).1 tr s'

theorem Chain.nil (step : σ → Op → σ × Ret) (s : σ) : Chain step s [] s := rfl

theorem Chain.one (step : σ → Op → σ × Ret) (s : σ) (op : Op) : Chain step s [(op, (step s op).2)] (step s op).1 := ⟨rfl, rfl⟩

theorem Chain.append {step : σ → Op → σ × Ret} {s s1 s2 : σ} {t1 t2 : List (Op × Ret)}
    (h1 : Chain step s t1 s1) (h2 : Chain step s1 t2 s2) : Chain step s (t1 ++ t2) s2 := by
  induction t1 generalizing s with
  | nil => cases h1; exact h2
  | cons e t1 ih =>
    obtain ⟨op, r⟩ := e
    exact ⟨h1.1, ih h1.2⟩

theorem Chain.cons {step : σ → Op → σ × Ret} {s s2 : σ} {t2 : List (Op × Ret)} (op : Op)
    (h2 : Chain step (step s op).1 t2 s2) : Chain step s ((op, (step s op).2) :: t2) s2 := ⟨rfl, h2⟩

theorem Chain.runHistory {step : σ → Op → σ × Ret} {s s' : σ} {tr : List (Op × Ret)} (h : Chain step s tr s') :
    runHistory step s (tr.map (·.1)) = (s', tr.map (·.2)) := by
  induction tr generalizing s with
  | nil => cases h; rfl
  | cons e tr ih =>
    obtain ⟨op, r⟩ := e
    obtain ⟨h1, h2⟩ := h
    simp only [List.map_cons, Store.runHistory, ih h2, h1]

theorem Chain.specRun (M : StoreModel σ) {s s' : σ} {tr : List (Op × Ret)} (hi : M.inv s) (hok : ∀ e ∈ tr, M.ok e.1)
    (h : Chain M.step s tr s') : M.inv s' ∧ SpecRun (M.abs s) (tr.map (·.1)) (M.abs s') (tr.map (·.2)) := by
  induction tr generalizing s with
  | nil => cases h; exact ⟨hi, SpecRun.nil _⟩
  | cons e tr ih =>
    obtain ⟨op, r⟩ := e
    obtain ⟨h1, h2⟩ := h
    obtain ⟨hi1, hs⟩ := M.refines s op hi (hok (op, r) (by simp))
    obtain ⟨hi2, hr⟩ := ih hi1 (fun e he => hok e (List.mem_cons_of_mem _ he)) h2
    rw [h1] at hs
    exact ⟨hi2, SpecRun.cons hs hr⟩
end chain

/-! ## every command run is a chain of backend steps (any `step`) -/
section cmdchain
variable {σ : Type} (step : σ → Op → σ × Ret)

theorem uploadOne_chain (skip : Bool) (chunk : Nat) (s : σ) (n : Name) (d : Bytes) :
    Chain step s (uploadOne step skip chunk s n d).2.1 (uploadOne step skip chunk s n d).1 := by
  unfold uploadOne
  cases skip with
  | false => exact ⟨rfl, rfl⟩
  | true =>
    simp only [if_true]
    split
    · exact ⟨rfl, rfl⟩
    · exact ⟨rfl, rfl, rfl⟩
    · exact ⟨rfl, rfl⟩
    · exact ⟨rfl, rfl⟩

theorem uploadLoop_chain (skip : Bool) (chunk : Nat) (s : σ) (l : List (Name × Bytes)) :
    Chain step s (uploadLoop step skip chunk s l).2.1 (uploadLoop step skip chunk s l).1 := by
  induction l generalizing s with
  | nil => rfl
  | cons e l ih =>
    obtain ⟨n, d⟩ := e
    unfold uploadLoop
    simp only
    split
    · exact uploadOne_chain step skip chunk s n d
    · exact (uploadOne_chain step skip chunk s n d).append (ih _)

theorem downloadOne_chain (skip : Bool) (chunk : Nat) (s : σ) (dir : Tree) (n : Name) :
    Chain step s (downloadOne step skip chunk s dir n).2.2.1 (downloadOne step skip chunk s dir n).1 := by
  unfold downloadOne
  split
  · rfl
  · split
    · rfl
    · split
      · rfl
      · split
        · rfl
        · simp only
          split
          · exact ⟨rfl, rfl⟩
          · exact ⟨rfl, rfl⟩
          · exact ⟨rfl, rfl⟩

theorem downloadLoop_chain (skip : Bool) (chunk : Nat) (s : σ) (dir : Tree) (l : List Name) :
    Chain step s (downloadLoop step skip chunk s dir l).2.2.1 (downloadLoop step skip chunk s dir l).1 := by
  induction l generalizing s dir with
  | nil => rfl
  | cons n l ih =>
    unfold downloadLoop
    simp only
    split
    · exact downloadOne_chain step skip chunk s dir n
    · exact (downloadOne_chain step skip chunk s dir n).append (ih _ _)

theorem deleteLoop_chain (useCache : Bool) (s : σ) (cache : Tree) (l : List Name) :
    Chain step s (deleteLoop step useCache s cache l).2.2.1 (deleteLoop step useCache s cache l).1 := by
  induction l generalizing s cache with
  | nil => rfl
  | cons n l ih =>
    unfold deleteLoop
    simp only
    split
    · exact ⟨rfl, rfl⟩
    · split
      · exact ⟨rfl, rfl⟩
      · exact ⟨rfl, ih _ _⟩

/-- **every command is a composition of backend steps**: the recorded calls, replayed with `step`, lead from the state before
the command to the state after it and return what was recorded -/
theorem cmd_chain (concurrent : Nat) (c : Cmd) (s : σ) (loc : Tree) :
    Chain step s (c.run step concurrent s loc).tr (c.run step concurrent s loc).st := by
  cases c with
  | upload cwd dirs paths rl skip =>
    simp only [Cmd.run, uploadObjects]
    split
    · rfl
    · split
      · rfl
      · split
        · rfl
        · exact uploadLoop_chain step _ _ _ _
  | download pfx keep rl skip =>
    simp only [Cmd.run, downloadObjects]
    split
    · split
      · exact ⟨rfl, rfl⟩
      · split
        · exact ⟨rfl, rfl⟩
        · exact ⟨rfl, downloadLoop_chain step _ _ _ _ _⟩
    · exact ⟨rfl, rfl⟩
    · exact ⟨rfl, rfl⟩
  | list pfx keep => exact ⟨rfl, rfl⟩
  | delete names confirm answer useCache =>
    simp only [Cmd.run, deleteObjects]
    split
    · exact deleteLoop_chain step _ _ _ _
    · rfl
end cmdchain

/-! ## lists, trees -/
theorem mem_dedupFirst {α : Type} [DecidableEq α] (l : List α) (a : α) : a ∈ dedupFirst l ↔ a ∈ l := by
  induction l with
  | nil => simp [dedupFirst]
  | cons x xs ih =>
    simp only [dedupFirst, List.mem_cons, List.mem_filter, ih, decide_eq_true_eq]
    constructor
    · rintro (h | ⟨h, _⟩)
      · exact Or.inl h
      · exact Or.inr h
    · rintro (h | h)
      · exact Or.inl h
      · by_cases hx : a = x
        · exact Or.inl hx
        · exact Or.inr ⟨h, hx⟩

theorem nodup_dedupFirst {α : Type} [DecidableEq α] (l : List α) : (dedupFirst l).Nodup := by
  induction l with
  | nil => simp [dedupFirst]
  | cons x xs ih =>
    simp only [dedupFirst, List.nodup_cons, List.mem_filter, decide_eq_true_eq]
    exact ⟨fun h => h.2 rfl, ih.filter _⟩

theorem properPrefix_iff (p q : Path) : properPrefix p q = true ↔ p <+: q ∧ p ≠ q := by
  simp [properPrefix, List.isPrefixOf_iff_prefix]

theorem Tree.get_put (t : Tree) (p q : Path) (d : Bytes) : (t.put p d).get q = if q = p then some d else t.get q :=
  alookup_ainsert t p q d

theorem Tree.get_erase (t : Tree) (p q : Path) : (t.erase p).get q = if q = p then none else t.get q := by
  unfold Tree.erase Tree.get
  by_cases h : q = p
  · subst h; simp [alookup_aerase_self]
  · simp [h, alookup_aerase_ne t p q h]

theorem Tree.mem_keys_iff (t : Tree) (p : Path) : p ∈ t.keys ↔ (t.get p).isSome = true := mem_keys_iff_alookup t p

theorem Tree.keys_put_subset (t : Tree) (p : Path) (d : Bytes) : ∀ q ∈ (t.put p d).keys, q = p ∨ q ∈ t.keys := by
  intro q hq
  simp only [Tree.put, Tree.keys, ainsert, List.map_cons, List.mem_cons] at hq
  rcases hq with h | h
  · exact Or.inl h
  · exact Or.inr ((keys_aerase_sublist t p).subset h)

theorem Tree.keys_erase_subset (t : Tree) (p : Path) : ∀ q ∈ (t.erase p).keys, q ∈ t.keys :=
  fun _ hq => (keys_aerase_sublist t p).subset hq

theorem Tree.nodup_put (t : Tree) (p : Path) (d : Bytes) (h : t.keys.Nodup) : (t.put p d).keys.Nodup := nodup_keys_ainsert t p d h

/-- in a prefix-free universe no path is blocked by, or a directory of, the files present -/
theorem Tree.not_blocked {U : Path → Prop} (hU : Universe U) {t : Tree} (ht : ∀ q ∈ t.keys, U q) {p : Path} (hp : U p) :
    t.blocked p = false := by
  cases h : t.blocked p with
  | false => rfl
  | true =>
    exfalso
    simp only [Tree.blocked, List.any_eq_true] at h
    obtain ⟨q, hq, hqp⟩ := h
    obtain ⟨h1, h2⟩ := (properPrefix_iff q p).mp hqp
    have hqv := (LocalFS.validPath_iff q).mp (hU.valid q (ht q hq))
    exact hU.prefixFree q p (ht q hq) hp ((LocalFS.mem_ancestors q p).mpr ⟨hqv.1, h1, h2⟩)

theorem Tree.not_isDir {U : Path → Prop} (hU : Universe U) {t : Tree} (ht : ∀ q ∈ t.keys, U q) {p : Path} (hp : U p) :
    t.isDir p = false := by
  cases h : t.isDir p with
  | false => rfl
  | true =>
    exfalso
    simp only [Tree.isDir, List.any_eq_true] at h
    obtain ⟨q, hq, hpq⟩ := h
    obtain ⟨h1, h2⟩ := (properPrefix_iff p q).mp hpq
    have hpv := (LocalFS.validPath_iff p).mp (hU.valid p hp)
    exact hU.prefixFree p q hp (ht q hq) ((LocalFS.mem_ancestors p q).mpr ⟨hpv.1, h1, h2⟩)

/-! ## `_flatten_resolve_paths`, names, chunk sizes -/
theorem flattenOne_mem {t : Tree} {dirs : List Path} {p : Path} {l : List Path} (h : flattenOne t dirs p = .ok l) :
    ∀ f ∈ l, (t.get f).isSome = true := by
  unfold flattenOne at h
  simp only at h
  split at h
  · cases h
    intro f hf
    exact (Tree.mem_keys_iff t f).mp (List.mem_filter.mp hf).1
  · split at h
    · cases h; intro f hf; cases hf
    · split at h
      · next hp =>
        cases h
        intro f hf
        simp only [List.mem_singleton] at hf
        subst hf; exact hp
      · cases h

theorem flatten_mem {t : Tree} {dirs : List Path} {paths : List Path} {l : List Path} (h : flatten t dirs paths = .ok l) :
    ∀ f ∈ l, (t.get f).isSome = true := by
  induction paths generalizing l with
  | nil => cases h; intro f hf; cases hf
  | cons p ps ih =>
    unfold flatten at h
    split at h
    · cases h
    · next a ha =>
      split at h
      · cases h
      · next b hb =>
        cases h
        intro f hf
        rcases List.mem_append.mp hf with h1 | h1
        · exact flattenOne_mem ha f h1
        · exact ih hb f h1

theorem dropCommon_append (cwd rel : Path) : dropCommon (cwd ++ rel) cwd = rel := by
  induction cwd with
  | nil => cases rel <;> rfl
  | cons a cwd ih => simp [dropCommon, ih]

/-- the name of a file under the working directory is its relative path in POSIX form -/
theorem objectName_under (cwd rel : Path) (h : rel ≠ []) : objectName cwd (cwd ++ rel) = joinSlash rel := by
  simp [objectName, dropCommon_append, h]

theorem gen_chunk_consts : 1 ≤ Gen.streamChunk ∧ 1 ≤ Gen.objcmdChunkFloor := by decide

theorem chunkSize_pos (concurrent : Nat) (hc : 1 ≤ concurrent) (rl : Option Nat) (hrl : rl ≠ some 0) :
    ∃ c, chunkSize concurrent rl = some c ∧ 1 ≤ c := by
  cases rl with
  | none => exact ⟨_, rfl, gen_chunk_consts.1⟩
  | some r =>
    have h1 : ¬ concurrent = 0 := by omega
    have h2 : ¬ r = 0 := fun e => hrl (by rw [e])
    refine ⟨max (r / (concurrent * Gen.rateDivisor)) Gen.objcmdChunkFloor, by simp only [chunkSize, h1, h2, or_self, if_false], ?_⟩
    exact Nat.le_trans gen_chunk_consts.2 (Nat.le_max_right _ _)

theorem items_mem {cwd : Path} {t : Tree} {files : List Path} {n : Name} {d : Bytes} :
    (n, d) ∈ items cwd t files ↔ ∃ f ∈ files, t.get f = some d ∧ n = objectName cwd f := by
  simp only [items, List.mem_filterMap, Option.map_eq_some_iff, Prod.mk.injEq]
  constructor
  · rintro ⟨f, hf, d', hd, hn, rfl⟩; exact ⟨f, hf, hd, hn.symm⟩
  · rintro ⟨f, hf, hd, rfl⟩; exact ⟨f, hf, d, hd, rfl, rfl⟩

theorem items_names {cwd : Path} {t : Tree} {files : List Path} (h : ∀ f ∈ files, (t.get f).isSome = true) :
    (items cwd t files).map (·.1) = files.map (objectName cwd) := by
  induction files with
  | nil => rfl
  | cons f fs ih =>
    obtain ⟨d, hd⟩ := Option.isSome_iff_exists.mp (h f (by simp))
    simp only [items, List.filterMap_cons, hd, Option.map_some, List.map_cons]
    congr 1
    exact ih (fun g hg => h g (List.mem_cons_of_mem _ hg))

/-! ## `upload_objects` against a store model -/

/-- what a sequence of uploads does to the map -/
def upSpec (skip : Bool) : Spec → List (Name × Bytes) → Spec
  | m, [] => m
  | m, (n, d) :: rest => upSpec skip (if skip = true ∧ (m n).isSome = true then m else m.put n d) rest

theorem upSpec_not_mem (skip : Bool) (m : Spec) (l : List (Name × Bytes)) (n : Name) (h : n ∉ l.map (·.1)) :
    upSpec skip m l n = m n := by
  induction l generalizing m with
  | nil => rfl
  | cons e l ih =>
    obtain ⟨k, d⟩ := e
    simp only [List.map_cons, List.mem_cons, not_or] at h
    simp only [upSpec]
    rw [ih _ h.2]
    split
    · rfl
    · simp [Spec.put, h.1]

theorem upSpec_skip_keeps (m : Spec) (l : List (Name × Bytes)) (n : Name) (h : (m n).isSome = true) :
    upSpec true m l n = m n := by
  induction l generalizing m with
  | nil => rfl
  | cons e l ih =>
    obtain ⟨k, d⟩ := e
    simp only [upSpec, true_and]
    by_cases hk : (m k).isSome = true
    · simp only [hk, if_true]; exact ih m h
    · have hk' : (m k).isSome = false := by simpa using hk
      simp only [hk', Bool.false_eq_true, if_false]
      have hne : n ≠ k := fun e => hk (e ▸ h)
      have h' : ((m.put k d) n).isSome = true := by simp [Spec.put, hne, h]
      rw [ih _ h']
      simp [Spec.put, hne]

theorem upSpec_mem (skip : Bool) (m : Spec) (l : List (Name × Bytes)) (hnd : (l.map (·.1)).Nodup) (n : Name) (d : Bytes)
    (hm : (n, d) ∈ l) (h : skip = false ∨ m n = none) : upSpec skip m l n = some d := by
  induction l generalizing m with
  | nil => cases hm
  | cons e l ih =>
    obtain ⟨k, v⟩ := e
    simp only [List.map_cons, List.nodup_cons] at hnd
    simp only [upSpec]
    rcases List.mem_cons.mp hm with h1 | h1
    · obtain ⟨rfl, rfl⟩ := Prod.mk.inj h1
      have hc : ¬ (skip = true ∧ (m n).isSome = true) := by
        rcases h with h | h
        · simp [h]
        · simp [h]
      simp only [hc, if_false]
      rw [upSpec_not_mem _ _ _ _ hnd.1]
      simp [Spec.put]
    · have hne : n ≠ k := fun e => hnd.1 (e ▸ List.mem_map_of_mem (f := (·.1)) h1)
      apply ih _ hnd.2 h1
      rcases h with h | h
      · exact Or.inl h
      · right
        split
        · exact h
        · simp [Spec.put, hne, h]

section upload
variable {σ : Type} (M : StoreModel σ)

theorem uploadOne_spec (skip : Bool) (chunk : Nat) (s : σ) (n : Name) (d : Bytes) (hi : M.inv s)
    (hex : M.ok (.exists_ n)) (hup : M.ok (.uploadStream n d chunk)) :
    (uploadOne M.step skip chunk s n d).2.2 = none ∧ M.inv (uploadOne M.step skip chunk s n d).1 ∧
    M.abs (uploadOne M.step skip chunk s n d).1 = (if skip = true ∧ (M.abs s n).isSome = true then M.abs s else (M.abs s).put n d) := by
  unfold uploadOne
  cases skip with
  | false =>
    obtain ⟨h1, h2, h3⟩ := M.uploadStream_spec hi hup
    simp only [Bool.false_eq_true, if_false, false_and, h3, retUnit]
    exact ⟨trivial, h1, h2⟩
  | true =>
    obtain ⟨e1, e2, e3⟩ := M.exists_spec hi hex
    simp only [if_true, true_and, e3]
    cases hb : (M.abs s n).isSome with
    | true => exact ⟨rfl, e1, by simp [e2]⟩
    | false =>
      have hup' : M.ok (.uploadStream n d chunk) := hup
      obtain ⟨h1, h2, h3⟩ := M.uploadStream_spec e1 hup'
      simp only [h3, retUnit, Bool.false_eq_true, if_false]
      exact ⟨trivial, h1, by rw [h2, e2]⟩

theorem uploadLoop_spec (skip : Bool) (chunk : Nat) (l : List (Name × Bytes))
    (hok : ∀ e ∈ l, M.ok (.exists_ e.1) ∧ M.ok (.uploadStream e.1 e.2 chunk)) (s : σ) (hi : M.inv s) :
    (uploadLoop M.step skip chunk s l).2.2 = none ∧ M.inv (uploadLoop M.step skip chunk s l).1 ∧
    M.abs (uploadLoop M.step skip chunk s l).1 = upSpec skip (M.abs s) l := by
  induction l generalizing s with
  | nil => exact ⟨rfl, hi, rfl⟩
  | cons e l ih =>
    obtain ⟨n, d⟩ := e
    obtain ⟨h1, h2, h3⟩ := uploadOne_spec M skip chunk s n d hi (hok (n, d) (by simp)).1 (hok (n, d) (by simp)).2
    obtain ⟨k1, k2, k3⟩ := ih (fun e he => hok e (List.mem_cons_of_mem _ he)) _ h2
    unfold uploadLoop
    simp only [h1]
    refine ⟨k1, k2, ?_⟩
    rw [k3, h3]
    rfl
end upload

/-! ## `download_objects` against a store model -/

/-- what a sequence of downloads does to the target directory, the store holding `m` -/
def downSpec (skip : Bool) (m : Spec) : Tree → List Name → Tree
  | dir, [] => dir
  | dir, n :: rest =>
    downSpec skip m
      (match m n with
        | some d => if skip = true ∧ (dir.get (splitSlash n)).isSome = true then dir else dir.put (splitSlash n) d
        | none => dir) rest

theorem downSpec_keys {U : Path → Prop} (skip : Bool) (m : Spec) (l : List Name) (hl : ∀ n ∈ l, U (splitSlash n)) (dir : Tree)
    (hd : ∀ q ∈ dir.keys, U q) : ∀ q ∈ (downSpec skip m dir l).keys, U q := by
  induction l generalizing dir with
  | nil => exact hd
  | cons n l ih =>
    simp only [downSpec]
    apply ih (fun k hk => hl k (List.mem_cons_of_mem _ hk))
    split
    · split
      · exact hd
      · intro q hq
        rcases Tree.keys_put_subset _ _ _ q hq with h | h
        · rw [h]; exact hl n (by simp)
        · exact hd q h
    · exact hd

theorem downSpec_nodup (skip : Bool) (m : Spec) (l : List Name) (dir : Tree) (hd : dir.keys.Nodup) :
    (downSpec skip m dir l).keys.Nodup := by
  induction l generalizing dir with
  | nil => exact hd
  | cons n l ih =>
    simp only [downSpec]
    apply ih
    split
    · split
      · exact hd
      · exact Tree.nodup_put _ _ _ hd
    · exact hd

/-- closed form: a selected object's file holds the object (or, with `skip`, what was there); every other file is untouched -/
theorem downSpec_get (skip : Bool) (m : Spec) (l : List Name) (hlive : ∀ n ∈ l, (m n).isSome = true) (dir : Tree) (q : Path) :
    (downSpec skip m dir l).get q =
      if q ∈ l.map splitSlash then (if skip = true ∧ (dir.get q).isSome = true then dir.get q else m (joinSlash q)) else dir.get q := by
  induction l generalizing dir with
  | nil => simp [downSpec]
  | cons n l ih =>
    obtain ⟨d, hd⟩ := Option.isSome_iff_exists.mp (hlive n (by simp))
    have hjoin : m (joinSlash (splitSlash n)) = some d := by rw [LocalFS.joinSlash_splitSlash]; exact hd
    simp only [downSpec, hd]
    rw [ih (fun k hk => hlive k (List.mem_cons_of_mem _ hk))]
    simp only [List.map_cons, List.mem_cons]
    by_cases hq : q = splitSlash n
    · subst hq
      by_cases hc : skip = true ∧ (dir.get (splitSlash n)).isSome = true
      · simp only [hc, and_self, if_true, true_or]
        split <;> rfl
      · simp only [hc, if_false, true_or, if_true, Tree.get_put, hjoin]
        split
        · split <;> rfl
        · rfl
    · have hget : (if skip = true ∧ (dir.get (splitSlash n)).isSome = true then dir else dir.put (splitSlash n) d).get q = dir.get q := by
        split
        · rfl
        · rw [Tree.get_put]; simp [hq]
      simp only [hq, false_or, hget]

section download
variable {σ : Type} (M : StoreModel σ)

theorem downloadOne_spec {U : Path → Prop} (hU : Universe U) (skip : Bool) (chunk : Nat) (s : σ) (hi : M.inv s) (dir : Tree)
    (hdir : ∀ q ∈ dir.keys, U q) (n : Name) (hv : validName n = true) (hu : U (splitSlash n))
    (hok : M.ok (.downloadStream n chunk [])) (d : Bytes) (hlive : M.abs s n = some d) :
    (downloadOne M.step skip chunk s dir n).2.2.2 = none ∧ M.inv (downloadOne M.step skip chunk s dir n).1 ∧
    M.abs (downloadOne M.step skip chunk s dir n).1 = M.abs s ∧
    (downloadOne M.step skip chunk s dir n).2.1 =
      (if skip = true ∧ (dir.get (splitSlash n)).isSome = true then dir else dir.put (splitSlash n) d) := by
  have hne : splitSlash n ≠ [] := LocalFS.splitSlash_ne_nil n
  by_cases hc : skip = true ∧ (dir.get (splitSlash n)).isSome = true
  · have e : downloadOne M.step skip chunk s dir n = (s, dir, [], none) := by
      unfold downloadOne
      simp only [LocalFS.relPath_valid hv, Tree.not_blocked hU hdir hu, Tree.not_isDir hU hdir hu, hne, Bool.false_eq_true, if_false,
        false_or, hc, and_self, if_true]
    rw [e]
    exact ⟨rfl, hi, rfl, by simp only [hc, and_self, if_true]⟩
  · obtain ⟨h1, h2, h3⟩ := M.downloadStream_spec hi hok
    rw [hlive] at h3
    have e : downloadOne M.step skip chunk s dir n =
        ((M.step s (.downloadStream n chunk [])).1, dir.put (splitSlash n) d, [(.downloadStream n chunk [], .bytes d)], none) := by
      unfold downloadOne
      simp only [LocalFS.relPath_valid hv, Tree.not_blocked hU hdir hu, Tree.not_isDir hU hdir hu, hne, Bool.false_eq_true, if_false,
        false_or, or_false, hc, h3]
    rw [e]
    exact ⟨rfl, h1, h2, by simp only [hc, if_false]⟩

theorem downloadLoop_spec {U : Path → Prop} (hU : Universe U) (skip : Bool) (chunk : Nat) (l : List Name) (s : σ) (hi : M.inv s)
    (hl : ∀ n ∈ l, validName n = true ∧ U (splitSlash n) ∧ M.ok (.downloadStream n chunk []) ∧ (M.abs s n).isSome = true)
    (dir : Tree) (hdir : ∀ q ∈ dir.keys, U q) :
    (downloadLoop M.step skip chunk s dir l).2.2.2 = none ∧ M.inv (downloadLoop M.step skip chunk s dir l).1 ∧
    M.abs (downloadLoop M.step skip chunk s dir l).1 = M.abs s ∧
    (downloadLoop M.step skip chunk s dir l).2.1 = downSpec skip (M.abs s) dir l := by
  induction l generalizing s dir with
  | nil => exact ⟨rfl, hi, rfl, rfl⟩
  | cons n l ih =>
    obtain ⟨hv, hu, hok, hlive⟩ := hl n (by simp)
    obtain ⟨d, hd⟩ := Option.isSome_iff_exists.mp hlive
    obtain ⟨h1, h2, h3, h4⟩ := downloadOne_spec M hU skip chunk s hi dir hdir n hv hu hok d hd
    have hdir' : ∀ q ∈ (downloadOne M.step skip chunk s dir n).2.1.keys, U q := by
      rw [h4]
      split
      · exact hdir
      · intro q hq
        rcases Tree.keys_put_subset _ _ _ q hq with h | h
        · rw [h]; exact hu
        · exact hdir q h
    obtain ⟨k1, k2, k3, k4⟩ := ih _ h2 (fun k hk => by
      obtain ⟨a, b, c, e⟩ := hl k (List.mem_cons_of_mem _ hk)
      exact ⟨a, b, c, by rw [h3]; exact e⟩) _ hdir'
    unfold downloadLoop
    simp only [h1]
    refine ⟨k1, k2, by rw [k3, h3], ?_⟩
    rw [k4, h3, h4]
    simp only [downSpec, hd]
end download

/-! ## `delete_objects` against a store model -/

def delAll : Spec → List Name → Spec
  | m, [] => m
  | m, n :: rest => delAll (m.del n) rest

theorem delAll_apply (m : Spec) (l : List Name) (n : Name) : delAll m l n = if n ∈ l then none else m n := by
  induction l generalizing m with
  | nil => simp [delAll]
  | cons k l ih =>
    simp only [delAll, ih, List.mem_cons, Spec.del]
    by_cases h1 : n ∈ l
    · simp [h1]
    · by_cases h2 : n = k <;> simp [h1, h2]

def eraseAll : Tree → List Path → Tree
  | t, [] => t
  | t, p :: rest => eraseAll (t.erase p) rest

theorem eraseAll_get (t : Tree) (l : List Path) (q : Path) : (eraseAll t l).get q = if q ∈ l then none else t.get q := by
  induction l generalizing t with
  | nil => simp [eraseAll]
  | cons p l ih =>
    simp only [eraseAll, ih, List.mem_cons, Tree.get_erase]
    by_cases h1 : q ∈ l
    · simp [h1]
    · by_cases h2 : q = p <;> simp [h1, h2]

theorem eraseAll_keys (t : Tree) (l : List Path) : ∀ q ∈ (eraseAll t l).keys, q ∈ t.keys := by
  induction l generalizing t with
  | nil => exact fun _ h => h
  | cons p l ih => exact fun q hq => Tree.keys_erase_subset t p q (ih _ q hq)

theorem evict_spec {U : Path → Prop} (hU : Universe U) (cache : Tree) (hc : ∀ q ∈ cache.keys, U q) (n : Name)
    (hv : validName n = true) (hu : U (splitSlash n)) : evict cache n = (cache.erase (splitSlash n), none) := by
  unfold evict
  simp only [LocalFS.relPath_valid hv, Tree.not_blocked hU hc hu, Tree.not_isDir hU hc hu, LocalFS.splitSlash_ne_nil n,
    Bool.false_eq_true, or_self, if_false]

section delete
variable {σ : Type} (M : StoreModel σ)

theorem deleteLoop_spec {U : Path → Prop} (hU : Universe U) (useCache : Bool) (l : List Name) (hok : ∀ n ∈ l, M.ok (.delete n))
    (hn : useCache = true → ∀ n ∈ l, validName n = true ∧ U (splitSlash n)) (s : σ) (hi : M.inv s) (cache : Tree)
    (hc : useCache = true → ∀ q ∈ cache.keys, U q) :
    (deleteLoop M.step useCache s cache l).2.2.2 = none ∧ M.inv (deleteLoop M.step useCache s cache l).1 ∧
    M.abs (deleteLoop M.step useCache s cache l).1 = delAll (M.abs s) l ∧
    (deleteLoop M.step useCache s cache l).2.1 = (if useCache = true then eraseAll cache (l.map splitSlash) else cache) := by
  induction l generalizing s cache with
  | nil => exact ⟨rfl, hi, rfl, by simp [deleteLoop, eraseAll]⟩
  | cons n l ih =>
    obtain ⟨h1, h2, h3⟩ := M.delete_spec hi (hok n (by simp))
    have hok' : ∀ k ∈ l, M.ok (.delete k) := fun k hk => hok k (List.mem_cons_of_mem _ hk)
    have hn' : useCache = true → ∀ k ∈ l, validName k = true ∧ U (splitSlash k) := fun hu k hk => hn hu k (List.mem_cons_of_mem _ hk)
    unfold deleteLoop
    simp only [h3, retUnit]
    cases useCache with
    | false =>
      simp only [Bool.false_eq_true, if_false]
      obtain ⟨k1, k2, k3, k4⟩ := ih hok' hn' _ h1 cache hc
      refine ⟨k1, k2, by rw [k3, h2]; rfl, ?_⟩
      simpa using k4
    | true =>
      obtain ⟨hv, hu⟩ := hn rfl n (by simp)
      simp only [if_true, evict_spec hU cache (hc rfl) n hv hu]
      obtain ⟨k1, k2, k3, k4⟩ := ih hok' hn' _ h1 (cache.erase (splitSlash n))
        (fun _ q hq => hc rfl q (Tree.keys_erase_subset _ _ q hq))
      refine ⟨k1, k2, by rw [k3, h2]; rfl, ?_⟩
      simpa [eraseAll] using k4
end delete

/-! ## whole commands -/
section commands
variable {σ : Type} (M : StoreModel σ)

theorem uploadObjects_spec (concurrent : Nat) (hconc : 1 ≤ concurrent) (cwd : Path) (dirs paths : List Path) (rl : Option Nat)
    (hrl : rl ≠ some 0) (skip : Bool) (s : σ) (hinv : M.inv s) (t : Tree) (fl : List Path) (hfl : flatten t dirs paths = .ok fl)
    (hok : ∀ f ∈ fl, M.OkName (objectName cwd f)) :
    (uploadObjects M.step concurrent cwd dirs paths rl skip s t).res
        = .ok (if dedupFirst fl = [] then .none else .files (dedupFirst fl)) ∧
    M.inv (uploadObjects M.step concurrent cwd dirs paths rl skip s t).st ∧
    (uploadObjects M.step concurrent cwd dirs paths rl skip s t).loc = t ∧
    M.abs (uploadObjects M.step concurrent cwd dirs paths rl skip s t).st = upSpec skip (M.abs s) (items cwd t (dedupFirst fl)) := by
  obtain ⟨chunk, hchunk, hc1⟩ := chunkSize_pos concurrent hconc rl hrl
  unfold uploadObjects
  simp only [hfl]
  by_cases he : dedupFirst fl = []
  · simp only [he, if_true]
    exact ⟨trivial, hinv, trivial, by simp [items, upSpec]⟩
  · simp only [he, if_false, hchunk]
    have hitems : ∀ e ∈ items cwd t (dedupFirst fl), M.ok (.exists_ e.1) ∧ M.ok (.uploadStream e.1 e.2 chunk) := by
      rintro ⟨n, d⟩ he'
      obtain ⟨f, hf, _, rfl⟩ := items_mem.mp he'
      obtain ⟨o1, _, o3, _⟩ := hok f ((mem_dedupFirst fl f).mp hf)
      exact ⟨o1, o3 d chunk hc1⟩
    obtain ⟨k1, k2, k3⟩ := uploadLoop_spec M skip chunk _ hitems s hinv
    simp only [k1]
    exact ⟨trivial, k2, trivial, k3⟩

theorem downloadObjects_spec {U : Path → Prop} (hU : Universe U) (concurrent : Nat) (hconc : 1 ≤ concurrent) (pfx : Name)
    (keep : Name → Bool) (rl : Option Nat) (hrl : rl ≠ some 0) (skip : Bool) (s : σ) (hinv : M.inv s) (dir : Tree)
    (hdir : ∀ q ∈ dir.keys, U q) (hlist : M.ok (.list pfx))
    (hsel : ∀ n, (M.abs s n).isSome = true → pfx <+: n → keep n = true → validName n = true ∧ U (splitSlash n) ∧ M.OkName n) :
    ∃ l : List Name, l.Nodup ∧ (∀ n, n ∈ l ↔ (M.abs s n).isSome = true ∧ pfx <+: n ∧ keep n = true) ∧
      (downloadObjects M.step concurrent pfx keep rl skip s dir).res = .ok (if l = [] then .none else .names l) ∧
      M.inv (downloadObjects M.step concurrent pfx keep rl skip s dir).st ∧
      M.abs (downloadObjects M.step concurrent pfx keep rl skip s dir).st = M.abs s ∧
      (downloadObjects M.step concurrent pfx keep rl skip s dir).loc = downSpec skip (M.abs s) dir l := by
  obtain ⟨chunk, hchunk, hc1⟩ := chunkSize_pos concurrent hconc rl hrl
  obtain ⟨i1, a1, ns, hns, hnd, hmem⟩ := M.list_spec hinv hlist
  have hmem' : ∀ n, n ∈ ns.filter keep ↔ (M.abs s n).isSome = true ∧ pfx <+: n ∧ keep n = true := by
    intro n; simp only [List.mem_filter, hmem n, and_assoc]
  refine ⟨ns.filter keep, hnd.filter _, hmem', ?_⟩
  unfold downloadObjects
  simp only [hns]
  by_cases he : ns.filter keep = []
  · simp only [he, if_true]
    exact ⟨trivial, i1, a1, by simp [downSpec]⟩
  · simp only [he, if_false, hchunk]
    have hl : ∀ n ∈ ns.filter keep, validName n = true ∧ U (splitSlash n) ∧ M.ok (.downloadStream n chunk []) ∧
        (M.abs (M.step s (.list pfx)).1 n).isSome = true := by
      intro n hn
      obtain ⟨h1, h2, h3⟩ := (hmem' n).mp hn
      obtain ⟨v, u, _, _, _, o4⟩ := hsel n h1 h2 h3
      exact ⟨v, u, o4 chunk [] hc1, by rw [a1]; exact h1⟩
    obtain ⟨k1, k2, k3, k4⟩ := downloadLoop_spec M hU skip chunk _ _ i1 hl dir hdir
    simp only [k1]
    exact ⟨trivial, k2, by rw [k3, a1], by rw [k4, a1]⟩

theorem listObjects_spec (pfx : Name) (keep : Name → Bool) (s : σ) (hinv : M.inv s) (loc : Tree) (hlist : M.ok (.list pfx)) :
    ∃ l : List Name, l.Nodup ∧ (∀ n, n ∈ l ↔ (M.abs s n).isSome = true ∧ pfx <+: n ∧ keep n = true) ∧
      (listObjects M.step pfx keep s loc).res = .ok (.names l) ∧ M.inv (listObjects M.step pfx keep s loc).st ∧
      M.abs (listObjects M.step pfx keep s loc).st = M.abs s ∧ (listObjects M.step pfx keep s loc).loc = loc := by
  obtain ⟨i1, a1, ns, hns, hnd, hmem⟩ := M.list_spec hinv hlist
  refine ⟨ns.filter keep, hnd.filter _, ?_, ?_, i1, a1, rfl⟩
  · intro n; simp only [List.mem_filter, hmem n, and_assoc]
  · simp only [listObjects, hns]

theorem deleteObjects_spec {U : Path → Prop} (hU : Universe U) (names : List Name) (confirm : Bool) (answer : List Char)
    (useCache : Bool) (s : σ) (hinv : M.inv s) (cache : Tree) (hok : ∀ n ∈ names, M.ok (.delete n))
    (hn : useCache = true → ∀ n ∈ names, validName n = true ∧ U (splitSlash n))
    (hc : useCache = true → ∀ q ∈ cache.keys, U q) :
    (deleteObjects M.step names confirm answer useCache s cache).res = .ok .none ∧
    M.inv (deleteObjects M.step names confirm answer useCache s cache).st ∧
    (∀ n, M.abs (deleteObjects M.step names confirm answer useCache s cache).st n =
      if proceeds confirm answer = true ∧ n ∈ names then none else M.abs s n) ∧
    (∀ q, (deleteObjects M.step names confirm answer useCache s cache).loc.get q =
      if proceeds confirm answer = true ∧ useCache = true ∧ q ∈ names.map splitSlash then none else cache.get q) ∧
    (∀ q ∈ (deleteObjects M.step names confirm answer useCache s cache).loc.keys, q ∈ cache.keys) := by
  unfold deleteObjects
  cases hp : proceeds confirm answer with
  | false =>
    simp only [Bool.false_eq_true, if_false, false_and]
    exact ⟨trivial, hinv, fun _ => trivial, fun _ => trivial, fun _ h => h⟩
  | true =>
    obtain ⟨k1, k2, k3, k4⟩ := deleteLoop_spec M hU useCache names hok hn s hinv cache hc
    simp only [if_true, k1, true_and]
    refine ⟨k2, ?_, ?_, ?_⟩
    · intro n; rw [k3, delAll_apply]
    · intro q; rw [k4]
      cases useCache with
      | false => simp
      | true => simp only [if_true, eraseAll_get, true_and]
    · intro q hq; rw [k4] at hq
      cases useCache with
      | false => simpa using hq
      | true => exact eraseAll_keys _ _ q (by simpa using hq)
end commands

/-! ## interleavings of the upload tasks (map level; the scheduler is `runSchedule` of `ObjCmd.lean`) -/

/-- what every reachable configuration satisfies, relative to the map `m0` the command started from -/
structure Good (skip : Bool) (m0 : Spec) (items : List (Name × Bytes)) (m : Spec) (ts : List Task) : Prop where
  names : ts.map (·.name) = items.map (·.1)
  mem : ∀ t ∈ ts, (t.name, t.data) ∈ items
  other : ∀ n, n ∉ items.map (·.1) → m n = m0 n
  phase : ∀ t ∈ ts, match t.phase with
    | .todo => m t.name = m0 t.name
    | .pending => skip = true ∧ (m0 t.name).isSome = false ∧ m t.name = m0 t.name
    | .done => m t.name = if skip = true ∧ (m0 t.name).isSome = true then m0 t.name else some t.data

theorem good_init (skip : Bool) (m0 : Spec) (items : List (Name × Bytes)) : Good skip m0 items m0 (initTasks items) := by
  refine ⟨by simp [initTasks], ?_, fun _ _ => rfl, ?_⟩
  · intro t ht
    obtain ⟨e, he, rfl⟩ := List.mem_map.mp ht
    exact he
  · intro t ht
    obtain ⟨e, he, rfl⟩ := List.mem_map.mp ht
    rfl

theorem advance_name (skip : Bool) (m : Spec) (t : Task) : (advance skip m t).2.name = t.name ∧ (advance skip m t).2.data = t.data := by
  unfold advance
  split
  · split
    · split <;> exact ⟨rfl, rfl⟩
    · exact ⟨rfl, rfl⟩
  · exact ⟨rfl, rfl⟩
  · exact ⟨rfl, rfl⟩

/-- a call of the task for `t.name` changes the map at most at `t.name` -/
theorem advance_other (skip : Bool) (m : Spec) (t : Task) (k : Name) (hk : k ≠ t.name) : (advance skip m t).1 k = m k := by
  unfold advance
  split
  · split
    · split <;> rfl
    · simp [Spec.put, hk]
  · simp [Spec.put, hk]
  · rfl

theorem good_step (skip : Bool) (m0 : Spec) (items : List (Name × Bytes)) (m : Spec) (ts : List Task) (n : Name)
    (h : Good skip m0 items m ts) : Good skip m0 items (stepTask skip m ts n).1 (stepTask skip m ts n).2 := by
  unfold stepTask
  cases hf : ts.find? (fun t => decide (t.name = n)) with
  | none => exact h
  | some t =>
    have ht : t ∈ ts := List.mem_of_find?_eq_some hf
    have htn : t.name = n := by simpa using List.find?_some hf
    obtain ⟨an, ad⟩ := advance_name skip m t
    simp only
    refine ⟨?_, ?_, ?_, ?_⟩
    · rw [← h.names, List.map_map]
      apply List.map_congr_left
      intro u _
      by_cases hu : u.name = n
      · simp [hu, an, htn]
      · simp [hu]
    · intro u hu
      obtain ⟨v, hv, rfl⟩ := List.mem_map.mp hu
      by_cases hvn : v.name = n
      · simp only [hvn, if_true, an, ad]; exact h.mem t ht
      · simp only [hvn, if_false]; exact h.mem v hv
    · intro k hk
      rw [advance_other skip m t k, h.other k hk]
      intro e
      apply hk
      rw [e, ← h.names]
      exact List.mem_map_of_mem ht
    · intro u hu
      obtain ⟨v, hv, rfl⟩ := List.mem_map.mp hu
      by_cases hvn : v.name = n
      · simp only [hvn, if_true]
        have hp := h.phase t ht
        unfold advance
        cases hph : t.phase with
        | todo =>
          rw [hph] at hp
          cases skip with
          | true =>
            simp only [if_true]
            cases hs : (m t.name).isSome with
            | true =>
              have : (m0 t.name).isSome = true := by rw [← hp]; exact hs
              simp [hp, this]
            | false =>
              have : (m0 t.name).isSome = false := by rw [← hp]; exact hs
              simp only [Bool.false_eq_true, if_false]
              exact ⟨trivial, this, hp⟩
          | false => simp [Spec.put]
        | pending =>
          rw [hph] at hp
          obtain ⟨_, hb, _⟩ := hp
          simp [Spec.put, hb]
        | done => rw [hph] at hp; simp only [hph]; exact hp
      · simp only [hvn, if_false]
        have hp := h.phase v hv
        have hne : v.name ≠ t.name := fun e => hvn (e.trans htn)
        rw [advance_other skip m t v.name hne]
        exact hp

theorem good_run (skip : Bool) (m0 : Spec) (items : List (Name × Bytes)) (sched : List Name) (m : Spec) (ts : List Task)
    (h : Good skip m0 items m ts) : Good skip m0 items (runSchedule skip m ts sched).1 (runSchedule skip m ts sched).2 := by
  induction sched generalizing m ts with
  | nil => exact h
  | cons n sched ih => exact ih _ _ (good_step skip m0 items m ts n h)

end Replicat.ObjCmd
