import ReplicatProofs.Lemmas.OptionsCustom
/-!
Helper lemmas for C19 about CLASS HIERARCHIES of backends (`Options.shortNameOf`, `Options.backendEnvVar`,
`Options.classBackendRow`): under a fallback rule that looks at the class's own declaration only, the short name — hence the
environment variable of every option — of a backend class does not depend on the classes it derives from.
-/
namespace Replicat.Options
open Replicat.Gen

/-- own rule ⇒ the short name is a function of the class's own declaration -/
theorem shortNameOf_own (rule : OptShortNameRule) (h : ruleIsOwn rule = true) (c : BackendClass) (ps ps' : List BackendClass) :
    shortNameOf rule (c :: ps) = shortNameOf rule (c :: ps') := by
  cases rule <;> simp [ruleIsOwn] at h <;> simp [shortNameOf]

/-- own rule ⇒ the short name is one of the names the class declares itself -/
theorem shortNameOf_mem_own (rule : OptShortNameRule) (h : ruleIsOwn rule = true) (c : BackendClass) (ps : List BackendClass) :
    ∃ s ∈ ownNames c, shortNameOf rule (c :: ps) = some s := by
  cases rule <;> simp [ruleIsOwn] at h <;> cases hk : c.kwShort <;> cases ha : c.attrShort <;>
    simp [shortNameOf, ownNames, hk, ha]

/-- the class keyword wins under every recognised rule -/
theorem shortNameOf_keyword (rule : OptShortNameRule) (c : BackendClass) (k : String) (hk : c.kwShort = some k)
    (ps : List BackendClass) : shortNameOf rule (c :: ps) = some k := by
  simp [shortNameOf, hk]

/-- own rule, no plain class attribute ⇒ the documented name: keyword, else class name -/
theorem shortNameOf_documented (rule : OptShortNameRule) (h : ruleIsOwn rule = true) (c : BackendClass)
    (ha : c.attrShort = none) (ps : List BackendClass) : shortNameOf rule (c :: ps) = some (documentedShortName c) := by
  cases rule <;> simp [ruleIsOwn] at h <;> cases hk : c.kwShort <;> simp [shortNameOf, documentedShortName, hk, ha]

end Replicat.Options
