import ReplicatProofs.Lemmas.LocalList
/-! Helper lemmas for C13: the normal form of the local listing is exactly the set of live names with the prefix, each once. -/
namespace Replicat.LocalFS
open Replicat Replicat.Store

theorem splitSlash_append_noslash (a t : List Char) (ha : '/' ∉ a) :
    splitSlash (a ++ t) = (a ++ (splitSlash t).headD []) :: (splitSlash t).tail := by
  induction a with
  | nil => simpa using splitSlash_eq_head_tail t
  | cons c cs ih =>
    have hc : c ≠ '/' := fun e => ha (by simp [e])
    have hcs : '/' ∉ cs := fun e => ha (List.mem_cons_of_mem _ e)
    rw [List.cons_append, splitSlash_cons_ne c hc, ih hcs]
    simp

/-- a prefix with a normal directory part matches a canonical name iff the name continues the directory and its next segment
starts with the basename -/
theorem prefix_iff (ds : Path) (hds : ∀ s ∈ ds, plainSeg s) (bn : List Char) (hbn : '/' ∉ bn)
    (q : Path) (hq : validPath q = true) :
    joinSlash (ds ++ [bn]) <+: joinSlash q ↔ ∃ e sub, q = ds ++ e :: sub ∧ bn <+: e := by
  have hsl : ∀ (e : Seg) (sub : Path), slashed (ds ++ e :: sub) = slashed ds ++ '/' :: e ++ slashed sub := by
    intro e sub; rw [slashed_append, slashed_cons]; simp
  constructor
  · rintro ⟨t, ht⟩
    have hsplit : splitSlash (joinSlash (ds ++ [bn]) ++ t) = ds ++ (bn ++ (splitSlash t).headD []) :: (splitSlash t).tail := by
      by_cases hd : ds = []
      · subst hd
        simp only [List.nil_append, joinSlash]
        exact splitSlash_append_noslash bn t hbn
      · rw [joinSlash_append ds [bn] hd (by simp)]
        simp only [joinSlash, List.append_assoc, List.cons_append]
        rw [splitSlash_append_slash', splitSlash_joinSlash ds hd (fun s hs => (hds s hs).2), splitSlash_append_noslash bn t hbn]
    rw [ht, split_join_valid hq] at hsplit
    exact ⟨_, _, hsplit, List.prefix_append _ _⟩
  · rintro ⟨e, sub, rfl, ⟨h, rfl⟩⟩
    have h1 := slashed_eq (ds ++ [bn]) (by simp)
    have h2 := slashed_eq (ds ++ (bn ++ h) :: sub) (by simp)
    rw [slashed_append] at h1
    rw [hsl] at h2
    have : ('/' :: joinSlash (ds ++ [bn])) <+: ('/' :: joinSlash (ds ++ (bn ++ h) :: sub)) := by
      rw [← h1, ← h2]
      refine ⟨h ++ slashed sub, ?_⟩
      simp [slashed]
    exact (List.cons_prefix_cons.mp this).2

theorem mem_innerNF (fs : FS) (ds : Path) (e : Seg) (s : Name) :
    s ∈ innerNF fs ds e ↔
      (fs.isDir (ds ++ [e]) = true ∧ ∃ sub, sub ≠ [] ∧ ds ++ e :: sub ∈ fs.files.map (·.1) ∧ s = joinSlash (ds ++ e :: sub)) ∨
      (fs.isDir (ds ++ [e]) = false ∧ ds ++ [e] ∈ fs.files.map (·.1) ∧ s = joinSlash (ds ++ [e])) := by
  unfold innerNF
  by_cases hd : fs.isDir (ds ++ [e]) = true
  · rw [if_pos hd]
    simp only [List.mem_map, mem_filesUnder, hd, true_and, Bool.true_eq_false, false_and, or_false]
    constructor
    · rintro ⟨sub, ⟨h1, h2⟩, rfl⟩; exact ⟨sub, h1, by simpa using h2, rfl⟩
    · rintro ⟨sub, h1, h2, rfl⟩; exact ⟨sub, ⟨h1, by simpa using h2⟩, rfl⟩
  · rw [if_neg hd]
    have hd' : fs.isDir (ds ++ [e]) = false := by simpa using hd
    by_cases hf : fs.isFile (ds ++ [e]) = true
    · rw [if_pos hf]
      simp [hd', (isFile_iff fs _).mp hf]
    · rw [if_neg hf]
      have : ds ++ [e] ∉ fs.files.map (·.1) := fun h => hf ((isFile_iff fs _).mpr h)
      simp [hd', this]

section spec
variable {U : Path → Prop} (hU : Universe U) {fs : FS} (hinv : Inv U fs)
include hU hinv

theorem key_valid {q : Path} (hq : q ∈ fs.files.map (·.1)) : validPath q = true := hU.valid q (hinv.filesU q hq)

omit hU hinv in
theorem innerNF_key {ds : Path} {e : Seg} {s : Name} (h : s ∈ innerNF fs ds e) :
    ∃ sub, ds ++ e :: sub ∈ fs.files.map (·.1) ∧ s = joinSlash (ds ++ e :: sub) := by
  rcases (mem_innerNF fs ds e s).mp h with ⟨_, sub, _, h2, h3⟩ | ⟨_, h2, h3⟩
  · exact ⟨sub, h2, h3⟩
  · exact ⟨[], h2, h3⟩

/-- the directory part of a matching live name is a directory that can be scanned -/
theorem kind_dir_of_key {ds : Path} {e : Seg} {sub : Path} (hq : ds ++ e :: sub ∈ fs.files.map (·.1)) : fs.kind ds = .dir := by
  have hUq := hinv.filesU _ hq
  have hanc : ∀ a, a ∈ ancestors ds → a ∈ ancestors (ds ++ e :: sub) := by
    intro a ha
    obtain ⟨h1, h2, _⟩ := (mem_ancestors a ds).mp ha
    refine (mem_ancestors a _).mpr ⟨h1, h2.trans (List.prefix_append _ _), ?_⟩
    intro e'
    have := h2.length_le
    rw [e'] at this
    simp at this
    omega
  have hb : fs.blocked ds = false := by
    unfold FS.blocked
    simp only [List.any_eq_false]
    intro a ha hf
    exact hU.prefixFree a _ (hinv.filesU a ((isFile_iff fs a).mp hf)) hUq (hanc a ha)
  have hd : fs.isDir ds = true := by
    unfold FS.isDir
    by_cases hds : ds = []
    · simp [hds]
    · have : ds ∈ ancestors (ds ++ e :: sub) := (mem_ancestors ds _).mpr ⟨hds, List.prefix_append _ _, by simp⟩
      simp [hinv.dirsOfFiles _ hq ds this]
  unfold FS.kind
  simp [hb, hd]

theorem mem_listNF (ds : Path) (hds : ∀ s ∈ ds, validSeg s = true) (bn : List Char) (hbn : '/' ∉ bn) (s : Name) :
    s ∈ listNF fs ds bn ↔ ∃ q, q ∈ fs.files.map (·.1) ∧ s = joinSlash q ∧ joinSlash (ds ++ [bn]) <+: s := by
  have hdsp : ∀ s ∈ ds, plainSeg s := fun s hs => plainSeg_of_valid (hds s hs)
  constructor
  · intro h
    unfold listNF at h
    by_cases hk : fs.kind ds ≠ .dir
    · rw [if_pos hk] at h; cases h
    · rw [if_neg hk] at h
      obtain ⟨e, he, hs⟩ := List.mem_flatMap.mp h
      obtain ⟨sub, hq, rfl⟩ := innerNF_key hs
      refine ⟨_, hq, rfl, ?_⟩
      have hpre : bn <+: e := List.isPrefixOf_iff_prefix.mp (List.mem_filter.mp he).2
      exact (prefix_iff ds hdsp bn hbn _ (key_valid hU hinv hq)).mpr ⟨e, sub, rfl, hpre⟩
  · rintro ⟨q, hq, rfl, hpre⟩
    obtain ⟨e, sub, rfl, hbe⟩ := (prefix_iff ds hdsp bn hbn q (key_valid hU hinv hq)).mp hpre
    unfold listNF
    have hk := kind_dir_of_key hU hinv hq
    rw [if_neg (by simp [hk])]
    apply List.mem_flatMap.mpr
    by_cases hsub : sub = []
    · subst hsub
      refine ⟨e, List.mem_filter.mpr ⟨(mem_entries fs ds e).mpr ⟨_, Or.inl hq, rfl⟩, List.isPrefixOf_iff_prefix.mpr hbe⟩, ?_⟩
      apply (mem_innerNF fs ds e _).mpr
      right
      exact ⟨not_isDir hU hinv (hinv.filesU _ hq), hq, rfl⟩
    · have hanc : ds ++ [e] ∈ ancestors (ds ++ e :: sub) := by
        refine (mem_ancestors _ _).mpr ⟨by simp, ⟨sub, by simp⟩, ?_⟩
        intro e'
        have := congrArg List.length e'
        simp at this
        exact hsub this
      have hdir : ds ++ [e] ∈ fs.dirs := hinv.dirsOfFiles _ hq _ hanc
      refine ⟨e, List.mem_filter.mpr ⟨(mem_entries fs ds e).mpr ⟨_, Or.inr hdir, rfl⟩, List.isPrefixOf_iff_prefix.mpr hbe⟩, ?_⟩
      apply (mem_innerNF fs ds e _).mpr
      left
      exact ⟨by simp [FS.isDir, hdir], sub, hsub, hq, rfl⟩

theorem nodup_listNF (ds : Path) (bn : List Char) : (listNF fs ds bn).Nodup := by
  unfold listNF
  by_cases hk : fs.kind ds ≠ .dir
  · rw [if_pos hk]; exact List.nodup_nil
  · rw [if_neg hk]
    have hes : ((fs.entries ds).filter (fun e => bn.isPrefixOf e)).Nodup := (nodup_dedup _).filter _
    rw [List.nodup_flatMap]
    constructor
    · intro e _
      unfold innerNF
      by_cases hd : fs.isDir (ds ++ [e]) = true
      · rw [if_pos hd]
        have hfu : (fs.filesUnder (ds ++ [e])).Nodup := by
          unfold FS.filesUnder
          apply List.Nodup.filterMap _ hinv.nodup
          intro a a' b hb hb'
          by_cases hc : (ds ++ [e]).isPrefixOf a = true ∧ a ≠ ds ++ [e]
          · by_cases hc' : (ds ++ [e]).isPrefixOf a' = true ∧ a' ≠ ds ++ [e]
            · rw [if_pos hc] at hb; rw [if_pos hc'] at hb'
              obtain ⟨t, rfl⟩ := List.isPrefixOf_iff_prefix.mp hc.1
              obtain ⟨t', rfl⟩ := List.isPrefixOf_iff_prefix.mp hc'.1
              have e1 : b = t := by simpa using hb.symm
              have e2 : b = t' := by simpa using hb'.symm
              rw [← e1, ← e2]
            · rw [if_neg hc'] at hb'; cases hb'
          · rw [if_neg hc] at hb; cases hb
        apply List.Nodup.map_on _ hfu
        intro sub hsub sub' hsub' heq
        have h1 := ((mem_filesUnder fs _ sub).mp hsub).2
        have h2 := ((mem_filesUnder fs _ sub').mp hsub').2
        have hv1 : validPath (ds ++ e :: sub) = true := by simpa using key_valid hU hinv h1
        have hv2 : validPath (ds ++ e :: sub') = true := by simpa using key_valid hU hinv h2
        have := joinSlash_inj_valid hv1 hv2 heq
        simpa using this
      · rw [if_neg hd]
        by_cases hf : fs.isFile (ds ++ [e]) = true
        · rw [if_pos hf]; simp
        · rw [if_neg hf]; exact List.nodup_nil
    · apply hes.imp
      intro a b hne s hsa hsb
      obtain ⟨sub, hq, rfl⟩ := innerNF_key hsa
      obtain ⟨sub', hq', heq⟩ := innerNF_key hsb
      have := joinSlash_inj_valid (key_valid hU hinv hq) (key_valid hU hinv hq') heq
      have : a = b := by
        have h := List.append_cancel_left this
        exact (List.cons.inj h).1
      exact hne this

/-- a name is live in the abstraction iff it is the canonical name of a file -/
theorem abs_isSome_iff (s : Name) : (fs.abs s).isSome = true ↔ ∃ q, q ∈ fs.files.map (·.1) ∧ s = joinSlash q := by
  unfold FS.abs
  constructor
  · intro h
    by_cases hv : validName s = true
    · rw [if_pos hv] at h
      exact ⟨splitSlash s, (isFile_iff fs _).mp h, (joinSlash_splitSlash s).symm⟩
    · rw [if_neg hv] at h; cases h
  · rintro ⟨q, hq, rfl⟩
    have hv := key_valid hU hinv hq
    rw [if_pos (validName_joinSlash hv), split_join_valid hv]
    exact (isFile_iff fs q).mpr hq

end spec
/-- a prefix with a normal directory part is `dirname/basename` with valid directory segments -/
theorem normalPrefix_split (pfx : Name) (h : normalPrefix pfx = true) :
    ∃ ds bn, (∀ s ∈ ds, validSeg s = true) ∧ '/' ∉ bn ∧ pfx = joinSlash (ds ++ [bn]) := by
  have hne := splitSlash_ne_nil pfx
  obtain ⟨ds, bn, hsp⟩ : ∃ ds bn, splitSlash pfx = ds ++ [bn] := by
    rcases List.eq_nil_or_concat (splitSlash pfx) with h0 | ⟨l, x, h0⟩
    · exact absurd h0 hne
    · exact ⟨l, x, by simpa using h0⟩
  refine ⟨ds, bn, ?_, ?_, ?_⟩
  · unfold normalPrefix at h
    rw [hsp] at h
    simpa using h
  · exact splitSlash_seg_no_slash pfx bn (by rw [hsp]; simp)
  · rw [← hsp, joinSlash_splitSlash]

/-! ## atomic replacement -/
theorem gen_temp_suffix : Gen.localTempSuffix.toList = ".tmp".toList := by decide

theorem last_suffix_joinSlash (xs : Path) (seg : Seg) : seg <:+ joinSlash (xs ++ [seg]) := by
  by_cases h : xs = []
  · subst h; exact List.suffix_refl _
  · rw [joinSlash_append xs [seg] h (by simp)]
    exact List.suffix_append_of_suffix (List.suffix_cons _ _)

/-- a name that does not end in `.tmp` never addresses the temporary file of an upload -/
theorem ne_tempPath (m : Name) (hm : tmpName m = false) (p : Path) (rnd : List Char) : splitSlash m ≠ tempPath p rnd := by
  intro e
  have hj : m = joinSlash (tempPath p rnd) := by rw [← e, joinSlash_splitSlash]
  have hsuf : ".tmp".toList <:+ m := by
    rw [hj]
    unfold tempPath
    refine List.IsSuffix.trans ?_ (last_suffix_joinSlash _ _)
    rw [gen_temp_suffix]
    exact ⟨(p.getLast?.getD []).take 240 ++ '_' :: rnd, by simp⟩
  have : tmpName m = true := List.isSuffixOf_iff_suffix.mpr hsuf
  rw [hm] at this; cases this

/-- the state after all four steps of an upload -/
theorem uploadState_final (fs : FS) (p : Path) (rnd : List Char) (d : Bytes) (k : Nat) :
    uploadState fs p rnd d (k + 4) =
      ⟨ainsert (aerase (ainsert (ainsert fs.files (tempPath p rnd) []) (tempPath p rnd) d) (tempPath p rnd)) p d,
       (fs.mkdirs (ancestors p)).dirs⟩ := by
  unfold uploadState
  rw [List.take_of_length_le (by simp [uploadSteps])]
  simp only [uploadSteps, List.foldl, FS.apply, FS.write, FS.mkdirs, FS.get, FS.erase, alookup_ainsert, if_true]

theorem uploadState_2 (fs : FS) (p : Path) (rnd : List Char) (d : Bytes) :
    (uploadState fs p rnd d 2).files = ainsert fs.files (tempPath p rnd) [] := by
  simp [uploadState, uploadSteps, List.take, List.foldl, FS.apply, FS.write, FS.mkdirs]

theorem uploadState_3 (fs : FS) (p : Path) (rnd : List Char) (d : Bytes) :
    (uploadState fs p rnd d 3).files = ainsert (ainsert fs.files (tempPath p rnd) []) (tempPath p rnd) d := by
  simp [uploadState, uploadSteps, List.take, List.foldl, FS.apply, FS.write, FS.mkdirs]

end Replicat.LocalFS
