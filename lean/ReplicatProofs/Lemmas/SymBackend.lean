import ReplicatModel.SymBackend
import ReplicatProofs.Lemmas.SymView
/-! Snapshots against an arbitrary backend (C05): the history invariant survives EVERY answer of `exists` and every foreign
removal, provided the producer queues ciphertext; under the honest schedule the event snapshot is the snapshot of `step`. -/
namespace Replicat.Sym
open Term (pub sec nonce key nil pair mac kdf enc)

/-! ## the honest schedule -/
theorem filter_ne_of_lookup_none (s : Store) (loc : Term) (h : lookup s loc = none) : s.filter (fun e => e.1 ≠ loc) = s := by
  induction s with
  | nil => rfl
  | cons e rest ih =>
    unfold lookup at h
    by_cases he : e.1 = loc
    · simp [he] at h
    · simp only [he, if_false] at h
      have hd : decide (e.1 ≠ loc) = true := by simp [he]
      simp only [List.filter_cons, hd, if_true]
      rw [ih h]

theorem putChunkAns_honest (p : Props) (s : St) (c : Term) : putChunkAnsWith true p s c none = putChunk p s c := by
  unfold putChunkAnsWith putChunk queuedWith
  simp only [if_true]
  cases hl : lookup (if p.encrypted = true then
      { s with next := s.next + 1, uses := s.uses ++ [(subKey p (if Gen.chunkWriteKeyFromDigest then digest c else nil), nonce s.next)] }
    else s).store (chunkLoc p (digest c)) with
  | some o => simp [answered]
  | none =>
    simp only [answered, Option.getD_none, Option.isSome_none, Bool.false_eq_true, if_false]
    rw [filter_ne_of_lookup_none _ _ hl]

theorem evChunks_honest (cs : List Term) : evChunks (honestEvs cs) = cs := by
  induction cs with
  | nil => rfl
  | cons c cs ih => simp only [honestEvs, List.map_cons, evChunks] at ih ⊢; rw [ih]

theorem foldl_honest (p : Props) (cs : List Term) (s : St) :
    (honestEvs cs).foldl (evStepWith true p) s = cs.foldl (putChunk p) s := by
  induction cs generalizing s with
  | nil => rfl
  | cons c cs ih =>
    simp only [honestEvs, List.map_cons, List.foldl_cons, evStepWith] at ih ⊢
    rw [putChunkAns_honest, ih]

theorem step_snapshot_eq (s : St) (user : Nat) (chunks : List Term) (data : Data) :
    step s (.snapshot user chunks data) =
      match s.users[user]? with
      | none => s
      | some u => finishSnapshot (u.props s.encrypted) s.encrypted (chunks.foldl (putChunk (u.props s.encrypted)) s) chunks data := by
  simp only [step]
  cases s.users[user]? <;> rfl

theorem snapshotEv_honest (s : St) (user : Nat) (chunks : List Term) (data : Data) :
    snapshotEvWith true s user (honestEvs chunks) data = step s (.snapshot user chunks data) := by
  rw [step_snapshot_eq]
  unfold snapshotEvWith
  cases s.users[user]? with
  | none => rfl
  | some u => simp only [foldl_honest, evChunks_honest]

/-! ## the invariant under arbitrary answers -/
theorem inv_putChunkAns (cfg : Term) {p : Props} (hp : KeysOK p) (s : St) (c : Term) (ans : Option Bool) (h : Inv cfg s) :
    Inv cfg (putChunkAnsWith true p s c ans) := by
  have he : p.encrypted = true := hp.1
  obtain ⟨h1, h2, h3, h4, h5⟩ := h
  obtain ⟨u1, u2⟩ := uses_append s.uses s.next (subKey p (if Gen.chunkWriteKeyFromDigest then digest c else nil)) h4 h5
  unfold putChunkAnsWith queuedWith
  simp only [he, if_true]
  split
  · exact ⟨h1, h2, h3, u1, u2⟩
  · refine ⟨h1, h2, ?_, u1, u2⟩
    intro e hmem
    simp only [List.mem_append, List.mem_singleton] at hmem
    rcases hmem with hmem | hmem
    · exact h3 e hmem
    · subst hmem
      exact entry_chunk cfg hp s.next c

theorem inv_evStep (cfg : Term) {p : Props} (hp : KeysOK p) (s : St) (e : Ev) (h : Inv cfg s) : Inv cfg (evStepWith true p s e) := by
  cases e with
  | chunk c ans => exact inv_putChunkAns cfg hp s c ans h
  | vanish locs =>
    obtain ⟨h1, h2, h3, h4, h5⟩ := h
    exact ⟨h1, h2, h3, h4, h5⟩

theorem inv_evs (cfg : Term) {p : Props} (hp : KeysOK p) (evs : List Ev) (s : St) (h : Inv cfg s) :
    Inv cfg (evs.foldl (evStepWith true p) s) := by
  induction evs generalizing s with
  | nil => exact h
  | cons e evs ih => exact ih _ (inv_evStep cfg hp s e h)

theorem inv_finishSnapshot (cfg : Term) {p : Props} (hk : KeysOK p) (s1 : St) (chunks : List Term) (data : Data) (h : Inv cfg s1) :
    Inv cfg (finishSnapshot p true s1 chunks data) := by
  obtain ⟨h1, h2, h3, h4, h5⟩ := h
  unfold finishSnapshot
  simp only [if_true]
  obtain ⟨u1, u2⟩ := uses_append _ _ p.userKey h4 h5
  obtain ⟨v1, v2⟩ := uses_append _ _ (subKey p (Term.hash (enc p.userKey (nonce s1.next) (encData data)))) u1 u2
  refine ⟨h1, h2, ?_, ?_, ?_⟩
  · intro e hmem
    simp only [List.mem_append, List.mem_singleton] at hmem
    rcases hmem with hmem | hmem
    · exact h3 e hmem
    · subst hmem
      exact entry_snap cfg hk _ _ _ _
  · simpa [List.append_assoc] using v1
  · simpa [List.append_assoc] using v2

def BOp.wf : BOp → Prop
  | .plain op => op.wf
  | .snapshotEv _ _ _ => True

theorem inv_stepB (cfg : Term) (s : St) (op : BOp) (hw : op.wf) (h : Inv cfg s) : Inv cfg (stepBWith true s op) := by
  cases op with
  | plain op => exact inv_step cfg s op hw h
  | snapshotEv user evs data =>
    simp only [stepBWith, snapshotEvWith]
    split
    · exact h
    · rename_i u hu
      have hum : u ∈ s.users := List.mem_of_getElem? hu
      have hk := keysOK_of_user (h.users u hum)
      rw [h.enc]
      exact inv_finishSnapshot cfg hk _ _ _ (inv_evs cfg hk evs s h)

/-! ## views -/
theorem putChunkAns_encrypted (q : Bool) (p : Props) (s : St) (c : Term) (ans : Option Bool) :
    (putChunkAnsWith q p s c ans).encrypted = s.encrypted := by
  unfold putChunkAnsWith
  simp only
  repeat' split
  all_goals rfl

theorem evs_encrypted (q : Bool) (p : Props) (evs : List Ev) (s : St) : (evs.foldl (evStepWith q p) s).encrypted = s.encrypted := by
  induction evs generalizing s with
  | nil => rfl
  | cons e evs ih =>
    rw [List.foldl_cons, ih]
    cases e with
    | chunk c ans => exact putChunkAns_encrypted q p s c ans
    | vanish locs => rfl

theorem finishSnapshot_encrypted (p : Props) (b : Bool) (s1 : St) (chunks : List Term) (data : Data) :
    (finishSnapshot p b s1 chunks data).encrypted = s1.encrypted := by
  unfold finishSnapshot
  simp only
  split <;> rfl

theorem stepB_encrypted (q : Bool) (s : St) (op : BOp) : (stepBWith q s op).encrypted = s.encrypted := by
  cases op with
  | plain op => exact step_encrypted s op
  | snapshotEv user evs data =>
    simp only [stepBWith, snapshotEvWith]
    split
    · rfl
    · rw [finishSnapshot_encrypted, evs_encrypted]

theorem stepViewB_faithful (q : Bool) (s : St) (op : BOp) : stepViewBWith q s s.encrypted op = stepBWith q s op := by
  have h := stepB_encrypted q s op
  unfold stepViewBWith
  have hs : ({ s with encrypted := s.encrypted } : St) = s := rfl
  rw [hs]
  cases hst : stepBWith q s op
  rw [hst] at h
  simp only at h
  simp [h]

theorem stepViewB_encrypted (q : Bool) (s : St) (v : Bool) (op : BOp) : (stepViewBWith q s v op).encrypted = s.encrypted := rfl

theorem inv_foldB (cfg : Term) (ops : List (Bool × BOp)) (hops : ∀ vo ∈ ops, vo.2.wf) (hv : ∀ vo ∈ ops, vo.1 = true)
    (s : St) (h : Inv cfg s) : Inv cfg (ops.foldl (fun s vo => stepViewBWith true s vo.1 vo.2) s) := by
  induction ops generalizing s with
  | nil => exact h
  | cons vo ops ih =>
    rw [List.foldl_cons]
    apply ih (fun o ho => hops o (List.mem_cons_of_mem _ ho)) (fun o ho => hv o (List.mem_cons_of_mem _ ho))
    have h0 : vo.1 = s.encrypted := by rw [hv vo (by simp), h.enc]
    rw [h0, stepViewB_faithful]
    exact inv_stepB cfg s vo.2 (hops vo (by simp)) h

theorem inv_runB (a : InitArgs) (hw : a.wf) (he : a.encrypted = true) (ops : List (Bool × BOp)) (hops : ∀ vo ∈ ops, vo.2.wf)
    (hv : ∀ vo ∈ ops, vo.1 = true) : Inv a.cfg (runBWith true a ops) :=
  inv_foldB a.cfg ops hops hv _ (inv_init a hw he)

/-- a history without adversarial snapshots is a history of `runView` -/
theorem runB_plain (q : Bool) (a : InitArgs) (ops : List (Bool × Op)) :
    runBWith q a (ops.map (fun vo => (vo.1, BOp.plain vo.2))) = runView a ops := by
  unfold runBWith runView
  generalize initSt a = s
  induction ops generalizing s with
  | nil => rfl
  | cons vo ops ih =>
    simp only [List.map_cons, List.foldl_cons]
    rw [ih]
    rfl

end Replicat.Sym
