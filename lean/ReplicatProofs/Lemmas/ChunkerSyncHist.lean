import ReplicatProofs.Lemmas.ChunkerLocal
/-! Lemmas about cut rules evaluated in the adapter loop itself (C11): a rule that only ever answers what `next_cut` would answer
on the same buffer changes nothing; the rule of the code that exists is the empty one.  Core Lean only. -/
namespace Replicat
namespace Sync

/-- a rule is harmless when each of its answers is `next_cut`'s answer on the same buffer and finality -/
def PyRule.Agrees (p : CParams) (h : Hash) (rule : PyRule) : Prop :=
  ∀ (prev : Option Bytes) (buf : Bytes) (final : Bool) (pos : Nat), rule prev buf final = some pos → nextCut p h buf final = some pos

theorem noPyRule_agrees (p : CParams) (h : Hash) : PyRule.Agrees p h noPyRule := by
  intro prev buf final pos hr
  simp [noPyRule] at hr

theorem cutWith_agrees {p : CParams} {h : Hash} {rule : PyRule} (hr : PyRule.Agrees p h rule)
    (prev : Option Bytes) (buf : Bytes) (final : Bool) : cutWith p h rule prev buf final = nextCut p h buf final := by
  unfold cutWith
  cases hrule : rule prev buf final with
  | none => rfl
  | some pos => exact (hr prev buf final pos hrule).symm

theorem drainH_agrees {p : CParams} {h : Hash} {rule : PyRule} (hr : PyRule.Agrees p h rule) (final : Bool) :
    ∀ (fuel : Nat) (prev : Option Bytes) (buf : Bytes), drainH p h rule final fuel prev buf = drain p h final fuel buf := by
  intro fuel
  induction fuel with
  | zero => intro prev buf; rfl
  | succ n ih =>
    intro prev buf
    simp only [drainH, drain, cutWith_agrees hr, ih]
    cases nextCut p h buf final with
    | none => rfl
    | some pos =>
      by_cases h0 : pos = 0
      · simp only [h0, if_true]
      · simp only [h0, if_false]
        cases drain p h final n (List.drop pos buf) with
        | none => rfl
        | some r => rfl

theorem feedH_agrees {p : CParams} {h : Hash} {rule : PyRule} (hr : PyRule.Agrees p h rule) :
    ∀ (ps : List Bytes) (prev : Option Bytes) (buf : Bytes), feedH p h rule prev buf ps = feed p h buf ps := by
  intro ps
  induction ps with
  | nil => intro prev buf; rfl
  | cons pc ps ih =>
    intro prev buf
    cases ps with
    | nil => simp only [feedH, feed, drainH_agrees hr]
    | cons q qs =>
      simp only [feedH, feed, drainH_agrees hr, ih]
      cases drain p h false (drainFuel (buf ++ pc)) (buf ++ pc) with
      | none => rfl
      | some r => rfl

theorem chunkAllH_agrees {p : CParams} {h : Hash} {rule : PyRule} (hr : PyRule.Agrees p h rule) (pieces : List Bytes) :
    chunkAllH p h rule pieces = chunkAll p h pieces :=
  feedH_agrees hr pieces none []

/-- bridge to the plug-in section `tools/sections/11_cutsource.py`: every cut position of `gclmulchunker.__call__` is the value
of `next_cut(buffer, …)` on the buffer that is sliced.  An edit that computes a position in Python makes this stop compiling. -/
theorem cutsourceSectionOk_eq : Gen.cutsourceSectionOk = true := rfl

theorem adapterRule_eq (unknown : PyRule) : adapterRule unknown = noPyRule := by
  unfold adapterRule
  have h2 : (Gen.adapterCutsNotFromNextCut.isEmpty && Gen.adapterNextCutOnCurrentBuffer) = true := by decide
  rw [if_pos h2]

end Sync
end Replicat
