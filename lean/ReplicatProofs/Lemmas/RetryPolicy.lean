import ReplicatProofs.Lemmas.RetryAttempts
/-!
Helper lemmas for C12: what `policy` answers, per backend, for each class of exception.
-/
set_option linter.unusedSimpArgs false
set_option linter.unusedVariables false
namespace Replicat.Retry

/-- the decorator is there, catches the adapter's error class, has a positive `max_tries`, and its `giveup=` predicate singles out
no class of OSError (an I/O error is transient whatever its errno: ENOENT, EACCES, ENOSPC, … are retried like EIO) -/
def PolSound (cfg : Cfg) (dec : Bool) : Prop :=
  cfg.maxTries = some cfg.budget ∧ 1 ≤ cfg.budget ∧ dec = true ∧ cfg.catches = true ∧ cfg.giveupOs = []

instance (cfg : Cfg) (dec : Bool) : Decidable (PolSound cfg dec) := by unfold PolSound; infer_instance

theorem limitHit_budget (cfg : Cfg) (h : cfg.maxTries = some cfg.budget) (tries : Nat) :
    limitHit cfg.maxTries tries = (tries == cfg.budget) := by
  rw [h]; rfl

/-! ## unconditional facts -/

/-- at try number `max_tries` nothing is retried in place (it is raised — or handed to `requires_auth`) -/
theorem policy_no_retry_at_limit (b : Backend) (cfg : Cfg) (dec ra : Bool) (h : cfg.maxTries = some cfg.budget) (e : Err) (rounds : Nat) (x : Bool) :
    policy b cfg dec ra e cfg.budget rounds ≠ .retry x := by
  unfold policy
  have hl : limitHit cfg.maxTries cfg.budget = true := by rw [limitHit_budget cfg h]; simp
  cases e with
  | auth => simp only; split <;> simp
  | os k => simp only [hl, Bool.or_true, if_true]; split <;> simp
  | transport => simp only [hl, Bool.or_true, if_true]; split <;> simp
  | status code r => simp only [hl, Bool.or_true, if_true]; split <;> simp

/-- a re-authentication only happens while the limit on rounds (if any) allows it -/
theorem policy_reauth_allowed (b : Backend) (cfg : Cfg) (dec ra : Bool) (e : Err) (tries rounds : Nat) (x : Bool)
    (h : policy b cfg dec ra e tries rounds = .reauth x) : reauthAllowed cfg rounds = true := by
  unfold policy at h
  by_cases hA : reauthAllowed cfg rounds = true
  · exact hA
  · simp only [Bool.not_eq_true] at hA
    simp only [hA, Bool.and_false, Bool.false_eq_true, if_false] at h
    cases e with
    | auth => simp at h
    | os k => simp only at h; split at h <;> (try split at h) <;> (try split at h) <;> simp at h
    | transport => simp only at h; split at h <;> (try split at h) <;> (try split at h) <;> simp at h
    | status code r =>
      simp only at h
      split at h
      · simp at h
      · split at h
        · simp at h
        · cases b <;> simp only at h <;> (try split at h) <;> (try split at h) <;> simp at h

/-- only B2 methods wrapped in `requires_auth` ever re-authenticate -/
theorem policy_no_reauth (b : Backend) (cfg : Cfg) (dec : Bool) (e : Err) (tries rounds : Nat) (x : Bool) :
    policy b cfg dec false e tries rounds ≠ .reauth x := by
  unfold policy
  cases e with
  | auth => simp
  | os k => simp only [Bool.false_and, Bool.false_eq_true, if_false]; split <;> (try split) <;> (try split) <;> simp
  | transport => simp only [Bool.false_and, Bool.false_eq_true, if_false]; split <;> (try split) <;> (try split) <;> simp
  | status code r =>
    simp only [Bool.false_and, Bool.false_eq_true, if_false]
    split
    · simp
    · split
      · simp
      · cases b <;> simp only <;> (try split) <;> (try split) <;> simp

/-! ## local -/

theorem policy_local_os (cfg : Cfg) (dec ra : Bool) (hs : PolSound cfg dec) (k tries rounds : Nat) :
    policy .local cfg dec ra (.os k) tries rounds = if tries = cfg.budget then .raise (.os k) false else .retry false := by
  obtain ⟨hm, _, hd, hc, hg⟩ := hs
  unfold policy
  simp only [hd, hc, hg, limitHit_budget cfg hm]
  by_cases h : tries = cfg.budget <;> simp [h]

/-- a `giveup=` predicate that singles out a class of OSError ends the call at once, whatever the try counter says -/
theorem policy_local_os_giveup (cfg : Cfg) (dec ra : Bool) (hd : dec = true) (hc : cfg.catches = true) (k tries rounds : Nat)
    (hk : k ∈ cfg.giveupOs) : policy .local cfg dec ra (.os k) tries rounds = .raise (.os k) false := by
  unfold policy
  simp [hd, hc, hk]

/-! ## S3 / B2: transport errors and statuses -/

theorem policy_http_transport (b : Backend) (hb : b ≠ .local) (cfg : Cfg) (dec ra : Bool) (hs : PolSound cfg dec) (tries rounds : Nat) :
    policy b cfg dec ra .transport tries rounds = if tries = cfg.budget then .raise .transport false else .retry false := by
  obtain ⟨hm, _, hd, hc, _⟩ := hs
  unfold policy
  simp only [hd, hc, limitHit_budget cfg hm]
  cases b with
  | «local» => exact absurd rfl hb
  | s3 => by_cases h : tries = cfg.budget <;> simp [h]
  | b2 => by_cases h : tries = cfg.budget <;> simp [h]

theorem policy_s3_status (cfg : Cfg) (dec ra : Bool) (hs : PolSound cfg dec) (code : Nat) (r : Bool) (tries rounds : Nat) :
    policy .s3 cfg dec ra (.status code r) tries rounds =
      if cfg.giveupStatus = some code ∨ tries = cfg.budget then .raise (.status code r) false else .retry false := by
  obtain ⟨hm, _, hd, hc, _⟩ := hs
  unfold policy
  simp only [hd, hc, limitHit_budget cfg hm]
  by_cases h : tries = cfg.budget <;> by_cases g : cfg.giveupStatus = some code <;> simp [h, g]

/-- B2: a status that is neither the give-up status nor raised at the limit is retried in place (429) or handed to `requires_auth` -/
theorem policy_b2_status (cfg : Cfg) (dec ra : Bool) (hs : PolSound cfg dec) (code : Nat) (r : Bool) (tries rounds : Nat)
    (hg : cfg.giveupStatus ≠ some code) (ht : tries ≠ cfg.budget) :
    policy .b2 cfg dec ra (.status code r) tries rounds =
      if cfg.plainRetryStatus = some code then .retry (r && cfg.handlerSleepsRetryAfter)
      else if cfg.handlerRaisesAuth = true then
        (if (ra && cfg.reauthOnAuthRequired && reauthAllowed cfg rounds) = true then .reauth (r && cfg.handlerSleepsRetryAfter)
         else .raise .auth (r && cfg.handlerSleepsRetryAfter))
      else .retry (r && cfg.handlerSleepsRetryAfter) := by
  obtain ⟨hm, _, hd, hc, _⟩ := hs
  unfold policy
  simp only [hd, hc, limitHit_budget cfg hm]
  by_cases p : cfg.plainRetryStatus = some code <;> simp [hg, ht, p]

theorem policy_b2_status_raise (cfg : Cfg) (dec ra : Bool) (hs : PolSound cfg dec) (code : Nat) (r : Bool) (tries rounds : Nat)
    (h : cfg.giveupStatus = some code ∨ tries = cfg.budget) :
    policy .b2 cfg dec ra (.status code r) tries rounds = .raise (.status code r) false := by
  obtain ⟨hm, _, hd, hc, _⟩ := hs
  unfold policy
  simp only [hd, hc, limitHit_budget cfg hm]
  rcases h with h | h <;> simp [h]

theorem policy_auth (b : Backend) (cfg : Cfg) (dec ra : Bool) (tries rounds : Nat) :
    policy b cfg dec ra .auth tries rounds =
      if (ra && cfg.reauthOnAuthRequired && reauthAllowed cfg rounds) = true then .reauth false else .raise .auth false := by
  unfold policy; rfl

/-! ## attempts under a bound on the re-authentication rounds -/

section
variable {σ : Type} (att : Option Fault → σ → Att σ) (pol : Err → Nat → Nat → Decision) (vis : σ → Option Bytes)

/-- if nothing is retried in place at try `m` and re-authentication needs `rounds < l`, a call makes at most `(l − rounds + 1)·m` attempts -/
theorem loop_bounded_reauth (m l : Nat) (hm : 1 ≤ m)
    (hlim : ∀ e rounds x, pol e m rounds ≠ .retry x)
    (hre : ∀ e tries rounds x, pol e tries rounds = .reauth x → rounds < l) :
    ∀ (fuel : Nat) (plan : List Fault) (tries rounds k : Nat) (st : σ), rounds + k = l → tries ≤ m →
      (loop att pol vis fuel tries rounds plan st).attempts + tries ≤ (k + 1) * m + 1 := by
  intro fuel
  induction fuel with
  | zero =>
    intro plan tries rounds k st _ ht
    simp only [loop]
    have : m ≤ (k + 1) * m := Nat.le_mul_of_pos_left m (by omega)
    omega
  | succ fuel ih =>
    intro plan tries rounds k st hk ht
    have hmul : m ≤ (k + 1) * m := Nat.le_mul_of_pos_left m (by omega)
    rw [loop_succ]
    cases h1 : (att plan.head? st).err with
    | none => simp only; omega
    | some e =>
      simp only
      cases hp : pol e tries rounds with
      | raise e' s => simp only; omega
      | retry b =>
        simp only [bump_attempts]
        have hlt : tries < m := by
          rcases Nat.lt_or_ge tries m with h | h
          · exact h
          · have : tries = m := by omega
            subst this
            exact absurd hp (hlim e rounds b)
        have := ih plan.tail (tries + 1) rounds k (att plan.head? st).st hk (by omega)
        omega
      | reauth b =>
        simp only [bump_attempts]
        have hr := hre e tries rounds b hp
        obtain ⟨k', rfl⟩ : ∃ k', k = k' + 1 := ⟨k - 1, by omega⟩
        have := ih plan.tail 1 (rounds + 1) k' (att plan.head? st).st (by omega) (by omega)
        have hs : (k' + 1 + 1) * m = (k' + 1) * m + m := Nat.succ_mul (k' + 1) m
        omega

end

end Replicat.Retry
