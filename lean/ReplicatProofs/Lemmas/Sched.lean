import ReplicatModel.Sched
/-!
Helper lemmas for C09: the generic invariant rule for schedules and the slot-queue system (S1).
-/
namespace Replicat.Sched
open List

/-- invariants of single steps hold along every legal schedule -/
theorem run_inv {σ ε : Type} (step : σ → ε → Option σ) (Inv : σ → Prop)
    (hstep : ∀ s e s', Inv s → step s e = some s' → Inv s') :
    ∀ (evs : List ε) (s s' : σ), Inv s → run step s evs = some s' → Inv s' := by
  intro evs
  induction evs with
  | nil => intro s s' h hr; simp only [run, Option.some.injEq] at hr; exact hr ▸ h
  | cons e es ih =>
    intro s s' h hr
    simp only [run] at hr
    cases hs : step s e with
    | none => simp [hs] at hr
    | some s1 => rw [hs] at hr; exact ih s1 s' (hstep s e s1 h hs) hr

theorem run_append {σ ε : Type} (step : σ → ε → Option σ) (a b : List ε) (s : σ) :
    run step s (a ++ b) = (run step s a).bind (fun s1 => run step s1 b) := by
  induction a generalizing s with
  | nil => simp [run]
  | cons e es ih =>
    simp only [cons_append, run]
    cases step s e with
    | none => simp
    | some s1 => exact ih s1

theorem accepts_ok_iff_run {σ ε : Type} (step : σ → ε → Option σ) (evs : List ε) (s s' : σ) (i : Nat) :
    accepts step s evs i = .ok s' ↔ run step s evs = some s' := by
  induction evs generalizing s i with
  | nil => simp [accepts, run]
  | cons e es ih =>
    simp only [accepts, run]
    cases step s e with
    | none => simp
    | some s1 => exact ih s1 (i + 1)

@[simp] theorem setAt_same {α : Type} (f : Nat → α) (k : Nat) (v : α) : setAt f k v k = v := by simp [setAt]
theorem setAt_other {α : Type} (f : Nat → α) (k x : Nat) (v : α) (h : x ≠ k) : setAt f k v x = f x := by simp [setAt, h]

/-! ## S1 -/

/-- the slot numbers are conserved: free ++ held ++ leaked is always a permutation of `base … base+n-1` -/
def SlotsInv (n : Nat) (σ : Slots) : Prop := (σ.free ++ σ.held ++ σ.leaked) ~ List.range' Gen.slotBase n

theorem slots_step_inv (fin : Bool) (n : Nat) (σ : Slots) (e : SlotEv) (σ' : Slots)
    (h : SlotsInv n σ) (hs : Slots.step fin σ e = some σ') : SlotsInv n σ' := by
  unfold SlotsInv at *
  cases e with
  | acquire s =>
    simp only [Slots.step] at hs
    split at hs
    · rename_i hm
      cases hs
      simp only
      refine Perm.trans ?_ h
      have h1 : σ.free ~ s :: σ.free.erase s := perm_cons_erase hm
      have : σ.free.erase s ++ s :: σ.held ~ σ.free ++ σ.held := by
        refine Perm.trans perm_middle ?_
        rw [← cons_append]
        exact (h1.symm).append_right _
      exact this.append_right _
    · cases hs
  | start s =>
    simp only [Slots.step] at hs
    split at hs <;> cases hs
    exact h
  | finish s ok =>
    simp only [Slots.step] at hs
    split at hs <;> cases hs
    exact h
  | release s =>
    simp only [Slots.step] at hs
    split at hs
    · rename_i hm
      have h1 : σ.held ~ s :: σ.held.erase s := perm_cons_erase hm
      split at hs
      · split at hs <;> cases hs
        · simp only
          refine Perm.trans ?_ h
          refine Perm.append_right _ ?_
          rw [cons_append]
          refine Perm.trans ?_ (Perm.append_left _ h1.symm)
          exact perm_middle.symm
        · simp only
          refine Perm.trans ?_ h
          rw [append_assoc, append_assoc]
          refine Perm.append_left _ ?_
          refine Perm.trans perm_middle ?_
          rw [← cons_append]
          exact h1.symm.append_right _
      · cases hs
    · cases hs

/-- bridge to the generated constructor loop: `concurrent` slots are created -/
theorem slotCount_eq (n : Nat) : Gen.slotCount n = n := by
  unfold Gen.slotCount; omega

theorem slots_init_inv (n : Nat) : SlotsInv n (Slots.init n) := by
  simp [SlotsInv, Slots.init, slotCount_eq]

/-- with the release in `finally` nothing ever leaks -/
theorem slots_step_noleak (σ : Slots) (e : SlotEv) (σ' : Slots)
    (h : σ.leaked = []) (hs : Slots.step true σ e = some σ') : σ'.leaked = [] := by
  cases e <;> simp only [Slots.step] at hs
  · split at hs <;> cases hs; exact h
  · split at hs <;> cases hs; exact h
  · split at hs <;> cases hs; exact h
  · split at hs
    · split at hs
      · simp only [Bool.or_true, if_true] at hs
        cases hs; exact h
      · cases hs
    · cases hs

end Replicat.Sched
