import ReplicatProofs.Lemmas.RepoGC
/-! Safety of every command (`Consistent` is preserved), exact restore of a listed snapshot, and the trace-level argument
for overlapping snapshot commands (`Supported`, `Interleave`).  Used by C02 (and C03/C07). -/
namespace Replicat.Repo
open List

/-! ## delete / clean preserve `Consistent` -/

theorem delete_consistent {enc : Bool} {u : User} {sids : List Nat} {s s' : Store}
    (h : Consistent enc s) (hu : UserOk enc u) (hd : deleteSnapshots enc u sids s = .ok s') : Consistent enc s' := by
  obtain ⟨hwf, hfam, href⟩ := h
  have sp := delete_spec hwf hd
  have hwf' : WF s' := by
    unfold deleteSnapshots at hd
    split at hd
    · cases hd
    · cases hd; exact (hwf.delAll _).delAll _
  -- a snapshot object of the new state was there before and is not one of the deleted ones
  have old : ∀ f sid o, get s' (.snap f sid) = some o → get s (.snap f sid) = some o ∧ ¬ (sid ∈ sids ∧ visible enc u f = true) := by
    intro f sid o hg
    by_cases hc : sid ∈ sids ∧ visible enc u f = true
    · rw [sp.snap_gone f sid hc.1 hc.2] at hg; cases hg
    · rw [sp.snap_keep f sid hc] at hg; exact ⟨hg, hc⟩
  refine ⟨hwf', ?_, ?_⟩
  · intro he f sid o hg
    exact hfam he f sid o (old f sid o hg).1
  · intro f sid b hg
    obtain ⟨hg0, hnot⟩ := old f sid _ hg
    obtain ⟨h1, h2⟩ := href f sid b hg0
    refine ⟨?_, h2⟩
    intro c hc
    rw [sp.chunk_keep f c ?_]
    · exact h1 c hc
    · by_cases hf : f = u.fam
      · subst hf
        refine Or.inr (Or.inr ⟨u.fam, sid, b, hg0, visible_own enc u, ?_, hc⟩)
        intro hs; exact hnot ⟨hs, visible_own enc u⟩
      · exact Or.inl hf

theorem clean_consistent {enc : Bool} {u : User} {s s' : Store}
    (h : Consistent enc s) (hu : UserOk enc u) (hd : clean enc u s = .ok s') : Consistent enc s' := by
  obtain ⟨hwf, hfam, href⟩ := h
  obtain ⟨s'', hs'', sp⟩ := clean_spec (enc := enc) (u := u) hwf
  rw [hd] at hs''; cases hs''
  have hwf' : WF s' := by
    unfold clean at hd
    split at hd
    · cases hd
    · cases hd; exact hwf.delAll _
  refine ⟨hwf', ?_, ?_⟩
  · intro he f sid o hg
    rw [sp.snap_keep] at hg
    exact hfam he f sid o hg
  · intro f sid b hg
    rw [sp.snap_keep] at hg
    obtain ⟨h1, h2⟩ := href f sid b hg
    refine ⟨?_, h2⟩
    intro c hc
    rw [sp.chunk_keep f c ?_]
    · exact h1 c hc
    · by_cases hf : f = u.fam
      · subst hf
        exact Or.inl ⟨rfl, u.fam, sid, b, hg, visible_own enc u, trivial, hc⟩
      · cases enc with
        | true => exact Or.inr ⟨rfl, hf⟩
        | false => exact absurd ((hfam rfl f sid _ hg).trans (hu rfl).symm) hf

theorem step_consistent {enc : Bool} {s : Store} {op : Op} (h : Consistent enc s) (hop : OpOk enc op) :
    Consistent enc (step enc s op) := by
  cases op with
  | snapshot u stream files ts sid => exact snapshot_consistent enc u stream files ts sid s h hop
  | delete u sids =>
    simp only [step]
    split
    · rename_i s' hd; exact delete_consistent h hop hd
    · exact h
  | clean u =>
    simp only [step]
    split
    · rename_i s' hd; exact clean_consistent h hop hd
    · exact h

theorem initStore_consistent (enc : Bool) : Consistent enc initStore := by
  refine ⟨⟨by simp [NoDupKeys, initStore], ?_⟩, ?_, ?_⟩
  · intro e he
    simp only [initStore, mem_singleton] at he
    subst he; trivial
  · intro _ f sid o hg
    simp [initStore, get] at hg
  · intro f sid b hg
    simp [initStore, get] at hg

/-! ## restore of one listed snapshot -/

theorem filterMap_unique {α β : Type} (g : α → Option β) (key : α → Name) (l : List α) (hnd : (l.map key).Nodup) (e : α) (v : β)
    (he : e ∈ l) (hv : g e = some v) (hother : ∀ e' ∈ l, key e' ≠ key e → g e' = none) : l.filterMap g = [v] := by
  induction l with
  | nil => simp at he
  | cons a l ih =>
    simp only [map_cons, nodup_cons] at hnd
    rcases mem_cons.mp he with rfl | he'
    · have : l.filterMap g = [] := by
        rw [filterMap_eq_nil_iff]
        intro x hx
        apply hother x (mem_cons_of_mem _ hx)
        intro hk
        exact hnd.1 (hk ▸ mem_map_of_mem hx)
      simp [filterMap_cons, hv, this]
    · have hne : key a ≠ key e := by
        intro hk
        exact hnd.1 (hk ▸ mem_map_of_mem he')
      have hga : g a = none := hother a (by simp) hne
      simp only [filterMap_cons, hga]
      exact ih hnd.2 he' (fun e' he'' => hother e' (mem_cons_of_mem _ he''))

theorem loadedPure_single {enc : Bool} {u : User} {s : Store} (hc : Consistent enc s) (hu : UserOk enc u)
    {f : Fam} {sid : Nat} {b : Body} (hg : get s (.snap f sid) = some (.snap f sid b)) (hv : visible enc u f = true) :
    loadedPure enc u (fun x => x == sid) s = [toLoaded enc u f sid b] := by
  obtain ⟨hwf, hfam, _⟩ := hc
  unfold loadedPure
  apply filterMap_unique _ (fun e : Name × Obj => e.1) s hwf.1 (.snap f sid, .snap f sid b) _ (mem_of_get hg)
  · simp [hv]
  · rintro ⟨n, o⟩ he hne
    have hm := hwf.2 _ he
    cases n with
    | snap f' sid' =>
      cases o with
      | snap f'' sid'' b' =>
        simp only [Matches] at hm
        obtain ⟨rfl, rfl⟩ := hm
        simp only
        split
        · rename_i hcnd
          simp only [Bool.and_eq_true, beq_iff_eq] at hcnd
          obtain ⟨rfl, hv'⟩ := hcnd
          have h1 := visible_fam hu hfam (get_of_mem hwf.1 he) hv'
          have h2 := visible_fam hu hfam hg hv
          exact absurd (by rw [h1, h2]) hne
        · rfl
      | _ => simp [Matches] at hm
    | _ => rfl

theorem selectFiles_foldl (fre : Nat → Bool) (l acc : List FileRec)
    (hdis : ∀ g ∈ acc, ∀ f ∈ l, g.path ≠ f.path) (hnd : (l.map (·.path)).Nodup) :
    l.foldl (fun acc f => if acc.any (fun g => g.path == f.path) then acc else if fre f.path then acc ++ [f] else acc) acc
      = acc ++ l.filter (fun f => fre f.path) := by
  induction l generalizing acc with
  | nil => simp
  | cons a l ih =>
    simp only [map_cons, nodup_cons] at hnd
    have hany : acc.any (fun g => g.path == a.path) = false := by
      rw [any_eq_false]
      intro g hg
      simpa using hdis g hg a (by simp)
    simp only [foldl_cons, hany, Bool.false_eq_true, if_false]
    have hdis' : ∀ g ∈ acc, ∀ f ∈ l, g.path ≠ f.path := fun g hg f hf => hdis g hg f (mem_cons_of_mem _ hf)
    by_cases hfa : fre a.path = true
    · simp only [hfa, if_true, filter_cons]
      rw [ih (acc ++ [a]) ?_ hnd.2]
      · simp
      · intro g hg f hf
        rcases mem_append.mp hg with hg | hg
        · exact hdis' g hg f hf
        · simp only [mem_singleton] at hg
          subst hg
          intro heq
          exact hnd.1 (heq ▸ mem_map_of_mem (f := (·.path)) hf)
    · simp only [hfa, if_false, Bool.false_eq_true, filter_cons]
      exact ih acc hdis' hnd.2

theorem restore_single {enc : Bool} {u : User} {s : Store} (hc : Consistent enc s) (hu : UserOk enc u)
    {f : Fam} {sid : Nat} {b : Body} (hg : get s (.snap f sid) = some (.snap f sid b)) (hv : visible enc u f = true)
    (hr : (!enc || b.owner == u.key) = true) (fre : Nat → Bool) :
    restore enc u (fun x => x == sid) fre s = .ok (b.files.filter (fun fr => fre fr.path)) := by
  have hsingle := loadedPure_single hc hu hg hv
  have hfu : f = u.fam := visible_fam hu hc.2.1 hg hv
  obtain ⟨hwf, _, href⟩ := hc
  obtain ⟨hchunks, hneeds, hpaths⟩ := href f sid b hg
  unfold restore
  rw [loadSnapshots_wf enc u _ s hwf, hsingle]
  simp only
  have hsel : selectFiles fre (readableNewestFirst [toLoaded enc u f sid b]) = b.files.filter (fun fr => fre fr.path) := by
    unfold readableNewestFirst selectFiles toLoaded
    simp only [filterMap_cons, hr, if_true, filterMap_nil, mergeSort_singleton, flatMap_cons, flatMap_nil, append_nil]
    rw [selectFiles_foldl fre b.files [] (by simp) hpaths]
    simp
  rw [hsel]
  have hall : ((b.files.filter (fun fr => fre fr.path)).all (fun fr => fr.needs.all (chunkOk u s))) = true := by
    rw [all_eq_true]
    intro fr hfr
    rw [all_eq_true]
    intro c hcn
    have hfr' : fr ∈ b.files := (mem_filter.mp hfr).1
    have := hchunks c (hneeds fr hfr' c hcn)
    unfold chunkOk
    rw [← hfu, this]
    simp
  rw [hall]
  rfl

/-! ## traces of non-destructive commands -/

/-- the mutations a snapshot command can emit: an object under its own name, a well-formed body -/
def GoodPut (enc : Bool) : Mut → Prop
  | .put (.chunk f c) (.chunk f' c') => f' = f ∧ c' = c
  | .put (.snap f sid) (.snap f' sid' b) => f' = f ∧ sid' = sid ∧ BodyOk b ∧ (enc = false → f = 0)
  | _ => False

/-- the put of a snapshot object happens when every chunk of its table is present -/
def SnapSupported (s : Store) (m : Mut) : Prop :=
  ∀ f sid f' sid' b, m = .put (.snap f sid) (.snap f' sid' b) → ∀ c ∈ b.chunks, get s (.chunk f c) = some (.chunk f c)

def Supported (s : Store) : List Mut → Prop
  | [] => True
  | m :: ms => SnapSupported s m ∧ Supported (applyMut s m) ms

theorem applyMut_consistent {enc : Bool} {s : Store} {m : Mut} (h : Consistent enc s) (hg : GoodPut enc m)
    (hs : SnapSupported s m) : Consistent enc (applyMut s m) := by
  obtain ⟨hwf, hfam, href⟩ := h
  cases m with
  | del n => simp [GoodPut] at hg
  | put n o =>
    cases n with
    | chunk f c =>
      cases o with
      | chunk f' c' =>
        simp only [GoodPut] at hg
        obtain ⟨rfl, rfl⟩ := hg
        simp only [applyMut]
        refine ⟨hwf.put _ _ ⟨rfl, rfl⟩, ?_, ?_⟩
        · intro he f sid o hg'
          rw [get_put_other _ _ _ _ (by intro h; cases h)] at hg'
          exact hfam he f sid o hg'
        · intro f sid b hg'
          rw [get_put_other _ _ _ _ (by intro h; cases h)] at hg'
          obtain ⟨h1, h2⟩ := href f sid b hg'
          refine ⟨?_, h2⟩
          intro c hc
          by_cases hn : Name.chunk f c = Name.chunk f' c'
          · cases hn; rw [get_put_same]
          · rw [get_put_other _ _ _ _ hn]; exact h1 c hc
      | _ => simp [GoodPut] at hg
    | snap f sid =>
      cases o with
      | snap f' sid' b =>
        simp only [GoodPut] at hg
        obtain ⟨rfl, rfl, hb, hf0⟩ := hg
        simp only [applyMut]
        refine ⟨hwf.put _ _ ⟨rfl, rfl⟩, ?_, ?_⟩
        · intro he f sid o hg'
          by_cases hn : Name.snap f sid = Name.snap f' sid'
          · cases hn; exact hf0 he
          · rw [get_put_other _ _ _ _ hn] at hg'
            exact hfam he f sid o hg'
        · intro f sid b' hg'
          by_cases hn : Name.snap f sid = Name.snap f' sid'
          · cases hn
            rw [get_put_same] at hg'
            cases hg'
            refine ⟨?_, hb⟩
            intro c hc
            rw [get_put_other _ _ _ _ (by intro h; cases h)]
            exact hs _ _ _ _ _ rfl c hc
          · rw [get_put_other _ _ _ _ hn] at hg'
            obtain ⟨h1, h2⟩ := href f sid b' hg'
            refine ⟨?_, h2⟩
            intro c hc
            rw [get_put_other _ _ _ _ (by intro h; cases h)]
            exact h1 c hc
      | _ => simp [GoodPut] at hg
    | _ => simp [GoodPut] at hg

theorem supported_consistent {enc : Bool} (tr : List Mut) (s : Store) (h : Consistent enc s)
    (hg : ∀ m ∈ tr, GoodPut enc m) (hs : Supported s tr) : Consistent enc (applyMuts s tr) := by
  induction tr generalizing s with
  | nil => exact h
  | cons m ms ih =>
    simp only [applyMuts, foldl_cons]
    exact ih _ (applyMut_consistent h (hg m (by simp)) hs.1) (fun m' hm' => hg m' (mem_cons_of_mem _ hm')) hs.2

/-- chunk presence order: everything valid and present in `s` is valid and present in `s'` -/
def ChunkLe (s s' : Store) : Prop := ∀ f c, get s (.chunk f c) = some (.chunk f c) → get s' (.chunk f c) = some (.chunk f c)

theorem ChunkLe.refl (s : Store) : ChunkLe s s := fun _ _ h => h
theorem ChunkLe.trans {a b c : Store} (h1 : ChunkLe a b) (h2 : ChunkLe b c) : ChunkLe a c := fun f x h => h2 f x (h1 f x h)

theorem chunkLe_mono {enc : Bool} {s s' : Store} {m : Mut} (hg : GoodPut enc m) (h : ChunkLe s s') :
    ChunkLe (applyMut s m) (applyMut s' m) := by
  cases m with
  | del n => simp [GoodPut] at hg
  | put n o =>
    intro f c hget
    simp only [applyMut] at *
    by_cases hn : Name.chunk f c = n
    · subst hn
      rw [get_put_same] at hget ⊢
      exact hget
    · rw [get_put_other _ _ _ _ hn] at hget ⊢
      exact h f c hget

theorem chunkLe_applyMut {enc : Bool} (s : Store) {m : Mut} (hg : GoodPut enc m) : ChunkLe s (applyMut s m) := by
  cases m with
  | del n => simp [GoodPut] at hg
  | put n o =>
    intro f c hget
    simp only [applyMut]
    by_cases hn : Name.chunk f c = n
    · subst hn
      cases o with
      | chunk f' c' =>
        simp only [GoodPut] at hg
        obtain ⟨rfl, rfl⟩ := hg
        rw [get_put_same]
      | _ => simp [GoodPut] at hg
    · rw [get_put_other _ _ _ _ hn]; exact hget

theorem supported_mono {enc : Bool} (tr : List Mut) (s s' : Store) (hg : ∀ m ∈ tr, GoodPut enc m) (hle : ChunkLe s s')
    (hs : Supported s tr) : Supported s' tr := by
  induction tr generalizing s s' with
  | nil => trivial
  | cons m ms ih =>
    refine ⟨?_, ih _ _ (fun m' hm' => hg m' (mem_cons_of_mem _ hm')) (chunkLe_mono (hg m (by simp)) hle) hs.2⟩
    intro f sid f' sid' b hm c hc
    exact hle f c (hs.1 f sid f' sid' b hm c hc)

/-- `c` is a merge of `a` and `b` that keeps the order inside each -/
inductive Interleave {α : Type} : List α → List α → List α → Prop
  | nil : Interleave [] [] []
  | left {a b c : List α} (x : α) : Interleave a b c → Interleave (x :: a) b (x :: c)
  | right {a b c : List α} (x : α) : Interleave a b c → Interleave a (x :: b) (x :: c)

theorem supported_interleave {enc : Bool} {t1 t2 t : List Mut} (hi : Interleave t1 t2 t) :
    ∀ (s1 s2 s : Store), ChunkLe s1 s → ChunkLe s2 s → (∀ m ∈ t1, GoodPut enc m) → (∀ m ∈ t2, GoodPut enc m) →
      Supported s1 t1 → Supported s2 t2 → Supported s t ∧ ∀ m ∈ t, GoodPut enc m := by
  induction hi with
  | nil => intro _ _ _ _ _ _ _ _ _; exact ⟨trivial, by simp⟩
  | left x _ ih =>
    intro s1 s2 s h1 h2 g1 g2 p1 p2
    have gx := g1 x (by simp)
    obtain ⟨r1, r2⟩ := ih (applyMut s1 x) s2 (applyMut s x) (chunkLe_mono gx h1) (h2.trans (chunkLe_applyMut s gx))
      (fun m hm => g1 m (mem_cons_of_mem _ hm)) g2 p1.2 p2
    refine ⟨⟨?_, r1⟩, ?_⟩
    · intro f sid f' sid' b hm c hc
      exact h1 f c (p1.1 f sid f' sid' b hm c hc)
    · intro m hm
      rcases mem_cons.mp hm with rfl | hm
      · exact gx
      · exact r2 m hm
  | right x _ ih =>
    intro s1 s2 s h1 h2 g1 g2 p1 p2
    have gx := g2 x (by simp)
    obtain ⟨r1, r2⟩ := ih s1 (applyMut s2 x) (applyMut s x) (h1.trans (chunkLe_applyMut s gx)) (chunkLe_mono gx h2)
      g1 (fun m hm => g2 m (mem_cons_of_mem _ hm)) p1 p2.2
    refine ⟨⟨?_, r1⟩, ?_⟩
    · intro f sid f' sid' b hm c hc
      exact h2 f c (p2.1 f sid f' sid' b hm c hc)
    · intro m hm
      rcases mem_cons.mp hm with rfl | hm
      · exact gx
      · exact r2 m hm

/-- accepted prefixes of a two-stage plan "chunk puts, then the snapshot object" are supported -/
theorem accepts_two_stage (msnap : Mut) (f : Fam) (sid : Nat) (b : Body) (hms : msnap = .put (.snap f sid) (.snap f sid b)) :
    ∀ (tr A : List Mut) (s : Store),
      (∀ m ∈ A, ∃ f c, m = Mut.put (.chunk f c) (.chunk f c)) →
      (∀ c ∈ b.chunks, get s (.chunk f c) = some (.chunk f c) ∨ Mut.put (.chunk f c) (.chunk f c) ∈ A) →
      acceptsPrefix [A, [msnap]] tr = true →
      Supported s tr ∧ ∀ m ∈ tr, m ∈ A ∨ m = msnap := by
  intro tr
  induction tr with
  | nil => intro A s _ _ _; exact ⟨trivial, by simp⟩
  | cons x xs ih =>
    intro A s hA hpres hacc
    have hunf : acceptsPrefix [A, [msnap]] (x :: xs) = (match normalizePlan [A, [msnap]] with
        | [] => false
        | stage :: rest => if stage.contains x then acceptsPrefix (stage.erase x :: rest) xs else false) := rfl
    rw [hunf] at hacc
    cases A with
    | nil =>
      have hn : normalizePlan [[], [msnap]] = [[msnap]] := by simp [normalizePlan]
      rw [hn] at hacc
      simp only at hacc
      split at hacc
      · rename_i hx
        have hxm : x = msnap := by simpa using hx
        subst hxm
        have hxs : xs = [] := by
          cases xs with
          | nil => rfl
          | cons y ys =>
            have : acceptsPrefix [[x].erase x] (y :: ys) = false := by
              have e : [x].erase x = [] := by simp
              rw [e]
              show (match normalizePlan [[]] with
                | [] => false
                | stage :: rest => if stage.contains y then acceptsPrefix (stage.erase y :: rest) ys else false) = false
              simp [normalizePlan]
            rw [this] at hacc; cases hacc
        subst hxs
        refine ⟨⟨?_, trivial⟩, by simp⟩
        intro f' sid' f'' sid'' b' hm c hc
        rw [hms] at hm
        cases hm
        rcases hpres c hc with h | h
        · exact h
        · simp at h
      · cases hacc
    | cons a A' =>
      have hn : normalizePlan [a :: A', [msnap]] = [a :: A', [msnap]] := by simp [normalizePlan]
      rw [hn] at hacc
      simp only at hacc
      split at hacc
      · rename_i hx
        have hxm : x ∈ a :: A' := by simpa using hx
        obtain ⟨fx, cx, hxeq⟩ := hA x hxm
        obtain ⟨r1, r2⟩ := ih ((a :: A').erase x) (applyMut s x)
          (fun m hm => hA m (mem_of_mem_erase hm))
          (by
            intro c hc
            rcases hpres c hc with h | h
            · left
              subst hxeq
              simp only [applyMut]
              by_cases hn' : Name.chunk f c = Name.chunk fx cx
              · cases hn'; rw [get_put_same]
              · rw [get_put_other _ _ _ _ hn']; exact h
            · by_cases hxe : Mut.put (.chunk f c) (.chunk f c) = x
              · left
                subst hxe
                simp only [applyMut, get_put_same]
              · right
                exact (mem_erase_of_ne hxe).mpr h)
          hacc
        refine ⟨⟨?_, r1⟩, ?_⟩
        · intro f' sid' f'' sid'' b' hm c hc
          rw [hxeq] at hm; cases hm
        · intro m hm
          rcases mem_cons.mp hm with rfl | hm
          · exact Or.inl hxm
          · rcases r2 m hm with h | h
            · exact Or.inl (mem_of_mem_erase h)
            · exact Or.inr h
      · cases hacc

/-- every accepted prefix of a snapshot's mutation plan consists of good puts and is supported -/
theorem snapshotPlan_supported {enc : Bool} {u : User} {stream : List Content} {files : List FileRec} {ts sid : Nat} {s : Store}
    (hwf : WF s) (hop : OpOk enc (.snapshot u stream files ts sid)) {tr : List Mut}
    (hacc : acceptsPrefix (snapshotPlan u stream files ts sid s) tr = true) :
    Supported s tr ∧ ∀ m ∈ tr, GoodPut enc m := by
  obtain ⟨hu, hneeds, hpaths⟩ := hop
  unfold snapshotPlan at hacc
  simp only at hacc
  have hnames := fold_names u stream (s, [])
  have hr2 : (snapshot u stream files ts sid s).2 = (stream.foldl (uploadChunk u) (s, [])).2 := rfl
  rw [hr2] at hacc
  have hA : ∀ m ∈ (stream.foldl (uploadChunk u) (s, [])).2.map
      (fun n => match n with | .chunk f c => Mut.put n (.chunk f c) | _ => Mut.del n),
      ∃ c, c ∈ stream ∧ m = Mut.put (.chunk u.fam c) (.chunk u.fam c) := by
    intro m hm
    obtain ⟨n, hn, rfl⟩ := mem_map.mp hm
    rcases (hnames n).mp hn with h | ⟨⟨c, hc, rfl⟩, _⟩
    · simp at h
    · exact ⟨c, hc, rfl⟩
  obtain ⟨r1, r2⟩ := accepts_two_stage _ u.fam sid ⟨u.key, ts, dedupKeepFirstC stream, files⟩ rfl tr _ s
    (fun m hm => by obtain ⟨c, _, rfl⟩ := hA m hm; exact ⟨_, _, rfl⟩)
    (by
      intro c hc
      have hc' : c ∈ stream := (mem_dedupKeepFirstC stream c).mp hc
      cases hg : get s (.chunk u.fam c) with
      | some o => left; rw [hwf.get_chunk hg]
      | none =>
        right
        apply mem_map.mpr
        exact ⟨.chunk u.fam c, (hnames _).mpr (Or.inr ⟨⟨c, hc', rfl⟩, hg⟩), rfl⟩)
    hacc
  refine ⟨r1, ?_⟩
  intro m hm
  rcases r2 m hm with h | rfl
  · obtain ⟨c, _, rfl⟩ := hA m h
    exact ⟨rfl, rfl⟩
  · refine ⟨rfl, rfl, ⟨?_, hpaths⟩, hu⟩
    intro fr hfr c hc
    exact (mem_dedupKeepFirstC stream c).mpr (hneeds fr hfr c hc)

end Replicat.Repo
