import ReplicatModel.CacheCmd
import ReplicatProofs.Lemmas.RepoStep
/-! Lemmas for C18: the cached commands are the `Repo.lean` commands with `loadSnapshots ↦ loadSnapshotsC`; a cache lookup on a
well-formed store returns the stored object whatever the cache holds (given verification + ideal hash). -/
namespace Replicat.CacheCmd
open Replicat.Repo Replicat.P18 List

/-! ## the factorisations are the definitions of `Repo.lean` -/
theorem loadSnapshotsC_none (enc : Bool) (u : User) (re : Nat → Bool) (s : Store) :
    loadSnapshotsC none enc u re s = loadSnapshots enc u re s := rfl

theorem deletePlan_eq (enc : Bool) (u : User) (sids : List Nat) (s : Store) :
    deletePlan enc u sids s = deletePlanFrom u sids (loadSnapshots enc u all s) := by
  unfold deletePlan deletePlanFrom all
  cases loadSnapshots enc u (fun _ => true) s <;> rfl

theorem deleteSnapshots_eq (enc : Bool) (u : User) (sids : List Nat) (s : Store) :
    deleteSnapshots enc u sids s = deleteFrom s (deletePlan enc u sids s) := by
  unfold deleteSnapshots deleteFrom
  cases deletePlan enc u sids s <;> rfl

theorem cleanPlan_eq (enc : Bool) (u : User) (s : Store) :
    cleanPlan enc u s = cleanPlanFrom enc u s (loadSnapshots enc u all s) := by
  unfold cleanPlan cleanPlanFrom all
  cases loadSnapshots enc u (fun _ => true) s <;> rfl

theorem clean_eq (enc : Bool) (u : User) (s : Store) : clean enc u s = cleanFrom s (cleanPlan enc u s) := by
  unfold clean cleanFrom
  cases cleanPlan enc u s <;> rfl

theorem restore_eq (enc : Bool) (u : User) (sre fre : Nat → Bool) (s : Store) :
    restore enc u sre fre s = restoreFrom u fre s (loadSnapshots enc u sre s) := by
  unfold restore restoreFrom
  cases loadSnapshots enc u sre s <;> rfl

theorem listSnapshots_eq (enc : Bool) (u : User) (sre : Nat → Bool) (s : Store) :
    listSnapshots enc u sre s = listSnapshotsFrom (loadSnapshots enc u sre s) := by
  unfold listSnapshots listSnapshotsFrom
  cases loadSnapshots enc u sre s <;> rfl

theorem listFiles_eq (enc : Bool) (u : User) (sre fre : Nat → Bool) (s : Store) :
    listFiles enc u sre fre s = listFilesFrom fre (loadSnapshots enc u sre s) := by
  unfold listFiles listFilesFrom
  cases loadSnapshots enc u sre s <;> rfl

/-! ## ideal hash -/

/-- **Ideal hash, local form**: a cached payload that hashes to the name of a stored snapshot *is* that snapshot.
(In the model a payload "hashes to `(f, sid)`" iff it is `Obj.snap f sid _`.) -/
def Agree (c : Cache) (s : Store) : Prop :=
  ∀ f sid b b', get c (.snap f sid) = some (.snap f sid b') → (Name.snap f sid, Obj.snap f sid b) ∈ s → b' = b

/-- **Ideal hash, global form**: `B f sid` is *the* body whose serialisation has digest `sid` (family `f`); every payload
anywhere (store or cache, under whatever key) that hashes to `(f, sid)` carries that body. -/
def Ideal (B : Fam → Nat → Body) (l : List (Name × Obj)) : Prop :=
  ∀ e ∈ l, ∀ f sid b, e.2 = Obj.snap f sid b → b = B f sid

theorem agree_of_ideal {B : Fam → Nat → Body} {c : Cache} {s : Store} (hc : Ideal B c) (hs : Ideal B s) : Agree c s := by
  intro f sid b b' hg hm
  have h1 := hc _ (mem_of_get hg) f sid b' rfl
  have h2 := hs _ hm f sid b rfl
  rw [h1, h2]

/-! ## one lookup -/
theorem viaCache_eq (hv : Gen.cacheVerified = true) (c : Cache) (f : Fam) (sid : Nat) (o : Obj)
    (h : ∀ b', get c (.snap f sid) = some (.snap f sid b') → o = .snap f sid b') :
    viaCache (some c) f sid o = o := by
  unfold viaCache
  simp only [hv, if_true]
  cases hg : get c (.snap f sid) with
  | none => rfl
  | some cached =>
    cases cached with
    | snap f' sid' b' =>
      simp only
      split
      · rename_i hc
        simp only [Bool.and_eq_true, beq_iff_eq] at hc
        obtain ⟨rfl, rfl⟩ := hc
        exact (h b' hg).symm
      · rfl
    | _ => rfl

theorem loadCandidatesC_eq (hv : Gen.cacheVerified = true) (c : Cache) (enc : Bool) (u : User) (re : Nat → Bool) (s : Store)
    (hm : ∀ e ∈ s, Matches e.1 e.2) (ha : Agree c s) :
    loadCandidatesC (some c) enc u re s = loadCandidatesC none enc u re s := by
  unfold loadCandidatesC
  apply filterMap_congr'
  intro e he
  rcases e with ⟨n, o⟩
  cases n with
  | snap f sid =>
    simp only
    have hmo := hm _ he
    cases o with
    | snap f' sid' b =>
      simp only [Matches] at hmo
      obtain ⟨rfl, rfl⟩ := hmo
      rw [viaCache_eq hv c f' sid' _ (fun b' hg => by rw [ha f' sid' b b' hg he])]
      rfl
    | _ => simp [Matches] at hmo
  | _ => rfl

/-- lookups only ever use the keys of listed snapshots -/
theorem loadCandidatesC_congr (c c' : Cache) (enc : Bool) (u : User) (re : Nat → Bool) (s : Store)
    (h : ∀ e ∈ s, get c e.1 = get c' e.1) :
    loadCandidatesC (some c) enc u re s = loadCandidatesC (some c') enc u re s := by
  unfold loadCandidatesC
  apply filterMap_congr'
  intro e he
  rcases e with ⟨n, o⟩
  cases n with
  | snap f sid =>
    have := h _ he
    simp only at this
    simp only [viaCache, this]
  | _ => rfl

/-! ## what ends up in the cache -/
theorem mem_cacheAfterLoad {cache : Cache} {enc : Bool} {u : User} {re : Nat → Bool} {s : Store} {e : Name × Obj}
    (he : e ∈ cacheAfterLoad cache enc u re s) :
    e ∈ cache ∨ (e ∈ s ∧ ∃ f sid b, e = (Name.snap f sid, Obj.snap f sid b)) := by
  unfold cacheAfterLoad at he
  -- generalise the part of the store already processed
  suffices H : ∀ (l : List (Name × Obj)) (c : Cache), (∀ x ∈ l, x ∈ s) →
      e ∈ l.foldl (fun c e =>
        match e.1, e.2 with
        | .snap f sid, .snap f' sid' b =>
          if re sid && visible enc u f && f' == f && sid' == sid && !cacheUsable c f sid then put c (.snap f sid) (.snap f' sid' b) else c
        | _, _ => c) c →
      e ∈ c ∨ (e ∈ s ∧ ∃ f sid b, e = (Name.snap f sid, Obj.snap f sid b)) from H s cache (fun _ h => h) he
  intro l
  induction l with
  | nil => intro c _ h; exact Or.inl h
  | cons x l ih =>
    intro c hl h
    simp only [foldl_cons] at h
    have hx : x ∈ s := hl x (by simp)
    rcases ih _ (fun y hy => hl y (by simp [hy])) h with h1 | h1
    · rcases x with ⟨n, o⟩
      cases n with
      | snap f sid =>
        cases o with
        | snap f' sid' b =>
          simp only at h1
          split at h1
          · rename_i hc
            simp only [Bool.and_eq_true, beq_iff_eq] at hc
            obtain ⟨⟨⟨_, rfl⟩, rfl⟩, _⟩ := hc
            rcases mem_put h1 with rfl | h2
            · exact Or.inr ⟨hx, _, _, _, rfl⟩
            · exact Or.inl h2
          · exact Or.inl h1
        | _ => exact Or.inl h1
      | _ => exact Or.inl h1
    · exact Or.inr h1

theorem ideal_cacheAfterLoad {B : Fam → Nat → Body} {cache : Cache} {enc : Bool} {u : User} {re : Nat → Bool} {s : Store}
    (hc : Ideal B cache) (hs : Ideal B s) : Ideal B (cacheAfterLoad cache enc u re s) := by
  intro e he
  rcases mem_cacheAfterLoad he with h | ⟨h, _⟩
  · exact hc e h
  · exact hs e h

/-! ## ideal hash along a history -/
/-- a snapshot command creates the body that its digest denotes -/
def OpIdeal (B : Fam → Nat → Body) : Op → Prop
  | .snapshot u stream files ts sid => B u.fam sid = ⟨u.key, ts, dedupKeepFirstC stream, files⟩
  | _ => True

theorem ideal_step {B : Fam → Nat → Body} {enc : Bool} {s : Store} {op : Op} (hs : Ideal B s) (ho : OpIdeal B op) :
    Ideal B (step enc s op) := by
  cases op with
  | snapshot u stream files ts sid =>
    intro e he f sid' b hb
    rcases mem_snapshot he with h | ⟨c, rfl⟩ | rfl
    · exact hs e h f sid' b hb
    · cases hb
    · simp only [Obj.snap.injEq] at hb
      obtain ⟨rfl, rfl, rfl⟩ := hb
      exact ho.symm
  | delete u sids =>
    simp only [step]
    unfold deleteSnapshots
    cases deletePlan enc u sids s with
    | error e => exact hs
    | ok p => exact fun e he => hs e (mem_delAll (mem_delAll he))
  | clean u =>
    simp only [step]
    unfold clean
    cases cleanPlan enc u s with
    | error e => exact hs
    | ok ns => exact fun e he => hs e (mem_delAll he)

end Replicat.CacheCmd
