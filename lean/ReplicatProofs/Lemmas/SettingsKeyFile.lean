import ReplicatModel.KeyFileIO
import ReplicatProofs.Lemmas.Settings
/-! helper lemmas for the key-file part of `Properties/C17.lean` (`ReplicatModel/KeyFileIO.lean`) -/
namespace Replicat.Settings
open Replicat.Gen

theorem writeBytes_overwrites {α : Type} (m : WriteMode) (hm : overwrites m = true) (old : Option (List α)) (new : List α) :
    writeBytes m old new = .ok new := by
  cases m <;> simp [overwrites] at hm <;> simp [writeBytes]

/-- every key an invocation produces is sealed with the user key of its own parameters, salt and password -/
theorem producedKey_sealed {κ : Type} [DecidableEq κ] (valid : κ → Bool) (r : Ring κ) (op : KeyOp κ) (kp : KeyFile κ × Pw) (nx : Nat)
    (h : producedKey valid r op = some (kp, nx)) : kp.1.sealedWith = ⟨kp.1.kdf, kp.1.salt, kp.2⟩ := by
  cases op with
  | independent pw kdf =>
    simp only [producedKey] at h
    split at h
    · cases h; rfl
    · cases h
  | shared i upw pw kdf =>
    simp only [producedKey] at h
    repeat' split at h
    all_goals first | (cases h; done) | (cases h; rfl)
  | clone i upw kdf =>
    simp only [producedKey] at h
    repeat' split at h
    all_goals first | (cases h; done) | (cases h; rfl)

/-- `producedKey` is `stepKey` seen from the key-writing statement -/
theorem stepKey_eq_produced {κ : Type} [DecidableEq κ] (valid : κ → Bool) (r : Ring κ) (op : KeyOp κ) :
    stepKey valid r op =
      match producedKey valid r op with
      | none => r
      | some (kp, nx) => { keys := r.keys ++ [kp], next := nx } := by
  cases op with
  | independent pw kdf =>
    simp only [stepKey, producedKey]
    split <;> rfl
  | shared i upw pw kdf =>
    simp only [stepKey, producedKey]
    repeat' split
    all_goals simp_all
  | clone i upw kdf =>
    simp only [stepKey, producedKey]
    repeat' split
    all_goals simp_all

theorem ringOk_snoc {κ : Type} (r : Ring κ) (h : RingOk r) (kp : KeyFile κ × Pw) (nx : Nat)
    (hs : kp.1.sealedWith = ⟨kp.1.kdf, kp.1.salt, kp.2⟩) : RingOk ({ keys := r.keys ++ [kp], next := nx } : Ring κ) := by
  intro q hq
  simp only [List.mem_append, List.mem_singleton] at hq
  rcases hq with hq | hq
  · exact h q hq
  · subst hq; exact hs

/-- invariant: the ring is well sealed, and every path this history wrote holds exactly the serialisation of the key it was
last given, a key of the ring -/
def DiskOk {κ α : Type} (ser : KeyFile κ → List α) (d : KeyDisk κ α) : Prop :=
  RingOk d.ring ∧ ∀ p kp, d.holder.lookup p = some kp → d.files.lookup p = some (ser kp.1) ∧ kp ∈ d.ring.keys

theorem diskOk_init {κ α : Type} (m : WriteMode) (hm : overwrites m = true) (ser : KeyFile κ → List α)
    (files0 : List (Nat × List α)) (pw : Pw) (kdf : κ) (out0 : Option Nat) :
    ∃ d, initDisk m ser files0 pw kdf out0 = some d ∧ DiskOk ser d ∧ d.ring = initRing pw kdf := by
  cases out0 with
  | none =>
    refine ⟨_, rfl, ⟨ringOk_init pw kdf, ?_⟩, rfl⟩
    intro p kp h
    simp at h
  | some p =>
    simp only [initDisk, writeBytes_overwrites m hm]
    refine ⟨_, rfl, ⟨ringOk_init pw kdf, ?_⟩, rfl⟩
    intro q kp h
    simp only [List.lookup_cons] at h ⊢
    split at h
    · cases h
      rename_i hq
      simp [initRing]
    · simp at h

theorem diskOk_step {κ α : Type} [DecidableEq κ] (m : WriteMode) (hm : overwrites m = true) (ser : KeyFile κ → List α)
    (valid : κ → Bool) (d : KeyDisk κ α) (h : DiskOk ser d) (o : KeyOpAt κ) : DiskOk ser (stepDisk m ser valid d o) := by
  unfold stepDisk
  cases hp : producedKey valid d.ring o.op with
  | none => simpa using h
  | some kn =>
    obtain ⟨kp, nx⟩ := kn
    have hs := producedKey_sealed valid d.ring o.op kp nx hp
    cases ho : o.out with
    | none =>
      refine ⟨ringOk_snoc d.ring h.1 kp nx hs, ?_⟩
      intro p q hq
      obtain ⟨h1, h2⟩ := h.2 p q hq
      exact ⟨h1, List.mem_append_left _ h2⟩
    | some p =>
      simp only [writeBytes_overwrites m hm]
      refine ⟨ringOk_snoc d.ring h.1 kp nx hs, ?_⟩
      intro q kq hq
      simp only [List.lookup_cons] at hq ⊢
      split at hq
      · cases hq
        rename_i hqp
        simp
      · rename_i hqp
        obtain ⟨h1, h2⟩ := h.2 q kq hq
        exact ⟨h1, List.mem_append_left _ h2⟩

theorem diskOk_run {κ α : Type} [DecidableEq κ] (m : WriteMode) (hm : overwrites m = true) (ser : KeyFile κ → List α)
    (valid : κ → Bool) (ops : List (KeyOpAt κ)) (d : KeyDisk κ α) (h : DiskOk ser d) : DiskOk ser (runDisk m ser valid d ops) := by
  induction ops generalizing d with
  | nil => exact h
  | cons o os ih => exact ih _ (diskOk_step m hm ser valid d h o)

/-- with an overwriting key-file statement the disk does not change which keys exist: the ring is the one of the plain chain -/
theorem ring_stepDisk {κ α : Type} [DecidableEq κ] (m : WriteMode) (hm : overwrites m = true) (ser : KeyFile κ → List α)
    (valid : κ → Bool) (d : KeyDisk κ α) (o : KeyOpAt κ) : (stepDisk m ser valid d o).ring = stepKey valid d.ring o.op := by
  rw [stepKey_eq_produced]
  unfold stepDisk
  cases hp : producedKey valid d.ring o.op with
  | none => rfl
  | some kn =>
    obtain ⟨kp, nx⟩ := kn
    cases ho : o.out with
    | none => rfl
    | some p => simp only [writeBytes_overwrites m hm]

theorem ring_runDisk {κ α : Type} [DecidableEq κ] (m : WriteMode) (hm : overwrites m = true) (ser : KeyFile κ → List α)
    (valid : κ → Bool) (ops : List (KeyOpAt κ)) (d : KeyDisk κ α) :
    (runDisk m ser valid d ops).ring = runKeyOps valid d.ring (ops.map (·.op)) := by
  induction ops generalizing d with
  | nil => rfl
  | cons o os ih =>
    simp only [runDisk, List.map_cons, runKeyOps]
    rw [ih, ring_stepDisk m hm]

end Replicat.Settings
