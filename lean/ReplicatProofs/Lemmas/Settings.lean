import ReplicatModel.Settings
/-! helper lemmas for `Properties/C17.lean` -/
namespace Replicat.Settings
open Replicat.Gen

/-! ## where the upload happens -/

/-- every statement other than the upload leaves the backend alone -/
theorem stage_puts (s : Option Settings) (pw : Bool) (st st' : St) (sg : InitStage) (hsg : sg ≠ .uploadConfig)
    (h : stage s pw st sg = .ok st') : st'.puts = st.puts := by
  unfold stage at h
  split at h
  · cases h
  · cases h; simp [hsg]

theorem stage_upload_puts (s : Option Settings) (pw : Bool) (st st' : St)
    (h : stage s pw st .uploadConfig = .ok st') : st'.puts = st.puts ++ ["config"] := by
  unfold stage at h
  split at h
  · cases h
  · cases h; simp

def noUpload (l : List (InitStage × Bool)) : Prop := ∀ p ∈ l, p.1 ≠ InitStage.uploadConfig

instance (l : List (InitStage × Bool)) : Decidable (noUpload l) := by unfold noUpload; infer_instance

/-- a run of statements none of which is the upload leaves the backend alone, whether it ends normally or by raising -/
theorem runStages_noUpload (s : Option Settings) (pw : Bool) (l : List (InitStage × Bool)) (hl : noUpload l) (st : St) :
    (runStages s pw l st).1.puts = st.puts := by
  induction l generalizing st with
  | nil => rfl
  | cons p rest ih =>
    obtain ⟨sg, encOnly⟩ := p
    have hrest : noUpload rest := fun q hq => hl q (List.mem_cons_of_mem _ hq)
    have hsg : sg ≠ .uploadConfig := hl (sg, encOnly) (List.mem_cons_self)
    unfold runStages
    split
    · exact ih hrest st
    · split
      · rename_i st' hst
        rw [ih hrest st']
        exact stage_puts s pw st st' sg hsg hst
      · rfl

theorem runStages_append (s : Option Settings) (pw : Bool) (l1 l2 : List (InitStage × Bool)) (st : St) :
    runStages s pw (l1 ++ l2) st =
      match runStages s pw l1 st with
      | (st', none) => runStages s pw l2 st'
      | (st', some e) => (st', some e) := by
  induction l1 generalizing st with
  | nil => simp [runStages]
  | cons p rest ih =>
    obtain ⟨sg, encOnly⟩ := p
    simp only [List.cons_append, runStages]
    split
    · exact ih st
    · split
      · rename_i st' _
        exact ih st'
      · rfl

/-- **Every rejection precedes the upload**, for any statement order in which the upload is the last statement. -/
theorem reject_before_upload (s : Option Settings) (pw : Bool) (pre : List (InitStage × Bool)) (hpre : noUpload pre) (b : Bool)
    (st : St) (e : Err) (h : (runStages s pw (pre ++ [(.uploadConfig, b)]) st).2 = some e) :
    (runStages s pw (pre ++ [(.uploadConfig, b)]) st).1.puts = st.puts := by
  have hp := runStages_noUpload s pw pre hpre st
  rw [runStages_append] at h ⊢
  generalize runStages s pw pre st = r at h hp ⊢
  obtain ⟨st', oe⟩ := r
  cases oe with
  | some e' => simpa using hp
  | none =>
    simp only at h ⊢
    simp only [runStages] at h ⊢
    split
    · simpa using hp
    · split
      · rename_i st'' hst
        simp [hst] at h
        split at h <;> simp_all
      · simpa using hp

/-- … and an accepted init uploads exactly the config, once. -/
theorem accept_uploads (s : Option Settings) (pw : Bool) (pre : List (InitStage × Bool)) (hpre : noUpload pre)
    (st : St) (h : (runStages s pw (pre ++ [(.uploadConfig, false)]) st).2 = none) :
    (runStages s pw (pre ++ [(.uploadConfig, false)]) st).1.puts = st.puts ++ ["config"] := by
  have hp := runStages_noUpload s pw pre hpre st
  rw [runStages_append] at h ⊢
  generalize runStages s pw pre st = r at h hp ⊢
  obtain ⟨st', oe⟩ := r
  cases oe with
  | some e' => simp at h
  | none =>
    simp only at h ⊢
    simp only [runStages, Bool.false_and] at h ⊢
    cases hst : stage s pw st' InitStage.uploadConfig with
    | ok st'' =>
      have := stage_upload_puts s pw st' st'' hst
      simp at hp
      simp [this, hp]
    | error e' => simp [hst] at h

/-! ## what an accepted `init` went through -/

theorem runStages_cons_ok (s : Option Settings) (pw : Bool) (sg : InitStage) (eo : Bool) (rest : List (InitStage × Bool))
    (st st' : St) (h : runStages s pw ((sg, eo) :: rest) st = (st', none)) :
    ((eo && !st.encrypted) = true ∧ runStages s pw rest st = (st', none)) ∨
    ((eo && !st.encrypted) = false ∧ ∃ c, stageCore s pw st.core sg = .ok c ∧
        runStages s pw rest ⟨c, if sg = .uploadConfig then st.puts ++ ["config"] else st.puts⟩ = (st', none)) := by
  unfold runStages at h
  split at h
  · rename_i hc; exact Or.inl ⟨hc, h⟩
  · rename_i hc
    right
    refine ⟨by simpa using hc, ?_⟩
    unfold stage at h
    cases hsc : stageCore s pw st.core sg with
    | error e => simp [hsc] at h
    | ok c => simp only [hsc] at h; exact ⟨c, rfl, h⟩

theorem sc_validate {s pw c c'} (h : stageCore s pw c .validate = .ok c') : c' = c := by
  simp only [stageCore] at h
  split at h
  · rename_i kv rest
    cases hv : validateInit (kv :: rest) with
    | error e => simp [hv, bind, Except.bind] at h
    | ok u => simp [hv, bind, Except.bind, pure, Except.pure] at h; exact h.symm
  · simp [pure, Except.pure] at h; exact h.symm

theorem sc_password {s pw c c'} (h : stageCore s pw c .passwordCheck = .ok c') : c' = c ∧ pw = true := by
  simp only [stageCore] at h
  split at h
  · simp [pure, Except.pure] at h; exact ⟨h.symm, by assumption⟩
  · simp [throw, throwThe, MonadExceptOf.throw] at h

theorem sc_upload {s pw c c'} (h : stageCore s pw c .uploadConfig = .ok c') : c' = c := by
  simp only [stageCore] at h
  split at h
  · simp [throw, throwThe, MonadExceptOf.throw] at h
  · simp [pure, Except.pure] at h; exact h.symm

theorem sc_makeConfig {s pw c c'} (h : stageCore s pw c .makeConfig = .ok c') :
    ∃ cfg, makeConfig (s.getD []) = .ok cfg ∧ c' = { c with config := some cfg } := by
  simp only [stageCore] at h
  cases hmk : makeConfig (s.getD []) with
  | error e => simp [hmk, bind, Except.bind] at h
  | ok cfg => simp [hmk, bind, Except.bind, pure, Except.pure] at h; exact ⟨cfg, rfl, h.symm⟩

theorem sc_instantiate {s pw c c'} (h : stageCore s pw c .instantiateConfig = .ok c') :
    ∃ cfg props, c.config = some cfg ∧ instantiateConfig cfg = .ok props ∧ c' = { c with props := some props } := by
  simp only [stageCore] at h
  split at h
  · simp [throw, throwThe, MonadExceptOf.throw] at h
  · rename_i cfg hcfg
    cases hi : instantiateConfig cfg with
    | error e => simp [hi, bind, Except.bind] at h
    | ok props => simp [hi, bind, Except.bind, pure, Except.pure] at h; exact ⟨cfg, props, hcfg, hi, h.symm⟩

theorem sc_makeKey {s pw c c'} (h : stageCore s pw c .makeKey = .ok c') :
    ∃ p ci enc kdf k, c.props = some p ∧ p.cipher = some ci ∧ encryptionSettings (s.getD []) = .ok enc ∧
      subArgs (enc.getD []) "kdf" = .ok kdf ∧ makeKey ci p.chunker kdf true = .ok k ∧ c' = { c with key := some k } := by
  simp only [stageCore] at h
  split at h
  · simp [throw, throwThe, MonadExceptOf.throw] at h
  · rename_i p hp
    split at h
    · simp [throw, throwThe, MonadExceptOf.throw] at h
    · rename_i ci hci
      cases he : encryptionSettings (s.getD []) with
      | error e => simp [he, bind, Except.bind] at h
      | ok enc =>
        cases hk : subArgs (enc.getD []) "kdf" with
        | error e => simp [he, hk, bind, Except.bind] at h
        | ok kdf =>
          cases hm : makeKey ci p.chunker kdf true with
          | error e => simp [he, hk, hm, bind, Except.bind] at h
          | ok k =>
            simp [he, hk, hm, bind, Except.bind, pure, Except.pure] at h
            exact ⟨p, ci, enc, kdf, k, hp, hci, rfl, hk, hm, h.symm⟩

theorem sc_instantiateKey {s pw c c'} (h : stageCore s pw c .instantiateKey = .ok c') :
    ∃ k, c.key = some k ∧ kdfDerive k.userKdf = .ok () ∧ c' = { c with derived := true } := by
  simp only [stageCore] at h
  split at h
  · simp [throw, throwThe, MonadExceptOf.throw] at h
  · rename_i k hk
    cases hd : kdfDerive k.userKdf with
    | error e => simp [hd, bind, Except.bind] at h
    | ok u => simp [hd, bind, Except.bind, pure, Except.pure] at h; exact ⟨k, hk, hd, h.symm⟩

theorem sc_encryptPrivate {s pw c c'} (h : stageCore s pw c .encryptPrivate = .ok c') :
    ∃ p ci, c.props = some p ∧ p.cipher = some ci ∧ cipherEncrypt ci = .ok () ∧ c' = { c with sealed := true } := by
  simp only [stageCore] at h
  split at h
  · rename_i ch ha ci hp
    split at h
    · cases hd : cipherEncrypt ci with
      | error e => simp [hd, bind, Except.bind] at h
      | ok u => simp [hd, bind, Except.bind, pure, Except.pure] at h; exact ⟨_, ci, hp, rfl, hd, h.symm⟩
    · simp [throw, throwThe, MonadExceptOf.throw] at h
  · simp [throw, throwThe, MonadExceptOf.throw] at h

/-- the facts an accepted `init` has established, statement by statement (canonical order) -/
def Went (s : Option Settings) (pw : Bool) (st : St) : Prop :=
  ∃ cfg props, makeConfig (s.getD []) = .ok cfg ∧ instantiateConfig cfg = .ok props ∧ st.core.config = some cfg ∧
    ((props.cipher = none ∧ st.core.key = none) ∨
     (∃ c enc kdf k, props.cipher = some c ∧ pw = true ∧ encryptionSettings (s.getD []) = .ok enc ∧
        subArgs (enc.getD []) "kdf" = .ok kdf ∧ makeKey c props.chunker kdf true = .ok k ∧
        kdfDerive k.userKdf = .ok () ∧ cipherEncrypt c = .ok () ∧ st.core.key = some k))

theorem accepted_went (s : Option Settings) (pw : Bool) (st : St)
    (h : runStages s pw canonicalStages {} = (st, none)) : Went s pw st := by
  unfold canonicalStages at h
  -- validate, makeConfig, instantiateConfig
  rcases runStages_cons_ok _ _ _ _ _ _ _ h with ⟨hc, _⟩ | ⟨_, c1, h1, h⟩
  · simp at hc
  have e1 := sc_validate h1; subst e1
  rcases runStages_cons_ok _ _ _ _ _ _ _ h with ⟨hc, _⟩ | ⟨_, c2, h2, h⟩
  · simp at hc
  obtain ⟨cfg, hcfg, e2⟩ := sc_makeConfig h2; subst e2
  rcases runStages_cons_ok _ _ _ _ _ _ _ h with ⟨hc, _⟩ | ⟨_, c4, h4, h⟩
  · simp at hc
  obtain ⟨cfg', props, hc', hprops, e4⟩ := sc_instantiate h4; subst e4
  simp at hc'; subst hc'
  refine ⟨cfg, props, hcfg, hprops, ?_⟩
  cases hci : props.cipher with
  | none =>
    -- the four statements inside `if props.encrypted:` are skipped
    have henc : ∀ (pu : List String) , St.encrypted ⟨{ config := some cfg, props := some props }, pu⟩ = false := by
      intro pu; simp [St.encrypted, St.props, hci]
    rcases runStages_cons_ok _ _ _ _ _ _ _ h with ⟨_, h⟩ | ⟨hc, _⟩
    rotate_left
    · simp [henc] at hc
    rcases runStages_cons_ok _ _ _ _ _ _ _ h with ⟨_, h⟩ | ⟨hc, _⟩
    rotate_left
    · simp [henc] at hc
    rcases runStages_cons_ok _ _ _ _ _ _ _ h with ⟨_, h⟩ | ⟨hc, _⟩
    rotate_left
    · simp [henc] at hc
    rcases runStages_cons_ok _ _ _ _ _ _ _ h with ⟨_, h⟩ | ⟨hc, _⟩
    rotate_left
    · simp [henc] at hc
    rcases runStages_cons_ok _ _ _ _ _ _ _ h with ⟨hc, _⟩ | ⟨_, c5, h5, h⟩
    · simp at hc
    have e5 := sc_upload h5; subst e5
    simp [runStages] at h
    subst h
    exact ⟨rfl, Or.inl ⟨rfl, rfl⟩⟩
  | some c =>
    have henc : ∀ (co : Core) (pu : List String), co.props = some props → St.encrypted ⟨co, pu⟩ = true := by
      intro co pu hco; simp [St.encrypted, St.props, hco, hci]
    -- passwordCheck
    rcases runStages_cons_ok _ _ _ _ _ _ _ h with ⟨hc, _⟩ | ⟨_, c5, h5, h⟩
    · simp [henc] at hc
    obtain ⟨e5, hpw⟩ := sc_password h5; subst e5
    -- makeKey
    rcases runStages_cons_ok _ _ _ _ _ _ _ h with ⟨hc, _⟩ | ⟨_, c6, h6, h⟩
    · simp [henc] at hc
    obtain ⟨p6, ci6, enc, kdf, k, hp6, hci6, henc6, hkdf6, hmk6, e6⟩ := sc_makeKey h6; subst e6
    simp at hp6; subst hp6
    rw [hci] at hci6; cases hci6
    -- instantiateKey
    rcases runStages_cons_ok _ _ _ _ _ _ _ h with ⟨hc, _⟩ | ⟨_, c7, h7, h⟩
    · simp [henc] at hc
    obtain ⟨k7, hk7, hder, e7⟩ := sc_instantiateKey h7; subst e7
    simp at hk7; subst hk7
    -- encryptPrivate
    rcases runStages_cons_ok _ _ _ _ _ _ _ h with ⟨hc, _⟩ | ⟨_, c8, h8, h⟩
    · simp [henc] at hc
    obtain ⟨p8, ci8, hp8, hci8, hencr, e8⟩ := sc_encryptPrivate h8; subst e8
    simp at hp8; subst hp8
    rw [hci] at hci8; cases hci8
    -- uploadConfig
    rcases runStages_cons_ok _ _ _ _ _ _ _ h with ⟨hc, _⟩ | ⟨_, c10, h10, h⟩
    · simp at hc
    have e10 := sc_upload h10; subst e10
    simp [runStages] at h
    subst h
    exact ⟨rfl, Or.inr ⟨c, enc, kdf, k, rfl, hpw, henc6, hkdf6, hmk6, hder, hencr, rfl⟩⟩

theorem makeConfig_parts (s : Settings) (cfg : Config) (h : makeConfig s = .ok cfg) :
    ∃ kvh kvc, sectionArgs s "hashing" = .ok kvh ∧ slotConfig "hashing" kvh defaultHasher = .ok cfg.hashing ∧
      sectionArgs s "chunking" = .ok kvc ∧ slotConfig "chunking" kvc defaultChunker = .ok cfg.chunking ∧
      ((cfg.cipher = none ∧ encryptionSettings s = .ok none) ∨
       (∃ ci enc kv, cfg.cipher = some ci ∧ encryptionSettings s = .ok (some enc) ∧ subArgs enc "cipher" = .ok kv ∧
          slotConfig "cipher" kv defaultCipher = .ok ci)) := by
  unfold makeConfig at h
  repeat' split at h
  all_goals first | (cases h; done) | skip
  · cases h
    exact ⟨_, _, by assumption, by assumption, by assumption, by assumption, Or.inl ⟨rfl, by assumption⟩⟩
  · cases h
    exact ⟨_, _, by assumption, by assumption, by assumption, by assumption,
      Or.inr ⟨_, _, _, rfl, by assumption, by assumption, by assumption⟩⟩

theorem hashing_from_input (s : Settings) (cfg : Config) (h : makeConfig s = .ok cfg) (hin : hashingInputOk s = true) :
    hasherUsable cfg.hashing = true := by
  obtain ⟨kvh, kvc, h1, h2, _⟩ := makeConfig_parts s cfg h
  simpa [hashingInputOk, h1, h2] using hin

theorem chunking_from_input (s : Settings) (cfg : Config) (h : makeConfig s = .ok cfg) (hin : chunkingInputOk s = true) :
    chunkerUsable cfg.chunking = true := by
  obtain ⟨kvh, kvc, _, _, h3, h4, _⟩ := makeConfig_parts s cfg h
  simpa [chunkingInputOk, h3, h4] using hin

theorem freshPrivate_urandom (kb : Arg) (ch : Inst) (h : freshPrivate kb ch = .ok ()) : ∃ n, urandom kb = .ok n := by
  unfold freshPrivate at h
  repeat' split at h
  all_goals first | (cases h; done) | skip
  all_goals (rename_i n _; exact ⟨_, by assumption⟩)

theorem makeKey_parts (c ch : Inst) (kdf : Args) (fresh : Bool) (k : KeyMat) (h : makeKey c ch kdf fresh = .ok k) :
    ∃ kb krow kargs, c.keyBytes = some kb ∧
      fromConfig (withDefaultName kdf defaultUserKdf ++ [("length", kb)]) = .ok (krow, kargs) ∧
      construct krow kargs = .ok k.userKdf ∧ hasKind k.userKdf.row "KDFAdapter" = true ∧
      (fresh = true → ∃ n, urandom kb = .ok n) := by
  unfold makeKey at h
  split at h
  · cases h
  · rename_i kb hkb
    split at h
    · cases h
    · split at h
      · cases h
      · rename_i krow kargs hfc
        split at h
        · cases h
        · rename_i userKdf hcon
          split at h
          · cases h
          · rename_i u hfresh
            have hf : fresh = true → ∃ n, urandom kb = .ok n := by
              intro hft; subst hft; simp at hfresh; cases u; exact freshPrivate_urandom kb ch hfresh
            split at h
            · cases h
            · rename_i hk
              have hk' : hasKind userKdf.row "KDFAdapter" = true := by simpa using hk
              split at h
              · repeat' split at h
                all_goals first | (cases h; done) | skip
                cases h
                exact ⟨kb, krow, kargs, hkb, hfc, hcon, hk', hf⟩
              · cases h
                exact ⟨kb, krow, kargs, hkb, hfc, hcon, hk', hf⟩

theorem fromConfig_mem (kv : Args) (row : AdapterRow) (a : Args) (h : fromConfig kv = .ok (row, a)) : row ∈ adapterTable := by
  unfold fromConfig at h
  split at h
  · cases h
  · cases h
  · rename_i n hn
    split at h
    · cases h
    · rename_i row' hrow
      cases hb : bindArgs row' (List.filter (fun p => p.1 != "name") kv) with
      | error e => simp [hb, bind, Except.bind] at h
      | ok a' =>
        simp [hb, bind, Except.bind, pure, Except.pure] at h
        obtain ⟨h1, _⟩ := h
        subst h1
        exact List.mem_of_find?_eq_some hrow
  · cases h

theorem slotConfig_mem (slot : String) (kv : Args) (dflt : String) (row : AdapterRow) (a : Args)
    (h : slotConfig slot kv dflt = .ok (row, a)) : row ∈ adapterTable := by
  unfold slotConfig at h
  repeat' split at h
  all_goals first | (cases h; done) | skip
  all_goals (cases h; exact fromConfig_mem _ _ _ (by assumption))

theorem construct_row_args (row : AdapterRow) (args : Args) (c : Inst) (h : construct row args = .ok c) :
    c.row = row ∧ c.args = args := by
  unfold construct at h
  repeat' split at h
  all_goals first | (cases h; done) | skip
  all_goals (cases h; exact ⟨rfl, rfl⟩)

theorem lookupArg_ok (args : Args) (p : String) (a : Arg) (h : lookupArg args p = .ok a) : args.lookup p = some a := by
  unfold lookupArg at h
  split at h
  · rename_i a' ha; cases h; exact ha
  · cases h

theorem argOf_of_lookupArg (args : Args) (p : String) (a : Arg) (h : lookupArg args p = .ok a) : argOf args p = a := by
  simp [argOf, lookupArg_ok args p a h]

theorem urandom_ok (a : Arg) (n : Int) (h : urandom a = .ok n) : intLike a = some n ∧ 0 ≤ n := by
  unfold urandom at h
  split at h
  · rename_i i hi
    split at h
    · cases h
    · cases h; exact ⟨hi, by omega⟩
  · cases h

/-- the AES-GCM constructor followed by `generate_key()` and one `encrypt`: what the three together enforce -/
theorem aes_checks (kbits nbits kb nb : Arg) (n m : Int)
    (hin : pyIn kbits [128, 192, 256] = true) (hkb : floorDiv8 kbits = .ok kb) (hnb : floorDiv8 nbits = .ok nb)
    (hur : urandom kb = .ok n) (hnonce : urandom nb = .ok m) (hrange : 8 ≤ m ∧ m ≤ 128) :
    isPlainIntIn kbits [128, 192, 256] = true ∧ ∃ i, intLike nbits = some i ∧ 8 ≤ i / 8 ∧ i / 8 ≤ 128 := by
  obtain ⟨hk1, _⟩ := urandom_ok kb n hur
  obtain ⟨hn1, _⟩ := urandom_ok nb m hnonce
  constructor
  · cases kbits with
    | mapping => simp [pyIn] at hin
    | val v =>
      cases v with
      | int j => simpa [pyIn, isPlainIntIn] using hin
      | bool b => cases b <;> simp [pyIn] at hin
      | float q => simp [floorDiv8, pure, Except.pure] at hkb; subst hkb; simp [intLike] at hk1
      | nan => simp [pyIn] at hin
      | str s => simp [pyIn] at hin
      | none => simp [pyIn] at hin
  · cases nbits with
    | mapping => simp [floorDiv8, throw, throwThe, MonadExceptOf.throw] at hnb
    | val v =>
      cases v with
      | int j =>
        simp [floorDiv8, pure, Except.pure] at hnb; subst hnb
        simp [intLike] at hn1
        exact ⟨j, rfl, by omega, by omega⟩
      | bool b =>
        simp [floorDiv8, pure, Except.pure] at hnb; subst hnb
        simp [intLike] at hn1
        omega
      | float q => simp [floorDiv8, pure, Except.pure] at hnb; subst hnb; simp [intLike] at hn1
      | nan => simp [floorDiv8, pure, Except.pure] at hnb; subst hnb; simp [intLike] at hn1
      | str s => simp [floorDiv8, throw, throwThe, MonadExceptOf.throw] at hnb
      | none => simp [floorDiv8, throw, throwThe, MonadExceptOf.throw] at hnb

theorem cipherEncrypt_ok (c : Inst) (h : cipherEncrypt c = .ok ()) :
    ∃ nb m, c.nonceBytes = some nb ∧ urandom nb = .ok m ∧
      (if c.row.name == "aes_gcm" then 8 ≤ m ∧ m ≤ 128 else m = 12) := by
  unfold cipherEncrypt at h
  split at h
  · rename_i kb nb hkb hnb
    split at h
    · split at h
      · cases h
      · split at h
        · cases h
        · rename_i m hm
          refine ⟨nb, m, hnb, hm, ?_⟩
          simp only [*, if_true]
          split at h
          · assumption
          · cases h
    · split at h
      · cases h
      · split at h
        · cases h
        · rename_i hname _ _ m hm
          refine ⟨nb, m, hnb, hm, ?_⟩
          simp only [hname]
          split at h
          · simpa using ‹m = 12›
          · cases h
  · cases h

theorem cipher_usable_of (row : AdapterRow) (args : Args) (c : Inst) (hmem : row ∈ adapterTable)
    (hcon : construct row args = .ok c) (kb : Arg) (hkb : c.keyBytes = some kb) (n : Int) (hur : urandom kb = .ok n)
    (henc : cipherEncrypt c = .ok ()) : cipherUsable (row, args) = true := by
  obtain ⟨nb, m, hnb, hnonce, hrange⟩ := cipherEncrypt_ok c henc
  obtain ⟨hrow, _⟩ := construct_row_args row args c hcon
  rw [hrow] at hrange
  simp only [adapterTable, List.mem_cons, List.not_mem_nil, or_false] at hmem
  rcases hmem with rfl | rfl | rfl | rfl | rfl | rfl | rfl
  · -- aes_gcm
    simp only [construct, runGuards, evalCond, evalTerm] at hcon
    cases hk : lookupArg args "key_bits" with
    | error e => simp [hk, bind, Except.bind] at hcon
    | ok kbits =>
      cases hin : pyIn kbits [128, 192, 256] with
      | false => simp [hk, hin, bind, Except.bind, pure, Except.pure, throw, throwThe, MonadExceptOf.throw] at hcon
      | true =>
        simp [hk, hin, bind, Except.bind, pure, Except.pure] at hcon
        repeat' split at hcon
        all_goals first | (cases hcon; done) | skip
        rename_i x1 kb' hkb' x2 nbits hnbits x3 nb' hnb'
        cases hcon
        simp at hkb hnb
        subst hkb hnb
        simp at hrange
        obtain ⟨h1, i, h2, h3, h4⟩ := aes_checks kbits nbits kb' nb' n m hin hkb' hnb' hur hnonce hrange
        simp [cipherUsable, hasKind, argOf_of_lookupArg args _ _ hk, argOf_of_lookupArg args _ _ hnbits, h1, h2, h3, h4]
  · -- chacha20_poly1305
    simp [cipherUsable, hasKind]
    decide
  all_goals (
    simp [construct, runGuards, evalCond, evalTerm] at hcon
    repeat' split at hcon
    all_goals first | (cases hcon; done) | skip
    all_goals (try cases hcon)
    all_goals simp at hkb)

theorem unsignedArg_ok (args : Args) (p : String) (i : Int) (h : unsignedArg args p = .ok i) :
    intLike (argOf args p) = some i ∧ 0 ≤ i := by
  unfold unsignedArg at h
  split at h
  · cases h
  · rename_i a ha
    rw [argOf_of_lookupArg args p a ha]
    unfold toUnsigned at h
    split at h
    · rename_i j hj
      split at h
      · cases h
      · cases h; exact ⟨hj, by omega⟩
    · cases h

theorem scryptDerive_ok (args : Args) (h : scryptDerive args = .ok ()) :
    ∃ l n r p, intLike (argOf args "length") = some l ∧ intLike (argOf args "n") = some n ∧
      intLike (argOf args "r") = some r ∧ intLike (argOf args "p") = some p ∧
      0 ≤ l ∧ 2 ≤ n ∧ isPow2 n = true ∧ 1 ≤ r ∧ 1 ≤ p ∧ n < (2 : Int) ^ (16 * r.toNat) := by
  unfold scryptDerive at h
  repeat' split at h
  all_goals first | (cases h; done) | skip
  rename_i x1 l hl x2 n hn x3 r hr x4 p hp c1 c2 c3 c4
  obtain ⟨hl1, hl2⟩ := unsignedArg_ok _ _ _ hl
  obtain ⟨hn1, _⟩ := unsignedArg_ok _ _ _ hn
  obtain ⟨hr1, _⟩ := unsignedArg_ok _ _ _ hr
  obtain ⟨hp1, _⟩ := unsignedArg_ok _ _ _ hp
  simp at c1 c2 c3 c4
  exact ⟨l, n, r, p, hl1, hn1, hr1, hp1, hl2, c1.1, c1.2, c2, c3, c4⟩

theorem blake2bSize_ok (a : Arg) (h : blake2bSize a = .ok ()) : intBetween a 1 64 = true := by
  unfold blake2bSize at h
  split at h
  · rename_i i hi
    split at h
    · rename_i hr; simp [intBetween, hi, hr.1, hr.2]
    · cases h
  · cases h

theorem kdf_usable_of (row : AdapterRow) (args : Args) (k : Inst) (hmem : row ∈ adapterTable)
    (hcon : construct row args = .ok k) (hder : kdfDerive k = .ok ()) : kdfUsable (row, args) = true := by
  obtain ⟨hrow, hargs⟩ := construct_row_args row args k hcon
  unfold kdfDerive at hder
  rw [hrow, hargs] at hder
  simp only [adapterTable, List.mem_cons, List.not_mem_nil, or_false] at hmem
  rcases hmem with rfl | rfl | rfl | rfl | rfl | rfl | rfl
  · simp [hasKind] at hder
  · simp [hasKind] at hder
  · -- scrypt
    simp [hasKind] at hder
    obtain ⟨l, n, r, p, h1, h2, h3, h4, h5, h6, h7, h8, h9, h10⟩ := scryptDerive_ok args hder
    simp [kdfUsable, hasKind, h1, h2, h3, h4, h5, h6, h7, h8, h9, h10]
  · -- blake2b
    simp [hasKind] at hder
    split at hder
    · cases hder
    · rename_i l hl
      have := blake2bSize_ok l hder
      simp [kdfUsable, hasKind, argOf_of_lookupArg args _ _ hl, this]
  · simp [hasKind] at hder
  · simp [hasKind] at hder
  · simp [hasKind] at hder

theorem instantiateConfig_cipher (cfg : Config) (props : Props) (h : instantiateConfig cfg = .ok props) :
    (cfg.cipher = none ∧ props.cipher = none) ∨
    (∃ row args c, cfg.cipher = some (row, args) ∧ construct row args = .ok c ∧ props.cipher = some c) := by
  unfold instantiateConfig at h
  repeat' split at h
  all_goals first | (cases h; done) | skip
  rename_i x1 ci hci x2 ch hch x3 ha hha
  cases h
  unfold constructCipher at hci
  repeat' split at hci
  all_goals first | (cases hci; done) | skip
  · cases hci; exact Or.inl ⟨by assumption, rfl⟩
  · rename_i x4 row args hcfg x5 c hc
    cases hci
    exact Or.inr ⟨row, args, c, hcfg, hc, rfl⟩

/-! ## the candidate validation patch is sound -/

theorem pyCmp_int (op : CmpOp) (i j : Int) : pyCmp op (.val (.int i)) (.val (.int j)) = .ok (cmpRat op (i : Rat) (j : Rat)) := by
  simp [pyCmp, numOf, pure, Except.pure]

theorem intLike_cases (a : Arg) (h : (intLike a).isSome = true) : (∃ i, a = .val (.int i)) ∨ (∃ b, a = .val (.bool b)) := by
  cases a with
  | mapping => simp [intLike] at h
  | val v => cases v <;> simp [intLike] at h ⊢

theorem blake2bFix_sound (args : Args) (h : runGuards args blake2bFixGuards = .ok ()) :
    intBetween (argOf args "length") 16 64 = true := by
  simp only [blake2bFixGuards, runGuards, evalCond, evalTerm] at h
  cases hl : lookupArg args "length" with
  | error e => simp [hl, bind, Except.bind] at h
  | ok a =>
    rw [argOf_of_lookupArg args _ _ hl]
    simp only [hl, bind, Except.bind, pure, Except.pure] at h
    cases hi : (intLike a).isSome with
    | false => simp [hi, throw, throwThe, MonadExceptOf.throw] at h
    | true =>
      rcases intLike_cases a hi with ⟨i, rfl⟩ | ⟨b, rfl⟩
      · simp only [hi, pyCmp_int] at h
        simp [cmpRat, throw, throwThe, MonadExceptOf.throw] at h
        have e1 : ((16 : Rat) ≤ (i : Rat)) ↔ 16 ≤ i := by exact_mod_cast (Rat.intCast_le_intCast (a := 16) (b := i))
        have e2 : ((i : Rat) ≤ (64 : Rat)) ↔ i ≤ 64 := by exact_mod_cast (Rat.intCast_le_intCast (a := i) (b := 64))
        simp only [e1, e2] at h
        by_cases h16 : 16 ≤ i <;> by_cases h64 : i ≤ 64 <;> simp [h16, h64, intBetween, intLike] at h ⊢
      · have n0 : ¬ ((16 : Rat) ≤ 0) := by decide
        have n1 : ¬ ((16 : Rat) ≤ 1) := by decide
        cases b <;> simp [pyCmp, numOf, cmpRat, intLike, pure, Except.pure, throw, throwThe, MonadExceptOf.throw, n0, n1, errOfName] at h

theorem pyCmp_intLike (op : CmpOp) (a b : Arg) (i j : Int) (ha : intLike a = some i) (hb : intLike b = some j) :
    pyCmp op a b = .ok (cmpRat op (i : Rat) (j : Rat)) := by
  cases a with
  | mapping => simp [intLike] at ha
  | val va =>
    cases b with
    | mapping => simp [intLike] at hb
    | val vb =>
      cases va <;> simp [intLike] at ha <;> cases vb <;> simp [intLike] at hb <;> subst ha <;> subst hb
      · simp [pyCmp, numOf, pure, Except.pure]
      · rename_i x y; cases y <;> simp [pyCmp, numOf, pure, Except.pure]
      · rename_i x y; cases x <;> simp [pyCmp, numOf, pure, Except.pure]
      · rename_i x y; cases x <;> cases y <;> simp [pyCmp, numOf, pure, Except.pure]

theorem cmpRat_lt_int (i j : Int) : cmpRat .lt (i : Rat) (j : Rat) = decide (i < j) := by
  simp [cmpRat, Rat.intCast_lt_intCast]

theorem cmpRat_gt_int (i j : Int) : cmpRat .gt (i : Rat) (j : Rat) = decide (j < i) := by
  simp [cmpRat, Rat.intCast_lt_intCast]

theorem chunkerFix_sound (args : Args) (h : runGuards args chunkerFixGuards = .ok ()) :
    ∃ mn mx, intLike (argOf args "min_length") = some mn ∧ intLike (argOf args "max_length") = some mx ∧ 1 ≤ mn ∧ mn ≤ mx := by
  simp only [chunkerFixGuards, runGuards, evalCond, evalTerm] at h
  cases hmn : lookupArg args "min_length" with
  | error e => simp [hmn, bind, Except.bind] at h
  | ok a =>
  cases hmx : lookupArg args "max_length" with
  | error e =>
    simp only [hmn, hmx, bind, Except.bind, pure, Except.pure] at h
    cases hi : (intLike a).isSome <;> simp [hi, throw, throwThe, MonadExceptOf.throw] at h
  | ok b =>
    rw [argOf_of_lookupArg args _ _ hmn, argOf_of_lookupArg args _ _ hmx]
    simp only [hmn, hmx, bind, Except.bind, pure, Except.pure] at h
    cases hia : intLike a with
    | none => simp [hia, throw, throwThe, MonadExceptOf.throw] at h
    | some i =>
    cases hib : intLike b with
    | none => simp [hia, hib, throw, throwThe, MonadExceptOf.throw] at h
    | some j =>
      have c1 := pyCmp_intLike .lt a (.val (.int 1)) i 1 hia rfl
      have c2 := pyCmp_intLike .gt a b i j hia hib
      simp only [hia, hib, c1, c2, cmpRat_lt_int, cmpRat_gt_int] at h
      refine ⟨i, j, rfl, rfl, ?_⟩
      by_cases h1 : i < 1 <;> by_cases h2 : j < i <;>
        simp [h1, h2, throw, throwThe, MonadExceptOf.throw] at h
      omega

/-! ## what validation leaves in the settings -/

theorem lookup_mem {β : Type} (k : String) (l : List (String × β)) (v : β) (h : l.lookup k = some v) : ∃ p ∈ l, p.1 = k := by
  induction l with
  | nil => simp [List.lookup] at h
  | cons p rest ih =>
    obtain ⟨k', v'⟩ := p
    simp only [List.lookup] at h
    split at h
    · rename_i heq
      exact ⟨(k', v'), List.mem_cons_self, by simpa using (beq_iff_eq.mp heq).symm⟩
    · obtain ⟨q, hq, hqk⟩ := ih h
      exact ⟨q, List.mem_cons_of_mem _ hq, hqk⟩

/-- `_validate_settings` passed ⇒ every key of the object is a key of the schema -/
theorem validateShape_keys (schema : List (String × List String)) (obj : List (String × Shape)) (h : validateShape schema obj = .ok ())
    (p : String × Shape) (hp : p ∈ obj) : ∃ q ∈ schema, q.1 = p.1 := by
  unfold validateShape at h
  split at h
  · cases h
  · rename_i hno
    have h1 : (obj.any fun p => !schema.any fun q => q.1 == p.1) = false := by simpa using hno
    rw [List.any_eq_false] at h1
    have h2 := h1 p hp
    simp only [Bool.not_eq_true, Bool.not_eq_false', List.any_eq_true] at h2
    obtain ⟨q, hq, hqp⟩ := h2
    exact ⟨q, hq, by simpa using hqp⟩

/-- validated init settings carry no `encryption.*` key outside the schema: `encryption.mac` / `encryption.shared_kdf`, which
`_make_key` would read, are unreachable -/
theorem validated_encryption_keys (s : Settings) (h : validateInit s = .ok ()) (enc : List (String × V2))
    (he : encryptionSettings s = .ok (some enc)) (k : String) (v : V2) (hk : enc.lookup k = some v) :
    ∃ q ∈ initEncryptionSchema, q.1 = k := by
  unfold validateInit at h
  cases h1 : validateShape initSchema (s.map fun p => (p.1, p.2.shape)) with
  | error e => simp [h1, bind, Except.bind] at h
  | ok u =>
    simp only [h1, bind, Except.bind] at h
    unfold encryptionSettings at he
    split at h
    · rename_i hl; simp [hl] at he; cases he; simp [List.lookup] at hk
    · rename_i hl; simp [hl, pure, Except.pure] at he
    · rename_i kvs hl
      simp [hl] at he; cases he
      obtain ⟨p, hp, hpk⟩ := lookup_mem k _ v hk
      have hmem : (p.1, p.2.shape) ∈ List.map (fun p => (p.1, p.2.shape)) enc := List.mem_map_of_mem hp
      obtain ⟨q, hq, hqp⟩ := validateShape_keys _ _ h _ hmem
      exact ⟨q, hq, by simpa [hpk] using hqp⟩
    · rename_i hl; cases h

/-! ## if the source validates the hashing and chunking slots, acceptance covers them too -/

theorem instantiateConfig_slots (cfg : Config) (props : Props) (h : instantiateConfig cfg = .ok props) :
    construct cfg.chunking.1 cfg.chunking.2 = .ok props.chunker ∧ construct cfg.hashing.1 cfg.hashing.2 = .ok props.hasher := by
  unfold instantiateConfig at h
  repeat' split at h
  all_goals first | (cases h; done) | skip
  cases h
  exact ⟨by assumption, by assumption⟩

theorem slotConfig_kind (slot : String) (kv : Args) (dflt base : String) (p : AdapterRow × Args)
    (h : slotConfig slot kv dflt = .ok p) (hk : kindChecks.lookup slot = some base) : hasKind p.1 base = true := by
  unfold slotConfig at h
  split at h
  · cases h
  · rw [hk] at h
    simp only at h
    split at h
    · cases h; assumption
    · cases h

theorem construct_guards (row : AdapterRow) (args : Args) (i : Inst) (h : construct row args = .ok i) :
    runGuards args row.guards = .ok () := by
  unfold construct at h
  split at h
  · cases h
  · rename_i u hu; cases u; exact hu

theorem sha_usable (row : AdapterRow) (args : Args) (i : Inst) (hk : hasKind row "HashAdapter" = true)
    (hn : row.name = "sha2" ∨ row.name = "sha3")
    (hgd : row.guards = [⟨.notIn (.param "bits") [224, 256, 384, 512], "ValueError"⟩])
    (hcon : construct row args = .ok i) : hasherUsable (row, args) = true := by
  have hne1 : (row.name == "aes_gcm") = false := by rcases hn with h | h <;> rw [h] <;> decide
  have hne2 : (row.name == "chacha20_poly1305") = false := by rcases hn with h | h <;> rw [h] <;> decide
  have hne3 : (row.name == "blake2b") = false := by rcases hn with h | h <;> rw [h] <;> decide
  have hsha : (row.name == "sha2" || row.name == "sha3") = true := by rcases hn with h | h <;> rw [h] <;> decide
  unfold construct at hcon
  rw [hgd] at hcon
  simp only [hne1, hne2, hsha, runGuards, evalCond, evalTerm] at hcon
  cases hl : lookupArg args "bits" with
  | error e => simp [hl, bind, Except.bind] at hcon
  | ok a =>
    simp only [hl, bind, Except.bind, pure, Except.pure] at hcon
    cases a with
    | mapping => simp [pyIn, throw, throwThe, MonadExceptOf.throw] at hcon
    | val v =>
      cases v with
      | int j =>
        cases hin : pyIn (.val (.int j)) [224, 256, 384, 512] with
        | false => simp [hin, throw, throwThe, MonadExceptOf.throw] at hcon
        | true =>
          simp only [hasherUsable, hk, hne3, hsha, argOf_of_lookupArg args _ _ hl, Bool.true_and]
          simpa [pyIn, isPlainIntIn] using hin
      | bool b => cases b <;> simp [pyIn, throw, throwThe, MonadExceptOf.throw] at hcon
      | float q =>
        cases hin : pyIn (.val (.float q)) [224, 256, 384, 512] <;> simp [hin, throw, throwThe, MonadExceptOf.throw] at hcon
      | nan => simp [pyIn, throw, throwThe, MonadExceptOf.throw] at hcon
      | str s => simp [pyIn, throw, throwThe, MonadExceptOf.throw] at hcon
      | none => simp [pyIn, throw, throwThe, MonadExceptOf.throw] at hcon

/-- hashing slot: if the kind is checked and blake2b's own guards enforce the digest range, a constructed hasher is usable -/
theorem hasher_usable_of (row : AdapterRow) (args : Args) (i : Inst) (hmem : row ∈ adapterTable)
    (hkind : hasKind row "HashAdapter" = true) (hcon : construct row args = .ok i)
    (hb : ∀ args, runGuards args (guardsOf "blake2b") = .ok () → intBetween (argOf args "length") minDigestBytes 64 = true) :
    hasherUsable (row, args) = true := by
  have hg := construct_guards row args i hcon
  simp only [adapterTable, List.mem_cons, List.not_mem_nil, or_false] at hmem
  rcases hmem with rfl | rfl | rfl | rfl | rfl | rfl | rfl
  · simp [hasKind] at hkind
  · simp [hasKind] at hkind
  · simp [hasKind] at hkind
  · -- blake2b
    have := hb args hg
    simp [hasherUsable, hasKind, this]
  · -- sha2
    exact sha_usable _ args i (by decide) (Or.inl rfl) rfl hcon
  · exact sha_usable _ args i (by decide) (Or.inr rfl) rfl hcon
  · simp [hasKind] at hkind

/-- chunking slot: if the kind is checked and the chunker's own guards enforce integer lengths 1 ≤ min ≤ max -/
theorem chunker_usable_of (row : AdapterRow) (args : Args) (i : Inst) (hmem : row ∈ adapterTable)
    (hkind : hasKind row "ChunkerAdapter" = true) (hcon : construct row args = .ok i)
    (hgc : ∀ args, runGuards args (guardsOf "gclmulchunker") = .ok () →
      ∃ mn mx, intLike (argOf args "min_length") = some mn ∧ intLike (argOf args "max_length") = some mx ∧ 1 ≤ mn ∧ mn ≤ mx) :
    chunkerUsable (row, args) = true := by
  have hg := construct_guards row args i hcon
  simp only [adapterTable, List.mem_cons, List.not_mem_nil, or_false] at hmem
  rcases hmem with rfl | rfl | rfl | rfl | rfl | rfl | rfl
  · simp [hasKind] at hkind
  · simp [hasKind] at hkind
  · simp [hasKind] at hkind
  · simp [hasKind] at hkind
  · simp [hasKind] at hkind
  · simp [hasKind] at hkind
  · obtain ⟨mn, mx, h1, h2, h3, h4⟩ := hgc args hg
    simp [chunkerUsable, hasKind, h1, h2, h3, h4]

/-- If `/repo` checks the adapter kind of the hashing and chunking slots and the constructors of blake2b and gclmulchunker
enforce their ranges, every accepted settings dictionary lies in the region of `accept_implies_usable_partial`. -/
theorem checkedElsewhere_of_source_checks
    (hk1 : kindChecks.lookup "hashing" = some "HashAdapter") (hk2 : kindChecks.lookup "chunking" = some "ChunkerAdapter")
    (hb : ∀ args, runGuards args (guardsOf "blake2b") = .ok () → intBetween (argOf args "length") minDigestBytes 64 = true)
    (hgc : ∀ args, runGuards args (guardsOf "gclmulchunker") = .ok () →
      ∃ mn mx, intLike (argOf args "min_length") = some mn ∧ intLike (argOf args "max_length") = some mx ∧ 1 ≤ mn ∧ mn ≤ mx)
    (s : Option Settings) (pw : Bool) (st : St) (hr : runStages s pw canonicalStages {} = (st, none)) :
    checkedElsewhere s = true := by
  obtain ⟨cfg, props, hmk, hinst, _, _⟩ := accepted_went s pw st hr
  obtain ⟨kvh, kvc, h1, h2, h3, h4, _⟩ := makeConfig_parts (s.getD []) cfg hmk
  obtain ⟨hcc, hch⟩ := instantiateConfig_slots cfg props hinst
  have hH : hasherUsable cfg.hashing = true :=
    hasher_usable_of cfg.hashing.1 cfg.hashing.2 props.hasher (slotConfig_mem _ _ _ _ _ h2)
      (slotConfig_kind _ _ _ _ _ h2 hk1) hch hb
  have hC : chunkerUsable cfg.chunking = true :=
    chunker_usable_of cfg.chunking.1 cfg.chunking.2 props.chunker (slotConfig_mem _ _ _ _ _ h4)
      (slotConfig_kind _ _ _ _ _ h4 hk2) hcc hgc
  simp [checkedElsewhere, hashingInputOk, chunkingInputOk, h1, h2, h3, h4, hH, hC]

/-! ## the canonical order ends with the upload -/

theorem canonical_split :
    canonicalStages = (canonicalStages.take 7) ++ [(InitStage.uploadConfig, false)] := by decide

theorem canonical_pre_noUpload : noUpload (canonicalStages.take 7) := by decide

/-! ## key rings -/

/-- invariant of every key ring built by `init` and add-key: each key file is sealed with the user key derived from its
own KDF parameters, its own salt and the password it was made for -/
def RingOk {κ : Type} (r : Ring κ) : Prop :=
  ∀ kp ∈ r.keys, kp.1.sealedWith = ⟨kp.1.kdf, kp.1.salt, kp.2⟩

theorem ringOk_init {κ : Type} (pw : Pw) (kdf : κ) : RingOk (initRing pw kdf) := by
  intro kp hkp
  simp [initRing] at hkp
  subst hkp
  rfl

theorem ringOk_append {κ : Type} (r : Ring κ) (h : RingOk r) (kdf : κ) (salt : Nat) (pw : Pw) (fam : Nat) (nx : Nat) :
    RingOk ({ keys := r.keys ++ [(mkKey kdf salt pw fam, pw)], next := nx } : Ring κ) := by
  intro kp hkp
  simp only [List.mem_append, List.mem_singleton] at hkp
  rcases hkp with hkp | hkp
  · exact h kp hkp
  · subst hkp; rfl

theorem ringOk_step {κ : Type} [DecidableEq κ] (valid : κ → Bool) (r : Ring κ) (h : RingOk r) (op : KeyOp κ) :
    RingOk (stepKey valid r op) := by
  cases op with
  | independent pw kdf =>
    simp only [stepKey]
    split
    · exact ringOk_append r h _ _ _ _ _
    · exact h
  | shared i upw pw kdf =>
    simp only [stepKey]
    repeat' split
    all_goals first | exact h | exact ringOk_append r h _ _ _ _ _
  | clone i upw kdf =>
    simp only [stepKey]
    repeat' split
    all_goals first | exact h | exact ringOk_append r h _ _ _ _ _

theorem ringOk_run {κ : Type} [DecidableEq κ] (valid : κ → Bool) (ops : List (KeyOp κ)) (r : Ring κ) (h : RingOk r) :
    RingOk (runKeyOps valid r ops) := by
  induction ops generalizing r with
  | nil => exact h
  | cons op ops ih => exact ih _ (ringOk_step valid r h op)

end Replicat.Settings
