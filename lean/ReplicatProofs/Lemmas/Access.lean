import ReplicatModel.Access
/-! Invariant of key graphs built by `init` / `add-key` (C06 `unlock_iff`, `keygraph_relations`). -/
namespace Replicat.Access
open Replicat.Repo List

variable {K : Type} [DecidableEq K]

/-- an entry whose private section is encrypted under the key derived from its own password, KDF settings and salt -/
def SealedOwn (kdf : Nat → Nat → Nat → K) (e : Entry K) : Prop :=
  ∃ n m, e.file.priv = .enc (kdf e.file.cfg e.password e.file.salt) n m

/-- what `init` and every `add-key` preserve -/
structure Inv (kdf : Nat → Nat → Nat → K) (g : Graph K) : Prop where
  sealed : ∀ e ∈ g.entries, SealedOwn kdf e
  keyIdLt : ∀ e ∈ g.entries, e.keyId < g.nextSalt
  famLt : ∀ e ∈ g.entries, ∀ n m k, e.file.priv = .enc k n m → m.fam < g.nextFam

theorem unlock_own (kdf : Nat → Nat → Nat → K) (e : Entry K) (h : SealedOwn kdf e) :
    ∃ m, unlock kdf e.file e.password = some (kdf e.file.cfg e.password e.file.salt, m) ∧ ∃ n k, e.file.priv = .enc k n m := by
  obtain ⟨n, m, hp⟩ := h
  refine ⟨m, ?_, n, _, hp⟩
  simp [unlock, hp, dec]

theorem unlock_isSome_iff (kdf : Nat → Nat → Nat → K) (hinj : ∀ c s p p', kdf c p s = kdf c p' s → p = p')
    (e : Entry K) (h : SealedOwn kdf e) (p' : Nat) : (unlock kdf e.file p').isSome ↔ p' = e.password := by
  obtain ⟨n, m, hp⟩ := h
  unfold unlock
  rw [hp]
  simp only [dec, Option.isSome_map]
  constructor
  · intro hs
    by_cases hk : kdf e.file.cfg e.password e.file.salt = kdf e.file.cfg p' e.file.salt
    · exact (hinj _ _ _ _ hk).symm
    · simp [hk] at hs
  · rintro rfl
    simp

omit [DecidableEq K] in
theorem makeKey_sealed (kdf : Nat → Nat → Nat → K) (g : Graph K) (pw cfg : Nat) (m : Private) :
    SealedOwn kdf (makeKey kdf g pw cfg m) := ⟨g.nextNonce, m, rfl⟩

theorem inv_init (kdf : Nat → Nat → Nat → K) (pw cfg : Nat) : Inv kdf (init kdf pw cfg) := by
  refine ⟨?_, ?_, ?_⟩
  · intro e he
    simp only [init, mem_singleton] at he
    subst he; exact makeKey_sealed ..
  · intro e he
    simp only [init, mem_singleton] at he
    subst he; simp [makeKey, init]
  · intro e he n m k hp
    simp only [init, mem_singleton] at he
    subst he
    simp only [makeKey, Sealed.enc.injEq] at hp
    obtain ⟨_, _, rfl⟩ := hp
    simp [init]

theorem inv_addKey (kdf : Nat → Nat → Nat → K) (g : Graph K) (h : Inv kdf g) (a : AddKey) : Inv kdf (addKey kdf g a) := by
  unfold addKey
  split
  · exact h
  · rename_i b hb
    have hbm : b ∈ g.entries := mem_of_getElem? hb
    split
    · -- clone
      refine ⟨?_, ?_, ?_⟩
      · intro e he
        rcases mem_append.mp he with he | he
        · exact h.sealed e he
        · simp only [mem_singleton] at he; subst he; exact h.sealed _ hbm
      · intro e he
        rcases mem_append.mp he with he | he
        · exact h.keyIdLt e he
        · simp only [mem_singleton] at he; subst he; exact h.keyIdLt _ hbm
      · intro e he n m k hp
        rcases mem_append.mp he with he | he
        · exact h.famLt e he n m k hp
        · simp only [mem_singleton] at he; subst he; exact h.famLt _ hbm n m k hp
    · -- independent
      refine ⟨?_, ?_, ?_⟩
      · intro e he
        rcases mem_append.mp he with he | he
        · exact h.sealed e he
        · simp only [mem_singleton] at he; subst he; exact makeKey_sealed ..
      · intro e he
        rcases mem_append.mp he with he | he
        · have := h.keyIdLt e he; simp only; omega
        · simp only [mem_singleton] at he; subst he; simp [makeKey]
      · intro e he n m k hp
        rcases mem_append.mp he with he | he
        · have := h.famLt e he n m k hp
          show m.fam < g.nextFam + 1
          exact Nat.lt_succ_of_lt this
        · simp only [mem_singleton] at he; subst he
          simp only [makeKey, Sealed.enc.injEq] at hp
          obtain ⟨_, _, rfl⟩ := hp
          simp
    · -- shared
      obtain ⟨mb, hub, nb, kb, hpb⟩ := unlock_own kdf b (h.sealed b hbm)
      rw [hub]
      refine ⟨?_, ?_, ?_⟩
      · intro e he
        rcases mem_append.mp he with he | he
        · exact h.sealed e he
        · simp only [mem_singleton] at he; subst he; exact makeKey_sealed ..
      · intro e he
        rcases mem_append.mp he with he | he
        · have := h.keyIdLt e he; simp only; omega
        · simp only [mem_singleton] at he; subst he; simp [makeKey]
      · intro e he n m k hp
        rcases mem_append.mp he with he | he
        · exact h.famLt e he n m k hp
        · simp only [mem_singleton] at he; subst he
          simp only [makeKey, Sealed.enc.injEq] at hp
          obtain ⟨_, _, rfl⟩ := hp
          exact h.famLt b hbm nb _ kb hpb

theorem inv_build (kdf : Nat → Nat → Nat → K) (pw cfg : Nat) (steps : List AddKey) : Inv kdf (build kdf pw cfg steps) := by
  unfold build
  generalize hg : init kdf pw cfg = g0
  have h0 : Inv kdf g0 := hg ▸ inv_init kdf pw cfg
  clear hg
  induction steps generalizing g0 with
  | nil => exact h0
  | cons a steps ih => exact ih _ (inv_addKey kdf g0 h0 a)

/-- the user a sealed entry yields with its own password -/
theorem userOf_own (kdf : Nat → Nat → Nat → K) (e : Entry K) (h : SealedOwn kdf e) :
    ∃ m n k, e.file.priv = .enc k n m ∧ userOf kdf e e.password = some ⟨e.keyId, m.fam⟩ := by
  obtain ⟨m, hu, n, k, hp⟩ := unlock_own kdf e h
  exact ⟨m, n, k, hp, by simp [userOf, hu]⟩

/-- whatever password unlocks a sealed entry, the user it yields is the entry's own -/
theorem userOf_some (kdf : Nat → Nat → Nat → K) (e : Entry K) (p : Nat) (u : User) (h : userOf kdf e p = some u) :
    u.key = e.keyId ∧ ∀ k n m, e.file.priv = .enc k n m → u.fam = m.fam := by
  unfold userOf unlock at h
  simp only [Option.map_map, Option.map_eq_some_iff, Function.comp] at h
  obtain ⟨m, hd, rfl⟩ := h
  refine ⟨rfl, ?_⟩
  intro k n m' hp
  rw [hp] at hd
  simp only [dec] at hd
  split at hd
  · cases hd; rfl
  · cases hd

end Replicat.Access
