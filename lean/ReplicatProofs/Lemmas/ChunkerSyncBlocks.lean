import ReplicatProofs.Lemmas.ChunkerLocal
/-! Lemmas about input blocks and size thresholds (C11): cutting blocks into pieces does not change the stream.  Core Lean only. -/
namespace Replicat
namespace Sync

theorem splitEvery_flatten (t : Nat) : ∀ (fuel : Nat) (b : Bytes), (splitEvery t fuel b).flatten = b := by
  intro fuel
  induction fuel with
  | zero => intro b; simp [splitEvery]
  | succ n ih =>
    intro b
    unfold splitEvery
    split
    · simp
    · simp only [List.flatten_cons, ih, List.take_append_drop]

theorem resplit_flatten (t : Nat) (blocks : List Bytes) : (resplit t blocks).flatten = blocks.flatten := by
  unfold resplit
  induction blocks with
  | nil => simp
  | cons b bs ih => simp only [List.flatMap_cons, List.flatten_append, splitEvery_flatten, ih, List.flatten_cons]

theorem foldl_resplit_flatten (ts : List Nat) : ∀ blocks : List Bytes,
    (ts.foldl (fun ps t => resplit t ps) blocks).flatten = blocks.flatten := by
  induction ts with
  | nil => intro blocks; rfl
  | cons t ts ih => intro blocks; simp only [List.foldl_cons, ih, resplit_flatten]

end Sync
end Replicat
