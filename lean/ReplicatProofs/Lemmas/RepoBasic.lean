import ReplicatModel.Repo
/-! Basic facts about the object map (`get` / `put` / `del`), well-formedness, and loading under well-formedness.
Shared by C02, C03, C06, C07, C08, C15, C18. -/
namespace Replicat.Repo
open List

/-! ## get / put / del -/
theorem get_del_same (s : Store) (n : Name) : get (del s n) n = none := by
  unfold get del
  have : (s.filter (fun e => !(e.1 == n))).find? (fun e => e.1 == n) = none := by
    rw [find?_eq_none]
    intro x hx
    have := (mem_filter.mp hx).2
    simpa using this
  rw [this]; rfl

theorem find?_congr' {α : Type} {p q : α → Bool} (l : List α) (h : ∀ x ∈ l, p x = q x) : l.find? p = l.find? q := by
  induction l with
  | nil => rfl
  | cons a l ih =>
    simp only [find?_cons, h a (by simp)]
    rw [ih (fun x hx => h x (by simp [hx]))]

theorem get_del_other (s : Store) (n m : Name) (h : m ≠ n) : get (del s n) m = get s m := by
  unfold get del
  rw [find?_filter]
  congr 1
  apply find?_congr'
  intro x _
  by_cases hx : x.1 = m
  · subst hx
    simp [h]
  · simp [hx]

theorem get_put_same (s : Store) (n : Name) (o : Obj) : get (put s n o) n = some o := by
  unfold get put; simp

theorem get_put_other (s : Store) (n m : Name) (o : Obj) (h : m ≠ n) : get (put s n o) m = get s m := by
  unfold put
  have : get ((n, o) :: del s n) m = get (del s n) m := by
    unfold get
    have : ((n, o).1 == m) = false := by simp; exact fun h' => h h'.symm
    simp [find?_cons, this]
  rw [this, get_del_other s n m h]

theorem get_delAll (s : Store) (ns : List Name) (m : Name) : get (delAll s ns) m = if m ∈ ns then none else get s m := by
  unfold delAll
  induction ns generalizing s with
  | nil => simp
  | cons n ns ih =>
    simp only [foldl_cons]
    rw [ih]
    by_cases hm : m ∈ ns
    · simp [hm]
    · by_cases hmn : m = n
      · subst hmn; simp [get_del_same]
      · simp [hm, hmn, get_del_other s n m hmn]

/-! ## keys are unique; entries = `get` -/
def NoDupKeys (s : Store) : Prop := (s.map (·.1)).Nodup

theorem mem_del (s : Store) (n : Name) (e : Name × Obj) : e ∈ del s n ↔ e ∈ s ∧ e.1 ≠ n := by
  unfold del; simp [mem_filter]

theorem NoDupKeys.del {s : Store} (h : NoDupKeys s) (n : Name) : NoDupKeys (del s n) := by
  unfold NoDupKeys Repo.del at *
  exact h.sublist (filter_sublist.map _)

theorem NoDupKeys.put {s : Store} (h : NoDupKeys s) (n : Name) (o : Obj) : NoDupKeys (put s n o) := by
  unfold NoDupKeys Repo.put
  simp only [map_cons, nodup_cons]
  refine ⟨?_, h.del n⟩
  intro hmem
  obtain ⟨e, he, hen⟩ := mem_map.mp hmem
  exact ((mem_del s n e).mp he).2 hen

theorem NoDupKeys.delAll {s : Store} (h : NoDupKeys s) (ns : List Name) : NoDupKeys (delAll s ns) := by
  unfold Repo.delAll
  induction ns generalizing s with
  | nil => exact h
  | cons n ns ih => exact ih (h.del n)

theorem get_of_mem {s : Store} (h : NoDupKeys s) {e : Name × Obj} (he : e ∈ s) : get s e.1 = some e.2 := by
  unfold get
  induction s with
  | nil => simp at he
  | cons a s ih =>
    unfold NoDupKeys at h
    simp only [map_cons, nodup_cons] at h
    rcases mem_cons.mp he with rfl | he'
    · simp
    · have hne : (a.1 == e.1) = false := by
        simp only [beq_eq_false_iff_ne, ne_eq]
        intro heq
        exact h.1 (heq ▸ mem_map_of_mem he')
      simp only [find?_cons, hne]
      exact ih h.2 he'

theorem mem_of_get {s : Store} {n : Name} {o : Obj} (h : get s n = some o) : (n, o) ∈ s := by
  unfold get at h
  simp only [Option.map_eq_some_iff] at h
  obtain ⟨e, he, rfl⟩ := h
  have h1 := mem_of_find?_eq_some he
  have h2 := find?_some he
  simp only [beq_iff_eq] at h2
  rw [← h2]; exact h1

theorem mem_iff_get {s : Store} (h : NoDupKeys s) (n : Name) (o : Obj) : (n, o) ∈ s ↔ get s n = some o :=
  ⟨fun he => get_of_mem h he, mem_of_get⟩

/-! ## well-formedness: the payload stored under a name is the object that name denotes -/
def Matches : Name → Obj → Prop
  | .config, .config => True
  | .chunk f c, .chunk f' c' => f' = f ∧ c' = c
  | .snap f sid, .snap f' sid' _ => f' = f ∧ sid' = sid
  | .other _, .blob _ => True
  | _, _ => False

instance (n : Name) (o : Obj) : Decidable (Matches n o) := by
  cases n <;> cases o <;> unfold Matches <;> infer_instance

/-- every stored object is what its name says (no corruption / substitution — those are C04) and keys are unique -/
def WF (s : Store) : Prop := NoDupKeys s ∧ ∀ e ∈ s, Matches e.1 e.2

theorem WF.del {s : Store} (h : WF s) (n : Name) : WF (del s n) :=
  ⟨h.1.del n, fun e he => h.2 e ((mem_del s n e).mp he).1⟩

theorem WF.delAll {s : Store} (h : WF s) (ns : List Name) : WF (delAll s ns) := by
  unfold Repo.delAll
  induction ns generalizing s with
  | nil => exact h
  | cons n ns ih => exact ih (h.del n)

theorem WF.put {s : Store} (h : WF s) (n : Name) (o : Obj) (hm : Matches n o) : WF (put s n o) := by
  refine ⟨h.1.put n o, ?_⟩
  intro e he
  unfold Repo.put at he
  rcases mem_cons.mp he with rfl | he'
  · exact hm
  · exact (h.del n).2 e he'

theorem WF.get_chunk {s : Store} (h : WF s) {f : Fam} {c : Content} {o : Obj} (hg : get s (.chunk f c) = some o) :
    o = .chunk f c := by
  have := h.2 _ (mem_of_get hg)
  cases o <;> simp [Matches] at this
  obtain ⟨rfl, rfl⟩ := this; rfl

theorem WF.get_snap {s : Store} (h : WF s) {f : Fam} {sid : Nat} {o : Obj} (hg : get s (.snap f sid) = some o) :
    ∃ b, o = .snap f sid b := by
  have := h.2 _ (mem_of_get hg)
  cases o <;> simp [Matches] at this
  obtain ⟨rfl, rfl⟩ := this; exact ⟨_, rfl⟩

/-! ## loading under well-formedness never fails and is a plain filter -/
def toLoaded (enc : Bool) (u : User) (f : Fam) (sid : Nat) (b : Body) : Loaded :=
  ⟨f, sid, b.chunks, if !enc || b.owner == u.key then some b else none⟩

/-- the snapshots a user's command sees -/
def loadedPure (enc : Bool) (u : User) (re : Nat → Bool) (s : Store) : List Loaded :=
  s.filterMap fun e =>
    match e.1, e.2 with
    | .snap f sid, .snap _ _ b => if re sid && visible enc u f then some (toLoaded enc u f sid b) else none
    | _, _ => none

theorem sequenceE_map_ok {ε α : Type} (l : List α) : sequenceE (l.map (fun a => (Except.ok a : Except ε α))) = .ok l := by
  induction l with
  | nil => rfl
  | cons a l ih => simp [sequenceE, ih]

theorem loadCandidates_wf (enc : Bool) (u : User) (re : Nat → Bool) (s : Store) (h : ∀ e ∈ s, Matches e.1 e.2) :
    loadCandidates enc u re s = (loadedPure enc u re s).map Except.ok := by
  unfold loadCandidates loadedPure
  induction s with
  | nil => rfl
  | cons e s ih =>
    have he := h e (by simp)
    have ih' := ih (fun x hx => h x (by simp [hx]))
    simp only [filterMap_cons]
    rcases e with ⟨n, o⟩
    cases n with
    | snap f sid =>
      cases o with
      | snap f' sid' b =>
        simp only [Matches] at he
        obtain ⟨rfl, rfl⟩ := he
        by_cases hc : (re sid' && visible enc u f') = true
        · simp only [hc, if_true, map_cons, ih']
          simp [loadOne, toLoaded]
        · simp only [hc, if_false, Bool.false_eq_true, ih']
      | _ => simp [Matches] at he
    | _ => simpa using ih'

theorem loadSnapshots_wf (enc : Bool) (u : User) (re : Nat → Bool) (s : Store) (h : WF s) :
    loadSnapshots enc u re s = .ok (loadedPure enc u re s) := by
  unfold loadSnapshots
  rw [loadCandidates_wf enc u re s h.2, sequenceE_map_ok]

theorem mem_loadedPure {enc : Bool} {u : User} {re : Nat → Bool} {s : Store} (h : WF s) {l : Loaded} :
    l ∈ loadedPure enc u re s ↔
      ∃ b, get s (.snap l.fam l.sid) = some (.snap l.fam l.sid b) ∧ re l.sid = true ∧ visible enc u l.fam = true ∧
        l = toLoaded enc u l.fam l.sid b := by
  unfold loadedPure
  rw [mem_filterMap]
  constructor
  · rintro ⟨⟨n, o⟩, he, hl⟩
    have hm := h.2 _ he
    cases n with
    | snap f sid =>
      cases o with
      | snap f' sid' b =>
        simp only [Matches] at hm
        obtain ⟨rfl, rfl⟩ := hm
        simp only at hl
        split at hl
        · rename_i hc
          cases hl
          simp only [Bool.and_eq_true] at hc
          exact ⟨b, by simpa [toLoaded] using get_of_mem h.1 he, by simpa [toLoaded] using hc.1, by simpa [toLoaded] using hc.2, rfl⟩
        · cases hl
      | _ => simp at hl
    | _ => simp at hl
  · rintro ⟨b, hg, hre, hvis, hl⟩
    refine ⟨(.snap l.fam l.sid, .snap l.fam l.sid b), mem_of_get hg, ?_⟩
    simp only [hre, hvis, Bool.and_self, if_true]
    rw [← hl]

end Replicat.Repo
