import ReplicatModel.IOStack
/-! helper lemmas for the C20 theorems about the wrapper stack (ReplicatModel/IOStack.lean) -/
namespace Replicat.IOStack

theorem offers_cons (l : Layer) (ls : List Layer) (m : Meth) :
    offers (l :: ls) m = ((layerSpec l m).isSome && offers ls m) := by
  simp [offers]

theorem stackStep_fst_snd (ls : List Layer) (f : File) (op : Op) :
    (stackStep ls f op).1 = (bareStep ls f op).1 ∧ (stackStep ls f op).2.1 = (bareStep ls f op).2 := by
  induction ls with
  | nil => simp [stackStep, bareStep, offers]
  | cons l ls ih =>
    cases h : layerSpec l op.meth with
    | none => simp [stackStep, bareStep, offers_cons, h]
    | some e =>
      by_cases ho : offers ls op.meth = true
      · simp [stackStep, bareStep, offers_cons, h, ho] at ih ⊢
        exact ih
      · have ho' : offers ls op.meth = false := by simpa using ho
        simp [stackStep, bareStep, offers_cons, h, ho'] at ih ⊢
        exact ih

theorem readLen_le_avail (f : File) (n : Option Int) : f.readLen n ≤ f.avail := by
  unfold File.readLen
  cases n with
  | none => exact Nat.le_refl _
  | some k =>
    by_cases hk : k < 0
    · simp [hk]
    · by_cases hc : f.cap = 0
      · simp [hk, hc]; exact Nat.min_le_right _ _
      · simp [hk, hc]; omega


theorem runStack_refines (ls : List Layer) (ops : List Op) : ∀ f : File,
    (runStack ls f ops).1 = (runBare ls f ops).1 ∧ (runStack ls f ops).2.1 = (runBare ls f ops).2 := by
  induction ops with
  | nil => intro f; simp [runStack, runBare]
  | cons op ops ih =>
    intro f
    have h := stackStep_fst_snd ls f op
    have h2 := ih (bareStep ls f op).1
    simp only [runStack, runBare, h.1, h.2]
    exact ⟨h2.1, by rw [h2.2]⟩

theorem runBare_eq_runFile (ls : List Layer) (ops : List Op) : ∀ f : File,
    (∀ op ∈ ops, offers ls op.meth = true) → runBare ls f ops = runFile f ops := by
  induction ops with
  | nil => intro f _; simp [runBare, runFile]
  | cons op ops ih =>
    intro f h
    have h1 : offers ls op.meth = true := h op (by simp)
    have h2 := ih (f.apply op).1 (fun o ho => h o (by simp [ho]))
    simp only [runBare, runFile, bareStep, h1, if_true]
    rw [h2]

/-- reading through a stack that offers `read` = reading the bare file (pieces, final file, how it ended) -/
theorem iterChunks_stack_eq_bare (ls : List Layer) (cs : Int) (hoff : offers ls .read = true) : ∀ (fuel : Nat) (f : File),
    (iterChunks ls cs fuel f).pieces = (iterChunks [] cs fuel f).pieces ∧
    (iterChunks ls cs fuel f).file = (iterChunks [] cs fuel f).file ∧
    (iterChunks ls cs fuel f).ended = (iterChunks [] cs fuel f).ended := by
  intro fuel
  induction fuel with
  | zero => intro f; simp [iterChunks]
  | succ n ih =>
    intro f
    have h := stackStep_fst_snd ls f (.read (some cs))
    have hb : bareStep ls f (.read (some cs)) = f.apply (.read (some cs)) := by
      simp [bareStep, Op.meth, hoff]
    rw [hb] at h
    have h0 : stackStep [] f (.read (some cs)) = ((f.apply (.read (some cs))).1, (f.apply (.read (some cs))).2, []) := by
      simp [stackStep]
    simp only [iterChunks, h.1, h.2, h0]
    cases hr : (f.apply (.read (some cs))).2 with
    | bytes b =>
      by_cases hz : b.length = 0
      · simp [hz]
      · have := ih (f.apply (.read (some cs))).1
        simp [hz, this.1, this.2.1, this.2.2]
    | num n => simp
    | noMethod => simp
    | invalid => simp

theorem take_drop_append (c : Bytes) (p k : Nat) : (c.drop p).take k ++ c.drop (p + k) = c.drop p := by
  have : c.drop (p + k) = (c.drop p).drop k := by rw [List.drop_drop]
  rw [this, List.take_append_drop]

/-- the bare file, chunk size ≥ 1: the pieces are non-empty, at most `cs` (and at most `cap`) long, their concatenation is
    the content from the position on, the loop ends by an empty read, the content is untouched -/
theorem iterChunks_bare (cs : Int) (hcs : 1 ≤ cs) : ∀ (fuel : Nat) (f : File), f.avail < fuel →
    (iterChunks [] cs fuel f).pieces.flatten = f.content.drop f.pos ∧
    (iterChunks [] cs fuel f).ended = true ∧
    (∀ p ∈ (iterChunks [] cs fuel f).pieces, 0 < p.length ∧ (p.length : Int) ≤ cs ∧ (f.cap ≠ 0 → p.length ≤ f.cap)) ∧
    (iterChunks [] cs fuel f).file.content = f.content ∧
    (iterChunks [] cs fuel f).file.pos = f.pos + f.avail := by
  intro fuel
  induction fuel with
  | zero => intro f h; omega
  | succ n ih =>
    intro f hf
    have hneg : ¬ cs < 0 := by omega
    have hk : f.readLen (some cs) ≤ f.avail := readLen_le_avail f (some cs)
    have hkcs : ((f.readLen (some cs) : Nat) : Int) ≤ cs := by
      unfold File.readLen
      by_cases hc : f.cap = 0
      · simp [hneg, hc]; omega
      · simp [hneg, hc]; omega
    have hkcap : f.cap ≠ 0 → f.readLen (some cs) ≤ f.cap := by
      intro hc; unfold File.readLen; simp [hneg, hc]; omega
    have hkpos : 0 < f.avail → 0 < f.readLen (some cs) := by
      intro ha; unfold File.readLen
      by_cases hc : f.cap = 0
      · simp [hneg, hc]; omega
      · simp [hneg, hc]; omega
    have hlen : ((f.content.drop f.pos).take (f.readLen (some cs))).length = f.readLen (some cs) := by
      simp [List.length_take, List.length_drop]; unfold File.avail at hk; omega
    simp only [iterChunks, stackStep, File.apply, File.read]
    by_cases ha : f.avail = 0
    · have hk0 : f.readLen (some cs) = 0 := by omega
      have hd : f.content.drop f.pos = [] := by
        apply List.drop_eq_nil_of_le; unfold File.avail at ha; omega
      simp [hk0, hd, ha]
    · have hkp := hkpos (by omega)
      have hnz : ¬ ((f.content.drop f.pos).take (f.readLen (some cs))).length = 0 := by rw [hlen]; omega
      simp only [hnz, if_false]
      have hav : ({ f with pos := f.pos + f.readLen (some cs) } : File).avail = f.avail - f.readLen (some cs) := by
        simp [File.avail]; omega
      have := ih ({ f with pos := f.pos + f.readLen (some cs) }) (by rw [hav]; omega)
      obtain ⟨i1, i2, i3, i4, i5⟩ := this
      refine ⟨?_, i2, ?_, i4, ?_⟩
      · simp only [List.flatten_cons, i1]
        exact take_drop_append f.content f.pos _
      · intro p hp
        rcases List.mem_cons.mp hp with rfl | hp
        · rw [hlen]; exact ⟨hkp, hkcs, hkcap⟩
        · exact i3 p hp
      · rw [i5, hav]; simp; omega

end Replicat.IOStack
