import ReplicatProofs.Lemmas.RepoBasic
/-! Selection lemmas for restore and the listings (C15; the membership lemmas are also used by C06):
`selectFiles` = "first occurrence of a path in the newest-first concatenation"; on a list sorted strictly descending by
timestamp the first body containing a path is the one with the greatest timestamp (arg-max). -/
namespace Replicat.Repo
open List

/-- one iteration of `restore`'s selection loop -/
def selStep (fre : Nat → Bool) (acc : List FileRec) (f : FileRec) : List FileRec :=
  if acc.any (fun g => g.path == f.path) then acc else if fre f.path then acc ++ [f] else acc

theorem selectFiles_eq (fre : Nat → Bool) (bodies : List Body) :
    selectFiles fre bodies = (bodies.flatMap (·.files)).foldl (selStep fre) [] := rfl

theorem mem_foldl_selStep (fre : Nat → Bool) (xs : List FileRec) (acc : List FileRec) (f : FileRec) :
    f ∈ xs.foldl (selStep fre) acc ↔
      f ∈ acc ∨ (fre f.path = true ∧ (∀ g ∈ acc, g.path ≠ f.path) ∧ xs.find? (fun g => g.path == f.path) = some f) := by
  induction xs generalizing acc with
  | nil => simp
  | cons x xs ih =>
    simp only [foldl_cons, find?_cons]
    rw [ih]
    unfold selStep
    by_cases hany : acc.any (fun g => g.path == x.path) = true
    · simp only [hany, if_true]
      by_cases hp : x.path = f.path
      · have hx : ¬ ∀ g ∈ acc, g.path ≠ f.path := by
          simp only [any_eq_true, beq_iff_eq] at hany
          obtain ⟨g, hg, hgp⟩ := hany
          intro hall
          exact hall g hg (hgp.trans hp)
        simp [hx]
      · have : (x.path == f.path) = false := by simpa using hp
        simp [this]
    · simp only [hany, if_false, Bool.false_eq_true]
      have hnone : ∀ g ∈ acc, g.path ≠ x.path := by
        intro g hg hgp
        apply hany
        simp only [any_eq_true, beq_iff_eq]
        exact ⟨g, hg, hgp⟩
      by_cases hfre : fre x.path = true
      · simp only [hfre, if_true]
        by_cases hp : x.path = f.path
        · have hb : (x.path == f.path) = true := by simpa using hp
          simp only [hb, mem_append, mem_singleton, Option.some.injEq]
          constructor
          · rintro ((h | h) | ⟨_, hall, _⟩)
            · exact Or.inl h
            · subst h
              exact Or.inr ⟨hfre, hnone, rfl⟩
            · exact absurd hp (hall x (by simp))
          · rintro (h | ⟨_, _, h⟩)
            · exact Or.inl (Or.inl h)
            · exact Or.inl (Or.inr h.symm)
        · have hb : (x.path == f.path) = false := by simpa using hp
          simp only [hb, mem_append, mem_singleton]
          constructor
          · rintro ((h | h) | ⟨h1, hall, h3⟩)
            · exact Or.inl h
            · subst h; exact absurd rfl hp
            · exact Or.inr ⟨h1, fun g hg => hall g (Or.inl hg), h3⟩
          · rintro (h | ⟨h1, hall, h3⟩)
            · exact Or.inl (Or.inl h)
            · refine Or.inr ⟨h1, ?_, h3⟩
              intro g hg
              rcases hg with hg | hg
              · exact hall g hg
              · subst hg; exact hp
      · simp only [hfre, if_false, Bool.false_eq_true]
        by_cases hp : x.path = f.path
        · have hb : (x.path == f.path) = true := by simpa using hp
          have hf : ¬ fre f.path = true := hp ▸ hfre
          simp [hf]
        · have hb : (x.path == f.path) = false := by simpa using hp
          simp [hb]

/-- `restore`'s selection = for every path accepted by the file filter, its FIRST occurrence in the concatenated file lists -/
theorem mem_selectFiles (fre : Nat → Bool) (bodies : List Body) (f : FileRec) :
    f ∈ selectFiles fre bodies ↔
      fre f.path = true ∧ bodies.findSome? (fun b => b.files.find? (fun g => g.path == f.path)) = some f := by
  rw [selectFiles_eq, mem_foldl_selStep, find?_flatMap]
  simp

/-- the selected paths are pairwise different -/
theorem selectFiles_nodup_paths (fre : Nat → Bool) (bodies : List Body) :
    ((selectFiles fre bodies).map (·.path)).Nodup := by
  rw [selectFiles_eq]
  suffices h : ∀ (xs acc : List FileRec), (acc.map (·.path)).Nodup → ((xs.foldl (selStep fre) acc).map (·.path)).Nodup from
    h _ [] (by simp)
  intro xs
  induction xs with
  | nil => intro acc h; exact h
  | cons x xs ih =>
    intro acc h
    simp only [foldl_cons]
    apply ih
    unfold selStep
    split
    · exact h
    · rename_i hany
      split
      · rw [map_append, nodup_append]
        refine ⟨h, by simp, ?_⟩
        intro a ha b hb
        simp only [map_cons, map_nil, mem_singleton] at hb
        subst hb
        intro hab
        apply hany
        obtain ⟨g, hg, hgp⟩ := mem_map.mp ha
        simp only [any_eq_true, beq_iff_eq]
        exact ⟨g, hg, hgp.trans hab⟩
      · exact h

/-- on a list sorted strictly descending by a key, the first element where `φ` is defined is the one with the greatest key -/
theorem findSome?_sorted {α β : Type} (key : α → Nat) (φ : α → Option β) (l : List α)
    (hs : l.Pairwise (fun a b => key b < key a)) (y : β) :
    l.findSome? φ = some y ↔ ∃ b ∈ l, φ b = some y ∧ ∀ b' ∈ l, (φ b').isSome → key b' ≤ key b := by
  induction l with
  | nil => simp
  | cons a l ih =>
    rw [pairwise_cons] at hs
    obtain ⟨ha, hl⟩ := hs
    rw [findSome?_cons]
    cases hφ : φ a with
    | some x =>
      simp only [Option.some.injEq]
      constructor
      · rintro rfl
        refine ⟨a, by simp, hφ, ?_⟩
        intro b' hb' _
        rcases mem_cons.mp hb' with rfl | hb'
        · exact Nat.le_refl _
        · exact Nat.le_of_lt (ha b' hb')
      · rintro ⟨b, hb, hby, hmax⟩
        rcases mem_cons.mp hb with rfl | hb
        · rw [hφ] at hby; exact Option.some.inj hby
        · have := hmax a (by simp) (by simp [hφ])
          have := ha b hb
          omega
    | none =>
      simp only
      rw [ih hl]
      constructor
      · rintro ⟨b, hb, hby, hmax⟩
        refine ⟨b, mem_cons_of_mem _ hb, hby, ?_⟩
        intro b' hb' hsome
        rcases mem_cons.mp hb' with rfl | hb'
        · simp [hφ] at hsome
        · exact hmax b' hb' hsome
      · rintro ⟨b, hb, hby, hmax⟩
        rcases mem_cons.mp hb with rfl | hb
        · rw [hφ] at hby; cases hby
        · exact ⟨b, hb, hby, fun b' hb' => hmax b' (mem_cons_of_mem _ hb')⟩

theorem tsGE_trans (a b c : Body) : tsGE a b = true → tsGE b c = true → tsGE a c = true := by
  unfold tsGE; simp only [decide_eq_true_eq]; omega

theorem tsGE_total (a b : Body) : (tsGE a b || tsGE b a) = true := by
  unfold tsGE; simp only [Bool.or_eq_true, decide_eq_true_eq]; omega

/-- newest first; strictly when the timestamps are pairwise different -/
theorem readableNewestFirst_sorted (ls : List Loaded) (hts : ((ls.filterMap (·.data)).map (·.ts)).Nodup) :
    (readableNewestFirst ls).Pairwise (fun a b => b.ts < a.ts) := by
  unfold readableNewestFirst
  have h1 := pairwise_mergeSort tsGE_trans tsGE_total (ls.filterMap (·.data))
  have h2 : ((mergeSort (ls.filterMap (·.data)) tsGE).map (·.ts)).Nodup :=
    ((mergeSort_perm _ tsGE).map _).nodup_iff.mpr hts
  rw [nodup_iff_pairwise_ne, pairwise_map] at h2
  refine (h1.and h2).imp ?_
  intro a b ⟨hge, hne⟩
  simp only [tsGE, decide_eq_true_eq] at hge
  omega

theorem mem_readableNewestFirst (ls : List Loaded) (b : Body) :
    b ∈ readableNewestFirst ls ↔ ∃ l ∈ ls, l.data = some b := by
  unfold readableNewestFirst
  rw [mem_mergeSort, mem_filterMap]

/-- a body is readable by `u` under the snapshot filter `sre`: a listed, matching, visible snapshot object whose private part
decrypts with `u`'s key -/
def Readable (enc : Bool) (u : User) (sre : Nat → Bool) (s : Store) (b : Body) : Prop :=
  ∃ f sid, get s (.snap f sid) = some (.snap f sid b) ∧ sre sid = true ∧ visible enc u f = true ∧ (!enc || b.owner == u.key) = true

theorem mem_readable {enc : Bool} {u : User} {sre : Nat → Bool} {s : Store} (h : WF s) (b : Body) :
    b ∈ readableNewestFirst (loadedPure enc u sre s) ↔ Readable enc u sre s b := by
  rw [mem_readableNewestFirst]
  constructor
  · rintro ⟨l, hl, hd⟩
    obtain ⟨b', hg, hre, hvis, hl'⟩ := (mem_loadedPure h).mp hl
    rw [hl'] at hd
    simp only [toLoaded] at hd
    split at hd
    · rename_i hc
      cases hd
      exact ⟨l.fam, l.sid, hg, hre, hvis, hc⟩
    · cases hd
  · rintro ⟨f, sid, hg, hre, hvis, hc⟩
    refine ⟨toLoaded enc u f sid b, (mem_loadedPure h).mpr ⟨b, hg, hre, hvis, rfl⟩, ?_⟩
    simp [toLoaded, hc]

/-- in a body whose paths are pairwise different, the first record with `f`'s path is `f` itself -/
theorem find?_path_of_mem {files : List FileRec} (hn : (files.map (·.path)).Nodup) {f : FileRec} (hf : f ∈ files) :
    files.find? (fun g => g.path == f.path) = some f := by
  induction files with
  | nil => simp at hf
  | cons a files ih =>
    simp only [map_cons, nodup_cons] at hn
    rw [find?_cons]
    rcases mem_cons.mp hf with rfl | hf'
    · simp
    · have hne : (a.path == f.path) = false := by
        simp only [beq_eq_false_iff_ne, ne_eq]
        intro heq
        exact hn.1 (heq ▸ mem_map_of_mem hf')
      simp only [hne]
      exact ih hn.2 hf'

theorem find?_path_isSome_iff (files : List FileRec) (p : Nat) :
    (files.find? (fun g => g.path == p)).isSome ↔ ∃ g ∈ files, g.path = p := by
  simp

end Replicat.Repo
