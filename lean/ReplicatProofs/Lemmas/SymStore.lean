import ReplicatProofs.Lemmas.SymBasic
/-! Object maps as association lists: `lookup` against append / filter, the snapshot area of a store, and what
`loadBodies` / `loadAll` return when exactly one object carries the requested name. -/
namespace Replicat.Sym
open Term (pub sec nonce key nil pair mac kdf enc)

/-! ## lookup -/
theorem lookup_cons (e : Term × Term) (rest : Store) (loc : Term) :
    lookup (e :: rest) loc = if e.1 = loc then some e.2 else lookup rest loc := rfl

theorem loadBodies_cons (p : Props) (target tag name obj : Term) (rest : List (Term × Term × Term)) :
    loadBodies p target ((tag, name, obj) :: rest) =
      if name ≠ target then loadBodies p target rest
      else
        match loadSnapshot p tag name obj with
        | .error e => .error e
        | .ok r =>
          match loadBodies p target rest with
          | .error e => .error e
          | .ok bs =>
            match r with
            | some b => .ok (b :: bs)
            | none => .ok bs := rfl

theorem loadAll_cons (p : Props) (target tag name obj : Term) (rest : List (Term × Term × Term)) :
    loadAll p target ((tag, name, obj) :: rest) =
      if name ≠ target then loadAll p target rest
      else
        match loadSnapshot p tag name obj with
        | .error e => .error e
        | .ok r =>
          match loadAll p target rest with
          | .error e => .error e
          | .ok bs =>
            match r with
            | some (table, some data) => .ok ((table, data) :: bs)
            | _ => .ok bs := rfl

theorem lookup_eq_none_iff (s : Store) (loc : Term) : lookup s loc = none ↔ loc ∉ s.map (·.1) := by
  induction s with
  | nil => simp [lookup]
  | cons e rest ih =>
    unfold lookup
    by_cases h : e.1 = loc
    · simp [h]
    · have h' : ¬ loc = e.1 := fun x => h x.symm
      simp [h, h', ih]

theorem lookup_some_mem {s : Store} {loc obj : Term} (h : lookup s loc = some obj) : (loc, obj) ∈ s := by
  induction s with
  | nil => simp [lookup] at h
  | cons e rest ih =>
    unfold lookup at h
    split at h
    · rename_i he
      cases h
      obtain ⟨a, b⟩ := e
      simp only at he
      subst he
      simp
    · exact List.mem_cons_of_mem _ (ih h)

theorem lookup_of_mem_nodup {s : Store} {loc obj : Term} (hn : (s.map (·.1)).Nodup) (h : (loc, obj) ∈ s) :
    lookup s loc = some obj := by
  induction s with
  | nil => simp at h
  | cons e rest ih =>
    simp only [List.map_cons, List.nodup_cons] at hn
    unfold lookup
    rcases List.mem_cons.mp h with h | h
    · subst h
      simp
    · have : e.1 ≠ loc := by
        intro he
        apply hn.1
        rw [he]
        exact List.mem_map.mpr ⟨(loc, obj), h, rfl⟩
      simp [this, ih hn.2 h]

theorem lookup_append (s r : Store) (loc : Term) :
    lookup (s ++ r) loc = (match lookup s loc with | some o => some o | none => lookup r loc) := by
  induction s with
  | nil => simp [lookup]
  | cons e rest ih =>
    simp only [List.cons_append, lookup_cons]
    split
    · rfl
    · exact ih

theorem lookup_append_ne_none {s r : Store} {loc : Term} (h : lookup s loc ≠ none) : lookup (s ++ r) loc ≠ none := by
  rw [lookup_append]
  cases hl : lookup s loc with
  | none => exact absurd hl h
  | some o => simp

theorem lookup_append_self (s : Store) (loc obj : Term) : lookup (s ++ [(loc, obj)]) loc ≠ none := by
  rw [lookup_append]
  cases lookup s loc with
  | none => simp [lookup]
  | some o => simp

theorem lookup_filter (s : Store) (f : Term → Bool) (loc : Term) :
    lookup (s.filter (fun e => f e.1)) loc = if f loc then lookup s loc else none := by
  induction s with
  | nil => simp [lookup]
  | cons e rest ih =>
    by_cases hf : f e.1 = true
    · rw [List.filter_cons_of_pos (by simpa using hf)]
      simp only [lookup_cons]
      by_cases he : e.1 = loc
      · rw [← he]
        simp only [hf, if_true]
      · simp only [he, if_false]
        exact ih
    · rw [List.filter_cons_of_neg (by simpa using hf)]
      rw [ih, lookup_cons]
      by_cases he : e.1 = loc
      · rw [he] at hf
        simp [hf]
      · simp [he]

theorem nodup_filter_keys (s : Store) (f : Term × Term → Bool) (h : (s.map (·.1)).Nodup) : ((s.filter f).map (·.1)).Nodup := by
  induction s with
  | nil => simp
  | cons e rest ih =>
    simp only [List.map_cons, List.nodup_cons] at h
    by_cases hf : f e = true
    · rw [List.filter_cons_of_pos hf]
      simp only [List.map_cons, List.nodup_cons]
      refine ⟨?_, ih h.2⟩
      intro hm
      apply h.1
      obtain ⟨x, hx, hx1⟩ := List.mem_map.mp hm
      exact List.mem_map.mpr ⟨x, (List.mem_filter.mp hx).1, hx1⟩
    · rw [List.filter_cons_of_neg hf]
      exact ih h.2

/-- replacing the object at `loc` keeps the store a map -/
theorem nodup_replace (s : Store) (loc obj : Term) (h : (s.map (·.1)).Nodup) :
    (((s.filter (fun e => e.1 ≠ loc)) ++ [(loc, obj)]).map (·.1)).Nodup := by
  rw [List.map_append, List.nodup_append]
  refine ⟨nodup_filter_keys s _ h, by simp, ?_⟩
  intro x hx y hy
  simp only [List.map_cons, List.map_nil, List.mem_singleton] at hy
  subst hy
  obtain ⟨e, he, rfl⟩ := List.mem_map.mp hx
  have := (List.mem_filter.mp he).2
  simpa using this

theorem nodup_append_new (s : Store) (loc obj : Term) (h : (s.map (·.1)).Nodup) (hl : lookup s loc = none) :
    ((s ++ [(loc, obj)]).map (·.1)).Nodup := by
  rw [List.map_append, List.nodup_append]
  refine ⟨h, by simp, ?_⟩
  intro x hx y hy
  simp only [List.map_cons, List.map_nil, List.mem_singleton] at hy
  subst hy
  intro hxy
  subst hxy
  exact (lookup_eq_none_iff s x).mp hl hx

/-! ## the snapshot area -/
theorem mem_snapEntries (s : Store) (x : Term × Term × Term) :
    x ∈ snapEntries s ↔ (pair prefixSnap (pair x.1 x.2.1), x.2.2) ∈ s := by
  obtain ⟨tag, name, obj⟩ := x
  unfold snapEntries
  simp only [List.mem_filterMap]
  constructor
  · rintro ⟨e, he, hx⟩
    obtain ⟨l, o⟩ := e
    simp only at hx
    split at hx
    · split at hx
      · rename_i hp
        simp only [Option.some.injEq, Prod.mk.injEq] at hx
        obtain ⟨h1, h2, h3⟩ := hx
        subst h1 h2 h3 hp
        exact he
      · cases hx
    · cases hx
  · intro h
    exact ⟨_, h, by simp⟩

theorem snapEntries_append (s r : Store) : snapEntries (s ++ r) = snapEntries s ++ snapEntries r := by
  simp [snapEntries, List.filterMap_append]

theorem snapEntries_snap (tag name obj : Term) (r : Store) :
    snapEntries ((pair prefixSnap (pair tag name), obj) :: r) = (tag, name, obj) :: snapEntries r := by
  simp [snapEntries]

/-! ## loading by name -/
theorem loadBodies_skip (p : Props) (target : Term) (l r : List (Term × Term × Term)) (h : ∀ e ∈ l, e.2.1 ≠ target) :
    loadBodies p target (l ++ r) = loadBodies p target r := by
  induction l with
  | nil => rfl
  | cons e rest ih =>
    obtain ⟨tag, name, obj⟩ := e
    have hn : name ≠ target := h (tag, name, obj) (by simp)
    simp only [List.cons_append, loadBodies_cons, hn, ne_eq, not_false_eq_true, if_true]
    exact ih (fun e he => h e (List.mem_cons_of_mem _ he))

theorem loadBodies_none (p : Props) (target : Term) (l : List (Term × Term × Term)) (h : ∀ e ∈ l, e.2.1 ≠ target) :
    loadBodies p target l = .ok [] := by
  have := loadBodies_skip p target l [] h
  simpa [loadBodies] using this

/-- exactly one object carries the requested name -/
theorem loadBodies_single (p : Props) (tag target obj : Term) (l r : List (Term × Term × Term))
    (hl : ∀ e ∈ l, e.2.1 ≠ target) (hr : ∀ e ∈ r, e.2.1 ≠ target) :
    loadBodies p target (l ++ (tag, target, obj) :: r) =
      (match loadSnapshot p tag target obj with
       | .error e => .error e
       | .ok (some b) => .ok [b]
       | .ok none => .ok []) := by
  rw [loadBodies_skip p target l _ hl, loadBodies_cons]
  simp only [ne_eq, not_true_eq_false, if_false, loadBodies_none p target r hr]
  cases loadSnapshot p tag target obj with
  | error e => rfl
  | ok r' => cases r' <;> rfl

def keepData : List Term × Option Data → Option (List Term × Data)
  | (table, some data) => some (table, data)
  | _ => none

/-- restore drops the bodies whose private data it cannot read -/
theorem loadAll_eq_loadBodies (p : Props) (target : Term) (l : List (Term × Term × Term)) :
    loadAll p target l = (loadBodies p target l).map (fun bs => bs.filterMap keepData) := by
  induction l with
  | nil => rfl
  | cons e rest ih =>
    obtain ⟨tag, name, obj⟩ := e
    rw [loadAll_cons, loadBodies_cons]
    by_cases hn : name = target
    · subst hn
      simp only [ne_eq, not_true_eq_false, if_false]
      rw [ih]
      cases loadSnapshot p tag name obj with
      | error e => rfl
      | ok r =>
        simp only
        cases loadBodies p name rest with
        | error e => rfl
        | ok bs =>
          simp only [Except.map]
          cases r with
          | none => rfl
          | some b =>
            obtain ⟨table, d⟩ := b
            cases d <;> simp [keepData, List.filterMap_cons]
    · simp only [hn, ne_eq, not_false_eq_true, if_true]
      exact ih

end Replicat.Sym
