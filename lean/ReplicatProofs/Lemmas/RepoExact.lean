import ReplicatProofs.Lemmas.RepoSafety
/-! `Exact f s` (chunk objects of family `f` = chunks referenced by the family's snapshots) under snapshot / delete / clean;
upload lists of repeated snapshots.  Used by C07 and C08. -/
namespace Replicat.Repo
open List

/-! ## snapshot -/

theorem snapshot_chunk_present (u : User) (stream : List Content) (files : List FileRec) (ts sid : Nat) (s : Store) (f : Fam) (c : Content) :
    (get (snapshot u stream files ts sid s).1 (.chunk f c)).isSome ↔ (get s (.chunk f c)).isSome ∨ (f = u.fam ∧ c ∈ stream) := by
  rw [snapshot_get_chunk]
  by_cases h : f = u.fam ∧ c ∈ stream
  · obtain ⟨rfl, hc⟩ := h
    rw [fold_get_stream u stream (s, []) hc]
    simp [hc]
  · rw [fold_get_other u stream (s, [])]
    · simp [h]
    · intro c' hc' heq
      cases heq
      exact h ⟨rfl, hc'⟩

theorem snapshot_snap_present (u : User) (stream : List Content) (files : List FileRec) (ts sid : Nat) (s : Store)
    (hfresh : get s (.snap u.fam sid) = none) (f : Fam) (sid' : Nat) (b' : Body) :
    get (snapshot u stream files ts sid s).1 (.snap f sid') = some (.snap f sid' b') ↔
      (f = u.fam ∧ sid' = sid ∧ b' = ⟨u.key, ts, dedupKeepFirstC stream, files⟩) ∨ get s (.snap f sid') = some (.snap f sid' b') := by
  by_cases hn : Name.snap f sid' = .snap u.fam sid
  · cases hn
    rw [snapshot_get_snapname, hfresh]
    constructor
    · intro h; cases h; exact Or.inl ⟨rfl, rfl, rfl⟩
    · rintro (⟨_, _, rfl⟩ | h)
      · rfl
      · cases h
  · rw [snapshot_get_snap_other u stream files ts sid s hn]
    constructor
    · exact Or.inr
    · rintro (⟨rfl, rfl, _⟩ | h)
      · exact absurd rfl hn
      · exact h

theorem snapshot_exact (u : User) (stream : List Content) (files : List FileRec) (ts sid : Nat) (s : Store)
    (hfresh : get s (.snap u.fam sid) = none) (f : Fam) (h : Exact f s) : Exact f (snapshot u stream files ts sid s).1 := by
  intro c
  rw [snapshot_chunk_present, h c]
  constructor
  · rintro (⟨sid', b', hg, hc⟩ | ⟨rfl, hc⟩)
    · exact ⟨sid', b', (snapshot_snap_present u stream files ts sid s hfresh f sid' b').mpr (Or.inr hg), hc⟩
    · exact ⟨sid, _, snapshot_get_snapname u stream files ts sid s, (mem_dedupKeepFirstC stream c).mpr hc⟩
  · rintro ⟨sid', b', hg, hc⟩
    rcases (snapshot_snap_present u stream files ts sid s hfresh f sid' b').mp hg with ⟨rfl, rfl, rfl⟩ | hg'
    · exact Or.inr ⟨rfl, (mem_dedupKeepFirstC stream c).mp hc⟩
    · exact Or.inl ⟨sid', b', hg', hc⟩

/-- a snapshot whose chunks are all present uploads nothing -/
theorem snapshot_uploads_nil (u : User) (stream : List Content) (files : List FileRec) (ts sid : Nat) (s : Store)
    (hpres : ∀ c ∈ stream, (get s (.chunk u.fam c)).isSome) : (snapshot u stream files ts sid s).2 = [] := by
  rw [eq_nil_iff_forall_not_mem]
  intro n hn
  have : n ∈ (stream.foldl (uploadChunk u) (s, [])).2 := hn
  rcases (fold_names u stream (s, []) n).mp this with h | ⟨⟨c, hc, rfl⟩, hnone⟩
  · simp at h
  · have := hpres c hc
    rw [hnone] at this
    cases this

theorem snapshot_uploaded_iff (u : User) (stream : List Content) (files : List FileRec) (ts sid : Nat) (s : Store) (n : Name) :
    n ∈ (snapshot u stream files ts sid s).2 ↔ (∃ c ∈ stream, n = .chunk u.fam c) ∧ get s n = none := by
  have : (snapshot u stream files ts sid s).2 = (stream.foldl (uploadChunk u) (s, [])).2 := rfl
  rw [this, fold_names]
  simp

/-! ## delete -/

theorem delete_exact {enc : Bool} {u : User} {sids : List Nat} {s s' : Store}
    (h : Consistent enc s) (hu : UserOk enc u) (hd : deleteSnapshots enc u sids s = .ok s') (f : Fam) (hex : Exact f s) : Exact f s' := by
  obtain ⟨hwf, hfam, href⟩ := h
  have sp := delete_spec hwf hd
  have old : ∀ f sid o, get s' (.snap f sid) = some o → get s (.snap f sid) = some o ∧ ¬ (sid ∈ sids ∧ visible enc u f = true) := by
    intro f sid o hg
    by_cases hc : sid ∈ sids ∧ visible enc u f = true
    · rw [sp.snap_gone f sid hc.1 hc.2] at hg; cases hg
    · rw [sp.snap_keep f sid hc] at hg; exact ⟨hg, hc⟩
  intro c
  by_cases hf : f = u.fam
  · subst hf
    constructor
    · intro hp
      by_cases hdel : RefBy enc u s (· ∈ sids) c ∧ ¬ RefBy enc u s (· ∉ sids) c
      · rw [sp.chunk_gone c hdel.1 hdel.2] at hp; cases hp
      · rw [sp.chunk_keep u.fam c (by
          by_cases h1 : RefBy enc u s (· ∈ sids) c
          · by_cases h2 : RefBy enc u s (· ∉ sids) c
            · exact Or.inr (Or.inr h2)
            · exact absurd ⟨h1, h2⟩ hdel
          · exact Or.inr (Or.inl h1))] at hp
        obtain ⟨sid0, b0, hg0, hc0⟩ := (hex c).mp hp
        by_cases hs0 : sid0 ∈ sids
        · have h1 : RefBy enc u s (· ∈ sids) c := ⟨u.fam, sid0, b0, hg0, visible_own enc u, hs0, hc0⟩
          by_cases h2 : RefBy enc u s (· ∉ sids) c
          · obtain ⟨f1, sid1, b1, hg1, hv1, hs1, hc1⟩ := h2
            have hf1 := visible_fam hu hfam hg1 hv1
            subst hf1
            exact ⟨sid1, b1, by rw [sp.snap_keep _ sid1 (fun hh => hs1 hh.1)]; exact hg1, hc1⟩
          · exact absurd ⟨h1, h2⟩ hdel
        · exact ⟨sid0, b0, by rw [sp.snap_keep _ sid0 (fun hh => hs0 hh.1)]; exact hg0, hc0⟩
    · rintro ⟨sid1, b1, hg1, hc1⟩
      obtain ⟨hg0, hnot⟩ := old _ _ _ hg1
      have hs1 : sid1 ∉ sids := fun hh => hnot ⟨hh, visible_own enc u⟩
      rw [sp.chunk_keep u.fam c (Or.inr (Or.inr ⟨u.fam, sid1, b1, hg0, visible_own enc u, hs1, hc1⟩))]
      rw [(href _ _ _ hg0).1 c hc1]; rfl
  · rw [sp.chunk_keep f c (Or.inl hf), hex c]
    constructor
    · rintro ⟨sid0, b0, hg0, hc0⟩
      refine ⟨sid0, b0, ?_, hc0⟩
      rw [sp.snap_keep f sid0 ?_]
      · exact hg0
      · rintro ⟨_, hv⟩
        exact hf (visible_fam hu hfam hg0 hv)
    · rintro ⟨sid0, b0, hg0, hc0⟩
      exact ⟨sid0, b0, (old _ _ _ hg0).1, hc0⟩

/-! ## clean -/

/-- from ANY well-formed state (orphans, missing chunks, …): after `clean` by `u` an own-family chunk object is there iff it was
there before and a remaining snapshot of the family references it -/
theorem clean_own_chunks {enc : Bool} {u : User} {s s' : Store} (hwf : WF s) (hfam : FamOk enc s) (hu : UserOk enc u)
    (hd : clean enc u s = .ok s') (c : Content) :
    (get s' (.chunk u.fam c)).isSome ↔
      (get s (.chunk u.fam c)).isSome ∧ ∃ sid b, get s' (.snap u.fam sid) = some (.snap u.fam sid b) ∧ c ∈ b.chunks := by
  obtain ⟨s'', hs'', sp⟩ := clean_spec (enc := enc) (u := u) hwf
  rw [hd] at hs''; cases hs''
  have hiff : RefBy enc u s (fun _ => True) c ↔ ∃ sid b, get s' (.snap u.fam sid) = some (.snap u.fam sid b) ∧ c ∈ b.chunks := by
    constructor
    · rintro ⟨f1, sid1, b1, hg1, hv1, _, hc1⟩
      have := visible_fam hu hfam hg1 hv1
      subst this
      exact ⟨sid1, b1, by rw [sp.snap_keep]; exact hg1, hc1⟩
    · rintro ⟨sid1, b1, hg1, hc1⟩
      rw [sp.snap_keep] at hg1
      exact ⟨u.fam, sid1, b1, hg1, visible_own enc u, trivial, hc1⟩
  by_cases hr : RefBy enc u s (fun _ => True) c
  · rw [sp.chunk_keep u.fam c (Or.inl ⟨rfl, hr⟩)]
    exact ⟨fun hp => ⟨hp, hiff.mp hr⟩, fun hp => hp.1⟩
  · rw [sp.chunk_gone u.fam c (by rintro (⟨_, h1⟩ | ⟨_, h1⟩); exact hr h1; exact h1 rfl)]
    constructor
    · intro hp; cases hp
    · rintro ⟨_, h2⟩; exact absurd (hiff.mpr h2) hr

theorem clean_exact_own {enc : Bool} {u : User} {s s' : Store} (h : Consistent enc s) (hu : UserOk enc u)
    (hd : clean enc u s = .ok s') : Exact u.fam s' := by
  intro c
  rw [clean_own_chunks h.1 h.2.1 hu hd c]
  obtain ⟨s'', hs'', sp⟩ := clean_spec (enc := enc) (u := u) h.1
  rw [hd] at hs''; cases hs''
  constructor
  · exact fun hp => hp.2
  · rintro ⟨sid1, b1, hg1, hc1⟩
    refine ⟨?_, sid1, b1, hg1, hc1⟩
    rw [sp.snap_keep] at hg1
    rw [(h.2.2 _ _ _ hg1).1 c hc1]; rfl

theorem clean_exact_other {enc : Bool} {u : User} {s s' : Store} (h : Consistent enc s) (hu : UserOk enc u)
    (hd : clean enc u s = .ok s') (f : Fam) (hf : f ≠ u.fam) (hex : Exact f s) : Exact f s' := by
  obtain ⟨s'', hs'', sp⟩ := clean_spec (enc := enc) (u := u) h.1
  rw [hd] at hs''; cases hs''
  intro c
  cases enc with
  | true =>
    rw [sp.chunk_keep f c (Or.inr ⟨rfl, hf⟩), hex c]
    simp only [sp.snap_keep]
  | false =>
    rw [sp.chunk_gone f c (by rintro (⟨h1, _⟩ | ⟨h1, _⟩); exact hf h1; cases h1)]
    constructor
    · intro hp; cases hp
    · rintro ⟨sid1, b1, hg1, _⟩
      rw [sp.snap_keep] at hg1
      exact absurd ((h.2.1 rfl f sid1 _ hg1).trans (hu rfl).symm) hf

/-! ## histories -/

theorem step_exact {enc : Bool} {s : Store} {op : Op} (h : Consistent enc s) (hop : OpOk enc op) (hfresh : FreshOp s op)
    (f : Fam) (hex : Exact f s) : Exact f (step enc s op) := by
  cases op with
  | snapshot u stream files ts sid => exact snapshot_exact u stream files ts sid s hfresh f hex
  | delete u sids =>
    simp only [step]
    split
    · rename_i s' hd; exact delete_exact h hop hd f hex
    · exact hex
  | clean u =>
    simp only [step]
    split
    · rename_i s' hd
      by_cases hf : f = u.fam
      · subst hf; exact clean_exact_own h hop hd
      · exact clean_exact_other h hop hd f hf hex
    · exact hex

/-- an admissible crash-free history: every command is admissible and every snapshot gets a name not present at that moment -/
def RunOk (enc : Bool) : Store → List Op → Prop
  | _, [] => True
  | s, op :: ops => OpOk enc op ∧ FreshOp s op ∧ RunOk enc (step enc s op) ops

theorem RunOk.ops {enc : Bool} {s : Store} {ops : List Op} (h : RunOk enc s ops) : ∀ op ∈ ops, OpOk enc op := by
  induction ops generalizing s with
  | nil => simp
  | cons op ops ih =>
    intro o ho
    rcases mem_cons.mp ho with rfl | ho
    · exact h.1
    · exact ih h.2.2 o ho

theorem run_exact {enc : Bool} (ops : List Op) (s : Store) (h : Consistent enc s) (hrun : RunOk enc s ops)
    (f : Fam) (hex : Exact f s) : Exact f (run enc s ops) := by
  unfold run
  induction ops generalizing s with
  | nil => exact hex
  | cons op ops ih =>
    simp only [foldl_cons]
    exact ih _ (step_consistent h hrun.1) hrun.2.2 (step_exact h hrun.1 hrun.2.1 f hex)

theorem initStore_exact (f : Fam) : Exact f initStore := by
  intro c
  simp [initStore, get]

/-! ## one object per distinct chunk -/
theorem nodup_all_eq_length {α : Type} (a : α) (l : List α) (hnd : l.Nodup) (hall : ∀ x ∈ l, x = a) : l.length ≤ 1 := by
  match l, hnd, hall with
  | [], _, _ => simp
  | [_], _, _ => simp
  | x :: y :: _, hnd, hall =>
    have hx := hall x (by simp)
    have hy := hall y (by simp)
    simp only [nodup_cons, mem_cons] at hnd
    exact absurd (Or.inl (hx.trans hy.symm)) hnd.1

theorem stored_once_wf {s : Store} (h : WF s) (f : Fam) (c : Content) :
    (s.filter (fun e => e.2 == Obj.chunk f c)).length ≤ 1 ∧ ∀ e ∈ s, e.2 = Obj.chunk f c → e.1 = Name.chunk f c := by
  have hname : ∀ e ∈ s, e.2 = Obj.chunk f c → e.1 = Name.chunk f c := by
    rintro ⟨n, o⟩ he ho
    simp only at ho
    subst ho
    have hm := h.2 _ he
    cases n <;> simp [Matches] at hm
    obtain ⟨rfl, rfl⟩ := hm
    rfl
  refine ⟨?_, hname⟩
  have hsub : ((s.filter (fun e => e.2 == Obj.chunk f c)).map (·.1)).Nodup := h.1.sublist (filter_sublist.map _)
  have := nodup_all_eq_length (Name.chunk f c) _ hsub (by
    intro x hx
    obtain ⟨e, he, rfl⟩ := mem_map.mp hx
    obtain ⟨he1, he2⟩ := mem_filter.mp he
    exact hname e he1 (by simpa using he2))
  simpa using this

end Replicat.Repo
