import ReplicatModel.SizeLit
/-!
Helper lemmas for the size-literal model (`ReplicatModel/SizeLit.lean`), core Lean only.

1. facts about the extracted tables, each discharged by `decide` on whatever `Replicat.Gen` currently says
   (a table that makes the grammar ambiguous — a prefix starting with a digit, a white-space character or `.`; a unit
   that is also a prefix — stops these from compiling);
2. the parser is exactly the declarative grammar `Spells` (`parse_sound`, `parse_complete`);
3. the `Decimal` pipeline is the exact value under `exactGuard`; `bytes` is the floor of the rational value;
4. the decimal digit count used by the rounding never runs out of fuel;
5. the extracted piece-size expression evaluates to `max (limit / (conc * 16)) 1`.
-/
namespace Replicat.SizeLit
open Replicat

/-! ## 1. table facts (by `decide`, from `Replicat.Gen`) -/

/-- first character of a table key: not a digit, not white space, not the point -/
def headOk : List Char → Bool
  | [] => false
  | c :: _ => (digitValN c.toNat).isNone && !isSpaceN c.toNat && c.toNat != 46

theorem digitVal_digitChar : ∀ d, d < 10 → digitVal (digitChar d) = some d := by decide
theorem digitValN_dot : digitValN 46 = none := by decide
theorem dot_not_space : isSpaceN 46 = false := by decide
theorem space_not_digit : ∀ n ∈ Gen.spaceChars, digitValN n = none := by decide
theorem prefixes_headOk : ∀ p ∈ Gen.sizePrefixes, headOk p.1 = true := by decide
theorem units_headOk : ∀ u ∈ Gen.sizeUnits, headOk [u.1] = true := by decide
theorem prefixes_pos : ∀ p ∈ Gen.sizePrefixes, 0 < p.2 := by decide
theorem units_pos : ∀ u ∈ Gen.sizeUnits, 0 < u.2.1 := by decide
theorem ascii_space : isSpace ' ' = true := by decide

/-- every (prefix row or none) × (unit row or none) is found again by the ordered, backtracking tail matcher -/
theorem matchTail_table_all :
    (none :: Gen.sizePrefixes.map some).all (fun p => (none :: Gen.sizeUnits.map some).all (fun u =>
      decide (matchTail (keyChars p ++ unitChars u) = some (p, u)))) = true := by decide

theorem matchTail_table :
    ∀ p ∈ none :: Gen.sizePrefixes.map some, ∀ u ∈ none :: Gen.sizeUnits.map some,
      matchTail (keyChars p ++ unitChars u) = some (p, u) := by
  intro p hp u hu
  have := matchTail_table_all
  rw [List.all_eq_true] at this
  have := this p hp
  rw [List.all_eq_true] at this
  simpa using this u hu

theorem dot_toNat : '.'.toNat = 46 := by decide

theorem digitVal_dot : digitVal '.' = none := by
  unfold digitVal; rw [dot_toNat]; exact digitValN_dot

/-! ## 2. the parser is the grammar -/

theorem digitValN_lt {n d : Nat} (h : digitValN n = some d) : d < 10 := by
  unfold digitValN at h
  split at h
  · next z hz =>
    have := List.find?_some hz
    simp at this h
    omega
  · simp at h

theorem digitVal_lt {c : Char} {d : Nat} (h : digitVal c = some d) : d < 10 := digitValN_lt h

/-- the characters `a` spell the digits `ds` (any script) -/
def DigitsOf (a : List Char) (ds : List Nat) : Prop := a.map digitVal = ds.map some

theorem DigitsOf.lt {a : List Char} {ds : List Nat} (h : DigitsOf a ds) : ∀ d ∈ ds, d < 10 := by
  induction a generalizing ds with
  | nil =>
    cases ds with
    | nil => simp
    | cons d ds => simp [DigitsOf] at h
  | cons c a ih =>
    cases ds with
    | nil => simp
    | cons d ds =>
      simp [DigitsOf] at h
      intro x hx
      rcases List.mem_cons.mp hx with rfl | hx
      · exact digitVal_lt h.1
      · exact ih (ds := ds) h.2 x hx

theorem digitsOf_render (ds : List Nat) (h : ∀ d ∈ ds, d < 10) : DigitsOf (ds.map digitChar) ds := by
  induction ds with
  | nil => simp [DigitsOf]
  | cons d ds ih =>
    have h1 := digitVal_digitChar d (h d (by simp))
    have h2 := ih (fun x hx => h x (by simp [hx]))
    simp [DigitsOf] at h2 ⊢
    exact ⟨h1, h2⟩

/-- what may follow a run of digits: nothing, or a character that is not a digit -/
def NoDigitHead (r : List Char) : Prop := ∀ c, r.head? = some c → digitVal c = none

theorem takeDigits_append (a : List Char) (ds : List Nat) (r : List Char)
    (ha : DigitsOf a ds) (hr : NoDigitHead r) : takeDigits (a ++ r) = (ds, r) := by
  induction a generalizing ds with
  | nil =>
    cases ds with
    | cons d ds => simp [DigitsOf] at ha
    | nil =>
      cases r with
      | nil => simp [takeDigits]
      | cons c cs =>
        have := hr c (by simp)
        simp [takeDigits, this]
  | cons c a ih =>
    cases ds with
    | nil => simp [DigitsOf] at ha
    | cons d ds =>
      simp [DigitsOf] at ha
      have := ih ds ha.2
      simp [takeDigits, ha.1, this]

theorem takeDigits_spec (s : List Char) :
    ∃ a, s = a ++ (takeDigits s).2 ∧ DigitsOf a (takeDigits s).1 ∧ NoDigitHead (takeDigits s).2 := by
  induction s with
  | nil => exact ⟨[], by simp [takeDigits, DigitsOf, NoDigitHead]⟩
  | cons c cs ih =>
    cases h : digitVal c with
    | none =>
      refine ⟨[], ?_⟩
      simp [takeDigits, h, DigitsOf, NoDigitHead]
    | some d =>
      obtain ⟨a, h1, h2, h3⟩ := ih
      refine ⟨c :: a, ?_⟩
      simp [takeDigits, h]
      refine ⟨h1, ?_, h3⟩
      simp [DigitsOf] at h2 ⊢
      exact ⟨h, h2⟩

theorem parseValue_int (a : List Char) (ip : List Nat) (r : List Char) (ha : DigitsOf a ip) (hne : ip ≠ [])
    (hr : NoDigitHead r) (hdot : r.head? ≠ some '.') : parseValue (a ++ r) = some (ip, none, r) := by
  unfold parseValue
  simp only [takeDigits_append a ip r ha hr]
  cases r with
  | nil => simp [hne]
  | cons c cs =>
    have : c ≠ '.' := by intro h; apply hdot; simp [h]
    simp [this, hne]

theorem parseValue_frac (a b : List Char) (ip f : List Nat) (r : List Char) (ha : DigitsOf a ip) (hb : DigitsOf b f)
    (hne : f ≠ []) (hr : NoDigitHead r) : parseValue (a ++ '.' :: (b ++ r)) = some (ip, some f, r) := by
  unfold parseValue
  have h1 : NoDigitHead ('.' :: (b ++ r)) := by
    intro c hc
    simp at hc
    subst hc
    exact digitVal_dot
  simp only [takeDigits_append a ip _ ha h1]
  simp [takeDigits_append b f r hb hr, hne]

/-- the declarative grammar: digits of any script, optionally `.` and digits, white space, a table key, a unit key -/
def Spells (s : List Char) (l : Lit) : Prop :=
  ∃ a b w : List Char,
    s = a ++ b ++ w ++ keyChars l.pre ++ unitChars l.unit ∧
    DigitsOf a l.ip ∧
    (match l.fp with
      | none => b = []
      | some f => ∃ b', b = '.' :: b' ∧ DigitsOf b' f) ∧
    w.length = l.ws ∧ ∀ c ∈ w, isSpace c = true

theorem parseValue_spec {s : List Char} {ip : List Nat} {fp : Option (List Nat)} {r : List Char}
    (h : parseValue s = some (ip, fp, r)) :
    ∃ a b, s = a ++ b ++ r ∧ DigitsOf a ip ∧
      (match fp with
        | none => b = [] ∧ ip ≠ []
        | some f => ∃ b', b = '.' :: b' ∧ DigitsOf b' f ∧ f ≠ []) := by
  obtain ⟨a, h1, h2, _⟩ := takeDigits_spec s
  unfold parseValue at h
  split at h
  · next c r' hr' =>
    split at h
    · next hc =>
      subst hc
      obtain ⟨b, g1, g2, _⟩ := takeDigits_spec r'
      split at h
      · simp at h
      · next hne =>
        simp at h
        obtain ⟨rfl, rfl, rfl⟩ := h
        refine ⟨a, '.' :: b, ?_, h2, b, rfl, g2, hne⟩
        rw [h1, hr']
        simp
        exact g1
    · split at h
      · simp at h
      · next hne =>
        simp at h
        obtain ⟨rfl, rfl, rfl⟩ := h
        refine ⟨a, [], ?_, h2, rfl, hne⟩
        rw [hr'] at h1
        simpa using h1
  · next hr' =>
    split at h
    · simp at h
    · next hne =>
      simp at h
      obtain ⟨rfl, rfl, rfl⟩ := h
      refine ⟨a, [], ?_, h2, rfl, hne⟩
      rw [hr'] at h1
      simpa using h1

theorem stripPrefix_eq_some {p s r : List Char} : stripPrefix p s = some r ↔ s = p ++ r := by
  induction p generalizing s with
  | nil => simp [stripPrefix, eq_comm]
  | cons c p ih =>
    cases s with
    | nil => simp [stripPrefix]
    | cons d s =>
      simp only [stripPrefix]
      split
      · next h => subst h; simp [ih]
      · next h =>
        simp
        intro h'
        exact absurd h'.symm h

theorem stripPrefix_self_append (p r : List Char) : stripPrefix p (p ++ r) = some r :=
  stripPrefix_eq_some.mpr rfl

def UnitOk : Option (Char × Nat × Nat) → Prop
  | none => True
  | some u => u ∈ Gen.sizeUnits

def PreOk : Option (List Char × Nat) → Prop
  | none => True
  | some p => p ∈ Gen.sizePrefixes

theorem matchUnitEnd_spec {r : List Char} {u : Option (Char × Nat × Nat)} (h : matchUnitEnd r = some u) :
    r = unitChars u ∧ UnitOk u := by
  match r, h with
  | [], h => simp [matchUnitEnd] at h; subst h; simp [unitChars, UnitOk]
  | [c], h =>
    simp only [matchUnitEnd] at h
    split at h
    · next u' hu' =>
      simp at h; subst h
      have h1 := List.find?_some hu'
      have h2 := List.mem_of_find?_eq_some hu'
      simp at h1
      simp [unitChars, UnitOk, h1, h2]
    · simp at h
  | _ :: _ :: _, h => simp [matchUnitEnd] at h

theorem matchTail_spec {s : List Char} {p : Option (List Char × Nat)} {u : Option (Char × Nat × Nat)}
    (h : matchTail s = some (p, u)) : s = keyChars p ++ unitChars u ∧ PreOk p ∧ UnitOk u := by
  unfold matchTail at h
  split at h
  · next x hx =>
    simp at h; subst h
    obtain ⟨row, hrow, hf⟩ := List.exists_of_findSome?_eq_some hx
    unfold tryPrefix at hf
    split at hf
    · next r hr =>
      cases hm : matchUnitEnd r with
      | none => simp [hm] at hf
      | some u' =>
        simp [hm] at hf
        obtain ⟨rfl, rfl⟩ := hf
        obtain ⟨h1, h2⟩ := matchUnitEnd_spec hm
        refine ⟨?_, hrow, h2⟩
        rw [stripPrefix_eq_some.mp hr, h1]
        rfl
    · simp at hf
  · cases hm : matchUnitEnd s with
    | none => simp [hm] at h
    | some u' =>
      simp [hm] at h
      obtain ⟨rfl, rfl⟩ := h
      obtain ⟨h1, h2⟩ := matchUnitEnd_spec hm
      exact ⟨by simpa [keyChars] using h1, trivial, h2⟩

theorem matchTail_complete {p : Option (List Char × Nat)} {u : Option (Char × Nat × Nat)} (hp : PreOk p) (hu : UnitOk u) :
    matchTail (keyChars p ++ unitChars u) = some (p, u) := by
  apply matchTail_table
  · cases p with
    | none => simp
    | some p => simp [PreOk] at hp; simp [hp]
  · cases u with
    | none => simp
    | some u => simp [UnitOk] at hu; simp [hu]

theorem isSpace_mem {c : Char} (h : isSpace c = true) : c.toNat ∈ Gen.spaceChars := by
  simpa [isSpace, isSpaceN] using h

theorem space_digitVal {c : Char} (h : isSpace c = true) : digitVal c = none :=
  space_not_digit _ (isSpace_mem h)

theorem space_ne_dot {c : Char} (h : isSpace c = true) : c ≠ '.' := by
  intro hc
  subst hc
  have := dot_not_space
  simp [isSpace, dot_toNat] at h
  simp [h] at this

theorem headOk_cons {c : Char} {cs : List Char} (h : headOk (c :: cs) = true) :
    digitVal c = none ∧ isSpace c = false ∧ c ≠ '.' := by
  simp [headOk] at h
  refine ⟨?_, ?_, ?_⟩
  · simpa [digitVal] using h.1.1
  · simpa [isSpace] using h.1.2
  · intro hc; subst hc; exact h.2 dot_toNat

theorem headOk_ne_nil {cs : List Char} (h : headOk cs = true) : ∃ c r, cs = c :: r := by
  cases cs with
  | nil => simp [headOk] at h
  | cons c r => exact ⟨c, r, rfl⟩

/-- a white-space character is never the beginning of the prefix/unit tail -/
theorem matchTail_space {c : Char} (r : List Char) (h : isSpace c = true) : matchTail (c :: r) = none := by
  unfold matchTail
  have h1 : Gen.sizePrefixes.findSome? (tryPrefix (c :: r)) = none := by
    apply List.findSome?_eq_none_iff.mpr
    intro p hp
    unfold tryPrefix
    obtain ⟨k, ks, hk⟩ := headOk_ne_nil (prefixes_headOk p hp)
    have hh := prefixes_headOk p hp
    rw [hk] at hh
    have := (headOk_cons hh).2.1
    have hne : k ≠ c := by intro e; subst e; simp [h] at this
    simp [hk, stripPrefix, hne]
  rw [h1]
  cases r with
  | nil =>
    simp only [matchUnitEnd]
    have : Gen.sizeUnits.find? (fun u => u.1 == c) = none := by
      apply List.find?_eq_none.mpr
      intro u hu
      have := (headOk_cons (units_headOk u hu)).2.1
      simp
      intro e; subst e; simp [h] at this
    simp [this]
  | cons d ds => simp [matchUnitEnd]

theorem matchWsTail_complete (w T : List Char) {p : Option (List Char × Nat)} {u : Option (Char × Nat × Nat)}
    (hw : ∀ c ∈ w, isSpace c = true) (hT : matchTail T = some (p, u)) :
    matchWsTail (w ++ T) = some (w.length, p, u) := by
  induction w with
  | nil =>
    cases T with
    | nil => simp [matchWsTail, hT]
    | cons c cs => simp [matchWsTail, hT]
  | cons c w ih =>
    have hc := hw c (by simp)
    have := ih (fun x hx => hw x (by simp [hx]))
    simp [matchWsTail, matchTail_space _ hc, hc, this]

theorem matchWsTail_spec {s : List Char} {n : Nat} {p : Option (List Char × Nat)} {u : Option (Char × Nat × Nat)}
    (h : matchWsTail s = some (n, p, u)) :
    ∃ w, s = w ++ keyChars p ++ unitChars u ∧ w.length = n ∧ (∀ c ∈ w, isSpace c = true) ∧ PreOk p ∧ UnitOk u := by
  induction s generalizing n with
  | nil =>
    simp only [matchWsTail] at h
    cases hm : matchTail [] with
    | none => simp [hm] at h
    | some x =>
      simp [hm] at h
      obtain ⟨rfl, h2, h3⟩ := h
      have hx : x = (p, u) := by cases x; simp_all
      subst hx
      obtain ⟨g1, g2, g3⟩ := matchTail_spec hm
      exact ⟨[], by simpa using g1, rfl, by simp, g2, g3⟩
  | cons c cs ih =>
    simp only [matchWsTail] at h
    cases hm : matchTail (c :: cs) with
    | some x =>
      simp [hm] at h
      obtain ⟨rfl, h2, h3⟩ := h
      have hx : x = (p, u) := by cases x; simp_all
      subst hx
      obtain ⟨g1, g2, g3⟩ := matchTail_spec hm
      exact ⟨[], by simpa using g1, rfl, by simp, g2, g3⟩
    | none =>
      simp only [hm] at h
      split at h
      · next hc =>
        cases hr : matchWsTail cs with
        | none => simp [hr] at h
        | some y =>
          obtain ⟨m, p', u'⟩ := y
          simp [hr] at h
          obtain ⟨rfl, rfl, rfl⟩ := h
          obtain ⟨w, g1, g2, g3, g4, g5⟩ := ih hr
          refine ⟨c :: w, ?_, by simp [g2], ?_, g4, g5⟩
          · rw [g1]; simp
          · intro x hx
            rcases List.mem_cons.mp hx with rfl | hx
            · exact hc
            · exact g3 x hx
      · simp at h

/-- what follows the value: white space, then a key, then a unit — never a digit, never the point -/
theorem tail_never_starts_with_digit (w : List Char) {p : Option (List Char × Nat)} {u : Option (Char × Nat × Nat)}
    (hw : ∀ c ∈ w, isSpace c = true) (hp : PreOk p) (hu : UnitOk u) :
    NoDigitHead (w ++ keyChars p ++ unitChars u) ∧ (w ++ keyChars p ++ unitChars u).head? ≠ some '.' := by
  have key : ∀ c, (w ++ keyChars p ++ unitChars u).head? = some c → digitVal c = none ∧ c ≠ '.' := by
    intro c hc
    cases w with
    | cons x w =>
      simp at hc; subst hc
      have := hw x (by simp)
      exact ⟨space_digitVal this, space_ne_dot this⟩
    | nil =>
      cases p with
      | some p =>
        simp [PreOk] at hp
        have hh := prefixes_headOk p hp
        obtain ⟨k, ks, hk⟩ := headOk_ne_nil hh
        rw [hk] at hh
        simp [keyChars, hk] at hc; subst hc
        exact ⟨(headOk_cons hh).1, (headOk_cons hh).2.2⟩
      | none =>
        cases u with
        | none => simp [keyChars, unitChars] at hc
        | some u =>
          simp [UnitOk] at hu
          have hh := units_headOk u hu
          simp [keyChars, unitChars] at hc; subst hc
          exact ⟨(headOk_cons hh).1, (headOk_cons hh).2.2⟩
  refine ⟨fun c hc => (key c hc).1, ?_⟩
  intro h
  exact (key _ h).2 rfl

theorem Lit.WF.preOk {l : Lit} (h : l.WF) : PreOk l.pre := by
  have := h.2.2.1
  cases hp : l.pre with
  | none => trivial
  | some p => simpa [hp, PreOk] using this

theorem Lit.WF.unitOk {l : Lit} (h : l.WF) : UnitOk l.unit := by
  have := h.2.2.2
  cases hu : l.unit with
  | none => trivial
  | some u => simpa [hu, UnitOk] using this

theorem parse_complete {s : List Char} {l : Lit} (hwf : l.WF) (hs : Spells s l) : parse s = some l := by
  obtain ⟨a, b, w, rfl, ha, hb, hlen, hw⟩ := hs
  obtain ⟨ip, fp, ws, pre, unit⟩ := l
  have hp : PreOk pre := hwf.preOk
  have hu : UnitOk unit := hwf.unitOk
  obtain ⟨t1, t2⟩ := tail_never_starts_with_digit w hw hp hu
  have hT := matchWsTail_complete w _ hw (matchTail_complete hp hu)
  simp only at ha hb hlen
  unfold parse
  cases fp with
  | none =>
    simp only at hb
    subst hb
    have hne : ip ≠ [] := hwf.2.1
    have := parseValue_int a ip _ ha hne t1 t2
    simp only [List.append_nil, List.append_assoc] at this hT ⊢
    rw [this]
    simp [hT, hlen]
  | some f =>
    simp only at hb
    obtain ⟨b', rfl, hb'⟩ := hb
    have hne : f ≠ [] := hwf.2.1.1
    have := parseValue_frac a b' ip f _ ha hb' hne t1
    simp only [List.append_assoc, List.cons_append] at this hT ⊢
    rw [this]
    simp [hT, hlen]

theorem parse_sound {s : List Char} {l : Lit} (h : parse s = some l) : l.WF ∧ Spells s l := by
  unfold parse at h
  split at h
  · simp at h
  · next ip fp r hv =>
    split at h
    · simp at h
    · next n p u ht =>
      simp at h; subst h
      obtain ⟨a, b, h1, h2, h3⟩ := parseValue_spec hv
      obtain ⟨w, g1, g2, g3, g4, g5⟩ := matchWsTail_spec ht
      constructor
      · refine ⟨h2.lt, ?_, ?_, ?_⟩
        · cases fp with
          | none => exact h3.2
          | some f =>
            obtain ⟨b', _, hb', hne⟩ := h3
            exact ⟨hne, hb'.lt⟩
        · cases p with
          | none => trivial
          | some p => simpa [PreOk] using g4
        · cases u with
          | none => trivial
          | some u => simpa [UnitOk] using g5
      · refine ⟨a, b, w, ?_, h2, ?_, g2, g3⟩
        · rw [h1, g1]; simp
        · cases fp with
          | none => exact h3.1
          | some f =>
            obtain ⟨b', e, hb', _⟩ := h3
            exact ⟨b', e, hb'⟩

theorem spells_render {l : Lit} (hwf : l.WF) : Spells (render l) l := by
  obtain ⟨ip, fp, ws, pre, unit⟩ := l
  refine ⟨ip.map digitChar, fracChars fp, List.replicate ws ' ', rfl, digitsOf_render ip hwf.1, ?_, by simp, ?_⟩
  · cases fp with
    | none => rfl
    | some f => exact ⟨f.map digitChar, rfl, digitsOf_render f hwf.2.1.2⟩
  · intro c hc
    simp at hc
    rw [hc.2]
    exact ascii_space

/-- no sign is ever part of a literal -/
theorem parse_nonDigit_head {c : Char} (cs : List Char) (h1 : digitVal c = none) (h2 : c ≠ '.') : parse (c :: cs) = none := by
  simp [parse, parseValue, takeDigits, h1, h2]

/-! ## 3. the value -/

theorem Dec.toNat_negExp (c n : Nat) : Dec.toNat ⟨c, -(n : Int)⟩ = c / 10 ^ n := by
  unfold Dec.toNat
  cases n with
  | zero => simp
  | succ n =>
    have : ¬ (0 : Int) ≤ -((n + 1 : Nat) : Int) := by omega
    simp only [this, if_false, Int.neg_neg, Int.toNat_natCast]

theorem Dec.mul_exact (prec c m : Nat) (e me : Int) (h : c * m < 10 ^ prec) :
    Dec.mul prec ⟨c, e⟩ ⟨m, me⟩ = ⟨c * m, e + me⟩ := by
  simp [Dec.mul, roundCtx, h]

theorem floor_natDiv (N D : Nat) (hD : 0 < D) : ((N / D : Nat) : Int) = ((N : Rat) / (D : Rat)).floor := by
  have hDr : (0 : Rat) < (D : Rat) := Rat.natCast_pos.mpr hD
  have h1 : ((N / D : Nat) : Int) ≤ ((N : Rat) / (D : Rat)).floor := by
    rw [Rat.le_floor_iff, ← Rat.not_lt, Rat.div_lt_iff hDr, Rat.intCast_natCast, ← Rat.natCast_mul, Rat.natCast_lt_natCast]
    have := Nat.div_mul_le_self N D
    omega
  have h2 : ((N : Rat) / (D : Rat)).floor < ((N / D : Nat) : Int) + 1 := by
    rw [Rat.floor_lt_iff, Rat.div_lt_iff hDr]
    have e : ((((N / D : Nat) : Int) + 1 : Int) : Rat) = (((N / D + 1 : Nat)) : Rat) := by
      rw [Rat.intCast_add, Rat.intCast_natCast, Rat.natCast_add]; rfl
    rw [e, ← Rat.natCast_mul, Rat.natCast_lt_natCast, Nat.add_mul, Nat.one_mul]
    have h3 := Nat.div_add_mod N D
    have h4 := Nat.mod_lt N hD
    rw [Nat.mul_comm] at h3
    omega
  omega

theorem Lit.WF.unitCoeff_pos {l : Lit} (h : l.WF) : 0 < l.unitCoeff := by
  have := h.unitOk
  unfold Lit.unitCoeff
  cases hu : l.unit with
  | none => simp
  | some u => rw [hu] at this; exact units_pos u this

theorem Lit.WF.mult_pos {l : Lit} (h : l.WF) : 0 < l.mult := by
  have := h.preOk
  unfold Lit.mult
  cases hp : l.pre with
  | none => simp
  | some p => rw [hp] at this; exact prefixes_pos p this

/-- under the guard the 28-digit arithmetic never rounds: the code's result is the exact floor -/
theorem bytesDec_eq_bytes {l : Lit} (hwf : l.WF) (g : exactGuard l) : bytesDec l = bytes l := by
  have hu := hwf.unitCoeff_pos
  obtain ⟨ip, fp, ws, pre, unit⟩ := l
  unfold exactGuard at g
  unfold bytesDec bytes decOfLit
  cases pre with
  | none =>
    cases unit with
    | none => simp [Lit.mult, Lit.unitCoeff, Lit.unitScale, Dec.toNat_negExp]
    | some u =>
      have g' : Lit.coeff ⟨ip, fp, ws, none, some u⟩ * u.2.1 < 10 ^ Gen.decimalPrec := by
        rcases g with ⟨_, h⟩ | h
        · simp at h
        · simpa [Lit.mult, Lit.unitCoeff] using h
      simp only [Dec.mul_exact _ _ _ _ _ g']
      have e : (-(Lit.scale ⟨ip, fp, ws, none, some u⟩ : Int) + -(u.2.2 : Int)) = -((Lit.scale ⟨ip, fp, ws, none, some u⟩ + u.2.2 : Nat) : Int) := by
        omega
      rw [e, Dec.toNat_negExp]
      simp [Lit.mult, Lit.unitCoeff, Lit.unitScale]
  | some p =>
    cases unit with
    | none =>
      have g' : Lit.coeff ⟨ip, fp, ws, some p, none⟩ * p.2 < 10 ^ Gen.decimalPrec := by
        rcases g with ⟨h, _⟩ | h
        · simp at h
        · simpa [Lit.mult, Lit.unitCoeff] using h
      simp only [Dec.mul_exact _ _ _ _ _ g']
      rw [Int.add_zero, Dec.toNat_negExp]
      simp [Lit.mult, Lit.unitCoeff, Lit.unitScale]
    | some u =>
      have g2 : Lit.coeff ⟨ip, fp, ws, some p, some u⟩ * p.2 * u.2.1 < 10 ^ Gen.decimalPrec := by
        rcases g with ⟨h, _⟩ | h
        · simp at h
        · simpa [Lit.mult, Lit.unitCoeff] using h
      have hu' : 0 < u.2.1 := by simpa [Lit.unitCoeff] using hu
      have g1 : Lit.coeff ⟨ip, fp, ws, some p, some u⟩ * p.2 < 10 ^ Gen.decimalPrec :=
        Nat.lt_of_le_of_lt (Nat.le_mul_of_pos_right _ hu') g2
      simp only [Dec.mul_exact _ _ _ _ _ g1, Dec.mul_exact _ _ _ _ _ g2]
      have e : (-(Lit.scale ⟨ip, fp, ws, some p, some u⟩ : Int) + 0 + -(u.2.2 : Int)) = -((Lit.scale ⟨ip, fp, ws, some p, some u⟩ + u.2.2 : Nat) : Int) := by
        omega
      rw [e, Dec.toNat_negExp]
      simp [Lit.mult, Lit.unitCoeff, Lit.unitScale]

theorem ratValue_eq (l : Lit) :
    ratValue l = ((l.coeff * l.mult * l.unitCoeff : Nat) : Rat) / ((10 ^ (l.scale + l.unitScale) : Nat) : Rat) := by
  unfold ratValue
  rw [Nat.pow_add]
  simp only [Rat.natCast_mul]
  grind

/-- `bytes` is the floor of the exact rational value -/
theorem bytes_floor (l : Lit) : ((bytes l : Nat) : Int) = (ratValue l).floor := by
  rw [ratValue_eq]
  exact floor_natDiv _ _ (Nat.pow_pos (by decide))

theorem bytes_mono {l1 l2 : Lit} (h : ratValue l1 ≤ ratValue l2) : bytes l1 ≤ bytes l2 := by
  have := Rat.floor_monotone h
  rw [← bytes_floor, ← bytes_floor] at this
  omega

/-! ## 4. the digit count -/

theorem ndigitsAux_spec (f n : Nat) (hf : n < 2 ^ f) (hn : n ≠ 0) :
    10 ^ (ndigitsAux f n - 1) ≤ n ∧ n < 10 ^ (ndigitsAux f n) := by
  induction f generalizing n with
  | zero => simp at hf; omega
  | succ f ih =>
    simp only [ndigitsAux, hn, if_false]
    by_cases h10 : n / 10 = 0
    · have : n < 10 := by omega
      cases f with
      | zero => simp [ndigitsAux]; omega
      | succ f => simp [ndigitsAux, h10]; omega
    · have hlt : n / 10 < 2 ^ f := by
        have : 2 ^ (f + 1) = 2 * 2 ^ f := by rw [Nat.pow_succ, Nat.mul_comm]
        omega
      obtain ⟨h1, h2⟩ := ih (n / 10) hlt h10
      have hpos : 1 ≤ ndigitsAux f (n / 10) := by
        cases f with
        | zero => have : n / 10 < 1 := by simpa using hlt
                  omega
        | succ f => simp only [ndigitsAux, h10, if_false]; omega
      constructor
      · have : 1 + ndigitsAux f (n / 10) - 1 = (ndigitsAux f (n / 10) - 1) + 1 := by omega
        rw [this, Nat.pow_succ]
        omega
      · rw [Nat.add_comm, Nat.pow_succ]
        omega

/-- the fuel `log2 n + 1` is enough: `ndigits n` is the number of decimal digits of `n` -/
theorem ndigits_spec (n : Nat) (hn : n ≠ 0) : 10 ^ (ndigits n - 1) ≤ n ∧ n < 10 ^ ndigits n :=
  ndigitsAux_spec _ n Nat.lt_log2_self hn

/-! ## 5. piece size -/

theorem evalPiece_expected (limit conc : Nat) :
    evalPiece expectedPiece limit conc =
      if conc * 16 = 0 then .error .zeroDivision else .ok (max (limit / (conc * 16)) 1) := by
  unfold evalPiece expectedPiece
  by_cases h : conc * 16 = 0
  · simp [List.foldl, stepPiece, h]
  · simp [List.foldl, stepPiece, h]

end Replicat.SizeLit
