import ReplicatProofs.Lemmas.Slice
/-! Helper lemmas for the stream layout, the `_chunk_done` loop and the record table (C01). -/
namespace Replicat
open List

/-! ## bridge lemmas: what the generated guards of `_chunk_done` say -/
theorem Gen.bisectKey_eq (cs ce : Nat) : Gen.bisectKey cs ce = ce + 1 := rfl
theorem Gen.stopScan_eq (fs fe cs ce : Nat) : Gen.stopScan fs fe cs ce = decide (fe < cs) := rfl
theorem Gen.partStart_eq (fs fe cs ce : Nat) : Gen.partStart fs fe cs ce = fs - cs := rfl
theorem Gen.partEnd_eq (fs fe cs ce : Nat) : Gen.partEnd fs fe cs ce = min fe ce - cs := rfl
theorem Gen.writeTruncate_eq (e o d : Nat) : Gen.writeTruncate e o d = max e (o + d) := rfl
theorem Gen.padding_lt (n a : Nat) (ha : 0 < a) : Gen.padding n a < a := by
  unfold Gen.padding; exact Nat.mod_lt _ ha

/-! ## takeWhile on lists where the predicate is prefix-closed -/
theorem takeWhile_eq_filter_of_prefixClosed {α : Type} (p : α → Bool) (l : List α)
    (h : l.Pairwise (fun a b => p b = true → p a = true)) : l.takeWhile p = l.filter p := by
  induction l with
  | nil => rfl
  | cons a l ih =>
    rw [pairwise_cons] at h
    by_cases hp : p a = true
    · rw [takeWhile_cons_of_pos hp, filter_cons_of_pos hp, ih h.2]
    · rw [takeWhile_cons_of_neg hp, filter_cons_of_neg hp]
      symm
      rw [filter_eq_nil_iff]
      intro x hx hpx
      exact hp (h.1 x hx hpx)

/-! ## layout facts -/
def SpansSorted (l : List Span) : Prop :=
  l.Pairwise (fun a b => a.2 ≤ b.1) ∧ ∀ a ∈ l, a.1 ≤ a.2

theorem layoutFrom_lower (align off : Nat) (sizes : List Nat) : ∀ a ∈ layoutFrom align off sizes, off ≤ a.1 ∧ a.1 ≤ a.2 := by
  induction sizes generalizing off with
  | nil => simp [layoutFrom]
  | cons n rest ih =>
    intro a ha
    simp only [layoutFrom, mem_cons] at ha
    rcases ha with rfl | ha
    · simp
    · have := ih _ a ha; omega

theorem layoutFrom_sorted (align off : Nat) (sizes : List Nat) : SpansSorted (layoutFrom align off sizes) := by
  induction sizes generalizing off with
  | nil => simp [layoutFrom, SpansSorted]
  | cons n rest ih =>
    obtain ⟨h1, h2⟩ := ih (off + n + Gen.padding n align)
    refine ⟨?_, ?_⟩
    · simp only [layoutFrom]
      rw [pairwise_cons]
      refine ⟨?_, h1⟩
      intro b hb
      have := layoutFrom_lower _ _ _ b hb
      simp only; omega
    · intro a ha
      simp only [layoutFrom, mem_cons] at ha
      rcases ha with rfl | ha
      · simp
      · exact h2 a ha

theorem layoutFrom_length (align off : Nat) (sizes : List Nat) : (layoutFrom align off sizes).length = sizes.length := by
  induction sizes generalizing off with
  | nil => rfl
  | cons n rest ih => simp [layoutFrom, ih]

/-- the stream of the files from offset `off` on, given the padding that precedes it is already accounted for -/
theorem streamOf_slice (align : Nat) (files : List Bytes) (i : Nat) (f : Span) (pre : Bytes)
    (hf : (layoutFrom align pre.length (files.map List.length))[i]? = some f) :
    ∃ b, files[i]? = some b ∧ slice (pre ++ streamOf align files) f.1 f.2 = b ∧
      f.2 ≤ (pre ++ streamOf align files).length := by
  induction files generalizing i pre with
  | nil => simp [layoutFrom] at hf
  | cons b rest ih =>
    cases i with
    | zero =>
      simp only [map_cons, layoutFrom, getElem?_cons_zero, Option.some.injEq] at hf
      subst hf
      refine ⟨b, rfl, ?_, ?_⟩
      · cases rest with
        | nil => simp [streamOf, slice]
        | cons g rest' =>
          simp only [streamOf, slice]
          rw [drop_append_of_le_length (by simp), drop_length, nil_append]
          simp
      · cases rest with
        | nil => simp [streamOf]
        | cons g rest' => simp [streamOf]
    | succ i =>
      simp only [map_cons, layoutFrom, getElem?_cons_succ] at hf
      cases rest with
      | nil => simp [layoutFrom] at hf
      | cons g rest' =>
        have key : pre.length + b.length + Gen.padding b.length align
            = (pre ++ b ++ List.replicate (Gen.padding b.length align) (0 : UInt8)).length := by simp [Nat.add_assoc]
        rw [key] at hf
        obtain ⟨b', hb', hs, hl⟩ := ih i (pre ++ b ++ List.replicate (Gen.padding b.length align) 0) hf
        refine ⟨b', by simpa using hb', ?_, ?_⟩
        · simpa [streamOf, append_assoc] using hs
        · simpa [streamOf, append_assoc] using hl

/-! ## the `_chunk_done` loop visits exactly the overlapping files -/
theorem take_bisect (l : List Span) (k n : Nat) :
    (l.zipIdx n).take (l.takeWhile (fun f => f.1 < k)).length = (l.zipIdx n).takeWhile (fun fi => fi.1.1 < k) := by
  induction l generalizing n with
  | nil => rfl
  | cons a l ih =>
    by_cases h : a.1 < k
    · simp [h, ih]
    · simp [h]

theorem zipIdx_pairwise_starts {l : List Span} (n : Nat) (h : l.Pairwise (fun a b => a.1 ≤ b.1)) :
    (l.zipIdx n).Pairwise (fun a b => a.1.1 ≤ b.1.1) := by
  induction l generalizing n with
  | nil => simp
  | cons a l ih =>
    rw [pairwise_cons] at h
    simp only [zipIdx_cons, pairwise_cons]
    refine ⟨?_, ih _ h.2⟩
    intro b hb
    have := mem_zipIdx hb
    exact h.1 _ (by rw [this.2.2]; exact getElem_mem _)

theorem zipIdx_pairwise_ends {l : List Span} (n : Nat) (h : l.Pairwise (fun a b => a.2 ≤ b.2)) :
    (l.zipIdx n).Pairwise (fun a b => a.1.2 ≤ b.1.2) := by
  induction l generalizing n with
  | nil => simp
  | cons a l ih =>
    rw [pairwise_cons] at h
    simp only [zipIdx_cons, pairwise_cons]
    refine ⟨?_, ih _ h.2⟩
    intro b hb
    have := mem_zipIdx hb
    exact h.1 _ (by rw [this.2.2]; exact getElem_mem _)

theorem SpansSorted.starts {l : List Span} (h : SpansSorted l) : l.Pairwise (fun a b => a.1 ≤ b.1) :=
  h.1.imp_of_mem (fun {a b} ha _ hab => Nat.le_trans (h.2 a ha) hab)

theorem SpansSorted.ends {l : List Span} (h : SpansSorted l) : l.Pairwise (fun a b => a.2 ≤ b.2) :=
  h.1.imp_of_mem (fun {a b} _ hb hab => Nat.le_trans hab (h.2 b hb))

/-- on a sorted layout the bisect + backwards scan with early exit equals a plain filter (in reverse order) -/
theorem visited_eq_filter (files : List Span) (hs : SpansSorted files) (cs ce : Nat) :
    visited files cs ce = ((files.zipIdx).filter (fun fi => decide (fi.1.1 < ce + 1) && decide (cs ≤ fi.1.2))).reverse := by
  unfold visited bisectPoint
  rw [Gen.bisectKey_eq, take_bisect]
  have hA := zipIdx_pairwise_starts 0 hs.starts
  have hB := zipIdx_pairwise_ends 0 hs.ends
  rw [takeWhile_eq_filter_of_prefixClosed (fun fi : Span × Nat => decide (fi.1.1 < ce + 1))]
  · rw [takeWhile_eq_filter_of_prefixClosed]
    · rw [filter_reverse, filter_filter]
      congr 1
      apply filter_congr
      intro x _
      simp only [Gen.stopScan_eq]
      by_cases h1 : x.1.1 < ce + 1 <;> by_cases h2 : cs ≤ x.1.2 <;> simp [h1, h2] <;> omega
    · rw [pairwise_reverse]
      refine (hB.sublist filter_sublist).imp ?_
      intro a b hab
      simp only [Gen.stopScan_eq, Bool.not_eq_true', decide_eq_false_iff_not, Nat.not_lt]
      omega
  · refine hA.imp ?_
    intro a b hab
    simp only [decide_eq_true_eq]
    omega

/-- filtering an indexed list for one index -/
theorem filterMap_zipIdx_index {α β : Type} (l : List α) (n i : Nat) (G : α → Option β) :
    (l.zipIdx n).filterMap (fun fi => if fi.2 = i then G fi.1 else none)
      = if n ≤ i then (match l[i - n]? with | some a => (G a).toList | none => []) else [] := by
  induction l generalizing n with
  | nil => simp
  | cons a l ih =>
    simp only [zipIdx_cons, filterMap_cons]
    by_cases h : n = i
    · subst h
      simp only [if_true, Nat.le_refl, Nat.sub_self, getElem?_cons_zero]
      rw [ih (n + 1)]
      simp only [show ¬ (n + 1 ≤ n) by omega, if_false]
      cases G a <;> simp
    · simp only [h, if_false]
      rw [ih (n + 1)]
      by_cases h2 : n ≤ i
      · have : n + 1 ≤ i := by omega
        simp only [this, h2, if_true]
        have : i - n = (i - (n + 1)) + 1 := by omega
        rw [this, getElem?_cons_succ]
      · have : ¬ (n + 1 ≤ i) := by omega
        simp [this, h2]

/-- what chunk `j` with span `c` contributes to the references of file number `i` -/
def contrib (files : List Span) (i j : Nat) (c : Span) : List Ref :=
  match files[i]? with
  | some f => if f.1 < c.2 + 1 ∧ c.1 ≤ f.2 then [refOf f j c] else []
  | none => []

theorem chunkDone_contrib (files : List Span) (hs : SpansSorted files) (i j : Nat) (c : Span) :
    (chunkDone files j c).filterMap (fun ir => if ir.1 = i then some ir.2 else none) = contrib files i j c := by
  unfold chunkDone contrib
  rw [visited_eq_filter files hs, map_reverse, filterMap_reverse, filterMap_map, filterMap_filter]
  have : (fun fi : Span × Nat => if (decide (fi.1.1 < c.2 + 1) && decide (c.1 ≤ fi.1.2)) = true then
        ((fun ir : Nat × Ref => if ir.1 = i then some ir.2 else none) ∘ fun fi : Span × Nat => (fi.2, refOf fi.1 j c)) fi else none)
      = (fun fi : Span × Nat => if fi.2 = i then
          (fun f : Span => if f.1 < c.2 + 1 ∧ c.1 ≤ f.2 then some (refOf f j c) else none) fi.1 else none) := by
    funext fi
    by_cases h1 : fi.2 = i <;> by_cases h2 : fi.1.1 < c.2 + 1 <;> by_cases h3 : c.1 ≤ fi.1.2 <;> simp [h1, h2, h3]
  rw [this, filterMap_zipIdx_index files 0 i (fun f : Span => if f.1 < c.2 + 1 ∧ c.1 ≤ f.2 then some (refOf f j c) else none)]
  simp only [Nat.zero_le, if_true, Nat.sub_zero]
  cases files[i]? with
  | none => simp
  | some f => by_cases h : f.1 < c.2 + 1 ∧ c.1 ≤ f.2 <;> simp [h]

/-! ## the record table (dict keyed by path) -/
def refsOfIn (recs : Records) (i : Nat) : List Ref := (lookupRec recs i).getD []

theorem lookupRec_addRef (recs : Records) (k i : Nat) (r : Ref) :
    refsOfIn (addRef recs k r) i = if k = i then refsOfIn recs i ++ [r] else refsOfIn recs i := by
  unfold refsOfIn lookupRec addRef
  by_cases hany : recs.any (fun e => e.1 == k) = true
  · simp only [hany, if_true]
    induction recs with
    | nil => simp at hany
    | cons e recs ih =>
      simp only [map_cons, find?_cons]
      by_cases hek : e.1 = k
      · subst hek
        by_cases hei : e.1 = i
        · simp [hei]
        · have : (e.1 == i) = false := by simp [hei]
          simp only [beq_self_eq_true, if_true, this, hei, if_false]
          by_cases hany' : recs.any (fun x => x.1 == e.1) = true
          · have := ih hany'
            simpa [hei] using this
          · -- no further entry with key e.1: the map is the identity on the rest
            have hid : recs.map (fun x => if (x.1 == e.1) = true then (x.1, x.2 ++ [r]) else x) = recs := by
              conv => rhs; rw [← List.map_id recs]
              apply map_congr_left
              intro x hx
              have : (x.1 == e.1) = false := by
                simp only [any_eq_true, not_exists, not_and] at hany'
                cases hb : (x.1 == e.1)
                · rfl
                · exact absurd hb (hany' x hx)
              simp [this]
            rw [hid]
      · have hek' : (e.1 == k) = false := by simp [hek]
        have hany' : recs.any (fun x => x.1 == k) = true := by
          simpa [any_cons, hek'] using hany
        simp only [hek', if_false, Bool.false_eq_true]
        by_cases hei : e.1 = i
        · have hki : ¬ k = i := by omega
          simp [hei, hki]
        · have : (e.1 == i) = false := by simp [hei]
          simp only [this]
          exact ih hany'
  · simp only [hany, if_false, Bool.false_eq_true]
    rw [find?_append]
    by_cases hki : k = i
    · subst hki
      have : recs.find? (fun e => e.1 == k) = none := by
        rw [find?_eq_none]
        intro x hx hxk
        exact hany (any_eq_true.mpr ⟨x, hx, hxk⟩)
      simp [this]
    · have : ((k, [r]) :: ([] : Records)).find? (fun e => e.1 == i) = none := by simp [hki]
      cases h : recs.find? (fun e => e.1 == i) <;> simp [h, hki]

theorem refsOfIn_foldl_addRef (recs : Records) (l : List (Nat × Ref)) (i : Nat) :
    refsOfIn (l.foldl (fun rs ir => addRef rs ir.1 ir.2) recs) i
      = refsOfIn recs i ++ l.filterMap (fun ir => if ir.1 = i then some ir.2 else none) := by
  induction l generalizing recs with
  | nil => simp
  | cons ir l ih =>
    simp only [foldl_cons, filterMap_cons]
    rw [ih, lookupRec_addRef]
    by_cases h : ir.1 = i <;> simp [h]

/-- contribution of chunk `j` (by position in `spans`) to file `i` -/
def contribAt (files spans : List Span) (i j : Nat) : List Ref :=
  match spans[j]? with
  | none => []
  | some c => contrib files i j c

theorem refsOfIn_records (files spans : List Span) (hs : SpansSorted files) (order : List Nat) (i : Nat) (recs : Records) :
    refsOfIn (order.foldl (applyDone files spans) recs) i = refsOfIn recs i ++ order.flatMap (contribAt files spans i) := by
  induction order generalizing recs with
  | nil => simp
  | cons j order ih =>
    simp only [foldl_cons, flatMap_cons]
    rw [ih]
    unfold applyDone contribAt
    cases hj : spans[j]? with
    | none => simp
    | some c =>
      simp only
      rw [refsOfIn_foldl_addRef, chunkDone_contrib files hs, append_assoc]

theorem fileRefs_eq_flatMap (files : List Span) (i : Nat) (f : Span) (hf : files[i]? = some f) (j0 : Nat) (cs : List Span) :
    fileRefs f j0 cs = (cs.zipIdx j0).flatMap (fun cj => contrib files i cj.2 cj.1) := by
  induction cs generalizing j0 with
  | nil => simp [fileRefs]
  | cons c cs ih =>
    simp only [fileRefs, zipIdx_cons, flatMap_cons]
    rw [ih]
    unfold contrib
    simp only [hf, Gen.bisectKey_eq, Gen.stopScan_eq, Bool.not_eq_true', decide_eq_false_iff_not, Nat.not_lt]
    by_cases h : f.1 < c.2 + 1 ∧ c.1 ≤ f.2 <;> simp [h]

theorem range_flatMap_contribAt (files spans : List Span) (i : Nat) :
    (List.range spans.length).flatMap (contribAt files spans i) = (spans.zipIdx 0).flatMap (fun cj => contrib files i cj.2 cj.1) := by
  have key : ∀ (l : List Span) (pre : List Span),
      ((List.range l.length).map (· + pre.length)).flatMap (contribAt files (pre ++ l) i)
        = (l.zipIdx pre.length).flatMap (fun cj => contrib files i cj.2 cj.1) := by
    intro l
    induction l with
    | nil => intro pre; simp
    | cons c l ih =>
      intro pre
      have := ih (pre ++ [c])
      simp only [length_append, length_cons, length_nil, append_assoc, cons_append, nil_append] at this
      rw [length_cons, range_succ_eq_map, map_cons, flatMap_cons, zipIdx_cons, flatMap_cons]
      congr 1
      · simp [contribAt]
      · rw [← this, map_map]
        congr 2
        funext x; simp; omega
  simpa using key spans []

end Replicat
