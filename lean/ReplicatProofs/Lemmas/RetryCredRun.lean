import ReplicatProofs.Lemmas.RetryCred
/-!
Helper lemmas for C12, sessions on one long-lived B2 object: one operation (`runOp`), a whole history (`runSession`), and the loop
of a client that keeps its upload credentials on the object.
-/
set_option linter.unusedSimpArgs false
set_option linter.unusedVariables false
namespace Replicat.Cred
open Replicat Replicat.Retry

/-- the operation is one the abstract store has an answer for: a `download` names an object that is there (B2's answer to a
`download` of a missing name is the 404 of defect D9) -/
def Present (st : Store) : Op → Prop
  | .download n => (st n).isSome = true
  | _ => True

/-- one operation without an event inside it, on an object in ANY state the service and the client can be in -/
theorem runOp_spec (c : Cfg) (hc : Sound c) (f : Nat) (o : Op) (s : Sess) (hw : WF s) (hp : Present s.store o) :
    (runOp c (f + 2) o none s).1.out = .ok (specVal (specStore s.store o) o) ∧
    (runOp c (f + 2) o none s).2.store = specStore s.store o ∧
    (runOp c (f + 2) o none s).1.requests ≤ 5 ∧ (runOp c (f + 2) o none s).1.auths ≤ 1 ∧ (runOp c (f + 2) o none s).1.sleeps = 0 ∧
    WF (runOp c (f + 2) o none s).2 ∧ Quiet (runOp c (f + 2) o none s).2 ∧ (runOp c (f + 2) o none s).2.acctOk = true := by
  have hw0 : WF { s with pending := none, log := [] } := hw
  have hq0 : Quiet { s with pending := none, log := [] } := rfl
  cases o with
  | upload n d =>
    obtain ⟨s', e, g, hv, hst⟩ := uploadOp_spec c hc f n d { s with pending := none, log := [] } hw0 hq0
    have hq' : s'.pending = none := g.pres.quiet
    have hr := g.req
    have ha := g.auths_le
    have hs := g.pres.sleeps
    have e1 : runOp c (f + 2) (.upload n d) none s =
        (⟨(R.ok ()).map (fun _ => specVal s'.store (.upload n d)), s'.requests - s.requests, s'.auths - s.auths, s'.sleeps - s.sleeps,
          s'.log.reverse⟩, s') := by
      simp only [runOp, e, hq']
    rw [e1]
    refine ⟨rfl, hst, ?_, ?_, ?_, g.pres.wf, g.pres.quiet, hv⟩
    · show s'.requests - s.requests ≤ 5
      have : s'.requests ≤ s.requests + 5 := hr
      omega
    · show s'.auths - s.auths ≤ 1
      have : s'.auths ≤ s.auths + 1 := ha
      omega
    · show s'.sleeps - s.sleeps = 0
      have : s'.sleeps = s.sleeps := hs
      omega
  | download n =>
    have hm : (s.store n).isNone = false := by
      have : (s.store n).isSome = true := hp
      cases h : s.store n <;> simp_all
    obtain ⟨s', e, g, hv, hst⟩ := acctOp_spec c hc f .download id { s with pending := none, log := [] } hw0 hq0
    have hq' : s'.pending = none := g.pres.quiet
    have hr := g.req
    have ha := g.auths_le
    have hs := g.pres.sleeps
    have e1 : runOp c (f + 2) (.download n) none s =
        (⟨(R.ok ()).map (fun _ => specVal s'.store (.download n)), s'.requests - s.requests, s'.auths - s.auths, s'.sleeps - s.sleeps,
          s'.log.reverse⟩, s') := by
      simp only [runOp, hm, e, hq']
    rw [e1]
    have hst' : s'.store = s.store := hst
    refine ⟨by show R.ok (specVal s'.store _) = _; rw [hst']; rfl, hst', ?_, ?_, ?_, g.pres.wf, g.pres.quiet, hv⟩
    · show s'.requests - s.requests ≤ 5
      have : s'.requests ≤ s.requests + 4 := hr
      omega
    · show s'.auths - s.auths ≤ 1
      have : s'.auths ≤ s.auths + 1 := ha
      omega
    · show s'.sleeps - s.sleeps = 0
      have : s'.sleeps = s.sleeps := hs
      omega
  | «exists» n =>
    obtain ⟨s', e, g, hv, hst⟩ := acctOp_spec c hc f .head id { s with pending := none, log := [] } hw0 hq0
    have hq' : s'.pending = none := g.pres.quiet
    have hr := g.req
    have ha := g.auths_le
    have hs := g.pres.sleeps
    have e1 : runOp c (f + 2) (.exists n) none s =
        (⟨(R.ok ()).map (fun _ => specVal s'.store (.exists n)), s'.requests - s.requests, s'.auths - s.auths, s'.sleeps - s.sleeps,
          s'.log.reverse⟩, s') := by
      simp only [runOp, e, hq']
    rw [e1]
    have hst' : s'.store = s.store := hst
    refine ⟨by show R.ok (specVal s'.store _) = _; rw [hst']; rfl, hst', ?_, ?_, ?_, g.pres.wf, g.pres.quiet, hv⟩
    · show s'.requests - s.requests ≤ 5
      have : s'.requests ≤ s.requests + 4 := hr
      omega
    · show s'.auths - s.auths ≤ 1
      have : s'.auths ≤ s.auths + 1 := ha
      omega
    · show s'.sleeps - s.sleeps = 0
      have : s'.sleeps = s.sleeps := hs
      omega
  | delete n =>
    obtain ⟨s', e, g, hv, hst⟩ := acctOp_spec c hc f .hide (fun st m => if m = n then none else st m) { s with pending := none, log := [] } hw0 hq0
    have hq' : s'.pending = none := g.pres.quiet
    have hr := g.req
    have ha := g.auths_le
    have hs := g.pres.sleeps
    have e1 : runOp c (f + 2) (.delete n) none s =
        (⟨(R.ok ()).map (fun _ => specVal s'.store (.delete n)), s'.requests - s.requests, s'.auths - s.auths, s'.sleeps - s.sleeps,
          s'.log.reverse⟩, s') := by
      simp only [runOp, e, hq']
    rw [e1]
    have hst' : s'.store = specStore s.store (.delete n) := hst
    refine ⟨rfl, hst', ?_, ?_, ?_, g.pres.wf, g.pres.quiet, hv⟩
    · show s'.requests - s.requests ≤ 5
      have : s'.requests ≤ s.requests + 4 := hr
      omega
    · show s'.auths - s.auths ≤ 1
      have : s'.auths ≤ s.auths + 1 := ha
      omega
    · show s'.sleeps - s.sleeps = 0
      have : s'.sleeps = s.sleeps := hs
      omega
  | list b =>
    obtain ⟨s', e, g, hv, hst⟩ := acctOp_spec c hc f .listNames id { s with pending := none, log := [] } hw0 hq0
    have hq' : s'.pending = none := g.pres.quiet
    have hr := g.req
    have ha := g.auths_le
    have hs := g.pres.sleeps
    have e1 : runOp c (f + 2) (.list b) none s =
        (⟨(R.ok ()).map (fun _ => specVal s'.store (.list b)), s'.requests - s.requests, s'.auths - s.auths, s'.sleeps - s.sleeps,
          s'.log.reverse⟩, s') := by
      simp only [runOp, e, hq']
    rw [e1]
    have hst' : s'.store = s.store := hst
    refine ⟨by show R.ok (specVal s'.store _) = _; rw [hst']; rfl, hst', ?_, ?_, ?_, g.pres.wf, g.pres.quiet, hv⟩
    · show s'.requests - s.requests ≤ 5
      have : s'.requests ≤ s.requests + 4 := hr
      omega
    · show s'.auths - s.auths ≤ 1
      have : s'.auths ≤ s.auths + 1 := ha
      omega
    · show s'.sleeps - s.sleeps = 0
      have : s'.sleeps = s.sleeps := hs
      omega

/-! ## whole histories -/

/-- histories the abstract store speaks about: credential events anywhere BETWEEN operations, no event scheduled inside one,
downloads of names that are there -/
def StepsOk : Store → List Step → Prop
  | _, [] => True
  | st, .ev _ :: rest => StepsOk st rest
  | st, .op o mid :: rest => mid = none ∧ Present st o ∧ StepsOk (specStore st o) rest

theorem wf_apply (s : Sess) (e : Ev) (hw : WF s) : WF (s.apply e) := by
  obtain ⟨h1, h2, h3⟩ := hw
  cases e
  · exact ⟨Nat.le_refl _, h2, h3⟩
  · exact ⟨h1, Nat.le_refl _, h3⟩
  · exact ⟨Nat.le_refl _, Nat.le_refl _, h3⟩
  · exact ⟨h1, h2, Nat.le_refl _⟩

theorem store_apply (s : Sess) (e : Ev) : (s.apply e).store = s.store := by cases e <;> rfl

theorem runSession_spec (c : Cfg) (hc : Sound c) (f : Nat) :
    ∀ (steps : List Step) (s : Sess), WF s → StepsOk s.store steps →
      (runSession c (f + 2) steps s).map (·.out) = (specSession steps s.store).map R.ok ∧
      ∀ r ∈ runSession c (f + 2) steps s, r.requests ≤ 5 ∧ r.auths ≤ 1 ∧ r.sleeps = 0 := by
  intro steps
  induction steps with
  | nil => intro s _ _; exact ⟨rfl, fun r hr => by cases hr⟩
  | cons x rest ih =>
    intro s hw hok
    cases x with
    | ev e =>
      have := ih (s.apply e) (wf_apply s e hw) (by rw [store_apply]; exact hok)
      simp only [runSession, specSession]
      rw [store_apply] at this
      exact this
    | op o mid =>
      obtain ⟨hm, hp, hrest⟩ := hok
      subst hm
      obtain ⟨h1, h2, h3, h4, h5, h6, _, _⟩ := runOp_spec c hc f o s hw hp
      have := ih (runOp c (f + 2) o none s).2 h6 (by rw [h2]; exact hrest)
      rw [h2] at this
      simp only [runSession, specSession, h1, List.map_cons]
      refine ⟨by rw [this.1], ?_⟩
      intro r hr
      simp only [List.mem_cons] at hr
      rcases hr with rfl | hr
      · exact ⟨h3, h4, h5⟩
      · exact this.2 r hr

/-! ## a client that keeps its upload credentials on the object -/

/-- Upload credentials kept on the object (`credsFresh = false`) that the service no longer accepts: every attempt presents them
again, is answered 401, re-authenticates — which renews the ACCOUNT token only — and starts over.  The fuel is the only thing that
stops the model: `fuel` attempts, `fuel` authorisations, nothing stored. -/
theorem stale_loop (c : Cfg) (hfresh : c.credsFresh = false) (h401 : c.e401 = .auth) (hpol : ∀ rounds, c.pol .auth 1 rounds = .reauth false)
    (n : Nat) (d : Bytes) (u F : Nat) :
    ∀ (fuel rounds : Nat) (s : Sess), Quiet s → s.authed = true → s.upCred = some u → u < s.upLive →
      ∃ s', call c.pol (upAtt c (F + 1) n d) fuel 1 rounds s = (.fuel, s') ∧ s'.store = s.store ∧ s'.auths = s.auths + fuel ∧
        s'.requests = s.requests + 2 * fuel := by
  intro fuel
  induction fuel with
  | zero => intro rounds s _ _ _ _; exact ⟨s, rfl, rfl, rfl, rfl⟩
  | succ fuel ih =>
    intro rounds s hq hau hu hx
    have he : s.ensureAuth = s := by simp [Sess.ensureAuth, hau]
    have hg : getCreds c (F + 1) s = (.ok u, s) := by
      rw [getCreds_eq, he]
      exact call_ok _ _ _ _ _ _ _ _ (by simp [gcAtt, hfresh, hu])
    have hl : u < (s.tick .uploadFile).upLive := by rw [tick_quiet s _ hq]; exact hx
    have ha : upAtt c (F + 1) n d s = (.err .auth, s.tick .uploadFile) := by
      simp only [upAtt, hg, hl, if_true, h401]
    rw [call_reauth c.pol _ fuel 1 rounds s _ .auth ha (hpol rounds)]
    have hq2 : Quiet (s.tick .uploadFile) := by rw [tick_quiet s _ hq]; exact hq
    have hq3 : Quiet (s.tick .uploadFile).authenticate := by rw [auth_quiet _ hq2]; exact hq2
    obtain ⟨s', e, h1, h2, h3⟩ := ih (rounds + 1) (s.tick .uploadFile).authenticate hq3 (auth_authed _)
      (by rw [auth_quiet _ hq2, tick_quiet s _ hq]; exact hu) (by rw [auth_quiet _ hq2, tick_quiet s _ hq]; exact hx)
    refine ⟨s', e, ?_, ?_, ?_⟩
    · rw [h1, auth_store _ hq2, tick_store s _ hq]
    · rw [h2, auth_auths _ hq2, tick_auths s _ hq]; omega
    · rw [h3, auth_requests _ hq2, tick_requests s _ hq]; omega

theorem stale_upload (c : Cfg) (hfresh : c.credsFresh = false) (h401 : c.e401 = .auth) (hpol : ∀ rounds, c.pol .auth 1 rounds = .reauth false)
    (n : Nat) (d : Bytes) (u F : Nat) (s : Sess) (hq : Quiet s) (hau : s.authed = true) (hu : s.upCred = some u) (hx : u < s.upLive) :
    (uploadOp c (F + 1) n d s).1 = .fuel ∧ (uploadOp c (F + 1) n d s).2.store = s.store ∧
    (uploadOp c (F + 1) n d s).2.auths = s.auths + (F + 1) ∧ (uploadOp c (F + 1) n d s).2.requests = s.requests + 2 * (F + 1) := by
  have he : s.ensureAuth = s := by simp [Sess.ensureAuth, hau]
  obtain ⟨s', e, h1, h2, h3⟩ := stale_loop c hfresh h401 hpol n d u F (F + 1) 0 s hq hau hu hx
  rw [uploadOp_eq, he, e]
  exact ⟨rfl, h1, h2, h3⟩

end Replicat.Cred
