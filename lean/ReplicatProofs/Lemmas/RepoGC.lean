import ReplicatProofs.Lemmas.RepoInv
/-! What `delete_snapshots` and `clean` do to the object map of a well-formed repository, as `get`-level specifications
(`DeleteSpec`, `CleanSpec`).  Shared by C02, C07, C08. -/
namespace Replicat.Repo
open List

/-- `c` occurs in the chunk table of a snapshot object the user's command loads (tag-valid = `visible`) whose id satisfies `P` -/
def RefBy (enc : Bool) (u : User) (s : Store) (P : Nat → Prop) (c : Content) : Prop :=
  ∃ f sid b, get s (.snap f sid) = some (.snap f sid b) ∧ visible enc u f = true ∧ P sid ∧ c ∈ b.chunks

theorem toLoaded_chunks (enc : Bool) (u : User) (f : Fam) (sid : Nat) (b : Body) : (toLoaded enc u f sid b).chunks = b.chunks := rfl
theorem toLoaded_fam (enc : Bool) (u : User) (f : Fam) (sid : Nat) (b : Body) : (toLoaded enc u f sid b).fam = f := rfl
theorem toLoaded_sid (enc : Bool) (u : User) (f : Fam) (sid : Nat) (b : Body) : (toLoaded enc u f sid b).sid = sid := rfl

theorem mem_loadedAll {enc : Bool} {u : User} {s : Store} (h : WF s) {l : Loaded} :
    l ∈ loadedPure enc u (fun _ => true) s ↔
      ∃ b, get s (.snap l.fam l.sid) = some (.snap l.fam l.sid b) ∧ visible enc u l.fam = true ∧ l = toLoaded enc u l.fam l.sid b := by
  rw [mem_loadedPure h]
  constructor
  · rintro ⟨b, h1, _, h3, h4⟩; exact ⟨b, h1, h3, h4⟩
  · rintro ⟨b, h1, h3, h4⟩; exact ⟨b, h1, rfl, h3, h4⟩

theorem loaded_of_snap {enc : Bool} {u : User} {s : Store} (h : WF s) {f : Fam} {sid : Nat} {b : Body}
    (hg : get s (.snap f sid) = some (.snap f sid b)) (hv : visible enc u f = true) :
    toLoaded enc u f sid b ∈ loadedPure enc u (fun _ => true) s :=
  (mem_loadedAll h).mpr ⟨b, hg, hv, rfl⟩

theorem refBy_iff {enc : Bool} {u : User} {s : Store} (h : WF s) (p : Nat → Bool) (P : Nat → Prop)
    (hpP : ∀ sid, p sid = true ↔ P sid) (c : Content) :
    c ∈ ((loadedPure enc u (fun _ => true) s).filter (fun l => p l.sid)).flatMap (·.chunks) ↔ RefBy enc u s P c := by
  simp only [mem_flatMap, mem_filter]
  constructor
  · rintro ⟨l, ⟨hl, hp⟩, hc⟩
    obtain ⟨b, hg, hv, heq⟩ := (mem_loadedAll h).mp hl
    refine ⟨l.fam, l.sid, b, hg, hv, (hpP _).mp hp, ?_⟩
    rw [heq] at hc; exact hc
  · rintro ⟨f, sid, b, hg, hv, hp, hc⟩
    exact ⟨toLoaded enc u f sid b, ⟨loaded_of_snap h hg hv, (hpP _).mpr hp⟩, hc⟩

/-! ## delete -/

/-- the observable effect of a successful `delete_snapshots(sids)` by `u` -/
structure DeleteSpec (enc : Bool) (u : User) (sids : List Nat) (s s' : Store) : Prop where
  snap_gone : ∀ f sid, sid ∈ sids → visible enc u f = true → get s' (.snap f sid) = none
  snap_keep : ∀ f sid, ¬ (sid ∈ sids ∧ visible enc u f = true) → get s' (.snap f sid) = get s (.snap f sid)
  chunk_gone : ∀ c, RefBy enc u s (· ∈ sids) c → ¬ RefBy enc u s (· ∉ sids) c → get s' (.chunk u.fam c) = none
  chunk_keep : ∀ f c, (f ≠ u.fam ∨ ¬ RefBy enc u s (· ∈ sids) c ∨ RefBy enc u s (· ∉ sids) c) →
    get s' (.chunk f c) = get s (.chunk f c)
  config_keep : get s' .config = get s .config
  other_keep : ∀ k, get s' (.other k) = get s (.other k)
  /-- all requested snapshots were there and readable by `u` -/
  requested : ∀ sid ∈ sids, ∃ f b, get s (.snap f sid) = some (.snap f sid b) ∧ visible enc u f = true ∧ (!enc || b.owner == u.key) = true

theorem deletePlan_wf {enc : Bool} {u : User} {sids : List Nat} {s : Store} (h : WF s) {p : DeletePlan}
    (hp : deletePlan enc u sids s = .ok p) :
    let ls := loadedPure enc u (fun _ => true) s
    p.snaps = (ls.filter (fun l => sids.contains l.sid)).map (fun l => Name.snap l.fam l.sid) ∧
    p.chunks = (((ls.filter (fun l => sids.contains l.sid)).flatMap (·.chunks)).filter
        (fun c => !((ls.filter (fun l => !sids.contains l.sid)).flatMap (·.chunks)).contains c)).map (fun c => Name.chunk u.fam c) ∧
    (ls.any (fun l => sids.contains l.sid && l.data.isNone)) = false ∧
    (sids.any (fun sid => !ls.any (fun l => l.sid == sid))) = false := by
  unfold deletePlan at hp
  rw [loadSnapshots_wf enc u _ s h] at hp
  simp only at hp
  split at hp
  · cases hp
  · split at hp
    · cases hp
    · rename_i h1 h2
      cases hp
      exact ⟨rfl, rfl, by simpa using h1, by simpa using h2⟩

theorem delete_spec {enc : Bool} {u : User} {sids : List Nat} {s s' : Store} (h : WF s)
    (hd : deleteSnapshots enc u sids s = .ok s') : DeleteSpec enc u sids s s' := by
  unfold deleteSnapshots at hd
  split at hd
  · cases hd
  · rename_i p hp
    cases hd
    obtain ⟨hsn, hch, hk1, hk2⟩ := deletePlan_wf h hp
    -- membership in the two deletion lists
    have msnap : ∀ f sid, Name.snap f sid ∈ p.snaps ↔
        (∃ b, get s (.snap f sid) = some (.snap f sid b)) ∧ visible enc u f = true ∧ sid ∈ sids := by
      intro f sid
      rw [hsn]
      simp only [mem_map, mem_filter]
      constructor
      · rintro ⟨l, ⟨hl, hc⟩, heq⟩
        cases heq
        obtain ⟨b, hg, hv, _⟩ := (mem_loadedAll h).mp hl
        exact ⟨⟨b, hg⟩, hv, by simpa using hc⟩
      · rintro ⟨⟨b, hg⟩, hv, hs⟩
        exact ⟨toLoaded enc u f sid b, ⟨loaded_of_snap h hg hv, by simpa [toLoaded] using hs⟩, rfl⟩
    have mchunk : ∀ f c, Name.chunk f c ∈ p.chunks ↔
        f = u.fam ∧ RefBy enc u s (· ∈ sids) c ∧ ¬ RefBy enc u s (· ∉ sids) c := by
      intro f c
      rw [hch]
      simp only [mem_map, mem_filter]
      have e1 := refBy_iff (enc := enc) (u := u) h (fun sid => sids.contains sid) (· ∈ sids) (by simp) c
      have e2 := refBy_iff (enc := enc) (u := u) h (fun sid => !sids.contains sid) (· ∉ sids) (by simp) c
      constructor
      · rintro ⟨c', ⟨hc1, hc2⟩, heq⟩
        cases heq
        refine ⟨rfl, e1.mp hc1, ?_⟩
        intro hr
        have hm := e2.mpr hr
        rw [← contains_iff_mem] at hm
        rw [hm] at hc2
        cases hc2
      · rintro ⟨rfl, hr1, hr2⟩
        refine ⟨c, ⟨e1.mpr hr1, ?_⟩, rfl⟩
        cases hcon : (flatMap (fun x => x.chunks)
            (filter (fun l => !sids.contains l.sid) (loadedPure enc u (fun _ => true) s))).contains c with
        | false => rfl
        | true => exact absurd (e2.mp (contains_iff_mem.mp hcon)) hr2
    have nsnap_chunk : ∀ f c, Name.chunk f c ∉ p.snaps := by
      intro f c; rw [hsn]; simp
    have nchunk_snap : ∀ f sid, Name.snap f sid ∉ p.chunks := by
      intro f sid; rw [hch]; simp
    refine ⟨?_, ?_, ?_, ?_, ?_, ?_, ?_⟩
    · intro f sid hs hv
      rw [get_delAll, get_delAll]
      simp only [nchunk_snap f sid, if_false]
      by_cases hm : Name.snap f sid ∈ p.snaps
      · simp [hm]
      · simp only [hm, if_false]
        cases hg : get s (.snap f sid) with
        | none => rfl
        | some o =>
          obtain ⟨b, rfl⟩ := h.get_snap hg
          exact absurd ((msnap f sid).mpr ⟨⟨b, hg⟩, hv, hs⟩) hm
    · intro f sid hn
      rw [get_delAll, get_delAll]
      simp only [nchunk_snap f sid, if_false]
      have : Name.snap f sid ∉ p.snaps := by
        intro hm
        obtain ⟨_, hv, hs⟩ := (msnap f sid).mp hm
        exact hn ⟨hs, hv⟩
      simp [this]
    · intro c hr1 hr2
      rw [get_delAll]
      simp [(mchunk u.fam c).mpr ⟨rfl, hr1, hr2⟩]
    · intro f c hcond
      rw [get_delAll, get_delAll]
      have : Name.chunk f c ∉ p.chunks := by
        intro hm
        obtain ⟨hf, hr1, hr2⟩ := (mchunk f c).mp hm
        rcases hcond with h1 | h1 | h1
        · exact h1 hf
        · exact h1 hr1
        · exact hr2 h1
      simp [this, nsnap_chunk f c]
    · rw [get_delAll, get_delAll]
      have h1 : Name.config ∉ p.chunks := by rw [hch]; simp
      have h2 : Name.config ∉ p.snaps := by rw [hsn]; simp
      simp [h1, h2]
    · intro k
      rw [get_delAll, get_delAll]
      have h1 : Name.other k ∉ p.chunks := by rw [hch]; simp
      have h2 : Name.other k ∉ p.snaps := by rw [hsn]; simp
      simp [h1, h2]
    · intro sid hs
      have hex : ∃ l ∈ loadedPure enc u (fun _ => true) s, l.sid = sid := by
        have := hk2
        simp only [any_eq_false] at this
        have h' := this sid hs
        cases hany : (loadedPure enc u (fun _ => true) s).any (fun l => l.sid == sid) with
        | false => simp [hany] at h'
        | true =>
          obtain ⟨l, hl, hls⟩ := any_eq_true.mp hany
          exact ⟨l, hl, by simpa using hls⟩
      obtain ⟨l, hl, rfl⟩ := hex
      obtain ⟨b, hg, hv, heq⟩ := (mem_loadedAll h).mp hl
      refine ⟨l.fam, b, hg, hv, ?_⟩
      have := hk1
      simp only [any_eq_false, Bool.and_eq_true, not_and, Bool.not_eq_true] at this
      have h' := this l hl (by simpa using hs)
      rw [heq] at h'
      simp only [toLoaded] at h'
      cases hc : (!enc || b.owner == u.key) with
      | true => rfl
      | false => simp [hc] at h'

/-! ## clean -/

/-- the observable effect of `clean` by `u` (it cannot fail on a well-formed repository) -/
structure CleanSpec (enc : Bool) (u : User) (s s' : Store) : Prop where
  chunk_keep : ∀ f c, ((f = u.fam ∧ RefBy enc u s (fun _ => True) c) ∨ (enc = true ∧ f ≠ u.fam)) →
    get s' (.chunk f c) = get s (.chunk f c)
  chunk_gone : ∀ f c, ¬ ((f = u.fam ∧ RefBy enc u s (fun _ => True) c) ∨ (enc = true ∧ f ≠ u.fam)) →
    get s' (.chunk f c) = none
  snap_keep : ∀ f sid, get s' (.snap f sid) = get s (.snap f sid)
  config_keep : get s' .config = get s .config
  other_keep : ∀ k, get s' (.other k) = get s (.other k)

theorem cleanPlan_wf {enc : Bool} {u : User} {s : Store} (h : WF s) :
    ∃ ns, cleanPlan enc u s = .ok ns ∧ ∀ n, n ∈ ns ↔
      ∃ f c, n = .chunk f c ∧ (get s (.chunk f c)).isSome ∧
        ¬ ((f = u.fam ∧ RefBy enc u s (fun _ => True) c) ∨ (enc = true ∧ f ≠ u.fam)) := by
  unfold cleanPlan
  rw [loadSnapshots_wf enc u _ s h]
  simp only
  refine ⟨_, rfl, ?_⟩
  have href : ∀ c, c ∈ (loadedPure enc u (fun _ => true) s).flatMap (·.chunks) ↔ RefBy enc u s (fun _ => True) c := by
    intro c
    have := refBy_iff (enc := enc) (u := u) h (fun _ => true) (fun _ => True) (by simp) c
    simpa using this
  intro n
  rw [mem_filterMap]
  constructor
  · rintro ⟨⟨m, o⟩, he, hn⟩
    cases m with
    | chunk f c =>
      simp only at hn
      split at hn
      · cases hn
      · rename_i h1
        split at hn
        · cases hn
        · rename_i h2
          cases hn
          refine ⟨f, c, rfl, ?_, ?_⟩
          · rw [get_of_mem h.1 he]; rfl
          · rintro (⟨rfl, hr⟩ | ⟨he', hf⟩)
            · apply h1
              simp only [beq_self_eq_true, Bool.true_and, contains_iff_mem]
              exact (href c).mpr hr
            · apply h2
              simp [he', hf]
    | _ => simp at hn
  · rintro ⟨f, c, rfl, hsome, hcond⟩
    obtain ⟨o, ho⟩ := Option.isSome_iff_exists.mp hsome
    refine ⟨(.chunk f c, o), mem_of_get ho, ?_⟩
    simp only
    have h1 : ¬ ((f == u.fam && ((loadedPure enc u (fun _ => true) s).flatMap (·.chunks)).contains c) = true) := by
      intro hh
      simp only [Bool.and_eq_true, beq_iff_eq, contains_iff_mem] at hh
      exact hcond (Or.inl ⟨hh.1, (href c).mp hh.2⟩)
    have h2 : ¬ ((enc && !(f == u.fam)) = true) := by
      intro hh
      simp only [Bool.and_eq_true, Bool.not_eq_true', beq_eq_false_iff_ne, ne_eq] at hh
      exact hcond (Or.inr ⟨hh.1, hh.2⟩)
    rw [if_neg h1, if_neg h2]

theorem clean_spec {enc : Bool} {u : User} {s : Store} (h : WF s) :
    ∃ s', clean enc u s = .ok s' ∧ CleanSpec enc u s s' := by
  obtain ⟨ns, hns, mem⟩ := cleanPlan_wf (enc := enc) (u := u) h
  unfold clean
  rw [hns]
  simp only
  refine ⟨_, rfl, ?_⟩
  refine ⟨?_, ?_, ?_, ?_, ?_⟩
  · intro f c hcond
    rw [get_delAll]
    have : ¬ (Name.chunk f c ∈ ns) := fun hm => by
      obtain ⟨f', c', heq, _, hn⟩ := (mem _).mp hm
      cases heq
      exact hn hcond
    simp only [this, if_false]
  · intro f c hcond
    rw [get_delAll]
    split
    · rfl
    · rename_i hm
      cases hg : get s (.chunk f c) with
      | none => rfl
      | some o =>
        exact absurd ((mem _).mpr ⟨f, c, rfl, by simp [hg], hcond⟩) hm
  · intro f sid
    rw [get_delAll]
    have : ¬ (Name.snap f sid ∈ ns) := fun hm => by
      obtain ⟨f', c', heq, _, _⟩ := (mem _).mp hm
      cases heq
    simp only [this, if_false]
  · rw [get_delAll]
    have : ¬ (Name.config ∈ ns) := fun hm => by
      obtain ⟨f', c', heq, _, _⟩ := (mem _).mp hm
      cases heq
    simp only [this, if_false]
  · intro k
    rw [get_delAll]
    have : ¬ (Name.other k ∈ ns) := fun hm => by
      obtain ⟨f', c', heq, _, _⟩ := (mem _).mp hm
      cases heq
    simp only [this, if_false]

end Replicat.Repo
