import ReplicatProofs.Lemmas.RateLimit
/-!
Helper lemmas (core Lean only):
* the round-robin history of `N` threads whose underlying call takes exactly `bytes / L` (defect candidate D16),
* the other direction is idle time (`proj`),
* the wrapper delegates (`wrapRun` vs `plainRun`), reads of the in-memory file come out in order.
-/
namespace Replicat.RateLimit
open Replicat

theorem mono_ge (τ : Obs → Rat) (t : Rat) (l : List Obs) (hm : Mono τ t l) : ∀ o ∈ l, t ≤ τ o := by
  induction l generalizing t with
  | nil => simp
  | cons o r ih =>
    intro o' ho'
    rcases List.mem_cons.mp ho' with h | h
    · subst h; exact hm.1
    · have := ih (τ o) hm.2 o' h
      have := hm.1
      grind

theorem mono_congr (τ τ' : Obs → Rat) (t : Rat) (l : List Obs) (h : ∀ o ∈ l, τ o = τ' o) (hm : Mono τ t l) : Mono τ' t l := by
  induction l generalizing t with
  | nil => trivial
  | cons o r ih =>
    have h1 := h o (by simp)
    refine ⟨by rw [← h1]; exact hm.1, ?_⟩
    rw [← h1]
    exact ih (τ o) (fun o ho => h o (by simp [ho])) hm.2

/-- if every observation lies in the window, the window carries all bytes -/
theorem winBytes_all (τ : Obs → Rat) (a b : Rat) (l : List Obs) (h : ∀ o ∈ l, a ≤ τ o ∧ τ o ≤ b) :
    winBytes τ a b l = sumBytes l := by
  induction l with
  | nil => simp [winBytes]
  | cons o r ih =>
    rw [winBytes_cons, sumBytes_cons, ih (fun o ho => h o (by simp [ho]))]
    simp [h o (by simp)]

/-! ### round robin, underlying latency = bytes / L -/
theorem pause_zero : pause 0 0 0 = ⟨0, 0, 0⟩ := by
  have h1 := thr_nonneg
  have h2 := headroom
  have hc : ¬ ((0 : Rat) + 0 > Gen.pauseLimit) := by grind
  have ht : (0 : Rat) + 0 ≤ Gen.pauseThreshold := by grind
  unfold pause
  simp only [hc, if_false, ht, if_true]
  simp [Rat.sub_self, Rat.add_zero]

theorem owed_exact (L : Rat) (d : Nat) : owed L d ((d : Rat) / L) = 0 := by
  unfold owed; grind

/-- facts about one (partial) round -/
theorem roundFrom_spec (L : Rat) (d : Nat) (T : Rat) (_hlat : 0 ≤ (d : Rat) / L) (n i : Nat) (s : St)
    (hd : s.debt = 0) (hl : s.lockFree ≤ T + (d : Rat) / L) (hall : ∀ j, s.clk j ≤ T + (d : Rat) / L)
    (hrest : ∀ j, i ≤ j → s.clk j ≤ T) :
    (run L s (roundFrom d ((d : Rat) / L) i n)).1.debt = 0 ∧
    (run L s (roundFrom d ((d : Rat) / L) i n)).1.lockFree ≤ T + (d : Rat) / L ∧
    (∀ j, (run L s (roundFrom d ((d : Rat) / L) i n)).1.clk j ≤ T + (d : Rat) / L) ∧
    sumBytes (run L s (roundFrom d ((d : Rat) / L) i n)).2 = n * (d : Rat) ∧
    (∀ o ∈ (run L s (roundFrom d ((d : Rat) / L) i n)).2, o.tRel ≤ T + (d : Rat) / L ∧ o.slept = 0 ∧ o.debt = 0) := by
  induction n generalizing i s with
  | zero => simp [roundFrom, run, sumBytes, hd, hl, hall]
  | succ n ih =>
    simp only [roundFrom, run_cons]
    have hstep : step L s (.io i d ((d : Rat) / L) 0) =
        (⟨0, max (s.clk i + (d : Rat) / L) s.lockFree, upd s.clk i (max (s.clk i + (d : Rat) / L) s.lockFree)⟩,
          some ⟨i, d, (d : Rat) / L, s.clk i + (d : Rat) / L, max (s.clk i + (d : Rat) / L) s.lockFree,
            max (s.clk i + (d : Rat) / L) s.lockFree, 0, 0, 0⟩) := by
      simp [step, owed_exact, hd, pause_zero, Rat.add_zero]
    rw [hstep]
    have hi := hrest i (Nat.le_refl i)
    have hmax : max (s.clk i + (d : Rat) / L) s.lockFree ≤ T + (d : Rat) / L := by grind
    have := ih (i + 1) ⟨0, max (s.clk i + (d : Rat) / L) s.lockFree, upd s.clk i (max (s.clk i + (d : Rat) / L) s.lockFree)⟩
      rfl hmax (by
        intro j; simp only [upd]; split
        · exact hmax
        · exact hall j)
      (by intro j hj; simp only [upd]; have : j ≠ i := by omega
          simp only [this, if_false]; exact hrest j (by omega))
    obtain ⟨a1, a2, a3, a4, a5⟩ := this
    refine ⟨a1, a2, a3, ?_, ?_⟩
    · simp only [Option.toList_some, List.cons_append, List.nil_append, sumBytes_cons, a4]
      have : ((n + 1 : Nat) : Rat) = (n : Rat) + 1 := by exact_mod_cast rfl
      rw [this]; grind
    · intro o ho
      simp only [Option.toList_some, List.cons_append, List.nil_append, List.mem_cons] at ho
      rcases ho with h | h
      · subst h; exact ⟨hmax, rfl, rfl⟩
      · exact a5 o h

theorem rounds_spec (L : Rat) (N d : Nat) (hlat : 0 ≤ (d : Rat) / L) (k : Nat) (T : Rat) (s : St)
    (hd : s.debt = 0) (hl : s.lockFree ≤ T) (hall : ∀ j, s.clk j ≤ T) :
    sumBytes (run L s (rounds N d ((d : Rat) / L) k)).2 = k * (N * (d : Rat)) ∧
    (∀ o ∈ (run L s (rounds N d ((d : Rat) / L) k)).2, o.tRel ≤ T + k * ((d : Rat) / L) ∧ o.slept = 0 ∧ o.debt = 0) := by
  induction k generalizing T s with
  | zero => simp [rounds, run, sumBytes]
  | succ k ih =>
    simp only [rounds, run_append]
    obtain ⟨a1, a2, a3, a4, a5⟩ := roundFrom_spec L d T hlat N 0 s hd (by grind) (fun j => by have := hall j; grind)
      (fun j _ => hall j)
    have := ih (T + (d : Rat) / L) (run L s (roundFrom d ((d : Rat) / L) 0 N)).1 a1 a2 a3
    obtain ⟨b1, b2⟩ := this
    have hk : ((k + 1 : Nat) : Rat) = (k : Rat) + 1 := by exact_mod_cast rfl
    refine ⟨?_, ?_⟩
    · rw [sumBytes_append, a4, b1, hk]; grind
    · intro o ho
      rcases List.mem_append.mp ho with h | h
      · have := a5 o h
        have hk0 : (0 : Rat) ≤ k := by exact_mod_cast Nat.zero_le k
        have : 0 ≤ (k : Rat) * ((d : Rat) / L) := Rat.mul_nonneg hk0 hlat
        rw [hk]; grind
      · have := b2 o h
        rw [hk]; grind

theorem roundFrom_ok (L : Rat) (d : Nat) (lat : Rat) (hd : 4 * (d : Rat) ≤ L) (hlat : 0 ≤ lat) (n i : Nat) :
    ∀ e ∈ roundFrom d lat i n, EvOk L 0 d e := by
  induction n generalizing i with
  | zero => simp [roundFrom]
  | succ n ih =>
    intro e he
    simp only [roundFrom, List.mem_cons] at he
    rcases he with h | h
    · subst h; exact ⟨hd, Nat.le_refl d, hlat, by grind, by grind⟩
    · exact ih (i + 1) e h

theorem rounds_ok (L : Rat) (N d : Nat) (lat : Rat) (hd : 4 * (d : Rat) ≤ L) (hlat : 0 ≤ lat) (k : Nat) :
    ∀ e ∈ rounds N d lat k, EvOk L 0 d e := by
  induction k with
  | zero => simp [rounds]
  | succ k ih =>
    intro e he
    simp only [rounds, List.mem_append] at he
    rcases he with h | h
    · exact roundFrom_ok L d lat hd hlat N 0 e h
    · exact ih e h

theorem rat_le_natAbs (B : Rat) : B ≤ (B.num.natAbs : Rat) := by
  rw [Rat.le_iff]
  simp only [Rat.den_natCast, Rat.num_natCast, Int.natCast_one, Int.mul_one]
  have h1 : B.num ≤ (B.num.natAbs : Int) := Int.le_natAbs
  have h2 : (1 : Int) ≤ (B.den : Int) := by exact_mod_cast B.den_pos
  have h3 : (0 : Int) ≤ (B.num.natAbs : Int) := by exact_mod_cast Nat.zero_le _
  have h4 : (B.num.natAbs : Int) * 1 ≤ (B.num.natAbs : Int) * (B.den : Int) := Int.mul_le_mul_of_nonneg_left h2 h3
  omega

/-! ### the other direction is idle time -/
theorem obsOf_cons_same (d : Dir) (o : Obs) (l : List (Dir × Obs)) : obsOf d ((d, o) :: l) = o :: obsOf d l := by
  simp [obsOf]

theorem obsOf_cons_other (d d' : Dir) (o : Obs) (l : List (Dir × Obs)) (h : d' ≠ d) : obsOf d ((d', o) :: l) = obsOf d l := by
  simp [obsOf, h]

theorem view_put_same (s : St2) (d : Dir) (t : St) : (s.put d t).view d = t := by
  cases d <;> rfl

theorem view_put_other (s : St2) (d d' : Dir) (t : St) (h : d' ≠ d) :
    (s.put d' t).view d = ⟨(s.view d).debt, (s.view d).lockFree, t.clk⟩ := by
  cases d <;> cases d' <;> first | (exact absurd rfl h) | rfl

theorem run2_cons (Lr Lw : Rat) (s : St2) (e : Ev2) (es : List Ev2) :
    run2 Lr Lw s (e :: es) =
      ((run2 Lr Lw (step2 Lr Lw s e).1 es).1, (step2 Lr Lw s e).2.toList ++ (run2 Lr Lw (step2 Lr Lw s e).1 es).2) := rfl

theorem upd_same (f : Nat → Rat) (i : Nat) (v : Rat) : upd f i v i = v := by simp [upd]

theorem upd_self_sub (f : Nat → Rat) (i : Nat) (v : Rat) : upd f i (f i + (v - f i)) = upd f i v := by
  have : f i + (v - f i) = v := by grind
  rw [this]

theorem proj_sim (Lr Lw : Rat) (d : Dir) (evs : List Ev2) (s : St2) :
    obsOf d (run2 Lr Lw s evs).2 = (run (limitOf Lr Lw d) (s.view d) (proj Lr Lw d s evs)).2 ∧
    (run2 Lr Lw s evs).1.view d = (run (limitOf Lr Lw d) (s.view d) (proj Lr Lw d s evs)).1 := by
  induction evs generalizing s with
  | nil => simp [run2, proj, run, obsOf]
  | cons e es ih =>
    rw [run2_cons]
    simp only [proj]
    rw [run_cons]
    cases e with
    | idle i dt =>
      have hv : (step2 Lr Lw s (.idle i dt)).1.view d = (step (limitOf Lr Lw d) (s.view d) (.idle i dt)).1 := by
        cases d <;> rfl
      have := ih (step2 Lr Lw s (.idle i dt)).1
      rw [hv] at this
      simpa [step2, step] using this
    | io d' i b lat ov =>
      by_cases hdd : d' = d
      · subst hdd
        have hv : (step2 Lr Lw s (.io d' i b lat ov)).1.view d' = (step (limitOf Lr Lw d') (s.view d') (.io i b lat ov)).1 := by
          simp [step2, view_put_same]
        have := ih (step2 Lr Lw s (.io d' i b lat ov)).1
        rw [hv] at this
        simp only [if_true]
        refine ⟨?_, this.2⟩
        have ho : (step2 Lr Lw s (.io d' i b lat ov)).2 = (step (limitOf Lr Lw d') (s.view d') (.io i b lat ov)).2.map (fun o => (d', o)) := rfl
        rw [ho]
        simp only [step, Option.map_some, Option.toList_some, List.cons_append, List.nil_append, obsOf_cons_same]
        simp only [step] at this
        rw [this.1]
      · simp only [hdd, if_false]
        have hv : (step2 Lr Lw s (.io d' i b lat ov)).1.view d =
            (step (limitOf Lr Lw d) (s.view d) (.idle i ((step2 Lr Lw s (.io d' i b lat ov)).1.clk i - s.clk i))).1 := by
          simp only [step2, step]
          rw [view_put_other _ _ _ _ hdd]
          cases d <;> cases d' <;> first | (exact absurd rfl hdd) | (simp [St2.view, St2.put, upd_same, upd_self_sub])
        have := ih (step2 Lr Lw s (.io d' i b lat ov)).1
        rw [hv] at this
        refine ⟨?_, this.2⟩
        have ho : (step2 Lr Lw s (.io d' i b lat ov)).2 = (step (limitOf Lr Lw d') (s.view d') (.io i b lat ov)).2.map (fun o => (d', o)) := rfl
        rw [ho]
        simp only [step, Option.map_some, Option.toList_some, List.cons_append, List.nil_append, Option.toList_none]
        rw [obsOf_cons_other _ _ _ _ hdd]
        simp only [step] at this
        exact this.1

/-! ### delegation -/
theorem wrapStep_fst {F : Type} (u : F → FOp → F × FRes) (Lr Lw : Rat) (i : Nat) (f : F) (s : St2) (op : FOp) (lat ov : Rat) :
    (wrapStep u Lr Lw i f s op lat ov).1 = (u f op).1 ∧ (wrapStep u Lr Lw i f s op lat ov).2.1 = (u f op).2 := by
  unfold wrapStep
  simp only
  split <;> simp

/-- what the limiter is told about one call: direction and number of bytes -/
def accounted : FOp → FRes → Option (Dir × Nat)
  | .read _, .data b => some (.read, b.length)
  | .write _, .num n => some (.write, n)
  | _, _ => none

theorem step2_io_obs (Lr Lw : Rat) (s : St2) (d : Dir) (i b : Nat) (lat ov : Rat) :
    ∃ o, (step2 Lr Lw s (.io d i b lat ov)).2 = some (d, o) ∧ o.bytes = b ∧ o.stream = i := by
  simp [step2, step]

theorem wrapStep_obs {F : Type} (u : F → FOp → F × FRes) (Lr Lw : Rat) (i : Nat) (f : F) (s : St2) (op : FOp) (lat ov : Rat) :
    (wrapStep u Lr Lw i f s op lat ov).2.2.2.map (fun p => (p.1, p.2.bytes)) = accounted op (u f op).2 := by
  unfold wrapStep accounted
  simp only
  generalize u f op = r
  obtain ⟨f', res⟩ := r
  cases op <;> cases res <;> simp [step2, step]

/-! ### the in-memory file: reads come out in order, once -/
theorem memfile_read (f : MemFile) (size : Option Nat) :
    ∃ out, f.apply (.read size) = (⟨f.data, f.pos + out.length⟩, .data out) ∧
      out ++ f.data.drop (f.pos + out.length) = f.data.drop f.pos := by
  cases size with
  | none =>
    refine ⟨f.data.drop f.pos, rfl, ?_⟩
    simp [List.length_drop]
    omega
  | some n =>
    refine ⟨(f.data.drop f.pos).take n, rfl, ?_⟩
    have : f.data.drop (f.pos + ((f.data.drop f.pos).take n).length) = (f.data.drop f.pos).drop n := by
      rw [List.length_take, List.length_drop, ← List.drop_drop]
      by_cases h : n ≤ f.data.length - f.pos
      · rw [Nat.min_eq_left h]
      · rw [Nat.min_eq_right (by omega)]
        rw [List.drop_eq_nil_of_le (by simp), List.drop_eq_nil_of_le (by simp; omega)]
    rw [this, List.take_append_drop]

end Replicat.RateLimit
