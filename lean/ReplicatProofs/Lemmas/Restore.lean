import ReplicatProofs.Lemmas.Layout
/-! Helper lemmas for the restore side: `_write_file_part` pointwise, commutation of disjoint writes, the plan. -/
namespace Replicat
open List

theorem ext_getElem? (old : Bytes) (k p : Nat) :
    (old ++ List.replicate k (0:UInt8))[p]? = if p < old.length + k then some (old[p]?.getD 0) else none := by
  by_cases h : p < old.length
  · simp [getElem?_append_left h, h]; omega
  · rw [getElem?_append_right (by omega), getElem?_replicate]
    have : old[p]? = none := by simp; omega
    simp [this]; 
    by_cases h2 : p - old.length < k
    · simp [h2]; omega
    · simp [h2]; omega

theorem getElem?_writePart (old : Bytes) (off : Nat) (d : Bytes) (p : Nat) :
    (writePart old off d)[p]? =
      if off ≤ p ∧ p < off + d.length then d[p - off]?
      else if p < max old.length (off + d.length) then some (old[p]?.getD 0) else none := by
  unfold writePart
  simp only [Gen.writeTruncate_eq]
  have hlen : (old ++ List.replicate (max old.length (off + d.length) - old.length) (0:UInt8)).length = max old.length (off + d.length) := by
    simp; omega
  by_cases h1 : p < off
  · rw [append_assoc, getElem?_append_left (by rw [length_take, hlen]; omega), getElem?_take_of_lt h1, ext_getElem?]
    have : ¬ (off ≤ p ∧ p < off + d.length) := by omega
    simp only [this, if_false]
    congr 1
    simp; omega
  · by_cases h2 : p < off + d.length
    · rw [append_assoc, getElem?_append_right (by rw [length_take, hlen]; omega), length_take, hlen,
        getElem?_append_left (by omega)]
      have : off ≤ p ∧ p < off + d.length := by omega
      simp only [this, and_self, if_true]
      congr 1; omega
    · rw [getElem?_append_right (by simp [length_take, hlen]; omega)]
      simp only [length_append, length_take, hlen, getElem?_drop]
      have : ¬ (off ≤ p ∧ p < off + d.length) := by omega
      simp only [this, if_false]
      have e : off + d.length + (p - (min off (max old.length (off + d.length)) + d.length)) = p := by omega
      rw [e, ext_getElem?]
      congr 1
      simp; omega

theorem length_writePart (old : Bytes) (off : Nat) (d : Bytes) :
    (writePart old off d).length = max old.length (off + d.length) := by
  unfold writePart
  simp only [Gen.writeTruncate_eq, length_append, length_take, length_drop, length_replicate]
  omega

theorem getD_writePart (old : Bytes) (off : Nat) (d : Bytes) (p : Nat) :
    (writePart old off d)[p]?.getD 0 = if off ≤ p ∧ p < off + d.length then d[p - off]?.getD 0 else old[p]?.getD 0 := by
  rw [getElem?_writePart]
  by_cases h : off ≤ p ∧ p < off + d.length
  · simp [h]
  · simp only [h, if_false]
    by_cases h2 : p < max old.length (off + d.length)
    · simp [h2]
    · have : old[p]? = none := by simp; omega
      simp [h2, this]

/-- writes to disjoint ranges commute -/
theorem writePart_comm (old : Bytes) (o1 o2 : Nat) (d1 d2 : Bytes)
    (hdis : o1 + d1.length ≤ o2 ∨ o2 + d2.length ≤ o1) :
    writePart (writePart old o1 d1) o2 d2 = writePart (writePart old o2 d2) o1 d1 := by
  apply List.ext_getElem?
  intro p
  rw [getElem?_writePart (writePart old o1 d1), getElem?_writePart (writePart old o2 d2), getD_writePart, getD_writePart,
    length_writePart, length_writePart]
  by_cases h1 : o1 ≤ p ∧ p < o1 + d1.length <;> by_cases h2 : o2 ≤ p ∧ p < o2 + d2.length
  · omega
  · simp only [h1, h2, if_true, if_false, and_self]
    have : p < max (max old.length (o1 + d1.length)) (o2 + d2.length) := by omega
    simp only [this, if_true]
    have : p - o1 < d1.length := by omega
    simp [getElem?_eq_getElem this]
  · simp only [h1, h2, if_true, if_false, and_self]
    have : p < max (max old.length (o2 + d2.length)) (o1 + d1.length) := by omega
    simp only [this, if_true]
    have : p - o2 < d2.length := by omega
    simp [getElem?_eq_getElem this]
  · simp only [h1, h2, if_false]
    by_cases h3 : p < max (max old.length (o1 + d1.length)) (o2 + d2.length)
    · have h4 : p < max (max old.length (o2 + d2.length)) (o1 + d1.length) := by omega
      rw [if_pos h3, if_pos h4]
    · have h4 : ¬ p < max (max old.length (o2 + d2.length)) (o1 + d1.length) := by omega
      rw [if_neg h3, if_neg h4]

theorem pairwise_mem_cases {α : Type} {R : α → α → Prop} {l : List α} (h : l.Pairwise R) {x y : α}
    (hx : x ∈ l) (hy : y ∈ l) : x = y ∨ R x y ∨ R y x := by
  induction l with
  | nil => simp at hx
  | cons a l ih =>
    rw [pairwise_cons] at h
    rcases mem_cons.mp hx with rfl | hx' <;> rcases mem_cons.mp hy with rfl | hy'
    · exact Or.inl rfl
    · exact Or.inr (Or.inl (h.1 _ hy'))
    · exact Or.inr (Or.inr (h.1 _ hx'))
    · exact ih h.2 hx' hy'

abbrev PlanEntry := Nat × Nat × Nat × Nat

theorem planFrom_pos_ge (pos : Nat) (rs : List Ref) : ∀ e ∈ planFrom pos rs, pos ≤ e.2.2.2 := by
  induction rs generalizing pos with
  | nil => simp [planFrom]
  | cons r rs ih =>
    intro e he
    simp only [planFrom, mem_cons] at he
    rcases he with rfl | he
    · simp
    · have := ih _ e he; omega

theorem planFrom_pairwise (pos : Nat) (rs : List Ref) :
    (planFrom pos rs).Pairwise (fun a b : PlanEntry => a.2.2.2 + a.2.2.1 ≤ b.2.2.2) := by
  induction rs generalizing pos with
  | nil => simp [planFrom]
  | cons r rs ih =>
    simp only [planFrom, pairwise_cons]
    exact ⟨fun b hb => planFrom_pos_ge _ _ b hb, ih _⟩

theorem length_partData_le (chunks : List Bytes) (e : PlanEntry) : (partData chunks e).length ≤ e.2.2.1 := by
  unfold partData
  cases chunks[e.1 - 1]? with
  | none => simp
  | some c => simp [slice]; omega

/-- the writer threads may execute the plan in any order -/
theorem applyWrites_perm (chunks : List Bytes) (old : Bytes) (rs : List Ref) (pos : Nat) (ws : List PlanEntry)
    (hp : ws ~ planFrom pos rs) : applyWrites chunks old ws = applyWrites chunks old (planFrom pos rs) := by
  unfold applyWrites
  apply Perm.foldl_eq' hp
  intro x hx y hy z
  have hx' := hp.subset hx
  have hy' := hp.subset hy
  rcases pairwise_mem_cases (planFrom_pairwise pos rs) hx' hy' with rfl | h | h
  · rfl
  · apply writePart_comm
    have := length_partData_le chunks x
    left; omega
  · apply writePart_comm
    have := length_partData_le chunks y
    right; omega

theorem take_writePart_self (cur : Bytes) (off : Nat) (d : Bytes) (h : off ≤ cur.length) :
    (writePart cur off d).take (off + d.length) = cur.take off ++ d := by
  unfold writePart
  simp only [Gen.writeTruncate_eq]
  rw [take_append_of_le_length h]
  apply take_left'
  simp; omega

theorem take_writePart_before (cur : Bytes) (off : Nat) (d : Bytes) (n : Nat) (hn : n ≤ off) (h : off ≤ cur.length) :
    (writePart cur off d).take n = cur.take n := by
  have := take_writePart_self cur off d h
  have e : (writePart cur off d).take n = ((writePart cur off d).take (off + d.length)).take n := by
    rw [take_take]; congr 1; omega
  rw [e, this, take_append_of_le_length (by simp; omega), take_take]
  congr 1; omega

/-- executing the plan front to back writes the concatenation of the parts -/
theorem applyWrites_seq (chunks : List Bytes) (cur : Bytes) (pos : Nat) (rs : List Ref) (h : pos ≤ cur.length)
    (hd : ∀ e ∈ planFrom pos rs, (partData chunks e).length = e.2.2.1) :
    (applyWrites chunks cur (planFrom pos rs)).take (pos + (rs.map (fun r => r.hi - r.lo)).sum)
        = cur.take pos ++ ((planFrom pos rs).map (partData chunks)).flatten
      ∧ pos + (rs.map (fun r => r.hi - r.lo)).sum ≤ (applyWrites chunks cur (planFrom pos rs)).length := by
  induction rs generalizing cur pos with
  | nil => simp [planFrom, applyWrites]; exact h
  | cons r rs ih =>
    simp only [planFrom, applyWrites, foldl_cons, map_cons, sum_cons, flatten_cons]
    have hd0 := hd (r.counter, r.lo, r.hi - r.lo, pos) (by simp [planFrom])
    simp only at hd0
    have hlen : pos + (r.hi - r.lo) ≤ (writePart cur pos (partData chunks (r.counter, r.lo, r.hi - r.lo, pos))).length := by
      rw [length_writePart, hd0]; omega
    obtain ⟨h1, h2⟩ := ih (writePart cur pos (partData chunks (r.counter, r.lo, r.hi - r.lo, pos))) (pos + (r.hi - r.lo)) hlen
      (fun e he => hd e (by simp [planFrom, he]))
    unfold applyWrites at h1 h2
    refine ⟨?_, by omega⟩
    rw [← Nat.add_assoc, h1]
    have := take_writePart_self cur pos (partData chunks (r.counter, r.lo, r.hi - r.lo, pos)) h
    rw [hd0] at this
    rw [this, append_assoc]

theorem setLength_of_le (cur : Bytes) (n : Nat) (h : n ≤ cur.length) : setLength cur n = cur.take n := by
  unfold setLength
  rw [take_append_of_le_length h]

end Replicat
