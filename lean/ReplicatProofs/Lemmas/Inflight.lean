import ReplicatProofs.Lemmas.RoundTrip
import ReplicatModel.Inflight
/-! Helper lemmas for the in-flight view of the snapshot producer (C14 `inflight_*`). -/
namespace Replicat.Inflight
open List Replicat

/-! ## the reads of one file -/
theorem blocksOf_sum (B n : Nat) (hB : 0 < B) : (blocksOf B n).sum = n := by
  unfold blocksOf
  have hB' : ¬ B = 0 := by omega
  simp only [hB', if_false, sum_append, sum_replicate_nat]
  have := Nat.div_add_mod n B
  by_cases h : n % B = 0
  · simp only [h, if_true, sum_nil]
    rw [h] at this
    rw [Nat.mul_comm]; omega
  · simp only [h, if_false, sum_cons, sum_nil]
    rw [Nat.mul_comm]; omega

theorem sum_take_le (bs : List Nat) (t : Nat) : (bs.take t).sum ≤ bs.sum := by
  have := congrArg List.sum (take_append_drop t bs)
  rw [sum_append] at this
  omega

theorem bumpLast_append_singleton (l : List Span) (f : Span) (n : Nat) : bumpLast (l ++ [f]) n = l ++ [(f.1, f.2 + n)] := by
  induction l with
  | nil => rfl
  | cons a l ih =>
    cases l with
    | nil => rfl
    | cons b l =>
      simp only [cons_append] at ih ⊢
      simp only [bumpLast]
      rw [ih]

theorem runFrom_append (s : PState) (a b : List Ev) : runFrom s (a ++ b) = runFrom (runFrom s a) b := by
  unfold runFrom; rw [foldl_append]

theorem runFrom_reads (hflag : Gen.streamEndAdvancedInReadLoop = true) (done : List Span) (fs e y : Nat) (bs : List Nat) :
    runFrom ⟨done ++ [(fs, e)], y⟩ (bs.map Ev.read) = ⟨done ++ [(fs, e + bs.sum)], y + bs.sum⟩ := by
  induction bs generalizing e y with
  | nil => simp [runFrom]
  | cons b bs ih =>
    have h1 : runFrom ⟨done ++ [(fs, e)], y⟩ ((b :: bs).map Ev.read)
        = runFrom ⟨done ++ [(fs, e + b)], y + b⟩ (bs.map Ev.read) := by
      simp only [runFrom, map_cons, foldl_cons, step, stepWith, hflag, if_true, bumpLast_append_singleton]
    rw [h1, ih]
    simp only [sum_cons, Nat.add_assoc]

theorem viewOf_zero (files : List Span) (y : Nat) : viewOf files 0 y = [] := by simp [viewOf]

theorem viewOf_cons_succ (a : Span) (files : List Span) (k y : Nat) :
    viewOf (a :: files) (k + 1) y = clip y a :: viewOf files k y := by simp [viewOf]

theorem clip_done (a b y : Nat) (h : b ≤ y) (_hf : a ≤ b) : clip y (a, b) = (a, b) := by
  unfold clip
  have : min b (max a y) = b := by omega
  simp only [this]

/-- any prefix of the events of ONE file: nothing yet, or the record `(off, y)` with `y` = what has been read -/
theorem runFrom_fileEvents_take (hflag : Gen.streamEndAdvancedInReadLoop = true) (done : List Span) (off : Nat) (bs : List Nat)
    (t : Nat) :
    ∃ k y, k ≤ 1 ∧ off ≤ y ∧ y ≤ off + bs.sum ∧ (k = 0 → y = off) ∧
      ((fileEvents bs).length ≤ t → k = 1 ∧ y = off + bs.sum) ∧
      runFrom ⟨done, off⟩ ((fileEvents bs).take t) = ⟨done ++ viewOf [(off, off + bs.sum)] k y, y⟩ := by
  cases t with
  | zero =>
    refine ⟨0, off, by omega, by omega, by omega, fun _ => rfl, ?_, ?_⟩
    · intro h; simp [fileEvents] at h
    · simp [runFrom, viewOf]
  | succ t =>
    refine ⟨1, off + (bs.take t).sum, by omega, by omega, ?_, by omega, ?_, ?_⟩
    · have := sum_take_le bs t; omega
    · intro h
      simp only [fileEvents, length_cons, length_append, length_map, length_nil] at h
      have : bs.take t = bs := take_of_length_le (by omega)
      rw [this]; exact ⟨rfl, rfl⟩
    · have hsum := sum_take_le bs t
      have hstart : runFrom ⟨done, off⟩ ((fileEvents bs).take (t + 1))
          = runFrom ⟨done ++ [(off, off)], off⟩ ((bs.map Ev.read ++ [Ev.finish]).take t) := by
        simp only [fileEvents, take_succ_cons, runFrom, foldl_cons, step, stepWith]
      rw [hstart, take_append, runFrom_append, ← map_take, runFrom_reads hflag]
      have hfin : ∀ (s : PState) (m : Nat), runFrom s (([Ev.finish] : List Ev).take m) = s := by
        intro s m
        cases m with
        | zero => rfl
        | succ m => simp [runFrom, step, stepWith]
      rw [hfin]
      have hclip : viewOf [(off, off + bs.sum)] 1 (off + (bs.take t).sum) = [(off, off + (bs.take t).sum)] := by
        simp only [viewOf, take_succ_cons, take_zero, map_cons, map_nil, clip]
        have : min (off + bs.sum) (max off (off + (bs.take t).sum)) = off + (bs.take t).sum := by omega
        rw [this]
      rw [hclip]

/-! ## the whole producer -/
def padOf (align : Nat) : Option Nat → Nat
  | none => 0
  | some m => Gen.padding m align

theorem padOf_some (align m : Nat) : padOf align (some m) = Gen.padding m align := rfl

/-- **Invariant of `_stream_files`** (generalised over the files already completed): after any number of events the records
are the completed files followed by a clipped prefix of the layout of the remaining ones, and every file not started yet
begins at or after the current stream position. -/
theorem runFrom_eventsFrom_take (hflag : Gen.streamEndAdvancedInReadLoop = true) (align B : Nat) (hB : 0 < B) (sizes : List Nat) :
    ∀ (prev : Option Nat) (done : List Span) (y0 t : Nat),
      ∃ k y, y0 ≤ y ∧
        runFrom ⟨done, y0⟩ ((eventsFrom align B prev sizes).take t)
          = ⟨done ++ viewOf (layoutFrom align (y0 + padOf align prev) sizes) k y, y⟩ ∧
        ∀ f ∈ (layoutFrom align (y0 + padOf align prev) sizes).drop k, y ≤ f.1 := by
  induction sizes with
  | nil =>
    intro prev done y0 t
    exact ⟨0, y0, Nat.le_refl _, by simp [eventsFrom, runFrom, viewOf, layoutFrom], by simp [layoutFrom]⟩
  | cons n rest ih =>
    intro prev done y0 t
    -- the padding of the previous file
    have hpad : (t = 0 ∧ prev ≠ none) ∨ ∃ t1, t1 ≤ t ∧
        runFrom ⟨done, y0⟩ ((eventsFrom align B prev (n :: rest)).take t)
          = runFrom ⟨done, y0 + padOf align prev⟩
              ((fileEvents (blocksOf B n) ++ eventsFrom align B (some n) rest).take t1) := by
      cases prev with
      | none => exact Or.inr ⟨t, Nat.le_refl _, by simp [eventsFrom, padOf]⟩
      | some m =>
        cases t with
        | zero => exact Or.inl ⟨rfl, by simp⟩
        | succ t =>
          refine Or.inr ⟨t, by omega, ?_⟩
          simp only [eventsFrom, padOf, cons_append, nil_append, take_succ_cons, runFrom, foldl_cons, step, stepWith]
    rcases hpad with ⟨ht, hprev⟩ | ⟨t1, _, hrun⟩
    · subst ht
      refine ⟨0, y0, Nat.le_refl _, by simp [runFrom, viewOf], ?_⟩
      intro f hf
      have := layoutFrom_lower align (y0 + padOf align prev) (n :: rest) f (by simpa using hf)
      omega
    · rw [hrun]
      have hn := blocksOf_sum B n hB
      obtain ⟨k1, y1, hk1, hy1a, hy1b, hk0, hfull, hst⟩ :=
        runFrom_fileEvents_take hflag done (y0 + padOf align prev) (blocksOf B n) t1
      rw [hn] at hy1b hfull hst
      rw [take_append, runFrom_append, hst]
      by_cases hlen : (fileEvents (blocksOf B n)).length ≤ t1
      · -- the file is complete: continue with the remaining files
        obtain ⟨hk, hy⟩ := hfull hlen
        subst hk; subst hy
        have hv : viewOf [(y0 + padOf align prev, y0 + padOf align prev + n)] 1 (y0 + padOf align prev + n)
            = [(y0 + padOf align prev, y0 + padOf align prev + n)] := by
          simp only [viewOf, take_succ_cons, take_zero, map_cons, map_nil]
          rw [clip_done _ _ _ (Nat.le_refl _) (by omega)]
        rw [hv]
        obtain ⟨k2, y2, hy2, hst2, hdrop2⟩ := ih (some n) (done ++ [(y0 + padOf align prev, y0 + padOf align prev + n)])
          (y0 + padOf align prev + n) (t1 - (fileEvents (blocksOf B n)).length)
        refine ⟨k2 + 1, y2, by omega, ?_, ?_⟩
        · rw [hst2]
          simp only [layoutFrom, viewOf_cons_succ, padOf_some]
          rw [clip_done _ _ _ hy2 (by omega)]
          simp [append_assoc]
        · simpa [layoutFrom, padOf_some] using hdrop2
      · -- still inside this file: nothing of the later ones has happened
        have h0 : t1 - (fileEvents (blocksOf B n)).length = 0 := by omega
        rw [h0, take_zero]
        refine ⟨k1, y1, by omega, ?_, ?_⟩
        · have : viewOf (layoutFrom align (y0 + padOf align prev) (n :: rest)) k1 y1
              = viewOf [(y0 + padOf align prev, y0 + padOf align prev + n)] k1 y1 := by
            have hk : k1 = 0 ∨ k1 = 1 := by omega
            rcases hk with rfl | rfl <;> simp [viewOf, layoutFrom]
          rw [this]; rfl
        · intro f hf
          have hk : k1 = 0 ∨ k1 = 1 := by omega
          rcases hk with rfl | rfl
          · have := layoutFrom_lower align (y0 + padOf align prev) (n :: rest) f (by simpa using hf)
            have := hk0 rfl
            omega
          · simp only [layoutFrom, drop_succ_cons, drop_zero] at hf
            have := layoutFrom_lower align _ rest f hf
            omega

/-- at the end of `_stream_files` the records are the layout -/
theorem runFrom_eventsFrom_files (hflag : Gen.streamEndAdvancedInReadLoop = true) (align B : Nat) (hB : 0 < B) (sizes : List Nat) :
    ∀ (prev : Option Nat) (done : List Span) (y0 : Nat),
      (runFrom ⟨done, y0⟩ (eventsFrom align B prev sizes)).files = done ++ layoutFrom align (y0 + padOf align prev) sizes := by
  induction sizes with
  | nil => intro prev done y0; simp [eventsFrom, runFrom, layoutFrom]
  | cons n rest ih =>
    intro prev done y0
    have hP : runFrom ⟨done, y0⟩ (eventsFrom align B prev (n :: rest))
        = runFrom (runFrom ⟨done, y0 + padOf align prev⟩ (fileEvents (blocksOf B n))) (eventsFrom align B (some n) rest) := by
      cases prev with
      | none => simp only [eventsFrom, padOf, nil_append, runFrom_append, Nat.add_zero]
      | some m => simp only [eventsFrom, padOf, cons_append, nil_append, runFrom, foldl_cons, foldl_append, step, stepWith]
    obtain ⟨k1, y1, _, _, _, _, hfull, hst⟩ :=
      runFrom_fileEvents_take hflag done (y0 + padOf align prev) (blocksOf B n) (fileEvents (blocksOf B n)).length
    rw [take_length] at hst
    obtain ⟨hk, hy⟩ := hfull (Nat.le_refl _)
    subst hk; subst hy
    rw [blocksOf_sum B n hB] at hst
    rw [hP, hst, ih]
    simp only [viewOf, take_succ_cons, take_zero, map_cons, map_nil, layoutFrom, padOf_some]
    rw [clip_done _ _ _ (Nat.le_refl _) (by omega)]
    simp [append_assoc]

theorem stateAt_view (hflag : Gen.streamEndAdvancedInReadLoop = true) (hB : 0 < Gen.pieceSize) (align : Nat) (sizes : List Nat)
    (t : Nat) :
    ∃ k, (stateAt align sizes t).files = viewOf (layout align sizes) k (stateAt align sizes t).yielded ∧
      ∀ f ∈ (layout align sizes).drop k, (stateAt align sizes t).yielded ≤ f.1 := by
  obtain ⟨k, y, _, hst, hdrop⟩ := runFrom_eventsFrom_take hflag align Gen.pieceSize hB sizes none [] 0 t
  simp only [padOf, Nat.add_zero, nil_append] at hst hdrop
  refine ⟨k, ?_⟩
  unfold stateAt run events layout
  rw [hst]
  exact ⟨rfl, hdrop⟩

/-! ## `_chunk_done` on a view -/
theorem viewOf_sorted (files : List Span) (hs : SpansSorted files) (k y : Nat) : SpansSorted (viewOf files k y) := by
  unfold viewOf
  refine ⟨?_, ?_⟩
  · rw [pairwise_map]
    refine ((hs.1.sublist (take_sublist k files)).imp_of_mem ?_)
    intro a b ha _ hab
    have := hs.2 a ((take_sublist k files).subset ha)
    simp only [clip]; omega
  · intro a ha
    obtain ⟨f, hf, rfl⟩ := mem_map.mp ha
    have := hs.2 f ((take_sublist k files).subset hf)
    simp only [clip]; omega

/-- what chunk `c` contributes to file `i`: on the view the same non-empty reference as on the final layout -/
theorem contrib_view (files : List Span) (k y i j : Nat) (c : Span) (hc : c.1 ≤ c.2) (hy : c.2 ≤ y)
    (hdrop : ∀ f ∈ files.drop k, y ≤ f.1) :
    (contrib (viewOf files k y) i j c).filter nonEmpty = (contrib files i j c).filter nonEmpty := by
  unfold contrib viewOf
  rw [getElem?_map, getElem?_take]
  by_cases hik : i < k
  · simp only [hik, if_true]
    cases hfi : files[i]? with
    | none => rfl
    | some f =>
      simp only [Option.map_some, clip]
      have hcond : (f.1 < c.2 + 1 ∧ c.1 ≤ min f.2 (max f.1 y)) ↔ (f.1 < c.2 + 1 ∧ c.1 ≤ f.2) := by omega
      have href : refOf (f.1, min f.2 (max f.1 y)) j c = refOf f j c := by
        simp only [refOf, Gen.partStart_eq, Gen.partEnd_eq]
        have : min (min f.2 (max f.1 y)) c.2 = min f.2 c.2 := by omega
        rw [this]
      by_cases h : f.1 < c.2 + 1 ∧ c.1 ≤ f.2
      · rw [if_pos (hcond.mpr h), if_pos h, href]
      · rw [if_neg (fun h' => h (hcond.mp h')), if_neg h]
  · simp only [hik, if_false, Option.map_none]
    cases hfi : files[i]? with
    | none => rfl
    | some f =>
      have hmem : f ∈ files.drop k := by
        have : (files.drop k)[i - k]? = some f := by rw [getElem?_drop]; rw [← hfi]; congr 1; omega
        exact mem_of_getElem? this
      have hyf := hdrop f hmem
      by_cases h : f.1 < c.2 + 1 ∧ c.1 ≤ f.2
      · simp only [h, and_self, if_true, filter_nil]
        have : nonEmpty (refOf f j c) = false := by
          simp only [nonEmpty, refOf, Gen.partStart_eq, Gen.partEnd_eq]
          exact decide_eq_false (by omega)
        simp [this]
      · simp [h]

theorem flatMap_congr_mem {α β : Type} (l : List α) (f g : α → List β) (h : ∀ x ∈ l, f x = g x) : l.flatMap f = l.flatMap g := by
  induction l with
  | nil => rfl
  | cons a l ih =>
    simp only [flatMap_cons]
    rw [h a mem_cons_self, ih (fun x hx => h x (mem_cons_of_mem _ hx))]

theorem refsOfIn_recordsAt (view : Nat → List Span) (spans : List Span) (order : List Nat)
    (hs : ∀ j ∈ order, SpansSorted (view j)) (i : Nat) (recs : Records) :
    refsOfIn (order.foldl (fun recs j => applyDone (view j) spans recs j) recs) i
      = refsOfIn recs i ++ order.flatMap (fun j => contribAt (view j) spans i j) := by
  induction order generalizing recs with
  | nil => simp
  | cons j order ih =>
    simp only [foldl_cons, flatMap_cons]
    rw [ih (fun j' hj' => hs j' (mem_cons_of_mem _ hj'))]
    unfold applyDone contribAt
    cases hj : spans[j]? with
    | none => simp
    | some c =>
      simp only
      rw [refsOfIn_foldl_addRef, chunkDone_contrib (view j) (hs j mem_cons_self), append_assoc]

/-- a view of the producer at the moment chunk `j` is attributed: a clipped prefix of the final layout that covers the chunk -/
def ValidView (files spans : List Span) (view : Nat → List Span) (j : Nat) : Prop :=
  ∃ k y, view j = viewOf files k y ∧ (∀ f ∈ files.drop k, y ≤ f.1) ∧ ∀ c, spans[j]? = some c → c.1 ≤ c.2 ∧ c.2 ≤ y

theorem recordsAt_nonEmpty (files spans : List Span) (hs : SpansSorted files) (view : Nat → List Span) (order : List Nat)
    (hview : ∀ j ∈ order, ValidView files spans view j) (i : Nat) :
    (refsOfIn (recordsAt view spans order) i).filter nonEmpty = (refsOfIn (records files spans order) i).filter nonEmpty := by
  have hsv : ∀ j ∈ order, SpansSorted (view j) := by
    intro j hj
    obtain ⟨k, y, hv, _, _⟩ := hview j hj
    rw [hv]; exact viewOf_sorted files hs k y
  unfold recordsAt records
  rw [refsOfIn_recordsAt view spans order hsv i [], refsOfIn_records files spans hs order i []]
  have h0 : refsOfIn [] i = [] := rfl
  rw [h0, nil_append, nil_append, filter_flatMap, filter_flatMap]
  apply flatMap_congr_mem
  intro j hj
  obtain ⟨k, y, hv, hdrop, hc⟩ := hview j hj
  unfold contribAt
  cases hsj : spans[j]? with
  | none => rfl
  | some c =>
    obtain ⟨hc1, hc2⟩ := hc c hsj
    simp only
    rw [hv, contrib_view files k y i j c hc1 hc2 hdrop]

/-! ## restore: empty references neither write nor move the position -/
theorem parts_filter_nonEmpty (chunks : List Bytes) (l : List Ref) (pos : Nat) :
    ((planFrom pos (l.filter nonEmpty)).map (partData chunks)).flatten = ((planFrom pos l).map (partData chunks)).flatten := by
  induction l generalizing pos with
  | nil => rfl
  | cons r l ih =>
    by_cases h : nonEmpty r = true
    · rw [filter_cons_of_pos h]
      simp only [planFrom, map_cons, flatten_cons, ih]
    · rw [filter_cons_of_neg h]
      have hz : r.hi - r.lo = 0 := by
        simp only [nonEmpty, decide_eq_true_eq] at h; omega
      simp only [planFrom, map_cons, flatten_cons, hz, Nat.add_zero]
      have : partData chunks (r.counter, r.lo, 0, pos) = [] := by
        unfold partData
        cases chunks[r.counter - 1]? with
        | none => rfl
        | some c => exact slice_empty_of_le c (by simp)
      rw [this, nil_append, ih]

/-- sorting by counter recovers the non-empty references of the sequential run -/
theorem sort_filter_eq (T refs : List Ref) (hT : T.Pairwise (fun a b => a.counter < b.counter))
    (hp : refs.filter nonEmpty ~ T.filter nonEmpty) :
    (refs.mergeSort refLE).filter nonEmpty = T.filter nonEmpty := by
  have hTf : (T.filter nonEmpty).Pairwise (fun a b => a.counter < b.counter) := hT.sublist filter_sublist
  have hsorted : (T.filter nonEmpty).Pairwise (fun a b => refLE a b = true) :=
    hTf.imp (fun {a b} h => by simp [refLE]; omega)
  have hms : ((refs.mergeSort refLE).filter nonEmpty).Pairwise (fun a b => refLE a b = true) :=
    (pairwise_mergeSort (le := refLE) (fun a b c => by simp [refLE]; omega) (fun a b => by simp [refLE]; omega) refs).sublist
      filter_sublist
  have hperm : (refs.mergeSort refLE).filter nonEmpty ~ T.filter nonEmpty := ((mergeSort_perm refs refLE).filter _).trans hp
  apply Perm.eq_of_pairwise (le := fun a b => refLE a b = true) _ hms hsorted hperm
  intro a b ha hb hab hba
  have ha' : a ∈ T.filter nonEmpty := hperm.subset ha
  rcases pairwise_mem_cases hTf ha' hb with h | h | h
  · exact h
  · simp [refLE] at hab hba; omega
  · simp [refLE] at hab hba; omega

end Replicat.Inflight
