import ReplicatProofs.Lemmas.RepoStep
/-! Lemmas for C03: accepted traces of a staged plan; consistency under chunk puts, snapshot puts, snapshot deletes and deletes of
unreferenced chunks.  (`Consistent` is restated here as in the C02 design: WF ∧ every snapshot's table chunks present ∧ every file of a
snapshot needs only chunks of its table.)  Namespace `Replicat.Crash`. -/
namespace Replicat.Crash
open Replicat.Repo Replicat.P18 List

/-! ## the invariant -/
/-- every VISIBLE (= listed) snapshot is complete: each chunk of its table is present with the right content -/
def SnapComplete (s : Store) : Prop :=
  ∀ f sid b, get s (.snap f sid) = some (.snap f sid b) → ∀ c ∈ b.chunks, get s (.chunk f c) = some (.chunk f c)

/-- the files of a snapshot reference chunks of its own table only (true of every snapshot replicat writes: C01 `refs_tile`) -/
def BodiesClosed (s : Store) : Prop :=
  ∀ f sid b, get s (.snap f sid) = some (.snap f sid b) → ∀ fr ∈ b.files, ∀ c ∈ fr.needs, c ∈ b.chunks

def Consistent (s : Store) : Prop := WF s ∧ SnapComplete s ∧ BodiesClosed s

/-- an unencrypted repository has one key family (`enc = false` ⇒ every chunk / snapshot name belongs to the caller's family) -/
def FamOK (enc : Bool) (fam : Fam) (s : Store) : Prop :=
  enc = false → ∀ e ∈ s, match e.1 with
    | .chunk f _ => f = fam
    | .snap f _ => f = fam
    | _ => True

def userOf : Op → User
  | .snapshot u .. => u
  | .delete u _ => u
  | .clean u => u

/-- side conditions on a command: a snapshot's files need only chunks of its stream; single family when unencrypted -/
def OpOK (enc : Bool) (s : Store) (op : Op) : Prop :=
  FamOK enc (userOf op).fam s ∧
  match op with
  | .snapshot _ stream files _ _ => ∀ fr ∈ files, ∀ c ∈ fr.needs, c ∈ stream
  | _ => True

/-- no listed snapshot of family `f` references chunk `c` -/
def Unref (s : Store) (f : Fam) (c : Content) : Prop :=
  ∀ sid b, get s (.snap f sid) = some (.snap f sid b) → c ∉ b.chunks

/-- the chunk objects of family `f` are exactly the chunks referenced by its listed snapshots -/
def Exact (f : Fam) (s : Store) : Prop :=
  ∀ c, (get s (.chunk f c)).isSome = true ↔ ∃ sid b, get s (.snap f sid) = some (.snap f sid b) ∧ c ∈ b.chunks

/-! ## accepted traces of a staged plan -/
theorem normalizePlan_cons (st : List Mut) (rest : Plan) :
    normalizePlan (st :: rest) = if st.isEmpty then normalizePlan rest else st :: rest := by
  rw [normalizePlan]

theorem normalizePlan_idem (p : Plan) : normalizePlan (normalizePlan p) = normalizePlan p := by
  induction p with
  | nil => rfl
  | cons st rest ih =>
    rw [normalizePlan_cons]
    by_cases h : st.isEmpty = true
    · simp only [h, if_true]; exact ih
    · simp only [h, Bool.false_eq_true, if_false]
      rw [normalizePlan_cons]
      simp [h]

theorem acceptsPrefix_normalize (p : Plan) (tr : List Mut) : acceptsPrefix (normalizePlan p) tr = acceptsPrefix p tr := by
  cases tr with
  | nil => simp [acceptsPrefix]
  | cons m ms => simp only [acceptsPrefix, normalizePlan_idem]

theorem acceptsPrefix_nil_plan (tr : List Mut) (h : acceptsPrefix [] tr = true) : tr = [] := by
  cases tr with
  | nil => rfl
  | cons m ms => simp [acceptsPrefix, normalizePlan] at h

/-- an accepted trace either stays inside the first stage, or completes it (in some order) and continues with the rest -/
theorem acceptsPrefix_cases (stage : List Mut) (rest : Plan) (tr : List Mut) (h : acceptsPrefix (stage :: rest) tr = true) :
    (∀ m ∈ tr, m ∈ stage) ∨ ∃ t1 t2, tr = t1 ++ t2 ∧ t1.Perm stage ∧ acceptsPrefix rest t2 = true := by
  induction tr generalizing stage with
  | nil => exact Or.inl (by simp)
  | cons m ms ih =>
    by_cases hemp : stage.isEmpty = true
    · have hst : stage = [] := by simpa using hemp
      subst hst
      refine Or.inr ⟨[], m :: ms, rfl, Perm.refl _, ?_⟩
      rw [← acceptsPrefix_normalize] at h
      have : normalizePlan ([] :: rest) = normalizePlan rest := by simp [normalizePlan_cons]
      rw [this, acceptsPrefix_normalize] at h
      exact h
    · have hn : normalizePlan (stage :: rest) = stage :: rest := by simp [normalizePlan_cons, hemp]
      simp only [acceptsPrefix, hn] at h
      split at h
      · rename_i hc
        have hmem : m ∈ stage := by simpa using hc
        rcases ih (stage.erase m) h with h1 | ⟨t1, t2, rfl, hp, hacc⟩
        · left
          intro x hx
          rcases mem_cons.mp hx with rfl | hx'
          · exact hmem
          · exact mem_of_mem_erase (h1 x hx')
        · right
          exact ⟨m :: t1, t2, rfl, (hp.cons m).trans (perm_cons_erase hmem).symm, hacc⟩
      · cases h

/-- a call that never completes blocks its stage: nothing of a later stage happens -/
theorem stuck_in_stage (stage : List Mut) (rest : Plan) (tr : List Mut) (m : Mut) (hm : m ∈ stage) (hnot : m ∉ tr)
    (h : acceptsPrefix (stage :: rest) tr = true) : ∀ x ∈ tr, x ∈ stage := by
  rcases acceptsPrefix_cases stage rest tr h with h1 | ⟨t1, t2, rfl, hp, _⟩
  · exact h1
  · exact absurd (mem_append_left _ (hp.mem_iff.mpr hm)) hnot

/-! ## applying mutations -/
theorem applyMuts_append (s : Store) (a b : List Mut) : applyMuts s (a ++ b) = applyMuts (applyMuts s a) b := by
  unfold applyMuts; rw [foldl_append]

theorem applyMuts_cons (s : Store) (m : Mut) (t : List Mut) : applyMuts s (m :: t) = applyMuts (applyMut s m) t := rfl

theorem applyMuts_dels (s : Store) (ns : List Name) : applyMuts s (ns.map Mut.del) = delAll s ns := by
  unfold applyMuts delAll
  induction ns generalizing s with
  | nil => rfl
  | cons n ns ih => simp only [map_cons, foldl_cons, applyMut]; exact ih _

/-- invariants are carried along a trace one mutation at a time -/
theorem applyMuts_induct {P : Store → Prop} {Q : Mut → Prop} (hstep : ∀ s m, P s → Q m → P (applyMut s m))
    (s : Store) (t : List Mut) (hs : P s) (ht : ∀ m ∈ t, Q m) : P (applyMuts s t) := by
  induction t generalizing s with
  | nil => exact hs
  | cons m t ih =>
    rw [applyMuts_cons]
    exact ih _ (hstep s m hs (ht m (by simp))) (fun x hx => ht x (by simp [hx]))

theorem get_applyMuts_dels (s : Store) (t : List Mut) (ht : ∀ m ∈ t, ∃ n, m = Mut.del n) (n : Name) :
    get (applyMuts s t) n = if Mut.del n ∈ t then none else get s n := by
  induction t generalizing s with
  | nil => simp [applyMuts]
  | cons m t ih =>
    rw [applyMuts_cons, ih _ (fun x hx => ht x (by simp [hx]))]
    obtain ⟨n', rfl⟩ := ht m (by simp)
    by_cases h1 : Mut.del n ∈ t
    · simp [h1]
    · by_cases h2 : n = n'
      · subst h2; simp [applyMut, get_del_same]
      · have : Mut.del n ≠ Mut.del n' := by intro h; cases h; exact h2 rfl
        simp [h1, applyMut, get_del_other s n' n h2, this]

/-! ## single mutations and the invariant -/
theorem consistent_put_chunk {s : Store} (hs : Consistent s) (f : Fam) (c : Content) :
    Consistent (put s (.chunk f c) (.chunk f c)) := by
  obtain ⟨hwf, hsc, hbc⟩ := hs
  refine ⟨hwf.put _ _ ⟨rfl, rfl⟩, ?_, ?_⟩
  · intro f' sid b hg c' hc'
    rw [get_put_other _ _ _ _ (by intro h; cases h)] at hg
    by_cases heq : Name.chunk f' c' = Name.chunk f c
    · cases heq; exact get_put_same _ _ _
    · rw [get_put_other _ _ _ _ heq]; exact hsc f' sid b hg c' hc'
  · intro f' sid b hg
    rw [get_put_other _ _ _ _ (by intro h; cases h)] at hg
    exact hbc f' sid b hg

theorem consistent_put_snap {s : Store} (hs : Consistent s) (f : Fam) (sid : Nat) (b : Body)
    (hpres : ∀ c ∈ b.chunks, get s (.chunk f c) = some (.chunk f c)) (hcl : ∀ fr ∈ b.files, ∀ c ∈ fr.needs, c ∈ b.chunks) :
    Consistent (put s (.snap f sid) (.snap f sid b)) := by
  obtain ⟨hwf, hsc, hbc⟩ := hs
  refine ⟨hwf.put _ _ ⟨rfl, rfl⟩, ?_, ?_⟩
  · intro f' sid' b' hg c' hc'
    rw [get_put_other _ _ _ _ (by intro h; cases h)]
    by_cases heq : Name.snap f' sid' = Name.snap f sid
    · cases heq
      rw [get_put_same] at hg
      cases hg
      exact hpres c' hc'
    · rw [get_put_other _ _ _ _ heq] at hg; exact hsc f' sid' b' hg c' hc'
  · intro f' sid' b' hg
    by_cases heq : Name.snap f' sid' = Name.snap f sid
    · cases heq
      rw [get_put_same] at hg
      cases hg
      exact hcl
    · rw [get_put_other _ _ _ _ heq] at hg; exact hbc f' sid' b' hg

theorem consistent_del_snap {s : Store} (hs : Consistent s) (f : Fam) (sid : Nat) : Consistent (del s (.snap f sid)) := by
  obtain ⟨hwf, hsc, hbc⟩ := hs
  refine ⟨hwf.del _, ?_, ?_⟩
  · intro f' sid' b hg c hc
    have hne : Name.snap f' sid' ≠ Name.snap f sid := by
      intro h; rw [h, get_del_same] at hg; cases hg
    rw [get_del_other _ _ _ hne] at hg
    rw [get_del_other _ _ _ (by intro h; cases h)]
    exact hsc f' sid' b hg c hc
  · intro f' sid' b hg
    have hne : Name.snap f' sid' ≠ Name.snap f sid := by
      intro h; rw [h, get_del_same] at hg; cases hg
    rw [get_del_other _ _ _ hne] at hg
    exact hbc f' sid' b hg

theorem consistent_del_chunk {s : Store} (hs : Consistent s) (f : Fam) (c : Content) (hu : Unref s f c) :
    Consistent (del s (.chunk f c)) := by
  obtain ⟨hwf, hsc, hbc⟩ := hs
  refine ⟨hwf.del _, ?_, ?_⟩
  · intro f' sid b hg c' hc'
    rw [get_del_other _ _ _ (by intro h; cases h)] at hg
    have hne : Name.chunk f' c' ≠ Name.chunk f c := by
      intro h; cases h; exact hu sid b hg hc'
    rw [get_del_other _ _ _ hne]
    exact hsc f' sid b hg c' hc'
  · intro f' sid b hg
    rw [get_del_other _ _ _ (by intro h; cases h)] at hg
    exact hbc f' sid b hg

theorem unref_del_chunk {s : Store} {f f' : Fam} {c c' : Content} (hu : Unref s f c) : Unref (del s (.chunk f' c')) f c := by
  intro sid b hg
  rw [get_del_other _ _ _ (by intro h; cases h)] at hg
  exact hu sid b hg

/-! ## traces of one kind -/
def IsChunkPut (m : Mut) : Prop := ∃ f c, m = Mut.put (.chunk f c) (.chunk f c)
def IsSnapDel (m : Mut) : Prop := ∃ f sid, m = Mut.del (.snap f sid)

theorem consistent_chunkPuts (s : Store) (t : List Mut) (hs : Consistent s) (ht : ∀ m ∈ t, IsChunkPut m) :
    Consistent (applyMuts s t) :=
  applyMuts_induct (P := Consistent) (Q := IsChunkPut)
    (fun s m h ⟨f, c, hm⟩ => by subst hm; exact consistent_put_chunk h f c) s t hs ht

theorem consistent_snapDels (s : Store) (t : List Mut) (hs : Consistent s) (ht : ∀ m ∈ t, IsSnapDel m) :
    Consistent (applyMuts s t) :=
  applyMuts_induct (P := Consistent) (Q := IsSnapDel)
    (fun s m h ⟨f, sid, hm⟩ => by subst hm; exact consistent_del_snap h f sid) s t hs ht

/-- chunk puts do not touch names that are not chunks -/
theorem get_chunkPuts_other (s : Store) (t : List Mut) (ht : ∀ m ∈ t, IsChunkPut m) (n : Name) (hn : ∀ f c, n ≠ .chunk f c) :
    get (applyMuts s t) n = get s n := by
  induction t generalizing s with
  | nil => rfl
  | cons m t ih =>
    rw [applyMuts_cons, ih _ (fun x hx => ht x (by simp [hx]))]
    obtain ⟨f, c, rfl⟩ := ht m (by simp)
    exact get_put_other _ _ _ _ (hn f c)

/-- a chunk that is present (with its content) stays present under chunk puts -/
theorem chunk_stays (s : Store) (t : List Mut) (ht : ∀ m ∈ t, IsChunkPut m) (f : Fam) (c : Content)
    (h : get s (.chunk f c) = some (.chunk f c)) : get (applyMuts s t) (.chunk f c) = some (.chunk f c) := by
  induction t generalizing s with
  | nil => exact h
  | cons m t ih =>
    rw [applyMuts_cons]
    apply ih _ (fun x hx => ht x (by simp [hx]))
    obtain ⟨f', c', rfl⟩ := ht m (by simp)
    by_cases heq : Name.chunk f c = Name.chunk f' c'
    · cases heq; exact get_put_same _ _ _
    · simp only [applyMut]; rw [get_put_other _ _ _ _ heq]; exact h

/-- a chunk put that occurs in the trace leaves the chunk present -/
theorem chunk_put_present (s : Store) (t : List Mut) (ht : ∀ m ∈ t, IsChunkPut m) (f : Fam) (c : Content)
    (h : Mut.put (.chunk f c) (.chunk f c) ∈ t) : get (applyMuts s t) (.chunk f c) = some (.chunk f c) := by
  induction t generalizing s with
  | nil => cases h
  | cons m t ih =>
    rw [applyMuts_cons]
    have ht' : ∀ x ∈ t, IsChunkPut x := fun x hx => ht x (by simp [hx])
    rcases mem_cons.mp h with rfl | h'
    · exact chunk_stays _ t ht' f c (get_put_same _ _ _)
    · exact ih _ ht' h'

/-- deletes of chunks no listed snapshot references keep the repository consistent -/
theorem consistent_unrefDels (s : Store) (t : List Mut) (hs : Consistent s)
    (ht : ∀ m ∈ t, ∃ f c, m = Mut.del (.chunk f c) ∧ Unref s f c) : Consistent (applyMuts s t) := by
  induction t generalizing s with
  | nil => exact hs
  | cons m t ih =>
    rw [applyMuts_cons]
    obtain ⟨f, c, rfl, hu⟩ := ht m (by simp)
    apply ih _ (consistent_del_chunk hs f c hu)
    intro x hx
    obtain ⟨f', c', rfl, hu'⟩ := ht x (by simp [hx])
    exact ⟨f', c', rfl, unref_del_chunk hu'⟩

/-! ## the upload loop of `snapshot` -/
theorem uploadChunk_names (u : User) (stream : List Content) (acc : Store × List Name) :
    (∀ n ∈ (stream.foldl (uploadChunk u) acc).2, n ∈ acc.2 ∨ ∃ c ∈ stream, n = .chunk u.fam c) ∧
    (∀ n ∈ acc.2, n ∈ (stream.foldl (uploadChunk u) acc).2) ∧
    (∀ c ∈ stream, (get acc.1 (.chunk u.fam c)).isSome = true ∨ Name.chunk u.fam c ∈ (stream.foldl (uploadChunk u) acc).2) := by
  induction stream generalizing acc with
  | nil => exact ⟨fun n h => Or.inl h, fun n h => h, fun c h => by cases h⟩
  | cons c cs ih =>
    obtain ⟨h1, h2, h3⟩ := ih (uploadChunk u acc c)
    simp only [foldl_cons]
    have hacc2 : ∀ n ∈ acc.2, n ∈ (uploadChunk u acc c).2 := by
      intro n hn; unfold uploadChunk; split
      · exact hn
      · exact mem_append_left _ hn
    refine ⟨?_, fun n hn => h2 n (hacc2 n hn), ?_⟩
    · intro n hn
      rcases h1 n hn with h | ⟨c', hc', rfl⟩
      · unfold uploadChunk at h
        split at h
        · exact Or.inl h
        · rcases mem_append.mp h with h' | h'
          · exact Or.inl h'
          · simp only [mem_singleton] at h'
            exact Or.inr ⟨c, by simp, h'⟩
      · exact Or.inr ⟨c', by simp [hc'], rfl⟩
    · intro c' hc'
      rcases mem_cons.mp hc' with rfl | hc''
      · by_cases hp : (get acc.1 (.chunk u.fam c')).isSome = true
        · exact Or.inl hp
        · right
          apply h2
          unfold uploadChunk
          simp [hp]
      · rcases h3 c' hc'' with h | h
        · by_cases heq : c' = c
          · subst heq
            by_cases hp : (get acc.1 (.chunk u.fam c')).isSome = true
            · exact Or.inl hp
            · right; apply h2; unfold uploadChunk; simp [hp]
          · unfold uploadChunk at h
            split at h
            · exact Or.inl h
            · rw [get_put_other _ _ _ _ (by intro hh; cases hh; exact heq rfl)] at h
              exact Or.inl h
        · exact Or.inr h

theorem mem_dedupKeepFirstC {l : List Content} {c : Content} (h : c ∈ dedupKeepFirstC l) : c ∈ l := by
  unfold dedupKeepFirstC at h
  suffices H : ∀ (l acc : List Content), c ∈ l.foldl (fun acc a => if acc.contains a then acc else acc ++ [a]) acc → c ∈ acc ∨ c ∈ l by
    rcases H l [] h with h' | h'
    · cases h'
    · exact h'
  intro l
  induction l with
  | nil => intro acc h; exact Or.inl h
  | cons a l ih =>
    intro acc h
    simp only [foldl_cons] at h
    rcases ih _ h with h' | h'
    · split at h'
      · exact Or.inl h'
      · rcases mem_append.mp h' with h'' | h''
        · exact Or.inl h''
        · simp only [mem_singleton] at h''; subst h''; exact Or.inr (by simp)
    · exact Or.inr (by simp [h'])

end Replicat.Crash
