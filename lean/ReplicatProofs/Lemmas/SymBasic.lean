import ReplicatModel.Sym
/-! Helper lemmas about the symbolic model: AEAD inversion, codecs, MAC towers, the restore pipeline. -/
namespace Replicat.Sym
open Term (pub sec nonce key nil pair mac kdf enc)

/-! ## AEAD -/
@[simp] theorem dec_enc (k n m : Term) : dec k (enc k n m) = some m := by simp [dec]

theorem dec_eq_some {k c m : Term} (h : dec k c = some m) : ∃ n, c = enc k n m := by
  unfold dec at h
  split at h
  · rename_i k' n m'
    split at h
    · rename_i hk
      cases h
      exact ⟨n, by rw [hk]⟩
    · cases h
  · cases h

theorem dec_enc_ne {k k' n m : Term} (h : k' ≠ k) : dec k (enc k' n m) = none := by simp [dec, h]

/-! ## codecs -/
theorem decList_encList {α : Type} (f : α → Term) (g : Term → Option α) (hfg : ∀ a, g (f a) = some a) (l : List α) :
    decList g (encList f l) = some l := by
  induction l with
  | nil => rfl
  | cons a l ih => simp [encList, decList, hfg, ih]

@[simp] theorem decRef_encRef (r : Ref) : decRef (encRef r) = some r := rfl

@[simp] theorem decFile_encFile (f : FileRec) : decFile (encFile f) = some f := by
  simp [encFile, decFile, decList_encList encRef decRef decRef_encRef]

@[simp] theorem decData_encData (d : Data) : decData (encData d) = some d := by
  simp [encData, decData, decList_encList encFile decFile decFile_encFile]

@[simp] theorem decTable_encTable (t : List Term) : decTable (encTable t) = some t := by
  unfold decTable encTable
  exact decList_encList id some (fun _ => rfl) t

@[simp] theorem decPrivate_privateTerm (sh : Shared) : decPrivate (privateTerm sh) = some sh := rfl

/-! ## MAC towers -/
theorem public_macN_succ {k : Term} (hk : Public k = false) (n : Nat) (t : Term) : Public (macN k (n + 1) t) = true := by
  simp [macN, Public, hk]

theorem isMac_macN_succ (k : Term) (n : Nat) (t : Term) : isMac (macN k (n + 1) t) = true := rfl

/-! ## the body a reader gets from an honestly written snapshot -/
theorem decryptBody_stored (p : Props) (n1 n2 : Term) (table : List Term) (data : Data) :
    decryptBody p (snapshotStored p n1 n2 (encTable table) (encData data)) = .ok (table, some data) := by
  unfold snapshotStored decryptBody
  by_cases he : p.encrypted = true
  · simp [he]
  · simp [he]

/-- a reader of the same key family but with another user key sees the chunk table only -/
theorem decryptBody_foreign (p q : Props) (hp : p.encrypted = true) (hq : q.encrypted = true) (hsh : q.sh = p.sh)
    (hk : q.userKey ≠ p.userKey) (n1 n2 : Term) (table : List Term) (data : Data) :
    decryptBody q (snapshotStored p n1 n2 (encTable table) (encData data)) = .ok (table, none) := by
  unfold snapshotStored decryptBody
  have hsub : ∀ c, subKey q c = subKey p c := by intro c; simp [subKey, hsh]
  have hfl : Gen.snapForeignDataTolerated = true := by decide
  simp [hp, hq, hsub, dec_enc_ne (Ne.symm hk), hfl]

/-! ## verification -/
theorem verifyChunk_ok_digest {p : Props} {d obj m : Term} (h : verifyChunk p d obj = .ok m) : digest m = d := by
  have hv : Gen.chunkDigestVerified = true := by decide
  unfold verifyChunk at h
  simp only [hv, Bool.true_and] at h
  split at h
  · cases h
  · rename_i m' _
    split at h
    · cases h
    · rename_i hne
      cases h
      simpa using hne

theorem digest_inj {a b : Term} (h : digest a = digest b) : a = b := by
  unfold digest at h
  exact Term.hash.inj h

theorem fetchChunk_ok_digest {p : Props} {s : Store} {d m : Term} (h : fetchChunk p s d = .ok m) : digest m = d := by
  unfold fetchChunk at h
  split at h
  · cases h
  · exact verifyChunk_ok_digest h

theorem loadSnapshot_some {p : Props} {tag name obj : Term} {r : List Term × Option Data}
    (h : loadSnapshot p tag name obj = .ok (some r)) : Term.hash obj = name ∧ decryptBody p obj = .ok r := by
  have hv : Gen.snapDigestVerified = true := by decide
  unfold loadSnapshot at h
  split at h
  · cases h
  · simp only [hv, Bool.true_and] at h
    split at h
    · cases h
    · rename_i hne
      split at h
      · cases h
      · rename_i r' hr
        cases h
        exact ⟨by simpa using hne, hr⟩

/-! ## restore pipeline -/
theorem mem_insertBy {α : Type} (le : α → α → Bool) (a x : α) (l : List α) : x ∈ insertBy le a l ↔ x = a ∨ x ∈ l := by
  induction l with
  | nil => simp [insertBy]
  | cons b bs ih =>
    unfold insertBy
    split
    · simp
    · simp only [List.mem_cons, ih]
      constructor
      · rintro (h | h | h)
        · exact Or.inr (Or.inl h)
        · exact Or.inl h
        · exact Or.inr (Or.inr h)
      · rintro (h | h | h)
        · exact Or.inr (Or.inl h)
        · exact Or.inl h
        · exact Or.inr (Or.inr h)

theorem mem_isort {α : Type} (le : α → α → Bool) (x : α) (l : List α) : x ∈ isort le l ↔ x ∈ l := by
  induction l with
  | nil => simp [isort]
  | cons a as ih => simp [isort, mem_insertBy, ih]

theorem loadAll_sound (p : Props) (target : Term) (stored0 : Term) (b0 : List Term × Data)
    (ht : target = snapshotName stored0) (hb : decryptBody p stored0 = .ok (b0.1, some b0.2))
    (entries : List (Term × Term × Term)) (bodies : List (List Term × Data))
    (h : loadAll p target entries = .ok bodies) : ∀ b ∈ bodies, b = b0 := by
  induction entries generalizing bodies with
  | nil => simp [loadAll] at h; subst h; simp
  | cons e rest ih =>
    obtain ⟨tag, name, obj⟩ := e
    unfold loadAll at h
    split at h
    · exact ih bodies h
    · rename_i hname
      have hname' : name = target := by simpa using hname
      split at h
      · cases h
      · rename_i r hr
        split at h
        · cases h
        · rename_i bs hbs
          have ihb := ih bs hbs
          split at h
          · rename_i table data
            cases h
            obtain ⟨hh, hd⟩ := loadSnapshot_some hr
            have hobj : obj = stored0 := by
              rw [hname', ht] at hh
              exact Term.hash.inj hh
            rw [hobj, hb] at hd
            have : (b0.1, some b0.2) = (table, some data) := by
              injection hd
            intro b hbm
            rcases List.mem_cons.mp hbm with rfl | hbm
            · cases b0
              simp at this
              obtain ⟨h1, h2⟩ := this
              subst h1; subst h2; rfl
            · exact ihb b hbm
          · cases h
            exact ihb

theorem selectStep_mem (table : List Term) (files : List FileRec) (acc : List (List Term × FileRec) × List Term) :
    ∀ x ∈ (files.foldl (fun (acc : List (List Term × FileRec) × List Term) f =>
        if acc.2.contains f.path then acc else (acc.1 ++ [(table, f)], acc.2 ++ [f.path])) acc).1,
      x ∈ acc.1 ∨ (x.1 = table ∧ x.2 ∈ files) := by
  induction files generalizing acc with
  | nil => intro x hx; exact Or.inl hx
  | cons f fs ih =>
    intro x hx
    simp only [List.foldl_cons] at hx
    rcases ih _ x hx with h | ⟨h1, h2⟩
    · split at h
      · exact Or.inl h
      · simp only [List.mem_append, List.mem_singleton] at h
        rcases h with h | h
        · exact Or.inl h
        · subst h
          exact Or.inr ⟨rfl, by simp⟩
    · exact Or.inr ⟨h1, List.mem_cons_of_mem _ h2⟩

theorem selectFiles_mem (bodies : List (List Term × Data)) (seen : List Term) :
    ∀ x ∈ selectFiles bodies seen, ∃ b ∈ bodies, x.1 = b.1 ∧ x.2 ∈ b.2.files := by
  induction bodies generalizing seen with
  | nil => intro x hx; simp [selectFiles] at hx
  | cons b rest ih =>
    obtain ⟨table, data⟩ := b
    intro x hx
    simp only [selectFiles, List.mem_append] at hx
    rcases hx with hx | hx
    · rcases selectStep_mem table data.files ([], seen) x hx with h | ⟨h1, h2⟩
      · simp at h
      · exact ⟨(table, data), by simp, h1, h2⟩
    · obtain ⟨b, hb, h1, h2⟩ := ih _ x hx
      exact ⟨b, List.mem_cons_of_mem _ hb, h1, h2⟩

theorem restoreFiles_mem (fetch : Term → Except Err Term) (l : List (List Term × FileRec)) (out : List (Term × List Part))
    (h : restoreFiles fetch l = .ok out) :
    ∀ w ∈ out, ∃ x ∈ l, w.1 = x.2.path ∧ restoreParts fetch x.1 (isort refLE x.2.refs) = .ok w.2 := by
  induction l generalizing out with
  | nil => simp [restoreFiles] at h; subst h; simp
  | cons x rest ih =>
    obtain ⟨table, f⟩ := x
    unfold restoreFiles at h
    split at h
    · cases h
    · rename_i ps hps
      split at h
      · cases h
      · rename_i out' hout
        cases h
        intro w hw
        rcases List.mem_cons.mp hw with rfl | hw
        · exact ⟨(table, f), by simp, rfl, hps⟩
        · obtain ⟨x, hx, h1, h2⟩ := ih out' hout w hw
          exact ⟨x, List.mem_cons_of_mem _ hx, h1, h2⟩

theorem restoreParts_sound (fetch : Term → Except Err Term) (hf : ∀ d m, fetch d = .ok m → digest m = d)
    (contents : List Term) (refs : List Ref) (ps : List Part)
    (h : restoreParts fetch (contents.map digest) refs = .ok ps) : honestParts contents refs = some ps := by
  induction refs generalizing ps with
  | nil => simp [restoreParts] at h; subst h; rfl
  | cons r rs ih =>
    unfold restoreParts at h
    split at h
    · cases h
    · rename_i d hd
      split at h
      · cases h
      · rename_i m hm
        split at h
        · cases h
        · rename_i ps' hps
          cases h
          have hdm := hf d m hm
          rw [List.getElem?_map] at hd
          cases hc : contents[r.index]? with
          | none => rw [hc] at hd; cases hd
          | some c =>
            rw [hc] at hd
            simp only [Option.map_some, Option.some.injEq] at hd
            have : m = c := digest_inj (by rw [hdm, hd])
            subst this
            simp [honestParts, hc, ih ps' hps]

end Replicat.Sym
