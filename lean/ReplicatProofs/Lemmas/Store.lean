import ReplicatModel.Store
/-! Helper lemmas for C13: streams, the association-list store, S3 / B2 states. -/
namespace Replicat.Store
open Replicat Replicat.Paging

/-! ## streams -/
theorem chunksOf_flatten (c : Nat) (hc : 1 ≤ c) (fuel : Nat) (d : Bytes) (hf : d.length < fuel) :
    (chunksOf c fuel d).flatten = d := by
  induction fuel generalizing d with
  | zero => omega
  | succ n ih =>
    unfold chunksOf
    by_cases hd : d = []
    · simp [hd]
    · have hc0 : ¬ c = 0 := by omega
      simp only [hc0, hd, or_self, if_false, List.flatten_cons]
      have hl : 0 < d.length := List.length_pos_iff.mpr hd
      rw [ih (d.drop c) (by rw [List.length_drop]; omega)]
      exact List.take_append_drop c d

theorem streamed_eq (c : Nat) (hc : 1 ≤ c) (d : Bytes) : streamed c d = d :=
  chunksOf_flatten c hc _ d (by omega)

theorem writeAt_end (buf piece : Bytes) (rest : Bytes) :
    writeAt (buf ++ rest) buf.length piece = buf ++ piece ++ rest.drop piece.length := by
  unfold writeAt
  simp [List.drop_append]

theorem sink_fold (cs : List Bytes) (written tail : Bytes) :
    (cs.foldl (fun (acc : Bytes × Nat) piece => (writeAt acc.1 acc.2 piece, acc.2 + piece.length))
      (written ++ tail, written.length)).1 = written ++ cs.flatten ++ tail.drop cs.flatten.length := by
  induction cs generalizing written tail with
  | nil => simp
  | cons p ps ih =>
    simp only [List.foldl_cons, writeAt_end]
    have h := ih (written ++ p) (tail.drop p.length)
    simp only [List.length_append, List.append_assoc] at h
    simp only [List.append_assoc]
    rw [h]
    simp [List.drop_drop]

theorem sinkAfter_eq (sink : Bytes) (c : Nat) (hc : 1 ≤ c) (d : Bytes) : sinkAfter sink c d = d := by
  unfold sinkAfter
  have h := sink_fold (chunksOf c (d.length + 1) d) [] (sink.take d.length)
  simp only [List.nil_append, List.length_nil] at h
  rw [h, chunksOf_flatten c hc _ d (by omega)]
  simp

/-! ## association lists -/
section assoc
variable {κ β : Type} [DecidableEq κ]

theorem alookup_aerase_self (l : List (κ × β)) (n : κ) : alookup (aerase l n) n = none := by
  induction l with
  | nil => rfl
  | cons a l ih =>
    obtain ⟨k, v⟩ := a
    by_cases h : k = n <;> simp [aerase, alookup, h, ih]

theorem alookup_aerase_ne (l : List (κ × β)) (n k : κ) (h : k ≠ n) : alookup (aerase l n) k = alookup l k := by
  induction l with
  | nil => rfl
  | cons a l ih =>
    obtain ⟨k', v⟩ := a
    by_cases h1 : k' = n
    · subst h1
      have : ¬ k' = k := fun e => h e.symm
      simp [aerase, alookup, ih, this]
    · by_cases h2 : k' = k
      · subst h2; simp [aerase, alookup, h1]
      · simp [aerase, alookup, h1, h2, ih]

theorem alookup_ainsert (l : List (κ × β)) (n k : κ) (v : β) :
    alookup (ainsert l n v) k = if k = n then some v else alookup l k := by
  unfold ainsert
  by_cases h : k = n
  · simp [alookup, h]
  · have : ¬ n = k := fun e => h e.symm
    simp [alookup, h, this, alookup_aerase_ne l n k h]

theorem mem_keys_iff_alookup (l : List (κ × β)) (n : κ) : n ∈ l.map (·.1) ↔ (alookup l n).isSome = true := by
  induction l with
  | nil => simp [alookup]
  | cons a l ih =>
    obtain ⟨k, v⟩ := a
    by_cases h : k = n
    · simp [alookup, h]
    · have : ¬ n = k := fun e => h e.symm
      simp [alookup, h, this, ih]

theorem keys_aerase_sublist (l : List (κ × β)) (n : κ) : ((aerase l n).map (·.1)).Sublist (l.map (·.1)) := by
  induction l with
  | nil => exact List.Sublist.refl _
  | cons a l ih =>
    obtain ⟨k, v⟩ := a
    by_cases h : k = n
    · simp only [aerase, h, if_true, List.map_cons]; exact ih.trans (List.sublist_cons_self _ _)
    · simp only [aerase, h, if_false, List.map_cons]; exact ih.cons_cons _

theorem nodup_keys_aerase (l : List (κ × β)) (n : κ) (h : (l.map (·.1)).Nodup) : ((aerase l n).map (·.1)).Nodup :=
  (keys_aerase_sublist l n).nodup h

theorem nodup_keys_ainsert (l : List (κ × β)) (n : κ) (v : β) (h : (l.map (·.1)).Nodup) :
    ((ainsert l n v).map (·.1)).Nodup := by
  unfold ainsert
  simp only [List.map_cons, List.nodup_cons]
  refine ⟨?_, nodup_keys_aerase l n h⟩
  intro hm
  have := (mem_keys_iff_alookup (aerase l n) n).mp hm
  rw [alookup_aerase_self] at this
  simp at this

theorem mem_aerase (l : List (κ × β)) (n : κ) (a : κ × β) : a ∈ aerase l n ↔ a ∈ l ∧ a.1 ≠ n := by
  induction l with
  | nil => simp [aerase]
  | cons b l ih =>
    obtain ⟨k, v⟩ := b
    by_cases h : k = n
    · simp only [aerase, h, if_true, ih, List.mem_cons]
      constructor
      · rintro ⟨h1, h2⟩; exact ⟨Or.inr h1, h2⟩
      · rintro ⟨h1 | h1, h2⟩
        · rw [h1] at h2; exact absurd rfl h2
        · exact ⟨h1, h2⟩
    · simp only [aerase, h, if_false, List.mem_cons, ih]
      constructor
      · rintro (h1 | ⟨h1, h2⟩)
        · rw [h1]; exact ⟨Or.inl rfl, h⟩
        · exact ⟨Or.inr h1, h2⟩
      · rintro ⟨h1 | h1, h2⟩
        · exact Or.inl h1
        · exact Or.inr ⟨h1, h2⟩

/-- with distinct keys, membership of a pair is lookup -/
theorem mem_iff_alookup (l : List (κ × β)) (h : (l.map (·.1)).Nodup) (k : κ) (v : β) :
    (k, v) ∈ l ↔ alookup l k = some v := by
  induction l with
  | nil => simp [alookup]
  | cons a l ih =>
    obtain ⟨k', v'⟩ := a
    simp only [List.map_cons, List.nodup_cons] at h
    by_cases hk : k' = k
    · subst hk
      simp only [List.mem_cons, Prod.mk.injEq, true_and, alookup, if_true, Option.some.injEq]
      constructor
      · rintro (h1 | h1)
        · exact h1.symm
        · exact absurd (List.mem_map_of_mem (f := (·.1)) h1) h.1
      · intro h1; exact Or.inl h1.symm
    · have : ¬ k = k' := fun e => hk e.symm
      simp [alookup, hk, this, ih h.2]
end assoc

/-! ## association-list store -/
theorem MapStore.abs_put (s : MapStore) (n : Name) (d : Bytes) : (s.put n d).abs = s.abs.put n d := by
  funext k
  simp only [MapStore.abs, MapStore.put, MapStore.get, Spec.put, alookup_ainsert]

theorem MapStore.abs_erase (s : MapStore) (n : Name) : (s.erase n).abs = s.abs.del n := by
  funext k
  unfold MapStore.abs Spec.del MapStore.get MapStore.erase
  by_cases h : k = n
  · simp [h, alookup_aerase_self]
  · simp [h, alookup_aerase_ne s n k h]

theorem MapStore.mem_keys_iff (s : MapStore) (n : Name) : n ∈ s.keys ↔ (s.get n).isSome = true :=
  mem_keys_iff_alookup s n

theorem MapStore.inv_erase (s : MapStore) (n : Name) (h : s.Inv) : (s.erase n).Inv := nodup_keys_aerase s n h

theorem MapStore.inv_put (s : MapStore) (n : Name) (d : Bytes) (h : s.Inv) : (s.put n d).Inv := nodup_keys_ainsert s n d h

/-- the listing of the executable specification is what `SpecStep` asks for -/
theorem MapStore.list_ok (s : MapStore) (h : s.Inv) (pfx : Name) :
    (s.keys.filter (fun k => pfx.isPrefixOf k)).Nodup ∧
    ∀ n, n ∈ s.keys.filter (fun k => pfx.isPrefixOf k) ↔ (s.abs n).isSome = true ∧ pfx <+: n := by
  refine ⟨h.filter _, ?_⟩
  intro n
  simp only [List.mem_filter, MapStore.mem_keys_iff, List.isPrefixOf_iff_prefix, MapStore.abs]

/-! ## B2 version table -/
theorem B2.versions_setVersions (s : B2) (n k : Name) (vs : List Ver) :
    (s.setVersions n vs).versions k = if k = n then vs else s.versions k := by
  unfold B2.versions B2.setVersions
  rw [alookup_ainsert]
  by_cases h : k = n <;> simp [h]

theorem B2.visible_setVersions (s : B2) (n k : Name) (vs : List Ver) :
    (s.setVersions n vs).visible k =
      if k = n then headUp vs else s.visible k := by
  unfold B2.visible
  rw [B2.versions_setVersions]
  by_cases h : k = n <;> simp [h]

theorem B2.inv_setVersions (s : B2) (n : Name) (vs : List Ver) (h : s.Inv) : (s.setVersions n vs).Inv :=
  nodup_keys_ainsert s n vs h

theorem B2.abs_upload (s : B2) (n : Name) (d : Bytes) (vs : List Ver) :
    (s.setVersions n (.up d :: vs)).abs = s.abs.put n d := by
  funext k
  simp only [B2.abs, Spec.put, B2.visible_setVersions, headUp]

theorem B2.abs_hide (s : B2) (n : Name) (vs : List Ver) :
    (s.setVersions n (.hide :: vs)).abs = s.abs.del n := by
  funext k
  simp only [B2.abs, Spec.del, B2.visible_setVersions, headUp]

theorem B2.abs_del_of_not_visible (s : B2) (n : Name) (h : s.visible n = none) : s.abs.del n = s.abs := by
  funext k
  unfold Spec.del B2.abs
  by_cases hk : k = n
  · simp [hk, h]
  · simp [hk]

theorem B2.mem_liveNames (s : B2) (h : s.Inv) (n : Name) : n ∈ s.liveNames ↔ (s.visible n).isSome = true := by
  unfold B2.liveNames B2.visible B2.versions
  simp only [List.mem_map, List.mem_filter]
  constructor
  · rintro ⟨⟨k, vs⟩, ⟨hm, hv⟩, rfl⟩
    have := (mem_iff_alookup s h k vs).mp hm
    simpa [this] using hv
  · intro hv
    cases hl : alookup s n with
    | none => simp [hl, headUp] at hv
    | some vs =>
      have hm := (mem_iff_alookup s h n vs).mpr hl
      exact ⟨(n, vs), ⟨hm, by simpa [hl] using hv⟩, rfl⟩

theorem B2.nodup_liveNames (s : B2) (h : s.Inv) : s.liveNames.Nodup := by
  unfold B2.liveNames
  exact (List.filter_sublist.map _).nodup h

/-! ## S3 and the wall clock -/

/-- whatever the clock shows, the stamp the adapter builds from ONE reading is internally consistent: the scope date is the date
of `x-amz-date` and the signing key is that date's -/
theorem s3Accepts_stamp (skew : Nat) (client server : Time) :
    s3Accepts skew server (s3Stamp client) = withinSkew skew client server := by
  simp [s3Accepts, s3Stamp]

theorem S3.stepT_of_within (skew ps : Nat) (s : S3) (t : Timed) (h : withinSkew skew t.client t.server = true) :
    S3.stepT skew ps s t = S3.step ps s t.op := by
  simp [S3.stepT, s3Accepts_stamp, h]

/-- under clocks that agree up to the service's window a timed history is the untimed one -/
theorem S3.runT_eq (skew ps : Nat) (s : S3) (ts : List Timed) (h : ∀ t ∈ ts, withinSkew skew t.client t.server = true) :
    S3.runT skew ps s ts = runHistory (S3.step ps) s (ts.map (·.op)) := by
  induction ts generalizing s with
  | nil => rfl
  | cons t ts ih =>
    have ht := S3.stepT_of_within skew ps s t (h t (by simp))
    simp only [S3.runT, List.map_cons, runHistory, ht]
    rw [ih _ (fun u hu => h u (List.mem_cons_of_mem _ hu))]

end Replicat.Store
