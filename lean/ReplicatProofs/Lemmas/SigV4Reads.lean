import ReplicatProofs.Lemmas.SigV4Payload
/-! C16: read loops over arbitrary read schedules (`readLoop`): what a loop consumes under each stop rule. -/
namespace Replicat.SigV4

theorem capOf_pos (n : Nat) (hn : 0 < n) (caps : List Nat) (hc : CapsOk caps) : 0 < capOf n caps := by
  cases caps with
  | nil => exact hn
  | cons c t =>
    have : 0 < c := hc c (by simp)
    simp only [capOf]
    omega

theorem capOf_le (n : Nat) (caps : List Nat) : capOf n caps ≤ n := by
  cases caps with
  | nil => exact Nat.le_refl _
  | cons c t => simp only [capOf]; omega

theorem CapsOk.tail {caps : List Nat} (h : CapsOk caps) : CapsOk caps.tail := by
  intro k hk
  exact h k (List.mem_of_mem_tail hk)

/-- whatever the rule, the schedule and the fuel: the reads are consecutive pieces of the stream, so what the loop consumes is a
prefix of what was left -/
theorem readLoop_prefix (rule : StopRule) (n : Nat) : ∀ (fuel : Nat) (caps : List Nat) (rest : Bytes),
    (readLoop rule n fuel caps rest).flatten <+: rest
  | 0, _, _ => by simp [readLoop]
  | fuel + 1, caps, rest => by
    have ih := readLoop_prefix rule n fuel caps.tail (rest.drop (capOf n caps))
    have hcons : (rest.take (capOf n caps) ++ (readLoop rule n fuel caps.tail (rest.drop (capOf n caps))).flatten) <+: rest := by
      obtain ⟨t, ht⟩ := ih
      refine ⟨t, ?_⟩
      rw [List.append_assoc, ht, List.take_append_drop]
    have hone : (rest.take (capOf n caps)) <+: rest := List.take_prefix _ _
    unfold readLoop
    cases rule with
    | emptyRead =>
      by_cases he : (rest.take (capOf n caps)).isEmpty = true
      · simp only [he, ↓reduceIte, List.flatten_cons, List.flatten_nil, List.append_nil]; exact hone
      · simp only [he, Bool.false_eq_true, ↓reduceIte, List.flatten_cons]; exact hcons
    | shortRead =>
      by_cases hs : (rest.take (capOf n caps)).length < n
      · simp only [hs, ↓reduceIte, List.flatten_cons, List.flatten_nil, List.append_nil]; exact hone
      · simp only [hs, ↓reduceIte, List.flatten_cons]; exact hcons

/-- the empty-read rule consumes the stream to its end under EVERY schedule of positive caps -/
theorem readLoop_emptyRead_flatten (n : Nat) (hn : 0 < n) : ∀ (fuel : Nat) (caps : List Nat) (rest : Bytes),
    CapsOk caps → rest.length < fuel → (readLoop .emptyRead n fuel caps rest).flatten = rest
  | 0, _, _, _, h => absurd h (Nat.not_lt_zero _)
  | fuel + 1, caps, rest, hc, h => by
    have hk := capOf_pos n hn caps hc
    unfold readLoop
    cases rest with
    | nil => simp
    | cons b t =>
      have hne : ((b :: t).take (capOf n caps)).isEmpty = false := by
        cases hcap : capOf n caps with
        | zero => omega
        | succ m => simp
      simp only [hne, Bool.false_eq_true, ↓reduceIte, List.flatten_cons]
      rw [readLoop_emptyRead_flatten n hn fuel caps.tail _ hc.tail (by simp [List.length_drop] at h ⊢; omega)]
      exact List.take_append_drop _ _

/-- … and it ends with the empty read that found the end: one call more than there are non-empty reads -/
theorem readLoop_emptyRead_last (n : Nat) (hn : 0 < n) : ∀ (fuel : Nat) (caps : List Nat) (rest : Bytes),
    CapsOk caps → rest.length < fuel → (readLoop .emptyRead n fuel caps rest).getLast? = some []
  | 0, _, _, _, h => absurd h (Nat.not_lt_zero _)
  | fuel + 1, caps, rest, hc, h => by
    have hk := capOf_pos n hn caps hc
    unfold readLoop
    cases rest with
    | nil => simp
    | cons b t =>
      have hne : ((b :: t).take (capOf n caps)).isEmpty = false := by
        cases hcap : capOf n caps with
        | zero => omega
        | succ m => simp
      simp only [hne, Bool.false_eq_true, ↓reduceIte]
      have ih := readLoop_emptyRead_last n hn fuel caps.tail ((b :: t).drop (capOf n caps)) hc.tail
        (by simp [List.length_drop] at h ⊢; omega)
      rw [List.getLast?_cons, ih]
      rfl

/-- the short-read rule stops at the first call whose cap is below the request: it consumes exactly that prefix -/
theorem readLoop_shortRead_first_short (n c : Nat) : ∀ (fuel : Nat) (caps : List Nat) (rest : Bytes), 0 < fuel → c < n →
    (readLoop .shortRead n fuel (c :: caps) rest).flatten = rest.take c
  | 0, _, _, hf, _ => absurd hf (Nat.lt_irrefl 0)
  | fuel + 1, caps, rest, _, h => by
    have hk : capOf n (c :: caps) = c := by simp only [capOf]; omega
    unfold readLoop
    rw [hk]
    have hs : (rest.take c).length < n := by
      rw [List.length_take]; omega
    simp only [hs, ↓reduceIte, List.flatten_cons, List.flatten_nil, List.append_nil]

/-- streams that fill every request (`io.BytesIO`, buffered files — every cap at least the request): the short-read rule consumes
the stream to its end as well, which is why no test that uploads from such streams can tell the two rules apart -/
theorem readLoop_shortRead_filled (n : Nat) (hn : 0 < n) : ∀ (fuel : Nat) (caps : List Nat) (rest : Bytes),
    (∀ k ∈ caps, n ≤ k) → rest.length < fuel → (readLoop .shortRead n fuel caps rest).flatten = rest
  | 0, _, _, _, h => absurd h (Nat.not_lt_zero _)
  | fuel + 1, caps, rest, hc, h => by
    have hk : capOf n caps = n := by
      cases caps with
      | nil => rfl
      | cons c t =>
        have : n ≤ c := hc c (by simp)
        simp only [capOf]; omega
    unfold readLoop
    rw [hk]
    by_cases hs : (rest.take n).length < n
    · simp only [hs, ↓reduceIte, List.flatten_cons, List.flatten_nil, List.append_nil]
      rw [List.length_take] at hs
      exact List.take_of_length_le (by omega)
    · simp only [hs, ↓reduceIte, List.flatten_cons]
      rw [List.length_take] at hs
      rw [readLoop_shortRead_filled n hn fuel caps.tail _ (fun k hk' => hc k (List.mem_of_mem_tail hk'))
        (by simp [List.length_drop] at h ⊢; omega)]
      exact List.take_append_drop _ _

theorem flatten_filter_nonempty (l : List Bytes) : (l.filter (fun p => !p.isEmpty)).flatten = l.flatten := by
  induction l with
  | nil => rfl
  | cons a t ih =>
    cases a with
    | nil => simpa using ih
    | cons b r => simp [ih]

/-- the reads of a loop with the empty-read rule over a stream: everything from its position to the end -/
theorem streamReads_emptyRead (n : Nat) (hn : 0 < n) (caps : List Nat) (hc : CapsOk caps) (s : Stream) :
    (streamReads .emptyRead n caps s).flatten = s.data.drop s.pos := by
  unfold streamReads
  exact readLoop_emptyRead_flatten n hn _ caps _ hc (by simp [List.length_drop]; omega)

end Replicat.SigV4
