import ReplicatModel.Sym
/-! base64 on byte lists: `decode (encode bs) = some bs` (a genuine induction in steps of three bytes). -/
namespace Replicat.B64

theorem dec_enc_fin : ∀ n : Fin 64, decSextet (encSextet n.val) = some n.val ∧ encSextet n.val ≠ padChar := by decide

theorem decSextet_encSextet {n : Nat} (h : n < 64) : decSextet (encSextet n) = some n := (dec_enc_fin ⟨n, h⟩).1

theorem encSextet_ne_pad {n : Nat} (h : n < 64) : encSextet n ≠ padChar := (dec_enc_fin ⟨n, h⟩).2

theorem ofNat_eq (a : UInt8) (n : Nat) (h : n = a.toNat) : UInt8.ofNat n = a := by
  subst h
  simp

theorem toNat_lt (a : UInt8) : a.toNat < 256 := UInt8.toNat_lt a

theorem decode_encode (bs : List UInt8) : decode (encode bs) = some bs := by
  fun_induction encode bs with
  | case1 => rfl
  | case2 a =>
    have ha := toNat_lt a
    have h1 : a.toNat / 4 < 64 := by omega
    have h2 : a.toNat % 4 * 16 < 64 := by omega
    simp only [decode, decSextet_encSextet h1, decSextet_encSextet h2, and_self, if_true]
    congr 2
    exact ofNat_eq a _ (by omega)
  | case3 a b =>
    have ha := toNat_lt a
    have hb := toNat_lt b
    have h1 : a.toNat / 4 < 64 := by omega
    have h2 : a.toNat % 4 * 16 + b.toNat / 16 < 64 := by omega
    have h3 : b.toNat % 16 * 4 < 64 := by omega
    simp only [decode, decSextet_encSextet h1, decSextet_encSextet h2, decSextet_encSextet h3, encSextet_ne_pad h3,
      false_and, if_false, and_self, if_true]
    congr 2
    · exact ofNat_eq a _ (by omega)
    · congr 1
      exact ofNat_eq b _ (by omega)
  | case4 a b c rest ih =>
    have ha := toNat_lt a
    have hb := toNat_lt b
    have hc := toNat_lt c
    have h1 : a.toNat / 4 < 64 := by omega
    have h2 : a.toNat % 4 * 16 + b.toNat / 16 < 64 := by omega
    have h3 : b.toNat % 16 * 4 + c.toNat / 64 < 64 := by omega
    have h4 : c.toNat % 64 < 64 := by omega
    simp only [decode, decSextet_encSextet h1, decSextet_encSextet h2, decSextet_encSextet h3, decSextet_encSextet h4,
      encSextet_ne_pad h3, encSextet_ne_pad h4, false_and, if_false, ih]
    congr 2
    · exact ofNat_eq a _ (by omega)
    · congr 1
      · exact ofNat_eq b _ (by omega)
      · congr 1
        exact ofNat_eq c _ (by omega)

end Replicat.B64
