import ReplicatModel.Retry
/-!
Helper lemmas for C12: streams (`Src.read`, `readChunks`, `copyLoop`, `chunkList`, `Sink.write`).
-/
set_option linter.unusedSimpArgs false
set_option linter.unusedVariables false
namespace Replicat.Retry

/-! ## lists -/

theorem drop_take_length (l : Bytes) (c : Nat) : l.drop (l.take c).length = l.drop c := by
  rw [List.length_take]
  by_cases h : c ≤ l.length
  · rw [Nat.min_eq_left h]
  · have h' : l.length ≤ c := by omega
    rw [Nat.min_eq_right h', List.drop_eq_nil_of_le (Nat.le_refl _), List.drop_eq_nil_of_le h']

theorem take_eq_nil_pos (l : Bytes) (c : Nat) (hc : 0 < c) (h : l.take c = []) : l = [] := by
  cases l with
  | nil => rfl
  | cons a t =>
    cases c with
    | zero => omega
    | succ n => simp at h

/-! ## the payload stream -/

@[simp] theorem read_data (s : Src) (c : Nat) : (s.read c).2.data = s.data := rfl

theorem read_fst (s : Src) (c : Nat) : (s.read c).1 = (s.data.drop s.pos).take c := rfl

theorem read_pos (s : Src) (c : Nat) : (s.read c).2.pos = s.pos + ((s.data.drop s.pos).take c).length := rfl

theorem read_len_le (s : Src) (c : Nat) : ((s.data.drop s.pos).take c).length ≤ s.data.length - s.pos := by
  rw [List.length_take, List.length_drop]; exact Nat.min_le_right _ _

theorem readChunks_data (c : Nat) : ∀ (n : Nat) (s : Src), (readChunks c n s).2.data = s.data := by
  intro n
  induction n with
  | zero => intro s; rfl
  | succ n ih =>
    intro s
    unfold readChunks
    by_cases h : (s.read c).1 = []
    · simp only [h, if_true, read_data]
    · simp only [h, if_false]
      rw [ih]; rfl

/-- pulling the whole body: with a positive chunk size and enough rounds everything from the position on is read -/
theorem readChunks_all (c : Nat) (hc : 0 < c) : ∀ (n : Nat) (s : Src), s.data.length - s.pos < n →
    readChunks c n s = (s.data.drop s.pos, ⟨s.data, s.pos + (s.data.length - s.pos)⟩) := by
  intro n
  induction n with
  | zero => intro s h; omega
  | succ n ih =>
    intro s hn
    unfold readChunks
    by_cases h : (s.read c).1 = []
    · simp only [h, if_true]
      have hnil : s.data.drop s.pos = [] := take_eq_nil_pos _ c hc (by rw [← read_fst]; exact h)
      have hlen : s.data.length - s.pos = 0 := by
        have := congrArg List.length hnil
        simpa using this
      rw [hnil, hlen]
      show ([], (s.read c).2) = _
      have : (s.read c).2 = ⟨s.data, s.pos + 0⟩ := by
        show Src.mk s.data (s.pos + ((s.data.drop s.pos).take c).length) = _
        rw [hnil]; simp
      rw [this]
    · simp only [h, if_false]
      have hk : 0 < ((s.data.drop s.pos).take c).length := by
        rw [← read_fst]
        exact List.length_pos_iff.mpr h
      have hkle : ((s.data.drop s.pos).take c).length ≤ s.data.length - s.pos := by
        rw [List.length_take, List.length_drop]; exact Nat.min_le_right _ _
      have hrec := ih (s.read c).2 (by rw [read_data, read_pos]; omega)
      rw [hrec]
      rw [read_data, read_pos, read_fst]
      refine Prod.ext ?_ ?_
      · have h1 : s.data.drop (s.pos + ((s.data.drop s.pos).take c).length) = (s.data.drop s.pos).drop c := by
          rw [← drop_take_length (s.data.drop s.pos) c, List.drop_drop]
        show (s.data.drop s.pos).take c ++ s.data.drop (s.pos + ((s.data.drop s.pos).take c).length) = s.data.drop s.pos
        rw [h1, List.take_append_drop]
      · show Src.mk _ _ = Src.mk _ _
        rw [Src.mk.injEq]
        exact ⟨rfl, by omega⟩

/-! ## the copy loop -/

theorem copyLoop_data {ω : Type} (wr : ω → Bytes → ω) (c : Nat) (rf wf : Option Nat) :
    ∀ (fuel i : Nat) (s : Src) (w : ω), (copyLoop wr c rf wf fuel i s w).2.1.data = s.data := by
  intro fuel
  induction fuel with
  | zero => intro i s w; rfl
  | succ fuel ih =>
    intro i s w
    unfold copyLoop
    by_cases h1 : rf = some i
    · simp only [h1, if_true]
    · simp only [h1, if_false]
      by_cases h2 : (s.read c).1 = []
      · simp only [h2, if_true, read_data]
      · simp only [h2, if_false]
        by_cases h3 : wf = some i
        · simp only [h3, if_true, read_data]
        · simp only [h3, if_false]
          rw [ih]; rfl

/-- what the destination holds at the end: the writes compose (`wr (φ w a) b = φ w (a ++ b)`), so the destination is
`φ w0 (a ++ t)` for the bytes `t` copied by this run; if the loop ran to the end, `t` is everything from the position on. -/
theorem copyLoop_spec {ω : Type} (wr : ω → Bytes → ω) (φ : ω → Bytes → ω) (hφ : ∀ w a b, wr (φ w a) b = φ w (a ++ b))
    (c : Nat) (hc : 0 < c) (rf wf : Option Nat) (w0 : ω) :
    ∀ (fuel i : Nat) (s : Src) (a : Bytes), ∃ t : Bytes,
      (copyLoop wr c rf wf fuel i s (φ w0 a)).2.2 = φ w0 (a ++ t) ∧
      ((copyLoop wr c rf wf fuel i s (φ w0 a)).1 = .done →
        t = s.data.drop s.pos ∧ (copyLoop wr c rf wf fuel i s (φ w0 a)).2.1.pos = s.pos + (s.data.length - s.pos)) := by
  intro fuel
  induction fuel with
  | zero => intro i s a; exact ⟨[], by simp [copyLoop], by simp [copyLoop]⟩
  | succ fuel ih =>
    intro i s a
    unfold copyLoop
    by_cases h1 : rf = some i
    · simp only [h1, if_true]
      exact ⟨[], by simp, by simp⟩
    · simp only [h1, if_false]
      by_cases h2 : (s.read c).1 = []
      · simp only [h2, if_true]
        refine ⟨[], by simp, fun _ => ?_⟩
        have hnil : s.data.drop s.pos = [] := take_eq_nil_pos _ c hc (by rw [← read_fst]; exact h2)
        have hlen : s.data.length - s.pos = 0 := by
          have := congrArg List.length hnil
          simpa using this
        refine ⟨hnil.symm, ?_⟩
        rw [read_pos, hnil, hlen]; simp
      · simp only [h2, if_false]
        by_cases h3 : wf = some i
        · simp only [h3, if_true]
          exact ⟨[], by simp, by simp⟩
        · simp only [h3, if_false]
          rw [hφ]
          obtain ⟨t, ht1, ht2⟩ := ih (i + 1) (s.read c).2 (a ++ (s.read c).1)
          refine ⟨(s.read c).1 ++ t, by rw [ht1, List.append_assoc], fun hd => ?_⟩
          obtain ⟨e1, e2⟩ := ht2 hd
          have hkle : ((s.data.drop s.pos).take c).length ≤ s.data.length - s.pos := by
            rw [List.length_take, List.length_drop]; exact Nat.min_le_right _ _
          refine ⟨?_, ?_⟩
          · rw [e1, read_data, read_pos, read_fst]
            have h1' : s.data.drop (s.pos + ((s.data.drop s.pos).take c).length) = (s.data.drop s.pos).drop c := by
              rw [← drop_take_length (s.data.drop s.pos) c, List.drop_drop]
            rw [h1', List.take_append_drop]
          · rw [e2, read_data, read_pos]; omega

/-- with a positive chunk size and more fuel than bytes left the loop never stops for lack of fuel -/
theorem copyLoop_ne_fuel {ω : Type} (wr : ω → Bytes → ω) (c : Nat) (hc : 0 < c) (rf wf : Option Nat) :
    ∀ (fuel i : Nat) (s : Src) (w : ω), s.data.length - s.pos < fuel → (copyLoop wr c rf wf fuel i s w).1 ≠ .fuel := by
  intro fuel
  induction fuel with
  | zero => intro i s w h; omega
  | succ fuel ih =>
    intro i s w hf
    unfold copyLoop
    by_cases h1 : rf = some i
    · simp [h1]
    · simp only [h1, if_false]
      by_cases h2 : (s.read c).1 = []
      · simp [h2]
      · simp only [h2, if_false]
        by_cases h3 : wf = some i
        · simp [h3]
        · simp only [h3, if_false]
          apply ih
          have hk : 0 < ((s.data.drop s.pos).take c).length := by
            rw [← read_fst]; exact List.length_pos_iff.mpr h2
          have hkle := read_len_le s c
          rw [read_data, read_pos]; omega

/-- no failing read, no failing write: the loop runs to the end -/
theorem copyLoop_done {ω : Type} (wr : ω → Bytes → ω) (c : Nat) (hc : 0 < c) :
    ∀ (fuel i : Nat) (s : Src) (w : ω), s.data.length - s.pos < fuel → (copyLoop wr c none none fuel i s w).1 = .done := by
  intro fuel
  induction fuel with
  | zero => intro i s w h; omega
  | succ fuel ih =>
    intro i s w hf
    unfold copyLoop
    simp only [reduceCtorEq, if_false]
    by_cases h2 : (s.read c).1 = []
    · simp [h2]
    · simp only [h2, if_false]
      apply ih
      have hk : 0 < ((s.data.drop s.pos).take c).length := by
        rw [← read_fst]; exact List.length_pos_iff.mpr h2
      have hkle := read_len_le s c
      rw [read_data, read_pos]; omega

/-! ## the sink -/

theorem zeros_length (n : Nat) : (zeros n).length = n := by simp [zeros]

/-- consecutive writes compose -/
theorem Sink.write_write (k : Sink) (a b : Bytes) : (k.write a).write b = k.write (a ++ b) := by
  have hlen : (k.buf.take k.pos ++ zeros (k.pos - k.buf.length)).length = k.pos := by
    rw [List.length_append, List.length_take, zeros_length]; omega
  show Sink.mk _ _ _ = Sink.mk _ _ _
  rw [Sink.mk.injEq]
  refine ⟨?_, ?_, rfl⟩
  · show ((k.write a).buf.take (k.write a).pos ++ zeros ((k.write a).pos - (k.write a).buf.length) ++ b
        ++ (k.write a).buf.drop ((k.write a).pos + b.length)) = _
    have hb : (k.write a).buf = k.buf.take k.pos ++ zeros (k.pos - k.buf.length) ++ a ++ k.buf.drop (k.pos + a.length) := rfl
    have hp : (k.write a).pos = k.pos + a.length := rfl
    rw [hb, hp]
    generalize k.buf.take k.pos ++ zeros (k.pos - k.buf.length) = P at hlen
    have e1 : (P ++ a ++ k.buf.drop (k.pos + a.length)).take (k.pos + a.length) = P ++ a := by
      rw [List.take_append_of_le_length (by rw [List.length_append]; omega)]
      rw [List.take_of_length_le (by rw [List.length_append]; omega)]
    have e2 : k.pos + a.length - (P ++ a ++ k.buf.drop (k.pos + a.length)).length = 0 := by
      rw [List.length_append, List.length_append]; omega
    have e3 : (P ++ a ++ k.buf.drop (k.pos + a.length)).drop (k.pos + a.length + b.length) = k.buf.drop (k.pos + (a ++ b).length) := by
      have h1 : k.pos + a.length + b.length = (P ++ a).length + b.length := by rw [List.length_append]; omega
      have h2 : k.pos + a.length + b.length = k.pos + (a ++ b).length := by rw [List.length_append]; omega
      rw [h1, List.drop_length_add_append, List.drop_drop, h2]
    rw [e1, e2, e3]
    simp [zeros, List.append_assoc]
  · show k.pos + a.length + b.length = k.pos + (a ++ b).length
    rw [List.length_append]; omega

theorem Sink.write_nil (k : Sink) (h : k.pos ≤ k.buf.length) : k.write [] = k := by
  unfold Sink.write
  have : k.pos - k.buf.length = 0 := by omega
  simp [this, zeros]

/-- writing a whole object at position 0 over a buffer that is not longer leaves exactly the object -/
theorem Sink.write_all (k : Sink) (d : Bytes) (hp : k.pos = 0) (hl : k.buf.length ≤ d.length) :
    (k.write d).buf = d ∧ (k.write d).pos = d.length := by
  unfold Sink.write
  simp [hp, zeros, List.drop_eq_nil_of_le hl]

theorem foldl_write (cs : List Bytes) : ∀ (k : Sink), k.pos ≤ k.buf.length → cs.foldl Sink.write k = k.write cs.flatten := by
  induction cs with
  | nil => intro k h; simp [Sink.write_nil k h]
  | cons c cs ih =>
    intro k h
    simp only [List.foldl_cons, List.flatten_cons]
    rw [ih, Sink.write_write]
    unfold Sink.write
    simp only [List.length_append, List.length_take, zeros_length, List.length_drop]
    omega

theorem chunkList_flatten (c : Nat) (hc : 0 < c) : ∀ (fuel : Nat) (d : Bytes), d.length < fuel → (chunkList c fuel d).flatten = d := by
  intro fuel
  induction fuel with
  | zero => intro d h; omega
  | succ fuel ih =>
    intro d h
    unfold chunkList
    by_cases hd : d = []
    · simp [hd]
    · have hc0 : ¬ c = 0 := by omega
      simp only [hc0, hd, or_self, if_false, List.flatten_cons]
      rw [ih (d.drop c) (by
        have : 0 < d.length := List.length_pos_iff.mpr hd
        rw [List.length_drop]; omega)]
      exact List.take_append_drop c d

theorem truncate_pos (k : Sink) (n : Nat) : (k.truncate n).pos = k.pos := rfl

theorem truncate_length_le (k : Sink) (n : Nat) : (k.truncate n).buf.length ≤ n := by
  unfold Sink.truncate
  simp only [List.length_append, List.length_take]
  split
  · rw [zeros_length]; omega
  · simp; omega

end Replicat.Retry
