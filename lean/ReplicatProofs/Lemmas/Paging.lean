import ReplicatModel.Paging
/-! Helper lemmas for C13: the listing loops against conformant services. -/
namespace Replicat.Paging
open Replicat

/-! ## bridge to the generated constants (what the code compares against = what the protocol sends) -/
theorem gen_tagTruncated : Gen.s3TagTruncated = tagIsTruncated := by decide
theorem gen_tagToken : Gen.s3TagToken = tagNextToken := by decide
theorem gen_tagKey : Gen.s3TagKey = tagKey := by decide
theorem gen_stopText : Gen.s3StopText.toList = "false".toList := by decide
theorem gen_startsTruncated : Gen.s3LoopStartsTruncated = true := by decide
theorem tags_distinct : tagIsTruncated ≠ tagNextToken ∧ tagIsTruncated ≠ tagKey ∧ tagNextToken ≠ tagKey := by decide

theorem pageKeys_cons (e : Elem) (p : List Elem) :
    pageKeys (e :: p) = if e.1 = tagKey then e.2 :: pageKeys p else pageKeys p := by
  unfold pageKeys
  by_cases h : e.1 = tagKey <;> simp [h]

theorem pageFinal_cons (e : Elem) (p : List Elem) :
    pageFinal (e :: p) = (decide (e.1 = tagIsTruncated ∧ e.2 = "false".toList) || pageFinal p) := by
  simp [pageFinal]

theorem s3Event_eq (st : S3State) (acc : List Name) (e : Elem) :
    s3Event (st, acc) e =
      if e.1 = tagIsTruncated ∧ e.2 = "false".toList then (⟨false, st.token⟩, acc)
      else if e.1 = tagNextToken then (⟨st.truncated, some e.2⟩, acc)
      else if e.1 = tagKey then (st, acc ++ [e.2])
      else (st, acc) := by
  unfold s3Event
  rw [gen_tagTruncated, gen_tagToken, gen_tagKey, gen_stopText]

/-- what one page does to the loop state -/
theorem fold_page (p : List Elem) (st : S3State) (acc : List Name) :
    p.foldl s3Event (st, acc) =
      (⟨st.truncated && !pageFinal p, match pageToken p with | some t => some t | none => st.token⟩, acc ++ pageKeys p) := by
  induction p generalizing st acc with
  | nil => simp [pageFinal, pageToken, pageKeys]
  | cons e p ih =>
    rw [List.foldl_cons, pageKeys_cons, pageFinal_cons, s3Event_eq]
    obtain ⟨h1, h2, h3⟩ := tags_distinct
    have hpt : pageToken (e :: p) = match pageToken p with
        | some t => some t
        | none => if e.1 = tagNextToken then some e.2 else none := rfl
    rw [hpt]
    by_cases ha : e.1 = tagIsTruncated ∧ e.2 = "false".toList
    · have hk : ¬ e.1 = tagKey := by rw [ha.1]; exact h2
      have ht : ¬ e.1 = tagNextToken := by rw [ha.1]; exact h1
      rw [if_pos ha, ih, if_neg hk, if_neg ht, decide_eq_true ha]
      cases pageToken p <;> simp
    · rw [if_neg ha, decide_eq_false ha]
      by_cases ht : e.1 = tagNextToken
      · have hk : ¬ e.1 = tagKey := by rw [ht]; exact h3
        rw [if_pos ht, ih, if_neg hk, if_pos ht]
        cases pageToken p <;> simp
      · rw [if_neg ht, if_neg ht]
        by_cases hk : e.1 = tagKey
        · rw [if_pos hk, ih, if_pos hk]
          cases pageToken p <;> simp
        · rw [if_neg hk, ih, if_neg hk]
          cases pageToken p <;> simp

theorem s3Loop_not_truncated (respond : Option Name → List Elem) (fuel : Nat) (st : S3State) (h : st.truncated = false) :
    s3Loop respond fuel st = some [] := by
  cases fuel <;> simp [s3Loop, h]

theorem s3Requests_not_truncated (respond : Option Name → List Elem) (fuel : Nat) (st : S3State) (h : st.truncated = false) :
    s3Requests respond fuel st = 0 := by
  cases fuel <;> simp [s3Requests, h]

/-- the S3 loop against a conformant service: complete, in order, and fuel is not the reason for stopping -/
theorem s3Loop_conf (respond : Option Name → List Elem) (tok : Option Name) (ks : List Name) (n : Nat)
    (hc : S3Conf respond tok ks n) (fuel : Nat) (hf : n ≤ fuel) (st : S3State)
    (ht : st.truncated = true) (hk : st.token = tok) :
    s3Loop respond fuel st = some ks ∧ s3Requests respond fuel st = n := by
  induction hc generalizing fuel st with
  | last tok h =>
    obtain ⟨f, rfl⟩ : ∃ f, fuel = f + 1 := ⟨fuel - 1, by omega⟩
    simp only [s3Loop, s3Requests, ht, if_true, hk, fold_page, h, Bool.not_true, Bool.and_false, List.nil_append]
    rw [s3Loop_not_truncated _ _ _ rfl, s3Requests_not_truncated _ _ _ rfl]
    simp
  | more tok t rest n h htok hr ih =>
    obtain ⟨f, rfl⟩ : ∃ f, fuel = f + 1 := ⟨fuel - 1, by omega⟩
    simp only [s3Loop, s3Requests, ht, if_true, hk, fold_page, h, htok, Bool.not_false, Bool.and_true, List.nil_append]
    obtain ⟨h1, h2⟩ := ih f (by omega) ⟨true, some t⟩ rfl rfl
    rw [h1, h2]
    simp [Nat.add_comm]

theorem S3Conf.pages_pos {respond : Option Name → List Elem} {tok ks n} (h : S3Conf respond tok ks n) : 1 ≤ n := by
  cases h <;> omega

/-- the B2 loop against a conformant service -/
theorem b2Loop_conf (respond : Option Name → B2Page) (start : Option Name) (ks : List Name) (n : Nat)
    (hc : B2Conf respond start ks n) (fuel : Nat) (hf : n ≤ fuel) :
    b2Loop respond fuel start = some ks ∧ b2Requests respond fuel start = n := by
  induction hc generalizing fuel with
  | last start h =>
    obtain ⟨f, rfl⟩ : ∃ f, fuel = f + 1 := ⟨fuel - 1, by omega⟩
    simp [b2Loop, b2Requests, h]
  | more start s rest n h hr ih =>
    obtain ⟨f, rfl⟩ : ∃ f, fuel = f + 1 := ⟨fuel - 1, by omega⟩
    obtain ⟨h1, h2⟩ := ih f (by omega)
    simp [b2Loop, b2Requests, h, h1, h2, Nat.add_comm]

/-! ## the page-size services are conformant -/
theorem pageKeys_append (a b : List Elem) : pageKeys (a ++ b) = pageKeys a ++ pageKeys b := by
  simp [pageKeys]

theorem pageFinal_append (a b : List Elem) : pageFinal (a ++ b) = (pageFinal a || pageFinal b) := by
  simp [pageFinal]

theorem pageToken_append (a b : List Elem) :
    pageToken (a ++ b) = match pageToken b with | some t => some t | none => pageToken a := by
  induction a with
  | nil => cases h : pageToken b <;> simp [pageToken, h]
  | cons e a ih =>
    simp only [List.cons_append, pageToken, ih]
    cases pageToken b <;> rfl

theorem pageKeys_keys (l : List Name) : pageKeys (l.map (fun k => (tagKey, k))) = l := by
  induction l with
  | nil => rfl
  | cons k l ih => rw [List.map_cons, pageKeys_cons, if_pos rfl, ih]

theorem pageFinal_keys (l : List Name) : pageFinal (l.map (fun k => (tagKey, k))) = false := by
  induction l with
  | nil => rfl
  | cons k l ih =>
    rw [List.map_cons, pageFinal_cons, ih]
    have : ¬ (tagKey = tagIsTruncated ∧ k = "false".toList) := fun h => tags_distinct.2.1 h.1.symm
    rw [decide_eq_false this]; rfl

theorem pageToken_keys (l : List Name) : pageToken (l.map (fun k => (tagKey, k))) = none := by
  induction l with
  | nil => rfl
  | cons k l ih =>
    have : ¬ tagKey = tagNextToken := fun h => tags_distinct.2.2 h.symm
    simp only [List.map_cons, pageToken, ih, this, if_false]

theorem pageKeys_single (tag : String) (x : Name) : pageKeys [(tag, x)] = if tag = tagKey then [x] else [] := by
  rw [pageKeys_cons]; rfl
theorem pageFinal_single (tag : String) (x : Name) :
    pageFinal [(tag, x)] = decide (tag = tagIsTruncated ∧ x = "false".toList) := by
  rw [pageFinal_cons]; simp [pageFinal]
theorem pageToken_single (tag : String) (x : Name) : pageToken [(tag, x)] = if tag = tagNextToken then some x else none := rfl

theorem s3Serve_eq (ps : Nat) (keys : List Name) (tok : Option Name) :
    s3Serve ps keys tok =
      [(tagIsTruncated, if tokOff tok + ps < keys.length then "true".toList else "false".toList)]
        ++ ((keys.drop (tokOff tok)).take ps).map (fun k => (tagKey, k))
        ++ (if tokOff tok + ps < keys.length then [(tagNextToken, offToken (tokOff tok + ps))] else []) := by
  unfold s3Serve
  by_cases h : tokOff tok + ps < keys.length <;> simp [h]

theorem s3Serve_keys (ps : Nat) (keys : List Name) (tok : Option Name) :
    pageKeys (s3Serve ps keys tok) = (keys.drop (tokOff tok)).take ps := by
  rw [s3Serve_eq, pageKeys_append, pageKeys_append, pageKeys_keys, pageKeys_single, if_neg tags_distinct.2.1]
  split
  · rw [pageKeys_single, if_neg tags_distinct.2.2]; simp
  · simp [pageKeys]

theorem s3Serve_final (ps : Nat) (keys : List Name) (tok : Option Name) :
    pageFinal (s3Serve ps keys tok) = !decide (tokOff tok + ps < keys.length) := by
  rw [s3Serve_eq, pageFinal_append, pageFinal_append, pageFinal_keys, pageFinal_single]
  by_cases h : tokOff tok + ps < keys.length
  · rw [if_pos h, if_pos h, pageFinal_single]
    have h1 : ¬ (tagIsTruncated = tagIsTruncated ∧ "true".toList = "false".toList) := by decide
    have h2 : ¬ (tagNextToken = tagIsTruncated ∧ offToken (tokOff tok + ps) = "false".toList) := fun e => tags_distinct.1 e.1.symm
    rw [decide_eq_false h1, decide_eq_false h2, decide_eq_true h]; rfl
  · rw [if_neg h, if_neg h, decide_eq_false h]
    have h1 : (tagIsTruncated = tagIsTruncated ∧ "false".toList = "false".toList) := ⟨rfl, rfl⟩
    rw [decide_eq_true h1]; rfl

theorem s3Serve_token (ps : Nat) (keys : List Name) (tok : Option Name) :
    pageToken (s3Serve ps keys tok) =
      if tokOff tok + ps < keys.length then some (offToken (tokOff tok + ps)) else none := by
  rw [s3Serve_eq, pageToken_append]
  by_cases h : tokOff tok + ps < keys.length
  · simp only [if_pos h, pageToken_single, if_true]
  · simp only [if_neg h, pageToken_append, pageToken_keys, pageToken_single, if_neg tags_distinct.1]
    rfl

theorem tokOff_offToken (n : Nat) : tokOff (some (offToken n)) = n := by simp [tokOff, offToken]

/-- from any offset the page-size service is conformant and needs at most `remaining + 1` pages -/
theorem s3Serve_conf_from (ps : Nat) (hps : 1 ≤ ps) (keys : List Name) :
    ∀ (m : Nat) (tok : Option Name), keys.length - tokOff tok ≤ m →
      ∃ n, n ≤ m + 1 ∧ S3Conf (s3Serve ps keys) tok (keys.drop (tokOff tok)) n := by
  intro m
  induction m with
  | zero =>
    intro tok hm
    refine ⟨1, by omega, ?_⟩
    have hfin : pageFinal (s3Serve ps keys tok) = true := by rw [s3Serve_final]; simp; omega
    have := S3Conf.last (respond := s3Serve ps keys) tok hfin
    rw [s3Serve_keys] at this
    rwa [List.take_of_length_le (by rw [List.length_drop]; omega)] at this
  | succ m ih =>
    intro tok hm
    by_cases hmore : tokOff tok + ps < keys.length
    · obtain ⟨n, hn, hc⟩ := ih (some (offToken (tokOff tok + ps))) (by rw [tokOff_offToken]; omega)
      refine ⟨n + 1, by omega, ?_⟩
      have hfin : pageFinal (s3Serve ps keys tok) = false := by rw [s3Serve_final]; simp [hmore]
      have htok : pageToken (s3Serve ps keys tok) = some (offToken (tokOff tok + ps)) := by rw [s3Serve_token, if_pos hmore]
      have := S3Conf.more (respond := s3Serve ps keys) tok _ _ n hfin htok hc
      rw [s3Serve_keys, tokOff_offToken] at this
      rwa [← List.drop_drop, List.take_append_drop] at this
    · refine ⟨1, by omega, ?_⟩
      have hfin : pageFinal (s3Serve ps keys tok) = true := by rw [s3Serve_final]; simp [hmore]
      have := S3Conf.last (respond := s3Serve ps keys) tok hfin
      rw [s3Serve_keys] at this
      rwa [List.take_of_length_le (by rw [List.length_drop]; omega)] at this

theorem dropWhile_ne_getElem (l : List Name) (h : l.Nodup) (k : Nat) (hk : k < l.length) :
    l.dropWhile (· ≠ l[k]) = l.drop k := by
  induction l generalizing k with
  | nil => simp at hk
  | cons a l ih =>
    cases k with
    | zero => simp
    | succ k =>
      simp only [List.nodup_cons] at h
      have hk' : k < l.length := by simpa using hk
      have hne : a ≠ l[k] := fun e => h.1 (e ▸ List.getElem_mem hk')
      have hd : decide (a ≠ l[k]) = true := by simpa using hne
      rw [List.getElem_cons_succ, List.drop_succ_cons, List.dropWhile_cons, hd, if_pos rfl]
      exact ih h.2 k hk'

/-- the candidates the B2 page-size service looks at when asked to start from the k-th name -/
theorem b2Serve_at (ps : Nat) (names : List Name) (h : names.Nodup) (k : Nat) (hk : k < names.length) :
    b2Serve ps names (some names[k]) = ⟨(names.drop k).take ps, (names.drop (k + ps)).head?⟩ := by
  unfold b2Serve
  simp only [dropWhile_ne_getElem names h k hk, List.drop_drop]

theorem b2Serve_conf_from (ps : Nat) (hps : 1 ≤ ps) (names : List Name) (h : names.Nodup) :
    ∀ (m : Nat) (k : Nat) (hk : k < names.length), names.length - k ≤ m →
      ∃ n, n ≤ m + 1 ∧ B2Conf (b2Serve ps names) (some names[k]) (names.drop k) n := by
  intro m
  induction m with
  | zero => intro k hk hm; omega
  | succ m ih =>
    intro k hk hm
    have hat := b2Serve_at ps names h k hk
    by_cases hmore : k + ps < names.length
    · obtain ⟨n, hn, hc⟩ := ih (k + ps) hmore (by omega)
      refine ⟨n + 1, by omega, ?_⟩
      have hnext : (b2Serve ps names (some names[k])).next = some names[k + ps] := by
        rw [hat]; simp [List.head?_drop, hmore]
      have := B2Conf.more (respond := b2Serve ps names) (some names[k]) _ _ n hnext hc
      rw [hat] at this
      simpa [← List.drop_drop, List.take_append_drop] using this
    · refine ⟨1, by omega, ?_⟩
      have hnext : (b2Serve ps names (some names[k])).next = none := by
        rw [hat]; simp [List.head?_drop]; omega
      have := B2Conf.last (respond := b2Serve ps names) (some names[k]) hnext
      rw [hat] at this
      simpa [List.take_of_length_le (show (names.drop k).length ≤ ps by rw [List.length_drop]; omega)] using this

theorem s3Serve_conf (ps : Nat) (hps : 1 ≤ ps) (keys : List Name) :
    ∃ n, n ≤ keys.length + 1 ∧ S3Conf (s3Serve ps keys) none keys n := by
  obtain ⟨n, hn, hc⟩ := s3Serve_conf_from ps hps keys keys.length none (by simp [tokOff])
  exact ⟨n, hn, by simpa [tokOff] using hc⟩

theorem b2Serve_conf (ps : Nat) (hps : 1 ≤ ps) (names : List Name) (h : names.Nodup) :
    ∃ n, n ≤ names.length + 1 ∧ B2Conf (b2Serve ps names) none names n := by
  have hnone : b2Serve ps names none = ⟨names.take ps, (names.drop ps).head?⟩ := rfl
  by_cases hmore : ps < names.length
  · obtain ⟨n, hn, hc⟩ := b2Serve_conf_from ps hps names h (names.length - ps) ps hmore (Nat.le_refl _)
    refine ⟨n + 1, by omega, ?_⟩
    have hnext : (b2Serve ps names none).next = some names[ps] := by rw [hnone]; simp [List.head?_drop, hmore]
    have := B2Conf.more (respond := b2Serve ps names) none _ _ n hnext hc
    rw [hnone] at this
    simpa [List.take_append_drop] using this
  · refine ⟨1, by omega, ?_⟩
    have hnext : (b2Serve ps names none).next = none := by rw [hnone]; simp [List.head?_drop]; omega
    have := B2Conf.last (respond := b2Serve ps names) none hnext
    rw [hnone] at this
    simpa [List.take_of_length_le (show names.length ≤ ps by omega)] using this

end Replicat.Paging
