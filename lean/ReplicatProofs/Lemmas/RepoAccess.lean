import ReplicatProofs.Lemmas.RepoSelect
/-! Frame / non-interference lemmas for the repository state machine, per key relation (C06). -/
namespace Replicat.Repo
open List

/-- the key family a storage name belongs to (its ownership tag); `config` and names outside the two areas have none -/
def nameFam : Name → Option Fam
  | .chunk f _ => some f
  | .snap f _ => some f
  | _ => none

/-- the objects stored under names of family `f` -/
def famPart (f : Fam) (s : Store) : Store := s.filter (fun e => nameFam e.1 == some f)

theorem get_famPart (f : Fam) (s : Store) (n : Name) (hn : nameFam n = some f) : get (famPart f s) n = get s n := by
  unfold get famPart
  rw [find?_filter]
  congr 1
  apply find?_congr'
  intro x _
  by_cases hx : x.1 = n
  · subst hx; simp [hn]
  · simp [hx]

theorem filterMap_congr' {α β : Type} {f g : α → Option β} (l : List α) (h : ∀ x ∈ l, f x = g x) :
    l.filterMap f = l.filterMap g := by
  induction l with
  | nil => rfl
  | cons a l ih =>
    simp only [filterMap_cons, h a (by simp)]
    rw [ih (fun x hx => h x (by simp [hx]))]

/-- in an encrypted repository the snapshots a user loads are a function of the objects of its own family -/
theorem loadCandidates_famPart (u : User) (re : Nat → Bool) (s : Store) :
    loadCandidates true u re (famPart u.fam s) = loadCandidates true u re s := by
  unfold loadCandidates famPart
  rw [filterMap_filter]
  apply filterMap_congr'
  intro e _
  rcases e with ⟨n, o⟩
  cases n with
  | snap f sid =>
    by_cases hf : f = u.fam
    · subst hf; simp [nameFam]
    · simp [nameFam, visible, hf]
  | _ => simp [nameFam]

theorem loadSnapshots_famPart (u : User) (re : Nat → Bool) (s : Store) :
    loadSnapshots true u re (famPart u.fam s) = loadSnapshots true u re s := by
  unfold loadSnapshots; rw [loadCandidates_famPart]

theorem chunkOk_famPart (u : User) (s : Store) (c : Content) : chunkOk u (famPart u.fam s) c = chunkOk u s c := by
  unfold chunkOk; rw [get_famPart _ _ _ rfl]

/-! ## plans under well-formedness -/
theorem deletePlan_wf (enc : Bool) (u : User) (sids : List Nat) (s : Store) (h : WF s) :
    deletePlan enc u sids s =
      (if (loadedPure enc u (fun _ => true) s).any (fun l => sids.contains l.sid && l.data.isNone) then .error .differentKey
       else if sids.any (fun sid => !(loadedPure enc u (fun _ => true) s).any (fun l => l.sid == sid)) then .error .notAvailable
       else .ok ⟨((loadedPure enc u (fun _ => true) s).filter (fun l => sids.contains l.sid)).map (fun l => .snap l.fam l.sid),
            ((((loadedPure enc u (fun _ => true) s).filter (fun l => sids.contains l.sid)).flatMap (·.chunks)).filter
              (fun c => !(((loadedPure enc u (fun _ => true) s).filter (fun l => !sids.contains l.sid)).flatMap (·.chunks)).contains c)).map
              (fun c => .chunk u.fam c)⟩) := by
  unfold deletePlan
  rw [loadSnapshots_wf enc u _ s h]

theorem cleanPlan_wf (enc : Bool) (u : User) (s : Store) (h : WF s) :
    cleanPlan enc u s = .ok (s.filterMap fun e =>
      match e.1 with
      | .chunk f c =>
        if f == u.fam && ((loadedPure enc u (fun _ => true) s).flatMap (·.chunks)).contains c then none
        else if enc && !(f == u.fam) then none
        else some (.chunk f c)
      | _ => none) := by
  unfold cleanPlan
  rw [loadSnapshots_wf enc u _ s h]
  rfl

theorem step_delete_error {enc : Bool} {u : User} {sids : List Nat} {s : Store} {e : Err}
    (h : deletePlan enc u sids s = .error e) : step enc s (.delete u sids) = s := by
  simp [step, deleteSnapshots, h]

/-- a visible snapshot object is loaded -/
theorem toLoaded_mem {enc : Bool} {u : User} {re : Nat → Bool} {s : Store} (h : WF s) {f : Fam} {sid : Nat} {b : Body}
    (hg : get s (.snap f sid) = some (.snap f sid b)) (hre : re sid = true) (hvis : visible enc u f = true) :
    toLoaded enc u f sid b ∈ loadedPure enc u re s :=
  (mem_loadedPure h).mpr ⟨b, hg, hre, hvis, rfl⟩

theorem loaded_fam_of_enc {u : User} {re : Nat → Bool} {s : Store} (h : WF s) {l : Loaded}
    (hl : l ∈ loadedPure true u re s) : l.fam = u.fam := by
  obtain ⟨_, _, _, hvis, _⟩ := (mem_loadedPure h).mp hl
  simpa [visible] using hvis

/-! ## snapshot: which names are written -/
theorem get_uploadFold_other (u : User) (stream : List Content) (acc : Store × List Name) (n : Name)
    (hn : ∀ c, n ≠ .chunk u.fam c) : get (stream.foldl (uploadChunk u) acc).1 n = get acc.1 n := by
  induction stream generalizing acc with
  | nil => rfl
  | cons c stream ih =>
    simp only [foldl_cons]
    rw [ih]
    unfold uploadChunk
    split
    · rfl
    · exact get_put_other _ _ _ _ (hn c)

theorem uploadFold_names (u : User) (stream : List Content) (acc : Store × List Name) :
    ∀ n ∈ (stream.foldl (uploadChunk u) acc).2,
      n ∈ acc.2 ∨ ∃ c ∈ stream, n = .chunk u.fam c ∧ get acc.1 (.chunk u.fam c) = none := by
  induction stream generalizing acc with
  | nil => intro n hn; exact Or.inl hn
  | cons c stream ih =>
    intro n hn
    simp only [foldl_cons] at hn
    rcases ih _ n hn with h | ⟨c', hc', rfl, hnone⟩
    · unfold uploadChunk at h
      split at h
      · exact Or.inl h
      · rename_i hex
        rcases mem_append.mp h with h | h
        · exact Or.inl h
        · simp only [mem_singleton] at h
          refine Or.inr ⟨c, by simp, h, ?_⟩
          cases hg : get acc.1 (.chunk u.fam c) with
          | none => rfl
          | some o => simp [hg] at hex
    · refine Or.inr ⟨c', mem_cons_of_mem _ hc', rfl, ?_⟩
      unfold uploadChunk at hnone
      split at hnone
      · exact hnone
      · by_cases hcc : c' = c
        · subst hcc; rw [get_put_same] at hnone; cases hnone
        · rwa [get_put_other _ _ _ _ (by simp [hcc])] at hnone

theorem uploadFold_present (u : User) (stream : List Content) (acc : Store × List Name) (c : Content)
    (h : (get acc.1 (.chunk u.fam c)).isSome ∨ c ∈ stream) :
    (get (stream.foldl (uploadChunk u) acc).1 (.chunk u.fam c)).isSome := by
  induction stream generalizing acc with
  | nil =>
    rcases h with h | h
    · exact h
    · simp at h
  | cons x stream ih =>
    simp only [foldl_cons]
    apply ih
    by_cases hx : c = x
    · subst hx
      left
      unfold uploadChunk
      split
      · assumption
      · simp [get_put_same]
    · rcases h with h | h
      · left
        unfold uploadChunk
        split
        · exact h
        · rwa [get_put_other _ _ _ _ (by simp [hx])]
      · right
        rcases mem_cons.mp h with h | h
        · exact absurd h hx
        · exact h

/-! ## a small example store used by the non-vacuity examples of C06 -/
/-- a store with snapshots of owner ⟨1,1⟩, shared ⟨2,1⟩ and independent ⟨3,2⟩ -/
def exStore : Store :=
  (snapshot ⟨3, 2⟩ [5, 6] [⟨1, 3, [5, 6]⟩] 30 3
    (snapshot ⟨2, 1⟩ [5, 7] [⟨1, 2, [5, 7]⟩] 20 2
      (snapshot ⟨1, 1⟩ [5, 6] [⟨1, 1, [5, 6]⟩] 10 1 []).1).1).1

theorem exStore_wf : WF exStore := by unfold WF NoDupKeys; decide

end Replicat.Repo
