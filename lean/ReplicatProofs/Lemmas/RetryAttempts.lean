import ReplicatProofs.Lemmas.RetryLoop
/-!
Helper lemmas for C12: what one attempt does (per adapter and direction) under a configuration that rewinds to 0, catches
everything, unlinks the temp file and truncates the sink; and what the policy answers for each class of exception.
-/
set_option linter.unusedSimpArgs false
set_option linter.unusedVariables false
namespace Replicat.Retry

/-! ## soundness conditions on a configuration (all decidable; `Properties/C12.lean` proves them for `cfgOf` by `decide`) -/

def UpSound (b : Backend) (cfg : Cfg) : Prop :=
  cfg.upRewind = some 0 ∧ cfg.upCatchAll = true ∧ (b = .local → cfg.upUnlink = true) ∧ (b = .s3 → cfg.digestRewind = some 0)

def DownSound (cfg : Cfg) : Prop :=
  cfg.downRewind = some 0 ∧ cfg.downCatchAll = true ∧ cfg.downTruncate = true

instance (b : Backend) (cfg : Cfg) : Decidable (UpSound b cfg) := by unfold UpSound; infer_instance
instance (cfg : Cfg) : Decidable (DownSound cfg) := by unfold DownSound; infer_instance

/-! ## uploads -/

/-- what every failed upload attempt restores: stream at 0, no temp file, the object is the old one or the complete payload -/
def UInv (data : Bytes) (old : Option Bytes) (st : UState) : Prop :=
  st.src = ⟨data, 0⟩ ∧ st.temps = 0 ∧ (st.visible = old ∨ st.visible = some data)

/-- what a successful upload attempt establishes -/
def UGood (data : Bytes) (st : UState) : Prop :=
  st.src = ⟨data, data.length⟩ ∧ st.temps = 0 ∧ st.visible = some data

theorem readChunks_full (c : Nat) (hc : 0 < c) (data : Bytes) :
    readChunks c (data.length + 1) ⟨data, 0⟩ = (data, ⟨data, data.length⟩) := by
  have := readChunks_all c hc (data.length + 1) ⟨data, 0⟩ (by simp)
  simpa using this

theorem copyUp_spec (c : Nat) (hc : 0 < c) (rf wf : Option Nat) (data : Bytes) :
    (copyLoop (· ++ ·) c rf wf (data.length + 1) 0 ⟨data, 0⟩ ([] : Bytes)).2.1.data = data ∧
    (copyLoop (· ++ ·) c rf wf (data.length + 1) 0 ⟨data, 0⟩ ([] : Bytes)).1 ≠ .fuel ∧
    ((copyLoop (· ++ ·) c rf wf (data.length + 1) 0 ⟨data, 0⟩ ([] : Bytes)).1 = .done →
      (copyLoop (· ++ ·) c rf wf (data.length + 1) 0 ⟨data, 0⟩ ([] : Bytes)).2.2 = data ∧
      (copyLoop (· ++ ·) c rf wf (data.length + 1) 0 ⟨data, 0⟩ ([] : Bytes)).2.1.pos = data.length) := by
  refine ⟨copyLoop_data _ _ _ _ _ _ _ _, copyLoop_ne_fuel _ c hc _ _ _ _ _ _ (by simp), fun hd => ?_⟩
  obtain ⟨t, h1, h2⟩ := copyLoop_spec (· ++ ·) (fun (w a : Bytes) => w ++ a) (by intro w a b; simp [List.append_assoc]) c hc rf wf
    ([] : Bytes) (data.length + 1) 0 ⟨data, 0⟩ []
  simp only [List.append_nil, List.nil_append] at h1 h2
  obtain ⟨e1, e2⟩ := h2 hd
  simp at e1 e2
  exact ⟨by rw [h1, e1], e2⟩

theorem faultBase_some (x : Fault) : faultBase (some x) = some x.base := rfl
theorem faultBase_none : faultBase none = none := rfl

theorem localUpAt_spec (cfg : Cfg) (hs : UpSound .local cfg) (c : Nat) (hc : 0 < c) (data : Bytes) (old : Option Bytes) (k : Nat) :
    AttSpec (localUpAt cfg c k) (UInv data old) (UGood data) (fun e => e = .os k) (fun _ => True) := by
  obtain ⟨hrw, hca, hul, _⟩ := hs
  have hul := hul rfl
  intro f st hinv _
  obtain ⟨hsrc, htemps, hvis⟩ := hinv
  obtain ⟨src, visible, temps⟩ := st
  simp only at hsrc htemps hvis
  subst hsrc htemps
  have hfail : ∀ (s : Src) (n : Nat), s.data = data →
      (⟨some (Err.os k), exceptUp cfg { src := s, visible := visible, temps := if (cfg.upCatchAll && cfg.upUnlink) = true then 0 else 0 + 1 }, n⟩ : Att UState).err = some (.os k) ∧
      UInv data old (exceptUp cfg { src := s, visible := visible, temps := if (cfg.upCatchAll && cfg.upUnlink) = true then 0 else 0 + 1 }) := by
    intro s n hsd
    refine ⟨rfl, ?_⟩
    simp only [exceptUp, hca, hul, hrw, Src.rewind, Bool.and_self, if_true, UInv]
    refine ⟨?_, trivial, hvis⟩
    rw [← hsd]
  unfold localUpAt
  by_cases h1 : f = some .mktemp
  · rw [if_pos h1]
    exact Or.inr ⟨.os k, rfl, rfl, ⟨rfl, rfl, hvis⟩⟩
  · rw [if_neg h1]
    by_cases h2 : f = some .pre
    · rw [if_pos h2]
      exact Or.inr ⟨.os k, (hfail ⟨data, 0⟩ 0 rfl).1, rfl, (hfail ⟨data, 0⟩ 0 rfl).2⟩
    · rw [if_neg h2]
      obtain ⟨hd, hnf, hdone⟩ := copyUp_spec c hc (faultSrc f) (faultMid f) data
      generalize hcl : copyLoop (· ++ ·) c (faultSrc f) (faultMid f) (data.length + 1) 0 ⟨data, 0⟩ ([] : Bytes) = r at hd hnf hdone
      obtain ⟨e, s, t⟩ := r
      simp only at hd hnf hdone
      cases e with
      | done =>
        obtain ⟨ht, hp⟩ := hdone rfl
        simp only
        by_cases h3 : f = some .rename
        · rw [if_pos h3]
          exact Or.inr ⟨.os k, (hfail s t.length hd).1, rfl, (hfail s t.length hd).2⟩
        · rw [if_neg h3]
          refine Or.inl ⟨rfl, ?_, rfl, ?_⟩
          · show s = ⟨data, data.length⟩
            obtain ⟨sd, sp⟩ := s
            simp only at hd hp
            rw [hd, hp]
          · show some t = some data
            rw [ht]
      | fault =>
        simp only
        exact Or.inr ⟨.os k, (hfail s t.length hd).1, rfl, (hfail s t.length hd).2⟩
      | fuel => exact absurd rfl hnf

/-- the real method: whatever class the fault surfaces with, the exception is an OSError of some class -/
theorem localUp_spec (cfg : Cfg) (hs : UpSound .local cfg) (c : Nat) (hc : 0 < c) (data : Bytes) (old : Option Bytes) :
    AttSpec (localUp cfg c) (UInv data old) (UGood data) (fun e => ∃ k, e = .os k) (fun _ => True) := by
  intro f st hinv _
  rcases localUpAt_spec cfg hs c hc data old (faultClass f) (faultBase f) st hinv (fun _ _ => trivial) with h | ⟨e, h1, h2, h3⟩
  · exact Or.inl h
  · exact Or.inr ⟨e, h1, ⟨_, h2⟩, h3⟩

theorem localUp_none (cfg : Cfg) (c : Nat) (hc : 0 < c) (data : Bytes) (old : Option Bytes) (st : UState)
    (hinv : UInv data old st) : (localUp cfg c none st).err = none := by
  obtain ⟨hsrc, _, _⟩ := hinv
  obtain ⟨src, visible, temps⟩ := st
  simp only at hsrc
  subst hsrc
  unfold localUp
  rw [faultBase_none]
  unfold localUpAt
  simp only [reduceCtorEq, if_false, faultSrc, faultMid]
  have hd := copyLoop_done (· ++ ·) c hc (data.length + 1) 0 ⟨data, 0⟩ ([] : Bytes) (by simp)
  generalize copyLoop (· ++ ·) c none none (data.length + 1) 0 ⟨data, 0⟩ ([] : Bytes) = r at hd
  obtain ⟨e, s, t⟩ := r
  simp only at hd
  subst hd
  rfl

/-- places where a fault makes a local upload attempt fail whatever the payload -/
def localUpHardAt : Fault → Prop
  | .pre | .mktemp | .rename => True
  | _ => False

/-- faults that make a local upload attempt fail wherever they are placed (with whatever errno they surface) -/
def localUpHard (x : Fault) : Prop := localUpHardAt x.base

theorem localUp_hard (cfg : Cfg) (c : Nat) (hc : 0 < c) (data : Bytes) (old : Option Bytes) (x : Fault) (st : UState)
    (hinv : UInv data old st) (hx : localUpHard x) : (localUp cfg c (some x) st).err ≠ none := by
  obtain ⟨hsrc, _, _⟩ := hinv
  obtain ⟨src, visible, temps⟩ := st
  simp only at hsrc
  subst hsrc
  unfold localUp
  rw [faultBase_some]
  unfold localUpHard at hx
  generalize faultClass (some x) = kk
  generalize x.base = y at hx
  cases y with
  | pre => simp [localUpAt]
  | mktemp => simp [localUpAt]
  | src j => exact False.elim hx
  | mid j => exact False.elim hx
  | sink j => exact False.elim hx
  | trunc => exact False.elim hx
  | cut k => exact False.elim hx
  | status code ra => exact False.elim hx
  | lost => exact False.elim hx
  | errno k f => exact False.elim hx
  | rename =>
    unfold localUpAt
    simp only [reduceCtorEq, Option.some.injEq, if_false, faultSrc, faultMid]
    have hd := copyLoop_done (· ++ ·) c hc (data.length + 1) 0 ⟨data, 0⟩ ([] : Bytes) (by simp)
    generalize copyLoop (· ++ ·) c none none (data.length + 1) 0 ⟨data, 0⟩ ([] : Bytes) = r at hd
    obtain ⟨e, s, t⟩ := r
    simp only at hd
    subst hd
    simp

/-- the exceptions an HTTP attempt raises for the faults of a plan whose status codes satisfy `S` -/
def HttpErr (cfg : Cfg) (S : Nat → Prop) (e : Err) : Prop :=
  e = .transport ∨ ∃ code ra, S code ∧ e = hook cfg code ra

def StatusIn (S : Nat → Prop) (x : Fault) : Prop := ∀ code ra, x = .status code ra → S code

theorem httpUp_spec (cfg : Cfg) (b : Backend) (hs : UpSound b cfg) (c : Nat) (hc : 0 < c) (data : Bytes) (old : Option Bytes)
    (digest : Option Bytes) (hdg : digest = none ∨ digest = some data) (S : Nat → Prop) :
    AttSpec (httpUp cfg c data.length digest) (UInv data old) (UGood data) (HttpErr cfg S) (StatusIn S) := by
  obtain ⟨hrw, hca, _, _⟩ := hs
  intro f st hinv hall
  obtain ⟨hsrc, htemps, hvis⟩ := hinv
  obtain ⟨src, visible, temps⟩ := st
  simp only at hsrc htemps hvis
  subst hsrc htemps
  have hfull := readChunks_full c hc data
  have hdok : digestMatches digest data = true := by
    rcases hdg with h | h <;> simp [h, digestMatches]
  have hex : ∀ (s : Src) (v : Option Bytes), s.data = data → (v = old ∨ v = some data) →
      UInv data old (exceptUp cfg ⟨s, v, 0⟩) := by
    intro s v hsd hv
    simp only [exceptUp, hca, hrw, Src.rewind, if_true, UInv]
    exact ⟨by rw [← hsd], trivial, hv⟩
  have hokcase : ∀ f : Option Fault, f ≠ some .pre → (∀ j, f ≠ some (.mid j)) → (∀ code ra, f ≠ some (.status code ra)) → f ≠ some .lost →
      (httpUp cfg c data.length digest f ⟨⟨data, 0⟩, visible, 0⟩).err = none ∧
      UGood data (httpUp cfg c data.length digest f ⟨⟨data, 0⟩, visible, 0⟩).st := by
    intro f h1 h2 h3 h4
    cases f with
    | none => simp [httpUp, hfull, hdok, UGood]
    | some x =>
      cases x with
      | pre => exact absurd rfl h1
      | mid j => exact absurd rfl (h2 j)
      | status code ra => exact absurd rfl (h3 code ra)
      | lost => exact absurd rfl h4
      | mktemp => simp [httpUp, hfull, hdok, UGood]
      | src j => simp [httpUp, hfull, hdok, UGood]
      | sink j => simp [httpUp, hfull, hdok, UGood]
      | trunc => simp [httpUp, hfull, hdok, UGood]
      | cut k => simp [httpUp, hfull, hdok, UGood]
      | rename => simp [httpUp, hfull, hdok, UGood]
      | errno k f => simp [httpUp, hfull, hdok, UGood]
  cases f with
  | none => exact Or.inl (hokcase none (by simp) (by simp) (by simp) (by simp))
  | some x =>
    cases x with
    | pre =>
      refine Or.inr ⟨.transport, by simp [httpUp], Or.inl rfl, ?_⟩
      simp only [httpUp]
      exact hex _ _ rfl hvis
    | mid j =>
      refine Or.inr ⟨.transport, by simp [httpUp], Or.inl rfl, ?_⟩
      simp only [httpUp]
      exact hex _ _ (readChunks_data c j _) hvis
    | status code ra =>
      refine Or.inr ⟨hook cfg code ra, by simp [httpUp], Or.inr ⟨code, ra, hall _ rfl code ra rfl, rfl⟩, ?_⟩
      simp only [httpUp, hfull]
      exact hex _ _ rfl hvis
    | lost =>
      refine Or.inr ⟨.transport, by simp [httpUp, hfull, hdok], Or.inl rfl, ?_⟩
      simp only [httpUp, hfull, hdok, and_self, if_true]
      exact hex _ _ rfl (Or.inr rfl)
    | mktemp => exact Or.inl (hokcase _ (by simp) (by simp) (by simp) (by simp))
    | src j => exact Or.inl (hokcase _ (by simp) (by simp) (by simp) (by simp))
    | sink j => exact Or.inl (hokcase _ (by simp) (by simp) (by simp) (by simp))
    | trunc => exact Or.inl (hokcase _ (by simp) (by simp) (by simp) (by simp))
    | cut k => exact Or.inl (hokcase _ (by simp) (by simp) (by simp) (by simp))
    | rename => exact Or.inl (hokcase _ (by simp) (by simp) (by simp) (by simp))
    | errno k f => exact Or.inl (hokcase _ (by simp) (by simp) (by simp) (by simp))

/-- faults that make an HTTP upload attempt fail wherever they are placed -/
def httpUpHard : Fault → Prop
  | .pre | .mid _ | .status _ _ | .lost => True
  | _ => False

theorem httpUp_hard (cfg : Cfg) (c : Nat) (hc : 0 < c) (data : Bytes) (old : Option Bytes) (digest : Option Bytes)
    (hdg : digest = none ∨ digest = some data) (x : Fault) (st : UState) (hinv : UInv data old st) (hx : httpUpHard x) :
    (httpUp cfg c data.length digest (some x) st).err ≠ none := by
  obtain ⟨hsrc, _, _⟩ := hinv
  obtain ⟨src, visible, temps⟩ := st
  simp only at hsrc
  subst hsrc
  have hfull := readChunks_full c hc data
  have hdok : digestMatches digest data = true := by
    rcases hdg with h | h <;> simp [h, digestMatches]
  cases x with
  | pre => simp [httpUp]
  | mid j => simp [httpUp]
  | status code ra => simp [httpUp, hfull]
  | lost => simp [httpUp, hfull, hdok]
  | mktemp => exact False.elim hx
  | src j => exact False.elim hx
  | sink j => exact False.elim hx
  | trunc => exact False.elim hx
  | cut k => exact False.elim hx
  | rename => exact False.elim hx
  | errno k f => exact False.elim hx

/-! ## downloads -/

/-- what every failed download attempt restores -/
def DInv (k : Sink) : Prop := k.pos = 0

/-- what a successful download attempt establishes: the sink holds exactly the object -/
def DGood (obj : Bytes) (k : Sink) : Prop := k.buf = obj ∧ k.pos = obj.length

theorem exceptDown_inv (cfg : Cfg) (hs : DownSound cfg) (k : Sink) : DInv (exceptDown cfg k) := by
  obtain ⟨hrw, hca, _⟩ := hs
  simp [exceptDown, hca, hrw, Sink.rewind, DInv]

theorem copyDown_spec (c : Nat) (hc : 0 < c) (rf wf : Option Nat) (obj : Bytes) (k : Sink) (hk : k.pos = 0) (hl : k.buf.length ≤ obj.length) :
    (copyLoop Sink.write c rf wf (obj.length + 1) 0 ⟨obj, 0⟩ k).1 ≠ .fuel ∧
    ((copyLoop Sink.write c rf wf (obj.length + 1) 0 ⟨obj, 0⟩ k).1 = .done →
      DGood obj (copyLoop Sink.write c rf wf (obj.length + 1) 0 ⟨obj, 0⟩ k).2.2) := by
  refine ⟨copyLoop_ne_fuel _ c hc _ _ _ _ _ _ (by simp), fun hd => ?_⟩
  have hk0 : k.write [] = k := Sink.write_nil k (by omega)
  obtain ⟨t, h1, h2⟩ := copyLoop_spec Sink.write Sink.write Sink.write_write c hc rf wf k (obj.length + 1) 0 ⟨obj, 0⟩ []
  rw [hk0] at h1 h2
  obtain ⟨e1, _⟩ := h2 hd
  simp only [List.nil_append, List.drop_zero] at h1 e1
  rw [h1, e1]
  exact Sink.write_all k obj hk hl

theorem localDownAt_spec (cfg : Cfg) (hs : DownSound cfg) (c : Nat) (hc : 0 < c) (obj : Bytes) (k : Nat) :
    AttSpec (localDownAt cfg c obj k) DInv (DGood obj) (fun e => e = .os k) (fun _ => True) := by
  have hs' := hs
  obtain ⟨hrw, hca, htr⟩ := hs
  intro f st hinv _
  unfold localDownAt
  by_cases h1 : f = some .pre
  · rw [if_pos h1]
    exact Or.inr ⟨.os k, rfl, rfl, hinv⟩
  · rw [if_neg h1]
    by_cases h2 : f = some .trunc ∧ cfg.downTruncate = true
    · rw [if_pos h2]
      exact Or.inr ⟨.os k, rfl, rfl, exceptDown_inv cfg hs' st⟩
    · rw [if_neg h2]
      simp only [htr, if_true]
      obtain ⟨hnf, hdone⟩ := copyDown_spec c hc (faultMid f) (faultSink f) obj (st.truncate obj.length) hinv (truncate_length_le st obj.length)
      generalize copyLoop Sink.write c (faultMid f) (faultSink f) (obj.length + 1) 0 ⟨obj, 0⟩ (st.truncate obj.length) = r at hnf hdone
      obtain ⟨e, s, k'⟩ := r
      simp only at hnf hdone
      cases e with
      | done => exact Or.inl ⟨rfl, hdone rfl⟩
      | fault => exact Or.inr ⟨.os k, rfl, rfl, exceptDown_inv cfg hs' k'⟩
      | fuel => exact absurd rfl hnf

theorem localDown_spec (cfg : Cfg) (hs : DownSound cfg) (c : Nat) (hc : 0 < c) (obj : Bytes) :
    AttSpec (localDown cfg c obj) DInv (DGood obj) (fun e => ∃ k, e = .os k) (fun _ => True) := by
  intro f st hinv _
  rcases localDownAt_spec cfg hs c hc obj (faultClass f) (faultBase f) st hinv (fun _ _ => trivial) with h | ⟨e, h1, h2, h3⟩
  · exact Or.inl h
  · exact Or.inr ⟨e, h1, ⟨_, h2⟩, h3⟩

theorem localDown_none (cfg : Cfg) (hs : DownSound cfg) (c : Nat) (hc : 0 < c) (obj : Bytes) (st : Sink) (hinv : DInv st) :
    (localDown cfg c obj none st).err = none := by
  unfold localDown
  rw [faultBase_none]
  unfold localDownAt
  simp only [reduceCtorEq, if_false, false_and, faultMid, faultSink]
  have hd := copyLoop_done Sink.write c hc (obj.length + 1) 0 ⟨obj, 0⟩ (if cfg.downTruncate = true then st.truncate obj.length else st) (by simp)
  generalize copyLoop Sink.write c none none (obj.length + 1) 0 ⟨obj, 0⟩ (if cfg.downTruncate = true then st.truncate obj.length else st) = r at hd
  obtain ⟨e, s, k'⟩ := r
  simp only at hd
  subst hd
  rfl

def localDownHardAt : Fault → Prop
  | .pre | .trunc => True
  | _ => False

def localDownHard (x : Fault) : Prop := localDownHardAt x.base

theorem localDown_hard (cfg : Cfg) (hs : DownSound cfg) (c : Nat) (obj : Bytes) (x : Fault) (st : Sink) (hx : localDownHard x) :
    (localDown cfg c obj (some x) st).err ≠ none := by
  obtain ⟨_, _, htr⟩ := hs
  unfold localDown
  rw [faultBase_some]
  unfold localDownHard at hx
  generalize faultClass (some x) = kk
  generalize x.base = y at hx
  cases y with
  | pre => simp [localDownAt]
  | trunc => simp [localDownAt, htr]
  | errno k f => exact False.elim hx
  | mktemp => exact False.elim hx
  | src j => exact False.elim hx
  | mid j => exact False.elim hx
  | sink j => exact False.elim hx
  | cut k => exact False.elim hx
  | status code ra => exact False.elim hx
  | lost => exact False.elim hx
  | rename => exact False.elim hx

theorem httpDown_full (cfg : Cfg) (hs : DownSound cfg) (c : Nat) (hc : 0 < c) (obj : Bytes) (st : Sink) (hinv : DInv st) :
    DGood obj ((chunkList c (obj.length + 1) obj).foldl Sink.write (if cfg.downTruncate = true then st.truncate obj.length else st)) := by
  obtain ⟨_, _, htr⟩ := hs
  simp only [htr, if_true]
  rw [foldl_write _ _ (by rw [truncate_pos]; unfold DInv at hinv; omega), chunkList_flatten c hc _ _ (by simp)]
  exact Sink.write_all _ obj hinv (truncate_length_le st obj.length)

theorem httpDown_spec (cfg : Cfg) (hs : DownSound cfg) (c : Nat) (hc : 0 < c) (obj : Bytes) (S : Nat → Prop) :
    AttSpec (httpDown cfg c obj) DInv (DGood obj) (HttpErr cfg S) (StatusIn S) := by
  intro f st hinv hall
  have hgood := httpDown_full cfg hs c hc obj st hinv
  cases f with
  | none => exact Or.inl ⟨rfl, hgood⟩
  | some x =>
    cases x with
    | pre => exact Or.inr ⟨.transport, rfl, Or.inl rfl, hinv⟩
    | status code ra => exact Or.inr ⟨hook cfg code ra, rfl, Or.inr ⟨code, ra, hall _ rfl code ra rfl, rfl⟩, hinv⟩
    | cut n => exact Or.inr ⟨.transport, rfl, Or.inl rfl, exceptDown_inv cfg hs _⟩
    | mktemp => exact Or.inl ⟨rfl, hgood⟩
    | src j => exact Or.inl ⟨rfl, hgood⟩
    | mid j => exact Or.inl ⟨rfl, hgood⟩
    | sink j => exact Or.inl ⟨rfl, hgood⟩
    | trunc => exact Or.inl ⟨rfl, hgood⟩
    | lost => exact Or.inl ⟨rfl, hgood⟩
    | rename => exact Or.inl ⟨rfl, hgood⟩
    | errno k f => exact Or.inl ⟨rfl, hgood⟩

def httpDownHard : Fault → Prop
  | .pre | .status _ _ | .cut _ => True
  | _ => False

theorem httpDown_hard (cfg : Cfg) (c : Nat) (obj : Bytes) (x : Fault) (st : Sink) (hx : httpDownHard x) :
    (httpDown cfg c obj (some x) st).err ≠ none := by
  cases x with
  | pre => simp [httpDown]
  | status code ra => simp [httpDown]
  | cut n => simp [httpDown]
  | mktemp => exact False.elim hx
  | src j => exact False.elim hx
  | mid j => exact False.elim hx
  | sink j => exact False.elim hx
  | trunc => exact False.elim hx
  | lost => exact False.elim hx
  | rename => exact False.elim hx
  | errno k f => exact False.elim hx

end Replicat.Retry
