import ReplicatModel.ChunkerSync
import ReplicatProofs.Lemmas.Chunker
/-! Locality lemmas for the chunker model (C11): fuel independence and unrolling of `greedy`, the relation between the
adapter loop (`drain` / `feed` / `chunkAll`) and `greedy`, restart at a boundary, common prefixes, hash congruence,
alignment of boundaries, the padded snapshot stream.  Core Lean only. -/
namespace Replicat

/-! ### bridge lemmas for the plug-in section `tools/sections/11_chunksync.py`: the hand-written `feed` decides finality like the
adapter ("the look-ahead piece is None"), and `RepositoryProps.chunkify` hands the repository's `chunker_params` to the adapter.
If an edit to /repo changes either, these stop compiling (a broken proof obligation of C11). -/
theorem Gen.chunksyncSectionOk_eq : Gen.chunksyncSectionOk = true := rfl
theorem Gen.adapterFinalIsLookaheadNone_eq : Gen.adapterFinalIsLookaheadNone = true := rfl
theorem Gen.chunkifyPassesKey_eq : Gen.chunkifyPassesKey = true := rfl
theorem Gen.paddingRecognised_eq : Gen.paddingRecognised = true := rfl

/-! ### the main cut under valid parameters -/
theorem valid_max_pos {p : CParams} (hv : p.valid) : 0 < p.max := by
  obtain ⟨h1, h2, _⟩ := hv; omega

theorem valid_ceil_le {p : CParams} (hv : p.valid) : ceil4 p.max ≤ 2 * p.max := by
  obtain ⟨h1, h2, h3⟩ := hv
  unfold ceil4 at *; omega

theorem le_ceil4 (n : Nat) : n ≤ ceil4 n := by unfold ceil4; omega

/-- with at least `ceil4 max` bytes the main rule yields a positive, bounded, aligned cut -/
theorem mainCut_valid (p : CParams) (hv : p.valid) (h : Hash) (s : Bytes) (hl : ceil4 p.max ≤ s.length) :
    ∃ c, mainCut p h s = some c ∧ 1 ≤ c ∧ p.min ≤ c ∧ c ≤ p.max ∧ 4 ∣ c := by
  obtain ⟨c, hc⟩ := Option.isSome_iff_exists.mp (mainCut_isSome_of_len p h s hl)
  have hb := mainCut_bounds p hv h s c hc
  exact ⟨c, hc, by have := hv.1; omega, hb.1, hb.2.1, hb.2.2⟩

/-- locality in append form: bytes after the first `ceil4 max` never influence the main-rule cut -/
theorem mainCut_append (p : CParams) (h : Hash) (buf ext : Bytes) (hl : ceil4 p.max ≤ buf.length) :
    mainCut p h (buf ++ ext) = mainCut p h buf := by
  have := mainCut_take p h (buf ++ ext) buf.length (by simp) hl
  rw [List.take_left] at this
  exact this.symm

/-- two buffers that agree on their first `ceil4 max` bytes get the same main-rule cut -/
theorem mainCut_congr_take (p : CParams) (h : Hash) (s t : Bytes)
    (hs : ceil4 p.max ≤ s.length) (ht : ceil4 p.max ≤ t.length)
    (he : s.take (ceil4 p.max) = t.take (ceil4 p.max)) : mainCut p h s = mainCut p h t := by
  rw [← mainCut_take p h s (ceil4 p.max) hs (Nat.le_refl _), ← mainCut_take p h t (ceil4 p.max) ht (Nat.le_refl _), he]

/-! ### `greedy`: fuel independence, unrolling -/
theorem greedy_fuel (p : CParams) (hmax : 0 < p.max) (h : Hash) :
    ∀ (f g : Nat) (s : Bytes), s.length < f → s.length < g → greedy p h f s = greedy p h g s := by
  intro f
  induction f with
  | zero => intro g s hf; omega
  | succ f ih =>
    intro g s hf hg
    cases g with
    | zero => omega
    | succ g =>
      by_cases hl : s.length < 2 * p.max
      · simp only [greedy, if_pos hl]
      · simp only [greedy, if_neg hl]
        cases hm : mainCut p h s with
        | none => rfl
        | some pos =>
          simp only
          by_cases h0 : pos = 0
          · simp only [if_pos h0]
          · simp only [if_neg h0]
            rw [ih g (s.drop pos) (by rw [List.length_drop]; omega) (by rw [List.length_drop]; omega)]

theorem greedyFull_small (p : CParams) (h : Hash) (s : Bytes) (hl : s.length < 2 * p.max) :
    greedyFull p h s = some [] := by
  simp only [greedyFull, greedy, if_pos hl]

theorem greedyFull_step (p : CParams) (hmax : 0 < p.max) (h : Hash) (s : Bytes) (c : Nat)
    (hl : 2 * p.max ≤ s.length) (hm : mainCut p h s = some c) (h0 : c ≠ 0) :
    greedyFull p h s = (greedyFull p h (s.drop c)).map (s.take c :: ·) := by
  have hnl : ¬ s.length < 2 * p.max := by omega
  have key : greedy p h (s.length + 1) s = (greedy p h s.length (s.drop c)).map (s.take c :: ·) := by
    simp only [greedy, if_neg hnl, hm, if_neg h0]
  unfold greedyFull
  rw [key, greedy_fuel p hmax h s.length ((s.drop c).length + 1) (s.drop c) (by rw [List.length_drop]; omega) (by omega)]

/-- inversion: how a greedy result was produced -/
theorem greedyFull_inv (p : CParams) (hv : p.valid) (h : Hash) (s : Bytes) (g : List Bytes)
    (hg : greedyFull p h s = some g) :
    (s.length < 2 * p.max ∧ g = []) ∨
    (∃ c g', 2 * p.max ≤ s.length ∧ mainCut p h s = some c ∧ 1 ≤ c ∧ p.min ≤ c ∧ c ≤ p.max ∧ 4 ∣ c ∧
      greedyFull p h (s.drop c) = some g' ∧ g = s.take c :: g') := by
  by_cases hl : s.length < 2 * p.max
  · left
    rw [greedyFull_small p h s hl] at hg
    exact ⟨hl, by simpa using hg.symm⟩
  · right
    have hl' : 2 * p.max ≤ s.length := by omega
    obtain ⟨c, hc, h1, h2, h3, h4⟩ := mainCut_valid p hv h s (by have := valid_ceil_le hv; omega)
    rw [greedyFull_step p (valid_max_pos hv) h s c hl' hc (by omega)] at hg
    simp only [Option.map_eq_some_iff] at hg
    obtain ⟨g', hg', rfl⟩ := hg
    exact ⟨c, g', hl', hc, h1, h2, h3, h4, hg', rfl⟩

/-- for valid parameters `greedy` never reads outside the stream -/
theorem greedyFull_isSome (p : CParams) (hv : p.valid) (h : Hash) :
    ∀ (n : Nat) (s : Bytes), s.length ≤ n → (greedyFull p h s).isSome := by
  intro n
  induction n with
  | zero =>
    intro s hs
    rw [greedyFull_small p h s (by have := valid_max_pos hv; omega)]; rfl
  | succ n ih =>
    intro s hs
    by_cases hl : s.length < 2 * p.max
    · rw [greedyFull_small p h s hl]; rfl
    · obtain ⟨c, hc, h1, _, _, _⟩ := mainCut_valid p hv h s (by have := valid_ceil_le hv; omega)
      rw [greedyFull_step p (valid_max_pos hv) h s c (by omega) hc (by omega)]
      simp only [Option.isSome_map]
      exact ih (s.drop c) (by rw [List.length_drop]; omega)

/-- the greedy chunks are a prefix of the stream; what is left is shorter than `2·max` -/
theorem greedyFull_lossless (p : CParams) (hv : p.valid) (h : Hash) :
    ∀ (g : List Bytes) (s : Bytes), greedyFull p h s = some g →
      g.flatten ++ s.drop g.flatten.length = s ∧ g.flatten.length ≤ s.length ∧ s.length < g.flatten.length + 2 * p.max := by
  intro g
  induction g with
  | nil =>
    intro s hg
    rcases greedyFull_inv p hv h s [] hg with ⟨hl, _⟩ | ⟨c, g', _, _, _, _, _, _, _, hcons⟩
    · simp; omega
    · cases hcons
  | cons x g ih =>
    intro s hg
    rcases greedyFull_inv p hv h s (x :: g) hg with ⟨_, hnil⟩ | ⟨c, g', hl, hc, h1, _, hmax, _, hg', hcons⟩
    · cases hnil
    · simp only [List.cons.injEq] at hcons
      obtain ⟨rfl, rfl⟩ := hcons
      obtain ⟨e1, e2, e3⟩ := ih (s.drop c) hg'
      have hcl : c ≤ s.length := by omega
      have hx : (s.take c).length = c := by rw [List.length_take]; omega
      rw [List.length_drop] at e2 e3
      simp only [List.flatten_cons, List.length_append, hx]
      refine ⟨?_, by omega, by omega⟩
      rw [List.append_assoc, ← List.drop_drop, e1, List.take_append_drop]

/-- every greedy chunk has a length in `[min, max]` that is a multiple of four -/
theorem greedyFull_good (p : CParams) (hv : p.valid) (h : Hash) :
    ∀ (g : List Bytes) (s : Bytes), greedyFull p h s = some g →
      ∀ c ∈ g, p.min ≤ c.length ∧ c.length ≤ p.max ∧ 4 ∣ c.length := by
  intro g
  induction g with
  | nil => intro s _ c hc; cases hc
  | cons x g ih =>
    intro s hg
    rcases greedyFull_inv p hv h s (x :: g) hg with ⟨_, hnil⟩ | ⟨c, g', hl, hc, h1, hmin, hmax, h4, hg', hcons⟩
    · cases hnil
    · simp only [List.cons.injEq] at hcons
      obtain ⟨rfl, rfl⟩ := hcons
      intro y hy
      rcases List.mem_cons.mp hy with rfl | hy
      · have hx : (s.take c).length = c := by rw [List.length_take]; omega
        rw [hx]; exact ⟨hmin, hmax, h4⟩
      · exact ih (s.drop c) hg' y hy

theorem flatten_length_dvd (l : List Bytes) (hl : ∀ c ∈ l, 4 ∣ c.length) : 4 ∣ l.flatten.length := by
  induction l with
  | nil => simp
  | cons x l ih =>
    have hx := hl x (by simp)
    have := ih (fun c hc => hl c (List.mem_cons_of_mem _ hc))
    simp only [List.flatten_cons, List.length_append]
    omega

/-- every boundary of the greedy chunking is a multiple of four -/
theorem greedyFull_boundary_aligned (p : CParams) (hv : p.valid) (h : Hash) (s : Bytes) (g : List Bytes)
    (hg : greedyFull p h s = some g) (pre post : List Bytes) (hs : g = pre ++ post) : 4 ∣ pre.flatten.length := by
  have hgood := greedyFull_good p hv h g s hg
  apply flatten_length_dvd
  intro c hc
  exact (hgood c (by rw [hs]; exact List.mem_append.mpr (Or.inl hc))).2.2

/-! ### restart at a boundary -/
theorem greedyFull_restart (p : CParams) (hv : p.valid) (h : Hash) :
    ∀ (pre post : List Bytes) (s : Bytes), greedyFull p h s = some (pre ++ post) →
      greedyFull p h (s.drop pre.flatten.length) = some post := by
  intro pre
  induction pre with
  | nil => intro post s hg; simpa using hg
  | cons x pre ih =>
    intro post s hg
    rcases greedyFull_inv p hv h s _ hg with ⟨_, hnil⟩ | ⟨c, g', hl, hc, h1, _, hmax, _, hg', hcons⟩
    · cases hnil
    · simp only [List.cons_append, List.cons.injEq] at hcons
      obtain ⟨rfl, rfl⟩ := hcons
      have hx : (s.take c).length = c := by rw [List.length_take]; omega
      have := ih post (s.drop c) hg'
      rw [List.drop_drop] at this
      simp only [List.flatten_cons, List.length_append, hx]
      exact this

/-- beyond the end of the greedy zone the greedy chunking of what is left is empty -/
theorem greedyFull_drop_beyond (p : CParams) (hmax : 0 < p.max) (h : Hash) (s : Bytes) (b : Nat)
    (hb : s.length < b + 2 * p.max) :
    greedyFull p h (s.drop b) = some [] :=
  greedyFull_small p h _ (by rw [List.length_drop]; omega)

/-! ### the adapter loop against `greedy` -/

/-- final drain: the produced chunks start with the greedy chunking of the buffer -/
theorem drain_final_greedy (p : CParams) (hv : p.valid) (h : Hash) :
    ∀ (fuel : Nat) (buf : Bytes) (cs : List Bytes) (rest : Bytes), buf.length < fuel →
      drain p h true fuel buf = some (cs, rest) →
      ∃ g tail, greedyFull p h buf = some g ∧ cs = g ++ tail := by
  intro fuel
  induction fuel with
  | zero => intro buf cs rest hf; omega
  | succ n ih =>
    intro buf cs rest hf hd
    unfold drain at hd
    split at hd
    · contradiction
    · rename_i pos hpos
      rcases nextCut_cases p h buf true pos hpos with ⟨_, hlt, _⟩ | ⟨hff, _, _⟩ | ⟨hf1, _, hm⟩
      · exact ⟨[], cs, greedyFull_small p h buf hlt, rfl⟩
      · cases hff
      · have hl := hf1 rfl
        have hb := mainCut_bounds p hv h buf pos hm
        have hpos1 : 1 ≤ pos := by have := hv.1; omega
        have hne : pos ≠ 0 := by omega
        rw [if_neg hne] at hd
        split at hd
        · contradiction
        · rename_i cs' rest' hrec
          simp only [Option.some.injEq, Prod.mk.injEq] at hd
          obtain ⟨rfl, rfl⟩ := hd
          obtain ⟨g', tail, hg', rfl⟩ := ih (buf.drop pos) cs' rest' (by rw [List.length_drop]; omega) hrec
          refine ⟨buf.take pos :: g', tail, ?_, rfl⟩
          rw [greedyFull_step p (valid_max_pos hv) h buf pos hl hm hne, hg']; rfl

/-- non-final drain: whatever greedy-prefixed list follows for `rest ++ ext`, the whole is greedy-prefixed for `buf ++ ext` -/
theorem drain_nonfinal_greedy (p : CParams) (hv : p.valid) (h : Hash) :
    ∀ (fuel : Nat) (buf : Bytes) (cs : List Bytes) (rest : Bytes),
      drain p h false fuel buf = some (cs, rest) →
      ∀ (ext : Bytes) (more g tail : List Bytes), greedyFull p h (rest ++ ext) = some g → more = g ++ tail →
        ∃ g' tail', greedyFull p h (buf ++ ext) = some g' ∧ cs ++ more = g' ++ tail' := by
  intro fuel
  induction fuel with
  | zero =>
    intro buf cs rest hd ext more g tail hg hm
    simp only [drain, Option.some.injEq, Prod.mk.injEq] at hd
    obtain ⟨rfl, rfl⟩ := hd
    exact ⟨g, tail, hg, by simpa using hm⟩
  | succ n ih =>
    intro buf cs rest hd ext more g tail hg hmore
    unfold drain at hd
    split at hd
    · contradiction
    · rename_i pos hpos
      by_cases h0 : pos = 0
      · rw [if_pos h0] at hd
        simp only [Option.some.injEq, Prod.mk.injEq] at hd
        obtain ⟨rfl, rfl⟩ := hd
        exact ⟨g, tail, hg, by simpa using hmore⟩
      · rw [if_neg h0] at hd
        split at hd
        · contradiction
        · rename_i cs' rest' hrec
          simp only [Option.some.injEq, Prod.mk.injEq] at hd
          obtain ⟨rfl, rfl⟩ := hd
          obtain ⟨g1, tail1, hg1, he1⟩ := ih (buf.drop pos) cs' rest' hrec ext more g tail hg hmore
          rcases nextCut_cases p h buf false pos hpos with ⟨hff, _, _⟩ | ⟨_, _, hz⟩ | ⟨_, hf2, hm⟩
          · cases hff
          · exact absurd hz h0
          · have hl := hf2 rfl
            have hb := mainCut_bounds p hv h buf pos hm
            have hple : pos ≤ buf.length := by have := le_ceil4 p.max; omega
            by_cases hsm : (buf ++ ext).length < 2 * p.max
            · exact ⟨[], _, greedyFull_small p h _ hsm, rfl⟩
            · refine ⟨buf.take pos :: g1, tail1, ?_, ?_⟩
              · rw [greedyFull_step p (valid_max_pos hv) h (buf ++ ext) pos (by omega)
                      (by rw [mainCut_append p h buf ext hl]; exact hm) h0,
                    List.drop_append_of_le_length hple, List.take_append_of_le_length hple, hg1]
                rfl
              · simp only [List.cons_append, he1]

theorem feed_greedy (p : CParams) (hv : p.valid) (h : Hash) :
    ∀ (ps : List Bytes) (buf : Bytes) (cs : List Bytes), ps ≠ [] → feed p h buf ps = some cs →
      ∃ g tail, greedyFull p h (buf ++ ps.flatten) = some g ∧ cs = g ++ tail := by
  intro ps
  induction ps with
  | nil => intro _ _ hne; exact absurd rfl hne
  | cons pc ps ih =>
    intro buf cs _ hf
    cases ps with
    | nil =>
      simp only [feed, Option.map_eq_some_iff] at hf
      obtain ⟨⟨cs', rest⟩, hd, rfl⟩ := hf
      have := drain_final_greedy p hv h _ (buf ++ pc) cs' rest (by unfold drainFuel; omega) hd
      simpa using this
    | cons q qs =>
      simp only [feed] at hf
      split at hf
      · contradiction
      · rename_i cs1 rest hd
        split at hf
        · contradiction
        · rename_i cs2 hrec
          simp only [Option.some.injEq] at hf
          subst hf
          obtain ⟨g, tail, hg, rfl⟩ := ih rest cs2 (by simp) hrec
          have hl := drain_lossless p h false _ _ _ _ hd
          obtain ⟨g', tail', hg', he⟩ := drain_nonfinal_greedy p hv h _ (buf ++ pc) cs1 rest hd (q :: qs).flatten (g ++ tail) g tail hg rfl
          refine ⟨g', tail', ?_, he⟩
          simpa [List.append_assoc] using hg'

/-- `greedy` of the whole stream is a prefix of what the adapter produces, for every segmentation -/
theorem chunkAll_greedy (p : CParams) (hv : p.valid) (h : Hash) (pieces : List Bytes) (cs : List Bytes)
    (hc : chunkAll p h pieces = some cs) :
    ∃ g tail, greedyFull p h pieces.flatten = some g ∧ cs = g ++ tail := by
  unfold chunkAll at hc
  cases pieces with
  | nil =>
    simp only [feed, Option.some.injEq] at hc
    subst hc
    exact ⟨[], [], greedyFull_small p h _ (by have := valid_max_pos hv; simp; omega), rfl⟩
  | cons pc ps =>
    have := feed_greedy p hv h (pc :: ps) [] cs (by simp) hc
    simpa using this

/-! ### two ways of splitting one chunk list -/
theorem prefix_of_flatten_le (a b c d : List Bytes) (he : a ++ b = c ++ d) (hne : ∀ x ∈ a, x ≠ [])
    (hl : a.flatten.length ≤ c.flatten.length) : ∃ m, c = a ++ m := by
  rcases List.append_eq_append_iff.mp he with ⟨a', hc, _⟩ | ⟨c', ha, _⟩
  · exact ⟨a', hc⟩
  · cases c' with
    | nil => exact ⟨[], by simpa using ha.symm⟩
    | cons x rest =>
      exfalso
      have hx : x ≠ [] := hne x (by rw [ha]; simp)
      have : 0 < x.length := List.length_pos_iff.mpr hx
      rw [ha] at hl
      simp only [List.flatten_append, List.length_append, List.flatten_cons] at hl
      omega

/-! ### streams with a common prefix -/
theorem ceil4_pos {n : Nat} (hn : 0 < n) : 0 < ceil4 n := by unfold ceil4; omega

/-- two streams `U ++ Y`, `U ++ Y'`: the greedy chunkings share every chunk that starts at least `ceil4 max`
before the end of `U` (unless one of the streams is already in its tail zone) -/
theorem greedyFull_common_prefix (p : CParams) (hv : p.valid) (h : Hash) :
    ∀ (n : Nat) (U Y Y' : Bytes) (ga gb : List Bytes), U.length ≤ n →
      greedyFull p h (U ++ Y) = some ga → greedyFull p h (U ++ Y') = some gb →
      ∃ common ra rb, ga = common ++ ra ∧ gb = common ++ rb ∧ common.flatten.length ≤ U.length ∧
        (U.length < common.flatten.length + ceil4 p.max ∨ ra = [] ∨ rb = []) := by
  intro n
  induction n with
  | zero =>
    intro U Y Y' ga gb hn _ _
    exact ⟨[], ga, gb, rfl, rfl, by simp, Or.inl (by have := ceil4_pos (valid_max_pos hv); simp; omega)⟩
  | succ n ih =>
    intro U Y Y' ga gb hn hga hgb
    by_cases hU : U.length < ceil4 p.max
    · exact ⟨[], ga, gb, rfl, rfl, by simp, Or.inl (by simp; omega)⟩
    · have hUl : ceil4 p.max ≤ U.length := by omega
      rcases greedyFull_inv p hv h _ ga hga with ⟨_, rfl⟩ | ⟨c, g1, _, hc, h1, _, hmax, _, hg1, rfl⟩
      · exact ⟨[], [], gb, rfl, rfl, by simp, Or.inr (Or.inl rfl)⟩
      · rcases greedyFull_inv p hv h _ gb hgb with ⟨_, rfl⟩ | ⟨c', g2, _, hc', _, _, _, _, hg2, rfl⟩
        · exact ⟨[], _, [], rfl, rfl, by simp, Or.inr (Or.inr rfl)⟩
        · rw [mainCut_append p h U Y hUl] at hc
          rw [mainCut_append p h U Y' hUl, hc] at hc'
          simp only [Option.some.injEq] at hc'
          subst hc'
          have hcl : c ≤ U.length := by have := le_ceil4 p.max; omega
          rw [List.drop_append_of_le_length hcl] at hg1 hg2
          obtain ⟨common, ra, rb, rfl, rfl, hle, hor⟩ :=
            ih (U.drop c) Y Y' g1 g2 (by rw [List.length_drop]; omega) hg1 hg2
          rw [List.length_drop] at hle hor
          refine ⟨U.take c :: common, ra, rb, ?_, ?_, ?_, ?_⟩
          · rw [List.take_append_of_le_length hcl]; rfl
          · rw [List.take_append_of_le_length hcl]; rfl
          · simp only [List.flatten_cons, List.length_append, List.length_take]; omega
          · simp only [List.flatten_cons, List.length_append, List.length_take]
            rcases hor with hor | hor | hor
            · left; omega
            · right; left; exact hor
            · right; right; exact hor

/-! ### the result depends on the key only through the hash of 8-byte windows -/
theorem window_length {buf : Bytes} {i : Nat} {w : Bytes} (hw : window buf i = some w) : w.length = 8 := by
  by_cases hc : 4 ≤ i ∧ i + 4 ≤ buf.length
  · rw [window_eq_some hc] at hw
    simp only [Option.some.injEq] at hw
    subst hw
    rw [List.length_take, List.length_drop]; omega
  · rw [window_eq_none hc] at hw; cases hw

theorem scanFrom_congr (h h' : Hash) (hh : ∀ w : Bytes, w.length = 8 → h w = h' w) (buf : Bytes) :
    ∀ (is : List Nat) (acc : Nat × Nat), scanFrom h buf is acc = scanFrom h' buf is acc := by
  intro is
  induction is with
  | nil => intro acc; rfl
  | cons i is ih =>
    intro acc
    simp only [scanFrom, scanStep]
    cases hw : window buf i with
    | none => rfl
    | some w =>
      simp only [hh w (window_length hw)]
      by_cases hb : Gen.better (h' w) acc.2 = true
      · simp only [if_pos hb]; exact ih _
      · simp only [if_neg hb]; exact ih _

theorem mainCut_congr (p : CParams) (h h' : Hash) (hh : ∀ w : Bytes, w.length = 8 → h w = h' w) (buf : Bytes) :
    mainCut p h buf = mainCut p h' buf := by
  unfold mainCut; rw [scanFrom_congr h h' hh]

theorem nextCut_congr (p : CParams) (h h' : Hash) (hh : ∀ w : Bytes, w.length = 8 → h w = h' w) (buf : Bytes) (f : Bool) :
    nextCut p h buf f = nextCut p h' buf f := by
  unfold nextCut; rw [mainCut_congr p h h' hh]

theorem drain_congr (p : CParams) (h h' : Hash) (hh : ∀ w : Bytes, w.length = 8 → h w = h' w) (f : Bool) :
    ∀ (fuel : Nat) (buf : Bytes), drain p h f fuel buf = drain p h' f fuel buf := by
  intro fuel
  induction fuel with
  | zero => intro buf; rfl
  | succ n ih => intro buf; simp only [drain, nextCut_congr p h h' hh, ih]

theorem feed_congr (p : CParams) (h h' : Hash) (hh : ∀ w : Bytes, w.length = 8 → h w = h' w) :
    ∀ (ps : List Bytes) (buf : Bytes), feed p h buf ps = feed p h' buf ps := by
  intro ps
  induction ps with
  | nil => intro buf; rfl
  | cons pc ps ih =>
    intro buf
    cases ps with
    | nil => simp only [feed, drain_congr p h h' hh]
    | cons q qs => simp only [feed, drain_congr p h h' hh, ih]

theorem greedy_congr (p : CParams) (h h' : Hash) (hh : ∀ w : Bytes, w.length = 8 → h w = h' w) :
    ∀ (fuel : Nat) (s : Bytes), greedy p h fuel s = greedy p h' fuel s := by
  intro fuel
  induction fuel with
  | zero => intro s; rfl
  | succ n ih => intro s; simp only [greedy, mainCut_congr p h h' hh, ih]

/-! ### the padded snapshot stream -/
namespace Sync

theorem padding_lt (len : Nat) : Gen.padding len Gen.align < Gen.align := by
  show (4 - len % 4) % 4 < 4
  omega

theorem padding_dvd (len : Nat) : Gen.align ∣ len + Gen.padding len Gen.align := by
  show 4 ∣ len + (4 - len % 4) % 4
  omega

theorem padOf_length (len : Nat) : (padOf len).length = Gen.padding len Gen.align := by
  simp [padOf]

theorem padPrefix_aligned (pre : List Bytes) : Gen.align ∣ (padPrefix pre).length := by
  induction pre with
  | nil => simp [padPrefix]
  | cons f rest ih =>
    simp only [padPrefix, List.length_append, padOf_length]
    have := padding_dvd f.length
    rw [Gen.align_eq] at *
    omega

theorem padStream_split (pre : List Bytes) (f : Bytes) (post : List Bytes) :
    padStream (pre ++ f :: post) = padPrefix pre ++ padStream (f :: post) := by
  induction pre with
  | nil => simp [padPrefix]
  | cons a rest ih =>
    cases rest with
    | nil => simp only [List.cons_append, List.nil_append, padStream, padPrefix, List.append_nil]
    | cons b rest' =>
      simp only [List.cons_append] at ih ⊢
      simp only [padStream, padPrefix, ih, List.append_assoc]

theorem padStream_head (f : Bytes) (post : List Bytes) : ∃ Q, padStream (f :: post) = f ++ Q := by
  cases post with
  | nil => exact ⟨[], by simp [padStream]⟩
  | cons g rest => exact ⟨padOf f.length ++ padStream (g :: rest), by simp [padStream]⟩

theorem padPieces_flatten (files : List Bytes) : (padPieces files).flatten = padStream files := by
  induction files with
  | nil => rfl
  | cons f rest ih =>
    cases rest with
    | nil => simp only [padPieces, padStream]; split <;> simp_all
    | cons g rest' =>
      simp only [padPieces, padStream, List.flatten_append, ih]
      congr 1
      congr 1
      · split <;> simp_all
      · split <;> simp_all

end Sync

end Replicat
