import ReplicatProofs.Lemmas.Sched
/-!
Helper lemmas for C09, system S2 (snapshot: producer → bounded queue → workers).
-/
namespace Replicat.Sched
open List

def busyOf : WPhase → List Nat
  | .busy k => [k]
  | _ => []

/-- chunks currently held by workers -/
def busyList : List WPhase → List Nat
  | [] => []
  | p :: ps => busyOf p ++ busyList ps

theorem count_busyList_set (a : Nat) (ws : List WPhase) (w : Nat) (old new : WPhase) (h : ws[w]? = some old) :
    count a (busyList (ws.set w new)) + count a (busyOf old) = count a (busyList ws) + count a (busyOf new) := by
  induction ws generalizing w with
  | nil => simp at h
  | cons p ps ih =>
    cases w with
    | zero =>
      simp only [getElem?_cons_zero, Option.some.injEq] at h
      subst h
      simp only [set_cons_zero, busyList, count_append]
      omega
    | succ n =>
      simp only [getElem?_cons_succ] at h
      have := ih n h
      simp only [set_cons_succ, busyList, count_append]
      omega

theorem busyList_eq_nil (ws : List WPhase) (h : ∀ (i : Nat) (p : WPhase), ws[i]? = some p → ∀ k, p ≠ WPhase.busy k) : busyList ws = [] := by
  induction ws with
  | nil => rfl
  | cons p ps ih =>
    have hp := h 0 p (by simp)
    have : busyOf p = [] := by
      cases p <;> simp_all [busyOf]
    simp only [busyList, this, nil_append]
    exact ih (fun i q hq => h (i + 1) q (by simpa using hq))

theorem sum_weight_set (ws : List WPhase) (w : Nat) (old new : WPhase) (h : ws[w]? = some old) :
    ((ws.set w new).map wWeight).sum + wWeight old = (ws.map wWeight).sum + wWeight new := by
  induction ws generalizing w with
  | nil => simp at h
  | cons p ps ih =>
    cases w with
    | zero =>
      simp only [getElem?_cons_zero, Option.some.injEq] at h
      subst h
      simp only [set_cons_zero, map_cons, sum_cons]
      omega
    | succ n =>
      simp only [getElem?_cons_succ] at h
      have := ih n h
      simp only [set_cons_succ, map_cons, sum_cons]
      omega

/-- index forms of the worker predicates -/
def HasF (ws : List WPhase) : Prop := ∃ i : Nat, ws[i]? = some WPhase.failed
def HasE (ws : List WPhase) : Prop := ∃ i : Nat, ws[i]? = some WPhase.exited

theorem anyFailed_iff (ws : List WPhase) : anyFailed ws = true ↔ HasF ws := by
  simp only [anyFailed, any_eq_true, beq_iff_eq, HasF]
  constructor
  · rintro ⟨x, hx, rfl⟩; exact mem_iff_getElem?.mp hx
  · rintro ⟨i, hi⟩; exact ⟨_, mem_iff_getElem?.mpr ⟨i, hi⟩, rfl⟩

theorem anyExited_iff (ws : List WPhase) : anyExited ws = true ↔ HasE ws := by
  simp only [anyExited, any_eq_true, beq_iff_eq, HasE]
  constructor
  · rintro ⟨x, hx, rfl⟩; exact mem_iff_getElem?.mp hx
  · rintro ⟨i, hi⟩; exact ⟨_, mem_iff_getElem?.mpr ⟨i, hi⟩, rfl⟩

theorem allExited_iff (ws : List WPhase) : allExited ws = true ↔ ∀ (i : Nat) (p : WPhase), ws[i]? = some p → p = WPhase.exited := by
  simp only [allExited, all_eq_true, beq_iff_eq]
  constructor
  · intro h i p hp; exact h p (mem_iff_getElem?.mpr ⟨i, hp⟩)
  · intro h x hx
    obtain ⟨i, hi⟩ := mem_iff_getElem?.mp hx
    exact h i x hi

theorem allStopped_iff (ws : List WPhase) : allStopped ws = true ↔ ∀ (i : Nat) (p : WPhase), ws[i]? = some p → p = WPhase.exited ∨ p = WPhase.failed := by
  simp only [allStopped, all_eq_true, Bool.or_eq_true, beq_iff_eq]
  constructor
  · intro h i p hp; exact h p (mem_iff_getElem?.mpr ⟨i, hp⟩)
  · intro h x hx
    obtain ⟨i, hi⟩ := mem_iff_getElem?.mp hx
    exact h i x hi

/-- a failed / exited worker keeps its phase when some *other kind* of worker is updated -/
theorem hasF_set (ws : List WPhase) (w : Nat) (old new : WPhase) (h : ws[w]? = some old) (ho : old ≠ WPhase.failed) :
    HasF ws → HasF (ws.set w new) := by
  rintro ⟨i, hi⟩
  refine ⟨i, ?_⟩
  rw [getElem?_set]
  by_cases hw : w = i
  · subst hw; rw [h] at hi; cases hi; exact absurd rfl ho
  · simp [hw, hi]

theorem hasF_of_set (ws : List WPhase) (w : Nat) (new : WPhase) (hn : new ≠ WPhase.failed) :
    HasF (ws.set w new) → HasF ws := by
  rintro ⟨i, hi⟩
  rw [getElem?_set] at hi
  by_cases hw : w = i
  · subst hw
    simp only [if_true] at hi
    split at hi
    · cases hi; exact absurd rfl hn
    · cases hi
  · simp only [hw, if_false] at hi; exact ⟨i, hi⟩

theorem hasE_of_set (ws : List WPhase) (w : Nat) (new : WPhase) (hn : new ≠ WPhase.exited) :
    HasE (ws.set w new) → HasE ws := by
  rintro ⟨i, hi⟩
  rw [getElem?_set] at hi
  by_cases hw : w = i
  · subst hw
    simp only [if_true] at hi
    split at hi
    · cases hi; exact absurd rfl hn
    · cases hi
  · simp only [hw, if_false] at hi; exact ⟨i, hi⟩

/-- bridge to the generated loop test: the worker leaves the loop only when the queue is empty and the producer is done,
and it never leaves while the queue is non-empty or the producer is still running -/
theorem continues_false (e d : Bool) : Gen.workerContinues e d = false → e = true ∧ d = true := by
  revert e d; decide

theorem continues_nonempty (d : Bool) : Gen.workerContinues false d = true := by
  revert d; decide

theorem continues_done : Gen.workerContinues true true = false := by decide

structure SnapInv (s : Snap) : Prop where
  perm : (s.processed ++ busyList s.workers ++ s.queue ++ s.lost) ~ List.range s.produced
  le : s.produced ≤ s.total
  done_fin : s.prodDone = true → s.prodFinished = true
  fin_all : s.prodFinished = true → s.produced = s.total ∨ s.abort = true
  abort_failed : s.abort = true → HasF s.workers
  exited_done : HasE s.workers → s.prodDone = true ∧ s.queue = []
  lost_failed : ¬ HasF s.workers → s.lost = []
  up : s.uploaded = true → allExited s.workers = true ∧ s.prodDone = true
  qcap : s.queue.length ≤ s.cap

theorem getElem?_replicate_idle (n i : Nat) (p : WPhase) (h : (List.replicate n WPhase.idle)[i]? = some p) : p = .idle := by
  rw [getElem?_replicate] at h
  split at h <;> simp_all

theorem busyList_replicate_idle (n : Nat) : busyList (List.replicate n WPhase.idle) = [] := by
  induction n with
  | zero => rfl
  | succ n ih => simp [replicate_succ, busyList, busyOf, ih]

theorem snap_init_inv (total n : Nat) : SnapInv (Snap.init total n) := by
  refine ⟨?_, ?_, ?_, ?_, ?_, ?_, ?_, ?_, ?_⟩ <;> simp only [Snap.init]
  · simp [busyList_replicate_idle]
  · omega
  · intro h; cases h
  · intro h; cases h
  · intro h; cases h
  · rintro ⟨i, hi⟩; have := getElem?_replicate_idle _ _ _ hi; cases this
  · intro _; trivial
  · intro h; cases h
  · simp

theorem snap_step_inv (r : Bool) (s : Snap) (e : SnapEv) (s' : Snap) (h : SnapInv s) (hs : Snap.step r s e = some s') : SnapInv s' := by
  obtain ⟨hperm, hle, hdf, hfa, haf, hed, hlf, hup, hq⟩ := h
  cases e with
  | enterPut =>
    simp only [Snap.step] at hs
    split at hs
    · cases hs
      exact ⟨hperm, hle, hdf, hfa, haf, hed, hlf, hup, hq⟩
    · cases hs
  | put =>
    simp only [Snap.step] at hs
    split at hs
    · rename_i hg
      obtain ⟨hnf, _hin, hlt, hcap⟩ := hg
      cases hs
      refine ⟨?_, by simp only; omega, hdf, ?_, haf, ?_, hlf, hup, ?_⟩
      · simp only
        rw [perm_iff_count] at hperm ⊢
        intro a
        have := hperm a
        simp only [count_append, count_range, count_singleton, beq_iff_eq] at this ⊢
        split <;> split <;> split at this <;> omega
      · simp only; intro hf; simp [hf] at hnf
      · simp only
        intro he
        have := hed he
        have h1 := hdf this.1
        simp [h1] at hnf
      · simp only [length_append, length_singleton]; omega
    · cases hs
  | prodStop =>
    simp only [Snap.step] at hs
    split at hs
    · rename_i hg
      cases hs
      refine ⟨hperm, hle, fun _ => rfl, ?_, haf, hed, hlf, hup, hq⟩
      simp only
      intro _
      rcases hg.2 with h1 | h1
      · exact Or.inl h1
      · exact Or.inr h1.1
    · cases hs
  | prodVisible =>
    simp only [Snap.step] at hs
    split at hs
    · rename_i hg
      cases hs
      exact ⟨hperm, hle, fun _ => hg.1, hfa, haf, fun he => ⟨rfl, (hed he).2⟩, hlf, fun hu => ⟨(hup hu).1, rfl⟩, hq⟩
    · cases hs
  | take w =>
    simp only [Snap.step] at hs
    split at hs
    · rename_i k rest hw hqe
      split at hs
      · cases hs
        refine ⟨?_, hle, hdf, hfa, ?_, ?_, ?_, ?_, ?_⟩
        · simp only
          rw [perm_iff_count] at hperm ⊢
          intro a
          have h1 := hperm a
          have h2 := count_busyList_set a s.workers w .idle (.busy k) hw
          rw [hqe] at h1
          simp only [count_append, count_cons, busyOf, count_nil, beq_iff_eq] at h1 h2 ⊢
          split at h1 <;> split at h2 <;> omega
        · simp only; intro ha; exact hasF_set _ _ _ _ hw (by simp) (haf ha)
        · simp only
          intro he
          have he' := hasE_of_set _ _ _ (by simp) he
          have := (hed he').2
          rw [hqe] at this; cases this
        · simp only; intro hn; exact hlf (fun hf => hn (hasF_set _ _ _ _ hw (by simp) hf))
        · simp only
          intro hu
          have := (hup hu).1
          rw [allExited_iff] at this
          have := this w _ hw
          cases this
        · simp only; rw [hqe] at hq; simp only [length_cons] at hq; omega
      · cases hs
    · cases hs
  | poll w =>
    simp only [Snap.step] at hs
    split at hs
    · split at hs <;> cases hs
      exact ⟨hperm, hle, hdf, hfa, haf, hed, hlf, hup, hq⟩
    · cases hs
  | exit w =>
    simp only [Snap.step] at hs
    split at hs
    · rename_i hw
      split at hs
      · rename_i hc
        cases hs
        obtain ⟨he, hd⟩ := continues_false _ _ hc
        have hqe : s.queue = [] := by simpa using he
        refine ⟨?_, hle, hdf, hfa, ?_, ?_, ?_, ?_, hq⟩
        · simp only
          rw [perm_iff_count] at hperm ⊢
          intro a
          have h1 := hperm a
          have h2 := count_busyList_set a s.workers w .idle .exited hw
          simp only [count_append, busyOf, count_nil] at h1 h2 ⊢
          omega
        · simp only; intro ha; exact hasF_set _ _ _ _ hw (by simp) (haf ha)
        · simp only; intro _; exact ⟨hd, hqe⟩
        · simp only; intro hn; exact hlf (fun hf => hn (hasF_set _ _ _ _ hw (by simp) hf))
        · simp only
          intro hu
          have := (hup hu).1
          rw [allExited_iff] at this
          have := this w _ hw
          cases this
      · cases hs
    · cases hs
  | finish w ok =>
    simp only [Snap.step] at hs
    split at hs
    · rename_i k hw
      split at hs
      · cases hs
        refine ⟨?_, hle, hdf, hfa, ?_, ?_, ?_, ?_, hq⟩
        · simp only
          rw [perm_iff_count] at hperm ⊢
          intro a
          have h1 := hperm a
          have h2 := count_busyList_set a s.workers w (.busy k) .idle hw
          simp only [count_append, count_cons, busyOf, count_nil, beq_iff_eq] at h1 h2 ⊢
          split at h2 <;> split <;> omega
        · simp only; intro ha; exact hasF_set _ _ _ _ hw (by simp) (haf ha)
        · simp only; intro he; exact hed (hasE_of_set _ _ _ (by simp) he)
        · simp only; intro hn; exact hlf (fun hf => hn (hasF_set _ _ _ _ hw (by simp) hf))
        · simp only
          intro hu
          have := (hup hu).1
          rw [allExited_iff] at this
          have := this w _ hw
          cases this
      · cases hs
        have hwl : w < s.workers.length := by
          rw [List.getElem?_eq_some_iff] at hw; exact hw.1
        have hF : HasF (s.workers.set w .failed) := ⟨w, by simp [hwl]⟩
        refine ⟨?_, hle, hdf, hfa, fun _ => hF, ?_, fun hn => absurd hF hn, ?_, hq⟩
        · simp only
          rw [perm_iff_count] at hperm ⊢
          intro a
          have h1 := hperm a
          have h2 := count_busyList_set a s.workers w (.busy k) .failed hw
          simp only [count_append, count_cons, busyOf, count_nil, beq_iff_eq] at h1 h2 ⊢
          split at h2 <;> split <;> omega
        · simp only; intro he; exact hed (hasE_of_set _ _ _ (by simp) he)
        · simp only
          intro hu
          have := (hup hu).1
          rw [allExited_iff] at this
          have := this w _ hw
          cases this
    · cases hs
  | raiseAbort =>
    simp only [Snap.step] at hs
    split at hs
    · rename_i hg
      cases hs
      refine ⟨hperm, hle, hdf, fun hf => ?_, fun _ => (anyFailed_iff _).mp hg.1, hed, hlf, hup, hq⟩
      exact Or.inr rfl
    · cases hs
  | upload =>
    simp only [Snap.step] at hs
    split at hs
    · rename_i hg
      cases hs
      exact ⟨hperm, hle, hdf, hfa, haf, hed, hlf, fun _ => ⟨hg.1, hg.2.1⟩, hq⟩
    · cases hs

theorem snap_reach_inv (r : Bool) (total n : Nat) (evs : List SnapEv) (s : Snap) (h : run (Snap.step r) (Snap.init total n) evs = some s) : SnapInv s :=
  run_inv (Snap.step r) SnapInv (fun s e s' hi hs => snap_step_inv r s e s' hi hs) evs _ _ (snap_init_inv total n) h

/-- the number of workers and the queue bound never change -/
theorem snap_step_static (r : Bool) (s : Snap) (e : SnapEv) (s' : Snap) (hs : Snap.step r s e = some s') :
    s'.workers.length = s.workers.length ∧ s'.cap = s.cap ∧ s'.total = s.total := by
  cases e <;> simp only [Snap.step] at hs
  all_goals (repeat' split at hs)
  all_goals first | cases hs | skip
  all_goals simp [length_set]

/-- every progress step strictly decreases the potential -/
theorem snap_step_measure (r : Bool) (s : Snap) (e : SnapEv) (s' : Snap) (hp : e.progress = true)
    (hs : Snap.step r s e = some s') : s'.measure < s.measure := by
  cases e with
  | enterPut =>
    simp only [Snap.step] at hs
    split at hs
    · rename_i hg
      cases hs
      have : s.inPut = false := by simpa using hg.2.1
      simp only [Snap.measure, this]
      simp
    · cases hs
  | put =>
    simp only [Snap.step] at hs
    split at hs
    · rename_i hg
      cases hs
      have : s.inPut = true := hg.2.1
      simp only [Snap.measure, length_append, length_singleton, this]
      simp only [if_true, Bool.false_eq_true, if_false]
      omega
    · cases hs
  | prodStop =>
    simp only [Snap.step] at hs
    split at hs
    · rename_i hg
      cases hs
      have : s.prodFinished = false := by simpa using hg.1
      simp only [Snap.measure, this]
      simp
    · cases hs
  | prodVisible =>
    simp only [Snap.step] at hs
    split at hs
    · rename_i hg
      cases hs
      have : s.prodDone = false := by simpa using hg.2
      simp only [Snap.measure, this]
      simp
    · cases hs
  | take w =>
    simp only [Snap.step] at hs
    split at hs
    · rename_i k rest hw hqe
      split at hs
      · cases hs
        have := sum_weight_set s.workers w .idle (.busy k) hw
        simp only [wWeight] at this
        simp only [Snap.measure, hqe, length_cons]
        omega
      · cases hs
    · cases hs
  | poll w => simp [SnapEv.progress] at hp
  | exit w =>
    simp only [Snap.step] at hs
    split at hs
    · rename_i hw
      split at hs
      · cases hs
        have := sum_weight_set s.workers w .idle .exited hw
        simp only [wWeight] at this
        simp only [Snap.measure]
        omega
      · cases hs
    · cases hs
  | finish w ok =>
    simp only [Snap.step] at hs
    split at hs
    · rename_i k hw
      split at hs
      · cases hs
        have := sum_weight_set s.workers w (.busy k) .idle hw
        simp only [wWeight] at this
        simp only [Snap.measure]
        omega
      · cases hs
        have := sum_weight_set s.workers w (.busy k) .failed hw
        simp only [wWeight] at this
        simp only [Snap.measure]
        omega
    · cases hs
  | raiseAbort =>
    simp only [Snap.step] at hs
    split at hs
    · rename_i hg
      cases hs
      have : s.abort = false := by simpa using hg.2.2
      simp only [Snap.measure, this]
      simp
    · cases hs
  | upload =>
    simp only [Snap.step] at hs
    split at hs
    · rename_i hg
      cases hs
      have : s.uploaded = false := by simpa using hg.2.2
      simp only [Snap.measure, this]
      simp
    · cases hs

end Replicat.Sched
