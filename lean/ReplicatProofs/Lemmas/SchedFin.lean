import ReplicatProofs.Lemmas.Sched
/-!
Helper lemmas for C09, system S3/loaders: pending digest sets and the finaliser of `Repository.restore._download_chunk`,
for the code that decides `finished` under the lock (`underLock = true`).
-/
namespace Replicat.Sched
open List

theorem lookup_some {L : List Loader} {d : Nat} {l : Loader} (h : lookupLoader L d = some l) : l ∈ L ∧ l.d = d := by
  unfold lookupLoader at h
  exact ⟨mem_of_find?_eq_some h, by simpa using find?_some h⟩

theorem lookup_of_mem {L : List Loader} {l : Loader} (hn : (L.map (·.d)).Nodup) (hl : l ∈ L) : lookupLoader L l.d = some l := by
  induction L with
  | nil => cases hl
  | cons a t ih =>
    simp only [map_cons, nodup_cons, mem_map, not_exists, not_and] at hn
    simp only [lookupLoader, find?_cons]
    by_cases ha : a.d = l.d
    · simp only [ha, beq_self_eq_true]
      rcases mem_cons.mp hl with h1 | h1
      · rw [h1]
      · exact absurd ha.symm (hn.1 l h1)
    · have : (a.d == l.d) = false := by simpa using ha
      simp only [this]
      rcases mem_cons.mp hl with h1 | h1
      · exact absurd (by rw [h1]) ha
      · exact ih hn.2 h1

/-- the files whose pending set still contains this loader's digest -/
def owes (l : Loader) : LPhase → List Nat
  | .dl => l.paths
  | .writing _ => l.paths
  | .fin t => t
  | .removed _ t => t
  | .popping _ t => t
  | .done => []
  | .failed => []

def owesD (L : List Loader) (phase : Nat → LPhase) (d : Nat) : List Nat :=
  match lookupLoader L d with
  | some l => owes l (phase d)
  | none => []

/-- the part of the invariant that sees the phases only through `owesD` and `poppingFile` -/
structure FinCore (L : List Loader) (σ : Fin) : Prop where
  owes_nodup : ∀ d, (owesD L σ.phase d).Nodup
  pend : ∀ f d, d ∈ σ.pending f ↔ f ∈ owesD L σ.phase d
  pend_nodup : ∀ f, (σ.pending f).Nodup
  pop1 : ∀ d f, poppingFile (σ.phase d) = some f →
    σ.finCount f = 0 ∧ σ.pending f = [] ∧ ∀ d', poppingFile (σ.phase d') = some f → d' = d
  cnt1 : ∀ f, σ.finCount f ≠ 0 → σ.finCount f = 1 ∧ σ.pending f = [] ∧ ∀ d, poppingFile (σ.phase d) ≠ some f
  hmeta : ∀ f, σ.hasMeta f = true ↔ σ.finCount f = 0
  tok : ∀ f, σ.pending f = [] → pending₀ L f = [] ∨ σ.finCount f = 1 ∨ ∃ d, poppingFile (σ.phase d) = some f

structure FinAux (L : List Loader) (σ : Fin) : Prop where
  absent : ∀ d, lookupLoader L d = none → σ.phase d = .done
  nofail : ∀ d, σ.phase d ≠ .failed
  norem : ∀ d f t, σ.phase d ≠ .removed f t
  owes_sub : ∀ d l, lookupLoader L d = some l → ∀ f ∈ owes l (σ.phase d), f ∈ l.paths
  wr : ∀ d l, lookupLoader L d = some l →
    (σ.phase d = .dl → σ.written d = []) ∧ (∀ t, σ.phase d = .writing t → (σ.written d ++ t) ~ l.refs) ∧
    (pastWriting (σ.phase d) = true → σ.written d ~ l.refs)

theorem core_frame {L : List Loader} {σ σ' : Fin} (hc : FinCore L σ)
    (h1 : ∀ d, owesD L σ'.phase d = owesD L σ.phase d)
    (h2 : ∀ d, poppingFile (σ'.phase d) = poppingFile (σ.phase d))
    (h3 : σ'.pending = σ.pending) (h4 : σ'.hasMeta = σ.hasMeta) (h5 : σ'.finCount = σ.finCount) : FinCore L σ' := by
  obtain ⟨a, b, c, d, e, f, g⟩ := hc
  refine ⟨?_, ?_, ?_, ?_, ?_, ?_, ?_⟩
  · intro x; rw [h1]; exact a x
  · intro x y; rw [h1, h3]; exact b x y
  · intro x; rw [h3]; exact c x
  · intro x y hx
    rw [h2] at hx
    rw [h5, h3]
    obtain ⟨p, q, r⟩ := d x y hx
    exact ⟨p, q, fun d' hd' => r d' (by rw [← h2]; exact hd')⟩
  · intro x hx
    rw [h5] at hx ⊢
    rw [h3]
    obtain ⟨p, q, r⟩ := e x hx
    exact ⟨p, q, fun d' => by rw [h2]; exact r d'⟩
  · intro x; rw [h4, h5]; exact f x
  · intro x hx
    rw [h3] at hx
    rw [h5]
    rcases g x hx with p | p | ⟨d', p⟩
    · exact Or.inl p
    · exact Or.inr (Or.inl p)
    · exact Or.inr (Or.inr ⟨d', by rw [h2]; exact p⟩)

/-- updating one loader's phase without changing what it owes -/
theorem owesD_setAt_same (L : List Loader) (phase : Nat → LPhase) (d : Nat) (p : LPhase)
    (h : ∀ l, lookupLoader L d = some l → owes l p = owes l (phase d)) (x : Nat) :
    owesD L (setAt phase d p) x = owesD L phase x := by
  unfold owesD
  by_cases hx : x = d
  · subst hx
    cases hl : lookupLoader L x with
    | none => rfl
    | some l => simp only [setAt_same]; exact h l hl
  · rw [setAt_other _ _ _ _ hx]

theorem popping_setAt_same (phase : Nat → LPhase) (d : Nat) (p : LPhase)
    (h : poppingFile p = poppingFile (phase d)) (x : Nat) :
    poppingFile (setAt phase d p x) = poppingFile (phase x) := by
  by_cases hx : x = d
  · subst hx; rw [setAt_same]; exact h
  · rw [setAt_other _ _ _ _ hx]

theorem mem_pending₀ {L : List Loader} (hn : (L.map (·.d)).Nodup) (f d : Nat) :
    d ∈ pending₀ L f ↔ ∃ l, lookupLoader L d = some l ∧ f ∈ l.paths := by
  simp only [pending₀, mem_map, mem_filter, contains_iff_mem]
  constructor
  · rintro ⟨l, ⟨hl, hf⟩, rfl⟩
    exact ⟨l, lookup_of_mem hn hl, hf⟩
  · rintro ⟨l, hl, hf⟩
    obtain ⟨h1, h2⟩ := lookup_some hl
    exact ⟨l, ⟨h1, hf⟩, h2⟩

theorem fin_init_core (L : List Loader) (hwf : LoadersWF L) : FinCore L (Fin.init L) := by
  obtain ⟨hn, hl⟩ := hwf
  have hphase : ∀ d l, lookupLoader L d = some l → (Fin.init L).phase d = .dl := by
    intro d l h; simp [Fin.init, h]
  have hpop : ∀ d, poppingFile ((Fin.init L).phase d) = none := by
    intro d
    simp only [Fin.init]
    cases lookupLoader L d <;> rfl
  have howes : ∀ d, owesD L (Fin.init L).phase d = match lookupLoader L d with | some l => l.paths | none => [] := by
    intro d
    unfold owesD
    cases h : lookupLoader L d with
    | none => rfl
    | some l => simp only [hphase d l h, owes]
  refine ⟨?_, ?_, ?_, ?_, ?_, ?_, ?_⟩
  · intro d
    rw [howes]
    cases h : lookupLoader L d with
    | none => exact nodup_nil
    | some l => exact (hl l (lookup_some h).1).1
  · intro f d
    rw [howes]
    show d ∈ pending₀ L f ↔ _
    rw [mem_pending₀ hn]
    cases h : lookupLoader L d with
    | none => simp
    | some l => simp
  · intro f
    show (pending₀ L f).Nodup
    unfold pending₀
    exact hn.sublist ((filter_sublist).map _)
  · intro d f h; rw [hpop] at h; cases h
  · intro f h; exfalso; exact h rfl
  · intro f; simp [Fin.init]
  · intro f h; exact Or.inl h

theorem fin_init_aux (L : List Loader) : FinAux L (Fin.init L) := by
  refine ⟨?_, ?_, ?_, ?_, ?_⟩
  · intro d h; simp [Fin.init, h]
  · intro d; simp only [Fin.init]; cases lookupLoader L d <;> simp
  · intro d f t; simp only [Fin.init]; cases lookupLoader L d <;> simp
  · intro d l h f hf
    simp only [Fin.init, h, owes] at hf; exact hf
  · intro d l h
    simp only [Fin.init, h]
    refine ⟨(by first | trivial | simp), ?_, ?_⟩
    · intro t ht; cases ht
    · intro hp; simp [pastWriting] at hp

theorem fin_step_inv (L : List Loader) (_hwf : LoadersWF L) (σ : Fin) (e : FinEv) (σ' : Fin)
    (hc : FinCore L σ) (ha : FinAux L σ) (hs : Fin.step true L σ e = some σ') : FinCore L σ' ∧ FinAux L σ' := by
  obtain ⟨habs, hnf, hnr, hsub, hwr⟩ := ha
  cases e with
  | downloaded d =>
    simp only [Fin.step] at hs
    split at hs
    · rename_i l hl hph
      cases hs
      constructor
      · refine core_frame hc ?_ ?_ rfl rfl rfl
        · intro x
          refine owesD_setAt_same L σ.phase d _ ?_ x
          intro l' _; rw [hph]; rfl
        · intro x
          refine popping_setAt_same σ.phase d _ ?_ x
          rw [hph]; rfl
      · refine ⟨?_, ?_, ?_, ?_, ?_⟩
        · intro x hx
          have : x ≠ d := by intro h; rw [h, hl] at hx; cases hx
          simp only [setAt_other _ _ _ _ this]; exact habs x hx
        · intro x
          by_cases hx : x = d
          · subst hx; simp
          · simp only [setAt_other _ _ _ _ hx]; exact hnf x
        · intro x f t
          by_cases hx : x = d
          · subst hx; simp
          · simp only [setAt_other _ _ _ _ hx]; exact hnr x f t
        · intro x l' hl' f hf
          by_cases hx : x = d
          · subst hx
            simp only [setAt_same, owes] at hf; exact hf
          · simp only [setAt_other _ _ _ _ hx] at hf; exact hsub x l' hl' f hf
        · intro x l' hl'
          by_cases hx : x = d
          · subst hx
            rw [hl] at hl'; cases hl'
            simp only [setAt_same]
            have h0 := (hwr x l hl).1 hph
            refine ⟨(fun h => by cases h), ?_, (fun h => by simp [pastWriting] at h)⟩
            intro t ht; cases ht
            rw [h0]; exact Perm.refl _
          · simp only [setAt_other _ _ _ _ hx]; exact hwr x l' hl'
    · cases hs
  | write d f =>
    simp only [Fin.step] at hs
    split at hs
    · rename_i todo hph
      split at hs
      · rename_i hmem
        cases hs
        have hl : ∃ l, lookupLoader L d = some l := by
          cases h : lookupLoader L d with
          | none => have := habs d h; rw [hph] at this; cases this
          | some l => exact ⟨l, rfl⟩
        obtain ⟨l, hl⟩ := hl
        constructor
        · refine core_frame hc ?_ ?_ rfl rfl rfl
          · intro x
            refine owesD_setAt_same L σ.phase d _ ?_ x
            intro l' _; rw [hph]; rfl
          · intro x
            refine popping_setAt_same σ.phase d _ ?_ x
            rw [hph]; rfl
        · refine ⟨?_, ?_, ?_, ?_, ?_⟩
          · intro x hx
            have : x ≠ d := by intro h; rw [h, hl] at hx; cases hx
            simp only [setAt_other _ _ _ _ this]; exact habs x hx
          · intro x
            by_cases hx : x = d
            · subst hx; simp
            · simp only [setAt_other _ _ _ _ hx]; exact hnf x
          · intro x g t
            by_cases hx : x = d
            · subst hx; simp
            · simp only [setAt_other _ _ _ _ hx]; exact hnr x g t
          · intro x l' hl' g hg
            by_cases hx : x = d
            · subst hx
              simp only [setAt_same, owes] at hg; exact hg
            · simp only [setAt_other _ _ _ _ hx] at hg; exact hsub x l' hl' g hg
          · intro x l' hl'
            by_cases hx : x = d
            · subst hx
              rw [hl] at hl'; cases hl'
              simp only [setAt_same]
              have h0 := (hwr x l hl).2.1 todo hph
              refine ⟨(fun h => by cases h), ?_, (fun h => by simp [pastWriting] at h)⟩
              intro t ht; cases ht
              refine Perm.trans ?_ h0
              have h1 : todo ~ f :: todo.erase f := perm_cons_erase hmem
              rw [cons_append]
              refine Perm.trans ?_ (Perm.append_left _ h1.symm)
              exact perm_middle.symm
            · simp only [setAt_other _ _ _ _ hx]; exact hwr x l' hl'
      · cases hs
    · cases hs
  | joined d =>
    simp only [Fin.step] at hs
    split at hs
    · rename_i l todo0 hl hph
      have hjoin : Gen.loaderJoinsWritersFirst = true := by decide
      simp only [hjoin, Bool.not_true, Bool.or_false, isEmpty_iff] at hs
      split at hs
      · rename_i htodo
        subst htodo
        cases hs
        constructor
        · refine core_frame hc ?_ ?_ rfl rfl rfl
          · intro x
            refine owesD_setAt_same L σ.phase d _ ?_ x
            intro l' hl'; rw [hl] at hl'; cases hl'; rw [hph]; rfl
          · intro x
            refine popping_setAt_same σ.phase d _ ?_ x
            rw [hph]; rfl
        · refine ⟨?_, ?_, ?_, ?_, ?_⟩
          · intro x hx
            have : x ≠ d := by intro h; rw [h, hl] at hx; cases hx
            simp only [setAt_other _ _ _ _ this]; exact habs x hx
          · intro x
            by_cases hx : x = d
            · subst hx; simp
            · simp only [setAt_other _ _ _ _ hx]; exact hnf x
          · intro x g t
            by_cases hx : x = d
            · subst hx; simp
            · simp only [setAt_other _ _ _ _ hx]; exact hnr x g t
          · intro x l' hl' g hg
            by_cases hx : x = d
            · subst hx
              rw [hl] at hl'; cases hl'
              simp only [setAt_same, owes] at hg; exact hg
            · simp only [setAt_other _ _ _ _ hx] at hg; exact hsub x l' hl' g hg
          · intro x l' hl'
            by_cases hx : x = d
            · subst hx
              rw [hl] at hl'; cases hl'
              simp only [setAt_same]
              have h0 := (hwr x l hl).2.1 [] hph
              simp only [append_nil] at h0
              refine ⟨(fun h => by cases h), (fun t ht => by cases ht), fun _ => h0⟩
            · simp only [setAt_other _ _ _ _ hx]; exact hwr x l' hl'
      · cases hs
    · cases hs
  | remove d f =>
    simp only [Fin.step] at hs
    split at hs
    · rename_i todo hph
      split at hs
      · rename_i hmem
        simp only [if_true] at hs
        cases hs
        have hl : ∃ l, lookupLoader L d = some l := by
          cases h : lookupLoader L d with
          | none => have := habs d h; rw [hph] at this; cases this
          | some l => exact ⟨l, rfl⟩
        obtain ⟨l, hl⟩ := hl
        obtain ⟨c1, c2, c3, c4, c5, c6, c7⟩ := hc
        have howd : owesD L σ.phase d = todo := by simp only [owesD, hl, hph, owes]
        have htn : todo.Nodup := by rw [← howd]; exact c1 d
        have hdp : d ∈ σ.pending f := by rw [c2, howd]; exact hmem
        have hpne : σ.pending f ≠ [] := by intro h; rw [h] at hdp; cases hdp
        have hnopop : ∀ x, poppingFile (σ.phase x) ≠ some f := by
          intro x hx; exact hpne (c4 x f hx).2.1
        have hcnt0 : σ.finCount f = 0 := by
          cases hz : σ.finCount f with
          | zero => rfl
          | succ n => exact absurd (c5 f (by omega)).2.1 hpne
        -- what the new phase owes / pops
        let np : LPhase := if ((σ.pending f).erase d).isEmpty then .popping f (todo.erase f) else .fin (todo.erase f)
        have hnp_owes : owes l np = todo.erase f := by
          show owes l (if _ then _ else _) = _
          split <;> rfl
        have hnowes : ∀ x, owesD L (setAt σ.phase d np) x = if x = d then todo.erase f else owesD L σ.phase x := by
          intro x
          by_cases hx : x = d
          · subst hx; simp only [owesD, hl, setAt_same, hnp_owes, if_true]
          · simp only [owesD, setAt_other _ _ _ _ hx, hx, if_false]
        have hnpop : ∀ x, x ≠ d → poppingFile (setAt σ.phase d np x) = poppingFile (σ.phase x) := by
          intro x hx; rw [setAt_other _ _ _ _ hx]
        have hnpop_d : poppingFile np = if ((σ.pending f).erase d).isEmpty then some f else none := by
          show poppingFile (if _ then _ else _) = _
          split <;> rfl
        have hold_pop_d : poppingFile (σ.phase d) = none := by rw [hph]; rfl
        constructor
        · refine ⟨?_, ?_, ?_, ?_, ?_, c6, ?_⟩
          · intro x
            show (owesD L (setAt σ.phase d np) x).Nodup
            rw [hnowes]
            split
            · exact htn.erase f
            · exact c1 x
          · intro g x
            show x ∈ setAt σ.pending f ((σ.pending f).erase d) g ↔ g ∈ owesD L (setAt σ.phase d np) x
            rw [hnowes]
            by_cases hg : g = f
            · subst hg
              rw [setAt_same, (c3 g).mem_erase_iff]
              by_cases hx : x = d
              · subst hx
                simp only [if_true, ne_eq, not_true_eq_false, false_and, false_iff]
                intro h; exact ((htn.mem_erase_iff).mp h).1 rfl
              · simp only [hx, if_false, ne_eq, not_false_eq_true, true_and]; exact c2 g x
            · rw [setAt_other _ _ _ _ hg]
              by_cases hx : x = d
              · subst hx
                simp only [if_true]
                rw [c2, howd, htn.mem_erase_iff]
                simp [hg]
              · simp only [hx, if_false]; exact c2 g x
          · intro g
            show (setAt σ.pending f ((σ.pending f).erase d) g).Nodup
            by_cases hg : g = f
            · subst hg; rw [setAt_same]; exact (c3 g).erase d
            · rw [setAt_other _ _ _ _ hg]; exact c3 g
          · -- pop1
            intro x g hx
            show σ.finCount g = 0 ∧ setAt σ.pending f ((σ.pending f).erase d) g = [] ∧
              ∀ d', poppingFile (setAt σ.phase d np d') = some g → d' = x
            by_cases hxd : x = d
            · subst hxd
              have hx' : poppingFile np = some g := by have := hx; simp only [setAt_same] at this; exact this
              rw [hnpop_d] at hx'
              split at hx'
              · rename_i hemp
                cases hx'
                refine ⟨hcnt0, by rw [setAt_same]; simpa using hemp, ?_⟩
                intro d' hd'
                by_cases hdd : d' = x
                · exact hdd
                · rw [hnpop d' hdd] at hd'; exact absurd hd' (hnopop d')
              · cases hx'
            · have hx' : poppingFile (σ.phase x) = some g := by rw [← hnpop x hxd]; exact hx
              obtain ⟨p, q, r⟩ := c4 x g hx'
              have hgf : g ≠ f := by intro h; rw [h] at hx'; exact hnopop x hx'
              refine ⟨p, by rw [setAt_other _ _ _ _ hgf]; exact q, ?_⟩
              intro d' hd'
              by_cases hdd : d' = d
              · subst hdd
                have : poppingFile np = some g := by have h9 := hd'; simp only [setAt_same] at h9; exact h9
                rw [hnpop_d] at this
                split at this
                · cases this; exact absurd rfl hgf
                · cases this
              · rw [hnpop d' hdd] at hd'; exact r d' hd'
          · -- cnt1
            intro g hg
            show σ.finCount g = 1 ∧ setAt σ.pending f ((σ.pending f).erase d) g = [] ∧
              ∀ d', poppingFile (setAt σ.phase d np d') ≠ some g
            obtain ⟨p, q, r⟩ := c5 g hg
            have hgf : g ≠ f := by intro h; rw [h] at hg; exact hg hcnt0
            refine ⟨p, by rw [setAt_other _ _ _ _ hgf]; exact q, ?_⟩
            intro d' hd'
            by_cases hdd : d' = d
            · subst hdd
              have : poppingFile np = some g := by have h9 := hd'; simp only [setAt_same] at h9; exact h9
              rw [hnpop_d] at this
              split at this
              · cases this; exact absurd rfl hgf
              · cases this
            · rw [hnpop d' hdd] at hd'; exact r d' hd'
          · -- tok
            intro g hg
            show pending₀ L g = [] ∨ σ.finCount g = 1 ∨ ∃ d', poppingFile (setAt σ.phase d np d') = some g
            have hg' : setAt σ.pending f ((σ.pending f).erase d) g = [] := hg
            by_cases hgf : g = f
            · subst hgf
              rw [setAt_same] at hg'
              refine Or.inr (Or.inr ⟨d, ?_⟩)
              rw [setAt_same, hnpop_d, hg']; rfl
            · rw [setAt_other _ _ _ _ hgf] at hg'
              rcases c7 g hg' with p | p | ⟨d', p⟩
              · exact Or.inl p
              · exact Or.inr (Or.inl p)
              · have hdd : d' ≠ d := by intro h; rw [h, hold_pop_d] at p; cases p
                exact Or.inr (Or.inr ⟨d', by rw [hnpop d' hdd]; exact p⟩)
        · refine ⟨?_, ?_, ?_, ?_, ?_⟩
          · intro x hx
            have : x ≠ d := by intro h; rw [h, hl] at hx; cases hx
            show setAt σ.phase d np x = .done
            rw [setAt_other _ _ _ _ this]; exact habs x hx
          · intro x
            show setAt σ.phase d np x ≠ .failed
            by_cases hx : x = d
            · subst hx; rw [setAt_same]; show (if _ then _ else _) ≠ _; split <;> simp
            · rw [setAt_other _ _ _ _ hx]; exact hnf x
          · intro x g t
            show setAt σ.phase d np x ≠ .removed g t
            by_cases hx : x = d
            · subst hx; rw [setAt_same]; show (if _ then _ else _) ≠ _; split <;> simp
            · rw [setAt_other _ _ _ _ hx]; exact hnr x g t
          · intro x l' hl' g hg
            have hg' : g ∈ owes l' (setAt σ.phase d np x) := hg
            by_cases hx : x = d
            · subst hx
              rw [hl] at hl'; cases hl'
              rw [setAt_same, hnp_owes] at hg'
              have := (htn.mem_erase_iff.mp hg').2
              exact hsub x l hl g (by rw [hph]; exact this)
            · rw [setAt_other _ _ _ _ hx] at hg'; exact hsub x l' hl' g hg'
          · intro x l' hl'
            show (setAt σ.phase d np x = .dl → σ.written x = []) ∧
              (∀ t, setAt σ.phase d np x = .writing t → (σ.written x ++ t) ~ l'.refs) ∧
              (pastWriting (setAt σ.phase d np x) = true → σ.written x ~ l'.refs)
            by_cases hx : x = d
            · subst hx
              rw [hl] at hl'; cases hl'
              rw [setAt_same]
              have h0 := (hwr x l hl).2.2 (by rw [hph]; rfl)
              refine ⟨?_, ?_, fun _ => h0⟩
              · show (if _ then _ else _) = _ → _; split <;> intro h <;> cases h
              · intro t; show (if _ then _ else _) = _ → _; split <;> intro h <;> cases h
            · rw [setAt_other _ _ _ _ hx]; exact hwr x l' hl'
      · cases hs
    · cases hs
  | test d f =>
    simp only [Fin.step] at hs
    split at hs
    · rename_i g todo hph
      exact absurd hph (hnr d g todo)
    · cases hs
  | pop d f =>
    simp only [Fin.step] at hs
    split at hs
    · rename_i g todo hph
      split at hs
      · rename_i hgf
        subst hgf
        obtain ⟨c1, c2, c3, c4, c5, c6, c7⟩ := hc
        have hpopd : poppingFile (σ.phase d) = some g := by rw [hph]; rfl
        obtain ⟨p0, q0, r0⟩ := c4 d g hpopd
        have hm : σ.hasMeta g = true := (c6 g).mpr p0
        rw [hm] at hs
        simp only [if_true] at hs
        cases hs
        have hl : ∃ l, lookupLoader L d = some l := by
          cases h : lookupLoader L d with
          | none => have := habs d h; rw [hph] at this; cases this
          | some l => exact ⟨l, rfl⟩
        obtain ⟨l, hl⟩ := hl
        have howes : ∀ x, owesD L (setAt σ.phase d (.fin todo)) x = owesD L σ.phase x := by
          intro x
          refine owesD_setAt_same L σ.phase d _ ?_ x
          intro l' _; rw [hph]; rfl
        have hpop_other : ∀ x, x ≠ d → poppingFile (setAt σ.phase d (.fin todo) x) = poppingFile (σ.phase x) := by
          intro x hx; rw [setAt_other _ _ _ _ hx]
        have hpop_d : poppingFile (setAt σ.phase d (.fin todo) d) = none := by rw [setAt_same]; rfl
        constructor
        · refine ⟨?_, ?_, c3, ?_, ?_, ?_, ?_⟩
          · intro x; show (owesD L (setAt σ.phase d (.fin todo)) x).Nodup; rw [howes]; exact c1 x
          · intro h x; show x ∈ σ.pending h ↔ h ∈ owesD L (setAt σ.phase d (.fin todo)) x; rw [howes]; exact c2 h x
          · intro x h hx
            show setAt σ.finCount g (σ.finCount g + 1) h = 0 ∧ σ.pending h = [] ∧
              ∀ d', poppingFile (setAt σ.phase d (.fin todo) d') = some h → d' = x
            have hxd : x ≠ d := by intro e; rw [e, hpop_d] at hx; cases hx
            have hx' : poppingFile (σ.phase x) = some h := by rw [← hpop_other x hxd]; exact hx
            have hhg : h ≠ g := by
              intro e; rw [e] at hx'; exact hxd (r0 x hx')
            obtain ⟨p, q, r⟩ := c4 x h hx'
            refine ⟨by rw [setAt_other _ _ _ _ hhg]; exact p, q, ?_⟩
            intro d' hd'
            by_cases hdd : d' = d
            · rw [hdd, hpop_d] at hd'; cases hd'
            · rw [hpop_other d' hdd] at hd'; exact r d' hd'
          · intro h hh
            show setAt σ.finCount g (σ.finCount g + 1) h = 1 ∧ σ.pending h = [] ∧
              ∀ d', poppingFile (setAt σ.phase d (.fin todo) d') ≠ some h
            have hh' : setAt σ.finCount g (σ.finCount g + 1) h ≠ 0 := hh
            by_cases hhg : h = g
            · subst hhg
              refine ⟨by rw [setAt_same, p0], q0, ?_⟩
              intro d' hd'
              by_cases hdd : d' = d
              · rw [hdd, hpop_d] at hd'; cases hd'
              · rw [hpop_other d' hdd] at hd'; exact hdd (r0 d' hd')
            · rw [setAt_other _ _ _ _ hhg] at hh' ⊢
              obtain ⟨p, q, r⟩ := c5 h hh'
              refine ⟨p, q, ?_⟩
              intro d' hd'
              by_cases hdd : d' = d
              · rw [hdd, hpop_d] at hd'; cases hd'
              · rw [hpop_other d' hdd] at hd'; exact r d' hd'
          · intro h
            show setAt σ.hasMeta g false h = true ↔ setAt σ.finCount g (σ.finCount g + 1) h = 0
            by_cases hhg : h = g
            · subst hhg; simp
            · rw [setAt_other _ _ _ _ hhg, setAt_other _ _ _ _ hhg]; exact c6 h
          · intro h hh
            show pending₀ L h = [] ∨ setAt σ.finCount g (σ.finCount g + 1) h = 1 ∨
              ∃ d', poppingFile (setAt σ.phase d (.fin todo) d') = some h
            by_cases hhg : h = g
            · subst hhg; exact Or.inr (Or.inl (by rw [setAt_same, p0]))
            · rw [setAt_other _ _ _ _ hhg]
              rcases c7 h hh with p | p | ⟨d', p⟩
              · exact Or.inl p
              · exact Or.inr (Or.inl p)
              · have hdd : d' ≠ d := by
                  intro e; rw [e, hpopd] at p; cases p; exact hhg rfl
                exact Or.inr (Or.inr ⟨d', by rw [hpop_other d' hdd]; exact p⟩)
        · refine ⟨?_, ?_, ?_, ?_, ?_⟩
          · intro x hx
            have : x ≠ d := by intro h; rw [h, hl] at hx; cases hx
            show setAt σ.phase d (.fin todo) x = .done
            rw [setAt_other _ _ _ _ this]; exact habs x hx
          · intro x
            show setAt σ.phase d (.fin todo) x ≠ .failed
            by_cases hx : x = d
            · subst hx; simp
            · rw [setAt_other _ _ _ _ hx]; exact hnf x
          · intro x h t
            show setAt σ.phase d (.fin todo) x ≠ .removed h t
            by_cases hx : x = d
            · subst hx; simp
            · rw [setAt_other _ _ _ _ hx]; exact hnr x h t
          · intro x l' hl' h hh
            have hh' : h ∈ owes l' (setAt σ.phase d (.fin todo) x) := hh
            by_cases hx : x = d
            · subst hx
              rw [setAt_same] at hh'
              exact hsub x l' hl' h (by rw [hph]; exact hh')
            · rw [setAt_other _ _ _ _ hx] at hh'; exact hsub x l' hl' h hh'
          · intro x l' hl'
            show (setAt σ.phase d (.fin todo) x = .dl → σ.written x = []) ∧
              (∀ t, setAt σ.phase d (.fin todo) x = .writing t → (σ.written x ++ t) ~ l'.refs) ∧
              (pastWriting (setAt σ.phase d (.fin todo) x) = true → σ.written x ~ l'.refs)
            by_cases hx : x = d
            · subst hx
              rw [setAt_same]
              have h0 := (hwr x l' hl').2.2 (by rw [hph]; rfl)
              exact ⟨(fun h => by cases h), (fun t h => by cases h), fun _ => h0⟩
            · rw [setAt_other _ _ _ _ hx]; exact hwr x l' hl'
      · cases hs
    · cases hs
  | finish d =>
    simp only [Fin.step] at hs
    split at hs
    · rename_i hph
      cases hs
      have hl : ∃ l, lookupLoader L d = some l := by
        cases h : lookupLoader L d with
        | none => have := habs d h; rw [hph] at this; cases this
        | some l => exact ⟨l, rfl⟩
      obtain ⟨l, hl⟩ := hl
      constructor
      · refine core_frame hc ?_ ?_ rfl rfl rfl
        · intro x
          refine owesD_setAt_same L σ.phase d _ ?_ x
          intro l' _; rw [hph]; rfl
        · intro x
          refine popping_setAt_same σ.phase d _ ?_ x
          rw [hph]; rfl
      · refine ⟨?_, ?_, ?_, ?_, ?_⟩
        · intro x hx
          have : x ≠ d := by intro h; rw [h, hl] at hx; cases hx
          simp only [setAt_other _ _ _ _ this]; exact habs x hx
        · intro x
          by_cases hx : x = d
          · subst hx; simp
          · simp only [setAt_other _ _ _ _ hx]; exact hnf x
        · intro x g t
          by_cases hx : x = d
          · subst hx; simp
          · simp only [setAt_other _ _ _ _ hx]; exact hnr x g t
        · intro x l' hl' g hg
          by_cases hx : x = d
          · subst hx
            simp only [setAt_same, owes] at hg; cases hg
          · simp only [setAt_other _ _ _ _ hx] at hg; exact hsub x l' hl' g hg
        · intro x l' hl'
          by_cases hx : x = d
          · subst hx
            simp only [setAt_same]
            have h0 := (hwr x l' hl').2.2 (by rw [hph]; rfl)
            exact ⟨(fun h => by cases h), (fun t h => by cases h), fun _ => h0⟩
          · simp only [setAt_other _ _ _ _ hx]; exact hwr x l' hl'
    · cases hs

theorem fin_reach_inv (L : List Loader) (hwf : LoadersWF L) (evs : List FinEv) (σ : Fin)
    (h : run (Fin.step true L) (Fin.init L) evs = some σ) : FinCore L σ ∧ FinAux L σ :=
  run_inv _ (fun s => FinCore L s ∧ FinAux L s) (fun s e s' hi hs => fin_step_inv L hwf s e s' hi.1 hi.2 hs) evs _ _
    ⟨fin_init_core L hwf, fin_init_aux L⟩ h

end Replicat.Sched
