import ReplicatModel.SigV4
/-! Helper lemmas for C16 (S3 request signing). -/
namespace Replicat.SigV4

/-! ## finite tables over all 256 bytes -/
theorem forall_byte {p : UInt8 → Bool} (h : (List.range 256).all (fun n => p (UInt8.ofNat n)) = true) (b : UInt8) :
    p b = true := by
  have h2 := List.all_eq_true.mp h b.toNat (List.mem_range.mpr b.toNat_lt)
  simpa using h2

theorem path_byte_table :
    (List.range 256).all (fun n => pyQuoteByte Gen.s3PathSafeB (UInt8.ofNat n) == awsEncByte false (UInt8.ofNat n)) = true := by
  decide +kernel

theorem path_byte (b : UInt8) : pyQuoteByte Gen.s3PathSafeB b = awsEncByte false b := by
  have := forall_byte (p := fun b => pyQuoteByte Gen.s3PathSafeB b == awsEncByte false b) path_byte_table b
  simpa using this

theorem query_byte_table :
    (List.range 256).all (fun n => pyQuoteByte Gen.s3QuerySafeB (UInt8.ofNat n) == awsEncByte true (UInt8.ofNat n)) = true := by
  decide +kernel

theorem query_byte (b : UInt8) : pyQuoteByte Gen.s3QuerySafeB b = awsEncByte true b := by
  have := forall_byte (p := fun b => pyQuoteByte Gen.s3QuerySafeB b == awsEncByte true b) query_byte_table b
  simpa using this

theorem flatMap_congr_all {f g : UInt8 → Bytes} (h : ∀ b, f b = g b) (s : Bytes) : s.flatMap f = s.flatMap g := by
  have : f = g := funext h
  rw [this]

/-! ## quote_plus without a space is quote -/
theorem pyQuotePlus_of_no_space (safe s : Bytes) (h : s.contains 0x20 = false) : pyQuotePlus safe s = pyQuote safe s := by
  unfold pyQuotePlus
  rw [h]
  simp

/-- a query name/value that the code encodes with plain `quote` semantics -/
def QueryValueOk (s : Bytes) : Prop := Gen.s3QueryViaQuotePlus = false ∨ s.contains 0x20 = false

instance (s : Bytes) : Decidable (QueryValueOk s) := by unfold QueryValueOk; infer_instance

theorem queryQuote_of_ok (s : Bytes) (h : QueryValueOk s) : queryQuote s = pyQuote Gen.s3QuerySafeB s := by
  unfold queryQuote
  cases hv : Gen.s3QueryViaQuotePlus with
  | false => simp
  | true =>
    rcases h with h | h
    · rw [hv] at h; contradiction
    · simp [pyQuotePlus_of_no_space _ _ h]

theorem queryQuote_agrees (s : Bytes) (h : QueryValueOk s) : queryQuote s = awsUriEncode true s := by
  rw [queryQuote_of_ok s h]
  exact flatMap_congr_all query_byte s

/-! ## unreserved strings are fixed points of every encoder -/
def allUnreserved (s : Bytes) : Bool := s.all isUnreserved

theorem aws_of_unreserved (e : Bool) (s : Bytes) (h : allUnreserved s = true) : awsUriEncode e s = s := by
  induction s with
  | nil => rfl
  | cons b t ih =>
    simp only [allUnreserved, List.all_cons, Bool.and_eq_true] at h
    have ht : allUnreserved t = true := h.2
    simp only [awsUriEncode, List.flatMap_cons, awsEncByte, h.1, ↓reduceIte, List.singleton_append, List.cons.injEq, true_and]
    exact ih ht

theorem no_space_of_unreserved (s : Bytes) (h : allUnreserved s = true) : s.contains 0x20 = false := by
  induction s with
  | nil => rfl
  | cons b t ih =>
    simp only [allUnreserved, List.all_cons, Bool.and_eq_true] at h
    have hb : b ≠ 0x20 := by
      intro hb; subst hb
      have : isUnreserved 0x20 = false := by decide
      rw [this] at h; exact absurd h.1 (by decide)
    have := ih h.2
    simp only [List.contains_cons, Bool.or_eq_false_iff, beq_eq_false_iff_ne, ne_eq]
    exact ⟨fun h => hb h.symm, this⟩

theorem queryQuote_of_unreserved (s : Bytes) (h : allUnreserved s = true) : queryQuote s = s := by
  rw [queryQuote_agrees s (Or.inr (no_space_of_unreserved s h)), aws_of_unreserved true s h]

/-! ## percent-decoding undoes the client's encoders -/

theorem pctDecode_cons_of_ne (plus : Bool) (a : UInt8) (t : Bytes) (h : (a == 0x25) = false) :
    pctDecode plus (a :: t) = (if plus && a == 0x2B then 0x20 else a) :: pctDecode plus t := by
  match t with
  | [] => simp [pctDecode]
  | [b] => simp [pctDecode]
  | b :: c :: rest => simp [pctDecode, h]

theorem pctDecode_escape (plus : Bool) (b c x y : UInt8) (rest : Bytes) (hb : hexVal b = some x) (hc : hexVal c = some y) :
    pctDecode plus (0x25 :: b :: c :: rest) = (x * 16 + y) :: pctDecode plus rest := by
  simp [pctDecode, hb, hc]

/-- shape of one encoded byte that `pctDecode plus` maps back to `b`, whatever follows -/
def okShape (plus : Bool) (e : Bytes) (b : UInt8) : Bool :=
  match e with
  | [a] => a == b && !(a == 0x25) && !(plus && a == 0x2B)
  | [p, h, l] =>
    p == 0x25 && (match hexVal h, hexVal l with
      | some x, some y => x * 16 + y == b
      | _, _ => false)
  | _ => false

theorem pctDecode_okShape (plus : Bool) (e : Bytes) (b : UInt8) (t : Bytes) (h : okShape plus e b = true) :
    pctDecode plus (e ++ t) = b :: pctDecode plus t := by
  match e with
  | [] => simp [okShape] at h
  | [a] =>
    simp only [okShape, Bool.and_eq_true, beq_iff_eq, Bool.not_eq_true', Bool.and_eq_false_iff] at h
    obtain ⟨⟨hab, hp⟩, hplus⟩ := h
    subst hab
    rw [List.singleton_append, pctDecode_cons_of_ne plus a t hp]
    have : (plus && a == 0x2B) = false := by
      rcases hplus with h | h
      · simp [h]
      · simp [h]
    rw [this]; rfl
  | [p, hh, l] =>
    simp only [okShape, Bool.and_eq_true, beq_iff_eq] at h
    obtain ⟨hp, hm⟩ := h
    subst hp
    cases hx : hexVal hh with
    | none => simp [hx] at hm
    | some x =>
      cases hy : hexVal l with
      | none => simp [hx, hy] at hm
      | some y =>
        simp only [hx, hy, beq_iff_eq] at hm
        show pctDecode plus (0x25 :: hh :: l :: t) = b :: pctDecode plus t
        rw [pctDecode_escape plus hh l x y t hx hy, hm]
  | _ :: _ :: _ :: _ :: _ => simp [okShape] at h
  | [_, _] => simp [okShape] at h

theorem pctDecode_flatMap (plus : Bool) (enc : UInt8 → Bytes) (henc : ∀ b, okShape plus (enc b) b = true) (s : Bytes) :
    pctDecode plus (s.flatMap enc) = s := by
  induction s with
  | nil => simp [pctDecode]
  | cons b t ih =>
    rw [List.flatMap_cons, pctDecode_okShape plus (enc b) b _ (henc b), ih]

theorem path_shape_table :
    (List.range 256).all (fun n => okShape false (pyQuoteByte Gen.s3PathSafeB (UInt8.ofNat n)) (UInt8.ofNat n)) = true := by
  decide +kernel

theorem query_shape_table (plus : Bool) :
    (List.range 256).all (fun n => okShape plus (pyQuoteByte Gen.s3QuerySafeB (UInt8.ofNat n)) (UInt8.ofNat n)) = true := by
  cases plus <;> decide +kernel

theorem pctDecode_clientPath (s : Bytes) : pctDecode false (clientPath s) = s :=
  pctDecode_flatMap false _ (forall_byte path_shape_table) s

theorem pctDecode_pyQuote_query (plus : Bool) (s : Bytes) : pctDecode plus (pyQuote Gen.s3QuerySafeB s) = s :=
  pctDecode_flatMap plus _ (forall_byte (query_shape_table plus)) s

/-- the reference canonical URI of the path the client sends (before httpx touches it) is the string the client signed -/
theorem refCanonicalUri_clientPath (s : Bytes) : refCanonicalUri (clientPath s) = clientPath s := by
  unfold refCanonicalUri
  rw [pctDecode_clientPath]
  exact (flatMap_congr_all path_byte s).symm

theorem ref_roundtrip_query (plus : Bool) (s : Bytes) (h : QueryValueOk s) :
    awsUriEncode true (pctDecode plus (queryQuote s)) = queryQuote s := by
  rw [queryQuote_of_ok s h, pctDecode_pyQuote_query]
  exact (flatMap_congr_all query_byte s).symm

/-! ## exactness of the D10 region: with `quote_plus`, every string containing a space is encoded differently -/
theorem aws_no_plus_table : (List.range 256).all (fun n => (awsEncByte true (UInt8.ofNat n)).all (fun x => !(x == 0x2B))) = true := by
  decide +kernel

theorem aws_no_plus (s : Bytes) : ∀ x ∈ awsUriEncode true s, (x == 0x2B) = false := by
  intro x hx
  obtain ⟨b, _, hxb⟩ := List.mem_flatMap.mp hx
  have := forall_byte (p := fun b => (awsEncByte true b).all (fun x => !(x == 0x2B))) aws_no_plus_table b
  have h2 := List.all_eq_true.mp this x hxb
  simpa using h2

theorem quotePlus_has_plus (s : Bytes) (h : s.contains 0x20 = true) : 0x2B ∈ pyQuotePlus Gen.s3QuerySafeB s := by
  unfold pyQuotePlus
  rw [h]
  simp only [↓reduceIte]
  have hm : (0x20 : UInt8) ∈ s := by simpa using h
  have h20 : (0x20 : UInt8) ∈ pyQuote (Gen.s3QuerySafeB ++ [0x20]) s := by
    refine List.mem_flatMap.mpr ⟨0x20, hm, ?_⟩
    have : pyQuoteByte (Gen.s3QuerySafeB ++ [0x20]) 0x20 = [0x20] := by decide
    rw [this]; simp
  exact List.mem_map.mpr ⟨0x20, h20, by decide⟩

theorem queryQuote_ne_of_space (hv : Gen.s3QueryViaQuotePlus = true) (s : Bytes) (h : s.contains 0x20 = true) :
    queryQuote s ≠ awsUriEncode true s := by
  intro heq
  have hp : 0x2B ∈ queryQuote s := by unfold queryQuote; rw [hv]; exact quotePlus_has_plus s h
  rw [heq] at hp
  have := aws_no_plus s _ hp
  simp at this

end Replicat.SigV4
