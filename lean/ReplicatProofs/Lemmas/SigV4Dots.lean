import ReplicatProofs.Lemmas.SigV4
/-! C16: dot segments of the quoted path are exactly the dot segments of the name (so the D8 hypothesis can be stated on names). -/
namespace Replicat.SigV4

theorem splitSlash_ne_nil (s : Bytes) : splitSlash s ≠ [] := by
  cases s with
  | nil => simp [splitSlash]
  | cons b t =>
    unfold splitSlash
    split
    · simp
    · split <;> simp

/-- prepending bytes that are not `/` extends the first segment -/
theorem splitSlash_append_noslash (l t : Bytes) (h : ∀ b ∈ l, (b == 0x2F) = false) (hd : Bytes) (tl : List Bytes)
    (ht : splitSlash t = hd :: tl) : splitSlash (l ++ t) = (l ++ hd) :: tl := by
  induction l with
  | nil => simpa using ht
  | cons a l ih =>
    have ha := h a (List.mem_cons_self)
    have ih' := ih (fun b hb => h b (List.mem_cons_of_mem _ hb))
    show splitSlash (a :: (l ++ t)) = _
    unfold splitSlash
    rw [ha, ih']
    simp

/-- per-byte facts about the path encoder: `/` stays `/`; any other byte becomes `[b]` or `%XX`, never containing `/` -/
def pathByteOk (b : UInt8) : Bool :=
  let e := pyQuoteByte Gen.s3PathSafeB b
  if b == 0x2F then e == [0x2F]
  else e.all (fun x => !(x == 0x2F)) && (e == [b] || (e.length == 3 && e.head? == some 0x25))

theorem pathByteOk_table : (List.range 256).all (fun n => pathByteOk (UInt8.ofNat n)) = true := by decide +kernel

theorem pathByteOk_all (b : UInt8) : pathByteOk b = true := forall_byte pathByteOk_table b

theorem splitSlash_clientPath (s : Bytes) :
    splitSlash (clientPath s) = (splitSlash s).map (fun seg => seg.flatMap (pyQuoteByte Gen.s3PathSafeB)) := by
  induction s with
  | nil => simp [clientPath, pyQuote, splitSlash]
  | cons b t ih =>
    have hb := pathByteOk_all b
    unfold clientPath pyQuote at ih ⊢
    rw [List.flatMap_cons]
    obtain ⟨hd, tl, hsp⟩ : ∃ hd tl, splitSlash t = hd :: tl := by
      cases h : splitSlash t with
      | nil => exact absurd h (splitSlash_ne_nil t)
      | cons a as => exact ⟨a, as, rfl⟩
    by_cases hs : (b == 0x2F) = true
    · simp only [pathByteOk, hs, ↓reduceIte, beq_iff_eq] at hb
      have hb2 : b = 0x2F := by simpa using hs
      rw [hb]
      show splitSlash (0x2F :: _) = _
      conv => rhs; rw [hb2]
      simp [splitSlash, ih]
    · have hs' : (b == 0x2F) = false := by simpa using hs
      simp only [pathByteOk, hs', Bool.false_eq_true, ↓reduceIte, Bool.and_eq_true, List.all_eq_true, Bool.not_eq_true'] at hb
      have hno : ∀ x ∈ pyQuoteByte Gen.s3PathSafeB b, (x == 0x2F) = false := hb.1
      have hL : splitSlash (t.flatMap (pyQuoteByte Gen.s3PathSafeB))
          = hd.flatMap (pyQuoteByte Gen.s3PathSafeB) :: tl.map (fun seg => seg.flatMap (pyQuoteByte Gen.s3PathSafeB)) := by
        rw [ih, hsp]; rfl
      have hR : splitSlash (b :: t) = (b :: hd) :: tl := by
        simp only [splitSlash, hs', hsp]; simp
      rw [splitSlash_append_noslash _ _ hno _ _ hL, hR]
      simp [List.flatMap_cons]

/-- an encoded segment is `.` / `..` exactly when the segment is -/
theorem enc_nonempty (b : UInt8) : (pyQuoteByte Gen.s3PathSafeB b).length = 1 ∧ pyQuoteByte Gen.s3PathSafeB b = [b] ∨
    (pyQuoteByte Gen.s3PathSafeB b).length = 3 ∧ (pyQuoteByte Gen.s3PathSafeB b).head? = some 0x25 := by
  have hb := pathByteOk_all b
  unfold pathByteOk at hb
  by_cases hs : (b == 0x2F) = true
  · simp only [hs, ↓reduceIte, beq_iff_eq] at hb
    have hb2 : b = 0x2F := by simpa using hs
    left; rw [hb, hb2]; simp
  · have hs' : (b == 0x2F) = false := by simpa using hs
    simp only [hs', Bool.false_eq_true, ↓reduceIte, Bool.and_eq_true, Bool.or_eq_true, beq_iff_eq] at hb
    rcases hb.2 with h | h
    · left; rw [h]; simp
    · right; exact ⟨by simpa using h.1, by simpa using h.2⟩

theorem seg_is_dot (seg : Bytes) : (seg.flatMap (pyQuoteByte Gen.s3PathSafeB) == dot) = (seg == dot) := by
  match seg with
  | [] => decide
  | [b] =>
    rcases enc_nonempty b with ⟨_, h⟩ | ⟨h, _⟩
    · simp [h]
    · have : ([b].flatMap (pyQuoteByte Gen.s3PathSafeB)).length = 3 := by simp [h]
      have hne : ([b].flatMap (pyQuoteByte Gen.s3PathSafeB) == dot) = false := by
        apply beq_false_of_ne; intro heq; rw [heq] at this; simp [dot] at this
      rw [hne]
      have hb := pathByteOk_all b
      -- b = '.' would encode as [b]
      cases hbd : ([b] == dot) with
      | false => rfl
      | true =>
        have : b = 0x2E := by simpa [dot] using hbd
        subst this
        exact absurd h (by decide)
  | a :: b :: rest =>
    have la : 1 ≤ (pyQuoteByte Gen.s3PathSafeB a).length := by rcases enc_nonempty a with ⟨h, _⟩ | ⟨h, _⟩ <;> omega
    have lb : 1 ≤ (pyQuoteByte Gen.s3PathSafeB b).length := by rcases enc_nonempty b with ⟨h, _⟩ | ⟨h, _⟩ <;> omega
    have hlen : 2 ≤ ((a :: b :: rest).flatMap (pyQuoteByte Gen.s3PathSafeB)).length := by
      simp only [List.flatMap_cons, List.length_append]; omega
    have h1 : ((a :: b :: rest).flatMap (pyQuoteByte Gen.s3PathSafeB) == dot) = false := by
      apply beq_false_of_ne; intro heq; rw [heq] at hlen; simp [dot] at hlen
    rw [h1]; simp [dot]

theorem enc_dot : pyQuoteByte Gen.s3PathSafeB 0x2E = [0x2E] := by decide

theorem seg_is_dotdot (seg : Bytes) : (seg.flatMap (pyQuoteByte Gen.s3PathSafeB) == dotdot) = (seg == dotdot) := by
  match seg with
  | [] => decide
  | [b] =>
    have hr : ([b] == dotdot) = false := by simp [dotdot]
    rw [hr]
    apply beq_false_of_ne
    intro heq
    have hl : ([b].flatMap (pyQuoteByte Gen.s3PathSafeB)).length = 2 := by rw [heq]; rfl
    simp only [List.flatMap_cons, List.flatMap_nil, List.append_nil] at hl
    rcases enc_nonempty b with ⟨h, _⟩ | ⟨h, _⟩ <;> omega
  | [a, b] =>
    rcases enc_nonempty a with ⟨_, ha⟩ | ⟨ha, _⟩
    · rcases enc_nonempty b with ⟨_, hb⟩ | ⟨hb, _⟩
      · simp [ha, hb]
      · have hl : ([a, b].flatMap (pyQuoteByte Gen.s3PathSafeB)).length = 4 := by simp [ha, hb]
        have h1 : ([a, b].flatMap (pyQuoteByte Gen.s3PathSafeB) == dotdot) = false := by
          apply beq_false_of_ne; intro heq; rw [heq] at hl; simp [dotdot] at hl
        rw [h1]
        cases hd : ([a, b] == dotdot) with
        | false => rfl
        | true =>
          have : b = 0x2E := by have := (by simpa [dotdot] using hd : a = 0x2E ∧ b = 0x2E); exact this.2
          subst this; rw [enc_dot] at hb; simp at hb
    · have lb : 1 ≤ (pyQuoteByte Gen.s3PathSafeB b).length := by rcases enc_nonempty b with ⟨h, _⟩ | ⟨h, _⟩ <;> omega
      have hl : 4 ≤ ([a, b].flatMap (pyQuoteByte Gen.s3PathSafeB)).length := by
        simp only [List.flatMap_cons, List.flatMap_nil, List.append_nil, List.length_append]; omega
      have h1 : ([a, b].flatMap (pyQuoteByte Gen.s3PathSafeB) == dotdot) = false := by
        apply beq_false_of_ne; intro heq; rw [heq] at hl; simp [dotdot] at hl
      rw [h1]
      cases hd : ([a, b] == dotdot) with
      | false => rfl
      | true =>
        have : a = 0x2E := by have := (by simpa [dotdot] using hd : a = 0x2E ∧ b = 0x2E); exact this.1
        subst this; rw [enc_dot] at ha; simp at ha
  | a :: b :: c :: rest =>
    have la : 1 ≤ (pyQuoteByte Gen.s3PathSafeB a).length := by rcases enc_nonempty a with ⟨h, _⟩ | ⟨h, _⟩ <;> omega
    have lb : 1 ≤ (pyQuoteByte Gen.s3PathSafeB b).length := by rcases enc_nonempty b with ⟨h, _⟩ | ⟨h, _⟩ <;> omega
    have lc : 1 ≤ (pyQuoteByte Gen.s3PathSafeB c).length := by rcases enc_nonempty c with ⟨h, _⟩ | ⟨h, _⟩ <;> omega
    have hlen : 3 ≤ ((a :: b :: c :: rest).flatMap (pyQuoteByte Gen.s3PathSafeB)).length := by
      simp only [List.flatMap_cons, List.length_append]; omega
    have h1 : ((a :: b :: c :: rest).flatMap (pyQuoteByte Gen.s3PathSafeB) == dotdot) = false := by
      apply beq_false_of_ne; intro heq; rw [heq] at hlen; simp [dotdot] at hlen
    rw [h1]; simp [dotdot]

/-- the quoted path has a dot segment exactly when the name has one -/
theorem hasDotSegment_clientPath (p : Bytes) : hasDotSegment (clientPath p) = hasDotSegment p := by
  unfold hasDotSegment
  rw [splitSlash_clientPath, List.any_map]
  congr 1
  funext seg
  simp only [Function.comp, seg_is_dot, seg_is_dotdot]

end Replicat.SigV4
