import ReplicatProofs.Lemmas.SymStore
/-! Completeness of the restore pipeline: when every referenced chunk fetches to the captured plaintext and exactly the
snapshot's own body loads, `restoreMd` returns what the snapshot recorded (the converse direction of
`C04.restore_ok_implies_identical`). -/
namespace Replicat.Sym
open Term (pub sec nonce key nil pair mac kdf enc)

/-! ## the chunk table -/
theorem mem_dedup (l acc : List Term) (x : Term) : x ∈ dedup l acc ↔ x ∈ acc ∨ x ∈ l := by
  induction l generalizing acc with
  | nil => simp [dedup]
  | cons d ds ih =>
    unfold dedup
    split
    · rename_i hc
      have hd : d ∈ acc := by simpa using hc
      rw [ih]
      constructor
      · rintro (h | h)
        · exact Or.inl h
        · exact Or.inr (List.mem_cons_of_mem _ h)
      · rintro (h | h)
        · exact Or.inl h
        · rcases List.mem_cons.mp h with h | h
          · subst h; exact Or.inl hd
          · exact Or.inr h
    · rw [ih]
      simp only [List.mem_append, List.mem_cons, List.not_mem_nil, or_false]
      constructor
      · rintro ((h | h) | h)
        · exact Or.inl h
        · exact Or.inr (Or.inl h)
        · exact Or.inr (Or.inr h)
      · rintro (h | h | h)
        · exact Or.inl (Or.inl h)
        · exact Or.inl (Or.inr h)
        · exact Or.inr h

/-- the table of digests is the digest of the table of plaintexts (ideal hash: `digest` is injective) -/
theorem dedup_map_digest (l acc : List Term) : dedup (l.map digest) (acc.map digest) = (dedup l acc).map digest := by
  induction l generalizing acc with
  | nil => simp [dedup]
  | cons c cs ih =>
    simp only [List.map_cons]
    unfold dedup
    have hc : (acc.map digest).contains (digest c) = acc.contains c := by
      rw [Bool.eq_iff_iff]
      simp only [List.contains_iff_mem, List.mem_map]
      constructor
      · rintro ⟨x, hx, hd⟩
        rw [← digest_inj hd]
        exact hx
      · intro h
        exact ⟨c, h, rfl⟩
    rw [hc]
    split
    · exact ih acc
    · have := ih (acc ++ [c])
      simpa using this

theorem table_eq_contents (t : Taken) : t.table = t.contents.map digest := by
  have := dedup_map_digest t.chunks []
  simpa [Taken.table, Taken.contents] using this

/-! ## locations and chunk objects across one key family -/
theorem chunkLoc_inj {p q : Props} {d d' : Term} (he : p.encrypted = q.encrypted) (h : chunkLoc p d = chunkLoc q d') :
    d = d' ∧ (p.encrypted = true → p.sh.macKey = q.sh.macKey) := by
  have h1 : Gen.chunkNameMacDepth = 0 + 1 := rfl
  unfold chunkLoc chunkName chunkTag at h
  rw [← he] at h
  cases hp : p.encrypted with
  | false =>
    simp only [hp, Bool.false_eq_true, if_false] at h
    injection h with _ h
    injection h with h _
    exact ⟨h, by simp⟩
  | true =>
    simp only [hp, if_true, h1, macN] at h
    injection h with _ h
    injection h with _ h
    injection h with hk hd
    exact ⟨hd, fun _ => hk⟩

theorem snapLoc_inj {p q : Props} {n n' : Term} (he : p.encrypted = q.encrypted) (h : snapLoc p n = snapLoc q n') :
    n = n' ∧ (p.encrypted = true → p.sh.macKey = q.sh.macKey) := by
  have h1 : Gen.snapTagMacDepth = 0 + 1 := rfl
  unfold snapLoc snapshotTag at h
  rw [← he] at h
  cases hp : p.encrypted with
  | false =>
    simp only [hp, Bool.false_eq_true, if_false] at h
    injection h with _ h
    injection h with h _
    exact ⟨h, by simp⟩
  | true =>
    simp only [hp, if_true, h1, macN] at h
    injection h with _ h
    injection h with h hn
    injection h with hk _
    exact ⟨hn, fun _ => hk⟩

/-- locations depend on the key only through the encryption flag and the MAC key -/
theorem chunkLoc_congr {p q : Props} (he : p.encrypted = q.encrypted) (hk : p.encrypted = true → p.sh.macKey = q.sh.macKey)
    (d : Term) : chunkLoc p d = chunkLoc q d := by
  unfold chunkLoc chunkName chunkTag
  rw [← he]
  cases hp : p.encrypted with
  | false => simp
  | true => simp [hk hp]

theorem snapshotTag_congr {p q : Props} (he : p.encrypted = q.encrypted) (hk : p.encrypted = true → p.sh.macKey = q.sh.macKey)
    (n : Term) : snapshotTag p n = snapshotTag q n := by
  unfold snapshotTag
  rw [← he]
  cases hp : p.encrypted with
  | false => simp
  | true => simp [hk hp]

/-- a chunk object written by any key of the family verifies for every key of the family -/
theorem verifyChunk_family {p q : Props} (he : p.encrypted = q.encrypted) (hs : p.encrypted = true → p.sh = q.sh) (n c : Term) :
    verifyChunk p (digest c) (chunkObject q n c) = .ok c := by
  have h1 : Gen.chunkReadKeyFromDigest = true := rfl
  have h2 : Gen.chunkWriteKeyFromDigest = true := rfl
  have h3 : Gen.chunkDigestVerified = true := rfl
  cases hp : p.encrypted with
  | false =>
    have hq : q.encrypted = false := by rw [← he, hp]
    simp [verifyChunk, chunkObject, hp, hq, h3]
  | true =>
    have hq : q.encrypted = true := by rw [← he, hp]
    have : subKey q (digest c) = subKey p (digest c) := by simp [subKey, hs hp]
    simp [verifyChunk, chunkObject, hp, hq, h1, h2, h3, this]

/-! ## table injectivity (two stored snapshot objects that are equal have the same chunk table) -/
theorem encTable_inj {t t' : List Term} (h : encTable t = encTable t') : t = t' := by
  have := congrArg decTable h
  simpa using this

theorem snapshotStored_table {p q : Props} (he : p.encrypted = q.encrypted) {n1 n2 n1' n2' : Term} {t t' : List Term} {d d' : Term}
    (h : snapshotStored p n1 n2 (encTable t) d = snapshotStored q n1' n2' (encTable t') d') : t = t' := by
  unfold snapshotStored at h
  rw [← he] at h
  cases hp : p.encrypted with
  | false =>
    simp only [hp, Bool.false_eq_true, if_false] at h
    injection h with h _
    exact encTable_inj h
  | true =>
    simp only [hp, if_true] at h
    injection h with h _
    injection h with _ _ h
    exact encTable_inj h

/-! ## the reference plan -/
theorem restoreParts_complete (fetch : Term → Except Err Term) (contents : List Term)
    (hf : ∀ c ∈ contents, fetch (digest c) = .ok c) (refs : List Ref) (hr : ∀ r ∈ refs, r.index < contents.length) :
    ∃ ps, restoreParts fetch (contents.map digest) refs = .ok ps ∧ honestParts contents refs = some ps := by
  induction refs with
  | nil => exact ⟨[], rfl, rfl⟩
  | cons r rs ih =>
    obtain ⟨ps, h1, h2⟩ := ih (fun r' hr' => hr r' (List.mem_cons_of_mem _ hr'))
    have hlt : r.index < contents.length := hr r (by simp)
    have hc : contents[r.index]? = some contents[r.index] := List.getElem?_eq_getElem hlt
    have hm : contents[r.index] ∈ contents := List.getElem_mem hlt
    refine ⟨(contents[r.index], r.lo, r.hi) :: ps, ?_, ?_⟩
    · unfold restoreParts
      simp [List.getElem?_map, hc, hf _ hm, h1]
    · unfold honestParts
      simp [hc, h2]

theorem all_refs_isort {n : Nat} {refs : List Ref} (h : ∀ r ∈ refs, r.index < n) : ∀ r ∈ isort refLE refs, r.index < n :=
  fun r hr => h r ((mem_isort refLE r refs).mp hr)

theorem restoreFilesMd_complete (fetch : Term → Except Err Term) (contents : List Term)
    (hf : ∀ c ∈ contents, fetch (digest c) = .ok c) (files : List FileRec)
    (hr : ∀ f ∈ files, ∀ r ∈ f.refs, r.index < contents.length) :
    ∃ out, recordedFiles contents files = some out ∧
      restoreFilesMd fetch (files.map fun f => (contents.map digest, f)) = .ok out := by
  induction files with
  | nil => exact ⟨[], rfl, rfl⟩
  | cons f fs ih =>
    obtain ⟨out, h1, h2⟩ := ih (fun f' hf' => hr f' (List.mem_cons_of_mem _ hf'))
    obtain ⟨ps, p1, p2⟩ := restoreParts_complete fetch contents hf (isort refLE f.refs) (all_refs_isort (hr f (by simp)))
    refine ⟨(f.path, ps, f.md) :: out, ?_, ?_⟩
    · unfold recordedFiles
      simp [p2, h1]
    · simp only [List.map_cons]
      unfold restoreFilesMd
      simp [p1, h2]

/-! ## file selection of a single body -/
theorem nodupB_cons {a : Term} {as : List Term} (h : nodupB (a :: as) = true) : a ∉ as ∧ nodupB as = true := by
  unfold nodupB at h
  simp only [Bool.and_eq_true, Bool.not_eq_true', List.contains_eq_mem, decide_eq_false_iff_not] at h
  exact h

theorem selectStep_nodup (table : List Term) (files : List FileRec) (acc : List (List Term × FileRec) × List Term)
    (hn : nodupB (files.map (·.path)) = true) (hd : ∀ f ∈ files, f.path ∉ acc.2) :
    (files.foldl (fun (acc : List (List Term × FileRec) × List Term) f =>
        if acc.2.contains f.path then acc else (acc.1 ++ [(table, f)], acc.2 ++ [f.path])) acc).1
      = acc.1 ++ files.map (fun f => (table, f)) := by
  induction files generalizing acc with
  | nil => simp
  | cons f fs ih =>
    simp only [List.map_cons] at hn
    obtain ⟨hnf, hns⟩ := nodupB_cons hn
    have hf : f.path ∉ acc.2 := hd f (by simp)
    have hc : acc.2.contains f.path = false := by simpa using hf
    simp only [List.foldl_cons, hc, Bool.false_eq_true, if_false]
    rw [ih _ hns]
    · simp
    · intro g hg
      simp only [List.mem_append, List.mem_singleton, not_or]
      refine ⟨hd g (List.mem_cons_of_mem _ hg), ?_⟩
      intro hgf
      apply hnf
      rw [← hgf]
      exact List.mem_map.mpr ⟨g, hg, rfl⟩

theorem selectFiles_single (table : List Term) (data : Data) (hn : nodupB (data.files.map (·.path)) = true) :
    selectFiles (isort newestFirst [(table, data)]) [] = data.files.map (fun f => (table, f)) := by
  simp only [isort, insertBy, selectFiles, List.append_nil]
  have := selectStep_nodup table data.files ([], []) hn (by simp)
  simpa using this

/-! ## `restore` is `restoreMd` without the metadata column -/
def dropMd (out : List Restored) : List (Term × List Part) := out.map fun w => (w.1, w.2.1)

theorem restoreFiles_eq (fetch : Term → Except Err Term) (l : List (List Term × FileRec)) :
    restoreFiles fetch l = (restoreFilesMd fetch l).map dropMd := by
  induction l with
  | nil => rfl
  | cons x rest ih =>
    obtain ⟨table, f⟩ := x
    unfold restoreFiles restoreFilesMd
    cases restoreParts fetch table (isort refLE f.refs) with
    | error e => rfl
    | ok ps =>
      simp only
      rw [ih]
      cases restoreFilesMd fetch rest with
      | error e => rfl
      | ok out => rfl

theorem restore_eq_restoreMd (p : Props) (s : Store) (target : Term) :
    restore p s target = (restoreMd p s target).map dropMd := by
  unfold restore restoreMd
  cases loadAll p target (snapEntries s) with
  | error e => rfl
  | ok bodies => exact restoreFiles_eq _ _

end Replicat.Sym
