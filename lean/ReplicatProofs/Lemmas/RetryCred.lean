import ReplicatModel.RetryCred
import ReplicatProofs.Lemmas.RetryPolicy
/-!
Helper lemmas for C12, sessions on one long-lived B2 object (`ReplicatModel/RetryCred.lean`).
-/
set_option linter.unusedSimpArgs false
set_option linter.unusedVariables false
namespace Replicat.Cred
open Replicat Replicat.Retry

/-- the service never accepts a credential it has not issued yet -/
def WF (s : Sess) : Prop := s.acctLive ≤ s.acctIssued ∧ s.upLive ≤ s.upIssued ∧ s.podLive ≤ s.upIssued

/-- no credential event is scheduled inside the operation -/
def Quiet (s : Sess) : Prop := s.pending = none

/-- what the session theorems need from the extracted configuration: upload credentials are fetched afresh, the response hook
turns a 401 into `AuthRequired`, and `requires_auth` answers `AuthRequired` with a re-authentication -/
def Sound (c : Cfg) : Prop := c.credsFresh = true ∧ c.e401 = .auth ∧ c.pol .auth 1 0 = .reauth false

instance (c : Cfg) : Decidable (Sound c) := by unfold Sound; infer_instance

theorem call_succ {α : Type} (pol : Err → Nat → Nat → Decision) (att : Sess → R α × Sess) (fuel tries rounds : Nat) (s : Sess) :
    call pol att (fuel + 1) tries rounds s =
      match att s with
      | (.ok a, s1) => (.ok a, s1)
      | (.fuel, s1) => (.fuel, s1)
      | (.err e, s1) =>
        match pol e tries rounds with
        | .raise e' slept => (.err e', { s1 with sleeps := s1.sleeps + slept.toNat })
        | .retry extra => call pol att fuel (tries + 1) rounds { s1 with sleeps := s1.sleeps + 1 + extra.toNat }
        | .reauth slept => call pol att fuel 1 (rounds + 1) { s1 with sleeps := s1.sleeps + slept.toNat }.authenticate := rfl

theorem call_ok {α : Type} (pol : Err → Nat → Nat → Decision) (att : Sess → R α × Sess) (fuel tries rounds : Nat) (s s1 : Sess) (a : α)
    (h : att s = (.ok a, s1)) : call pol att (fuel + 1) tries rounds s = (.ok a, s1) := by
  rw [call_succ, h]

theorem call_reauth {α : Type} (pol : Err → Nat → Nat → Decision) (att : Sess → R α × Sess) (fuel tries rounds : Nat) (s s1 : Sess) (e : Err)
    (h : att s = (.err e, s1)) (hp : pol e tries rounds = .reauth false) :
    call pol att (fuel + 1) tries rounds s = call pol att fuel 1 (rounds + 1) s1.authenticate := by
  rw [call_succ, h]
  simp only [hp]
  rfl

/-! ## requests and authorisations of a quiet session -/

theorem tick_quiet (s : Sess) (a : Api) (h : Quiet s) : s.tick a = { s with requests := s.requests + 1, log := a :: s.log } := by
  unfold Quiet at h
  simp only [Sess.tick, h]

theorem auth_quiet (s : Sess) (h : Quiet s) :
    s.authenticate = { s with token := s.acctIssued, acctIssued := s.acctIssued + 1, authed := true, bucket := s.bucket || s.restricted,
                              auths := s.auths + 1, requests := s.requests + 1, log := .authorize :: s.log } := by
  simp only [Sess.authenticate, tick_quiet s _ h]

/-- nothing but counters, issued credentials and what the client holds changed -/
structure Pres (s s' : Sess) : Prop where
  quiet : Quiet s'
  wf : WF s'
  acctLive : s'.acctLive = s.acctLive
  upLive : s'.upLive = s.upLive
  podLive : s'.podLive = s.podLive
  restricted : s'.restricted = s.restricted
  sleeps : s'.sleeps = s.sleeps
  req : s.requests ≤ s'.requests
  auths : s.auths ≤ s'.auths

theorem Pres.refl (s : Sess) (hw : WF s) (hq : Quiet s) : Pres s s := ⟨hq, hw, rfl, rfl, rfl, rfl, rfl, Nat.le_refl _, Nat.le_refl _⟩

theorem Pres.trans {a b c : Sess} (h1 : Pres a b) (h2 : Pres b c) : Pres a c :=
  ⟨h2.quiet, h2.wf, h2.acctLive.trans h1.acctLive, h2.upLive.trans h1.upLive, h2.podLive.trans h1.podLive,
   h2.restricted.trans h1.restricted, h2.sleeps.trans h1.sleeps, Nat.le_trans h1.req h2.req, Nat.le_trans h1.auths h2.auths⟩

theorem pres_tick (s : Sess) (a : Api) (hw : WF s) (hq : Quiet s) : Pres s (s.tick a) := by
  rw [tick_quiet s a hq]
  exact ⟨hq, hw, rfl, rfl, rfl, rfl, rfl, Nat.le_succ _, Nat.le_refl _⟩

theorem pres_auth (s : Sess) (hw : WF s) (hq : Quiet s) : Pres s s.authenticate := by
  rw [auth_quiet s hq]
  obtain ⟨h1, h2, h3⟩ := hw
  exact ⟨hq, ⟨Nat.le_succ_of_le h1, h2, h3⟩, rfl, rfl, rfl, rfl, rfl, Nat.le_succ _, Nat.le_succ _⟩

theorem auth_ok (s : Sess) (hw : WF s) (hq : Quiet s) : s.authenticate.acctOk = true := by
  rw [auth_quiet s hq]
  simp [Sess.acctOk, hw.1]

theorem auth_authed (s : Sess) : s.authenticate.authed = true := rfl
theorem auth_auths (s : Sess) (hq : Quiet s) : s.authenticate.auths = s.auths + 1 := by rw [auth_quiet s hq]
theorem auth_requests (s : Sess) (hq : Quiet s) : s.authenticate.requests = s.requests + 1 := by rw [auth_quiet s hq]
theorem auth_store (s : Sess) (hq : Quiet s) : s.authenticate.store = s.store := by rw [auth_quiet s hq]
theorem tick_store (s : Sess) (a : Api) (hq : Quiet s) : (s.tick a).store = s.store := by rw [tick_quiet s a hq]
theorem tick_requests (s : Sess) (a : Api) (hq : Quiet s) : (s.tick a).requests = s.requests + 1 := by rw [tick_quiet s a hq]
theorem tick_auths (s : Sess) (a : Api) (hq : Quiet s) : (s.tick a).auths = s.auths := by rw [tick_quiet s a hq]
theorem tick_token (s : Sess) (a : Api) (hq : Quiet s) : (s.tick a).token = s.token := by rw [tick_quiet s a hq]
theorem tick_authed (s : Sess) (a : Api) (hq : Quiet s) : (s.tick a).authed = s.authed := by rw [tick_quiet s a hq]
theorem tick_acctOk (s : Sess) (a : Api) (hq : Quiet s) : (s.tick a).acctOk = s.acctOk := by rw [tick_quiet s a hq]; rfl
theorem tick_upIssued (s : Sess) (a : Api) (hq : Quiet s) : (s.tick a).upIssued = s.upIssued := by rw [tick_quiet s a hq]

theorem acctOk_authed (s : Sess) (h : s.acctOk = true) : s.authed = true := by
  simp only [Sess.acctOk, Bool.and_eq_true] at h
  exact h.1

/-- a decorated call that returned normally: at most `k` requests, at most one re-authentication — and then the token is valid —,
none if the token was valid, and no request at all if the token is still not valid afterwards -/
structure Good (s s' : Sess) (k : Nat) : Prop where
  pres : Pres s s'
  authed : s'.authed = true
  req : s'.requests ≤ s.requests + k
  tok : (s'.auths = s.auths ∧ s'.token = s.token ∧ s.authed = true) ∨ (s'.auths = s.auths + 1 ∧ s'.acctOk = true)
  keep : s.acctOk = true → s'.auths = s.auths
  idle : s'.acctOk = false → s'.requests = s.requests

theorem Good.ok_of_ok {s s' : Sess} {k : Nat} (h : Good s s' k) (hs : s.acctOk = true) : s'.acctOk = true := by
  rcases h.tok with ⟨_, ht, _⟩ | ⟨_, h2⟩
  · simp only [Sess.acctOk, Bool.and_eq_true, decide_eq_true_eq] at hs ⊢
    exact ⟨h.authed, by rw [h.pres.acctLive, ht]; exact hs.2⟩
  · exact h2

theorem Good.auths_le {s s' : Sess} {k : Nat} (h : Good s s' k) : s'.auths ≤ s.auths + 1 := by
  rcases h.tok with ⟨h1, _, _⟩ | ⟨h1, _⟩ <;> omega

theorem Good.mono {s s' : Sess} {k k' : Nat} (h : Good s s' k) (hk : k ≤ k') : Good s s' k' :=
  ⟨h.pres, h.authed, Nat.le_trans h.req (Nat.add_le_add_left hk _), h.tok, h.keep, h.idle⟩

/-- contract of an attempt (the body under `requires_auth(backoff(…))`) on an authenticated object in a quiet session: it returns
normally — within `kv` requests if the account token was valid, `k` otherwise —, or it raises `AuthRequired` after at most `kf`
requests, without having re-authenticated, and only if the token was not valid -/
def AttOk {α : Type} (att : Sess → R α × Sess) (k kf kv : Nat) (P : α → Sess → Sess → Prop) : Prop :=
  ∀ t, WF t → Quiet t → t.authed = true →
    (∃ v t', att t = (.ok v, t') ∧ Good t t' (if t.acctOk = true then kv else k) ∧ P v t t') ∨
    (t.acctOk = false ∧ ∃ t', att t = (.err .auth, t') ∧ Pres t t' ∧ t'.store = t.store ∧ t'.auths = t.auths ∧
      t'.requests ≤ t.requests + kf)

/-- `requires_auth(backoff(att))` in a quiet session: returns normally after at most one re-authentication -/
theorem call_contract {α : Type} (c : Cfg) (hc : Sound c) (att : Sess → R α × Sess) (k kf kv : Nat) (P : α → Sess → Sess → Prop)
    (ha : AttOk att k kf kv P) (f : Nat) (s : Sess) (hw : WF s) (hq : Quiet s) :
    ∃ v s', call c.pol att (f + 2) 1 0 s.ensureAuth = (.ok v, s') ∧
      Good s s' (if s.acctOk = true then kv else max k (kf + 1 + kv)) ∧
      ∃ t, Pres s t ∧ t.store = s.store ∧ t.authed = true ∧ P v t s' := by
  obtain ⟨_, h2, h3⟩ := hc
  by_cases hau : s.authed = true
  · have he : s.ensureAuth = s := by simp [Sess.ensureAuth, hau]
    rw [he]
    rcases ha s hw hq hau with ⟨v, t', e1, g, hp⟩ | ⟨hno, t', e1, pr, hst, hauths, hreq⟩
    · refine ⟨v, t', call_ok _ _ _ _ _ _ _ _ e1, ?_, s, Pres.refl s hw hq, rfl, hau, hp⟩
      by_cases hok : s.acctOk = true
      · simpa [hok] using g
      · simp only [hok] at g ⊢
        exact g.mono (Nat.le_max_left _ _)
    · -- AuthRequired → authenticate → again
      have hq' : Quiet t' := pr.quiet
      have hw' : WF t' := pr.wf
      have pa := pres_auth t' hw' hq'
      have hok2 : t'.authenticate.acctOk = true := auth_ok t' hw' hq'
      rcases ha t'.authenticate pa.wf pa.quiet (auth_authed t') with ⟨v, t3, e2, g, hp⟩ | ⟨hno2, _⟩
      · refine ⟨v, t3, ?_, ?_, t'.authenticate, pr.trans pa, ?_, auth_authed t', hp⟩
        · rw [call_reauth c.pol att (f + 1) 1 0 s t' .auth e1 h3]
          exact call_ok _ _ _ _ _ _ _ _ e2
        · simp only [hok2, if_true] at g
          have hno' : ¬ s.acctOk = true := by simp [hno]
          rw [if_neg hno']
          have h5 := auth_requests t' hq'
          have h6 := auth_auths t' hq'
          have h7 := g.keep hok2
          refine ⟨(pr.trans pa).trans g.pres, g.authed, ?_, Or.inr ⟨by omega, g.ok_of_ok hok2⟩, fun h => absurd h hno', ?_⟩
          · have := g.req
            have hm : kf + 1 + kv ≤ max k (kf + 1 + kv) := Nat.le_max_right _ _
            omega
          · intro h
            rw [g.ok_of_ok hok2] at h
            cases h
        · rw [auth_store t' hq', hst]
      · rw [hok2] at hno2
        cases hno2
  · have hau' : s.authed = false := by simpa using hau
    have he : s.ensureAuth = s.authenticate := by simp [Sess.ensureAuth, hau']
    rw [he]
    have pa := pres_auth s hw hq
    have hok2 : s.authenticate.acctOk = true := auth_ok s hw hq
    have hno' : ¬ s.acctOk = true := by
      intro h
      rw [acctOk_authed s h] at hau'
      cases hau'
    rcases ha s.authenticate pa.wf pa.quiet (auth_authed s) with ⟨v, t3, e2, g, hp⟩ | ⟨hno2, _⟩
    · refine ⟨v, t3, call_ok _ _ _ _ _ _ _ _ e2, ?_, s.authenticate, pa, auth_store s hq, auth_authed s, hp⟩
      simp only [hok2, if_true] at g
      rw [if_neg hno']
      have h5 := auth_requests s hq
      have h6 := auth_auths s hq
      have h7 := g.keep hok2
      refine ⟨pa.trans g.pres, g.authed, ?_, Or.inr ⟨by omega, g.ok_of_ok hok2⟩, fun h => absurd h hno', ?_⟩
      · have := g.req
        have hm : kf + 1 + kv ≤ max k (kf + 1 + kv) := Nat.le_max_right _ _
        omega
      · intro h
        rw [g.ok_of_ok hok2] at h
        cases h
    · rw [hok2] at hno2
      cases hno2

/-! ## `_get_bucket` -/

def gbAtt (c : Cfg) : Sess → R Unit × Sess := fun s =>
  if s.bucket then (.ok (), s)
  else
    let s1 := s.tick .listBuckets
    if s1.acctOk then (.ok (), { s1 with bucket := true }) else (.err c.e401, s1)

theorem getBucket_eq (c : Cfg) (F : Nat) (s : Sess) : getBucket c F s = call c.pol (gbAtt c) F 1 0 s.ensureAuth := rfl

theorem gbAtt_ok (c : Cfg) (hc : Sound c) : AttOk (gbAtt c) 1 1 1 (fun _ t t' => t'.bucket = true ∧ t'.store = t.store) := by
  intro t hw hq hau
  by_cases hb : t.bucket = true
  · refine Or.inl ⟨(), t, by simp [gbAtt, hb], ?_, hb, rfl⟩
    exact ⟨Pres.refl t hw hq, hau, Nat.le_add_right _ _, Or.inl ⟨rfl, rfl, hau⟩, fun _ => rfl, fun _ => rfl⟩
  · have hb' : t.bucket = false := by simpa using hb
    have hok : (t.tick .listBuckets).acctOk = t.acctOk := tick_acctOk t _ hq
    by_cases hv : t.acctOk = true
    · refine Or.inl ⟨(), { t.tick .listBuckets with bucket := true }, by simp [gbAtt, hb', hok, hv], ?_, rfl, ?_⟩
      · have hp := pres_tick t .listBuckets hw hq
        have hr := tick_requests t .listBuckets hq
        have ha := tick_auths t .listBuckets hq
        have ht := tick_token t .listBuckets hq
        have hd := tick_authed t .listBuckets hq
        refine ⟨⟨hp.quiet, hp.wf, hp.acctLive, hp.upLive, hp.podLive, hp.restricted, hp.sleeps, hp.req, hp.auths⟩, ?_, ?_,
          Or.inl ⟨ha, ht, hau⟩, fun _ => ha, ?_⟩
        · show (t.tick .listBuckets).authed = true
          rw [hd]; exact hau
        · show (t.tick .listBuckets).requests ≤ _
          rw [hr]; simp [hv]
        · intro h
          have : (t.tick .listBuckets).acctOk = false := h
          rw [hok, hv] at this
          cases this
      · exact tick_store t .listBuckets hq
    · have hv' : t.acctOk = false := by simpa using hv
      refine Or.inr ⟨hv', t.tick .listBuckets, by simp [gbAtt, hb', hok, hv', hc.2.1], pres_tick t _ hw hq, tick_store t _ hq,
        tick_auths t _ hq, ?_⟩
      rw [tick_requests t _ hq]
      exact Nat.le_refl _

theorem getBucket_spec (c : Cfg) (hc : Sound c) (f : Nat) (s : Sess) (hw : WF s) (hq : Quiet s) :
    ∃ s', getBucket c (f + 2) s = (.ok (), s') ∧ Good s s' (if s.acctOk = true then 1 else 3) ∧ s'.bucket = true ∧ s'.store = s.store := by
  obtain ⟨v, s', e, g, t, _, hst, _, hb, hs⟩ := call_contract c hc (gbAtt c) 1 1 1 _ (gbAtt_ok c hc) f s hw hq
  exact ⟨s', by rw [getBucket_eq, e], by simpa using g, hb, hs.trans hst⟩

/-! ## `_get_upload_url_token` (fresh credentials on every call) -/

def gcAtt (c : Cfg) (F : Nat) : Sess → R Nat × Sess := fun s =>
  match (if c.credsFresh then none else s.upCred) with
  | some u => (.ok u, s)
  | none =>
    match getBucket c F s with
    | (.ok _, s1) =>
      let s2 := s1.tick .getUploadUrl
      if s2.acctOk then
        (.ok s2.upIssued, { s2 with upIssued := s2.upIssued + 1, upCred := if c.credsFresh then none else some s2.upIssued })
      else (.err c.e401, s2)
    | (.err e, s1) => (.err e, s1)
    | (.fuel, s1) => (.fuel, s1)

theorem getCreds_eq (c : Cfg) (F : Nat) (s : Sess) : getCreds c F s = call c.pol (gcAtt c F) F 1 0 s.ensureAuth := rfl

/-- the service hands out the next upload credentials -/
def Sess.issue (s : Sess) (x : Option Nat) : Sess := { s with upIssued := s.upIssued + 1, upCred := x }

theorem pres_issue (s : Sess) (x : Option Nat) (hw : WF s) (hq : Quiet s) : Pres s (s.issue x) := by
  obtain ⟨h1, h2, h3⟩ := hw
  exact ⟨hq, ⟨h1, Nat.le_succ_of_le h2, Nat.le_succ_of_le h3⟩, rfl, rfl, rfl, rfl, rfl, Nat.le_refl _, Nat.le_refl _⟩

theorem gcAtt_ok (c : Cfg) (hc : Sound c) (f : Nat) :
    AttOk (gcAtt c (f + 2)) 4 1 2 (fun u t t' => t'.acctOk = true ∧ t'.upLive ≤ u ∧ t'.podLive ≤ u ∧ t'.store = t.store) := by
  intro t hw hq hau
  obtain ⟨s1, e, g, _, hst⟩ := getBucket_spec c hc f t hw hq
  have hq1 : Quiet s1 := g.pres.quiet
  have hw1 : WF s1 := g.pres.wf
  have hok : (s1.tick .getUploadUrl).acctOk = s1.acctOk := tick_acctOk s1 _ hq1
  have hr := tick_requests s1 .getUploadUrl hq1
  have ha := tick_auths s1 .getUploadUrl hq1
  have ht := tick_token s1 .getUploadUrl hq1
  have hd := tick_authed s1 .getUploadUrl hq1
  have hu := tick_upIssued s1 .getUploadUrl hq1
  have hp := pres_tick s1 .getUploadUrl hw1 hq1
  by_cases hv : s1.acctOk = true
  · have hpi := pres_issue (s1.tick .getUploadUrl) none hp.wf hp.quiet
    refine Or.inl ⟨(s1.tick .getUploadUrl).upIssued, (s1.tick .getUploadUrl).issue none, ?_, ?_, ?_, ?_, ?_, ?_⟩
    · simp [gcAtt, hc.1, e, hok, hv, Sess.issue]
    · refine ⟨(g.pres.trans hp).trans hpi, ?_, ?_, ?_, ?_, ?_⟩
      · show (s1.tick .getUploadUrl).authed = true
        rw [hd]; exact g.authed
      · show (s1.tick .getUploadUrl).requests ≤ _
        have := g.req
        rw [hr]
        by_cases h0 : t.acctOk = true
        · rw [if_pos h0] at this ⊢; omega
        · rw [if_neg h0] at this ⊢; omega
      · rcases g.tok with ⟨h1, h2, h3⟩ | ⟨h1, h2⟩
        · exact Or.inl ⟨by show (s1.tick .getUploadUrl).auths = _; rw [ha]; exact h1,
                        by show (s1.tick .getUploadUrl).token = _; rw [ht]; exact h2, h3⟩
        · exact Or.inr ⟨by show (s1.tick .getUploadUrl).auths = _; rw [ha]; exact h1,
                        by show (s1.tick .getUploadUrl).acctOk = true; rw [hok]; exact h2⟩
      · intro h
        show (s1.tick .getUploadUrl).auths = _
        rw [ha]; exact g.keep h
      · intro h
        have : (s1.tick .getUploadUrl).acctOk = false := h
        rw [hok, hv] at this
        cases this
    · show (s1.tick .getUploadUrl).acctOk = true
      rw [hok]; exact hv
    · show (s1.tick .getUploadUrl).upLive ≤ (s1.tick .getUploadUrl).upIssued
      exact hp.wf.2.1
    · show (s1.tick .getUploadUrl).podLive ≤ (s1.tick .getUploadUrl).upIssued
      exact hp.wf.2.2
    · show (s1.tick .getUploadUrl).store = t.store
      rw [tick_store s1 _ hq1]; exact hst
  · have hv' : s1.acctOk = false := by simpa using hv
    have hno : t.acctOk = false := by
      cases h : t.acctOk with
      | false => rfl
      | true => rw [g.ok_of_ok h] at hv'; cases hv'
    refine Or.inr ⟨hno, s1.tick .getUploadUrl, ?_, g.pres.trans hp, ?_, ?_, ?_⟩
    · simp [gcAtt, hc.1, e, hok, hv', hc.2.1]
    · rw [tick_store s1 _ hq1]; exact hst
    · rw [ha]
      rcases g.tok with ⟨h1, _, _⟩ | ⟨_, h2⟩
      · exact h1
      · rw [h2] at hv'; cases hv'
    · rw [hr, g.idle hv']
      exact Nat.le_refl _

theorem getCreds_spec (c : Cfg) (hc : Sound c) (f : Nat) (s : Sess) (hw : WF s) (hq : Quiet s) :
    ∃ u s', getCreds c (f + 2) s = (.ok u, s') ∧ Good s s' (if s.acctOk = true then 2 else 4) ∧
      s'.acctOk = true ∧ s'.upLive ≤ u ∧ s'.podLive ≤ u ∧ s'.store = s.store := by
  obtain ⟨u, s', e, g, t, _, hst, _, h1, h2, h3, h4⟩ := call_contract c hc (gcAtt c (f + 2)) 4 1 2 _ (gcAtt_ok c hc f) f s hw hq
  exact ⟨u, s', by rw [getCreds_eq, e], by simpa using g, h1, h2, h3, h4.trans hst⟩

/-! ## `upload` / `upload_stream` -/

def Sess.setStore (s : Sess) (st : Store) : Sess := { s with store := st }

theorem pres_setStore (s : Sess) (st : Store) (hw : WF s) (hq : Quiet s) : Pres s (s.setStore st) :=
  ⟨hq, hw, rfl, rfl, rfl, rfl, rfl, Nat.le_refl _, Nat.le_refl _⟩

def put (st : Store) (n : Nat) (d : Bytes) : Store := fun m => if m = n then some d else st m

def upAtt (c : Cfg) (F : Nat) (n : Nat) (d : Bytes) : Sess → R Unit × Sess := fun s =>
  match getCreds c F s with
  | (.ok u, s1) =>
    let s2 := s1.tick .uploadFile
    if u < s2.upLive then (.err c.e401, s2)
    else if u < s2.podLive then (.err (.status 503 false), s2)
    else (.ok (), { s2 with store := fun m => if m = n then some d else s2.store m })
  | (.err e, s1) => (.err e, s1)
  | (.fuel, s1) => (.fuel, s1)

theorem uploadOp_eq (c : Cfg) (F n : Nat) (d : Bytes) (s : Sess) : uploadOp c F n d s = call c.pol (upAtt c F n d) F 1 0 s.ensureAuth := rfl

theorem upAtt_ok (c : Cfg) (hc : Sound c) (f n : Nat) (d : Bytes) :
    AttOk (upAtt c (f + 2) n d) 5 0 3 (fun _ t t' => t'.acctOk = true ∧ t'.store = put t.store n d) := by
  intro t hw hq hau
  obtain ⟨u, s1, e, g, hv, hl1, hl2, hst⟩ := getCreds_spec c hc f t hw hq
  have hq1 : Quiet s1 := g.pres.quiet
  have hw1 : WF s1 := g.pres.wf
  have hok : (s1.tick .uploadFile).acctOk = s1.acctOk := tick_acctOk s1 _ hq1
  have hr := tick_requests s1 .uploadFile hq1
  have ha := tick_auths s1 .uploadFile hq1
  have ht := tick_token s1 .uploadFile hq1
  have hd := tick_authed s1 .uploadFile hq1
  have hp := pres_tick s1 .uploadFile hw1 hq1
  have hps := pres_setStore (s1.tick .uploadFile) (put (s1.tick .uploadFile).store n d) hp.wf hp.quiet
  have hn1 : ¬ u < (s1.tick .uploadFile).upLive := by rw [hp.upLive]; omega
  have hn2 : ¬ u < (s1.tick .uploadFile).podLive := by rw [hp.podLive]; omega
  refine Or.inl ⟨(), (s1.tick .uploadFile).setStore (put (s1.tick .uploadFile).store n d), ?_, ?_, ?_, ?_⟩
  · simp only [upAtt, e, hn1, hn2, if_false]
    rfl
  · refine ⟨(g.pres.trans hp).trans hps, ?_, ?_, ?_, ?_, ?_⟩
    · show (s1.tick .uploadFile).authed = true
      rw [hd]; exact g.authed
    · show (s1.tick .uploadFile).requests ≤ _
      have := g.req
      rw [hr]
      by_cases h0 : t.acctOk = true
      · rw [if_pos h0] at this ⊢; omega
      · rw [if_neg h0] at this ⊢; omega
    · rcases g.tok with ⟨h1, h2, h3⟩ | ⟨h1, h2⟩
      · exact Or.inl ⟨by show (s1.tick .uploadFile).auths = _; rw [ha]; exact h1,
                      by show (s1.tick .uploadFile).token = _; rw [ht]; exact h2, h3⟩
      · exact Or.inr ⟨by show (s1.tick .uploadFile).auths = _; rw [ha]; exact h1,
                      by show (s1.tick .uploadFile).acctOk = true; rw [hok]; exact h2⟩
    · intro h
      show (s1.tick .uploadFile).auths = _
      rw [ha]; exact g.keep h
    · intro h
      have : (s1.tick .uploadFile).acctOk = false := h
      rw [hok, hv] at this
      cases this
  · show (s1.tick .uploadFile).acctOk = true
    rw [hok]; exact hv
  · show put (s1.tick .uploadFile).store n d = put t.store n d
    rw [tick_store s1 _ hq1, hst]

theorem uploadOp_spec (c : Cfg) (hc : Sound c) (f n : Nat) (d : Bytes) (s : Sess) (hw : WF s) (hq : Quiet s) :
    ∃ s', uploadOp c (f + 2) n d s = (.ok (), s') ∧ Good s s' 5 ∧ s'.acctOk = true ∧ s'.store = put s.store n d := by
  obtain ⟨v, s', e, g, t, _, hst, _, h1, h2⟩ := call_contract c hc (upAtt c (f + 2) n d) 5 0 3 _ (upAtt_ok c hc f n d) f s hw hq
  refine ⟨s', by rw [uploadOp_eq, e], ?_, h1, by rw [h2, hst]⟩
  by_cases h0 : s.acctOk = true
  · rw [if_pos h0] at g; exact g.mono (by omega)
  · rw [if_neg h0] at g; exact g.mono (by simp)

/-! ## every other operation: `_get_bucket` + one request with the account token -/

def acAtt (c : Cfg) (F : Nat) (api : Api) (miss : Bool) (eff : Store → Store) : Sess → R Unit × Sess := fun s =>
  match getBucket c F s with
  | (.ok _, s1) =>
    let s2 := s1.tick api
    if !s2.acctOk then (.err c.e401, s2)
    else if miss then (.err (.status 404 false), s2)
    else (.ok (), { s2 with store := eff s2.store })
  | (.err e, s1) => (.err e, s1)
  | (.fuel, s1) => (.fuel, s1)

theorem acctOp_eq (c : Cfg) (F : Nat) (api : Api) (miss : Bool) (eff : Store → Store) (s : Sess) :
    acctOp c F api miss eff s = call c.pol (acAtt c F api miss eff) F 1 0 s.ensureAuth := rfl

theorem acAtt_ok (c : Cfg) (hc : Sound c) (f : Nat) (api : Api) (eff : Store → Store) :
    AttOk (acAtt c (f + 2) api false eff) 4 1 2 (fun _ t t' => t'.acctOk = true ∧ t'.store = eff t.store) := by
  intro t hw hq hau
  obtain ⟨s1, e, g, _, hst⟩ := getBucket_spec c hc f t hw hq
  have hq1 : Quiet s1 := g.pres.quiet
  have hw1 : WF s1 := g.pres.wf
  have hok : (s1.tick api).acctOk = s1.acctOk := tick_acctOk s1 _ hq1
  have hr := tick_requests s1 api hq1
  have ha := tick_auths s1 api hq1
  have ht := tick_token s1 api hq1
  have hd := tick_authed s1 api hq1
  have hp := pres_tick s1 api hw1 hq1
  by_cases hv : s1.acctOk = true
  · have hps := pres_setStore (s1.tick api) (eff (s1.tick api).store) hp.wf hp.quiet
    refine Or.inl ⟨(), (s1.tick api).setStore (eff (s1.tick api).store), ?_, ?_, ?_, ?_⟩
    · simp [acAtt, e, hok, hv, Sess.setStore]
    · refine ⟨(g.pres.trans hp).trans hps, ?_, ?_, ?_, ?_, ?_⟩
      · show (s1.tick api).authed = true
        rw [hd]; exact g.authed
      · show (s1.tick api).requests ≤ _
        have := g.req
        rw [hr]
        by_cases h0 : t.acctOk = true
        · rw [if_pos h0] at this ⊢; omega
        · rw [if_neg h0] at this ⊢; omega
      · rcases g.tok with ⟨h1, h2, h3⟩ | ⟨h1, h2⟩
        · exact Or.inl ⟨by show (s1.tick api).auths = _; rw [ha]; exact h1,
                        by show (s1.tick api).token = _; rw [ht]; exact h2, h3⟩
        · exact Or.inr ⟨by show (s1.tick api).auths = _; rw [ha]; exact h1,
                        by show (s1.tick api).acctOk = true; rw [hok]; exact h2⟩
      · intro h
        show (s1.tick api).auths = _
        rw [ha]; exact g.keep h
      · intro h
        have : (s1.tick api).acctOk = false := h
        rw [hok, hv] at this
        cases this
    · show (s1.tick api).acctOk = true
      rw [hok]; exact hv
    · show eff (s1.tick api).store = eff t.store
      rw [tick_store s1 _ hq1, hst]
  · have hv' : s1.acctOk = false := by simpa using hv
    have hno : t.acctOk = false := by
      cases h : t.acctOk with
      | false => rfl
      | true => rw [g.ok_of_ok h] at hv'; cases hv'
    refine Or.inr ⟨hno, s1.tick api, ?_, g.pres.trans hp, ?_, ?_, ?_⟩
    · simp [acAtt, e, hok, hv', hc.2.1]
    · rw [tick_store s1 _ hq1]; exact hst
    · rw [ha]
      rcases g.tok with ⟨h1, _, _⟩ | ⟨_, h2⟩
      · exact h1
      · rw [h2] at hv'; cases hv'
    · rw [hr, g.idle hv']
      exact Nat.le_refl _

theorem acctOp_spec (c : Cfg) (hc : Sound c) (f : Nat) (api : Api) (eff : Store → Store) (s : Sess) (hw : WF s) (hq : Quiet s) :
    ∃ s', acctOp c (f + 2) api false eff s = (.ok (), s') ∧ Good s s' 4 ∧ s'.acctOk = true ∧ s'.store = eff s.store := by
  obtain ⟨v, s', e, g, t, _, hst, _, h1, h2⟩ := call_contract c hc (acAtt c (f + 2) api false eff) 4 1 2 _ (acAtt_ok c hc f api eff) f s hw hq
  refine ⟨s', by rw [acctOp_eq, e], ?_, h1, by rw [h2, hst]⟩
  by_cases h0 : s.acctOk = true
  · rw [if_pos h0] at g; exact g.mono (by omega)
  · rw [if_neg h0] at g; exact g.mono (by simp)

end Replicat.Cred
