import ReplicatProofs.Lemmas.RepoSafety
import ReplicatModel.RepoListing
/-! Destructive commands over a listing that fails or is partial (`ReplicatModel/RepoListing.lean`): with a complete-or-error
listing a command under any scan fault does what the fault-free command does, or nothing.  Used by C02. -/
namespace Replicat.Repo
open List

def ScanKind.isTop : ScanKind → Bool
  | .top => true
  | _ => false

/-- histories of commands, each under its own (or no) listing fault -/
def runL (F : ListFlags) (enc : Bool) (s : Store) (ops : List (Op × Option ScanFault)) : Store :=
  ops.foldl (fun st p => stepL F enc p.2 st p.1) s

theorem listArea_safe {F : ListFlags} (hF : F.safe = true) (flt : Option ScanFault) (a : Area) (s : Store) :
    listArea F flt a s = .error ∨ listArea F flt a s = .view s := by
  obtain ⟨wo, wi, rp, ts⟩ := F
  simp only [ListFlags.safe, Bool.and_eq_true, Bool.not_eq_true'] at hF
  obtain ⟨⟨⟨h1, h2⟩, h3⟩, h4⟩ := hF
  subst h1 h2 h3 h4
  cases flt with
  | none => exact Or.inr rfl
  | some f =>
    obtain ⟨fa, fk⟩ := f
    simp only [listArea]
    by_cases hne : (fa != a) = true
    · rw [if_pos hne]; exact Or.inr rfl
    · rw [if_neg hne]
      cases fk <;> simp

/-- the top-level handler only matters for a fault of the top directory -/
theorem listArea_notTop {F : ListFlags} (flt : Option ScanFault) (hk : ∀ f, flt = some f → f.kind.isTop = false) (a : Area) (s : Store) :
    listArea F flt a s = listArea ⟨F.walkOpen, F.walkIter, F.repo, false⟩ flt a s := by
  cases flt with
  | none => rfl
  | some f =>
    obtain ⟨fa, fk⟩ := f
    have := hk ⟨fa, fk⟩ rfl
    cases fk with
    | top => simp [ScanKind.isTop] at this
    | walkOpen l => rfl
    | walkIter l => rfl
    | raises l => rfl

theorem deleteL_view_self {F : ListFlags} {enc : Bool} {u : User} {sids : List Nat} {flt : Option ScanFault} {s : Store}
    (h : listArea F flt .snaps s = .view s) :
    (match deleteL F enc u sids flt s with | .ok s' => s' | .error _ => s) = step enc s (.delete u sids) := by
  simp only [deleteL, h, step, deleteSnapshots]
  cases deletePlan enc u sids s <;> rfl

theorem cleanL_view_self {F : ListFlags} {enc : Bool} {u : User} {flt : Option ScanFault} {s : Store}
    (h1 : listArea F flt .snaps s = .view s) (h2 : listArea F flt .chunks s = .view s) :
    (match cleanL F enc u flt s with | .ok s' => s' | .error _ => s) = step enc s (.clean u) := by
  simp only [cleanL, h1, h2, step, clean]
  cases cleanPlan enc u s <;> rfl

/-- **complete-or-error listing**: under any scan fault a command either does nothing or does exactly what it does without the fault -/
theorem stepL_safe {F : ListFlags} (hF : F.safe = true) (enc : Bool) (flt : Option ScanFault) (s : Store) (op : Op) :
    stepL F enc flt s op = s ∨ stepL F enc flt s op = step enc s op := by
  cases op with
  | snapshot u stream files ts sid => exact Or.inr rfl
  | delete u sids =>
    simp only [stepL]
    rcases listArea_safe hF flt .snaps s with h | h
    · left; simp [deleteL, h]
    · right; exact deleteL_view_self h
  | clean u =>
    simp only [stepL]
    rcases listArea_safe hF flt .snaps s with h | h
    · left; simp [cleanL, h]
    · rcases listArea_safe hF flt .chunks s with h2 | h2
      · left; simp [cleanL, h, h2]
      · right; exact cleanL_view_self h h2

theorem stepL_notTop {F : ListFlags} (enc : Bool) (flt : Option ScanFault) (hk : ∀ f, flt = some f → f.kind.isTop = false)
    (s : Store) (op : Op) :
    stepL F enc flt s op = stepL ⟨F.walkOpen, F.walkIter, F.repo, false⟩ enc flt s op := by
  cases op with
  | snapshot u stream files ts sid => rfl
  | delete u sids => simp only [stepL, deleteL, listArea_notTop (F := F) flt hk]
  | clean u => simp only [stepL, cleanL, listArea_notTop (F := F) flt hk]

theorem stepL_safe_consistent {F : ListFlags} (hF : F.safe = true) {enc : Bool} (flt : Option ScanFault) {s : Store} {op : Op}
    (h : Consistent enc s) (hop : OpOk enc op) : Consistent enc (stepL F enc flt s op) := by
  rcases stepL_safe hF enc flt s op with e | e <;> rw [e]
  · exact h
  · exact step_consistent h hop

/-! ## an emptied snapshot listing: `delete_snapshots` finds nothing and refuses (or has nothing to do) -/

theorem loadCandidates_hide_all (enc : Bool) (u : User) (re : Nat → Bool) (s : Store) :
    loadCandidates enc u re (hide .snaps (fun _ => true) s) = [] := by
  unfold loadCandidates hide
  rw [filterMap_eq_nil_iff]
  intro e he
  rw [mem_filter] at he
  obtain ⟨n, o⟩ := e
  cases n <;> simp_all [areaOf]

theorem deletePlan_hide_all (enc : Bool) (u : User) (sids : List Nat) (s : Store) :
    (∃ e, deletePlan enc u sids (hide .snaps (fun _ => true) s) = .error e) ∨
      deletePlan enc u sids (hide .snaps (fun _ => true) s) = .ok ⟨[], []⟩ := by
  unfold deletePlan loadSnapshots
  rw [loadCandidates_hide_all]
  simp only [sequenceE]
  cases sids with
  | nil => right; simp
  | cons a t => left; simp

/-- a fault of a TOP directory while `delete_snapshots` runs: for ANY flags the command does nothing or what it does without the fault -/
theorem delete_top_fault (F : ListFlags) (enc : Bool) (u : User) (sids : List Nat) (fa : Area) (s : Store) :
    stepL F enc (some ⟨fa, .top⟩) s (.delete u sids) = s ∨
      stepL F enc (some ⟨fa, .top⟩) s (.delete u sids) = step enc s (.delete u sids) := by
  simp only [stepL]
  by_cases hne : (fa != Area.snaps) = true
  · right
    exact deleteL_view_self (by simp only [listArea]; rw [if_pos hne])
  · left
    by_cases hsw : (F.topSwallow || !F.repo) = true
    · have hl : listArea F (some ⟨fa, .top⟩) .snaps s = .view (hide .snaps (fun _ => true) s) := by
        simp only [listArea]; rw [if_neg hne, if_pos hsw]
      simp only [deleteL, hl]
      rcases deletePlan_hide_all enc u sids s with ⟨e, he⟩ | he
      · rw [he]
      · rw [he]; rfl
    · have hl : listArea F (some ⟨fa, .top⟩) .snaps s = .error := by
        simp only [listArea]; rw [if_neg hne, if_neg hsw]
      simp only [deleteL, hl]

end Replicat.Repo
