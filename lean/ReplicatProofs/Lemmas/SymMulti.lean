import ReplicatProofs.Lemmas.SymBasic
import ReplicatModel.SymMulti
/-! Helper lemmas for the commands that select among several snapshots (`ReplicatModel/SymMulti.lean`, C04). -/
namespace Replicat.Sym
open Term (pub sec nonce key nil pair mac kdf enc)

theorem loadSnapshotL_sound (skip : Term → Bool) (p : Props) (tag name obj : Term) :
    loadSnapshotL true skip p tag name obj = loadSnapshot p tag name obj := by
  simp [loadSnapshotL]

/-- a listed object under its OWN tag never leaves `loadSnapshot` as "nothing" -/
theorem loadSnapshot_own_ne_none (p : Props) (name obj : Term) :
    loadSnapshot p (snapshotTag p name) name obj ≠ .ok none := by
  intro h
  unfold loadSnapshot at h
  have hc : (Gen.snapTagChecked && p.encrypted && decide (snapshotTag p name ≠ snapshotTag p name)) = false := by simp
  rw [hc] at h
  simp only [Bool.false_eq_true, if_false] at h
  split at h
  · cases h
  · split at h <;> cases h

/-- `ok none` is decided by tag and name alone (before any download) -/
theorem loadSnapshot_none_indep {p : Props} {tag name obj : Term} (h : loadSnapshot p tag name obj = .ok none) (obj' : Term) :
    loadSnapshot p tag name obj' = .ok none := by
  unfold loadSnapshot at h
  split at h
  · rename_i hc
    unfold loadSnapshot
    rw [if_pos hc]
  · split at h
    · cases h
    · split at h <;> cases h

/-- whatever the loader returns for the object it finds is what it returns for the object that was stored under that name -/
theorem loadSnapshot_ok_transfer {p : Props} {tag name obj' : Term} {r : Option (List Term × Option Data)}
    (h : loadSnapshot p tag name obj' = .ok r) (obj : Term) (hobj : Term.hash obj = name) :
    loadSnapshot p tag name obj = .ok r := by
  cases r with
  | none => exact loadSnapshot_none_indep h obj
  | some r' =>
    obtain ⟨hh, _⟩ := loadSnapshot_some h
    have : obj' = obj := Term.hash.inj (hh.trans hobj.symm)
    subst this
    exact h

/-- a damaged object under its own tag and name is an error -/
theorem loadSnapshot_own_damaged (p : Props) (stored0 obj : Term) (hne : obj ≠ stored0) :
    ∃ e, loadSnapshot p (snapshotTag p (snapshotName stored0)) (snapshotName stored0) obj = .error e := by
  cases h : loadSnapshot p (snapshotTag p (snapshotName stored0)) (snapshotName stored0) obj with
  | error e => exact ⟨e, rfl⟩
  | ok r =>
    cases r with
    | none => exact absurd h (loadSnapshot_own_ne_none p _ obj)
    | some r' =>
      obtain ⟨hh, _⟩ := loadSnapshot_some h
      exact absurd (Term.hash.inj hh) hne

theorem loadSel_damaged_error (skip : Term → Bool) (p : Props) (filter : Option Term) (stored0 obj : Term)
    (entries : List (Term × Term × Term))
    (hm : (snapshotTag p (snapshotName stored0), snapshotName stored0, obj) ∈ entries)
    (hs : selectedBy filter (snapshotName stored0) = true) (hne : obj ≠ stored0) :
    ∃ e, loadSel true skip p filter entries = .error e := by
  induction entries with
  | nil => cases hm
  | cons x rest ih =>
    obtain ⟨tag, name, o⟩ := x
    unfold loadSel
    rcases List.mem_cons.mp hm with heq | hrest
    · injection heq with h1 h2
      injection h2 with h2 h3
      subst h1; subst h2; subst h3
      simp only [hs, Bool.not_true, Bool.false_eq_true, if_false, loadSnapshotL_sound]
      obtain ⟨e, he⟩ := loadSnapshot_own_damaged p stored0 obj hne
      rw [he]
      exact ⟨e, rfl⟩
    · obtain ⟨e, he⟩ := ih hrest
      split
      · exact ⟨e, he⟩
      · split
        · rename_i e' _
          exact ⟨e', rfl⟩
        · rw [he]
          exact ⟨e, rfl⟩

theorem loadSel_ok_transfer (skip : Term → Bool) (p : Props) (filter : Option Term) :
    ∀ (E E' : List (Term × Term × Term)) (bs : List Body), sameListing E E' → honestEntries E →
      loadSel true skip p filter E' = .ok bs → loadSel true skip p filter E = .ok bs := by
  intro E
  induction E with
  | nil =>
    intro E' bs hsame _ h
    cases E' with
    | nil => exact h
    | cons _ _ => cases hsame
  | cons x rest ih =>
    intro E' bs hsame hh h
    cases E' with
    | nil => cases hsame
    | cons x' rest' =>
      obtain ⟨tag, name, obj⟩ := x
      obtain ⟨tag', name', obj'⟩ := x'
      obtain ⟨h1, h2, hrest⟩ := hsame
      simp only at h1 h2
      subst h1; subst h2
      have hhon : Term.hash obj = name := hh (tag, name, obj) (by simp)
      have hh' : honestEntries rest := fun e he => hh e (List.mem_cons_of_mem _ he)
      unfold loadSel at h ⊢
      split at h
      · rename_i hsel
        rw [if_pos hsel]
        exact ih rest' bs hrest hh' h
      · rename_i hsel
        rw [if_neg hsel]
        simp only [loadSnapshotL_sound] at h ⊢
        split at h
        · cases h
        · rename_i r hr
          rw [loadSnapshot_ok_transfer hr obj hhon]
          split at h
          · cases h
          · rename_i bs' hbs
            rw [ih rest' bs' hrest hh' hbs]
            exact h

/-- the snapshot entry a store element contributes -/
def entryOf (l o : Term) : Option (Term × Term × Term) :=
  match l with
  | pair pre (pair tag name) => if pre = prefixSnap then some (tag, name, o) else none
  | _ => none

theorem snapEntries_cons (l o : Term) (as : Store) :
    snapEntries ((l, o) :: as) = (match entryOf l o with | none => snapEntries as | some b => b :: snapEntries as) := by
  unfold snapEntries entryOf
  simp only [List.filterMap_cons]
  match l with
  | pair pre (pair tag name) => by_cases hp : pre = prefixSnap <;> simp [hp]
  | pub _ | sec _ | nonce _ | key _ | nil | mac _ _ | kdf _ _ _ | enc _ _ _ | Term.hash _ => rfl
  | pair _ (pub _) | pair _ (sec _) | pair _ (nonce _) | pair _ (key _) | pair _ nil | pair _ (mac _ _) | pair _ (kdf _ _ _)
  | pair _ (enc _ _ _) | pair _ (Term.hash _) => rfl

theorem entryOf_none {l o : Term} (h : entryOf l o = none) (o' : Term) : entryOf l o' = none := by
  unfold entryOf at h ⊢
  split
  · rename_i pre tag name
    simp only at h
    split at h
    · cases h
    · rename_i hp
      rw [if_neg hp]
  · rfl

theorem entryOf_some {l o : Term} {b : Term × Term × Term} (h : entryOf l o = some b) (o' : Term) :
    entryOf l o' = some (b.1, b.2.1, o') := by
  unfold entryOf at h ⊢
  split
  · rename_i pre tag name
    simp only at h
    split at h
    · rename_i hp
      cases h
      rw [if_pos hp]
    · cases h
  · rename_i hx
    split at h
    · rename_i pre tag name
      exact absurd rfl (hx pre tag name)
    · cases h

/-- the listing part of a store depends on the locations only -/
theorem sameListing_of_locs : ∀ (A A' : Store), A.map (·.1) = A'.map (·.1) → sameListing (snapEntries A) (snapEntries A') := by
  intro A
  induction A with
  | nil =>
    intro A' h
    cases A' with
    | nil => simp [snapEntries, sameListing]
    | cons _ _ => simp at h
  | cons a as ih =>
    intro A' h
    cases A' with
    | nil => simp at h
    | cons a' as' =>
      simp only [List.map_cons, List.cons.injEq] at h
      obtain ⟨h1, h2⟩ := h
      have ihh := ih as' h2
      obtain ⟨l, o⟩ := a
      obtain ⟨l', o'⟩ := a'
      simp only at h1
      subst h1
      rw [snapEntries_cons, snapEntries_cons]
      cases hE : entryOf l o with
      | none => rw [entryOf_none hE o']; exact ihh
      | some b =>
        rw [entryOf_some hE o']
        simp only [sameListing]
        exact ⟨trivial, trivial, ihh⟩

/-! ## two successful restores of the same selection write the same parts -/
theorem restoreParts_det (f1 f2 : Term → Except Err Term) (h1 : ∀ d m, f1 d = .ok m → digest m = d)
    (h2 : ∀ d m, f2 d = .ok m → digest m = d) (table : List Term) (refs : List Ref) (o1 o2 : List Part)
    (e1 : restoreParts f1 table refs = .ok o1) (e2 : restoreParts f2 table refs = .ok o2) : o1 = o2 := by
  induction refs generalizing o1 o2 with
  | nil => simp [restoreParts] at e1 e2; subst e1; subst e2; rfl
  | cons r rs ih =>
    unfold restoreParts at e1 e2
    split at e1
    · cases e1
    · rename_i d hd
      rw [hd] at e2
      simp only at e2
      split at e1
      · cases e1
      · rename_i m1 hm1
        split at e1
        · cases e1
        · rename_i p1 hp1
          cases e1
          split at e2
          · cases e2
          · rename_i m2 hm2
            split at e2
            · cases e2
            · rename_i p2 hp2
              cases e2
              have : m1 = m2 := digest_inj ((h1 d m1 hm1).trans (h2 d m2 hm2).symm)
              rw [this, ih p1 p2 hp1 hp2]

theorem restoreFiles_det (f1 f2 : Term → Except Err Term) (h1 : ∀ d m, f1 d = .ok m → digest m = d)
    (h2 : ∀ d m, f2 d = .ok m → digest m = d) (l : List (List Term × FileRec)) (o1 o2 : List (Term × List Part))
    (e1 : restoreFiles f1 l = .ok o1) (e2 : restoreFiles f2 l = .ok o2) : o1 = o2 := by
  induction l generalizing o1 o2 with
  | nil => simp [restoreFiles] at e1 e2; subst e1; subst e2; rfl
  | cons x rest ih =>
    obtain ⟨table, f⟩ := x
    unfold restoreFiles at e1 e2
    split at e1
    · cases e1
    · rename_i p1 hp1
      split at e1
      · cases e1
      · rename_i r1 hr1
        cases e1
        split at e2
        · cases e2
        · rename_i p2 hp2
          split at e2
          · cases e2
          · rename_i r2 hr2
            cases e2
            rw [restoreParts_det f1 f2 h1 h2 table _ p1 p2 hp1 hp2, ih r1 r2 hr1 hr2]

/-! ## the one-name restore of `Sym.lean` is the filtered command -/
theorem selectedBy_some (t name : Term) : selectedBy (some t) name = decide (name = t) := rfl

theorem readable_loadSel_name (skip : Term → Bool) (p : Props) (target : Term) (entries : List (Term × Term × Term)) :
    (match loadSel true skip p (some target) entries with
      | .error e => (Except.error e : Except Err (List (List Term × Data)))
      | .ok bs => .ok (readable bs)) = loadAll p target entries := by
  induction entries with
  | nil => simp [loadSel, loadAll, readable]
  | cons x rest ih =>
    obtain ⟨tag, name, obj⟩ := x
    unfold loadSel loadAll
    by_cases hn : name = target
    · simp only [selectedBy_some, hn, decide_true, Bool.not_true, Bool.false_eq_true, if_false, ne_eq, not_true_eq_false,
        loadSnapshotL_sound]
      rw [← ih]
      cases loadSnapshot p tag target obj with
      | error e => rfl
      | ok r =>
        simp only
        cases loadSel true skip p (some target) rest with
        | error e => rfl
        | ok bs =>
          simp only
          match r with
          | none => rfl
          | some (table, none) => rfl
          | some (table, some data) => rfl
    · simp only [selectedBy_some, hn, decide_false, Bool.not_false, if_true, ne_eq, not_false_eq_true]
      exact ih

end Replicat.Sym
