import ReplicatProofs.Lemmas.Store
import ReplicatModel.B2Location
/-! Helper lemmas for C13, the B2 repository location (`B2Location.lean`): bucket look-up and slot fillers. -/
namespace Replicat.Store
open Replicat

/-- matching against both fields = the connection string is the id or the name -/
theorem Bucket.isNamedBy_both (ident : List Char) (b : Bucket) :
    b.isNamedBy ["bucketId", "bucketName"] ident = true ↔ (b.id = ident ∨ b.name = ident) := by
  simp [Bucket.isNamedBy, Bucket.field]

/-- `find?` returns the only element that satisfies the predicate -/
theorem find?_of_unique {α : Type} (p : α → Bool) (l : List α) (a : α) (ha : a ∈ l) (hp : p a = true)
    (hu : ∀ b ∈ l, p b = true → b = a) : l.find? p = some a := by
  induction l with
  | nil => cases ha
  | cons x xs ih =>
    by_cases hx : p x = true
    · have hxa : x = a := hu x (List.mem_cons_self ..) hx
      subst hxa
      simp [List.find?, hp]
    · have hne : a ≠ x := fun h => hx (h ▸ hp)
      have hmem : a ∈ xs := by
        rcases List.mem_cons.mp ha with h | h
        · exact absurd h hne
        · exact h
      have hx' : p x = false := by simpa using hx
      simp only [List.find?, hx']
      exact ih hmem (fun b hb => hu b (List.mem_cons_of_mem _ hb))

/-- the location names our bucket (by id or by name) and no other bucket of the account -/
structure LocOk (l : B2Loc) : Prop where
  names : l.ident = l.own.id ∨ l.ident = l.own.name
  listed : l.own ∈ l.buckets
  unambiguous : ∀ b ∈ l.buckets, b ≠ l.own → b.id ≠ l.ident ∧ b.name ≠ l.ident

/-- with the match rule "id or name" in both places, a good location resolves to our bucket -/
theorem B2Loc.resolve_of_ok (l : B2Loc) (h : LocOk l)
    (hl : Gen.b2ListMatchFields = ["bucketId", "bucketName"]) (ha : Gen.b2AllowedMatchFields = ["bucketId", "bucketName"]) :
    l.resolve = some l.own := by
  have hown : l.own.isNamedBy ["bucketId", "bucketName"] l.ident = true :=
    (Bucket.isNamedBy_both _ _).mpr (h.names.elim (fun e => Or.inl e.symm) (fun e => Or.inr e.symm))
  unfold B2Loc.resolve
  by_cases hr : l.restricted = true
  · simp only [hr, if_true, ha, hown]
  · simp only [hr, Bool.false_eq_true, if_false, hl]
    apply find?_of_unique _ _ _ h.listed hown
    intro b hb hm
    apply Classical.byContradiction
    intro hne
    obtain ⟨h1, h2⟩ := h.unambiguous b hb hne
    rcases (Bucket.isNamedBy_both _ _).mp hm with e | e
    · exact h1 e
    · exact h2 e

/-- a located step whose look-up yields our bucket and whose slots are filled with the record's name / id is the plain step -/
theorem B2.stepAtWith_resolved (l : B2Loc) (hres : l.resolve = some l.own) (ps : Nat) (s : B2) (op : Op) :
    B2.stepAtWith "resolved.name" "resolved.id" l ps s op = B2.step ps s op := by
  unfold B2.stepAtWith
  simp only [hres]
  cases hb : op.byNameUrl <;> simp [bucketRef]

/-- a history of located steps -/
theorem runHistory_congr {σ : Type} (f g : σ → Op → σ × Ret) (h : ∀ s op, f s op = g s op) (s : σ) (ops : List Op) :
    runHistory f s ops = runHistory g s ops := by
  have : f = g := funext fun s => funext fun op => h s op
  rw [this]

end Replicat.Store
