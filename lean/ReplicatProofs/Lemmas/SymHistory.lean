import ReplicatProofs.Lemmas.SymBasic
/-! The history invariant behind C05: every emitted (name, content) pair is `Public` and has a keyed name, the config entry is
the caller's settings term, and every AEAD encryption used a nonce drawn from the fresh supply. -/
namespace Replicat.Sym
open Term (pub sec nonce key nil pair mac kdf enc)

/-- well-formed inputs: algorithm settings are public constants, a password is a secret -/
def InitArgs.wf (a : InitArgs) : Prop :=
  Public a.cfg = true ∧ Public a.kdfcfg = true ∧ Public a.shcfg = true ∧ Public a.pw = false

def Op.wf : Op → Prop
  | .addKey _ _ kdfcfg shcfg pw => Public kdfcfg = true ∧ Public shcfg = true ∧ Public pw = false
  | _ => True

def KeysOK (p : Props) : Prop :=
  p.encrypted = true ∧ Public p.userKey = false ∧ Public p.sh.sharedKey = false ∧ Public p.sh.macKey = false

def UserOK (u : User) : Prop :=
  Public u.kdfcfg = true ∧ Public u.pw = false ∧ Public u.salt = true ∧ Public u.sh.cfg = true ∧
  Public u.sh.sharedKey = false ∧ Public u.sh.macKey = false

def EntryOK (cfg : Term) (e : Term × Term) : Prop :=
  Public e.1 = true ∧ Public e.2 = true ∧ nameKeyed e.1 = true ∧ (e.1 = configLoc → e.2 = cfg)

structure Inv (cfg : Term) (s : St) : Prop where
  enc : s.encrypted = true
  users : ∀ u ∈ s.users, UserOK u
  log : ∀ e ∈ s.log, EntryOK cfg e
  usesLt : ∀ e ∈ s.uses, ∃ m, m < s.next ∧ e.2 = nonce m
  usesNodup : (s.uses.map (·.2)).Nodup

theorem keysOK_of_user {u : User} (h : UserOK u) : KeysOK (u.props true) := by
  obtain ⟨_, hpw, _, _, hsk, hmk⟩ := h
  refine ⟨rfl, ?_, hsk, hmk⟩
  simp [User.props, userKeyOf, Public, hpw]

theorem public_subKey {p : Props} (h : KeysOK p) (c : Term) : Public (subKey p c) = false := by
  simp [subKey, Public, h.2.2.1]

theorem entry_chunk (cfg : Term) {p : Props} (h : KeysOK p) (k : Nat) (c : Term) :
    EntryOK cfg (chunkLoc p (digest c), chunkObject p (nonce k) c) := by
  have hn : Gen.chunkNameMacDepth = 0 + 1 := rfl
  have ht : Gen.chunkTagMacDepth = 1 + 1 := rfl
  obtain ⟨he, _, _, hmk⟩ := h
  refine ⟨?_, ?_, ?_, ?_⟩
  · simp only [chunkLoc, chunkName, chunkTag, he, if_true, hn, ht, Public, prefixChunk, public_macN_succ hmk, Bool.and_self]
  · simp only [chunkObject, he, if_true, Public, public_subKey ⟨he, ‹_›, ‹_›, hmk⟩, Bool.not_false, Bool.true_or, Bool.and_self]
  · simp [chunkLoc, chunkName, chunkTag, he, hn, ht, nameKeyed, isMac_macN_succ, prefixChunk, prefixKey]
  · intro hc
    simp [chunkLoc, configLoc] at hc

theorem entry_snap (cfg : Term) {p : Props} (h : KeysOK p) (a b : Nat) (t d : Term) :
    EntryOK cfg (snapLoc p (snapshotName (snapshotStored p (nonce a) (nonce b) t d)), snapshotStored p (nonce a) (nonce b) t d) := by
  have ht : Gen.snapTagMacDepth = 0 + 1 := rfl
  have hk := h
  obtain ⟨he, huk, _, hmk⟩ := h
  have hst : Public (snapshotStored p (nonce a) (nonce b) t d) = true := by
    simp only [snapshotStored, he, if_true, Public, public_subKey hk, huk, Bool.not_false, Bool.true_or, Bool.and_self]
  refine ⟨?_, hst, ?_, ?_⟩
  · simp only [snapLoc, snapshotTag, snapshotName, he, if_true, ht, Public, prefixSnap, public_macN_succ hmk, hst, Bool.and_self]
  · simp [snapLoc, snapshotTag, snapshotName, he, ht, nameKeyed, isMac_macN_succ, isHash, prefixSnap, prefixKey, prefixChunk]
  · intro hc
    simp [snapLoc, configLoc] at hc

theorem entry_key (cfg : Term) (i : Nat) (kdfcfg pw : Term) (sh : Shared) (k n : Nat)
    (h1 : Public kdfcfg = true) (h2 : Public pw = false) :
    EntryOK cfg (keyLoc i, keyFile kdfcfg (nonce k) pw sh (nonce n)) := by
  refine ⟨by simp [keyLoc, Public, prefixKey], ?_, by simp [keyLoc, nameKeyed], ?_⟩
  · simp [keyFile, userKeyOf, Public, h1, h2]
  · intro hc
    simp [keyLoc, configLoc] at hc

/-- appending one encryption that uses the next fresh nonce -/
theorem uses_append (uses : List (Term × Term)) (next : Nat) (k : Term)
    (hlt : ∀ e ∈ uses, ∃ m, m < next ∧ e.2 = nonce m) (hnd : (uses.map (·.2)).Nodup) :
    (∀ e ∈ uses ++ [(k, nonce next)], ∃ m, m < next + 1 ∧ e.2 = nonce m) ∧
    ((uses ++ [(k, nonce next)]).map (·.2)).Nodup := by
  constructor
  · intro e he
    rcases List.mem_append.mp he with he | he
    · obtain ⟨m, hm, hem⟩ := hlt e he
      exact ⟨m, by omega, hem⟩
    · simp only [List.mem_singleton] at he
      subst he
      exact ⟨next, by omega, rfl⟩
  · rw [List.map_append, List.nodup_append]
    refine ⟨hnd, by simp, ?_⟩
    intro x hx y hy
    simp only [List.map_cons, List.map_nil, List.mem_singleton] at hy
    subst hy
    obtain ⟨e, he, rfl⟩ := List.mem_map.mp hx
    obtain ⟨m, hm, hem⟩ := hlt e he
    rw [hem]
    intro heq
    injection heq with heq
    omega

theorem inv_putChunk (cfg : Term) {p : Props} (hp : KeysOK p) (s : St) (c : Term) (h : Inv cfg s) :
    Inv cfg (putChunk p s c) := by
  have he : p.encrypted = true := hp.1
  obtain ⟨h1, h2, h3, h4, h5⟩ := h
  obtain ⟨u1, u2⟩ := uses_append s.uses s.next (subKey p (if Gen.chunkWriteKeyFromDigest then digest c else nil)) h4 h5
  unfold putChunk
  simp only [he, if_true]
  split
  · exact ⟨h1, h2, h3, u1, u2⟩
  · refine ⟨h1, h2, ?_, u1, u2⟩
    intro e hmem
    simp only [List.mem_append, List.mem_singleton] at hmem
    rcases hmem with hmem | hmem
    · exact h3 e hmem
    · subst hmem
      exact entry_chunk cfg hp s.next c

theorem inv_putChunks (cfg : Term) {p : Props} (hp : KeysOK p) (cs : List Term) (s : St) (h : Inv cfg s) :
    Inv cfg (cs.foldl (putChunk p) s) := by
  induction cs generalizing s with
  | nil => exact h
  | cons c cs ih => exact ih _ (inv_putChunk cfg hp s c h)

theorem inv_step (cfg : Term) (s : St) (op : Op) (hw : op.wf) (h : Inv cfg s) : Inv cfg (step s op) := by
  cases op with
  | addKey base shared kdfcfg shcfg pw =>
    obtain ⟨w1, w2, w3⟩ := hw
    obtain ⟨h1, h2, h3, h4, h5⟩ := h
    simp only [step, h1, Bool.not_true, Bool.false_eq_true, if_false]
    split
    · exact ⟨h1, h2, h3, h4, h5⟩
    · rename_i b hb
      have hbm : b ∈ s.users := List.mem_of_getElem? hb
      have hbo := h2 b hbm
      cases shared with
      | true =>
        simp only [if_true]
        obtain ⟨u1, u2⟩ := uses_append s.uses s.next (userKeyOf pw (nonce s.next)) h4 h5
        refine ⟨rfl, ?_, ?_, ?_, ?_⟩
        · intro u hu
          simp only [List.mem_append, List.mem_singleton] at hu
          rcases hu with hu | hu
          · exact h2 u hu
          · subst hu
            exact ⟨w1, w3, rfl, hbo.2.2.2.1, hbo.2.2.2.2.1, hbo.2.2.2.2.2⟩
        · intro e hmem
          simp only [List.mem_append, List.mem_singleton] at hmem
          rcases hmem with hmem | hmem
          · exact h3 e hmem
          · subst hmem
            exact entry_key cfg _ kdfcfg pw _ _ _ w1 w3
        · intro e hmem
          rcases List.mem_append.mp hmem with hmem | hmem
          · obtain ⟨m, hm, hem⟩ := h4 e hmem
            exact ⟨m, by simp only; omega, hem⟩
          · simp only [List.mem_singleton] at hmem
            subst hmem
            exact ⟨s.next + 1, by simp only; omega, rfl⟩
        · have hl : ∀ e ∈ s.uses, ∃ m, m < s.next + 1 ∧ e.2 = nonce m := by
            intro e he
            obtain ⟨m, hm, hem⟩ := h4 e he
            exact ⟨m, by omega, hem⟩
          exact (uses_append s.uses (s.next + 1) (userKeyOf pw (nonce s.next)) hl h5).2
      | false =>
        simp only [Bool.false_eq_true, if_false]
        have hl : ∀ e ∈ s.uses, ∃ m, m < s.next + 4 + 1 ∧ e.2 = nonce m := by
          intro e he
          obtain ⟨m, hm, hem⟩ := h4 e he
          exact ⟨m, by omega, hem⟩
        obtain ⟨u1, u2⟩ := uses_append s.uses (s.next + 4 + 1) (userKeyOf pw (nonce (s.next + 4))) hl h5
        refine ⟨rfl, ?_, ?_, ?_, u2⟩
        · intro u hu
          simp only [List.mem_append, List.mem_singleton] at hu
          rcases hu with hu | hu
          · exact h2 u hu
          · subst hu
            exact ⟨w1, w3, rfl, w2, rfl, rfl⟩
        · intro e hmem
          simp only [List.mem_append, List.mem_singleton] at hmem
          rcases hmem with hmem | hmem
          · exact h3 e hmem
          · subst hmem
            exact entry_key cfg _ kdfcfg pw _ _ _ w1 w3
        · intro e hmem
          obtain ⟨m, hm, hem⟩ := u1 e hmem
          exact ⟨m, by simp only; omega, hem⟩
  | snapshot user chunks data =>
    simp only [step]
    split
    · exact h
    · rename_i u hu
      have hum : u ∈ s.users := List.mem_of_getElem? hu
      have huo := h.users u hum
      have he := h.enc
      rw [he]
      have hk := keysOK_of_user huo
      have hi := inv_putChunks cfg hk chunks s h
      obtain ⟨h1, h2, h3, h4, h5⟩ := hi
      simp only [if_true]
      obtain ⟨u1, u2⟩ := uses_append _ _ (u.props true).userKey h4 h5
      obtain ⟨v1, v2⟩ := uses_append _ _
        (subKey (u.props true) (Term.hash (enc (u.props true).userKey (nonce (chunks.foldl (putChunk (u.props true)) s).next) (encData data)))) u1 u2
      refine ⟨h1, h2, ?_, ?_, ?_⟩
      · intro e hmem
        simp only [List.mem_append, List.mem_singleton] at hmem
        rcases hmem with hmem | hmem
        · exact h3 e hmem
        · subst hmem
          exact entry_snap cfg hk _ _ _ _
      · simpa [List.append_assoc] using v1
      · simpa [List.append_assoc] using v2
  | remove locs =>
    obtain ⟨h1, h2, h3, h4, h5⟩ := h
    simp only [step]
    exact ⟨h1, h2, h3, h4, h5⟩

theorem inv_init (a : InitArgs) (hw : a.wf) (he : a.encrypted = true) : Inv a.cfg (initSt a) := by
  obtain ⟨w1, w2, w3, w4⟩ := hw
  unfold initSt
  simp only [he, if_true]
  refine ⟨rfl, ?_, ?_, ?_, ?_⟩
  · intro u hu
    simp only [List.mem_singleton] at hu
    subst hu
    exact ⟨w2, w4, rfl, w3, rfl, rfl⟩
  · intro e hmem
    simp only [List.mem_cons, List.not_mem_nil, or_false] at hmem
    rcases hmem with hmem | hmem
    · subst hmem
      exact entry_key a.cfg 0 a.kdfcfg a.pw _ 4 5 w2 w4
    · subst hmem
      exact ⟨rfl, w1, rfl, fun _ => rfl⟩
  · intro e hmem
    simp only [List.mem_singleton] at hmem
    subst hmem
    exact ⟨5, by simp, rfl⟩
  · simp

theorem inv_run (a : InitArgs) (hw : a.wf) (he : a.encrypted = true) (ops : List Op) (hops : ∀ op ∈ ops, op.wf) :
    Inv a.cfg (run a ops) := by
  unfold run
  suffices H : ∀ (s : St), Inv a.cfg s → Inv a.cfg (ops.foldl step s) from H _ (inv_init a hw he)
  induction ops with
  | nil => intro s hs; exact hs
  | cons op ops ih =>
    intro s hs
    exact ih (fun o ho => hops o (List.mem_cons_of_mem _ ho)) _ (inv_step a.cfg s op (hops op (by simp)) hs)

end Replicat.Sym
