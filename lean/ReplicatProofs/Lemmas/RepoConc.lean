import ReplicatModel.RepoConc
import ReplicatProofs.Lemmas.RepoSafety
/-! The concurrent semantics of `ReplicatModel/RepoConc.lean` as a relation (`CStep` = what an accepted `cstep` did), induction
principles over accepted traces, and the basic invariant of overlapping snapshot commands (`ConcInv`): the store is consistent
and every chunk of every command's data is still to be observed, or held by a worker that saw it absent, or stored.
Used by C02 and C07. -/
namespace Replicat.Repo
open List

/-! ## list plumbing -/

theorem set_lookup {α : Type} {l : List α} {i j : Nat} {a x : α} (h : (l.set i a)[j]? = some x) :
    (j = i ∧ x = a) ∨ (j ≠ i ∧ l[j]? = some x) := by
  by_cases hij : i = j
  · subst hij
    rw [getElem?_set_self'] at h
    cases hl : l[i]? with
    | none => simp [hl] at h
    | some y =>
      simp [hl] at h
      exact Or.inl ⟨rfl, h.symm⟩
  · rw [getElem?_set_ne hij] at h
    exact Or.inr ⟨fun e => hij e.symm, h⟩

theorem set_lookup_self {α : Type} {l : List α} {i : Nat} {a x : α} (h : l[i]? = some x) : (l.set i a)[i]? = some a := by
  rw [getElem?_set_self']
  simp [h]

theorem set_lookup_ne {α : Type} {l : List α} {i j : Nat} {a : α} (h : j ≠ i) : (l.set i a)[j]? = l[j]? :=
  getElem?_set_ne (fun e => h e.symm)

/-! ## the step relation -/

/-- what an accepted backend call did -/
inductive CStep (cmds : List SnapCmd) : CState → Ev → CState → Prop
  | exists {st : CState} {i : Nat} {c : Content} {r : Bool} {cmd : SnapCmd} {p : Prog} :
      cmds[i]? = some cmd → st.progs[i]? = some p → c ∈ window cmd p → r = (get st.store (.chunk cmd.u.fam c)).isSome →
      CStep cmds st (.exists i c r) ⟨st.store, st.progs.set i ⟨p.todo.erase c, if r then p.pending else p.pending ++ [c], p.done⟩⟩
  | upload {st : CState} {i : Nat} {c : Content} {cmd : SnapCmd} {p : Prog} :
      cmds[i]? = some cmd → st.progs[i]? = some p → c ∈ p.pending →
      CStep cmds st (.upload i (.chunk cmd.u.fam c) (.chunk cmd.u.fam c))
        ⟨put st.store (.chunk cmd.u.fam c) (.chunk cmd.u.fam c), st.progs.set i ⟨p.todo, p.pending.erase c, p.done⟩⟩
  | commit {st : CState} {i : Nat} {cmd : SnapCmd} {p : Prog} :
      cmds[i]? = some cmd → st.progs[i]? = some p → p.todo = [] → p.pending = [] → p.done = false →
      CStep cmds st (.commit i) ⟨put st.store cmd.name cmd.obj, st.progs.set i ⟨[], [], true⟩⟩
  | read {st : CState} {q : Query} : CStep cmds st (.read q) st

theorem cstep_sound {cmds : List SnapCmd} {st st' : CState} {e : Ev} (h : cstep cmds st e = some st') : CStep cmds st e st' := by
  cases e with
  | «exists» i c r =>
    simp only [cstep] at h
    split at h
    · rename_i cmd p hc hp
      split at h
      · rename_i hcond
        simp only [Bool.and_eq_true, beq_iff_eq, contains_iff_mem] at hcond
        cases h
        exact CStep.exists hc hp hcond.1 hcond.2
      · cases h
    · cases h
  | upload i n o =>
    simp only [cstep] at h
    split at h
    · rename_i cmd p hc hp
      split at h
      · rename_i f c f' c'
        split at h
        · rename_i hcond
          simp only [Bool.and_eq_true, beq_iff_eq, contains_iff_mem] at hcond
          obtain ⟨⟨⟨rfl, rfl⟩, rfl⟩, hm⟩ := hcond
          cases h
          exact CStep.upload hc hp hm
        · cases h
      · cases h
    · cases h
  | commit i =>
    simp only [cstep] at h
    split at h
    · rename_i cmd p hc hp
      split at h
      · rename_i hcond
        simp only [Bool.and_eq_true, isEmpty_iff, Bool.not_eq_true'] at hcond
        cases h
        exact CStep.commit hc hp hcond.1.1 hcond.1.2 hcond.2
      · cases h
    · cases h
  | read q =>
    simp only [cstep] at h
    cases h
    exact CStep.read

theorem crun_nil (cmds : List SnapCmd) (st : CState) : crun cmds st [] = some st := rfl

theorem crun_cons {cmds : List SnapCmd} {st st' : CState} {e : Ev} {es : List Ev} (h : crun cmds st (e :: es) = some st') :
    ∃ st1, cstep cmds st e = some st1 ∧ crun cmds st1 es = some st' := by
  simp only [crun] at h
  split at h
  · rename_i st1 h1; exact ⟨st1, h1, h⟩
  · cases h

theorem crun_append {cmds : List SnapCmd} {st st' : CState} {a b : List Ev} (h : crun cmds st (a ++ b) = some st') :
    ∃ st1, crun cmds st a = some st1 ∧ crun cmds st1 b = some st' := by
  induction a generalizing st with
  | nil => exact ⟨st, rfl, h⟩
  | cons e es ih =>
    obtain ⟨s1, h1, h2⟩ := crun_cons (by simpa using h)
    obtain ⟨s2, h3, h4⟩ := ih h2
    exact ⟨s2, by simp only [crun, h1]; exact h3, h4⟩

theorem crun_append_of {cmds : List SnapCmd} {st st1 st' : CState} {a b : List Ev} (h1 : crun cmds st a = some st1)
    (h2 : crun cmds st1 b = some st') : crun cmds st (a ++ b) = some st' := by
  induction a generalizing st with
  | nil => cases h1; exact h2
  | cons e es ih =>
    obtain ⟨s1, h3, h4⟩ := crun_cons h1
    simp only [cons_append, crun, h3]
    exact ih h4

/-- induction over an accepted trace for a state invariant -/
theorem crun_invariant {cmds : List SnapCmd} (P : CState → Prop)
    (hstep : ∀ st e st', P st → CStep cmds st e st' → P st') :
    ∀ (tr : List Ev) (st st' : CState), P st → crun cmds st tr = some st' → P st' := by
  intro tr
  induction tr with
  | nil => intro st st' h0 h; cases h; exact h0
  | cons e es ih =>
    intro st st' h0 h
    obtain ⟨s1, h1, h2⟩ := crun_cons h
    exact ih s1 st' (hstep st e s1 h0 (cstep_sound h1)) h2

/-- induction over an accepted trace for an invariant that also speaks about the calls made so far -/
theorem crun_invariant_tr {cmds : List SnapCmd} (P : List Ev → CState → Prop)
    (hstep : ∀ d st e st', P d st → CStep cmds st e st' → P (d ++ [e]) st') :
    ∀ (tr d : List Ev) (st st' : CState), P d st → crun cmds st tr = some st' → P (d ++ tr) st' := by
  intro tr
  induction tr with
  | nil => intro d st st' h0 h; cases h; simpa using h0
  | cons e es ih =>
    intro d st st' h0 h
    obtain ⟨s1, h1, h2⟩ := crun_cons h
    have := ih (d ++ [e]) s1 st' (hstep d st e s1 h0 (cstep_sound h1)) h2
    simpa using this

/-! ## frame facts of one step -/

/-- a step only adds or rewrites objects: nothing disappears -/
theorem CStep.get_none {cmds : List SnapCmd} {st st' : CState} {e : Ev} (h : CStep cmds st e st') {n : Name}
    (hn : get st'.store n = none) : get st.store n = none := by
  cases h with
  | «exists» => exact hn
  | upload hc hp hm =>
    rename_i i c cmd p
    by_cases hne : n = .chunk cmd.u.fam c
    · subst hne; simp only [get_put_same] at hn; cases hn
    · simpa only [get_put_other _ _ _ _ hne] using hn
  | commit hc hp ht hpe hd =>
    rename_i i cmd p
    by_cases hne : n = cmd.name
    · subst hne; simp only [get_put_same] at hn; cases hn
    · simpa only [get_put_other _ _ _ _ hne] using hn
  | read => exact hn

/-- the progress record of a command after a step, in terms of the one before -/
theorem CStep.length_progs {cmds : List SnapCmd} {st st' : CState} {e : Ev} (h : CStep cmds st e st') :
    st'.progs.length = st.progs.length := by
  cases h <;> simp

/-! ## the basic invariant -/

/-- every chunk of the command's data is still to be observed, or held by a worker that saw it absent, or stored -/
def Covered (s : Store) (cmd : SnapCmd) (p : Prog) : Prop :=
  ∀ c ∈ cmd.stream, c ∈ p.todo ∨ c ∈ p.pending ∨ get s (.chunk cmd.u.fam c) = some (.chunk cmd.u.fam c)

def ConcInv (enc : Bool) (cmds : List SnapCmd) (st : CState) : Prop :=
  Consistent enc st.store ∧ ∀ (i : Nat) cmd p, cmds[i]? = some cmd → st.progs[i]? = some p → Covered st.store cmd p

theorem init_lookup {s : Store} {cmds : List SnapCmd} {i : Nat} {cmd : SnapCmd} {p : Prog}
    (hc : cmds[i]? = some cmd) (hp : (CState.init s cmds).progs[i]? = some p) : p = Prog.init cmd := by
  simp only [CState.init, getElem?_map, hc, Option.map_some] at hp
  cases hp; rfl

theorem concInv_init {enc : Bool} {s : Store} (cmds : List SnapCmd) (h : Consistent enc s) : ConcInv enc cmds (CState.init s cmds) := by
  refine ⟨h, ?_⟩
  intro i cmd p hc hp c hcs
  rw [init_lookup hc hp]
  exact Or.inl hcs

theorem covered_mono {s s' : Store} {cmd : SnapCmd} {p : Prog} (hle : ChunkLe s s') (h : Covered s cmd p) : Covered s' cmd p := by
  intro c hc
  rcases h c hc with h1 | h1 | h1
  · exact Or.inl h1
  · exact Or.inr (Or.inl h1)
  · exact Or.inr (Or.inr (hle _ _ h1))

theorem goodPut_cmd {enc : Bool} {cmd : SnapCmd} (hop : OpOk enc cmd.op) : GoodPut enc (.put cmd.name cmd.obj) := by
  obtain ⟨hu, hneeds, hpaths⟩ := hop
  refine ⟨rfl, rfl, ⟨?_, hpaths⟩, hu⟩
  intro fr hfr c hc
  exact (mem_dedupKeepFirstC cmd.stream c).mpr (hneeds fr hfr c hc)

theorem concInv_step {enc : Bool} {cmds : List SnapCmd} (hok : ∀ cmd ∈ cmds, OpOk enc cmd.op) {st st' : CState} {e : Ev}
    (hinv : ConcInv enc cmds st) (h : CStep cmds st e st') : ConcInv enc cmds st' := by
  obtain ⟨hcons, hcov⟩ := hinv
  cases h with
  | «exists» hc hp hw hr =>
    rename_i i c r cmd p
    refine ⟨hcons, ?_⟩
    intro j cmd' p' hc' hp'
    rcases set_lookup hp' with ⟨rfl, rfl⟩ | ⟨_, hold⟩
    · rw [hc] at hc'; cases hc'
      intro c' hc's
      by_cases hcc : c' = c
      · subst hcc
        cases r with
        | true =>
          right; right
          obtain ⟨o, ho⟩ := Option.isSome_iff_exists.mp hr.symm
          rw [ho, hcons.1.get_chunk ho]
        | false => right; left; simp
      · rcases hcov j cmd p hc hp c' hc's with h1 | h1 | h1
        · exact Or.inl ((mem_erase_of_ne hcc).mpr h1)
        · right; left
          cases r <;> simp [h1]
        · exact Or.inr (Or.inr h1)
    · exact hcov j cmd' p' hc' hold
  | upload hc hp hm =>
    rename_i i c cmd p
    have hg : GoodPut enc (.put (.chunk cmd.u.fam c) (.chunk cmd.u.fam c)) := ⟨rfl, rfl⟩
    have hle : ChunkLe st.store (put st.store (.chunk cmd.u.fam c) (.chunk cmd.u.fam c)) := chunkLe_applyMut st.store hg
    refine ⟨applyMut_consistent hcons hg (by intro f sid f' sid' b hm'; cases hm'), ?_⟩
    intro j cmd' p' hc' hp'
    rcases set_lookup hp' with ⟨rfl, rfl⟩ | ⟨_, hold⟩
    · rw [hc] at hc'; cases hc'
      intro c' hc's
      by_cases hcc : c' = c
      · subst hcc
        right; right
        simp only [get_put_same]
      · rcases hcov j cmd p hc hp c' hc's with h1 | h1 | h1
        · exact Or.inl h1
        · exact Or.inr (Or.inl ((mem_erase_of_ne hcc).mpr h1))
        · exact Or.inr (Or.inr (hle _ _ h1))
    · exact covered_mono hle (hcov j cmd' p' hc' hold)
  | commit hc hp ht hpe hd =>
    rename_i i cmd p
    have hmem : cmd ∈ cmds := mem_of_getElem? hc
    have hg : GoodPut enc (.put cmd.name cmd.obj) := goodPut_cmd (hok cmd hmem)
    have hle : ChunkLe st.store (put st.store cmd.name cmd.obj) := chunkLe_applyMut st.store hg
    have hsup : SnapSupported st.store (.put cmd.name cmd.obj) := by
      intro f sid f' sid' b hm c hcb
      cases hm
      have hcs : c ∈ cmd.stream := (mem_dedupKeepFirstC cmd.stream c).mp hcb
      rcases hcov i cmd p hc hp c hcs with h1 | h1 | h1
      · rw [ht] at h1; cases h1
      · rw [hpe] at h1; cases h1
      · exact h1
    refine ⟨applyMut_consistent hcons hg hsup, ?_⟩
    intro j cmd' p' hc' hp'
    rcases set_lookup hp' with ⟨rfl, rfl⟩ | ⟨_, hold⟩
    · rw [hc] at hc'; cases hc'
      intro c' hc's
      rcases hcov j cmd p hc hp c' hc's with h1 | h1 | h1
      · rw [ht] at h1; cases h1
      · rw [hpe] at h1; cases h1
      · exact Or.inr (Or.inr (hle _ _ h1))
    · exact covered_mono hle (hcov j cmd' p' hc' hold)
  | read => exact ⟨hcons, hcov⟩

theorem concInv_run {enc : Bool} {cmds : List SnapCmd} (hok : ∀ cmd ∈ cmds, OpOk enc cmd.op) {tr : List Ev} {st st' : CState}
    (hinv : ConcInv enc cmds st) (h : crun cmds st tr = some st') : ConcInv enc cmds st' :=
  crun_invariant (ConcInv enc cmds) (fun _ _ _ hi hs => concInv_step hok hi hs) tr st st' hinv h

/-- chunk objects only accumulate along a run -/
theorem chunkLe_step {enc : Bool} {cmds : List SnapCmd} (hok : ∀ cmd ∈ cmds, OpOk enc cmd.op) {st st' : CState} {e : Ev}
    (h : CStep cmds st e st') : ChunkLe st.store st'.store := by
  cases h with
  | «exists» => exact ChunkLe.refl _
  | upload hc hp hm => exact chunkLe_applyMut (enc := enc) _ (m := .put _ _) ⟨rfl, rfl⟩
  | commit hc hp ht hpe hd => exact chunkLe_applyMut (enc := enc) _ (goodPut_cmd (hok _ (mem_of_getElem? hc)))
  | read => exact ChunkLe.refl _

theorem chunkLe_run {enc : Bool} {cmds : List SnapCmd} (hok : ∀ cmd ∈ cmds, OpOk enc cmd.op) {tr : List Ev} {st st' : CState}
    (h : crun cmds st tr = some st') : ChunkLe st.store st'.store :=
  crun_invariant (fun x => ChunkLe st.store x.store) (fun _ _ _ hi hs => hi.trans (chunkLe_step hok hs)) tr st st' (ChunkLe.refl _) h

end Replicat.Repo
