import ReplicatProofs.Lemmas.RepoConc
import ReplicatProofs.Lemmas.RepoSelect
/-! Read-only commands next to overlapping snapshot commands: a listed snapshot object stays what it is, a restore in a
consistent store never misses a chunk, and a restore whose chunk downloads happen later (while snapshots go on) returns what the
atomic restore at its listing point returns.  Used by C02. -/
namespace Replicat.Repo
open List

/-- a snapshot object that is listed is not changed by a step (a command that writes the same name writes the same bytes:
the name is the digest of the stored bytes) -/
theorem snap_kept_step {cmds : List SnapCmd} {st st' : CState} {e : Ev} (h : CStep cmds st e st') {f : Fam} {sid : Nat} {b : Body}
    (hname : ∀ cmd ∈ cmds, cmd.name = .snap f sid → cmd.obj = .snap f sid b)
    (hg : get st.store (.snap f sid) = some (.snap f sid b)) : get st'.store (.snap f sid) = some (.snap f sid b) := by
  cases h with
  | «exists» hc hp hw hr => exact hg
  | upload hc hp hm => rw [get_put_other _ _ _ _ (by intro h; cases h)]; exact hg
  | commit hc hp ht hpe hd =>
    rename_i i cmd p
    by_cases hn : Name.snap f sid = cmd.name
    · rw [hn, get_put_same, hname cmd (mem_of_getElem? hc) hn.symm]
    · rw [get_put_other _ _ _ _ hn]; exact hg
  | read => exact hg

theorem snap_kept_run {cmds : List SnapCmd} {tr : List Ev} {st st' : CState} (h : crun cmds st tr = some st') {f : Fam} {sid : Nat} {b : Body}
    (hname : ∀ cmd ∈ cmds, cmd.name = .snap f sid → cmd.obj = .snap f sid b)
    (hg : get st.store (.snap f sid) = some (.snap f sid b)) : get st'.store (.snap f sid) = some (.snap f sid b) :=
  crun_invariant (fun x => get x.store (.snap f sid) = some (.snap f sid b)) (fun _ _ _ hi hs => snap_kept_step hs hname hi) tr st st' hg h

/-- every chunk a selected file needs is stored (consistent store) -/
theorem selected_chunks_present {enc : Bool} {u : User} {sre fre : Nat → Bool} {s : Store} (hc : Consistent enc s) (hu : UserOk enc u)
    {fr : FileRec} (hfr : fr ∈ selectFiles fre (readableNewestFirst (loadedPure enc u sre s))) {c : Content} (hcn : c ∈ fr.needs) :
    get s (.chunk u.fam c) = some (.chunk u.fam c) := by
  obtain ⟨hwf, hfam, href⟩ := hc
  obtain ⟨_, hfs⟩ := (mem_selectFiles fre _ fr).mp hfr
  obtain ⟨b, hb, hfind⟩ := exists_of_findSome?_eq_some hfs
  have hfb : fr ∈ b.files := mem_of_find?_eq_some hfind
  obtain ⟨f, sid, hg, _, hvis, _⟩ := (mem_readable hwf b).mp hb
  have hfu : f = u.fam := visible_fam hu hfam hg hvis
  obtain ⟨hchunks, hneeds, _⟩ := href f sid b hg
  rw [← hfu]
  exact hchunks c (hneeds fr hfb c hcn)

/-- in a consistent store `restore` never fails: it writes the selected files -/
theorem restore_ok_of_consistent {enc : Bool} {u : User} (sre fre : Nat → Bool) {s : Store} (hc : Consistent enc s) (hu : UserOk enc u) :
    restore enc u sre fre s = .ok (selectFiles fre (readableNewestFirst (loadedPure enc u sre s))) := by
  unfold restore
  rw [loadSnapshots_wf enc u sre s hc.1]
  simp only
  have hall : ((selectFiles fre (readableNewestFirst (loadedPure enc u sre s))).all (fun f => f.needs.all (chunkOk u s))) = true := by
    rw [all_eq_true]
    intro fr hfr
    rw [all_eq_true]
    intro c hcn
    unfold chunkOk
    rw [selected_chunks_present hc hu hfr hcn]
    simp
  rw [hall]
  rfl

/-- a restore that lists in `s` and downloads every chunk from a store in which the chunk objects of `s` are still what they
were returns what the atomic restore in `s` returns -/
theorem restoreSpan_eq {enc : Bool} {u : User} (sre fre : Nat → Bool) {s : Store} (hc : Consistent enc s) (hu : UserOk enc u)
    (later : Content → Store) (hle : ∀ c, ChunkLe s (later c)) :
    restoreSpan enc u sre fre s later = restore enc u sre fre s := by
  rw [restore_ok_of_consistent sre fre hc hu]
  unfold restoreSpan
  rw [loadSnapshots_wf enc u sre s hc.1]
  simp only
  have hall : ((selectFiles fre (readableNewestFirst (loadedPure enc u sre s))).all
      (fun f => f.needs.all (fun c => chunkOk u (later c) c))) = true := by
    rw [all_eq_true]
    intro fr hfr
    rw [all_eq_true]
    intro c hcn
    unfold chunkOk
    rw [hle c _ _ (selected_chunks_present hc hu hfr hcn)]
    simp
  rw [hall]
  rfl

theorem predOf_single (sid : Nat) : predOf (some [sid]) = fun x => x == sid := by
  funext x
  simp only [predOf, contains_cons, contains_nil, Bool.or_false]

end Replicat.Repo
